import RosuModel.Model.TaikoPre
namespace Rosu.TaikoPre
variable {T : Type}

theorem range'_snoc (s i : Nat) (h : s ≤ i) :
    List.range' s (i - s) ++ [i] = List.range' s (i + 1 - s) := by
  have e : i + 1 - s = (i - s) + 1 := by omega
  rw [e, List.range'_concat]
  have : s + 1 * (i - s) = i := by omega
  rw [this]

theorem csub_some (a b : Nat) (h : b ≤ a) : csub a b = some (a - b) := by
  simp [csub, h]

theorem groupWhile_spec (A : Arith T) (iv : List T) (lenM1 s : Nat) (h1 : lenM1 + 1 = iv.length) :
    ∀ fuel i, s < i → i ≤ iv.length → iv.length + 1 ≤ fuel + i →
      ∃ ret i', groupWhile A iv lenM1 fuel i (List.range' s (i - s))
          = some (ret, List.range' s (i' - s), i') ∧ i ≤ i' ∧ i' ≤ iv.length := by
  intro fuel
  induction fuel with
  | zero => intro i _ h2 h3; omega
  | succ fuel ih =>
    intro i hs hi hf
    unfold groupWhile
    by_cases hlt : i < lenM1
    · have ha : iv[i]? = some (iv[i]'(by omega)) := List.getElem?_eq_getElem (by omega)
      have hb : iv[i+1]? = some (iv[i+1]'(by omega)) := List.getElem?_eq_getElem (by omega)
      simp only [hlt, if_true, ha, hb, Option.bind_eq_bind, Option.bind_some]
      by_cases hae : almostEq A (iv[i]'(by omega)) (iv[i+1]'(by omega)) = true
      · simp only [hae, Bool.not_true, Bool.false_eq_true, if_false]
        rw [range'_snoc s i (by omega)]
        obtain ⟨ret, i', h, h2, h3⟩ := ih (i+1) (by omega) (by omega) (by omega)
        exact ⟨ret, i', h, by omega, h3⟩
      · simp only [hae, Bool.not_false, if_true]
        by_cases hl : A.lt (A.add (iv[i]'(by omega)) (A.ofNat 5)) (iv[i+1]'(by omega)) = true
        · simp only [hl, if_true]
          refine ⟨true, i+1, ?_, by omega, by omega⟩
          rw [range'_snoc s i (by omega)]
        · simp only [hl]
          exact ⟨true, i, rfl, by omega, hi⟩
    · simp only [hlt, if_false]
      exact ⟨false, i, rfl, by omega, hi⟩

theorem createNextGroup_spec (A : Arith T) (iv : List T) (i : Nat) (hi : i < iv.length) :
    ∃ i', createNextGroup A iv i = some (List.range' i (i' - i), i') ∧ i < i' ∧ i' ≤ iv.length := by
  unfold createNextGroup
  have ha : iv[i]? = some (iv[i]) := List.getElem?_eq_getElem hi
  have hg := groupWhile_spec A iv (iv.length - 1) i (by omega) (iv.length + 1) (i + 1)
    (by omega) (by omega) (by omega)
  obtain ⟨ret, i', hg, h2, h3⟩ := hg
  have e1 : List.range' i (i + 1 - i) = [i] := by
    have : i + 1 - i = 1 := by omega
    rw [this]; rfl
  rw [e1] at hg
  simp only [ha, csub_some iv.length 1 (by omega), hg, Option.bind_eq_bind, Option.bind_some]
  cases ret with
  | true => exact ⟨i', by simp, by omega, h3⟩
  | false =>
    simp only [Bool.false_eq_true, if_false]
    by_cases hc : 2 < iv.length ∧ i' < iv.length
    · have hx : iv[iv.length - 1]? = some (iv[iv.length - 1]'(by omega)) :=
        List.getElem?_eq_getElem (by omega)
      have hy : iv[iv.length - 2]? = some (iv[iv.length - 2]'(by omega)) :=
        List.getElem?_eq_getElem (by omega)
      have hz : iv[i']? = some (iv[i']'(by omega)) := List.getElem?_eq_getElem (by omega)
      simp only [hc, and_self, if_true, csub_some iv.length 2 (by omega), hx, hy, hz,
        Option.bind_some]
      by_cases hae : almostEq A (iv[iv.length - 1]'(by omega)) (iv[iv.length - 2]'(by omega)) = true
      · simp only [hae, if_true]
        refine ⟨i' + 1, ?_, by omega, by omega⟩
        rw [range'_snoc i i' (by omega)]
      · simp only [hae]
        exact ⟨i', by simp, by omega, h3⟩
    · simp only [hc, if_false]
      exact ⟨i', rfl, by omega, h3⟩

theorem groupAll_spec (A : Arith T) (iv : List T) :
    ∀ fuel i, i ≤ iv.length → iv.length + 1 ≤ fuel + i →
      ∃ gs, groupAll A iv fuel i = some gs ∧ gs.flatten = List.range' i (iv.length - i) ∧
        ∀ g ∈ gs, g ≠ [] := by
  intro fuel
  induction fuel with
  | zero => intro i h2 h3; omega
  | succ fuel ih =>
    intro i hi hf
    unfold groupAll
    by_cases hlt : i < iv.length
    · obtain ⟨i', hc, h1, h2⟩ := createNextGroup_spec A iv i hlt
      obtain ⟨gs, hg, hfl, hne⟩ := ih i' h2 (by omega)
      simp only [hlt, if_true, hc, hg, Option.bind_eq_bind, Option.bind_some]
      refine ⟨_, rfl, ?_, ?_⟩
      · rw [List.flatten_cons, hfl]
        have := @List.range'_append i (i' - i) (iv.length - i') 1
        have e : i + 1 * (i' - i) = i' := by omega
        rw [e] at this
        rw [this]
        congr 1; omega
      · intro g hg
        rcases List.mem_cons.mp hg with rfl | hg
        · intro h
          have := congrArg List.length h
          simp at this; omega
        · exact hne g hg
    · simp only [hlt, if_false]
      refine ⟨[], rfl, ?_, by simp⟩
      have : iv.length - i = 0 := by omega
      rw [this]; rfl

/-- `group_by_interval` never fails (no index out of range, no `len - 1` underflow, fuel suffices), and its
groups are non-empty and partition `0 … len-1` in order. -/
theorem groupByInterval_spec (A : Arith T) (iv : List T) :
    ∃ gs, groupByInterval A iv = some gs ∧ gs.flatten = List.range iv.length ∧ ∀ g ∈ gs, g ≠ [] := by
  obtain ⟨gs, h, hf, hn⟩ := groupAll_spec A iv (iv.length + 1) 0 (by omega) (by omega)
  refine ⟨gs, h, ?_, hn⟩
  rw [hf, List.range_eq_range']; rfl

/-! ## Generic helpers -/

section Helpers
variable {α β γ : Type}

theorem obind_some (a : α) (f : α → Option β) : (some a).bind f = f a := rfl

theorem mapM_eq_some_map (f : α → Option β) (g : α → β) :
    ∀ l : List α, (∀ x ∈ l, f x = some (g x)) → l.mapM f = some (l.map g)
  | [], _ => by simp
  | a :: l, h => by
    rw [List.mapM_cons, h a (by simp), mapM_eq_some_map f g l (fun x hx => h x (by simp [hx]))]
    rfl

theorem mapM_spec (f : α → Option β) (P : α → β → Prop) :
    ∀ l : List α, (∀ x ∈ l, ∃ y, f x = some y ∧ P x y) →
      ∃ ys, l.mapM f = some ys ∧ ys.length = l.length ∧
        ∀ i (h1 : i < l.length) (h2 : i < ys.length), P l[i] ys[i]
  | [], _ => ⟨[], by simp, rfl, by intro i h1; simp at h1⟩
  | a :: l, h => by
    obtain ⟨y, hy, hp⟩ := h a (by simp)
    obtain ⟨ys, hys, hl, hP⟩ := mapM_spec f P l (fun x hx => h x (by simp [hx]))
    refine ⟨y :: ys, ?_, by simp [hl], ?_⟩
    · rw [List.mapM_cons, hy, hys]; rfl
    · intro i h1 h2
      cases i with
      | zero => exact hp
      | succ i => exact hP i (by simpa using h1) (by simpa using h2)

theorem mapM_some_of_forall (f : α → Option β) (l : List α) (h : ∀ x ∈ l, ∃ y, f x = some y) :
    ∃ ys, l.mapM f = some ys ∧ ys.length = l.length := by
  obtain ⟨ys, h1, h2, _⟩ := mapM_spec f (fun _ _ => True) l
    (fun x hx => by obtain ⟨y, hy⟩ := h x hx; exact ⟨y, hy, trivial⟩)
  exact ⟨ys, h1, h2⟩

theorem range_map_getD (l : List α) (d : α) :
    (List.range l.length).map (fun i => l.getD i d) = l := by
  apply List.ext_getElem
  · simp
  · intro i h1 h2
    simp [List.getD_eq_getElem?_getD, List.getElem?_eq_getElem h2]

theorem zipIdx_flatMap_fst (l : List α) (F : α → List β) (G : α × Nat → List β)
    (h : ∀ x, G x = F x.1) : l.zipIdx.flatMap G = l.flatMap F := by
  have : G = fun x => F x.1 := funext h
  subst this
  rw [← List.flatMap_map Prod.fst F, List.zipIdx_map_fst]

theorem flatten_flatMap (L : List (List α)) (m : α → List β) :
    L.flatten.flatMap m = L.flatMap (fun l => l.flatMap m) := by
  rw [← List.flatMap_id, List.flatMap_assoc]; rfl

theorem lookupLast_isSome_iff_mem (es : List (Nat × α)) (p : Nat) :
    (lookupLast es p).isSome = true ↔ p ∈ es.map Prod.fst := by
  unfold lookupLast
  rw [Option.isSome_map, List.find?_isSome]
  simp

end Helpers

/-! ## Rhythm groups -/

theorem startTimeOf_some (st : Store T) (ms : List Nat) (h : ∀ p ∈ ms, p < st.objects.length) :
    ∃ r, startTimeOf st ms = some r := by
  cases ms with
  | nil => exact ⟨none, rfl⟩
  | cons p t =>
    have hp : p < st.objects.length := h p (by simp)
    simp only [startTimeOf, List.getElem?_eq_getElem hp]
    exact ⟨_, rfl⟩

theorem durationOf_some (A : Arith T) (st : Store T) (ms : List Nat)
    (h : ∀ p ∈ ms, p < st.objects.length) : ∃ r, durationOf A st ms = some r := by
  unfold durationOf
  obtain ⟨s0, hs0⟩ := startTimeOf_some st ms h
  cases hl : ms.getLast? with
  | none => exact ⟨none, rfl⟩
  | some pl =>
    have hp : pl < st.objects.length := h pl (List.mem_of_getLast? hl)
    simp only [List.getElem?_eq_getElem hp, hs0, Option.bind_eq_bind, Option.bind_some]
    cases s0 <;> exact ⟨_, rfl⟩

theorem newRGroup_spec (A : Arith T) (st : Store T) (prev : Option (RGroup T)) (ms : List Nat)
    (hm : ∀ p ∈ ms, p < st.objects.length)
    (hp : ∀ g, prev = some g → ∀ p ∈ g.members, p < st.objects.length) :
    ∃ rg, newRGroup A st prev ms = some rg ∧ rg.members = ms := by
  obtain ⟨s0, hs0⟩ := startTimeOf_some st ms hm
  obtain ⟨dur, hdur⟩ := durationOf_some A st ms hm
  unfold newRGroup
  cases prev with
  | none =>
    by_cases hl : ms.length < 2
    · simp only [hl, if_true, hs0, Option.bind_eq_bind, Option.bind_some]
      exact ⟨_, rfl, rfl⟩
    · simp only [hl, if_false, hs0, hdur, csub_some ms.length 1 (by omega), Option.bind_eq_bind,
        Option.bind_some]
      exact ⟨_, rfl, rfl⟩
  | some g =>
    obtain ⟨ps, hps⟩ := startTimeOf_some st g.members (hp g rfl)
    by_cases hl : ms.length < 2
    · simp only [hl, if_true, hs0, hps, Option.bind_eq_bind, Option.bind_some]
      exact ⟨_, rfl, rfl⟩
    · simp only [hl, if_false, hs0, hps, hdur, csub_some ms.length 1 (by omega),
        Option.bind_eq_bind, Option.bind_some]
      exact ⟨_, rfl, rfl⟩

theorem buildRGroups_spec (A : Arith T) (st : Store T)
    (hn : ∀ p ∈ st.notes, p < st.objects.length) :
    ∀ (gs : List (List Nat)) (acc : List (RGroup T)),
      (∀ g ∈ gs, ∀ i ∈ g, i < st.notes.length) →
      (∀ rg ∈ acc, ∀ p ∈ rg.members, p < st.objects.length) →
      ∃ new, buildRGroups A st gs acc = some (acc ++ new) ∧
        new.map (·.members) = gs.map (fun g => g.map (fun i => st.notes.getD i 0)) := by
  intro gs
  induction gs with
  | nil => intro acc _ _; exact ⟨[], by simp [buildRGroups], rfl⟩
  | cons g rest ih =>
    intro acc hg hacc
    have hms : g.mapM (fun i => st.notes[i]?) = some (g.map (fun i => st.notes.getD i 0)) := by
      apply mapM_eq_some_map
      intro i hi
      have : i < st.notes.length := hg g (by simp) i hi
      simp [List.getD_eq_getElem?_getD, List.getElem?_eq_getElem this]
    have hmem : ∀ p ∈ g.map (fun i => st.notes.getD i 0), p < st.objects.length := by
      intro p hp
      obtain ⟨i, hi, rfl⟩ := List.mem_map.mp hp
      have : i < st.notes.length := hg g (by simp) i hi
      apply hn
      simp [List.getD_eq_getElem?_getD, List.getElem?_eq_getElem this]
    obtain ⟨rg, hrg, hrm⟩ := newRGroup_spec A st acc.getLast? _ hmem
      (fun g' hg' => hacc g' (List.mem_of_getLast? hg'))
    obtain ⟨new, hnew, hmap⟩ := ih (acc ++ [rg]) (fun g' h' => hg g' (by simp [h']))
      (by
        intro r hr
        rcases List.mem_append.mp hr with hr | hr
        · exact hacc r hr
        · have : r = rg := by simpa using hr
          subst this; rw [hrm]; exact hmem)
    refine ⟨rg :: new, ?_, ?_⟩
    · unfold buildRGroups
      simp only [hms, hrg, hnew, Option.bind_eq_bind, Option.bind_some]
      simp
    · simp [hrm, hmap]

theorem buildRGroups_nil_spec (A : Arith T) (st : Store T)
    (hn : ∀ p ∈ st.notes, p < st.objects.length) (gs : List (List Nat))
    (hfl : gs.flatten = List.range st.notes.length) (hne : ∀ g ∈ gs, g ≠ []) :
    ∃ rgs, buildRGroups A st gs [] = some rgs ∧ rgs.flatMap (·.members) = st.notes ∧
      (∀ g ∈ rgs, g.members ≠ []) ∧ rgs.length = gs.length := by
  have hlt : ∀ g ∈ gs, ∀ i ∈ g, i < st.notes.length := by
    intro g hg i hi
    have : i ∈ gs.flatten := List.mem_flatten.mpr ⟨g, hg, hi⟩
    rw [hfl] at this
    exact List.mem_range.mp this
  obtain ⟨rgs, h, hmap⟩ := buildRGroups_spec A st hn gs [] hlt (by simp)
  rw [List.nil_append] at h
  refine ⟨rgs, h, ?_, ?_, ?_⟩
  · rw [List.flatMap_def, hmap, ← List.map_flatten, hfl, range_map_getD]
  · intro rg hrg hnil
    have : rg.members ∈ rgs.map (·.members) := List.mem_map.mpr ⟨rg, hrg, rfl⟩
    rw [hmap] at this
    obtain ⟨g, hg, he⟩ := List.mem_map.mp this
    rw [hnil] at he
    exact hne g hg (by simpa using he)
  · have := congrArg List.length hmap
    simpa using this

/-! ## Pattern groups -/

theorem groupInterval_some (rgs : List (RGroup T)) (pg : List Nat) (hne : pg ≠ [])
    (h : ∀ g ∈ pg, g < rgs.length) : ∃ r, groupInterval rgs pg = some r := by
  unfold groupInterval
  cases pg with
  | nil => exact absurd rfl hne
  | cons g0 t =>
    cases t with
    | nil =>
      have h0 : g0 < rgs.length := h g0 (by simp)
      simp [List.getElem?_eq_getElem h0]
    | cons g1 t =>
      have h1 : g1 < rgs.length := h g1 (by simp)
      simp [List.getElem?_eq_getElem h1]

theorem intervalRatio_some (A : Arith T) (rgs : List (RGroup T)) (pgs : List (List Nat)) (k : Nat)
    (hk : k < pgs.length) (hgi : ∀ pg ∈ pgs, ∃ r, groupInterval rgs pg = some r) :
    ∃ r, intervalRatio A rgs pgs k = some r := by
  unfold intervalRatio
  obtain ⟨this, hthis⟩ := hgi pgs[k] (List.getElem_mem hk)
  cases k with
  | zero =>
    simp only [List.getElem?_eq_getElem hk, hthis, Option.bind_eq_bind, Option.bind_some]
    cases this <;> exact ⟨_, rfl⟩
  | succ k' =>
    have hk' : k' < pgs.length := by omega
    obtain ⟨prev, hprev⟩ := hgi pgs[k'] (List.getElem_mem hk')
    simp only [List.getElem?_eq_getElem hk, List.getElem?_eq_getElem hk', hthis, hprev,
      Option.bind_eq_bind, Option.bind_some]
    cases this <;> cases prev <;> exact ⟨_, rfl⟩

/-! ## Entries -/

theorem rhythmEntries_fst (rgs : List (RGroup T)) :
    (rhythmEntries rgs).map Prod.fst = rgs.flatMap (·.members) := by
  unfold rhythmEntries
  rw [List.map_flatMap]
  apply zipIdx_flatMap_fst
  intro x
  simp [List.map_map, Function.comp_def]

theorem patternEntries_spec (rgs : List (RGroup T)) (pgs : List (List Nat)) (d : RGroup T)
    (h : ∀ pg ∈ pgs, ∀ g ∈ pg, g < rgs.length) :
    ∃ pe, patternEntries rgs pgs = some pe ∧
      pe.map Prod.fst = pgs.flatten.flatMap (fun g => (rgs.getD g d).members) := by
  unfold patternEntries
  have hm := mapM_eq_some_map
    (fun (x : List Nat × Nat) => (x.1.mapM fun g => rgs[g]?).bind fun gs =>
      some (gs.flatMap fun rg => rg.members.map fun p => (p, x.2)))
    (fun x => (x.1.map fun g => rgs.getD g d).flatMap fun rg => rg.members.map fun p => (p, x.2))
    pgs.zipIdx (by
      intro x hx
      have hx1 : x.1 ∈ pgs := by
        have : x.1 ∈ pgs.zipIdx.map Prod.fst := List.mem_map.mpr ⟨x, hx, rfl⟩
        rwa [List.zipIdx_map_fst] at this
      have : (x.1.mapM fun g => rgs[g]?) = some (x.1.map fun g => rgs.getD g d) := by
        apply mapM_eq_some_map
        intro g hg
        have : g < rgs.length := h x.1 hx1 g hg
        simp [List.getD_eq_getElem?_getD, List.getElem?_eq_getElem this]
      simp only [this, obind_some])
  refine ⟨(pgs.zipIdx.map fun x => (x.1.map fun g => rgs.getD g d).flatMap fun rg =>
    rg.members.map fun p => (p, x.2)).flatten, ?_, ?_⟩
  · exact congrArg (fun o => o.bind fun per => some per.flatten) hm
  · rw [List.map_flatten, List.map_map, ← List.flatMap_def, flatten_flatMap]
    apply zipIdx_flatMap_fst
    intro x
    simp [List.map_flatMap, List.flatMap_map, List.map_map, Function.comp_def]

def rhythmCell (re pe : List (Nat × Nat)) (p : Nat) : Option (Option (Nat × Nat)) :=
  match lookupLast re p, lookupLast pe p with
  | some r, some q => some (some (r, q))
  | none, none => some none
  | _, _ => none

theorem rhythmCell_spec (re pe : List (Nat × Nat)) (h : re.map Prod.fst = pe.map Prod.fst)
    (p : Nat) : ∃ c, rhythmCell re pe p = some c ∧ (c.isSome = true ↔ p ∈ re.map Prod.fst) := by
  have h1 := lookupLast_isSome_iff_mem re p
  have h2 := lookupLast_isSome_iff_mem pe p
  rw [← h] at h2
  unfold rhythmCell
  cases hr : lookupLast re p with
  | none =>
    cases hq : lookupLast pe p with
    | none =>
      rw [hr] at h1
      exact ⟨none, rfl, h1⟩
    | some q =>
      rw [hr] at h1; rw [hq] at h2
      exact absurd (h2.mp rfl) (fun hp => by simpa using h1.mpr hp)
  | some r =>
    cases hq : lookupLast pe p with
    | none =>
      rw [hr] at h1; rw [hq] at h2
      exact absurd (h1.mp rfl) (fun hp => by simpa using h2.mpr hp)
    | some q =>
      rw [hr] at h1
      exact ⟨some (r, q), rfl, h1⟩

theorem rhythmOf_eq (A : Arith T) (st : Store T) : rhythmOf A st =
    (st.notes.mapM fun p => (st.objects[p]?).map (·.delta)).bind fun noteIv =>
    (groupByInterval A noteIv).bind fun groups =>
    (buildRGroups A st groups []).bind fun rgs =>
    (groupByInterval A (rgs.map (·.interval))).bind fun pgs =>
    (pgs.mapM (groupInterval rgs)).bind fun pgi =>
    ((List.range pgs.length).mapM (intervalRatio A rgs pgs)).bind fun pgr =>
    ((rhythmEntries rgs).mapM fun e => st.objects[e.1]?).bind fun _ =>
    (patternEntries rgs pgs).bind fun pe =>
    (pe.mapM fun e => st.objects[e.1]?).bind fun _ =>
    ((List.range st.objects.length).mapM (rhythmCell (rhythmEntries rgs) pe)).bind fun rhythm =>
    some (rgs, pgs, pgi, pgr, rhythm) := rfl

/-- Everything about `rhythmOf` at once (the two theorems below are projections). -/
theorem rhythmOf_full (A : Arith T) (st : Store T) (hn : ∀ p ∈ st.notes, p < st.objects.length) :
    ∃ rgs pgs pgi pgr rh, rhythmOf A st = some (rgs, pgs, pgi, pgr, rh) ∧
      rgs.flatMap (·.members) = st.notes ∧ (∀ g ∈ rgs, g.members ≠ []) ∧
      pgs.flatten = List.range rgs.length ∧ (∀ pg ∈ pgs, pg ≠ []) ∧
      pgi.length = pgs.length ∧ pgr.length = pgs.length ∧ rh.length = st.objects.length ∧
      ∀ p (h : p < rh.length), rh[p].isSome = true ↔ p ∈ st.notes := by
  obtain ⟨noteIv, h1, hl1⟩ := mapM_some_of_forall
    (fun p => (st.objects[p]?).map (·.delta)) st.notes
    (fun p hp => by rw [List.getElem?_eq_getElem (hn p hp)]; exact ⟨_, rfl⟩)
  obtain ⟨groups, h2, hfl2, hne2⟩ := groupByInterval_spec A noteIv
  rw [hl1] at hfl2
  obtain ⟨rgs, h3, hmem, hrne, _⟩ := buildRGroups_nil_spec A st hn groups hfl2 hne2
  obtain ⟨pgs, h4, hfl4, hne4⟩ := groupByInterval_spec A (rgs.map (·.interval))
  rw [List.length_map] at hfl4
  have hlt : ∀ pg ∈ pgs, ∀ g ∈ pg, g < rgs.length := by
    intro pg hpg g hg
    have : g ∈ pgs.flatten := List.mem_flatten.mpr ⟨pg, hpg, hg⟩
    rw [hfl4] at this
    exact List.mem_range.mp this
  have hgi : ∀ pg ∈ pgs, ∃ r, groupInterval rgs pg = some r :=
    fun pg hpg => groupInterval_some rgs pg (hne4 pg hpg) (hlt pg hpg)
  obtain ⟨pgi, h5, hl5⟩ := mapM_some_of_forall (groupInterval rgs) pgs hgi
  obtain ⟨pgr, h6, hl6⟩ := mapM_some_of_forall (intervalRatio A rgs pgs) (List.range pgs.length)
    (fun k hk => intervalRatio_some A rgs pgs k (List.mem_range.mp hk) hgi)
  have hre : (rhythmEntries rgs).map Prod.fst = st.notes := by rw [rhythmEntries_fst, hmem]
  have hderef : ∀ es : List (Nat × Nat), es.map Prod.fst = st.notes →
      ∃ xs, es.mapM (fun e => st.objects[e.1]?) = some xs := by
    intro es hes
    obtain ⟨xs, hxs, _⟩ := mapM_some_of_forall (fun e : Nat × Nat => st.objects[e.1]?) es
      (fun e he => by
        have : e.1 ∈ st.notes := by rw [← hes]; exact List.mem_map.mpr ⟨e, he, rfl⟩
        rw [List.getElem?_eq_getElem (hn _ this)]; exact ⟨_, rfl⟩)
    exact ⟨xs, hxs⟩
  obtain ⟨x7, h7⟩ := hderef _ hre
  have d : RGroup T := ⟨[], none, A.inf, A.inf⟩
  obtain ⟨pe, h8, hpe⟩ := patternEntries_spec rgs pgs d hlt
  have hpe' : pe.map Prod.fst = st.notes := by
    have := List.flatMap_map (fun g => rgs.getD g d) (fun rg : RGroup T => rg.members)
      (List.range rgs.length)
    rw [range_map_getD] at this
    rw [hpe, hfl4, ← this, hmem]
  obtain ⟨x9, h9⟩ := hderef _ hpe'
  obtain ⟨rh, h10, hl10, hP⟩ := mapM_spec (rhythmCell (rhythmEntries rgs) pe)
    (fun p c => c.isSome = true ↔ p ∈ st.notes) (List.range st.objects.length)
    (fun p _ => by
      have := rhythmCell_spec _ _ (hre.trans hpe'.symm) p
      rwa [hre] at this)
  refine ⟨rgs, pgs, pgi, pgr, rh, ?_, hmem, hrne, hfl4, hne4, hl5, by simpa using hl6,
    by simpa using hl10, ?_⟩
  · rw [rhythmOf_eq, h1, obind_some, h2, obind_some, h3, obind_some, h4, obind_some, h5,
      obind_some, h6, obind_some, h7, obind_some, h8, obind_some, h9, obind_some, h10, obind_some]
  · intro p hp
    have := hP p (by rw [← hl10]; exact hp) hp
    simpa using this

/-- Rhythm preprocessing of a store whose note pointers are valid never fails; the rhythm groups partition
the notes in order, the pattern groups partition the rhythm groups in order, all are non-empty. -/
theorem rhythmOf_spec (A : Arith T) (st : Store T) (hn : ∀ p ∈ st.notes, p < st.objects.length) :
    ∃ rgs pgs pgi pgr rh, rhythmOf A st = some (rgs, pgs, pgi, pgr, rh) ∧
      rgs.flatMap (·.members) = st.notes ∧ (∀ g ∈ rgs, g.members ≠ []) ∧
      pgs.flatten = List.range rgs.length ∧ (∀ pg ∈ pgs, pg ≠ []) ∧
      pgi.length = pgs.length ∧ pgr.length = pgs.length ∧ rh.length = st.objects.length := by
  obtain ⟨rgs, pgs, pgi, pgr, rh, h1, h2, h3, h4, h5, h6, h7, h8, _⟩ := rhythmOf_full A st hn
  exact ⟨rgs, pgs, pgi, pgr, rh, h1, h2, h3, h4, h5, h6, h7, h8⟩

/-- In addition: exactly the notes get a rhythm assignment (the `| _, _ => none` branch of the final
pass is never taken, and a non-note is never assigned). -/
theorem rhythmOf_assigned (A : Arith T) (st : Store T) (hn : ∀ p ∈ st.notes, p < st.objects.length) :
    ∃ rgs pgs pgi pgr rh, rhythmOf A st = some (rgs, pgs, pgi, pgr, rh) ∧
      rgs.flatMap (·.members) = st.notes ∧ (∀ g ∈ rgs, g.members ≠ []) ∧
      pgs.flatten = List.range rgs.length ∧ (∀ pg ∈ pgs, pg ≠ []) ∧
      pgi.length = pgs.length ∧ pgr.length = pgs.length ∧ rh.length = st.objects.length ∧
      ∀ p (h : p < rh.length), rh[p].isSome = true ↔ p ∈ st.notes :=
  rhythmOf_full A st hn

end Rosu.TaikoPre
