import RosuModel.Lemmas.ManiaPatternSafeHit

/-!
(b) for `PathObjectPatternGenerator`: under `PathWf` (what the constructor and the conversion
invariants provide) `generate()` completes or runs out of fuel in a random retry loop.
-/
namespace Rosu.ManiaPattern
open Rosu.Safety Rosu.Rng Rosu.ConvertWF

variable {F : Type}

/-- what the path generator relies on -/
structure PathWf (g : PathIn F) : Prop where
  span_pos : 1 ≤ g.span
  seg_nonneg : 0 ≤ g.seg
  lo : -2147483648 ≤ g.startT
  order : g.startT ≤ g.endT
  len : g.endT - g.startT ≤ 2147483647
  hi : g.endT ≤ 2147483647
  /-- `segment_duration = (end_time - start_time) / span_count` rounds towards zero -/
  seg_span : g.seg * g.span ≤ g.endT - g.startT
  /-- the i32 time arithmetic fits: the last `start_time += segment_duration` -/
  fit : g.startT + g.seg * (g.span + 1) ≤ 2147483647
  /-- previous pattern inside `[0, total)` -/
  prevIn : ∀ c, g.prev.cols.testBit c = true → c < g.total
  /-- 7K+1: one of the columns 1–7 is free in the previous pattern -/
  free8 : g.total = 8 → ∃ c, 1 ≤ c ∧ c < 8 ∧ g.prev.cols.testBit c = false

theorem Cols.len_le_of_in (p : Cols) (T : Nat) (hT : T ≤ 16) (hin : ∀ c, p.testBit c = true → c < T) :
    Cols.len p ≤ T := by
  rw [Cols.len_eq_countP]
  have h1 : (List.range 16).countP (fun i => p.testBit i) ≤ (List.range 16).countP (fun i => decide (i < T)) := by
    apply List.countP_mono_left
    intro i _ hi
    simpa using hin i hi
  have h2 := filter_lt_range_length T 16
  rw [← List.countP_eq_length_filter] at h2
  omega

theorem inclusiveIters_safe {n : Int} (hn : 0 ≤ n) (fuel : Nat) :
    OkOrFuel (inclusiveIters n fuel) := by
  unfold inclusiveIters
  rw [if_neg (by omega)]
  split
  · exact Or.inr rfl
  · exact OkOrFuel.ok _

theorem time_step {t seg M : Int} {k : Nat} (hseg : 0 ≤ seg) (hk : t + ((k + 1 : Nat) : Int) * seg ≤ M) :
    t + seg ≤ M ∧ (t + seg) + (k : Int) * seg ≤ M := by
  have hmul : ((k + 1 : Nat) : Int) * seg = (k : Int) * seg + seg := by
    rw [Int.natCast_succ, Int.add_mul, Int.one_mul]
  have hnn : 0 ≤ (k : Int) * seg := Int.mul_nonneg (Int.natCast_nonneg k) hseg
  omega

section path
variable {A : PArith F} (hP : ProbLaw A) (g : PathIn F) (h1 : 1 ≤ g.total) (h16 : g.total ≤ 16)
include hP h1 h16

theorem pathFind_safe (avoid : Option Nat) (pats : List Cols) (s : Osu) (init : Nat) (hi : init < g.total)
    (hfree : ∃ c, randomStart g.total ≤ c ∧ c < g.total ∧ isValidA avoid pats c = .ok true) :
    OkOrFuel (pathFind A g avoid pats s init) := by
  unfold pathFind
  exact findAvail_totalB g.total h16 _ _ _ _ _ _ _ _ h16 hi
    (fun s col _ => randomNext_totalB hP.toRangeLaw (randomStart_lt h1) h16 s col) hfree

omit hP in
theorem pathHoldLoop_len (withPrev : Bool) (t : Int) :
    ∀ (k : Nat) (pat : Pat) (c : Nat) (s : Osu) (r : Pat × Nat × Osu),
      pathHoldLoop A g withPrev t k pat c s = .ok r → Cols.len r.1.cols ≤ Cols.len pat.cols + k := by
  intro k
  induction k with
  | zero => intro pat c s r h; unfold pathHoldLoop at h; cases h; simp
  | succ k ih =>
    intro pat c s r h
    unfold pathHoldLoop at h
    obtain ⟨⟨c', s'⟩, _, h2⟩ := bind_ok h
    simp only at h2
    obtain ⟨pat', ha, h3⟩ := bind_ok h2
    have := ih pat' c' s' r h3
    rw [Pat.add_cols ha] at this
    have := Cols.len_insert_le pat.cols c'
    omega

theorem pathHoldLoop_safe (withPrev : Bool) (t : Int) :
    ∀ (k : Nat) (pat : Pat) (c : Nat) (s : Osu), c < g.total →
      (k = 0 ∨ Cols.len pat.cols + k + (if withPrev then Cols.len g.prev.cols else 0) + randomStart g.total
        ≤ g.total) →
      OkOrFuel (pathHoldLoop A g withPrev t k pat c s) := by
  intro k
  induction k with
  | zero => intro pat c s _ _; unfold pathHoldLoop; exact OkOrFuel.ok _
  | succ k ih =>
    intro pat c s hc hinv
    have hinv' : Cols.len pat.cols + (k + 1) + (if withPrev then Cols.len g.prev.cols else 0)
        + randomStart g.total ≤ g.total := by
      rcases hinv with h | h
      · omega
      · exact h
    unfold pathHoldLoop
    have hfind : OkOrFuel (pathFind A g none (if withPrev then [pat.cols, g.prev.cols] else [pat.cols]) s c) := by
      apply pathFind_safe hP g h1 h16 _ _ _ _ hc
      cases withPrev
      · obtain ⟨c0, h1', h2', h3', _⟩ := free_of_count pat.cols 0 (randomStart g.total) g.total h16
          (by simp only [Bool.false_eq_true, if_false] at hinv'; rw [Cols.len_zero]; omega)
        exact ⟨c0, h1', h2', by simpa using isValidA_none_one (by omega) h3'⟩
      · obtain ⟨c0, h1', h2', h3', h4'⟩ := free_of_count pat.cols g.prev.cols (randomStart g.total) g.total h16
          (by simp only [if_true] at hinv'; omega)
        exact ⟨c0, h1', h2', by simpa using isValidA_none_two (by omega) h3' h4'⟩
    refine OkOrFuel.bind hfind ?_
    rintro ⟨c', s'⟩ hf
    have hc' := pathFind_inv hP.toRangeLaw g h1 h16 _ _ _ _ _ _ hc hf
    simp only
    rw [Pat.add_safe pat _ (by omega : c' < 16), ok_bind]
    apply ih _ c' s' hc'
    right
    have := Cols.len_insert_le pat.cols c'
    simp only
    omega

theorem pathRandomHoldNotes_safe (hw : PathWf g) (t : Int) (n : Int) (s : Osu)
    (hn : n + randomStart g.total ≤ g.total) (hn4 : n ≤ 4) :
    OkOrFuel (pathRandomHoldNotes A g t n s) := by
  unfold pathRandomHoldNotes
  simp only
  have hrs := randomStart_le g.total
  have hlen := Cols.len_le_of_in g.prev.cols g.total h16 hw.prevIn
  have hb := getRandomColumn_bounds hP.toRangeLaw s (randomStart g.total) g.total (randomStart_lt h1) (by omega)
  generalize getRandomColumn A s (randomStart g.total) g.total = c0 at hb ⊢
  obtain ⟨c0, s0⟩ := c0
  simp only at hb ⊢
  have hT8 : randomStart g.total = 0 ∨ g.total = 8 := by unfold randomStart; split <;> omega
  refine OkOrFuel.bind (pathHoldLoop_safe hP g h1 h16 true t _ _ _ _ hb.2 ?_) ?_
  · simp only [Pat.empty, Cols.len_zero, if_true, Pat.count]
    by_cases h0 : (min ((g.total : Int) - randomStart g.total - Cols.len g.prev.cols) n).toNat = 0
    · exact Or.inl h0
    · right; omega
  · rintro ⟨pat, c1, s1⟩ hl1
    have hlen1 := pathHoldLoop_len g h1 h16 true t _ _ _ _ _ hl1
    have hc1 := (pathHoldLoop_ok hP.toRangeLaw g h1 h16 true t _ _ _ _ _ (PatOk.empty _) hb.2 hl1).2
    simp only [Pat.empty, Cols.len_zero, Pat.count] at hlen1 hc1 ⊢
    refine OkOrFuel.bind (pathHoldLoop_safe hP g h1 h16 false t _ _ _ _ hc1 ?_) ?_
    · simp only [Bool.false_eq_true, if_false]
      by_cases h0 : (n - ((g.total : Int) - randomStart g.total - Cols.len g.prev.cols)).toNat = 0
      · exact Or.inl h0
      · right; omega
    · rintro ⟨pat2, c2, s2⟩ _
      exact OkOrFuel.ok _

theorem pathAvoidPrev_safe (hw : PathWf g) (ct c : Nat) (s : Osu) (hc : c < g.total) :
    OkOrFuel (pathAvoidPrev A g ct c s) := by
  unfold pathAvoidPrev
  split
  · rename_i hcond
    simp only [Bool.and_eq_true, decide_eq_true_eq] at hcond
    apply pathFind_safe hP g h1 h16 _ _ _ _ hc
    by_cases h8 : g.total = 8
    · obtain ⟨c0, h1', h2', h3'⟩ := hw.free8 h8
      refine ⟨c0, ?_, by omega, isValidA_none_one (by omega) h3'⟩
      unfold randomStart; rw [if_pos h8]; exact h1'
    · obtain ⟨c0, h2', h3'⟩ := free_of_count_ne g.prev.cols g.total h16 hw.prevIn
        (by have := hcond.2; unfold Pat.count at this; omega)
      refine ⟨c0, ?_, h2', isValidA_none_one (by omega) h3'⟩
      unfold randomStart; rw [if_neg h8]; omega
  · exact OkOrFuel.ok _

theorem pathRandomNotesLoop_safe (hw : PathWf g) (h2 : 2 ≤ g.total) :
    ∀ (k : Nat) (pat : Pat) (c last : Nat) (t : Int) (s : Osu), c < g.total →
      -2147483648 ≤ t → t + (k : Int) * g.seg ≤ 2147483647 →
      OkOrFuel (pathRandomNotesLoop A g k pat c last t s) := by
  intro k
  induction k with
  | zero => intro pat c last t s _ _ _; unfold pathRandomNotesLoop; exact OkOrFuel.ok _
  | succ k ih =>
    intro pat c last t s hc hlo hk
    unfold pathRandomNotesLoop
    rw [Pat.add_safe pat _ (by omega : c < 16), ok_bind]
    have hT8 : randomStart g.total = 0 ∨ (randomStart g.total = 1 ∧ g.total = 8) := by
      unfold randomStart; split <;> omega
    have hfind : OkOrFuel (pathFind A g (some last) [] s c) := by
      apply pathFind_safe hP g h1 h16 _ _ _ _ hc
      by_cases hl : last = randomStart g.total
      · refine ⟨randomStart g.total + 1, by omega, by omega, ?_⟩
        rw [isValidA_eq _ _ (by omega)]
        have : ¬ (last = randomStart g.total + 1) := by omega
        simp [this]
      · refine ⟨randomStart g.total, by omega, by omega, ?_⟩
        rw [isValidA_eq _ _ (by omega)]
        simp [hl]
    refine OkOrFuel.bind hfind ?_
    rintro ⟨c', s'⟩ hf
    have hc' := pathFind_inv hP.toRangeLaw g h1 h16 _ _ _ _ _ _ hc hf
    simp only
    have ts := time_step hw.seg_nonneg hk
    have := hw.seg_nonneg
    rw [i32add_safe (by omega) ts.1, ok_bind]
    exact ih _ c' c' _ s' hc' (by omega) ts.2

theorem pathRandomNotes_safe (hw : PathWf g) (h2 : 2 ≤ g.total) (ct : Nat) (n : Int) (s : Osu)
    (hn : n ≤ g.span + 1) : OkOrFuel (pathRandomNotes A g ct g.startT n s) := by
  unfold pathRandomNotes
  have hcs := getColumnSpecial_lt h1 h16 g.x
  refine OkOrFuel.bind (pathAvoidPrev_safe hP g h1 h16 hw ct _ s hcs) ?_
  rintro ⟨c, s1⟩ ha
  have hc := pathAvoidPrev_inv hP.toRangeLaw g h1 h16 _ _ _ _ hcs ha
  apply pathRandomNotesLoop_safe hP g h1 h16 hw h2 _ _ _ _ _ _ hc hw.lo
  have hfit := hw.fit
  have hseg := hw.seg_nonneg
  have : ((n.toNat : Nat) : Int) * g.seg ≤ (g.span + 1) * g.seg :=
    Int.mul_le_mul_of_nonneg_right (by have := hw.span_pos; omega) hseg
  rw [Int.mul_comm (g.span + 1) g.seg] at this
  omega

omit hP in
theorem pathStairLoop_safe (hw : PathWf g) (h2 : 2 ≤ g.total) :
    ∀ (k : Nat) (pat : Pat) (column : Int) (inc : Bool) (t : Int),
      (0 ≤ column ∧ column ≤ (g.total : Int) - 1) →
      -2147483648 ≤ t → t + (k : Int) * g.seg ≤ 2147483647 →
      OkOrFuel (pathStairLoop g k pat column inc t) := by
  intro k
  induction k with
  | zero => intro pat column inc t _ _ _; unfold pathStairLoop; exact OkOrFuel.ok _
  | succ k ih =>
    intro pat column inc t hc hlo hk
    unfold pathStairLoop
    have hrs : randomStart g.total = 0 ∨ (randomStart g.total = 1 ∧ g.total = 8) := by
      unfold randomStart; split <;> omega
    have hu : asU8 column < 16 := by
      have := asU8_of_range (v := column) hc.1 (by omega)
      omega
    have ts := time_step hw.seg_nonneg hk
    have := hw.seg_nonneg
    rw [Pat.add_safe pat _ hu, ok_bind, i32add_safe (by omega) ts.1, ok_bind]
    split
    · split
      · exact ih _ _ _ _ (by omega) (by omega) ts.2
      · exact ih _ _ _ _ (by omega) (by omega) ts.2
    · split
      · exact ih _ _ _ _ (by omega) (by omega) ts.2
      · exact ih _ _ _ _ (by omega) (by omega) ts.2

theorem iters_fit (hw : PathWf g) {k : Nat} (hk : (k : Int) = g.span + 1) :
    g.startT + (k : Int) * g.seg ≤ 2147483647 := by
  have := hw.fit
  rw [hk, Int.mul_comm]
  exact this

theorem pathStair_safe (hw : PathWf g) (h2 : 2 ≤ g.total) (s : Osu) :
    OkOrFuel (pathStair A g g.startT s) := by
  unfold pathStair
  simp only
  generalize nextDouble A s = nd
  obtain ⟨v, s1⟩ := nd
  simp only
  refine OkOrFuel.bind (inclusiveIters_safe (by have := hw.span_pos; omega) _) ?_
  intro iters hi
  have hk := (inclusiveIters_ok hi).2
  have hc := getColumnSpecial_lt h1 h16 g.x
  refine OkOrFuel.bind (pathStairLoop_safe g h1 h16 hw h2 _ _ _ _ _ (by omega) hw.lo
    (iters_fit hP g h1 h16 hw hk)) ?_
  intro pat _
  exact OkOrFuel.ok _

theorem pathMultipleLoop_safe (hw : PathWf g) (h2 : 2 ≤ g.total) (interval legacy : Int)
    (hleg : legacy = if 4 ≤ g.total ∧ g.total ≤ 8 then 1 else 0)
    (hiv : 1 ≤ interval ∧ interval < (g.total : Int) - legacy) :
    ∀ (k : Nat) (pat : Pat) (c : Int) (t : Int) (s : Osu), (0 ≤ c ∧ c < g.total) →
      -2147483648 ≤ t → t + (k : Int) * g.seg ≤ 2147483647 →
      OkOrFuel (pathMultipleLoop A g interval legacy k pat c t s) := by
  intro k
  induction k with
  | zero => intro pat c t s _ _ _; unfold pathMultipleLoop; exact OkOrFuel.ok _
  | succ k ih =>
    intro pat c t s hc hlo hk
    unfold pathMultipleLoop
    simp only
    have hu : asU8 c < 16 := by
      have := asU8_of_range (v := c) hc.1 (by omega)
      omega
    rw [Pat.add_safe pat _ hu, ok_bind]
    have hnc : asU8 ((if c + interval ≥ (g.total : Int) - randomStart g.total
          then c + interval - g.total - randomStart g.total + legacy else c + interval) + randomStart g.total) < 16 := by
      have hr : (randomStart g.total : Int) = if g.total = 8 then 1 else 0 := by
        unfold randomStart; split <;> rfl
      have h0 : 0 ≤ (if c + interval ≥ (g.total : Int) - randomStart g.total
          then c + interval - g.total - randomStart g.total + legacy else c + interval) + randomStart g.total ∧
          (if c + interval ≥ (g.total : Int) - randomStart g.total
          then c + interval - g.total - randomStart g.total + legacy else c + interval) + randomStart g.total < g.total := by
        rw [hr, hleg]
        repeat' split
        all_goals omega
      have := asU8_of_range h0.1 (by omega)
      omega
    have hb := getRandomColumn_bounds hP.toRangeLaw s (randomStart g.total) g.total (randomStart_lt h1) (by omega)
    have ts := time_step hw.seg_nonneg hk
    have := hw.seg_nonneg
    split
    · rw [Pat.add_safe _ _ hnc, ok_bind]
      generalize getRandomColumn A s (randomStart g.total) g.total = rc at hb ⊢
      obtain ⟨c', s'⟩ := rc
      simp only at hb ⊢
      rw [i32add_safe (by omega) ts.1, ok_bind]
      exact ih _ _ _ _ (by omega) (by omega) ts.2
    · rw [ok_bind]
      generalize getRandomColumn A s (randomStart g.total) g.total = rc at hb ⊢
      obtain ⟨c', s'⟩ := rc
      simp only at hb ⊢
      rw [i32add_safe (by omega) ts.1, ok_bind]
      exact ih _ _ _ _ (by omega) (by omega) ts.2

theorem pathMultiple_safe (hw : PathWf g) (h2 : 2 ≤ g.total) (s : Osu) :
    OkOrFuel (pathMultiple A g g.startT s) := by
  unfold pathMultiple
  simp only
  refine OkOrFuel.bind (inclusiveIters_safe (by have := hw.span_pos; omega) _) ?_
  intro iters hi
  have hk := (inclusiveIters_ok hi).2
  have hn := Osu.nextInt_lt s
  have hc := getColumnSpecial_lt h1 h16 g.x
  have hiv := hP.toRangeLaw.bounds 1 ((g.total : Int) - (if 4 ≤ g.total ∧ g.total ≤ 8 then 1 else 0)) s.nextInt.1
    (by split <;> omega) (by split <;> omega) hn
  exact pathMultipleLoop_safe hP g h1 h16 hw h2 _ _ rfl ⟨hiv.1, hiv.2⟩ _ _ _ _ _ (by omega) hw.lo
    (iters_fit hP g h1 h16 hw hk)

omit hP h1 h16 in
theorem sampleInfoAt_start : ∃ x, sampleInfoAt g g.startT = .ok x := by
  unfold sampleInfoAt
  by_cases h0 : g.seg = 0
  · simp only [h0, if_true, ok_bind]
    rw [if_neg (by simp)]
    exact ⟨_, rfl⟩
  · simp only [h0, if_false]
    have : i32sub g.startT g.startT = .ok 0 := by
      unfold i32sub; rw [if_neg (by omega)]; simp
    rw [this, ok_bind]
    rw [if_neg (by omega)]
    simp only [Int.zero_tdiv, ok_bind]
    rw [if_neg (by simp)]
    exact ⟨_, rfl⟩

omit hP h1 h16 in
theorem pathProbs_caps (T : Nat) (p2 p3 p4 : F) (h2 : 2 ≤ T) :
    (T ≤ 2 → (pathProbs A T p2 p3 p4).1 = A.pct 0) ∧
    (T ≤ 3 → (pathProbs A T p2 p3 p4).2.1 = A.pct 0) ∧
    (T ≤ 4 → (pathProbs A T p2 p3 p4).2.2 = A.pct 0) := by
  refine ⟨fun h => ?_, fun h => ?_, fun h => ?_⟩ <;> unfold pathProbs <;> repeat' split
  all_goals first | rfl | omega

theorem pathNRandom_safe (hw : PathWf g) (h2 : 2 ≤ g.total) (ct : Nat) (t : Int) (p2 p3 p4 : F) (s : Osu) :
    OkOrFuel (pathNRandom A g ct t p2 p3 p4 s) := by
  unfold pathNRandom
  have hcan : OkOrFuel (if has ct LOW_PROBABILITY = true then Except.ok false
      else if sampleHas g.sample (S_CLAP ||| S_FINISH) = true then Except.ok true
      else do
        let x ← sampleInfoAt g g.startT
        Except.ok (sampleHas x (S_CLAP ||| S_FINISH)) : M Bool) := by
    split
    · exact OkOrFuel.ok _
    · split
      · exact OkOrFuel.ok _
      · obtain ⟨x, hx⟩ := sampleInfoAt_start g
        rw [hx, ok_bind]; exact OkOrFuel.ok _
  refine OkOrFuel.bind hcan ?_
  intro canTwo _
  have q := pathProbs_caps (A := A) g.total p2 p3 p4 h2
  have c := noteCount_caps hP s (if canTwo then A.pct 100 else (pathProbs A g.total p2 p3 p4).1)
    (pathProbs A g.total p2 p3 p4).2.1 (pathProbs A g.total p2 p3 p4).2.2 (A.pct 0) (A.pct 0)
  generalize noteCount A s _ _ _ _ _ = nc at c ⊢
  have c4 := c.2.2.2.1 rfl rfl
  have c3 : g.total ≤ 4 → nc.1 ≤ 3 := fun h => c.2.2.2.2.1 rfl rfl (q.2.2 h)
  have c2 : g.total ≤ 3 → nc.1 ≤ 2 := fun h => c.2.2.2.2.2.1 rfl rfl (q.2.2 (by omega)) (q.2.1 h)
  have hrs : randomStart g.total = if g.total = 8 then 1 else 0 := rfl
  apply pathRandomHoldNotes_safe hP g h1 h16 hw _ _ _ _ c4
  rw [hrs]
  by_cases e3 : g.total ≤ 3
  · have := c2 e3; split <;> omega
  · by_cases e4 : g.total ≤ 4
    · have := c3 e4; split <;> omega
    · split <;> omega

theorem pathTiledLoop_safe (hw : PathWf g) (endT : Int) :
    ∀ (k : Nat) (pat : Pat) (c : Nat) (t : Int) (s : Osu), c < g.total →
      (k = 0 ∨ Cols.len pat.cols + k + randomStart g.total ≤ g.total) →
      -2147483648 ≤ t → t + (k : Int) * g.seg ≤ 2147483647 →
      OkOrFuel (pathTiledLoop A g endT k pat c t s) := by
  intro k
  induction k with
  | zero => intro pat c t s _ _ _ _; unfold pathTiledLoop; exact OkOrFuel.ok _
  | succ k ih =>
    intro pat c t s hc hinv hlo hk
    have hinv' : Cols.len pat.cols + (k + 1) + randomStart g.total ≤ g.total := by
      rcases hinv with h | h
      · omega
      · exact h
    unfold pathTiledLoop
    have hfind : OkOrFuel (pathFind A g none [pat.cols] s c) := by
      apply pathFind_safe hP g h1 h16 _ _ _ _ hc
      obtain ⟨c0, h1', h2', h3', _⟩ := free_of_count pat.cols 0 (randomStart g.total) g.total h16
        (by rw [Cols.len_zero]; omega)
      exact ⟨c0, h1', h2', isValidA_none_one (by omega) h3'⟩
    refine OkOrFuel.bind hfind ?_
    rintro ⟨c', s'⟩ hf
    have hc' := pathFind_inv hP.toRangeLaw g h1 h16 _ _ _ _ _ _ hc hf
    simp only
    have ts := time_step hw.seg_nonneg hk
    have := hw.seg_nonneg
    rw [Pat.add_safe pat _ (by omega : c' < 16), ok_bind, i32add_safe (by omega) ts.1, ok_bind]
    apply ih _ c' _ s' hc' _ (by omega) ts.2
    right
    have := Cols.len_insert_le pat.cols c'
    simp only
    omega

theorem pathTiled_safe (hw : PathWf g) (ct : Nat) (s : Osu)
    (hspan : g.span + 1 + randomStart g.total < g.total) :
    OkOrFuel (pathTiled A g ct g.startT s) := by
  unfold pathTiled
  simp only
  have hseg := hw.seg_nonneg
  have hsp := hw.span_pos
  have hss := hw.seg_span
  have hlen := hw.len
  have hlo := hw.lo
  have hord := hw.order
  have hhi := hw.hi
  have hnn : 0 ≤ g.seg * g.span := Int.mul_nonneg hseg (by omega)
  have hm : i32mul g.seg g.span = .ok (g.seg * g.span) := by
    unfold i32mul; rw [if_neg (by omega)]
  rw [hm, ok_bind, i32add_safe (by omega) (by omega), ok_bind]
  have hcs := getColumnSpecial_lt h1 h16 g.x
  refine OkOrFuel.bind (pathAvoidPrev_safe hP g h1 h16 hw ct _ s hcs) ?_
  rintro ⟨c, s1⟩ ha
  have hc := pathAvoidPrev_inv hP.toRangeLaw g h1 h16 _ _ _ _ hcs ha
  simp only
  rw [if_neg (by omega)]
  apply pathTiledLoop_safe hP g h1 h16 hw _ _ _ _ _ _ hc _ hw.lo
  · have : (((min g.span (g.total : Int)).toNat : Nat) : Int) * g.seg ≤ g.span * g.seg :=
      Int.mul_le_mul_of_nonneg_right (by omega) hseg
    rw [Int.mul_comm g.span g.seg] at this
    omega
  · right
    simp only [Pat.empty, Cols.len_zero]
    omega

theorem pathRowLoop_safe (hold : Nat) (hh : hold < g.total) (t : Int) :
    ∀ (k : Nat) (row : Pat) (c : Nat) (s : Osu), c < g.total →
      (k = 0 ∨ Cols.len row.cols + k + 1 + randomStart g.total ≤ g.total) →
      OkOrFuel (pathRowLoop A g hold t k row c s) := by
  intro k
  induction k with
  | zero => intro row c s _ _; unfold pathRowLoop; exact OkOrFuel.ok _
  | succ k ih =>
    intro row c s hc hinv
    have hinv' : Cols.len row.cols + (k + 1) + 1 + randomStart g.total ≤ g.total := by
      rcases hinv with h | h
      · omega
      · exact h
    unfold pathRowLoop
    have hfind : OkOrFuel (pathFind A g (some hold) [row.cols] s c) := by
      apply pathFind_safe hP g h1 h16 _ _ _ _ hc
      obtain ⟨c0, h1', h2', h3', h4'⟩ := free_of_count row.cols (2 ^ hold) (randomStart g.total) g.total h16
        (by have := Cols.len_two_pow_le hold; omega)
      refine ⟨c0, h1', h2', ?_⟩
      rw [isValidA_eq _ _ (by omega : c0 < 16)]
      rw [Nat.testBit_two_pow] at h4'
      have hne : ¬ hold = c0 := by simpa using h4'
      simp [hne, h3']
    refine OkOrFuel.bind hfind ?_
    rintro ⟨c', s'⟩ hf
    have hc' := pathFind_inv hP.toRangeLaw g h1 h16 _ _ _ _ _ _ hc hf
    simp only
    rw [Pat.add_safe row _ (by omega : c' < 16), ok_bind]
    apply ih _ c' s' hc'
    right
    have := Cols.len_insert_le row.cols c'
    simp only
    omega

theorem pathHoldNormalLoop_safe (hw : PathWf g) (hold n : Nat) (hh : hold < g.total) (ign : Bool)
    (hn : n = 0 ∨ n + 1 + randomStart g.total ≤ g.total) :
    ∀ (k : Nat) (pat : Pat) (c : Nat) (t : Int) (s : Osu), c < g.total →
      -2147483648 ≤ t → t + (k : Int) * g.seg ≤ 2147483647 →
      OkOrFuel (pathHoldNormalLoop A g hold n ign k pat c t s) := by
  intro k
  induction k with
  | zero => intro pat c t s _ _ _; unfold pathHoldNormalLoop; exact OkOrFuel.ok _
  | succ k ih =>
    intro pat c t s hc hlo hk
    unfold pathHoldNormalLoop
    have hrow : OkOrFuel (if (!(ign && t == g.startT)) = true
        then pathRowLoop A g hold t n Pat.empty c s else Except.ok (Pat.empty, c, s) : M (Pat × Nat × Osu)) := by
      split
      · apply pathRowLoop_safe hP g h1 h16 hold hh t _ _ _ _ hc
        simp only [Pat.empty, Cols.len_zero]
        rcases hn with h | h
        · exact Or.inl h
        · right; omega
      · exact OkOrFuel.ok _
    refine OkOrFuel.bind hrow ?_
    rintro ⟨row, c', s'⟩ hr
    have hc' : c' < g.total := by
      split at hr
      · exact (pathRowLoop_ok hP.toRangeLaw g h1 h16 _ _ _ _ _ _ _ (PatOk.empty _) hc hr).2
      · cases hr; exact hc
    simp only
    have ts := time_step hw.seg_nonneg hk
    have := hw.seg_nonneg
    rw [i32add_safe (by omega) ts.1, ok_bind]
    exact ih _ c' _ s' hc' (by omega) ts.2

theorem pathHoldNormal_safe (hw : PathWf g) (h2 : 2 ≤ g.total) (ct : Nat) (s : Osu) :
    OkOrFuel (pathHoldNormal A g ct g.startT s) := by
  unfold pathHoldNormal
  have hcs := getColumnSpecial_lt h1 h16 g.x
  refine OkOrFuel.bind (pathAvoidPrev_safe hP g h1 h16 hw ct _ s hcs) ?_
  rintro ⟨hold, s1⟩ ha
  have hh := pathAvoidPrev_inv hP.toRangeLaw g h1 h16 _ _ _ _ hcs ha
  simp only at hh ⊢
  rw [Pat.add_safe _ _ (by omega : hold < 16), ok_bind]
  have hb := getRandomColumn_bounds hP.toRangeLaw s1 (randomStart g.total) g.total (randomStart_lt h1) (by omega)
  generalize getRandomColumn A s1 (randomStart g.total) g.total = rc at hb ⊢
  obtain ⟨c0, s2⟩ := rc
  simp only at hb ⊢
  have hcount : ∀ p2 : F, 1 ≤ (noteCount A s2 p2 (A.pct 0) (A.pct 0) (A.pct 0) (A.pct 0)).1 ∧
      (noteCount A s2 p2 (A.pct 0) (A.pct 0) (A.pct 0) (A.pct 0)).1 ≤ 2 := fun p2 =>
    ⟨(noteCount_caps hP s2 p2 _ _ _ _).1, (noteCount_caps hP s2 p2 _ _ _ _).2.2.2.2.2.1 rfl rfl rfl rfl⟩
  have hnc : ∀ nc : Int × Osu, (0 ≤ nc.1 ∧ nc.1 ≤ 2) →
      OkOrFuel (do
        let smp ← sampleInfoAt g g.startT
        let iters ← inclusiveIters g.span 100000
        pathHoldNormalLoop A g hold (min nc.1 ((g.total : Int) - 1)).toNat
          (!sampleHas smp (S_WHISTLE ||| S_FINISH ||| S_CLAP)) iters
          { notes := Pat.empty.notes ++ [{ col := hold, time := NoteTime.span g.startT g.endT }],
            cols := Pat.empty.cols ||| 2 ^ hold } c0 g.startT nc.2) := by
    intro nc hnc
    obtain ⟨x, hx⟩ := sampleInfoAt_start g
    rw [hx, ok_bind]
    refine OkOrFuel.bind (inclusiveIters_safe (by have := hw.span_pos; omega) _) ?_
    intro iters hi
    have hk := (inclusiveIters_ok hi).2
    have hrs : randomStart g.total = if g.total = 8 then 1 else 0 := rfl
    apply pathHoldNormalLoop_safe hP g h1 h16 hw hold _ hh _ _ _ _ _ _ _ hb.2 hw.lo
      (iters_fit hP g h1 h16 hw hk)
    by_cases h0 : (min nc.1 ((g.total : Int) - 1)).toNat = 0
    · exact Or.inl h0
    · right; rw [hrs]; split <;> omega
  split
  · exact hnc _ ⟨by have := (hcount (A.pct 63)).1; omega, (hcount _).2⟩
  · split
    · exact hnc _ ⟨by have := (hcount (if g.total < 6 then A.pct 12 else A.pct 45)).1; omega, (hcount _).2⟩
    · split
      · exact hnc _ ⟨by have := (hcount (if g.total < 6 then A.pct 0 else A.pct 24)).1; omega, (hcount _).2⟩
      · exact hnc (0, s2) ⟨by simp, by simp⟩

theorem pathCoreMulti_safe (hw : PathWf g) (h2 : 2 ≤ g.total) (s : Osu) :
    OkOrFuel (pathCoreMulti A g s) := by
  unfold pathCoreMulti
  have hrs := randomStart_le g.total
  have hsp := hw.span_pos
  split
  · exact pathRandomHoldNotes_safe hP g h1 h16 hw _ 1 s (by have := randomStart_lt h1; omega) (by omega)
  · split
    · have hfit := hw.fit
      have hlen := hw.len
      have hss := hw.seg_span
      have hseg := hw.seg_nonneg
      -- `span_count + 1` fits: `span ≤ seg·span ≤ end − start` as `seg > 90`
      rename_i h90 _
      have hspan : g.span ≤ 2147483646 := by
        have : g.span * 2 ≤ g.span * g.seg := Int.mul_le_mul_of_nonneg_left (by omega) (by omega)
        rw [Int.mul_comm g.span g.seg] at this
        omega
      rw [i32add_safe (by omega) (by omega), ok_bind]
      exact pathRandomNotes_safe hP g h1 h16 hw h2 _ _ s (Int.le_refl _)
    · split
      · exact pathStair_safe hP g h1 h16 hw h2 s
      · split
        · exact pathMultiple_safe hP g h1 h16 hw h2 s
        · have hlen := hw.len
          have hlo := hw.lo
          have hord := hw.order
          have : i32sub g.endT g.startT = .ok (g.endT - g.startT) := by
            unfold i32sub; rw [if_neg (by omega)]
          rw [this, ok_bind]
          split
          · exact pathNRandom_safe hP g h1 h16 hw h2 _ _ _ _ _ s
          · split
            · rename_i hcond
              simp only [Bool.and_eq_true, decide_eq_true_eq] at hcond
              exact pathTiled_safe hP g h1 h16 hw _ s (by omega)
            · exact pathHoldNormal_safe hP g h1 h16 hw h2 _ s

theorem pathCoreSingle_safe (hw : PathWf g) (h2 : 2 ≤ g.total) (s : Osu) :
    OkOrFuel (pathCoreSingle A g s) := by
  unfold pathCoreSingle
  split
  · apply pathRandomNotes_safe hP g h1 h16 hw h2
    have := hw.span_pos
    split <;> omega
  · repeat' split
    all_goals exact pathNRandom_safe hP g h1 h16 hw h2 _ _ _ _ _ s

omit hP in
theorem pathSplit_safe :
    ∀ (ns : List Note) (a b : Pat), OkOrFuel (pathSplit g ns a b) := by
  intro ns
  induction ns with
  | nil => intro a b; unfold pathSplit; exact OkOrFuel.ok _
  | cons n ns ih =>
    intro a b
    unfold pathSplit
    simp only
    have hc : posColumn g.total n.col % 256 < 16 := by
      have := posColumn_lt h1 n.col
      have : posColumn g.total n.col % 256 = posColumn g.total n.col := Nat.mod_eq_of_lt (by omega)
      omega
    split
    · rw [Pat.add_safe a _ hc, ok_bind]; exact ih _ _
    · rw [Pat.add_safe b _ hc, ok_bind]; exact ih _ _

/-- **(b) for the path generator.** -/
theorem pathGenerate_safe (hw : PathWf g) (s : Osu) : OkOrFuel (pathGenerate A g s) := by
  unfold pathGenerate
  have hcore : OkOrFuel (pathGenerateCore A g s) := by
    unfold pathGenerateCore
    split
    · unfold Pat.single
      rw [Pat.add_safe _ _ (by omega : 0 < 16), ok_bind]
      exact OkOrFuel.ok _
    · split
      · exact pathCoreMulti_safe hP g h1 h16 hw (by omega) s
      · exact pathCoreSingle_safe hP g h1 h16 hw (by omega) s
  refine OkOrFuel.bind hcore ?_
  rintro ⟨p, s'⟩ _
  simp only
  split
  · exact OkOrFuel.ok _
  · refine OkOrFuel.bind (pathSplit_safe g h1 h16 _ _ _) ?_
    rintro ⟨a, b⟩ _
    exact OkOrFuel.ok _

end path

end Rosu.ManiaPattern
