import RosuModel.Model.DecodeBytes

/-!
Lemmas about the byte reader model (`Model/DecodeBytes.lean`): UTF-8 decoding inverts encoding,
splitting bytes at `0x0A` is splitting characters at `\n`, the reader itself fails only for UTF-16LE.
-/
namespace Rosu.DecodeLine

/-! ## decode ∘ encode on one scalar value -/

theorem start1 (b : Nat) (h : b < 0x80) : u8Start b = ([b], .init) := by
  unfold u8Start; rw [if_pos h]

theorem start2 (b : Nat) (h1 : 0xC2 ≤ b) (h2 : b ≤ 0xDF) :
    u8Start b = ([], .need 1 (b - 0xC0) 0x80 0xBF) := by
  unfold u8Start; rw [if_neg (by omega), if_pos ⟨h1, h2⟩]

theorem startE0 : u8Start 0xE0 = ([], .need 2 0 0xA0 0xBF) := by decide
theorem startED : u8Start 0xED = ([], .need 2 13 0x80 0x9F) := by decide
theorem startF0 : u8Start 0xF0 = ([], .need 3 0 0x90 0xBF) := by decide
theorem startF4 : u8Start 0xF4 = ([], .need 3 4 0x80 0x8F) := by decide

theorem startE (b : Nat) (h1 : 0xE1 ≤ b) (h2 : b ≤ 0xEF) (h3 : b ≠ 0xED) :
    u8Start b = ([], .need 2 (b - 0xE0) 0x80 0xBF) := by
  unfold u8Start
  rw [if_neg (by omega), if_neg (by omega), if_neg (by omega), if_neg h3, if_pos ⟨h1, h2⟩]

theorem startF (b : Nat) (h1 : 0xF1 ≤ b) (h2 : b ≤ 0xF3) :
    u8Start b = ([], .need 3 (b - 0xF0) 0x80 0xBF) := by
  unfold u8Start
  rw [if_neg (by omega), if_neg (by omega), if_neg (by omega), if_neg (by omega), if_neg (by omega),
    if_neg (by omega), if_neg (by omega), if_pos ⟨h1, h2⟩]

theorem need_last (acc lo hi b : Nat) (r : Bytes) (h : lo ≤ b ∧ b ≤ hi) :
    u8Feed (.need 1 acc lo hi) (b :: r) = (acc * 64 + (b - 0x80)) :: u8Feed .init r := by
  rw [u8Feed, if_pos h, if_pos (Nat.le_refl 1)]

theorem need_more (n acc lo hi b : Nat) (r : Bytes) (h : lo ≤ b ∧ b ≤ hi) (hn : 2 ≤ n) :
    u8Feed (.need n acc lo hi) (b :: r) =
      u8Feed (.need (n - 1) (acc * 64 + (b - 0x80)) 0x80 0xBF) r := by
  rw [u8Feed, if_pos h, if_neg (show ¬ n ≤ 1 by omega)]

theorem feed2 (b0 b1 : Nat) (r : Bytes) (h0 : 0xC2 ≤ b0 ∧ b0 ≤ 0xDF) (h1 : 0x80 ≤ b1 ∧ b1 ≤ 0xBF) :
    u8Feed .init (b0 :: b1 :: r) = ((b0 - 0xC0) * 64 + (b1 - 0x80)) :: u8Feed .init r := by
  rw [u8Feed, start2 b0 h0.1 h0.2]
  simp only [List.nil_append]
  exact need_last _ _ _ _ _ h1

theorem feed3 (b0 b1 b2 acc lo hi : Nat) (r : Bytes) (hs : u8Start b0 = ([], .need 2 acc lo hi))
    (h1 : lo ≤ b1 ∧ b1 ≤ hi) (h2 : 0x80 ≤ b2 ∧ b2 ≤ 0xBF) :
    u8Feed .init (b0 :: b1 :: b2 :: r) =
      ((acc * 64 + (b1 - 0x80)) * 64 + (b2 - 0x80)) :: u8Feed .init r := by
  rw [u8Feed, hs]
  simp only [List.nil_append]
  rw [need_more _ _ _ _ _ _ h1 (Nat.le_refl 2)]
  exact need_last _ _ _ _ _ h2

theorem feed4 (b0 b1 b2 b3 acc lo hi : Nat) (r : Bytes) (hs : u8Start b0 = ([], .need 3 acc lo hi))
    (h1 : lo ≤ b1 ∧ b1 ≤ hi) (h2 : 0x80 ≤ b2 ∧ b2 ≤ 0xBF) (h3 : 0x80 ≤ b3 ∧ b3 ≤ 0xBF) :
    u8Feed .init (b0 :: b1 :: b2 :: b3 :: r) =
      (((acc * 64 + (b1 - 0x80)) * 64 + (b2 - 0x80)) * 64 + (b3 - 0x80)) :: u8Feed .init r := by
  rw [u8Feed, hs]
  simp only [List.nil_append]
  rw [need_more _ _ _ _ _ _ h1 (by omega)]
  rw [need_more _ _ _ _ _ _ h2 (Nat.le_refl 2)]
  exact need_last _ _ _ _ _ h3

theorem u8Feed_encodeChar (c : Nat) (hc : isScalar c) (r : Bytes) :
    u8Feed .init (encodeChar c ++ r) = c :: u8Feed .init r := by
  unfold isScalar at hc
  unfold encodeChar
  by_cases h1 : c < 0x80
  · rw [if_pos h1]
    simp only [List.cons_append, List.nil_append]
    rw [u8Feed, start1 c h1]
    rfl
  · rw [if_neg h1]
    by_cases h2 : c < 0x800
    · rw [if_pos h2]
      simp only [List.cons_append, List.nil_append]
      rw [feed2 _ _ _ (by omega) (by omega)]
      have e : (0xC0 + c / 64 - 0xC0) * 64 + (0x80 + c % 64 - 0x80) = c := by omega
      rw [e]
    · rw [if_neg h2]
      by_cases h3 : c < 0x10000
      · rw [if_pos h3]
        simp only [List.cons_append, List.nil_append]
        by_cases ha : c < 0x1000
        · have hb0 : 0xE0 + c / 4096 = 0xE0 := by omega
          rw [hb0, feed3 _ _ _ _ _ _ _ startE0 (by omega) (by omega)]
          have e : (0 * 64 + (0x80 + c / 64 % 64 - 0x80)) * 64 + (0x80 + c % 64 - 0x80) = c := by omega
          rw [e]
        · by_cases hb : 0xD000 ≤ c ∧ c < 0xE000
          · have hb0 : 0xE0 + c / 4096 = 0xED := by omega
            rw [hb0, feed3 _ _ _ _ _ _ _ startED (by omega) (by omega)]
            have e : (13 * 64 + (0x80 + c / 64 % 64 - 0x80)) * 64 + (0x80 + c % 64 - 0x80) = c := by omega
            rw [e]
          · rw [feed3 _ _ _ _ _ _ _ (startE _ (by omega) (by omega) (by omega)) (by omega) (by omega)]
            have e : ((0xE0 + c / 4096 - 0xE0) * 64 + (0x80 + c / 64 % 64 - 0x80)) * 64 +
                (0x80 + c % 64 - 0x80) = c := by omega
            rw [e]
      · rw [if_neg h3]
        simp only [List.cons_append, List.nil_append]
        by_cases ha : c < 0x40000
        · have hb0 : 0xF0 + c / 262144 = 0xF0 := by omega
          rw [hb0, feed4 _ _ _ _ _ _ _ _ startF0 (by omega) (by omega) (by omega)]
          have e : ((0 * 64 + (0x80 + c / 4096 % 64 - 0x80)) * 64 + (0x80 + c / 64 % 64 - 0x80)) * 64 +
              (0x80 + c % 64 - 0x80) = c := by omega
          rw [e]
        · by_cases hb : 0x100000 ≤ c
          · have hb0 : 0xF0 + c / 262144 = 0xF4 := by omega
            rw [hb0, feed4 _ _ _ _ _ _ _ _ startF4 (by omega) (by omega) (by omega)]
            have e : ((4 * 64 + (0x80 + c / 4096 % 64 - 0x80)) * 64 + (0x80 + c / 64 % 64 - 0x80)) * 64 +
                (0x80 + c % 64 - 0x80) = c := by omega
            rw [e]
          · rw [feed4 _ _ _ _ _ _ _ _ (startF _ (by omega) (by omega)) (by omega) (by omega) (by omega)]
            have e : (((0xF0 + c / 262144 - 0xF0) * 64 + (0x80 + c / 4096 % 64 - 0x80)) * 64 +
                (0x80 + c / 64 % 64 - 0x80)) * 64 + (0x80 + c % 64 - 0x80) = c := by omega
            rw [e]

theorem encodeStr_cons (c : Nat) (s : List Nat) : encodeStr (c :: s) = encodeChar c ++ encodeStr s := by
  simp [encodeStr]

theorem encodeStr_append (a b : List Nat) : encodeStr (a ++ b) = encodeStr a ++ encodeStr b := by
  simp [encodeStr]

/-- UTF-8 decoding inverts UTF-8 encoding -/
theorem decodeUtf8_encodeStr (s : List Nat) (hs : ∀ c ∈ s, isScalar c) :
    decodeUtf8 (encodeStr s) = s := by
  unfold decodeUtf8
  induction s with
  | nil => rfl
  | cons c r ih =>
    rw [encodeStr_cons, u8Feed_encodeChar c (hs c (List.mem_cons_self ..))]
    rw [ih (fun x hx => hs x (List.mem_cons_of_mem _ hx))]

/-! ## lines -/

theorem encodeChar_no_newline (c : Nat) (hc : c ≠ 10) : ∀ b ∈ encodeChar c, b ≠ 10 := by
  intro b hb
  unfold encodeChar at hb
  split at hb
  · simp at hb; omega
  · split at hb
    · simp at hb; omega
    · split at hb
      · simp at hb; omega
      · simp at hb; omega

theorem encodeChar_ne_nil (c : Nat) : encodeChar c ≠ [] := by
  unfold encodeChar
  split
  · simp
  · split
    · simp
    · split <;> simp

theorem rawLinesN_skip (bs : Bytes) (h : ∀ b ∈ bs, b ≠ 10) (cur rest : Bytes) :
    rawLinesN cur (bs ++ rest) = rawLinesN (bs.reverse ++ cur) rest := by
  induction bs generalizing cur with
  | nil => rfl
  | cons b r ih =>
    have hb : b ≠ 10 := h b (List.mem_cons_self ..)
    simp only [List.cons_append]
    rw [rawLinesN, if_neg hb, ih (fun x hx => h x (List.mem_cons_of_mem _ hx))]
    simp

theorem encodeStr_eq_nil (s : List Nat) (h : encodeStr s = []) : s = [] := by
  cases s with
  | nil => rfl
  | cons a l =>
    rw [encodeStr_cons] at h
    have := encodeChar_ne_nil a
    cases hh : encodeChar a with
    | nil => exact absurd hh this
    | cons x y => rw [hh] at h; cases h

/-- splitting the encoded bytes at `0x0A` = splitting the characters at `\n` -/
theorem rawLinesN_encodeStr (s : List Nat) : ∀ cc : List Nat,
    rawLinesN (encodeStr cc.reverse).reverse (encodeStr s) = (charLines cc s).map encodeStr := by
  have he : encodeStr ([] : List Nat) = [] := rfl
  induction s with
  | nil =>
    intro cc
    rw [he, rawLinesN]
    unfold endLine
    cases cc with
    | nil => rfl
    | cons a l =>
      have hne : (encodeStr (a :: l).reverse).reverse ≠ [] := by
        intro h
        have h2 := encodeStr_eq_nil _ (List.reverse_eq_nil_iff.mp h)
        simp at h2
      have : (encodeStr (a :: l).reverse).reverse.isEmpty = false := by
        cases hx : (encodeStr (a :: l).reverse).reverse with
        | nil => exact absurd hx hne
        | cons _ _ => rfl
      rw [this]
      simp [charLines]
  | cons c r ih =>
    intro cc
    by_cases hc : c = 10
    · subst hc
      have h10 : encodeChar 10 = [10] := by decide
      rw [encodeStr_cons, h10]
      simp only [List.cons_append, List.nil_append]
      rw [rawLinesN, if_pos rfl]
      have := ih []
      simp only [List.reverse_nil, he] at this
      rw [this]
      simp only [charLines, if_true, List.map_cons]
      congr 1
      simp [encodeStr_append, encodeStr_cons, h10, he]
    · rw [encodeStr_cons, rawLinesN_skip _ (encodeChar_no_newline c hc)]
      have := ih (c :: cc)
      simp only [List.reverse_cons, encodeStr_append, encodeStr_cons, List.reverse_append, he,
        List.append_nil] at this
      rw [this]
      simp only [charLines, if_neg hc]

theorem charLines_mem (s : List Nat) : ∀ (cc : List Nat), ∀ l ∈ charLines cc s, ∀ c ∈ l, c ∈ cc ∨ c ∈ s := by
  induction s with
  | nil =>
    intro cc l hl c hc
    cases cc with
    | nil => simp [charLines] at hl
    | cons a t =>
      simp only [charLines, List.mem_singleton] at hl
      subst hl
      exact Or.inl (List.mem_reverse.mp hc)
  | cons x r ih =>
    intro cc l hl c hc
    by_cases hx : x = 10
    · simp only [charLines, hx, if_true, List.mem_cons] at hl
      rcases hl with hl | hl
      · subst hl
        have := List.mem_reverse.mp hc
        rcases List.mem_cons.mp this with h | h
        · exact Or.inr (by rw [h, hx]; exact List.mem_cons_self ..)
        · exact Or.inl h
      · rcases ih [] l hl c hc with h | h
        · cases h
        · exact Or.inr (List.mem_cons_of_mem _ h)
    · simp only [charLines, hx, if_false] at hl
      rcases ih (x :: cc) l hl c hc with h | h
      · rcases List.mem_cons.mp h with h | h
        · exact Or.inr (by rw [h]; exact List.mem_cons_self ..)
        · exact Or.inl h
      · exact Or.inr (List.mem_cons_of_mem _ h)

/-- the lines the reader yields for the UTF-8 encoding of a string (no BOM, at least three bytes)
are the lines of the string -/
theorem readBytes_encodeStr (s : List Nat) (hs : ∀ c ∈ s, isScalar c) (h3 : 3 ≤ (encodeStr s).length)
    (hb : fromBom (encodeStr s) = (.utf8, encodeStr s)) : readBytes (encodeStr s) = some (strLines s) := by
  unfold readBytes afterShortRead
  rw [if_neg (by omega), hb]
  simp only [rawLines]
  have h0 := rawLinesN_encodeStr s []
  have he : encodeStr ([] : List Nat) = [] := rfl
  simp only [List.reverse_nil, he] at h0
  simp only [show ((Enc.utf8 = Enc.utf16le) = False) from by simp, if_false, decide_false,
    Bool.false_eq_true, Option.map_some, h0, List.map_map]
  unfold strLines
  congr 1
  apply List.map_congr_left
  intro l hl
  simp only [Function.comp, lineOfBuf, decodeBuf]
  rw [decodeUtf8_encodeStr l]
  intro c hc
  rcases charLines_mem s [] l hl c hc with h | h
  · cases h
  · exact hs c h

theorem readBytes_none (b : Bytes) (h : readBytes b = none) :
    (fromBom (afterShortRead b)).1 = .utf16le := by
  unfold readBytes rawLines at h
  by_cases he : (fromBom (afterShortRead b)).1 = .utf16le
  · exact he
  · simp [he] at h

end Rosu.DecodeLine
