import RosuModel.Lemmas.CurveBasic
import Mathlib.Algebra.Order.Field.Basic
import Mathlib.Algebra.Order.AbsoluteValue.Basic
import Mathlib.Tactic.Linarith
import Mathlib.Tactic.Ring
import Mathlib.Tactic.Positivity

/-!
# `calculate_length` over an ordered field
-/
namespace Rosu.Curve

private theorem getC_eq_ok' {α : Type} (a : Array α) (i : Nat) (v : α) :
    getC a i = .ok v ↔ a[i]? = some v := by
  unfold getC
  cases h : a[i]? with
  | none => simp
  | some w => simp

private theorem getC_of_lt' {α : Type} (a : Array α) (i : Nat) (h : i < a.size) :
    getC a i = .ok a[i] := by
  rw [getC_eq_ok']; simp [h]

section General
variable {S D : Type} (A : Arith S D)

/-- `optimized + Σ |pᵢ₊₁ − pᵢ|`: the `calculated_len` of the code -/
def calculatedLen (optimized : D) (path : List (Pos S)) : D := (cumLengths A optimized path).2

/-- the length of one segment, as `f64` -/
def segLen (curr next : Pos S) : D := A.toD (length A (psub A next curr))

/-- "the path has at least two vertices and the last two are equal" (`==` of `Pos`) -/
def lastTwoEqual (path : Array (Pos S)) : Bool :=
  match path.toList.reverse with
  | b :: a :: _ => peq A a b
  | _ => false

theorem cumLengths_cons2 (acc : D) (a b : Pos S) (rest : List (Pos S)) :
    cumLengths A acc (a :: b :: rest) =
      (A.dAdd acc (segLen A a b) :: (cumLengths A (A.dAdd acc (segLen A a b)) (b :: rest)).1,
        (cumLengths A (A.dAdd acc (segLen A a b)) (b :: rest)).2) := by
  simp only [cumLengths, segLen]

theorem cumLengths_lengthF : ∀ (l : List (Pos S)) (acc : D),
    (cumLengths A acc l).1.length = l.length - 1
  | [], _ => rfl
  | [_], _ => rfl
  | a :: b :: rest, acc => by
    rw [cumLengths_cons2]
    simp [cumLengths_lengthF (b :: rest)]

/-- the last cumulative length is `calculated_len` -/
theorem cumLengths_getLast? : ∀ (l : List (Pos S)) (acc : D),
    (acc :: (cumLengths A acc l).1).getLast? = some (cumLengths A acc l).2
  | [], _ => rfl
  | [_], _ => rfl
  | a :: b :: rest, acc => by
    rw [cumLengths_cons2]
    simp only [List.getLast?_cons_cons]
    exact cumLengths_getLast? (b :: rest) _

/-- `lastValid` is at most the size; when positive the entry before it is `< expected`; when zero
no entry is `< expected`. -/
theorem lastValid_spec (e : D) (cum : Array D) :
    lastValid A e cum ≤ cum.size ∧
    (0 < lastValid A e cum → ∃ x, cum[lastValid A e cum - 1]? = some x ∧ A.dLt x e = true) ∧
    (lastValid A e cum = 0 → ∀ x ∈ cum.toList, A.dLt x e = false) := by
  unfold lastValid
  cases hf : cum.toList.reverse.findIdx? (fun l => A.dLt l e) with
  | none =>
    simp only
    rw [List.findIdx?_eq_none_iff] at hf
    exact ⟨Nat.zero_le _, fun h => absurd h (lt_irrefl _),
      fun _ x hx => hf x (List.mem_reverse.mpr hx)⟩
  | some idx =>
    simp only
    rw [List.findIdx?_eq_some_iff_getElem] at hf
    obtain ⟨hlt, hp, -⟩ := hf
    have hlt' : idx < cum.size := by simpa using hlt
    rw [List.getElem_reverse] at hp
    refine ⟨Nat.sub_le _ _, fun _ => ⟨_, ?_, hp⟩, fun h0 => by omega⟩
    have e1 : cum.size - idx - 1 = cum.toList.length - 1 - idx := by
      simp only [Array.length_toList]; omega
    rw [e1]
    simp

/-- the tail of `calculate_length`: move the last vertex so that the last segment ends at the
expected distance -/
def extendTail (path : Array (Pos S)) (cum : Array D) (e : D) : R (Array (Pos S) × Array D) := do
  let endIdx := cum.size
  let prevIdx ← subC endIdx 1
  let pe ← getC path endIdx
  let pp ← getC path prevIdx
  let dir := normalize A (psub A pe pp)
  let cp ← getC cum prevIdx
  let newEnd := padd A pp (pmul A dir (A.toS (A.dSub e cp)))
  let path ← setC path endIdx newEnd
  .ok (path, cum.push e)

theorem extendTail_ok (pth : Array (Pos S)) (cum' : Array D) (e : D) (path' : Array (Pos S))
    (lens : Array D) (h : extendTail A pth cum' e = .ok (path', lens)) :
    1 ≤ cum'.size ∧ cum'.size < pth.size ∧ lens = cum'.push e ∧ path'.size = pth.size ∧
      ∀ j : Nat, j ≠ cum'.size → path'[j]? = pth[j]? := by
  unfold extendTail at h
  by_cases h1 : 1 ≤ cum'.size
  · by_cases h2 : cum'.size < pth.size
    · have h3 : cum'.size - 1 < pth.size := by omega
      have h4 : cum'.size - 1 < cum'.size := by omega
      simp only [subC, h1, if_true, bind, Except.bind, getC_of_lt' _ _ h2, getC_of_lt' _ _ h3,
        getC_of_lt' _ _ h4, setC, h2, Except.ok.injEq, Prod.mk.injEq] at h
      obtain ⟨hp, hl⟩ := h
      subst hp hl
      refine ⟨h1, h2, rfl, by simp, ?_⟩
      intro j hj
      rw [Array.getElem?_setIfInBounds]
      simp [Ne.symm hj]
    · exfalso
      have hn : pth[cum'.size]? = none := by simp; omega
      simp [subC, h1, bind, Except.bind, getC, hn] at h
  · exfalso
    simp [subC, h1, bind, Except.bind] at h

theorem dist_of_getLast? (lens : Array D) (d : D) (h : lens.toList.getLast? = some d) :
    dist A lens = d := by
  unfold dist
  rw [← Array.getLast?_toList, h]

end General

variable {K : Type} [Field K] [LinearOrder K] [IsStrictOrderedRing K] (T : Transc K)

section Proj
omit [IsStrictOrderedRing K]
theorem fa_dOfInt (n : Int) : (fieldArith T).dOfInt n = (n : K) := rfl
theorem fa_dLe (x y : K) : (fieldArith T).dLe x y = decide (x ≤ y) := rfl
theorem fa_dLt (x y : K) : (fieldArith T).dLt x y = decide (x < y) := rfl
theorem fa_dAbs (x : K) : (fieldArith T).dAbs x = |x| := rfl
theorem fa_dSub (x y : K) : (fieldArith T).dSub x y = x - y := rfl
theorem fa_dAdd (x y : K) : (fieldArith T).dAdd x y = x + y := rfl
theorem fa_zero : (fieldArith T).dOfInt 0 = (0 : K) := by simp [fa_dOfInt]
theorem fa_segLen (a b : Pos K) : ∃ x, segLen (fieldArith T) a b = T.sqrt x := ⟨_, rfl⟩
end Proj

theorem dEps_pos' : (0 : K) < dEps (fieldArith T) := by
  unfold dEps
  simp only [fieldArith]
  norm_num

omit [Field K] [IsStrictOrderedRing K] in
theorem take_lt_of_sorted {L : List K} (hs : L.Pairwise (· ≤ ·)) (k : Nat) (x e : K)
    (hx : L[k - 1]? = some x) (hxe : x < e) : ∀ y ∈ L.take k, y < e := by
  intro y hy
  rw [List.mem_take_iff_getElem] at hy
  obtain ⟨j, hj, rfl⟩ := hy
  obtain ⟨hk, rfl⟩ := List.getElem?_eq_some_iff.mp hx
  have hjk : j ≤ k - 1 := by omega
  have hjl : j < L.length := by omega
  refine lt_of_le_of_lt ?_ hxe
  rcases Nat.lt_or_eq_of_le hjk with h | h
  · exact (List.pairwise_iff_getElem.mp hs) j (k - 1) hjl hk h
  · subst h; exact le_rfl

omit [IsStrictOrderedRing K] in
/-- The five ways `calculate_length` can return. -/
theorem calculateLength_cases (path : Array (Pos K)) (expected : Option K) (optimized : K)
    (path' : Array (Pos K)) (lens : Array K)
    (h : calculateLength (fieldArith T) path expected optimized = .ok (path', lens)) :
    let A := fieldArith T
    let L : List K := 0 :: (cumLengths A optimized path.toList).1
    let cl := calculatedLen A optimized path.toList
    (path' = path ∧ lens.toList = L ∧
       (expected = none ∨ ∃ e, expected = some e ∧ (|cl - e| < dEps A ∨
          (¬ (lastTwoEqual A path = true ∧ cl < e) ∧ path.size ≤ 1)))) ∨
    (∃ e, expected = some e ∧ dEps A ≤ |cl - e| ∧
      ((lastTwoEqual A path = true ∧ cl < e ∧ path' = path ∧ lens.toList = L ++ [cl]) ∨
       (¬ (lastTwoEqual A path = true ∧ cl < e) ∧ 2 ≤ path.size ∧
         (((∀ x ∈ L.dropLast, ¬ x < e) ∧ path' = path.extract 0 1 ∧ lens = #[0]) ∨
          (∃ k : Nat, 1 ≤ k ∧ k + 1 ≤ path.size ∧ (∃ x, L.dropLast[k - 1]? = some x ∧ x < e) ∧
            lens.toList = L.dropLast.take k ++ [e] ∧ path'.size = k + 1 ∧
            ∀ j : Nat, j < k → path'[j]? = path[j]?))))) := by
  intro A L cl
  have hlen : L.length = path.size - 1 + 1 := by
    simp only [L, List.length_cons, cumLengths_lengthF, Array.length_toList]
  unfold calculateLength at h
  have hcl : cumLengths (fieldArith T) optimized path.toList = (L.tail, cl) := rfl
  rw [hcl] at h
  simp only [fa_zero] at h
  have hL : (0 : K) :: L.tail = L := rfl
  rw [hL] at h
  clear_value L cl
  cases expected with
  | none =>
    simp only [Except.ok.injEq, Prod.mk.injEq] at h
    obtain ⟨rfl, rfl⟩ := h
    exact Or.inl ⟨rfl, rfl, Or.inl rfl⟩
  | some e =>
    simp only [] at h
    by_cases hclose : |cl - e| < dEps A
    · have : (!(fieldArith T).dLe (dEps (fieldArith T))
          ((fieldArith T).dAbs ((fieldArith T).dSub cl e))) = true := by
        simp only [fa_dLe, fa_dAbs, fa_dSub, Bool.not_eq_true', decide_eq_false_iff_not, not_le]
        exact hclose
      simp only [this, if_true, Except.ok.injEq, Prod.mk.injEq] at h
      obtain ⟨rfl, rfl⟩ := h
      exact Or.inl ⟨rfl, rfl, Or.inr ⟨e, rfl, Or.inl hclose⟩⟩
    · have : ¬ (!(fieldArith T).dLe (dEps (fieldArith T))
          ((fieldArith T).dAbs ((fieldArith T).dSub cl e))) = true := by
        simp only [fa_dLe, fa_dAbs, fa_dSub, Bool.not_eq_true', decide_eq_false_iff_not, not_le]
        exact hclose
      simp only [this] at h
      change (if (lastTwoEqual (fieldArith T) path && (fieldArith T).dLt cl e) = true then _
        else _) = _ at h
      have hge : dEps A ≤ |cl - e| := not_lt.mp hclose
      by_cases hlte : lastTwoEqual A path = true ∧ cl < e
      · have : (lastTwoEqual (fieldArith T) path && (fieldArith T).dLt cl e) = true := by
          simp only [fa_dLt, Bool.and_eq_true, decide_eq_true_eq]; exact hlte
        simp only [this, if_true, Except.ok.injEq, Prod.mk.injEq] at h
        obtain ⟨rfl, rfl⟩ := h
        exact Or.inr ⟨e, rfl, hge, Or.inl ⟨hlte.1, hlte.2, rfl, by simp⟩⟩
      · have : ¬ (lastTwoEqual (fieldArith T) path && (fieldArith T).dLt cl e) = true := by
          simp only [fa_dLt, Bool.and_eq_true, decide_eq_true_eq]; exact hlte
        simp only [this, Bool.false_eq_true, if_false] at h
        by_cases hsz : path.size ≤ 1
        · have : L.toArray.size = 1 := by simp only [List.size_toArray, hlen]; omega
          simp only [this, if_true, Except.ok.injEq, Prod.mk.injEq] at h
          obtain ⟨rfl, rfl⟩ := h
          exact Or.inl ⟨rfl, rfl, Or.inr ⟨e, rfl, Or.inr ⟨hlte, hsz⟩⟩⟩
        · have : ¬ L.toArray.size = 1 := by simp only [List.size_toArray, hlen]; omega
          simp only [this, if_false] at h
          refine Or.inr ⟨e, rfl, hge, Or.inr ⟨hlte, by omega, ?_⟩⟩
          have hPs : L.toArray.pop.size = path.size - 1 := by
            simp only [Array.size_pop, List.size_toArray, hlen]; omega
          have hPl : L.toArray.pop.toList = L.dropLast := by simp
          obtain ⟨hlv1, hlv2, hlv3⟩ := lastValid_spec (fieldArith T) e L.toArray.pop
          generalize lastValid (fieldArith T) e L.toArray.pop = lv at h hlv1 hlv2 hlv3
          generalize L.toArray.pop = cumP at h hlv1 hlv2 hlv3 hPs hPl
          by_cases htr : lv < cumP.size
          · have hes : (cumP.extract 0 lv).size = lv := by
              simp only [Array.size_extract]; omega
            simp only [htr, decide_true, if_true, Bool.true_and] at h
            by_cases hlv0 : lv = 0
            · subst hlv0
              simp only [hes, decide_true, if_true, Except.ok.injEq, Prod.mk.injEq] at h
              obtain ⟨rfl, rfl⟩ := h
              refine Or.inl ⟨?_, rfl, rfl⟩
              intro x hx
              have := hlv3 rfl x (by rw [hPl]; exact hx)
              simpa [fa_dLt] using this
            · have : ¬ (decide ((cumP.extract 0 lv).size = 0)) = true := by
                rw [hes]; simpa using hlv0
              simp only [this, Bool.false_eq_true, if_false] at h
              change extendTail (fieldArith T) _ _ e = _ at h
              obtain ⟨-, -, hl, hp, hj⟩ := extendTail_ok _ _ _ _ _ _ h
              rw [hes] at hj
              obtain ⟨x, hx1, hx2⟩ := hlv2 (by omega)
              refine Or.inr ⟨lv, by omega, by omega, ⟨x, ?_, by simpa [fa_dLt] using hx2⟩,
                ?_, ?_, ?_⟩
              · rw [← hPl]; simpa using hx1
              · rw [hl, ← hPl]; simp
              · rw [hp]; simp only [Array.size_extract]; omega
              · intro j hjl
                rw [hj j (by omega), Array.getElem?_extract]
                have : j < min (lv + 1) path.size - 0 := by omega
                rw [if_pos this, Nat.zero_add]
          · have hlveq : lv = cumP.size := by omega
            simp only [htr, decide_false, Bool.false_and, Bool.false_eq_true, if_false] at h
            change extendTail (fieldArith T) _ _ e = _ at h
            obtain ⟨-, -, hl, hp, hj⟩ := extendTail_ok _ _ _ _ _ _ h
            obtain ⟨x, hx1, hx2⟩ := hlv2 (by omega)
            refine Or.inr ⟨lv, by omega, by omega, ⟨x, ?_, by simpa [fa_dLt] using hx2⟩,
              ?_, ?_, ?_⟩
            · rw [← hPl]; simpa using hx1
            · rw [hl, ← hPl, hlveq]; simp
            · rw [hp]; omega
            · intro j hjl
              exact hj j (by omega)

/-- The statement of `calculateLength_cases` with the cumulative list `L` and `calculated_len`
abstracted. -/
def CLCases (path : Array (Pos K)) (expected : Option K) (path' : Array (Pos K)) (lens : Array K)
    (L : List K) (cl : K) : Prop :=
  let A := fieldArith T
  (path' = path ∧ lens.toList = L ∧
     (expected = none ∨ ∃ e, expected = some e ∧ (|cl - e| < dEps A ∨
        (¬ (lastTwoEqual A path = true ∧ cl < e) ∧ path.size ≤ 1)))) ∨
  (∃ e, expected = some e ∧ dEps A ≤ |cl - e| ∧
    ((lastTwoEqual A path = true ∧ cl < e ∧ path' = path ∧ lens.toList = L ++ [cl]) ∨
     (¬ (lastTwoEqual A path = true ∧ cl < e) ∧ 2 ≤ path.size ∧
       (((∀ x ∈ L.dropLast, ¬ x < e) ∧ path' = path.extract 0 1 ∧ lens = #[0]) ∨
        (∃ k : Nat, 1 ≤ k ∧ k + 1 ≤ path.size ∧ (∃ x, L.dropLast[k - 1]? = some x ∧ x < e) ∧
          lens.toList = L.dropLast.take k ++ [e] ∧ path'.size = k + 1 ∧
          ∀ j : Nat, j < k → path'[j]? = path[j]?)))))

theorem cumLengths_props (hs : ∀ x, 0 ≤ T.sqrt x) : ∀ (l : List (Pos K)) (acc : K),
    (cumLengths (fieldArith T) acc l).1.Pairwise (· ≤ ·) ∧
    (∀ x ∈ (cumLengths (fieldArith T) acc l).1,
      acc ≤ x ∧ x ≤ (cumLengths (fieldArith T) acc l).2) ∧
    acc ≤ (cumLengths (fieldArith T) acc l).2
  | [], acc => by simp [cumLengths]
  | [_], acc => by simp [cumLengths]
  | a :: b :: rest, acc => by
    rw [cumLengths_cons2]
    obtain ⟨x, hx⟩ := fa_segLen T a b
    have hacc : acc ≤ (fieldArith T).dAdd acc (segLen (fieldArith T) a b) := by
      rw [fa_dAdd, hx]; exact le_add_of_nonneg_right (hs x)
    obtain ⟨h1, h2, h3⟩ := cumLengths_props hs (b :: rest)
      ((fieldArith T).dAdd acc (segLen (fieldArith T) a b))
    refine ⟨List.pairwise_cons.mpr ⟨fun y hy => (h2 y hy).1, h1⟩, ?_, le_trans hacc h3⟩
    intro y hy
    rcases List.mem_cons.mp hy with rfl | hy
    · exact ⟨hacc, h3⟩
    · exact ⟨le_trans hacc (h2 y hy).1, (h2 y hy).2⟩

/-- `calculateLength_cases` together with what is known about the cumulative list. -/
theorem calculateLength_cases' (hs : ∀ x, 0 ≤ T.sqrt x) (path : Array (Pos K))
    (expected : Option K) (optimized : K) (hopt : 0 ≤ optimized)
    (path' : Array (Pos K)) (lens : Array K)
    (h : calculateLength (fieldArith T) path expected optimized = .ok (path', lens)) :
    ∃ (ls : List K) (cl : K), cl = calculatedLen (fieldArith T) optimized path.toList ∧
      ls.length = path.size - 1 ∧ ((0 : K) :: ls).Pairwise (· ≤ ·) ∧
      (∀ x ∈ (0 : K) :: ls, 0 ≤ x ∧ x ≤ cl) ∧
      ((0 : K) :: ls).getLast? = some (if path.size ≤ 1 then 0 else cl) ∧
      CLCases T path expected path' lens (0 :: ls) cl := by
  obtain ⟨hP, hB, hO⟩ := cumLengths_props T hs path.toList optimized
  have hG := cumLengths_getLast? (fieldArith T) path.toList optimized
  have hLn := cumLengths_lengthF (fieldArith T) path.toList optimized
  refine ⟨(cumLengths (fieldArith T) optimized path.toList).1,
    (cumLengths (fieldArith T) optimized path.toList).2, rfl, by simpa using hLn, ?_, ?_, ?_,
    calculateLength_cases T path expected optimized path' lens h⟩
  · exact List.pairwise_cons.mpr ⟨fun y hy => le_trans hopt (hB y hy).1, hP⟩
  · intro x hx
    rcases List.mem_cons.mp hx with rfl | hx
    · exact ⟨le_rfl, le_trans hopt hO⟩
    · exact ⟨le_trans hopt (hB x hx).1, (hB x hx).2⟩
  · generalize cumLengths (fieldArith T) optimized path.toList = r at hG hLn
    obtain ⟨ls, cl⟩ := r
    simp only [Array.length_toList] at hLn
    by_cases hsz : path.size ≤ 1
    · have : ls = [] := List.eq_nil_of_length_eq_zero (by omega)
      subst this
      simp [hsz]
    · cases ls with
      | nil => simp only [List.length_nil] at hLn; omega
      | cons c ls' =>
        simp only [List.getLast?_cons_cons] at hG ⊢
        simp [hsz, hG]

omit [IsStrictOrderedRing K] in
theorem dist_nonneg_of_all (lens : Array K) (h : ∀ l ∈ lens.toList, 0 ≤ l) :
    0 ≤ dist (fieldArith T) lens := by
  unfold dist
  cases hb : lens.back? with
  | none => simp [fa_zero]
  | some d =>
    simp only
    rw [← Array.getLast?_toList] at hb
    exact h d (List.mem_of_getLast? hb)

/-- cumulative lengths are sorted, non-negative, start at 0 -/
theorem calculateLength_sorted (hs : ∀ x, 0 ≤ T.sqrt x) (path : Array (Pos K))
    (expected : Option K) (optimized : K) (hopt : 0 ≤ optimized)
    (path' : Array (Pos K)) (lens : Array K)
    (h : calculateLength (fieldArith T) path expected optimized = .ok (path', lens)) :
    lens.toList.Pairwise (· ≤ ·) ∧ (∀ l ∈ lens.toList, 0 ≤ l) ∧ lens[0]? = some 0 ∧
      0 ≤ dist (fieldArith T) lens := by
  suffices hh : lens.toList.Pairwise (· ≤ ·) ∧ (∀ l ∈ lens.toList, 0 ≤ l) ∧
      lens.toList[0]? = some 0 by
    exact ⟨hh.1, hh.2.1, by simpa using hh.2.2, dist_nonneg_of_all T lens hh.2.1⟩
  obtain ⟨ls, cl, -, hlen, hP, hB, -, hc⟩ :=
    calculateLength_cases' T hs path expected optimized hopt path' lens h
  unfold CLCases at hc
  rcases hc with ⟨-, hl, -⟩ | ⟨e, -, -, ⟨-, -, -, hl⟩ | ⟨-, hsz, ⟨-, -, rfl⟩ |
    ⟨k, hk1, hk2, ⟨x, hx1, hx2⟩, hl, -, -⟩⟩⟩
  · rw [hl]; exact ⟨hP, fun l hl => (hB l hl).1, by simp⟩
  · rw [hl]
    refine ⟨List.pairwise_append.mpr ⟨hP, List.pairwise_singleton _ _, ?_⟩, ?_, by simp⟩
    · intro a ha b hb
      rw [List.mem_singleton] at hb; subst hb; exact (hB a ha).2
    · intro l hl
      rcases List.mem_append.mp hl with h | h
      · exact (hB l h).1
      · rw [List.mem_singleton] at h; subst h; exact (hB 0 (by simp)).2
  · simp
  · rw [hl]
    have hsub : (List.take k ((0 : K) :: ls).dropLast).Sublist (0 :: ls) :=
      (List.take_sublist _ _).trans (List.dropLast_sublist _)
    have hxmem : x ∈ (0 : K) :: ls :=
      (List.dropLast_sublist _).subset (List.mem_of_getElem? hx1)
    have hlt := take_lt_of_sorted (hP.sublist (List.dropLast_sublist _)) k x e hx1 hx2
    have he : 0 ≤ e := le_trans (hB x hxmem).1 hx2.le
    refine ⟨List.pairwise_append.mpr ⟨hP.sublist hsub, List.pairwise_singleton _ _, ?_⟩, ?_, ?_⟩
    · intro a ha b hb
      rw [List.mem_singleton] at hb; subst hb; exact (hlt a ha).le
    · intro l hl
      rcases List.mem_append.mp hl with h | h
      · exact (hB l (hsub.subset h)).1
      · rw [List.mem_singleton] at h; subst h; exact he
    · obtain ⟨c, ls', rfl⟩ : ∃ c ls', ls = c :: ls' := by
        cases ls with
        | nil => simp only [List.length_nil] at hlen; omega
        | cons c ls' => exact ⟨_, _, rfl⟩
      obtain ⟨k', rfl⟩ : ∃ k', k = k' + 1 := ⟨k - 1, by omega⟩
      simp

/-- The exact law for the total distance `dist(lengths)` after `calculate_length`. -/
theorem calculateLength_dist_law (hs : ∀ x, 0 ≤ T.sqrt x) (path : Array (Pos K))
    (expected : Option K) (optimized : K) (hopt : 0 ≤ optimized)
    (path' : Array (Pos K)) (lens : Array K)
    (h : calculateLength (fieldArith T) path expected optimized = .ok (path', lens)) :
    let A := fieldArith T
    let cl := calculatedLen A optimized path.toList
    let d := dist A lens
    match expected with
    | none => d = (if path.size ≤ 1 then 0 else cl)
    | some e =>
      if |cl - e| < dEps A then d = (if path.size ≤ 1 then 0 else cl)
      else if lastTwoEqual A path = true ∧ cl < e then d = cl
      else if path.size ≤ 1 then d = 0
      else if e ≤ 0 then d = 0 ∧ lens = #[0] ∧ path'.size = 1
      else d = e ∧ path'.size = lens.size := by
  obtain ⟨ls, cl, hcl, hlen, hP, hB, hG, hc⟩ :=
    calculateLength_cases' T hs path expected optimized hopt path' lens h
  dsimp only
  rw [← hcl]
  clear hcl
  unfold CLCases at hc
  have hdL : lens.toList = 0 :: ls →
      dist (fieldArith T) lens = if path.size ≤ 1 then 0 else cl :=
    fun hl => dist_of_getLast? _ _ _ (by rw [hl]; exact hG)
  cases expected with
  | none =>
    dsimp only
    rcases hc with ⟨-, hl, -⟩ | ⟨e, he, -⟩
    · exact hdL hl
    · cases he
  | some e =>
    dsimp only
    rcases hc with ⟨-, hl, hcond⟩ | ⟨e', he, hge, hc⟩
    · rcases hcond with hn | ⟨e', he, hcl | ⟨hlte, hsz⟩⟩
      · cases hn
      · cases he; rw [if_pos hcl]; exact hdL hl
      · cases he
        by_cases hclose : |cl - e| < dEps (fieldArith T)
        · rw [if_pos hclose]; exact hdL hl
        · rw [if_neg hclose, if_neg hlte, if_pos hsz, hdL hl, if_pos hsz]
    · cases he
      rw [if_neg (not_lt.mpr hge)]
      rcases hc with ⟨hl1, hl2, -, hl⟩ | ⟨hlte, hsz, hc⟩
      · rw [if_pos ⟨hl1, hl2⟩]
        exact dist_of_getLast? _ _ _ (by rw [hl]; exact List.getLast?_concat)
      · rw [if_neg hlte, if_neg (by omega)]
        have h0mem : (0 : K) ∈ ((0 : K) :: ls).dropLast := by
          cases ls with
          | nil => simp only [List.length_nil] at hlen; omega
          | cons c ls' => simp
        rcases hc with ⟨hno, rfl, rfl⟩ | ⟨k, hk1, hk2, ⟨x, hx1, hx2⟩, hl, hps, -⟩
        · by_cases he0 : e ≤ 0
          · rw [if_pos he0]
            refine ⟨dist_of_getLast? _ _ _ (by simp), rfl, ?_⟩
            simp only [Array.size_extract]; omega
          · exact absurd (not_le.mp he0) (hno 0 h0mem)
        · have hxmem : x ∈ (0 : K) :: ls :=
            (List.dropLast_sublist _).subset (List.mem_of_getElem? hx1)
          have hne : ¬ e ≤ 0 := not_le.mpr (lt_of_le_of_lt (hB x hxmem).1 hx2)
          rw [if_neg hne]
          refine ⟨dist_of_getLast? _ _ _ (by rw [hl]; exact List.getLast?_concat), ?_⟩
          have hsz' : lens.size = lens.toList.length := by simp
          rw [hsz', hl, hps]
          simp only [List.length_append, List.length_take, List.length_dropLast,
            List.length_cons, List.length_nil]
          omega

omit [IsStrictOrderedRing K] in
/-- Cut / extension case: the vertices are `path` truncated to `lens.size` entries with only the
LAST vertex replaced. -/
theorem calculateLength_cut_vertices (path : Array (Pos K)) (e optimized : K)
    (path' : Array (Pos K)) (lens : Array K)
    (h : calculateLength (fieldArith T) path (some e) optimized = .ok (path', lens))
    (hfar : dEps (fieldArith T) ≤ |calculatedLen (fieldArith T) optimized path.toList - e|)
    (hlte : ¬ (lastTwoEqual (fieldArith T) path = true ∧
      calculatedLen (fieldArith T) optimized path.toList < e))
    (hsz : 2 ≤ path.size) :
    ∀ j : Nat, j + 1 < path'.size → path'[j]? = path[j]? := by
  have hc : CLCases T path (some e) path' lens _ _ :=
    calculateLength_cases T path (some e) optimized path' lens h
  unfold CLCases at hc
  intro j hj
  rcases hc with ⟨-, -, hcond⟩ | ⟨e', he, -, hc⟩
  · rcases hcond with hn | ⟨e', he, hcl | ⟨-, hsz'⟩⟩
    · cases hn
    · cases he; exact absurd hcl (not_lt.mpr hfar)
    · omega
  · cases he
    rcases hc with ⟨hl1, hl2, -, -⟩ | ⟨-, -, ⟨-, rfl, -⟩ | ⟨k, -, -, -, -, hps, hv⟩⟩
    · exact absurd ⟨hl1, hl2⟩ hlte
    · simp only [Array.size_extract] at hj; omega
    · exact hv j (by omega)

omit [IsStrictOrderedRing K] in
/-- `lastTwoEqual` says: at least two vertices, and the last two are the same point. -/
theorem lastTwoEqual_iff (path : Array (Pos K)) :
    lastTwoEqual (fieldArith T) path = true ↔
      ∃ a rest, path.toList.reverse = a :: a :: rest := by
  unfold lastTwoEqual
  split
  · rename_i b a tl heq
    rw [heq]
    obtain ⟨ax, ay⟩ := a
    obtain ⟨bx, by'⟩ := b
    simp only [peq, fieldArith, Bool.and_eq_true, decide_eq_true_eq]
    constructor
    · rintro ⟨rfl, rfl⟩; exact ⟨_, _, rfl⟩
    · rintro ⟨a', rest, h⟩
      simp only [List.cons.injEq] at h
      obtain ⟨h1, h2, -⟩ := h
      rw [← h2] at h1
      simp only [Pos.mk.injEq] at h1
      exact ⟨h1.1.symm, h1.2.symm⟩
  · rename_i hne
    constructor
    · intro h; cases h
    · rintro ⟨a, rest, h⟩
      exact absurd h (hne a a rest)

theorem dEps_val : dEps (fieldArith T) = (1 : K) / 4503599627370496 := by
  unfold dEps
  simp only [fieldArith]
  norm_num

end Rosu.Curve
