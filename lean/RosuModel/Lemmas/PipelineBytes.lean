import RosuModel.Model.PipelineBytes
import RosuModel.Lemmas.PipelineCatch
import RosuModel.Props.C06b

/-!
Facts about the object preparation of the from-bytes pipelines (every arithmetic): one converter
input per decoded object, span counts `≥ 1`, and the decoded object vector of a non-mania file
exists, is sorted by start time and paired with its sounds (worker DEC's theorems).
-/

namespace Rosu.PipelineBytes
open Rosu.DecodeLine Rosu.Decode Rosu.SkillOps

variable {R S : Type} (O : BOps R S)

theorem osuObjects_length (d : Decoded) : ∀ (hs : List HObj) (cs : CurveInputs R S) (os : List (Rosu.PipelineOsu.PObj R S)),
    osuObjects O d hs cs = some os → os.length = hs.length := by
  intro hs
  induction hs with
  | nil => intro cs os h; simp [osuObjects] at h; subst h; rfl
  | cons a t ih =>
    intro cs os h
    unfold osuObjects at h
    cases hk : a.kind with
    | circle =>
      rw [hk] at h; simp only [Option.map_eq_some_iff] at h
      obtain ⟨l, hl, rfl⟩ := h; simp [ih cs l hl]
    | spinner dur =>
      rw [hk] at h; simp only [Option.map_eq_some_iff] at h
      obtain ⟨l, hl, rfl⟩ := h; simp [ih cs l hl]
    | hold dur =>
      rw [hk] at h; simp only [Option.map_eq_some_iff] at h
      obtain ⟨l, hl, rfl⟩ := h; simp [ih cs l hl]
    | slider rp ln ns cps =>
      rw [hk] at h
      cases cs with
      | nil => simp at h
      | cons c cs' =>
        simp only [Option.map_eq_some_iff] at h
        obtain ⟨l, hl, rfl⟩ := h; simp [ih cs' l hl]

theorem catchObjects_spec (d : Decoded) : ∀ (hs : List HObj) (cs : CurveInputs R S) (bs : List Nat)
    (os : List (Rosu.PipelineCatch.PObj R S)), catchObjects O d hs cs bs = some os →
    os.length = hs.length ∧ Rosu.SliderEvents.SpansPositive (os.map Rosu.PipelineCatch.toRaw) := by
  intro hs
  induction hs with
  | nil => intro cs bs os h; simp [catchObjects] at h; subst h; exact ⟨rfl, trivial⟩
  | cons a t ih =>
    intro cs bs os h
    unfold catchObjects at h
    cases hk : a.kind with
    | circle =>
      rw [hk] at h; simp only [Option.map_eq_some_iff] at h
      obtain ⟨l, hl, rfl⟩ := h
      obtain ⟨h1, h2⟩ := ih cs bs l hl
      exact ⟨by simp [h1], by simpa [Rosu.PipelineCatch.toRaw, Rosu.SliderEvents.SpansPositive] using h2⟩
    | spinner dur =>
      rw [hk] at h
      cases bs with
      | nil => simp at h
      | cons b bs' =>
        simp only [Option.map_eq_some_iff] at h
        obtain ⟨l, hl, rfl⟩ := h
        obtain ⟨h1, h2⟩ := ih cs bs' l hl
        exact ⟨by simp [h1], by simpa [Rosu.PipelineCatch.toRaw, Rosu.SliderEvents.SpansPositive] using h2⟩
    | hold dur =>
      rw [hk] at h
      cases bs with
      | nil => simp at h
      | cons b bs' =>
        simp only [Option.map_eq_some_iff] at h
        obtain ⟨l, hl, rfl⟩ := h
        obtain ⟨h1, h2⟩ := ih cs bs' l hl
        exact ⟨by simp [h1], by simpa [Rosu.PipelineCatch.toRaw, Rosu.SliderEvents.SpansPositive] using h2⟩
    | slider rp ln ns cps =>
      rw [hk] at h
      cases cs with
      | nil => simp at h
      | cons c cs' =>
        simp only [Option.map_eq_some_iff] at h
        obtain ⟨l, hl, rfl⟩ := h
        obtain ⟨h1, h2⟩ := ih cs' bs l hl
        refine ⟨by simp [h1], ?_⟩
        simp only [List.map_cons, Rosu.PipelineCatch.toRaw, Rosu.SliderEvents.SpansPositive]
        exact ⟨by simp [sliderIn], h2⟩

/-- **DEC's facts at the byte level**: the object vector of every non-mania file exists, has one
sound per object, and is sorted by start time (`total_cmp` keys and numeric keys) -/
theorem fromBytes_objects (bytes : List UInt8) (d : Decoded) (h : fromBytes bytes = some d) (hm : d.mode ≠ 3) :
    ∃ objs snds, d.objects = some (objs, snds) ∧ snds.length = objs.length ∧
      (objs.map (·.1)).Pairwise (· ≤ ·) ∧ (objs.map (fun p => norm p.1)).Pairwise (· ≤ ·) := by
  unfold fromBytes fromNatBytes at h
  cases hr : readBytes (bytes.map (·.toNat)) with
  | none => rw [hr] at h; cases h
  | some ls =>
    rw [hr] at h
    simp only [Option.map_some, Option.some.injEq] at h
    subst h
    have hl := decodeLines_lengths ls
    have hl' : (decodeLines ls).hs.sounds.length
        = ((decodeLines ls).hs.objects.map fun o => (keyOfBits64 o.time, o)).length := by
      rw [hl]; simp
    obtain ⟨o, s, he, _, h2, h3, h4, _⟩ := Rosu.C06.decode_objects_sorted_and_paired _ _ hl'
    refine ⟨o, s, ?_, h2, h3, h4⟩
    simp only [finish]
    have : ((decodeLines ls).mode == 3) = false := by simpa [finish] using hm
    rw [this]
    exact he

end Rosu.PipelineBytes
