import RosuModel.Model.SkillOps
import RosuModel.Lemmas.AggregateField
import Mathlib.Analysis.SpecialFunctions.Pow.Real
import Mathlib.Analysis.SpecialFunctions.Exp
import Mathlib.Analysis.SpecialFunctions.Trigonometric.Basic
import Mathlib.Algebra.Order.Floor.Defs
import Mathlib.Tactic.Linarith
import Mathlib.Tactic.Positivity
import Mathlib.Tactic.NormNum
import Mathlib.Tactic.Ring

/-!
# The real-number reading of the skill arithmetic

`FOps ℝ`: `+ - * /` of the field ℝ, `powf = Real.rpow`, `exp = Real.exp`, `sqrt = Real.sqrt`,
comparisons decided classically, `f64::max/min` = `max/min`, `signum x = 1` for `0 ≤ x` and `-1`
otherwise (ℝ has one zero; the skill only compares signs of numbers of absolute value `> 0.1`),
`StrainsVec::push` keeps `x` iff `0 < x`, `total_cmp` is `≤`.  Both float widths are read as ℝ and
the casts between them are the identity (`realCasts`); `as i32` is truncation toward zero.

Mathlib's total functions (`x / 0 = 0`, `rpow` of a negative base, `sqrt` of a negative number)
never make a statement true for the wrong reason here: every theorem about a value comes with the
corresponding side-condition theorem (`…Dom`) showing each partial operation in-domain.
-/

namespace Rosu.SkillOps
open FOps

noncomputable instance instFOpsReal : FOps ℝ where
  toOfScientific := inferInstance
  toAdd := inferInstance
  toSub := inferInstance
  toMul := inferInstance
  toDiv := inferInstance
  toNeg := inferInstance
  lt a b := decide (a < b)
  le a b := decide (a ≤ b)
  beq a b := decide (a = b)
  fmax a b := max a b
  fmin a b := min a b
  abs a := |a|
  sqrt := Real.sqrt
  powf := Real.rpow
  exp := Real.exp
  cos := Real.cos
  isNormal a := decide (a ≠ 0)
  ofInt n := (n : ℝ)
  signum a := if 0 ≤ a then 1 else -1
  storable a := decide (0 < a)
  isNonZero a := decide (a ≠ 0)
  totalGe a b := decide (b ≤ a)

/-- both float widths read as ℝ; `as i32` = truncation toward zero -/
noncomputable def realCasts : Casts ℝ ℝ where
  toF x := x
  toS x := x
  toI32 x := if 0 ≤ x then ⌊x⌋ else ⌈x⌉
  ofI32 n := (n : ℝ)

/-! ### bridge lemmas -/

@[simp] theorem r_add (a b : ℝ) : @HAdd.hAdd ℝ ℝ ℝ (@instHAdd ℝ FOps.toAdd) a b = a + b := rfl
@[simp] theorem r_sub (a b : ℝ) : @HSub.hSub ℝ ℝ ℝ (@instHSub ℝ FOps.toSub) a b = a - b := rfl
@[simp] theorem r_mul (a b : ℝ) : @HMul.hMul ℝ ℝ ℝ (@instHMul ℝ FOps.toMul) a b = a * b := rfl
@[simp] theorem r_div (a b : ℝ) : @HDiv.hDiv ℝ ℝ ℝ (@instHDiv ℝ FOps.toDiv) a b = a / b := rfl
@[simp] theorem r_neg (a : ℝ) : @Neg.neg ℝ FOps.toNeg a = -a := rfl
@[simp] theorem r_lit (m : Nat) (s : Bool) (e : Nat) :
    @OfScientific.ofScientific ℝ FOps.toOfScientific m s e = (OfScientific.ofScientific m s e : ℝ) := rfl
theorem r_zero : (@OfScientific.ofScientific ℝ FOps.toOfScientific 0 true 1) = 0 := by
  rw [r_lit]; norm_num
theorem r_one : (@OfScientific.ofScientific ℝ FOps.toOfScientific 10 true 1) = 1 := by
  rw [r_lit]; norm_num
@[simp] theorem r_lt (a b : ℝ) : (FOps.lt a b = true) ↔ a < b := by simp [FOps.lt]
@[simp] theorem r_le (a b : ℝ) : (FOps.le a b = true) ↔ a ≤ b := by simp [FOps.le]
@[simp] theorem r_beq (a b : ℝ) : (FOps.beq a b = true) ↔ a = b := by simp [FOps.beq]
@[simp] theorem r_lt_false (a b : ℝ) : (FOps.lt a b = false) ↔ ¬ a < b := by simp [FOps.lt]
@[simp] theorem r_le_false (a b : ℝ) : (FOps.le a b = false) ↔ ¬ a ≤ b := by simp [FOps.le]
@[simp] theorem r_fmax (a b : ℝ) : FOps.fmax a b = max a b := rfl
@[simp] theorem r_fmin (a b : ℝ) : FOps.fmin a b = min a b := rfl
@[simp] theorem r_abs (a : ℝ) : FOps.abs a = |a| := rfl
@[simp] theorem r_powf (a b : ℝ) : FOps.powf a b = a ^ b := rfl
@[simp] theorem r_exp (a : ℝ) : FOps.exp a = Real.exp a := rfl
@[simp] theorem r_cos (a : ℝ) : FOps.cos a = Real.cos a := rfl
@[simp] theorem r_ofInt (n : Int) : (FOps.ofInt n : ℝ) = (n : ℝ) := rfl
@[simp] theorem r_sqrt (a : ℝ) : FOps.sqrt a = Real.sqrt a := rfl
@[simp] theorem r_storable (a : ℝ) : (FOps.storable a = true) ↔ 0 < a := by simp [FOps.storable]
@[simp] theorem r_toF (x : ℝ) : realCasts.toF x = x := rfl
@[simp] theorem r_toS (x : ℝ) : realCasts.toS x = x := rfl

/-- over ℝ the aggregation operations are those of the ordered field (Lemmas/AggregateField.lean) -/
theorem aggOps_real : (aggOps : Rosu.Agg.Ops ℝ) = Rosu.Agg.fieldOps ℝ := by
  unfold aggOps Rosu.Agg.fieldOps
  congr 1
  · norm_num
  · norm_num
  · funext x
    show decide ((OfScientific.ofScientific 0 true 1 : ℝ) < x) = decide (0 < x)
    norm_num

/-- `StrainsVec::push` never alters a non-negative value -/
theorem pushCanon_of_nonneg {x : ℝ} (h : 0 ≤ x) : pushCanon x = x := by
  unfold pushCanon
  by_cases hx : 0 < x
  · simp [hx]
  · have : x = 0 := le_antisymm (not_lt.mp hx) h
    subst this
    simp only [lt_self_iff_false, r_storable, if_false, r_lit]
    norm_num

/-- whatever is pushed, `StrainsVec` stores a value `≥ 0` -/
theorem pushCanon_nonneg (x : ℝ) : 0 ≤ pushCanon x := by
  unfold pushCanon
  by_cases hx : 0 < x
  · simp [hx]; exact hx.le
  · simp only [r_storable, hx, if_false]; rw [r_zero]

theorem exportPeaksV_nonneg {σ : Type} (st : StateV ℝ σ) : ∀ p ∈ exportPeaksV st, 0 ≤ p := by
  intro p hp
  unfold exportPeaksV at hp
  obtain ⟨x, _, rfl⟩ := List.mem_map.mp hp
  exact pushCanon_nonneg x

/-- non-negative peaks are exported unchanged -/
theorem exportPeaksV_of_nonneg {σ : Type} {st : StateV ℝ σ} (hp : ∀ p ∈ st.peaks, 0 ≤ p)
    (hs : 0 ≤ st.sectionPeak) : exportPeaksV st = st.peaks ++ [st.sectionPeak] := by
  unfold exportPeaksV
  rw [List.map_congr_left (g := id)]
  · simp
  · intro x hx
    simp only [List.mem_append, List.mem_singleton] at hx
    rcases hx with hx | hx
    · exact pushCanon_of_nonneg (hp x hx)
    · subst hx; exact pushCanon_of_nonneg hs

theorem strainDecay_real (ms base : ℝ) : strainDecay ms base = base ^ (ms / 1000) := by
  unfold strainDecay
  simp only [r_powf, r_div, r_lit]
  norm_num

/-- a decay factor `base ^ (ms / 1000)` with `0 < base ≤ 1`, `0 ≤ ms` lies in `(0, 1]` -/
theorem decay_mem_Ioc {base ms : ℝ} (hb : 0 < base) (hb1 : base ≤ 1) (hms : 0 ≤ ms) :
    0 < base ^ (ms / 1000) ∧ base ^ (ms / 1000) ≤ 1 :=
  ⟨Real.rpow_pos_of_pos hb _, Real.rpow_le_one hb.le hb1 (by positivity)⟩

end Rosu.SkillOps
