import RosuModel.Model.EvalCalc
import RosuModel.Lemmas.PerfCalcOsu
import RosuModel.Lemmas.AggregateField

/-! The `eval` (star rating) formulas of `Model/EvalCalc.lean` over ℝ: side conditions, sign, zero skills. -/

namespace Rosu.PerfCalc
open PPOps Rosu.Agg

/-! ## generic facts -/

theorem cbrt_nonneg {x : ℝ} (h : 0 ≤ x) : 0 ≤ (PPOps.cbrt x : ℝ) := by
  rw [r_cbrt, if_pos h]; exact Real.rpow_nonneg h _

theorem cbrt_pos {x : ℝ} (h : 0 < x) : 0 < (PPOps.cbrt x : ℝ) := by
  rw [r_cbrt, if_pos h.le]; exact Real.rpow_pos_of_pos h _

theorem cbrt_zero : (PPOps.cbrt (0 : ℝ) : ℝ) = 0 := by
  rw [r_cbrt, if_pos le_rfl]; exact Real.zero_rpow (by norm_num)

/-- `(x^a)^(1/a) = x` for `x ≥ 0`, `a ≠ 0` -/
theorem rpow_rpow_inv {x a : ℝ} (hx : 0 ≤ x) (ha : a ≠ 0) : (x ^ a) ^ (1 / a) = x := by
  rw [← Real.rpow_mul hx, mul_one_div_cancel ha, Real.rpow_one]

/-! ## osu! -/

theorem osuRating_nonneg (dv : ℝ) : 0 ≤ osuRating dv := by
  unfold osuRating osuDifficultyMultiplier
  simp only [r_mul, r_sqrt]
  exact mul_nonneg (Real.sqrt_nonneg _) (by norm_num)

theorem osuRating_zero : osuRating (0 : ℝ) = 0 := by
  unfold osuRating osuDifficultyMultiplier
  simp only [r_mul, r_sqrt]
  rw [Real.sqrt_zero, zero_mul]

theorem osuSliderFactor_nonneg {a n : ℝ} (ha : 0 ≤ a) (hn : 0 ≤ n) : 0 ≤ osuSliderFactor a n := by
  unfold osuSliderFactor
  by_cases h : PPOps.lt 0.0 a = true
  · rw [if_pos h]; exact div_nonneg hn ha
  · rw [if_neg h]; show (0 : ℝ) ≤ 1.0; norm_num

/-- all three adjusted ratings are non-negative -/
theorem osuAdjustRatings_nonneg (m : OsuEvalMods) {a s f : ℝ} (ha : 0 ≤ a) (hs : 0 ≤ s) (hf : 0 ≤ f) :
    0 ≤ (osuAdjustRatings m a s f).1 ∧ 0 ≤ (osuAdjustRatings m a s f).2.1
      ∧ 0 ≤ (osuAdjustRatings m a s f).2.2 := by
  unfold osuAdjustRatings
  have h9 : (0 : ℝ) ≤ 0.9 := by norm_num
  have h7 : (0 : ℝ) ≤ 0.7 := by norm_num
  have h5 : (0 : ℝ) ≤ 0.5 := by norm_num
  have h4 : (0 : ℝ) ≤ 0.4 := by norm_num
  have h0 : (0 : ℝ) ≤ 0.0 := by norm_num
  have pa : (0 : ℝ) ≤ a ^ (0.8 : ℝ) := Real.rpow_nonneg ha _
  have pf : (0 : ℝ) ≤ f ^ (0.8 : ℝ) := Real.rpow_nonneg hf _
  cases m.td <;> cases m.rx <;> cases m.ap <;>
    first
    | exact ⟨ha, hs, hf⟩
    | exact ⟨h0, mul_nonneg hs h5, mul_nonneg hf h4⟩
    | exact ⟨mul_nonneg ha h9, h0, mul_nonneg hf h7⟩
    | exact ⟨pa, hs, pf⟩
    | exact ⟨h0, mul_nonneg hs h5, mul_nonneg pf h4⟩
    | exact ⟨mul_nonneg pa h9, h0, mul_nonneg pf h7⟩

/-- `difficulty_to_performance ≥ 1/100000` for every real rating -/
theorem strainDifficultyToPerformance_ge (d : ℝ) : (1e-5 : ℝ) ≤ strainDifficultyToPerformance d := by
  unfold strainDifficultyToPerformance
  simp only [r_sub, r_mul, r_div, r_fmax, r_powf]
  have hm : (1.0 : ℝ) ≤ max 1.0 (d / 0.0675) := le_max_left _ _
  generalize max (1.0 : ℝ) (d / 0.0675) = mx at hm ⊢
  have hb : (1 : ℝ) ≤ 5.0 * mx - 4.0 := by norm_num at hm ⊢; linarith
  have h1 : (1 : ℝ) ≤ (5.0 * mx - 4.0) ^ (3.0 : ℝ) := Real.one_le_rpow hb (by norm_num)
  rw [le_div_iff₀ (by norm_num)]
  have : (1e-5 : ℝ) * 100000.0 = 1 := by norm_num
  rw [this]; exact h1

/-- `base_performance > 0.00001` always: the `else { 0.0 }` branch of `star_rating` is dead over ℝ -/
theorem osuBasePerformance_gt (m : OsuEvalMods) (a s f : ℝ) :
    (0.00001 : ℝ) < osuBasePerformance m a s f := by
  unfold osuBasePerformance
  extract_lets pa ps pf
  have hpa : (1e-5 : ℝ) ≤ pa := strainDifficultyToPerformance_ge a
  have hps : (1e-5 : ℝ) ≤ ps := strainDifficultyToPerformance_ge s
  have hpf : (0 : ℝ) ≤ pf := by
    show (0 : ℝ) ≤ (if m.fl = true then flashlightDifficultyToPerformance f else 0.0)
    split_ifs
    · exact flashlightDifficultyToPerformance_nonneg f
    · norm_num
  clear_value pa ps pf
  have hpa0 : (0 : ℝ) < pa := lt_of_lt_of_le (by norm_num) hpa
  have hps0 : (0 : ℝ) < ps := lt_of_lt_of_le (by norm_num) hps
  have e1 : (0 : ℝ) < ps ^ (1.1 : ℝ) := Real.rpow_pos_of_pos hps0 _
  have e2 : (0 : ℝ) ≤ pf ^ (1.1 : ℝ) := Real.rpow_nonneg hpf _
  have e0 : (0 : ℝ) ≤ pa ^ (1.1 : ℝ) := Real.rpow_nonneg hpa0.le _
  have hlt : pa ^ (1.1 : ℝ) < pa ^ (1.1 : ℝ) + ps ^ (1.1 : ℝ) + pf ^ (1.1 : ℝ) := by linarith
  have hmono := Real.rpow_lt_rpow e0 hlt (by norm_num : (0 : ℝ) < 1.0 / 1.1)
  have hinv : (pa ^ (1.1 : ℝ)) ^ (1.0 / 1.1 : ℝ) = pa := by
    have h1 : (1.0 : ℝ) = 1 := by norm_num
    rw [h1]; exact rpow_rpow_inv hpa0.le (by norm_num)
  rw [hinv] at hmono
  have h5 : (0.00001 : ℝ) = 1e-5 := by norm_num
  show (0.00001 : ℝ) < (pa ^ (1.1 : ℝ) + ps ^ (1.1 : ℝ) + pf ^ (1.1 : ℝ)) ^ (1.0 / 1.1 : ℝ)
  rw [h5]; exact lt_of_le_of_lt hpa hmono

theorem two_rpow_pos : (0 : ℝ) < (2.0 : ℝ) ^ (1.0 / 1.1 : ℝ) := Real.rpow_pos_of_pos (by norm_num) _

theorem osuStarArg_pos {b : ℝ} (hb : 0 < b) : 0 < osuStarArg b := by
  unfold osuStarArg
  simp only [r_mul, r_div, r_powf]
  exact mul_pos (div_pos (by norm_num) two_rpow_pos) hb

/-- `star_rating > 0` for every base performance above the threshold -/
theorem osuStarRating_pos {b : ℝ} (hb : (0.00001 : ℝ) < b) : 0 < osuStarRating b := by
  unfold osuStarRating osuStarRatingFrom
  have hlt : PPOps.lt (0.00001 : ℝ) b = true := (r_lt _ _).2 hb
  rw [if_pos hlt]
  have hb0 : (0 : ℝ) < b := lt_trans (by norm_num) hb
  have hc := cbrt_pos (osuStarArg_pos hb0)
  have h115 : (0 : ℝ) < (PPOps.cbrt (1.15 : ℝ) : ℝ) := cbrt_pos (by norm_num)
  have h27 : (0 : ℝ) < 0.027 := by norm_num
  have h4 : (0 : ℝ) < 4.0 := by norm_num
  exact mul_pos (mul_pos h115 h27) (add_pos hc h4)

/-- (b) osu! `eval`: every rating, the slider factor and the star rating are `≥ 0` (stars even `> 0`),
for all non-negative difficulty values and all mod flags -/
theorem osuEval_nonneg (m : OsuEvalMods) {aim ans sp fl : ℝ} (_h1 : 0 ≤ aim) (_h2 : 0 ≤ ans) (_h3 : 0 ≤ sp)
    (_h4 : 0 ≤ fl) :
    0 ≤ (osuEval m aim ans sp fl).aim ∧ 0 ≤ (osuEval m aim ans sp fl).speed
      ∧ 0 ≤ (osuEval m aim ans sp fl).flashlight ∧ 0 ≤ (osuEval m aim ans sp fl).sliderFactor
      ∧ 0 < (osuEval m aim ans sp fl).stars := by
  have ha := osuRating_nonneg aim
  have hn := osuRating_nonneg ans
  have hs := osuRating_nonneg sp
  have hf := osuRating_nonneg fl
  obtain ⟨a1, a2, a3⟩ := osuAdjustRatings_nonneg m ha hs hf
  refine ⟨a1, a2, a3, osuSliderFactor_nonneg ha hn, ?_⟩
  exact osuStarRating_pos (osuBasePerformance_gt m _ _ _)

/-- (a) osu! `eval`: every partial operation is in its domain -/
theorem osuEvalDom_true (m : OsuEvalMods) {aim ans sp fl : ℝ} (h1 : 0 ≤ aim) (h2 : 0 ≤ ans) (h3 : 0 ≤ sp)
    (h4 : 0 ≤ fl) : osuEvalDom m aim ans sp fl = true := by
  unfold osuEvalDom
  extract_lets aimRating speedRating flashlightRating adj pa ps pf
  have ha : (0 : ℝ) ≤ aimRating := osuRating_nonneg aim
  have hs : (0 : ℝ) ≤ speedRating := osuRating_nonneg sp
  have hf : (0 : ℝ) ≤ flashlightRating := osuRating_nonneg fl
  have hpa : (0 : ℝ) < pa := strainDifficultyToPerformance_pos _
  have hps : (0 : ℝ) < ps := strainDifficultyToPerformance_pos _
  have hpf : (0 : ℝ) ≤ pf := by
    show (0 : ℝ) ≤ (if m.fl = true then flashlightDifficultyToPerformance adj.2.2 else 0.0)
    split_ifs
    · exact flashlightDifficultyToPerformance_nonneg _
    · norm_num
  clear_value pa ps pf adj
  have h0 : (0.0 : ℝ) = 0 := by norm_num
  have c1 : PPOps.le (0.0 : ℝ) aim = true := by rw [r_le, h0]; exact h1
  have c2 : PPOps.le (0.0 : ℝ) ans = true := by rw [r_le, h0]; exact h2
  have c3 : PPOps.le (0.0 : ℝ) sp = true := by rw [r_le, h0]; exact h3
  have c4 : PPOps.le (0.0 : ℝ) fl = true := by rw [r_le, h0]; exact h4
  have c5 : (if PPOps.lt (0.0 : ℝ) aimRating = true then nz aimRating else true) = true := by
    by_cases h : PPOps.lt (0.0 : ℝ) aimRating = true
    · rw [if_pos h, nz_iff]
      have := (r_lt _ _).1 h
      rw [h0] at this; exact this.ne'
    · rw [if_neg h]
  have c6 : (if m.td = true then powfDom aimRating (0.8 : ℝ) && powfDom flashlightRating (0.8 : ℝ) else true)
      = true := by
    by_cases h : m.td = true
    · rw [if_pos h, powfDom_of_nonneg ha (by norm_num), powfDom_of_nonneg hf (by norm_num)]; rfl
    · rw [if_neg h]
  have c7 := powfDom_11 hpa.le
  have c8 := powfDom_11 hps.le
  have c9 := powfDom_11 hpf
  have c10 : powfDom (PPOps.powf pa 1.1 + PPOps.powf ps 1.1 + PPOps.powf pf 1.1 : ℝ) (1.0 / 1.1 : ℝ) = true :=
    powfDom_inv11 (add_nonneg (add_nonneg (Real.rpow_nonneg hpa.le _) (Real.rpow_nonneg hps.le _))
      (Real.rpow_nonneg hpf _))
  have c11 : nz (PPOps.powf 2.0 (1.0 / 1.1) : ℝ) = true := by rw [nz_iff]; exact two_rpow_pos.ne'
  rw [c1, c2, c3, c4, c5, c6, c7, c8, c9, c10, c11]; rfl

/-- all difficulty values zero: the ratings are 0, the slider factor 1, and the star rating is NOT 0 -/
theorem osuEval_zero_skills (m : OsuEvalMods) :
    (osuEval m (0 : ℝ) 0 0 0).aim = 0 ∧ (osuEval m (0 : ℝ) 0 0 0).speed = 0
      ∧ (osuEval m (0 : ℝ) 0 0 0).flashlight = 0 ∧ (osuEval m (0 : ℝ) 0 0 0).sliderFactor = 1
      ∧ 0 < (osuEval m (0 : ℝ) 0 0 0).stars := by
  have hz := osuRating_zero
  have hstars := (osuEval_nonneg m (le_refl (0 : ℝ)) (le_refl 0) (le_refl 0) (le_refl 0)).2.2.2.2
  have hadj : osuAdjustRatings m (0 : ℝ) 0 0 = (0, 0, 0) := by
    unfold osuAdjustRatings
    have e : ((0 : ℝ)) ^ (0.8 : ℝ) = 0 := Real.zero_rpow (by norm_num)
    have z9 : (0 : ℝ) * 0.9 = 0 := zero_mul _
    have z7 : (0 : ℝ) * 0.7 = 0 := zero_mul _
    have z5 : (0 : ℝ) * 0.5 = 0 := zero_mul _
    have z4 : (0 : ℝ) * 0.4 = 0 := zero_mul _
    have z0 : (0.0 : ℝ) = 0 := by norm_num
    cases m.td <;> cases m.rx <;> cases m.ap <;> simp [e, z0]
  have hsf : osuSliderFactor (0 : ℝ) 0 = 1 := by
    unfold osuSliderFactor
    have : ¬ PPOps.lt (0.0 : ℝ) 0 = true := by rw [r_lt]; norm_num
    rw [if_neg this]; norm_num
  refine ⟨?_, ?_, ?_, ?_, hstars⟩
  · show (osuAdjustRatings m (osuRating 0) (osuRating 0) (osuRating 0)).1 = 0
    rw [hz, hadj]
  · show (osuAdjustRatings m (osuRating 0) (osuRating 0) (osuRating 0)).2.1 = 0
    rw [hz, hadj]
  · show (osuAdjustRatings m (osuRating 0) (osuRating 0) (osuRating 0)).2.2 = 0
    rw [hz, hadj]
  · show osuSliderFactor (osuRating 0) (osuRating 0) = 1
    rw [hz, hsf]

/-! ## catch, mania -/

theorem catchStars_nonneg (dv : ℝ) : 0 ≤ catchStars dv := by
  unfold catchStars; simp only [r_mul, r_sqrt]
  exact mul_nonneg (Real.sqrt_nonneg _) (by norm_num)

theorem catchStars_zero : catchStars (0 : ℝ) = 0 := by
  unfold catchStars; simp only [r_mul, r_sqrt]; rw [Real.sqrt_zero, zero_mul]

theorem catchStarsDom_true {dv : ℝ} (h : 0 ≤ dv) : catchStarsDom dv = true := by
  unfold catchStarsDom; rw [r_le]
  have h0 : (0.0 : ℝ) = 0 := by norm_num
  rw [h0]; exact h

theorem maniaStars_nonneg {dv : ℝ} (h : 0 ≤ dv) : 0 ≤ maniaStars dv := by
  unfold maniaStars; simp only [r_mul]; exact mul_nonneg h (by norm_num)

theorem maniaStars_zero : maniaStars (0 : ℝ) = 0 := by
  unfold maniaStars; simp only [r_mul]; exact zero_mul _

end Rosu.PerfCalc
