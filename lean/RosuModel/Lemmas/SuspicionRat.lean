import RosuModel.Lemmas.Suspicion
import Mathlib.Algebra.Order.Field.Rat
import Mathlib.Tactic.Linarith
import Mathlib.Tactic.Push

/-!
`Rosu.Susp.check` over exact rationals: what the rules mean as (in)equalities, telescoping of the
density windows over sorted times, monotonicity under deletion.
-/
namespace Rosu.Susp

/-- the exact instance used by the theorems -/
abbrev ratA : Arith ℚ ℚ := exact ℚ

/-- hit objects sorted by start time (what `Beatmap` decoding establishes) -/
def Sorted (l : List (Obj ℚ ℚ)) : Prop := l.Pairwise (fun a b => a.start ≤ b.start)

theorem ratA_lt (a b : ℚ) : ratA.lt a b = true ↔ a < b := by simp [ratA, exact]
theorem ratA_lt_false (a b : ℚ) : ratA.lt a b = false ↔ b ≤ a := by simp [ratA, exact]
theorem ratA_sub (a b : ℚ) : ratA.sub a b = a - b := rfl
theorem ratA_day : ratA.day = 86400000 := by simp [ratA, exact]
theorem ratA_ms1000 : ratA.ms1000 = 1000 := by simp [ratA, exact]
theorem ratA_ms10000 : ratA.ms10000 = 10000 := by simp [ratA, exact]

theorem ratA_absBeyond_false (v : ℚ) : ratA.absBeyond v = false ↔ |v| ≤ 10000 := by
  simp only [ratA, exact, Bool.or_eq_false_iff, decide_eq_false_iff_not, not_lt, abs_le]
  push_cast
  constructor
  · rintro ⟨h1, h2⟩; constructor <;> linarith
  · rintro ⟨h1, h2⟩; constructor <;> linarith

theorem checkPos_false_iff (o : Obj ℚ ℚ) : checkPos ratA o = false ↔ (|o.x| ≤ 10000 ∧ |o.y| ≤ 10000) := by
  unfold checkPos
  rw [Bool.or_eq_false_iff, ratA_absBeyond_false, ratA_absBeyond_false]

/-- `too_long` is false iff the LAST object starts at most a day after the FIRST one -/
theorem tooLong_false_iff (objs : List (Obj ℚ ℚ)) :
    tooLong ratA objs = false ↔
      ∀ f l, objs.head? = some f → objs.getLast? = some l → l.start - f.start ≤ 86400000 := by
  match objs with
  | [] => simp [tooLong]
  | [a] => simp [tooLong]
  | a :: b :: rest =>
    unfold tooLong
    rw [ratA_lt_false, ratA_sub, ratA_day]
    simp only [List.head?_cons, Option.some.injEq, List.getLast?_cons_cons]
    rw [List.getLast?_eq_some_getLast (List.cons_ne_nil b rest)]
    simp

/-- `DenseFree` over ℚ, with indices into the whole list -/
theorem denseFree_rat_iff (mode : Mode) (l : List (Obj ℚ ℚ)) :
    DenseFree ratA mode l ↔
      ∀ (i : Nat) (c o : Obj ℚ ℚ), l[i]? = some c →
        (l[i + per1s mode]? = some o → 1000 ≤ o.start - c.start) ∧
        (l[i + per10s mode]? = some o → 10000 ≤ o.start - c.start) := by
  rw [denseFree_index]
  constructor
  · intro h i c o hc
    have := h i c hc
    unfold tooDense at this
    rw [Bool.or_eq_false_iff, denseWithin_false_iff, denseWithin_false_iff] at this
    refine ⟨fun ho => ?_, fun ho => ?_⟩
    · have := this.1 o ho
      rwa [ratA_lt_false, ratA_sub, ratA_ms1000] at this
    · have := this.2 o ho
      rwa [ratA_lt_false, ratA_sub, ratA_ms10000] at this
  · intro h i c hc
    unfold tooDense
    rw [Bool.or_eq_false_iff, denseWithin_false_iff, denseWithin_false_iff]
    refine ⟨fun o ho => ?_, fun o ho => ?_⟩
    · rw [ratA_lt_false, ratA_sub, ratA_ms1000]; exact (h i c o hc).1 ho
    · rw [ratA_lt_false, ratA_sub, ratA_ms10000]; exact (h i c o hc).2 ho

/-! ### sorted lists -/

theorem sorted_getElem_le {l : List (Obj ℚ ℚ)} (hs : Sorted l) {i j : Nat} {a b : Obj ℚ ℚ}
    (hij : i ≤ j) (ha : l[i]? = some a) (hb : l[j]? = some b) : a.start ≤ b.start := by
  rcases Nat.lt_or_eq_of_le hij with h | h
  · obtain ⟨hi, rfl⟩ := List.getElem?_eq_some_iff.mp ha
    obtain ⟨hj, rfl⟩ := List.getElem?_eq_some_iff.mp hb
    exact List.pairwise_iff_getElem.mp hs i j hi hj h
  · subst h; rw [ha] at hb; cases hb; exact le_refl _

/-- telescoping: `k` consecutive windows of `per` objects, each spanning at least `d` -/
theorem window_telescope (l : List (Obj ℚ ℚ)) (per : Nat) (d : ℚ)
    (hw : ∀ (i : Nat) (c o : Obj ℚ ℚ), l[i]? = some c → l[i + per]? = some o → d ≤ o.start - c.start) :
    ∀ (k i : Nat) (a b : Obj ℚ ℚ), l[i]? = some a → l[i + k * per]? = some b → (k : ℚ) * d ≤ b.start - a.start := by
  intro k
  induction k with
  | zero =>
    intro i a b ha hb
    simp only [Nat.zero_mul, Nat.add_zero] at hb
    rw [ha] at hb; cases hb; simp
  | succ k ih =>
    intro i a b ha hb
    have hlen : i + (k + 1) * per < l.length := (List.getElem?_eq_some_iff.mp hb).1
    have hmid : i + k * per < l.length := by
      have : k * per ≤ (k + 1) * per := Nat.mul_le_mul_right _ (Nat.le_succ k)
      omega
    have hm : l[i + k * per]? = some l[i + k * per] := List.getElem?_eq_getElem hmid
    have h1 := ih i a _ ha hm
    have h2 := hw (i + k * per) _ b hm (by rw [← hb]; congr 1; rw [Nat.succ_mul]; omega)
    push_cast
    linarith

/-- sorted + windows ⇒ any two objects `j − i ≥ k·per` apart in index are `≥ k·d` apart in time -/
theorem window_sorted (l : List (Obj ℚ ℚ)) (hs : Sorted l) (per : Nat) (d : ℚ)
    (hw : ∀ (i : Nat) (c o : Obj ℚ ℚ), l[i]? = some c → l[i + per]? = some o → d ≤ o.start - c.start)
    (k i j : Nat) (a b : Obj ℚ ℚ) (ha : l[i]? = some a) (hb : l[j]? = some b) (hij : i + k * per ≤ j) :
    (k : ℚ) * d ≤ b.start - a.start := by
  have hj : j < l.length := (List.getElem?_eq_some_iff.mp hb).1
  have hm : l[i + k * per]? = some l[i + k * per] := List.getElem?_eq_getElem (by omega)
  have h1 := window_telescope l per d hw k i a _ ha hm
  have h2 := sorted_getElem_le hs hij hm hb
  linarith

/-! ### deletion (sublists) -/

theorem sublist_getElem_ge {α : Type} {l' l : List α} (h : l'.Sublist l) :
    ∀ (k : Nat) (o : α), l'[k]? = some o → ∃ k', k ≤ k' ∧ l[k']? = some o := by
  induction h with
  | slnil => intro k o hk; simp at hk
  | cons a _ ih =>
    intro k o hk
    obtain ⟨k', h1, h2⟩ := ih k o hk
    exact ⟨k' + 1, by omega, by simpa using h2⟩
  | cons_cons a _ ih =>
    intro k o hk
    cases k with
    | zero => exact ⟨0, Nat.le_refl _, by simpa using hk⟩
    | succ k =>
      obtain ⟨k', h1, h2⟩ := ih k o (by simpa using hk)
      exact ⟨k' + 1, by omega, by simpa using h2⟩

/-- structural density over ℚ for one window size -/
def WindowFree (per : Nat) (d : ℚ) : List (Obj ℚ ℚ) → Prop
  | [] => True
  | h :: t => (∀ o, (h :: t)[per]? = some o → d ≤ o.start - h.start) ∧ WindowFree per d t

theorem windowFree_sublist (per : Nat) (d : ℚ) {l' l : List (Obj ℚ ℚ)} (h : l'.Sublist l) :
    Sorted l → WindowFree per d l → WindowFree per d l' := by
  induction h with
  | slnil => intro _ h; exact h
  | cons a _ ih =>
    intro hs hw
    exact ih (List.Pairwise.of_cons hs) hw.2
  | @cons_cons l₁ l₂ a hsub ih =>
    intro hs hw
    refine ⟨fun o ho => ?_, ih (List.Pairwise.of_cons hs) hw.2⟩
    obtain ⟨k', hk, hk'⟩ := sublist_getElem_ge (List.Sublist.cons_cons a hsub) per o ho
    have hlen : k' < (a :: l₂).length := (List.getElem?_eq_some_iff.mp hk').1
    have hm : (a :: l₂)[per]? = some (a :: l₂)[per] := List.getElem?_eq_getElem (by omega)
    have h1 := hw.1 _ hm
    have h2 := sorted_getElem_le hs hk hm hk'
    linarith

theorem denseFree_iff_windowFree (mode : Mode) (l : List (Obj ℚ ℚ)) :
    DenseFree ratA mode l ↔ (WindowFree (per1s mode) 1000 l ∧ WindowFree (per10s mode) 10000 l) := by
  induction l with
  | nil => simp [DenseFree, WindowFree]
  | cons h t ih =>
    simp only [DenseFree, WindowFree]
    rw [ih]
    unfold tooDense denseWithin
    rw [Bool.or_eq_false_iff]
    constructor
    · rintro ⟨⟨h1, h2⟩, h3, h4⟩
      refine ⟨⟨fun o ho => ?_, h3⟩, ⟨fun o ho => ?_, h4⟩⟩
      · rw [ho] at h1; simp only at h1
        rwa [ratA_lt_false, ratA_sub, ratA_ms1000] at h1
      · rw [ho] at h2; simp only at h2
        rwa [ratA_lt_false, ratA_sub, ratA_ms10000] at h2
    · rintro ⟨⟨h1, h3⟩, ⟨h2, h4⟩⟩
      refine ⟨⟨?_, ?_⟩, h3, h4⟩
      · cases ho : (h :: t)[per1s mode]? with
        | none => rfl
        | some o => simp only; rw [ratA_lt_false, ratA_sub, ratA_ms1000]; exact h1 o ho
      · cases ho : (h :: t)[per10s mode]? with
        | none => rfl
        | some o => simp only; rw [ratA_lt_false, ratA_sub, ratA_ms10000]; exact h2 o ho

theorem tooLong_sublist {l' l : List (Obj ℚ ℚ)} (h : l'.Sublist l) (hs : Sorted l)
    (hl : tooLong ratA l = false) : tooLong ratA l' = false := by
  rw [tooLong_false_iff] at hl ⊢
  intro f' la' hf' hla'
  -- first/last of the sublist sit at some indices of `l`, between its first and last
  have hne' : l' ≠ [] := by rintro rfl; simp at hf'
  have hne : l ≠ [] := by rintro rfl; exact hne' (List.sublist_nil.mp h)
  obtain ⟨f, hf⟩ : ∃ f, l.head? = some f := ⟨l.head hne, List.head?_eq_some_head hne⟩
  obtain ⟨la, hla⟩ : ∃ la, l.getLast? = some la := ⟨l.getLast hne, List.getLast?_eq_some_getLast hne⟩
  have := hl f la hf hla
  have hf0 : l[0]? = some f := by rw [← List.head?_eq_getElem?]; exact hf
  have hlaN : l[l.length - 1]? = some la := by rw [← List.getLast?_eq_getElem?]; exact hla
  have hf'0 : l'[0]? = some f' := by rw [← List.head?_eq_getElem?]; exact hf'
  have hla'N : l'[l'.length - 1]? = some la' := by rw [← List.getLast?_eq_getElem?]; exact hla'
  obtain ⟨k1, _, hk1⟩ := sublist_getElem_ge h 0 f' hf'0
  obtain ⟨k2, _, hk2⟩ := sublist_getElem_ge h _ la' hla'N
  have hk2len : k2 < l.length := (List.getElem?_eq_some_iff.mp hk2).1
  have e1 := sorted_getElem_le hs (Nat.zero_le k1) hf0 hk1
  have e2 := sorted_getElem_le hs (by omega : k2 ≤ l.length - 1) hk2 hlaN
  linarith

end Rosu.Susp
