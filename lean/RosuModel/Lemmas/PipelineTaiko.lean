import RosuModel.Model.PipelineTaiko
import RosuModel.Props.C02

/-!
Every-arithmetic facts about the native-taiko pipeline: the gradual machine's product skill state
is, component by component, the one-shot run of that skill over a prefix of the records.
-/

namespace Rosu.PipelineTaiko
open Rosu.SkillOps Rosu.TaikoSkill Rosu.Gradual
open Rosu.Skill (Obj)

variable {R : Type} [FOps R]

/-- `k` steps of one component, starting at difficulty object `lo` -/
def iterStep {P σ : Type} (A : SecArith R) (F : FnsV R P σ) (fuel : Nat) (diffs : List (Obj R P)) :
    SkillOps.Res (StateV R σ) → Nat → Nat → SkillOps.Res (StateV R σ)
  | s, _, 0 => s
  | s, lo, k + 1 => iterStep A F fuel diffs (stepRes A F fuel diffs s lo) (lo + 1) k

theorem iterStep_failed {P σ : Type} (A : SecArith R) (F : FnsV R P σ) (fuel : Nat) (diffs : List (Obj R P))
    (s : SkillOps.Res (StateV R σ)) (hs : ∀ st, s ≠ .ok st) : ∀ (k lo : Nat), iterStep A F fuel diffs s lo k = s := by
  intro k
  induction k with
  | zero => intro lo; rfl
  | succ k ih =>
    intro lo
    unfold iterStep
    have : stepRes A F fuel diffs s lo = s := by
      unfold stepRes
      cases s with
      | ok st => exact absurd rfl (hs st)
      | panic => rfl
      | fuel => rfl
    rw [this]
    exact ih (lo + 1)

theorem iterStep_ok {P σ : Type} (A : SecArith R) (F : FnsV R P σ) (fuel : Nat) (diffs : List (Obj R P)) :
    ∀ (k lo : Nat) (st : StateV R σ), lo + k ≤ diffs.length →
      iterStep A F fuel diffs (.ok st) lo k = processAllV A FOps.fmax F fuel st ((diffs.drop lo).take k) := by
  intro k
  induction k with
  | zero => intro lo st _; simp [iterStep, processAllV]
  | succ k ih =>
    intro lo st h
    have hlo : lo < diffs.length := by omega
    have hdrop : diffs.drop lo = diffs[lo] :: diffs.drop (lo + 1) := List.drop_eq_getElem_cons hlo
    unfold iterStep
    have hstep : stepRes A F fuel diffs (.ok st) lo = processV A FOps.fmax F fuel st diffs[lo] := by
      simp only [stepRes, Res.bind, List.getElem?_eq_getElem hlo]
    rw [hstep, hdrop, List.take_succ_cons]
    unfold processAllV
    cases hp : processV A FOps.fmax F fuel st diffs[lo] with
    | ok st' => exact ih (lo + 1) st' (by omega)
    | panic => exact iterStep_failed A F fuel diffs .panic (by intro st h; cases h) k (lo + 1)
    | fuel => exact iterStep_failed A F fuel diffs .fuel (by intro st h; cases h) k (lo + 1)

/-- the product state of the gradual machine advances component by component -/
theorem processFrom_five (A : SecArith R) (fuel : Nat) (hw : R) (conv : Bool) (recs : List (TObj R)) :
    ∀ (k lo : Nat) (s : S5 R),
      processFrom (concreteSkills5 A fuel hw conv recs) s lo k
        = (iterStep A (rhythmFns hw) fuel recs s.1 lo k, iterStep A readingFns fuel recs s.2.1 lo k,
            iterStep A (colorFns (recs.map fun o => o.data.ratio)) fuel recs s.2.2.1 lo k,
            iterStep A (staminaFns false conv) fuel recs s.2.2.2.1 lo k,
            iterStep A (staminaFns true conv) fuel recs s.2.2.2.2 lo k) := by
  intro k
  induction k with
  | zero => intro lo s; rfl
  | succ k ih =>
    intro lo s
    unfold processFrom
    rw [ih]
    rfl

/-- **the gradual skill state after `k` difficulty objects = the one-shot calculation over the
first `k` records**, every arithmetic -/
theorem processedPrefix_five (A : SecArith R) (fuel : Nat) (hw : R) (conv : Bool) (recs : List (TObj R))
    (k : Nat) (hk : k ≤ recs.length) :
    combine5 (processedPrefix (concreteSkills5 A fuel hw conv recs) k) = calculate A fuel hw conv k recs := by
  unfold processedPrefix
  rw [processFrom_five]
  simp only [concreteSkills5]
  rw [iterStep_ok _ _ _ _ _ _ _ (by simpa using hk), iterStep_ok _ _ _ _ _ _ _ (by simpa using hk),
    iterStep_ok _ _ _ _ _ _ _ (by simpa using hk), iterStep_ok _ _ _ _ _ _ _ (by simpa using hk),
    iterStep_ok _ _ _ _ _ _ _ (by simpa using hk)]
  simp only [List.drop_zero]
  rfl

/-- the `inspect` closure of `create_difficulty_objects` counts hits until `take` is reached -/
theorem inspect_fold (take : Nat) : ∀ (l : List Bool) (m n : Nat), m ≤ take →
    (l.foldl (taikoInspectStep take) (m, n)).1 = min take (m + (l.filter id).length) := by
  intro l
  induction l with
  | nil => intro m n h; simp; omega
  | cons b l ih =>
    intro m n h
    simp only [List.foldl_cons]
    by_cases hlt : m < take
    · have hstep : taikoInspectStep take (m, n) b = (m + (if b then 1 else 0), n + 1) := by
        simp [taikoInspectStep, hlt]
      rw [hstep, ih _ _ (by cases b <;> simp <;> omega)]
      cases b <;> simp <;> omega
    · have hstep : taikoInspectStep take (m, n) b = (m, n) := by
        simp [taikoInspectStep, hlt]
      rw [hstep, ih m n h]
      have : m = take := by omega
      subst this
      cases b <;> simp

/-- `max_combo` as left by `create_difficulty_objects` -/
theorem taikoCreate_mc (hits : List Bool) (take : Nat) :
    (taikoCreate hits take).2.1 = min take (hits.filter id).length := by
  have hf := inspect_fold take hits 0 0 (Nat.zero_le _)
  rw [Nat.zero_add] at hf
  unfold taikoCreate
  rw [← hf]
  cases hfold : hits.foldl (taikoInspectStep take) (0, 0) with
  | mk mc nd =>
    simp only
    split <;> rfl

theorem take_min_length {α : Type} (l : List α) (k : Nat) : l.take (min k l.length) = l.take k := by
  by_cases h : k ≤ l.length
  · rw [Nat.min_eq_left h]
  · have h' : l.length ≤ k := by omega
    rw [Nat.min_eq_right h', List.take_of_length_le (Nat.le_refl _), List.take_of_length_le h']

/-- processing more records than there are = processing all of them -/
theorem calculate_min (A : SecArith R) (fuel : Nat) (hw : R) (conv : Bool) (recs : List (TObj R)) (k : Nat) :
    calculate A fuel hw conv (min k recs.length) recs = calculate A fuel hw conv k recs := by
  unfold calculate
  rw [take_min_length]

/-- the skill part of `Gradual.taikoOneShot` with the concrete skills = the pipeline's one-shot -/
theorem taikoOneShot_concrete (A : SecArith R) (fuel : Nat) (hw : R) (hits : List Bool) (recs : List (TObj R))
    (hlen : recs.length = hits.length - 2) (take : Nat) :
    ((taikoOneShot (concreteSkills5 A fuel hw false recs) hits take).1,
        combine5 (taikoOneShot (concreteSkills5 A fuel hw false recs) hits take).2)
      = oneShotSkills A fuel hw hits recs take := by
  unfold taikoOneShot oneShotSkills taikoCreate
  by_cases hlt : hits.length < 2
  · have h0 : recs.length = 0 := by omega
    simp only [hlt, if_true]
    congr 1
    have : (0 : Nat) = recs.length := h0.symm
    rw [this, processedPrefix_five A fuel hw false recs _ (Nat.min_le_right _ _), calculate_min]
  · simp only [hlt, if_false]
    congr 1
    rw [← hlen, processedPrefix_five A fuel hw false recs _ (Nat.min_le_right _ _), calculate_min]

/-- an answer of the pipeline is an answer of `TaikoSkill.calculate` on some records -/
theorem taikoSkillsOfBytes_ok (O : TOps R) (A : SecArith R) (fuel : Nat) (bytes : List UInt8) (mods : Nat)
    (custom take : Option Nat) (hw : R) (mc : Nat) (sk : TaikoSkill.Skills R)
    (h : taikoSkillsOfBytes O A fuel bytes mods custom take hw = .ok (mc, sk)) :
    ∃ n recs, calculate A fuel hw false n recs = .ok sk := by
  unfold taikoSkillsOfBytes at h
  cases hb : Rosu.DecodeLine.fromBytes bytes with
  | none => rw [hb] at h; cases h
  | some d =>
    rw [hb] at h
    simp only at h
    cases hr : recordsOf O d (O.dec64 (clockRateBits mods custom)) mods with
    | ok r =>
      obtain ⟨hits, recs⟩ := r
      rw [hr] at h
      simp only at h
      unfold oneShotSkills at h
      dsimp only at h
      split at h
      · rename_i sk' hc
        simp only [Out.ok.injEq, Prod.mk.injEq] at h
        exact ⟨_, recs, by rw [← h.2]; exact hc⟩
      · cases h
      · cases h
    | ioError => rw [hr] at h; cases h
    | notTaiko m => rw [hr] at h; cases h
    | panic => rw [hr] at h; cases h
    | fuel => rw [hr] at h; cases h

end Rosu.PipelineTaiko
