import RosuModel.Model.Decode
import RosuModel.Lemmas.Tandem

/-!
Lemmas about the decode post-processing model: the stable index permutation, sortedness and
pairing after the tandem sort, insert-or-replace of control points, clamps.
-/

namespace Rosu.Decode
open Rosu.Sort

/-! ## `new_stable` yields a permutation that sorts the keys -/

theorem stableIndices_perm (keys : List Int) :
    (stableIndices keys).Perm (List.range keys.length) :=
  List.mergeSort_perm _ _

theorem stableIndices_length (keys : List Int) : (stableIndices keys).length = keys.length := by
  rw [(stableIndices_perm keys).length_eq, List.length_range]

theorem stableIndices_permIdx (keys : List Int) : PermIdx (stableIndices keys) where
  nodup := (stableIndices_perm keys).nodup_iff.mpr List.nodup_range
  bound := by
    intro x hx
    rw [stableIndices_length]
    exact List.mem_range.mp ((stableIndices_perm keys).mem_iff.mp hx)

theorem stableIndices_sorted (keys : List Int) :
    (stableIndices keys).Pairwise (fun i j => keys.getD i 0 ≤ keys.getD j 0) := by
  have h := List.pairwise_mergeSort
    (le := fun i j => decide (keys.getD i 0 ≤ keys.getD j 0))
    (by intro a b c h1 h2; simp only [decide_eq_true_eq] at *; omega)
    (by intro a b; simp only [Bool.or_eq_true, decide_eq_true_eq]; omega)
    (List.range keys.length)
  exact h.imp (by intro a b h; simpa using h)

/-! ## consequences of `Applied` -/

theorem range_map_getElem? {α : Type} (l : List α) :
    (List.range l.length).map (fun k => l[k]?) = l.map some := by
  apply List.ext_getElem?
  intro p
  rw [List.getElem?_map, List.getElem?_map]
  by_cases hp : p < l.length
  · rw [List.getElem?_range hp]; simp [List.getElem?_eq_getElem hp]
  · have h1 : (List.range l.length)[p]? = none := by
      rw [List.getElem?_eq_none_iff, List.length_range]; omega
    have h2 : l[p]? = none := by rw [List.getElem?_eq_none_iff]; omega
    rw [h1, h2]; rfl

theorem filterMap_id_map_some {α : Type} (l : List α) : (l.map some).filterMap id = l := by
  induction l with
  | nil => rfl
  | cons x xs ih => simp [ih]

/-- Applying a permutation of `0..n` to a list of length `n` permutes it. -/
theorem Applied.perm {α : Type} {σ : List Nat} {a a' : List α} (h : Applied σ a a')
    (hσ : σ.Perm (List.range a.length)) : a'.Perm a := by
  unfold Applied at h
  have h1 : (σ.map (fun k => a[k]?)).Perm ((List.range a.length).map (fun k => a[k]?)) :=
    hσ.map _
  rw [range_map_getElem?, ← h] at h1
  have h2 := h1.filterMap id
  rwa [filterMap_id_map_some, filterMap_id_map_some] at h2

/-- The keys of the permuted list are the keys at the permuted indices. -/
theorem Applied.keys {τ : Type} {σ : List Nat} {a a' : List (Int × τ)} (h : Applied σ a a')
    (hσ : ∀ x ∈ σ, x < a.length) :
    a'.map (·.1) = σ.map (fun k => (a.map (·.1)).getD k 0) := by
  unfold Applied at h
  have h1 := congrArg (List.map (Option.map (fun (p : Int × τ) => p.1))) h
  rw [List.map_map, List.map_map] at h1
  have h2 : (a'.map (·.1)).map some = (σ.map (fun k => (a.map (·.1)).getD k 0)).map some := by
    rw [List.map_map, List.map_map]
    refine Eq.trans (by simpa [Function.comp_def] using h1) ?_
    apply List.map_congr_left
    intro k hk
    have hk' := hσ k hk
    simp [List.getElem?_eq_getElem hk', List.getD_eq_getElem?_getD,
      List.getElem?_map]
  exact (List.map_inj_right (fun _ _ e => Option.some.inj e)).mp h2

/-! ## total-order keys vs IEEE order -/

theorem norm_mono {a b : Int} (h : a ≤ b) : norm a ≤ norm b := by
  unfold norm
  split <;> split <;> omega

/-! ## insert-or-replace keeps the vector strictly sorted -/

/-- Strictly increasing time keys. -/
def StrictSorted {V : Type} (l : List (Int × V)) : Prop :=
  l.Pairwise (fun a b => a.1 < b.1)

theorem mem_insertOrReplace {V : Type} (p : Int × V) (l : List (Int × V)) :
    ∀ x ∈ insertOrReplace p l, x = p ∨ x ∈ l := by
  induction l with
  | nil => intro x hx; simp [insertOrReplace] at hx; exact Or.inl hx
  | cons q rest ih =>
    intro x hx
    unfold insertOrReplace at hx
    split at hx
    · rcases List.mem_cons.mp hx with e | hm
      · exact Or.inr (by rw [e]; exact List.mem_cons_self)
      · rcases ih x hm with e | hm
        · exact Or.inl e
        · exact Or.inr (List.mem_cons_of_mem _ hm)
    · split at hx
      · rcases List.mem_cons.mp hx with e | hm
        · exact Or.inl e
        · exact Or.inr (List.mem_cons_of_mem _ hm)
      · rcases List.mem_cons.mp hx with e | hm
        · exact Or.inl e
        · exact Or.inr hm

theorem insertOrReplace_mem_self {V : Type} (p : Int × V) (l : List (Int × V)) :
    p ∈ insertOrReplace p l := by
  induction l with
  | nil => simp [insertOrReplace]
  | cons q rest ih =>
    unfold insertOrReplace
    split
    · exact List.mem_cons_of_mem _ ih
    · split <;> exact List.mem_cons_self

theorem insertOrReplace_strictSorted {V : Type} (p : Int × V) (l : List (Int × V))
    (h : StrictSorted l) : StrictSorted (insertOrReplace p l) := by
  unfold StrictSorted at *
  induction l with
  | nil => simp [insertOrReplace]
  | cons q rest ih =>
    rw [List.pairwise_cons] at h
    unfold insertOrReplace
    split
    · next hlt =>
      rw [List.pairwise_cons]
      refine ⟨?_, ih h.2⟩
      intro x hx
      rcases mem_insertOrReplace p rest x hx with e | hm
      · rw [e]; exact hlt
      · exact h.1 x hm
    · split
      · next hnlt heq =>
        rw [List.pairwise_cons]
        exact ⟨fun x hx => by have := h.1 x hx; omega, h.2⟩
      · next hnlt hne =>
        rw [List.pairwise_cons]
        refine ⟨?_, List.pairwise_cons.mpr h⟩
        intro x hx
        rcases List.mem_cons.mp hx with e | hm
        · rw [e]; omega
        · have := h.1 x hm; omega

/-! ## the pending-point state machine only ever changes the vectors through insert-or-replace -/

variable {T D E : Type}

/-- All three control-point vectors are strictly sorted. -/
structure PointsSorted (s : CPState T D E) : Prop where
  timing : StrictSorted s.timing
  difficulty : StrictSorted s.difficulty
  effect : StrictSorted s.effect

theorem addDifficulty_strictSorted (P : CPParams D E) (l : List (Int × D)) (p : Int × D)
    (h : StrictSorted l) : StrictSorted (addDifficulty P l p) := by
  unfold addDifficulty
  simp only
  split <;> (split <;> first | exact h | exact insertOrReplace_strictSorted p l h)

theorem addEffect_strictSorted (P : CPParams D E) (l : List (Int × E)) (p : Int × E)
    (h : StrictSorted l) : StrictSorted (addEffect P l p) := by
  unfold addEffect
  simp only
  split <;> (split <;> first | exact h | exact insertOrReplace_strictSorted p l h)

theorem flush_sorted (P : CPParams D E) (s : CPState T D E) (h : PointsSorted s) :
    PointsSorted (flush P s) := by
  obtain ⟨timing, difficulty, effect, pt, pT, pD, pE⟩ := s
  obtain ⟨h1, h2, h3⟩ := h
  simp only at h1 h2 h3
  unfold flush
  cases pT <;> cases pD <;> cases pE <;>
    exact ⟨by first | exact h1 | exact insertOrReplace_strictSorted _ _ h1,
           by first | exact h2 | exact addDifficulty_strictSorted P _ _ h2,
           by first | exact h3 | exact addEffect_strictSorted P _ _ h3⟩

theorem maybeFlush_sorted (P : CPParams D E) (s : CPState T D E) (t : Int) (h : PointsSorted s) :
    PointsSorted (maybeFlush P s t) := by
  unfold maybeFlush
  split
  · exact flush_sorted P s h
  · exact h

theorem addLine_sorted (P : CPParams D E) (s : CPState T D E) (ln : Line T D E)
    (h : PointsSorted s) : PointsSorted (addLine P s ln) := by
  unfold addLine
  simp only
  have hT : PointsSorted (if ln.timingChange then addPendingT P s ln.time ln.timingChange ln.t else s) := by
    split
    · have := maybeFlush_sorted P s ln.time h
      exact ⟨this.1, this.2, this.3⟩
    · exact h
  generalize (if ln.timingChange then addPendingT P s ln.time ln.timingChange ln.t else s) = s1 at hT
  have hD : PointsSorted (addPendingD P s1 ln.time ln.timingChange ln.d) := by
    have := maybeFlush_sorted P s1 ln.time hT
    exact ⟨this.1, this.2, this.3⟩
  generalize addPendingD P s1 ln.time ln.timingChange ln.d = s2 at hD
  have hE : PointsSorted (addPendingE P s2 ln.time ln.timingChange ln.e) := by
    have := maybeFlush_sorted P s2 ln.time hD
    exact ⟨this.1, this.2, this.3⟩
  exact ⟨hE.1, hE.2, hE.3⟩

theorem foldl_addLine_sorted (P : CPParams D E) (lines : List (Line T D E)) (s : CPState T D E)
    (h : PointsSorted s) : PointsSorted (lines.foldl (addLine P) s) := by
  induction lines generalizing s with
  | nil => exact h
  | cons ln rest ih => exact ih _ (addLine_sorted P s ln h)

/-! ## clamps -/

theorem clampKey_range (lo hi x : Int) (h : norm lo ≤ norm hi) :
    norm lo ≤ norm (clampKey lo hi x) ∧ norm (clampKey lo hi x) ≤ norm hi := by
  unfold clampKey fltLt
  by_cases h1 : norm x < norm lo
  · simp only [h1, decide_true, if_true]; omega
  · simp only [h1, decide_false, Bool.false_eq_true, if_false]
    by_cases h2 : norm hi < norm x
    · simp only [h2, decide_true, if_true]; omega
    · simp only [h2, decide_false, Bool.false_eq_true, if_false]; omega

/-- A value already inside the bounds is returned unchanged (bit for bit). -/
theorem clampKey_id (lo hi x : Int) (h1 : norm lo ≤ norm x) (h2 : norm x ≤ norm hi) :
    clampKey lo hi x = x := by
  unfold clampKey fltLt
  have : ¬ norm x < norm lo := by omega
  have : ¬ norm hi < norm x := by omega
  simp [*]

end Rosu.Decode
