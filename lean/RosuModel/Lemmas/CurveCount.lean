import RosuModel.Lemmas.CurveBasic

/-!
# Vertex counts of the fixed-size approximations (every arithmetic)

* `catmull_subpath` emits exactly `2 · CATMULL_DETAIL = 100` points; `approximate_catmull` on `n ≥ 2`
  control points emits `100 · (n − 1)`;
* the osu!-only optimisation pass emits at most one vertex per input vertex;
* `approximate_circular_arc`, when it succeeds, emits between 2 and 999 points (the cap);
* `approximate_linear` emits the control points themselves.
-/
namespace Rosu.Curve

variable {S D : Type} (A : Arith S D)

theorem length_catmullPair (v1 v2 v3 v4 : Pos S) (c : Nat) :
    (catmullPair A v1 v2 v3 v4 c).length = 2 := rfl

theorem sum_map_const_two : ∀ (l : List Nat) (f : Nat → Nat), (∀ c, f c = 2) →
    (l.map f).sum = 2 * l.length
  | [], _, _ => rfl
  | a :: rest, f, h => by
    simp only [List.map_cons, List.sum_cons, List.length_cons, h a, sum_map_const_two rest f h]
    omega

theorem length_catmullSubpath (v1 v2 v3 v4 : Pos S) :
    (catmullSubpath A v1 v2 v3 v4).length = 100 := by
  unfold catmullSubpath
  rw [List.length_flatMap, sum_map_const_two _ _ (length_catmullPair A v1 v2 v3 v4)]
  simp [catmullDetail]

theorem getC_ok_lt {α : Type} (a : Array α) (i : Nat) (h : i < a.size) :
    getC a i = .ok a[i] := by
  simp [getC, Array.getElem?_eq_getElem h]

/-- The remaining-iterations loop of `approximate_catmull`: `100` points per iteration. -/
theorem catmullLoop_size (pts : Array (Pos S)) :
    ∀ (n k : Nat) (path : Array (Pos S)), k + n + 1 < pts.size + 1 → k + n + 2 ≤ pts.size →
      ∃ path', catmullLoop A pts n k path = .ok path' ∧ path'.size = path.size + 100 * n
  | 0, _, path, _, _ => ⟨path, rfl, by simp⟩
  | n + 1, k, path, h1, h2 => by
    have hk : k < pts.size := by omega
    have hk1 : k + 1 < pts.size := by omega
    unfold catmullLoop
    simp only [getC_ok_lt pts k hk, getC_ok_lt pts (k + 1) hk1, bind, Except.bind]
    obtain ⟨p', hp', hs⟩ := catmullLoop_size pts n (k + 1)
      (path ++ (catmullSubpath A pts[k] pts[k + 1]
        (match pts[k + 2]? with
          | some v => v
          | none => psub A (pmul A pts[k + 1] (two A)) pts[k])
        (match pts[k + 3]? with
          | some v => v
          | none => psub A (pmul A
              (match pts[k + 2]? with
                | some v => v
                | none => psub A (pmul A pts[k + 1] (two A)) pts[k]) (two A)) pts[k + 1])).toArray)
      (by omega) (by omega)
    refine ⟨p', hp', ?_⟩
    rw [hs]
    simp only [Array.size_append, List.size_toArray, length_catmullSubpath]
    omega

/-- `approximate_catmull` on `n ≥ 2` control points appends exactly `100 · (n − 1)` vertices, for
every arithmetic (`CATMULL_DETAIL = 50`, two points per step). -/
theorem approximateCatmull_size (path pts : Array (Pos S)) (h : 2 ≤ pts.size) :
    ∃ path', approximateCatmull A path pts = .ok path' ∧
      path'.size = path.size + 100 * (pts.size - 1) := by
  unfold approximateCatmull
  have h1 : ¬ pts.size = 1 := by omega
  have hs : subC pts.size 1 = .ok (pts.size - 1) := by
    unfold subC; rw [if_pos (by omega)]
  simp only [h1, if_false, hs, getC_ok_lt pts 0 (by omega), bind, Except.bind]
  obtain ⟨p', hp', hsz⟩ := catmullLoop_size A pts (pts.size - 2) 0
    (path ++ (catmullSubpath A pts[0] pts[0]
      (match pts[1]? with
        | some v => v
        | none => pts[0])
      (match pts[2]? with
        | some v => v
        | none => psub A (pmul A
            (match pts[1]? with
              | some v => v
              | none => pts[0]) (two A)) pts[0])).toArray)
    (by omega) (by omega)
  refine ⟨p', hp', ?_⟩
  rw [hsz]
  simp only [Array.size_append, List.size_toArray, length_catmullSubpath]
  omega

/-- One step of the osu!-only pass pushes at most one vertex. -/
theorem catOptStep_size (sub : Array (Pos S)) (st st' : CatOpt S D) (i : Nat) (curr : Pos S)
    (h : catOptStep A sub st i curr = .ok st') :
    st'.path.size ≤ st.path.size + 1 ∧ st.path.size ≤ st'.path.size := by
  unfold catOptStep at h
  split at h
  · cases h; simp
  · simp only [bind, Except.bind] at h
    split at h
    · cases h
    · split at h
      · cases h
      · split at h
        · cases h
        · split at h
          · cases h; simp
          · cases h; simp

theorem catOptLoop_size (sub : Array (Pos S)) :
    ∀ (l : List (Pos S)) (i : Nat) (st st' : CatOpt S D), catOptLoop A sub l i st = .ok st' →
      st'.path.size ≤ st.path.size + l.length ∧ st.path.size ≤ st'.path.size
  | [], _, st, st', h => by
    simp only [catOptLoop] at h
    cases h
    simp
  | curr :: rest, i, st, st', h => by
    simp only [catOptLoop, bind, Except.bind] at h
    split at h
    · cases h
    · rename_i st1 h1
      have a := catOptStep_size A sub st st1 i curr h1
      have b := catOptLoop_size sub rest (i + 1) st1 st' h
      simp only [List.length_cons]
      omega

/-- `arcSubPoints` is at least 2 whatever the arithmetic says. -/
theorem two_le_arcSubPoints (pr : ArcProps S D) : 2 ≤ arcSubPoints A pr := by
  unfold arcSubPoints
  split
  · exact Nat.le_refl 2
  · dsimp only
    split
    · exact Nat.le_refl 2
    · exact Nat.le_max_right _ _

/-- `approximate_circular_arc`: when it succeeds it appends `k` points with `2 ≤ k < 1000`. -/
theorem approximateArc_size (fuel : Nat) (path path' : Array (Pos S)) (a b c : Pos S)
    (h : approximateArc A fuel path a b c = .ok (some path')) :
    ∃ k, 2 ≤ k ∧ k < arcCap ∧ path'.size = path.size + k := by
  unfold approximateArc at h
  simp only [bind, Except.bind] at h
  split at h
  · cases h
  · rename_i o ho
    cases o with
    | none => simp at h
    | some pr =>
      simp only at h
      split at h
      · cases h
      · rename_i hcap
        have h2 := two_le_arcSubPoints A pr
        have hs : subC (arcSubPoints A pr) 1 = .ok (arcSubPoints A pr - 1) := by
          unfold subC; rw [if_pos (by omega)]
        rw [hs] at h
        simp only [Except.ok.injEq, Option.some.injEq] at h
        refine ⟨arcSubPoints A pr, h2, by omega, ?_⟩
        rw [← h]
        simp

end Rosu.Curve
