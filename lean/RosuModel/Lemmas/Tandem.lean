import RosuModel.Model.Sort

/-!
# TandemSorter: the cycle walk applies the stored permutation and restores its marks

`σ` is the list of index values (`indices` without mark bits).  For every `σ` that is a
permutation of `0..n` (no duplicates, all values `< n`), `TandemSorter::sort` turns a slice `a`
into `[a[σ[0]], a[σ[1]], …]`, never panics, never runs out of the model's fuel, and leaves every
index marked, so that the next `sort` (which first toggles all marks) starts from the same
indices again.
-/

namespace Rosu.Sort

variable {α : Type}

/-- `σ` is a permutation of `0..σ.length`. -/
structure PermIdx (σ : List Nat) : Prop where
  nodup : σ.Nodup
  bound : ∀ x ∈ σ, x < σ.length

theorem PermIdx.inj {σ : List Nat} (h : PermIdx σ) {p q v : Nat}
    (hp : σ[p]? = some v) (hq : σ[q]? = some v) : p = q := by
  have hlt : p < σ.length := by
    rcases List.getElem?_eq_some_iff.mp hp with ⟨h, _⟩; exact h
  exact (List.getElem?_inj hlt h.nodup).mp (hp.trans hq.symm)

theorem PermIdx.lt {σ : List Nat} (h : PermIdx σ) {p v : Nat} (hp : σ[p]? = some v) :
    v < σ.length := h.bound v (List.mem_of_getElem? hp)

theorem fst_get {σ : List Nat} {idx : List Idx} (h : idx.map Prod.fst = σ) {p v : Nat} {b : Bool}
    (hp : idx[p]? = some (v, b)) : σ[p]? = some v := by
  rw [← h, List.getElem?_map, hp]; rfl

theorem idx_len {σ : List Nat} {idx : List Idx} (h : idx.map Prod.fst = σ) :
    idx.length = σ.length := by rw [← h, List.length_map]

theorem idx_entry {σ : List Nat} {idx : List Idx} (h : idx.map Prod.fst = σ) {p : Nat}
    (hp : p < σ.length) : ∃ w b, idx[p]? = some (w, b) := by
  have : p < idx.length := by rw [idx_len h]; exact hp
  exact ⟨idx[p].1, idx[p].2, by simp [List.getElem?_eq_getElem this]⟩

theorem fst_set {σ : List Nat} {idx : List Idx} (h : idx.map Prod.fst = σ) {j v : Nat} {b b' : Bool}
    (hj : idx[j]? = some (v, b)) : (idx.set j (v, b')).map Prod.fst = σ := by
  rw [List.map_set, h]
  apply List.ext_getElem?
  intro k
  rw [List.getElem?_set]
  have := fst_get h hj
  split
  · next e =>
    subst e
    have hl : j < σ.length := by
      rcases List.getElem?_eq_some_iff.mp this with ⟨h, _⟩; exact h
    simp only [hl, if_true]
    exact this.symm
  · rfl

/-- Number of unmarked entries: the termination measure of the cycle walk. -/
def unmarked (idx : List Idx) : Nat := idx.countP (fun p => !p.2)

theorem unmarked_pos {idx : List Idx} {j v : Nat} (h : idx[j]? = some (v, false)) :
    0 < unmarked idx :=
  List.countP_pos_iff.mpr ⟨(v, false), List.mem_of_getElem? h, rfl⟩

theorem unmarked_set {idx : List Idx} {j v : Nat} (h : idx[j]? = some (v, false)) :
    unmarked (idx.set j (v, true)) + 1 = unmarked idx := by
  rcases List.getElem?_eq_some_iff.mp h with ⟨hl, he⟩
  have hp := unmarked_pos h
  unfold unmarked at *
  rw [List.countP_set hl, he]
  simp
  omega

/-- Invariant of the cycle walk that started at `i` and currently stands at `j`. -/
structure WInv (σ : List Nat) (a0 : List α) (i j : Nat) (jIdx : Idx) (idx : List Idx)
    (a : List α) : Prop where
  fst : idx.map Prod.fst = σ
  len : a.length = σ.length
  cur : idx[j]? = some jIdx
  jun : jIdx.2 = false
  done : ∀ (p v : Nat), idx[p]? = some (v, true) → a[p]? = a0[v]?
  todo : ∀ (p v : Nat), idx[p]? = some (v, false) → p ≠ j → a[p]? = a0[p]?
  hold : a[j]? = a0[i]?
  pre : ∀ (p v : Nat) (b : Bool) (w : Nat), idx[p]? = some (v, b) → idx[v]? = some (w, true) → v ≠ i → b = true
  pred : j ≠ i → ∃ q : Nat, idx[q]? = some (j, true)
  ist : j = i ∨ ∃ v : Nat, idx[i]? = some (v, true)

/-- Invariant between cycle walks: marked positions are final, unmarked ones untouched, and the
marked set is closed under taking predecessors. -/
structure OInv (σ : List Nat) (a0 : List α) (idx : List Idx) (a : List α) : Prop where
  fst : idx.map Prod.fst = σ
  len : a.length = σ.length
  done : ∀ (p v : Nat), idx[p]? = some (v, true) → a[p]? = a0[v]?
  todo : ∀ (p v : Nat), idx[p]? = some (v, false) → a[p]? = a0[p]?
  closed : ∀ (p v : Nat) (b : Bool) (w : Nat), idx[p]? = some (v, b) → idx[v]? = some (w, true) → b = true

theorem walk_spec {σ : List Nat} (hσ : PermIdx σ) {a0 : List α} :
    ∀ (fuel : Nat) (idx : List Idx) (a : List α) (i j : Nat) (jIdx : Idx),
      WInv σ a0 i j jIdx idx a → unmarked idx ≤ fuel →
      ∃ idx' a', walk fuel idx a i j jIdx = some (idx', a') ∧ OInv σ a0 idx' a' ∧
        (∀ (p v : Nat), idx[p]? = some (v, true) → idx'[p]? = some (v, true)) ∧
        (∃ v : Nat, idx'[i]? = some (v, true)) := by
  intro fuel
  induction fuel with
  | zero =>
    intro idx a i j jIdx h hf
    obtain ⟨v, b⟩ := jIdx
    have hb : b = false := h.jun
    subst hb
    have := unmarked_pos h.cur
    omega
  | succ fuel ih =>
    intro idx a i j jIdx h hf
    obtain ⟨v, b⟩ := jIdx
    have hb : b = false := h.jun
    subst hb
    have hcur := h.cur
    have hσj : σ[j]? = some v := fst_get h.fst hcur
    have hjlt : j < σ.length := by
      rcases List.getElem?_eq_some_iff.mp hσj with ⟨h, _⟩; exact h
    have hjlt' : j < idx.length := by rw [idx_len h.fst]; exact hjlt
    have hdec := unmarked_set hcur
    have hself : (idx.set j (v, true))[j]? = some (v, true) := List.getElem?_set_self hjlt'
    have hother : ∀ p, p ≠ j → (idx.set j (v, true))[p]? = idx[p]? :=
      fun p hp => List.getElem?_set_ne (fun e => hp e.symm)
    unfold walk
    by_cases hvi : v = i
    · -- the cycle closes
      subst hvi
      simp only [toggleMark, Bool.not_false, if_true]
      refine ⟨_, _, rfl, ⟨fst_set h.fst hcur, h.len, ?_, ?_, ?_⟩, ?_, ?_⟩
      · intro p w hp
        by_cases e : p = j
        · subst e
          rw [hself] at hp
          cases hp
          exact h.hold
        · rw [hother p e] at hp
          exact h.done p w hp
      · intro p w hp
        by_cases e : p = j
        · subst e
          rw [hself] at hp
          cases hp
        · rw [hother p e] at hp
          exact h.todo p w hp e
      · intro p u b w hp hu
        by_cases e : p = j
        · subst e
          rw [hself] at hp
          cases hp; rfl
        · rw [hother p e] at hp
          by_cases e2 : u = j
          · -- u = j newly marked
            subst e2
            by_cases hji : u = v
            · subst hji
              exact absurd (hσ.inj (fst_get h.fst hp) hσj) e
            · obtain ⟨q, hq⟩ := h.pred hji
              have : p = q := hσ.inj (fst_get h.fst hp) (fst_get h.fst hq)
              subst this
              rw [hq] at hp
              cases hp; rfl
          · rw [hother u e2] at hu
            by_cases hui : u = v
            · subst hui
              exact absurd (hσ.inj (fst_get h.fst hp) hσj) e
            · exact h.pre p u b w hp hu hui
      · intro p w hp
        by_cases e : p = j
        · subst e
          rw [hcur] at hp; cases hp
        · rw [hother p e]; exact hp
      · rcases h.ist with e | ⟨w, hw⟩
        · subst e
          exact ⟨j, hself⟩
        · by_cases hji : v = j
          · subst hji
            exact ⟨v, hself⟩
          · exact ⟨w, by rw [hother v hji]; exact hw⟩
    · -- one more step of the walk
      have hne : ((v, false) : Idx) ≠ (i, false) := by
        intro e; cases e; exact hvi rfl
      simp only [hne, if_false, toggleMark, Bool.not_false, Bool.false_eq_true]
      have hvlt : v < σ.length := hσ.lt hσj
      obtain ⟨w, bw, hv⟩ := idx_entry h.fst hvlt
      have hbw : bw = false := by
        cases bw with
        | false => rfl
        | true => exact absurd (h.pre j v false w hcur hv hvi) (by simp)
      subst hbw
      have hvj : v ≠ j := by
        intro e
        subst e
        obtain ⟨q, hq⟩ := h.pred hvi
        have : q = v := hσ.inj (fst_get h.fst hq) hσj
        subst this
        rw [hq] at hcur; cases hcur
      -- the swap succeeds
      have hjA : j < a.length := by rw [h.len]; exact hjlt
      have hvA : v < a.length := by rw [h.len]; exact hvlt
      have hsw : swap? a j v = some ((a.set j a[v]).set v a[j]) := by
        unfold swap?
        simp [List.getElem?_eq_getElem hjA, List.getElem?_eq_getElem hvA]
      have hnxt : (idx.set j (v, true))[v]? = some (w, false) := by
        rw [hother v hvj]; exact hv
      simp only [hsw, hnxt]
      have hAj : ((a.set j a[v]).set v a[j])[j]? = a[v]? := by
        rw [List.getElem?_set_ne hvj, List.getElem?_set_self hjA, List.getElem?_eq_getElem hvA]
      have hAv : ((a.set j a[v]).set v a[j])[v]? = a[j]? := by
        rw [List.getElem?_set_self (by simpa using hvA), List.getElem?_eq_getElem hjA]
      have hAo : ∀ p, p ≠ j → p ≠ v → ((a.set j a[v]).set v a[j])[p]? = a[p]? := by
        intro p h1 h2
        rw [List.getElem?_set_ne (fun e => h2 e.symm), List.getElem?_set_ne (fun e => h1 e.symm)]
      have hW : WInv σ a0 i v (w, false) (idx.set j (v, true)) ((a.set j a[v]).set v a[j]) := by
        refine ⟨fst_set h.fst hcur, by simp [h.len], hnxt, rfl, ?_, ?_, ?_, ?_, ?_, ?_⟩
        · intro p u hp
          by_cases e : p = j
          · subst e
            rw [hself] at hp
            cases hp
            rw [hAj]
            exact h.todo _ w hv hvj
          · rw [hother p e] at hp
            have hpv : p ≠ v := by
              intro e; subst e; rw [hv] at hp; cases hp
            rw [hAo p e hpv]
            exact h.done p u hp
        · intro p u hp hpv
          by_cases e : p = j
          · subst e
            rw [hself] at hp
            cases hp
          · rw [hother p e] at hp
            rw [hAo p e hpv]
            exact h.todo p u hp e
        · rw [hAv]; exact h.hold
        · intro p u b x hp hu hui
          by_cases e : p = j
          · subst e
            rw [hself] at hp
            cases hp; rfl
          · rw [hother p e] at hp
            by_cases e2 : u = j
            · subst e2
              obtain ⟨q, hq⟩ := h.pred hui
              have : p = q := hσ.inj (fst_get h.fst hp) (fst_get h.fst hq)
              subst this
              rw [hq] at hp
              cases hp; rfl
            · rw [hother u e2] at hu
              exact h.pre p u b x hp hu hui
        · intro _
          exact ⟨j, hself⟩
        · rcases h.ist with e | ⟨x, hx⟩
          · subst e
            exact Or.inr ⟨v, hself⟩
          · by_cases hji : i = j
            · subst hji
              exact Or.inr ⟨v, hself⟩
            · exact Or.inr ⟨x, by rw [hother i hji]; exact hx⟩
      obtain ⟨idx', a', hw, hO, hmono, hi⟩ := ih _ _ i v (w, false) hW (by omega)
      refine ⟨idx', a', hw, hO, ?_, hi⟩
      intro p u hp
      apply hmono
      by_cases e : p = j
      · subst e
        rw [hcur] at hp; cases hp
      · rw [hother p e]; exact hp

theorem outer_spec {σ : List Nat} (hσ : PermIdx σ) {a0 : List α} :
    ∀ (k i : Nat) (idx : List Idx) (a : List α), OInv σ a0 idx a → i + k = σ.length →
      (∀ p, p < i → ∃ v : Nat, idx[p]? = some (v, true)) →
      ∃ idx' a', outer k i idx a = some (idx', a') ∧ OInv σ a0 idx' a' ∧
        (∀ p, p < σ.length → ∃ v : Nat, idx'[p]? = some (v, true)) := by
  intro k
  induction k with
  | zero =>
    intro i idx a h hk hm
    exact ⟨idx, a, rfl, h, fun p hp => hm p (by omega)⟩
  | succ k ih =>
    intro i idx a h hk hm
    have hil : i < σ.length := by omega
    obtain ⟨v, b, hi⟩ := idx_entry h.fst hil
    unfold outer
    simp only [hi]
    cases b with
    | true =>
      simp only [if_true]
      apply ih (i + 1) idx a h (by omega)
      intro p hp
      by_cases e : p = i
      · subst e; exact ⟨v, hi⟩
      · exact hm p (by omega)
    | false =>
      simp only [Bool.false_eq_true, if_false]
      have hW : WInv σ a0 i i (v, false) idx a :=
        ⟨h.fst, h.len, hi, rfl, h.done, fun p u hp _ => h.todo p u hp, h.todo i v hi,
          fun p u b w hp hu _ => h.closed p u b w hp hu, fun e => absurd rfl e, Or.inl rfl⟩
      have hf : unmarked idx ≤ idx.length := List.countP_le_length
      obtain ⟨idx', a', hw, hO, hmono, hi'⟩ := walk_spec hσ (idx.length + 1) idx a i i (v, false) hW (by omega)
      simp only [hw]
      apply ih (i + 1) idx' a' hO (by omega)
      intro p hp
      by_cases e : p = i
      · subst e; exact hi'
      · obtain ⟨u, hu⟩ := hm p (by omega)
        exact ⟨u, hmono p u hu⟩

/-- Elementwise description of "apply the permutation `σ` to `a`". -/
def Applied (σ : List Nat) (a a' : List α) : Prop :=
  a'.map some = σ.map (fun k => a[k]?)

theorem sort_core {σ : List Nat} (hσ : PermIdx σ) (a : List α) (ha : a.length = σ.length) :
    ∃ a', outer σ.length 0 (σ.map (·, false)) a = some (σ.map (·, true), a') ∧ Applied σ a a' := by
  have hfst : (σ.map (fun x => ((x, false) : Idx))).map Prod.fst = σ := by
    simp [List.map_map, Function.comp_def]
  have hO : OInv σ a (σ.map (·, false)) a := by
    refine ⟨hfst, ha, ?_, fun _ _ _ => rfl, ?_⟩
    · intro p v hp
      rw [List.getElem?_map] at hp
      cases hσp : σ[p]? <;> simp [hσp] at hp
    · intro p v b w _ hu
      rw [List.getElem?_map] at hu
      cases hσp : σ[v]? <;> simp [hσp] at hu
  obtain ⟨idx', a', hw, hO', hall⟩ := outer_spec hσ σ.length 0 _ a hO (by omega) (fun p hp => by omega)
  have hidx : idx' = σ.map (·, true) := by
    apply List.ext_getElem?
    intro p
    rw [List.getElem?_map]
    by_cases hp : p < σ.length
    · obtain ⟨v, hv⟩ := hall p hp
      rw [hv, fst_get hO'.fst hv]; rfl
    · have h1 : idx'[p]? = none := by
        rw [List.getElem?_eq_none_iff, idx_len hO'.fst]; omega
      have h2 : σ[p]? = none := by rw [List.getElem?_eq_none_iff]; omega
      rw [h1, h2]; rfl
  refine ⟨a', by rw [hw, hidx], ?_⟩
  unfold Applied
  apply List.ext_getElem?
  intro p
  rw [List.getElem?_map, List.getElem?_map]
  by_cases hp : p < σ.length
  · obtain ⟨v, hv⟩ := hall p hp
    have h1 := hO'.done p v hv
    have h2 := fst_get hO'.fst hv
    have hvl : v < a.length := by rw [ha]; exact hσ.lt h2
    rw [h2, h1, List.getElem?_eq_getElem hvl]
    simp [List.getElem?_eq_getElem hvl]
  · have h1 : a'[p]? = none := by
      rw [List.getElem?_eq_none_iff, hO'.len]; omega
    have h2 : σ[p]? = none := by rw [List.getElem?_eq_none_iff]; omega
    rw [h1, h2]; rfl

/-- **Main theorem**: for a permutation `σ` of `0..n`, `sort` on a fresh (`r = false`) or on an
already used (`r = true`: every index marked, `should_reset` set) sorter applies `σ` to the slice,
does not panic, and returns the sorter in the "used" state with the same index values. -/
theorem Tandem.sort_spec {σ : List Nat} (hσ : PermIdx σ) (r : Bool) (a : List α)
    (ha : a.length = σ.length) :
    ∃ a', Tandem.sort ⟨σ.map (·, r), r⟩ a = some (⟨σ.map (·, true), true⟩, a') ∧ Applied σ a a' := by
  obtain ⟨a', hw, hA⟩ := sort_core hσ a ha
  refine ⟨a', ?_, hA⟩
  unfold Tandem.sort
  have hidx : (if r = true then (σ.map (fun x => ((x, r) : Idx))).map toggleMark
      else σ.map (fun x => ((x, r) : Idx))) = σ.map (·, false) := by
    cases r with
    | false => rfl
    | true => simp [List.map_map, toggleMark, Function.comp_def]
  simp only [hidx, List.length_map, hw]

theorem Applied.length {σ : List Nat} {a a' : List α} (h : Applied σ a a') :
    a'.length = σ.length := by
  have := congrArg List.length h
  simpa using this

theorem Applied.get {σ : List Nat} {a a' : List α} (h : Applied σ a a') (p : Nat) :
    a'[p]? = σ[p]?.bind (fun k => a[k]?) ∨ (σ[p]? ≠ none ∧ ∃ k, σ[p]? = some k ∧ a[k]? = none) := by
  have := congrArg (fun l => l[p]?) h
  simp only [List.getElem?_map] at this
  cases hs : σ[p]? with
  | none =>
    left
    rw [hs] at this
    cases ha : a'[p]? with
    | none => rfl
    | some x => rw [ha] at this; cases this
  | some k =>
    rw [hs] at this
    cases ha : a'[p]? with
    | none => rw [ha] at this; cases this
    | some x =>
      rw [ha] at this
      left
      simp only [Option.map_some, Option.some.injEq] at this
      simp [← this]

theorem Applied.unique {σ : List Nat} {a a' a'' : List α} (h : Applied σ a a')
    (h' : Applied σ a a'') : a' = a'' := by
  unfold Applied at *
  have : a'.map some = a''.map some := h.trans h'.symm
  exact (List.map_inj_right (fun _ _ e => Option.some.inj e)).mp this

/-- The parallel slices stay paired: applying `σ` to `a` and to `b` is applying it to `zip a b`. -/
theorem Applied.zip {β : Type} {σ : List Nat} {a a' : List α} {b b' : List β}
    (hl : a.length = b.length) (hσ : ∀ x ∈ σ, x < a.length)
    (ha : Applied σ a a') (hb : Applied σ b b') :
    Applied σ (a.zip b) (a'.zip b') := by
  unfold Applied at *
  apply List.ext_getElem?
  intro p
  have h1 := congrArg (fun l => l[p]?) ha
  have h2 := congrArg (fun l => l[p]?) hb
  simp only [List.getElem?_map] at h1 h2 ⊢
  cases hs : σ[p]? with
  | none =>
    rw [hs] at h1 h2
    cases hx : a'[p]? with
    | some x => rw [hx] at h1; cases h1
    | none =>
      have : (a'.zip b')[p]? = none := by
        rw [List.getElem?_eq_none_iff] at hx ⊢
        rw [List.length_zip]; omega
      rw [this]; rfl
  | some k =>
    rw [hs] at h1 h2
    have hk : k < a.length := hσ k (List.mem_of_getElem? hs)
    have hkb : k < b.length := by omega
    cases hx : a'[p]? with
    | none => rw [hx] at h1; cases h1
    | some x =>
      cases hy : b'[p]? with
      | none => rw [hy] at h2; cases h2
      | some y =>
        rw [hx] at h1; rw [hy] at h2
        simp only [Option.map_some, Option.some.injEq] at h1 h2
        have hz : (a'.zip b')[p]? = some (x, y) :=
          List.getElem?_zip_eq_some.mpr ⟨hx, hy⟩
        have hz' : (a.zip b)[k]? = some (a[k], b[k]) :=
          List.getElem?_zip_eq_some.mpr
            ⟨List.getElem?_eq_getElem hk, List.getElem?_eq_getElem hkb⟩
        rw [hz]
        simp only [Option.map_some]
        rw [hz']
        rw [List.getElem?_eq_getElem hk] at h1
        rw [List.getElem?_eq_getElem hkb] at h2
        cases h1; cases h2; rfl

end Rosu.Sort

/-! ## The swaps depend only on the indices

For an *arbitrary* sorter state (not necessarily a permutation; e.g. produced by an inconsistent
comparator) running `sort` on `zip a b` is the same as running it on `a` and on `b`: the control
flow never looks at the slice elements. -/

namespace Rosu.Sort

variable {α β : Type}

theorem zip_set (a : List α) (b : List β) (i : Nat) (x : α) (y : β) :
    (a.zip b).set i (x, y) = (a.set i x).zip (b.set i y) := by
  apply List.ext_getElem?
  intro p
  by_cases e : i = p
  · subst e
    by_cases hi : i < (a.zip b).length
    · have hi' := hi
      rw [List.length_zip] at hi'
      rw [List.getElem?_set_self hi]
      symm
      rw [List.getElem?_zip_eq_some]
      exact ⟨List.getElem?_set_self (by omega), List.getElem?_set_self (by omega)⟩
    · have h1 : ((a.zip b).set i (x, y))[i]? = none := by
        rw [List.getElem?_eq_none_iff, List.length_set]; omega
      have h2 : ((a.set i x).zip (b.set i y))[i]? = none := by
        rw [List.getElem?_eq_none_iff, List.length_zip, List.length_set, List.length_set]
        rw [List.length_zip] at hi; omega
      rw [h1, h2]
  · rw [List.getElem?_set_ne e]
    cases h : (a.zip b)[p]? with
    | none =>
      symm
      rw [List.getElem?_eq_none_iff] at h ⊢
      simpa [List.length_zip] using h
    | some z =>
      symm
      rw [List.getElem?_zip_eq_some] at h ⊢
      rw [List.getElem?_set_ne e, List.getElem?_set_ne e]
      exact h

theorem swap?_zip (a : List α) (b : List β) (hl : a.length = b.length) (j k : Nat) :
    swap? (a.zip b) j k =
      match swap? a j k, swap? b j k with
      | some a', some b' => some (a'.zip b')
      | _, _ => none := by
  unfold swap?
  by_cases hj : j < a.length
  · by_cases hk : k < a.length
    · have hj' : j < b.length := by omega
      have hk' : k < b.length := by omega
      have z1 : (a.zip b)[j]? = some (a[j], b[j]) :=
        List.getElem?_zip_eq_some.mpr ⟨List.getElem?_eq_getElem hj, List.getElem?_eq_getElem hj'⟩
      have z2 : (a.zip b)[k]? = some (a[k], b[k]) :=
        List.getElem?_zip_eq_some.mpr ⟨List.getElem?_eq_getElem hk, List.getElem?_eq_getElem hk'⟩
      rw [z1, z2, List.getElem?_eq_getElem hj, List.getElem?_eq_getElem hk,
        List.getElem?_eq_getElem hj', List.getElem?_eq_getElem hk']
      simp only [zip_set]
    · have n1 : a[k]? = none := by rw [List.getElem?_eq_none_iff]; omega
      have n2 : (a.zip b)[k]? = none := by
        rw [List.getElem?_eq_none_iff, List.length_zip]; omega
      rw [n1, n2]
      cases (a.zip b)[j]? <;> cases a[j]? <;> rfl
  · have n1 : a[j]? = none := by rw [List.getElem?_eq_none_iff]; omega
    have n2 : (a.zip b)[j]? = none := by
      rw [List.getElem?_eq_none_iff, List.length_zip]; omega
    rw [n1, n2]

theorem swap?_length {a a' : List α} {j k : Nat} (h : swap? a j k = some a') :
    a'.length = a.length := by
  unfold swap? at h
  split at h
  · cases h; simp
  · cases h

/-- Result of running the same index walk on two slices. -/
def zipRes (ra : Option (List Idx × List α)) (rb : Option (List Idx × List β)) :
    Option (List Idx × List (α × β)) :=
  match ra, rb with
  | some (i1, a'), some (_, b') => some (i1, a'.zip b')
  | _, _ => none

theorem walk_zip :
    ∀ (fuel : Nat) (idx : List Idx) (a : List α) (b : List β) (i j : Nat) (jIdx : Idx),
      a.length = b.length →
      walk fuel idx (a.zip b) i j jIdx = zipRes (walk fuel idx a i j jIdx) (walk fuel idx b i j jIdx) ∧
      (∀ ra rb, walk fuel idx a i j jIdx = some ra → walk fuel idx b i j jIdx = some rb →
        ra.1 = rb.1 ∧ ra.2.length = rb.2.length) := by
  intro fuel
  induction fuel with
  | zero => intro idx a b i j jIdx _; exact ⟨rfl, fun _ _ h => by simp [walk] at h⟩
  | succ fuel ih =>
    intro idx a b i j jIdx hl
    unfold walk
    by_cases h1 : jIdx = (i, false)
    · simp only [h1, if_true]
      exact ⟨rfl, fun ra rb ha hb => by cases ha; cases hb; exact ⟨rfl, hl⟩⟩
    · simp only [h1, if_false]
      by_cases h2 : jIdx.2 = true
      · simp only [h2, if_true]
        exact ⟨rfl, fun _ _ h => by cases h⟩
      · simp only [h2, Bool.false_eq_true, if_false]
        rw [swap?_zip a b hl]
        cases ha : swap? a j jIdx.1 with
        | none => exact ⟨by simp [zipRes], fun _ _ h => by simp at h⟩
        | some a' =>
          cases hb : swap? b j jIdx.1 with
          | none => exact ⟨by simp [zipRes], fun _ _ _ h => by simp at h⟩
          | some b' =>
            simp only
            cases hn : (idx.set j (toggleMark jIdx))[jIdx.1]? with
            | none => exact ⟨by simp [zipRes], fun _ _ h => by simp at h⟩
            | some nxt =>
              simp only
              exact ih _ a' b' i jIdx.1 nxt (by rw [swap?_length ha, swap?_length hb, hl])

theorem outer_zip :
    ∀ (k i : Nat) (idx : List Idx) (a : List α) (b : List β), a.length = b.length →
      outer k i idx (a.zip b) = zipRes (outer k i idx a) (outer k i idx b) := by
  intro k
  induction k with
  | zero => intro i idx a b _; rfl
  | succ k ih =>
    intro i idx a b hl
    unfold outer
    cases hi : idx[i]? with
    | none => rfl
    | some iIdx =>
      simp only
      by_cases hm : iIdx.2 = true
      · simp only [hm, if_true]
        exact ih _ _ _ _ hl
      · simp only [hm, Bool.false_eq_true, if_false]
        obtain ⟨hz, hsame⟩ := walk_zip (idx.length + 1) idx a b i i iIdx hl
        rw [hz]
        cases ha : walk (idx.length + 1) idx a i i iIdx with
        | none => simp [zipRes]
        | some ra =>
          cases hb : walk (idx.length + 1) idx b i i iIdx with
          | none => obtain ⟨i1, a'⟩ := ra; simp [zipRes]
          | some rb =>
            obtain ⟨i1, a'⟩ := ra
            obtain ⟨i2, b'⟩ := rb
            obtain ⟨e, hl'⟩ := hsame _ _ ha hb
            simp only at e hl'
            subst e
            simp only [zipRes]
            exact ih _ _ _ _ hl'

/-- **Swaps depend only on the indices**: for every sorter state, `sort` on `zip a b` equals
`sort` on `a` zipped with `sort` on `b` (and panics iff one of them does). -/
theorem Tandem.sort_zip (t : Tandem) (a : List α) (b : List β) (hl : a.length = b.length) :
    t.sort (a.zip b) =
      match t.sort a, t.sort b with
      | some (t1, a'), some (_, b') => some (t1, a'.zip b')
      | _, _ => none := by
  unfold Tandem.sort
  simp only
  rw [outer_zip _ _ _ a b hl]
  generalize (if t.shouldReset = true then List.map toggleMark t.indices else t.indices) = idx
  cases outer idx.length 0 idx a with
  | none => simp [zipRes]
  | some ra =>
    cases outer idx.length 0 idx b with
    | none => obtain ⟨i1, a'⟩ := ra; simp [zipRes]
    | some rb =>
      obtain ⟨i1, a'⟩ := ra
      obtain ⟨i2, b'⟩ := rb
      simp [zipRes]

end Rosu.Sort
