import RosuModel.Model.SafetyStacking

namespace Rosu.Safety

theorem circleLoop_isSome (O : StackOracles) (len i : Nat) (hi : i < len) :
    ∀ (n objIdx : Nat), n ≤ i → objIdx ≤ i → (circleLoop O len i n objIdx).isSome = true := by
  intro n
  induction n with
  | zero => intro _ _ _; rfl
  | succ n ih =>
    intro objIdx hn ho
    unfold circleLoop
    rw [if_neg (by omega : ¬ ¬ n < len)]
    split
    · exact ih objIdx (by omega) ho
    · rw [if_neg (by omega : ¬ ¬ objIdx < len)]
      split
      · rfl
      · split
        · rw [if_neg (by omega)]; rfl
        · split
          · exact ih n (by omega) (by omega)
          · exact ih objIdx (by omega) ho

theorem sliderLoop_isSome (O : StackOracles) (len : Nat) :
    ∀ (n objIdx : Nat), n ≤ len → objIdx < len → (sliderLoop O len n objIdx).isSome = true := by
  intro n
  induction n with
  | zero => intro _ _ _; rfl
  | succ n ih =>
    intro objIdx hn ho
    unfold sliderLoop
    rw [if_neg (by omega : ¬ ¬ n < len)]
    split
    · exact ih objIdx (by omega) ho
    · split
      · rfl
      · split
        · exact ih n (by omega) (by omega)
        · exact ih objIdx (by omega) ho

theorem stackStep_isSome (O : StackOracles) (len i : Nat) (hi : i < len) : (stackStep O len i).isSome = true := by
  unfold stackStep
  rw [if_neg (by omega : ¬ ¬ i < len)]
  split
  · rfl
  · split
    · have := circleLoop_isSome O len i hi i i (Nat.le_refl _) (Nat.le_refl _)
      rw [Option.isSome_map]; exact this
    · split
      · have := sliderLoop_isSome O len i i (by omega) hi
        rw [Option.isSome_map]; exact this
      · rfl

theorem foldlM_stackStep_isSome (O : StackOracles) (len : Nat) (l : List Nat) (hl : ∀ i ∈ l, i < len) :
    (l.foldlM (fun _ i => stackStep O len i) ()).isSome = true := by
  induction l with
  | nil => rfl
  | cons a l ih =>
    rw [List.foldlM_cons]
    have h1 := stackStep_isSome O len a (hl a (List.mem_cons_self))
    obtain ⟨u, hu⟩ := Option.isSome_iff_exists.mp h1
    rw [hu]
    exact ih (fun i hi => hl i (List.mem_cons_of_mem _ hi))

theorem stacking_isSome (O : StackOracles) (len : Nat) : (stacking O len).isSome = true := by
  unfold stacking
  cases len with
  | zero => rfl
  | succ e =>
    apply foldlM_stackStep_isSome
    intro i hi
    rw [List.mem_reverse, List.mem_range'_1] at hi
    omega

end Rosu.Safety
