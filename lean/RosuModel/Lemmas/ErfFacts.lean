import RosuModel.Lemmas.ErfSign
import Mathlib.Analysis.Complex.ExponentialBounds

/-!
# `ErfFacts` for the transcribed `erf` / `erf_inv`: per-row certificates, the two `exp` bounds, the case analysis
-/
namespace Rosu.PerfCalc
open Rosu.Gen.PerfConsts

/-! ## per-row certificates (the same checks as `erf_rows_cert` / `erfInv_rows_cert`, one theorem per row) -/

theorem erfP_B : posCert ERF_IMP_BN ERF_IMP_BD (bq 0) (1/4) = true := by decide +kernel
theorem erfU_B : upCert ERF_IMP_BN ERF_IMP_BD (bq 0) (1/2) (1/4) = true := by decide +kernel
theorem erfP_C : posCert ERF_IMP_CN ERF_IMP_CD (bq 1) (1/2) = true := by decide +kernel
theorem erfU_C : upCert ERF_IMP_CN ERF_IMP_CD (bq 1) (3/4) (1/2) = true := by decide +kernel
theorem erfP_D : posCert ERF_IMP_DN ERF_IMP_DD (bq 2) (1) = true := by decide +kernel
theorem erfU_D : upCert ERF_IMP_DN ERF_IMP_DD (bq 2) (5/4) (1) = true := by decide +kernel
theorem erfP_E : posCert ERF_IMP_EN ERF_IMP_ED (bq 3) (5/4) = true := by decide +kernel
theorem erfU_E : upCert ERF_IMP_EN ERF_IMP_ED (bq 3) (9/4) (5/4) = true := by decide +kernel
theorem erfP_F : posCert ERF_IMP_FN ERF_IMP_FD (bq 4) (7/4) = true := by decide +kernel
theorem erfU_F : upCert ERF_IMP_FN ERF_IMP_FD (bq 4) (7/2) (7/4) = true := by decide +kernel
theorem erfP_G : posCert ERF_IMP_GN ERF_IMP_GD (bq 5) (11/4) = true := by decide +kernel
theorem erfU_G : upCert ERF_IMP_GN ERF_IMP_GD (bq 5) (21/4) (11/4) = true := by decide +kernel
theorem erfP_H : posCert ERF_IMP_HN ERF_IMP_HD (bq 6) (7/2) = true := by decide +kernel
theorem erfU_H : upCert ERF_IMP_HN ERF_IMP_HD (bq 6) (8) (7/2) = true := by decide +kernel
theorem erfP_I : posCert ERF_IMP_IN ERF_IMP_ID (bq 7) (11/2) = true := by decide +kernel
theorem erfU_I : upCert ERF_IMP_IN ERF_IMP_ID (bq 7) (23/2) (11/2) = true := by decide +kernel
theorem erfP_J : posCert ERF_IMP_JN ERF_IMP_JD (bq 8) (7) = true := by decide +kernel
theorem erfU_J : upCert ERF_IMP_JN ERF_IMP_JD (bq 8) (17) (7) = true := by decide +kernel
theorem erfP_K : posCert ERF_IMP_KN ERF_IMP_KD (bq 9) (14) = true := by decide +kernel
theorem erfU_K : upCert ERF_IMP_KN ERF_IMP_KD (bq 9) (24) (14) = true := by decide +kernel
theorem erfP_L : posCert ERF_IMP_LN ERF_IMP_LD (bq 10) (22) = true := by decide +kernel
theorem erfU_L : upCert ERF_IMP_LN ERF_IMP_LD (bq 10) (38) (22) = true := by decide +kernel
theorem erfP_M : posCert ERF_IMP_MN ERF_IMP_MD (bq 11) (25) = true := by decide +kernel
theorem erfU_M : upCert ERF_IMP_MN ERF_IMP_MD (bq 11) (60) (25) = true := by decide +kernel
theorem erfP_N : posCert ERF_IMP_NN ERF_IMP_ND (bq 12) (25) = true := by decide +kernel
theorem erfU_N : upCert ERF_IMP_NN ERF_IMP_ND (bq 12) (85) (25) = true := by decide +kernel
theorem erfInvP_A : posCert ERV_INV_IMP_AN ERV_INV_IMP_AD (yq 0) (1/2) = true := by decide +kernel
theorem erfInvP_B : posCert ERV_INV_IMP_BN ERV_INV_IMP_BD (yq 1) (1/4) = true := by decide +kernel
theorem erfInvP_C : posCert ERV_INV_IMP_CN ERV_INV_IMP_CD (yq 2) (15/8) = true := by decide +kernel
theorem erfInvP_D : posCert ERV_INV_IMP_DN ERV_INV_IMP_DD (yq 3) (3) = true := by decide +kernel

/-! ## the two numeric bounds on `exp` -/

theorem exp_36_gt : (1e11 : ℝ) < Real.exp 36 := by
  have h1 : (2.7 : ℝ) < Real.exp 1 := lt_trans (by norm_num) Real.exp_one_gt_d9
  have h2 : Real.exp 36 = Real.exp 1 ^ 36 := by
    rw [← Real.exp_nat_mul]; norm_num
  rw [h2]
  calc (1e11 : ℝ) < (2.7 : ℝ) ^ 36 := by norm_num
    _ < Real.exp 1 ^ 36 := pow_lt_pow_left₀ h1 (by norm_num) (by norm_num)

theorem exp_small_le : Real.exp (1.265625 : ℝ) ≤ 4 := by
  have h1 : Real.exp 1 < 2.7182818286 := Real.exp_one_lt_d9
  have h2 : Real.exp (0.265625 : ℝ) ≤ 1 / (1 - 0.265625) := by
    have h := Real.add_one_le_exp (-(0.265625 : ℝ))
    have hpos : (0 : ℝ) < -0.265625 + 1 := by norm_num
    rw [Real.exp_neg] at h
    have he : 0 < Real.exp (0.265625 : ℝ) := Real.exp_pos _
    rw [le_div_iff₀ (by norm_num)]
    have := (le_inv_comm₀ hpos he).mp h
    have e : (1 : ℝ) - 0.265625 = -0.265625 + 1 := by ring
    rw [e]
    calc Real.exp 0.265625 * (-0.265625 + 1) ≤ (-0.265625 + 1)⁻¹ * (-0.265625 + 1) :=
          mul_le_mul_of_nonneg_right this hpos.le
      _ = 1 := inv_mul_cancel₀ hpos.ne'
  have h3 : Real.exp (1.265625 : ℝ) = Real.exp 1 * Real.exp 0.265625 := by
    rw [← Real.exp_add]; norm_num
  rw [h3]
  calc Real.exp 1 * Real.exp 0.265625 ≤ 2.7182818286 * (1 / (1 - 0.265625)) :=
        mul_le_mul h1.le h2 (Real.exp_pos _).le (by norm_num)
    _ ≤ 4 := by norm_num

/-! ## where `x = sqrt(−ln q)` lands (`erf_inv_impl`, third branch) -/

/-- `q < 0.25 ⇒ x ≥ 1.125`: the argument `x − 1.125` of row C is `≥ 0` -/
theorem sqrt_neg_log_ge (q : ℝ) (h0 : 0 < q) (h1 : q < 0.25) : (1.125 : ℝ) ≤ Real.sqrt (-Real.log q) := by
  have h4 : (1.265625 : ℝ) ≤ Real.log 4 := (Real.le_log_iff_exp_le (by norm_num)).mpr exp_small_le
  have hq : Real.log q < Real.log (1 / 4) := Real.log_lt_log h0 (by norm_num at h1 ⊢; linarith)
  have e : Real.log (1 / 4 : ℝ) = -Real.log 4 := by rw [one_div, Real.log_inv]
  rw [e] at hq
  apply Real.le_sqrt_of_sq_le
  norm_num
  linarith

/-- `q ≥ 10⁻¹¹ ⇒ x < 6`: rows E, F, G of `erf_inv_impl` are not reached on `z ≤ 1 − 10⁻¹¹` -/
theorem sqrt_neg_log_lt (q : ℝ) (h1 : (1e-11 : ℝ) ≤ q) : Real.sqrt (-Real.log q) < 6 := by
  have h0 : (0 : ℝ) < q := lt_of_lt_of_le (by norm_num) h1
  have hl : Real.log (1e-11 : ℝ) ≤ Real.log q := Real.log_le_log (by norm_num) h1
  have e : Real.log (1e-11 : ℝ) = -Real.log 1e11 := by
    rw [← Real.log_inv]; norm_num
  have h36 : Real.log (1e11 : ℝ) < 36 := (Real.log_lt_iff_lt_exp (by norm_num)).mpr exp_36_gt
  rw [Real.sqrt_lt' (by norm_num)]
  norm_num
  linarith

end Rosu.PerfCalc
