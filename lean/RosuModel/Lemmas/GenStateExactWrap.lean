import RosuModel.Lemmas.GenStateExactMania

/-!
# From the search arms to `osuHitResults` / `taikoHitResults` / `catchTiny`
-/

set_option linter.unusedSectionVars false

namespace Rosu.GenState.Opt

section Exact

variable {K : Type} [Field K] [LinearOrder K] [IsStrictOrderedRing K] [FloorRing K]

/-- The search context `osuHitResults` builds. -/
def osuCtxOf (acc : K) (origin : OsuOrigin) (se lt st nObjects misses : Nat) : OsuCtx K :=
  { acc := acc,
    targetTotal := acc * ((300 * nObjects + (osuSliderAccValues origin se lt st).2 : Nat) : K),
    origin := origin, nObjects := nObjects, nRemaining := nObjects - misses, misses := misses,
    lt := lt, st := st, se := se, sav := (osuSliderAccValues origin se lt st).1 }

theorem osuCtxOf_ok (acc : K) (h0 : 0 ≤ acc) (h1 : acc ≤ 1) (origin : OsuOrigin)
    (se lt st nObjects misses : Nat)
    (hcons : (osuSliderAccValues origin se lt st).1 = osuAccNum origin 0 0 0 lt st se)
    (hm : misses ≤ nObjects) (hsmall : nObjects ≤ u32Max) :
    OsuCtxOk (osuCtxOf acc origin se lt st nObjects misses) :=
  { acc0 := h0, acc1 := h1, target := rfl, sav := hcons,
    rem := by show nObjects - misses + misses = nObjects; omega,
    small := hsmall }

theorem osuHitResults_arm100 (S acc : K) (prio : Prio) (b : OsuB K) (origin : OsuOrigin)
    (se lt st nObjects misses v : Nat) (hacc : b.acc = some acc) (h300 : b.n300 = some v)
    (h100 : b.n100 = none) (h50 : b.n50 = none) :
    @osuHitResults K (fieldOps S) prio b origin se lt st nObjects misses
      = @osuArm100 K (fieldOps S) (osuCtxOf acc origin se lt st nObjects misses)
          (min v (nObjects - misses)) := by
  unfold osuHitResults
  simp only [hacc, h300, h100, h50]
  rfl

theorem osuHitResults_arm300a (S acc : K) (prio : Prio) (b : OsuB K) (origin : OsuOrigin)
    (se lt st nObjects misses v : Nat) (hacc : b.acc = some acc) (h300 : b.n300 = none)
    (h100 : b.n100 = some v) (h50 : b.n50 = none) :
    @osuHitResults K (fieldOps S) prio b origin se lt st nObjects misses
      = @osuArm300a K (fieldOps S) (osuCtxOf acc origin se lt st nObjects misses)
          (min v (nObjects - misses)) := by
  unfold osuHitResults
  simp only [hacc, h300, h100, h50]
  rfl

theorem osuHitResults_arm300b (S acc : K) (prio : Prio) (b : OsuB K) (origin : OsuOrigin)
    (se lt st nObjects misses v : Nat) (hacc : b.acc = some acc) (h300 : b.n300 = none)
    (h100 : b.n100 = none) (h50 : b.n50 = some v) :
    @osuHitResults K (fieldOps S) prio b origin se lt st nObjects misses
      = @osuArm300b K (fieldOps S) (osuCtxOf acc origin se lt st nObjects misses)
          (min v (nObjects - misses)) := by
  unfold osuHitResults
  simp only [hacc, h300, h100, h50]
  rfl

theorem osuHitResults_armNone (S acc : K) (prio : Prio) (b : OsuB K) (origin : OsuOrigin)
    (se lt st nObjects misses : Nat) (hacc : b.acc = some acc) (h300 : b.n300 = none)
    (h100 : b.n100 = none) (h50 : b.n50 = none) :
    @osuHitResults K (fieldOps S) prio b origin se lt st nObjects misses
      = @osuArmNone K (fieldOps S) (osuCtxOf acc origin se lt st nObjects misses) prio := by
  unfold osuHitResults
  simp only [hacc, h300, h100, h50]
  rfl

/-- `OsuScoreState::accuracy` of a hit distribution together with the generated state's misses
and slider data. -/
def osuAccAt (S : K) (c : OsuCfg) (b : OsuB K) (s : OsuState) (n300 n100 n50 : Nat) : K :=
  @osuAcc K (fieldOps S) (osuSliderParts c b).1 n300 n100 n50 s.misses s.largeTickHits
    s.smallTickHits s.sliderEndHits

/-- accuracy only depends on the weighted sum and the count -/
theorem osuAcc_congr (S : K) (o : OsuOrigin) (a b c a' b' c' m lt st se : Nat)
    (hs : a + b + c = a' + b' + c')
    (hw : 300 * a + 100 * b + 50 * c = 300 * a' + 100 * b' + 50 * c') :
    @osuAcc K (fieldOps S) o a b c m lt st se = @osuAcc K (fieldOps S) o a' b' c' m lt st se := by
  rw [osuAcc_eq, osuAcc_eq, osuAccNum_split o a b c, osuAccNum_split o a' b' c',
    osuAccDen_split o a b c m se lt st, osuAccDen_split o a' b' c' m se lt st, hs, hw]

/-- arm `(None, None, None)`: search followed by the priority shift -/
theorem osuArmNone_spec (S : K) (hS : 1 < S) (x : OsuCtx K) (hx : OsuCtxOk x) (prio : Prio) :
    let h := @osuArmNone K (fieldOps S) x prio
    h.accepted = true ∧ h.ok = true ∧ h.n300 + h.n100 + h.n50 = x.nRemaining ∧
      ∀ a b c, a + b + c = x.nRemaining →
        @OsuCtx.distOf K (fieldOps S) x h.n300 h.n100 h.n50
          ≤ @OsuCtx.distOf K (fieldOps S) x a b c := by
  intro h
  obtain ⟨s1, s2, s3, s4⟩ := osuSearch2_spec S hS x hx
  obtain ⟨t1, t2, t3⟩ := osuShift_spec prio (@osuSearch2 K (fieldOps S) x).val.1
    (@osuSearch2 K (fieldOps S) x).val.2.1 (@osuSearch2 K (fieldOps S) x).val.2.2
  refine ⟨s1, ?_, ?_, ?_⟩
  · show ((@osuSearch2 K (fieldOps S) x).ok && _) = true
    rw [s2, t1]; rfl
  · exact t2.trans s3
  · intro a b c habc
    have e : @OsuCtx.distOf K (fieldOps S) x h.n300 h.n100 h.n50
        = @OsuCtx.distOf K (fieldOps S) x (@osuSearch2 K (fieldOps S) x).val.1
            (@osuSearch2 K (fieldOps S) x).val.2.1 (@osuSearch2 K (fieldOps S) x).val.2.2 := by
      unfold OsuCtx.distOf
      exact congrArg (fun v => @NumOps.abs K (fieldOps S) (@NumOps.sub K (fieldOps S) x.acc v))
        (osuAcc_congr S x.origin _ _ _ _ _ _ x.misses x.lt x.st x.se t2 t3)
    rw [e]
    exact s4 a b c habc

/-! ## taiko / catch wrappers -/

theorem taikoHitResults_search (S acc : K) (prio : Prio) (b : TaikoB K) (total misses : Nat)
    (hacc : b.acc = some acc) (h300 : b.n300 = none) (h100 : b.n100 = none) :
    @taikoHitResults K (fieldOps S) prio b total misses
      = ((@taikoSearch K (fieldOps S) acc total (total - misses) misses).val.1,
         (@taikoSearch K (fieldOps S) acc total (total - misses) misses).val.2,
         (@taikoSearch K (fieldOps S) acc total (total - misses) misses).hit,
         (@taikoSearch K (fieldOps S) acc total (total - misses) misses).ok) := by
  unfold taikoHitResults
  simp only [hacc, h300, h100]

theorem catchTiny_search (S acc : K) (b : CatchB K) (F D T fruits droplets misses : Nat)
    (hacc : b.acc = some acc) (ht : b.tiny = none) (htm : b.tinyMisses = none) :
    @catchTiny K (fieldOps S) b F D T fruits droplets misses
      = ((@catchFindTiny K (fieldOps S) acc F D T fruits droplets misses).val.1,
         (@catchFindTiny K (fieldOps S) acc F D T fruits droplets misses).val.2,
         (@catchFindTiny K (fieldOps S) acc F D T fruits droplets misses).hit,
         (@catchFindTiny K (fieldOps S) acc F D T fruits droplets misses).ok) := by
  unfold catchTiny
  simp only [hacc, ht, htm]

/-! ## mania wrapper -/

/-- The search context `maniaGenRaw` builds. -/
def maniaCtxOf (S : K) (acc : K) (c : ManiaCfg) (b : ManiaB K) : ManiaCtx K :=
  let nObjects₀ := min (passedU32 c.passed) c.nObjects
  let misses := optMin b.misses nObjects₀
  let nObjects := if c.classic then nObjects₀ else nObjects₀ + c.nHoldNotes
  let nRemaining := nObjects - misses
  { acc := acc,
    target := @NumOps.mul K (fieldOps S) acc
      (@NumOps.ofNat K (fieldOps S) ((if c.classic then 60 else 61) * nObjects)),
    classic := c.classic, nObjects := nObjects, nRemaining := nRemaining, misses := misses,
    g320 := b.n320, g300 := b.n300, g200 := b.n200, g100 := b.n100, g50 := b.n50,
    n320 := optMin b.n320 nRemaining, n300 := optMin b.n300 nRemaining,
    n200 := optMin b.n200 nRemaining, n100 := optMin b.n100 nRemaining,
    n50 := optMin b.n50 nRemaining }

/-- number of hit results the caller left open -/
def _root_.Rosu.GenState.ManiaB.unknowns {R : Type} (b : ManiaB R) : Nat :=
  (if b.n320.isNone then 1 else 0) + (if b.n300.isNone then 1 else 0)
    + (if b.n200.isNone then 1 else 0) + (if b.n100.isNone then 1 else 0)
    + (if b.n50.isNone then 1 else 0)

/-- With accuracy and at least two unknown hit results, `maniaGenRaw` is search + shift. -/
theorem maniaGenRaw_search (S acc : K) (c : ManiaCfg) (b : ManiaB K) (hacc : b.acc = some acc)
    (h2 : 2 ≤ b.unknowns) :
    @maniaGenRaw K (fieldOps S) c b
      = ⟨(maniaShift (maniaCtxOf S acc c b) c.prio
            (@maniaSearch K (fieldOps S) (maniaCtxOf S acc c b)).val).1,
         (@maniaSearch K (fieldOps S) (maniaCtxOf S acc c b)).hit,
         decide ((maniaCtxOf S acc c b).misses ≤ (maniaCtxOf S acc c b).nObjects)
           && (@maniaSearch K (fieldOps S) (maniaCtxOf S acc c b)).ok
           && (maniaShift (maniaCtxOf S acc c b) c.prio
                (@maniaSearch K (fieldOps S) (maniaCtxOf S acc c b)).val).2⟩ := by
  obtain ⟨a0, a1, a2, a3, a4, a5, a6⟩ := b
  simp only at hacc
  subst hacc
  cases a1 <;> cases a2 <;> cases a3 <;> cases a4 <;> cases a5 <;>
    first
      | rfl
      | (exfalso; simp [ManiaB.unknowns] at h2)

end Exact

end Rosu.GenState.Opt
