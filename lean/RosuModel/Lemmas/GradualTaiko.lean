import RosuModel.Lemmas.GradualOsu

/-! Helper lemmas for the osu!taiko gradual model (regular maps: first two objects are hits). -/

namespace Rosu.Gradual

variable {S : Type}

/-- Number of hits in a list of objects. -/
def hitsIn (l : List Bool) : Nat := (l.filter id).length

/-- Length of the shortest prefix of `l` that contains `t` hits (the whole list if there are
fewer). -/
def cutLen : List Bool → Nat → Nat
  | _, 0 => 0
  | [], _ + 1 => 0
  | b :: l, t + 1 => 1 + cutLen l (if b then t else t + 1)

theorem cutLen_zero (l : List Bool) : cutLen l 0 = 0 := by
  cases l <;> rfl

theorem cutLen_le (l : List Bool) (t : Nat) : cutLen l t ≤ l.length := by
  induction l generalizing t with
  | nil => cases t <;> simp [cutLen]
  | cons b l ih =>
    cases t with
    | zero => simp [cutLen]
    | succ t => simp only [cutLen, List.length_cons]; have := ih (if b then t else t + 1); omega

theorem hitsIn_cons (b : Bool) (l : List Bool) : hitsIn (b :: l) = (if b then 1 else 0) + hitsIn l := by
  cases b <;> simp [hitsIn] <;> omega

/-- The `inspect` closure counts exactly the objects of the shortest prefix with `take` hits. -/
theorem taiko_inspect_fold_nd (take : Nat) (l : List Bool) (mc nd : Nat) (h : mc ≤ take) :
    (l.foldl (taikoInspectStep take) (mc, nd)).2 = nd + cutLen l (take - mc) := by
  induction l generalizing mc nd with
  | nil => cases (take - mc) <;> simp [cutLen]
  | cons b t ih =>
    simp only [List.foldl_cons]
    have hstep : taikoInspectStep take (mc, nd) b =
        if mc < take then (mc + (if b then 1 else 0), nd + 1) else (mc, nd) := rfl
    rw [hstep]
    by_cases hlt : mc < take
    · rw [if_pos hlt]
      obtain ⟨k, hk⟩ : ∃ k, take - mc = k + 1 := ⟨take - mc - 1, by omega⟩
      rw [hk]
      cases b
      · rw [ih _ _ (by simp; omega)]
        simp only [cutLen, Bool.false_eq_true, ↓reduceIte, Nat.add_zero]
        rw [hk]; omega
      · rw [ih _ _ (by simp; omega)]
        simp only [cutLen, ↓reduceIte]
        have : take - (mc + 1) = k := by omega
        rw [this]; omega
    · rw [if_neg hlt, ih _ _ h]
      have : take - mc = 0 := by omega
      rw [this, cutLen_zero, cutLen_zero]

theorem cutLen_add (l : List Bool) (a b : Nat) :
    cutLen l (a + b) = cutLen l a + cutLen (l.drop (cutLen l a)) b := by
  induction l generalizing a with
  | nil =>
    cases a with
    | zero => simp [cutLen_zero]
    | succ a =>
      have : a + 1 + b = (a + b) + 1 := by omega
      rw [this]; simp [cutLen]; cases b <;> simp [cutLen]
  | cons x l ih =>
    cases a with
    | zero => simp [cutLen_zero]
    | succ a =>
      have e : a + 1 + b = (a + b) + 1 := by omega
      rw [e]
      simp only [cutLen]
      cases x
      · simp only [Bool.false_eq_true, ↓reduceIte]
        have e2 : a + b + 1 = (a + 1) + b := by omega
        rw [e2, ih (a + 1)]
        have : 1 + cutLen l (a + 1) = cutLen l (a + 1) + 1 := by omega
        rw [this, List.drop_succ_cons]; omega
      · simp only [↓reduceIte]
        rw [ih a]
        have : 1 + cutLen l a = cutLen l a + 1 := by omega
        rw [this, List.drop_succ_cons]; omega

/-- After cutting off the prefix with `t ≤ hits` hits, `hits - t` hits remain. -/
theorem hitsIn_drop_cutLen (l : List Bool) (t : Nat) (h : t ≤ hitsIn l) :
    hitsIn (l.drop (cutLen l t)) = hitsIn l - t := by
  induction l generalizing t with
  | nil => simp [hitsIn] at h; subst h; simp [cutLen_zero, hitsIn]
  | cons x l ih =>
    cases t with
    | zero => simp [cutLen_zero]
    | succ t =>
      simp only [cutLen]
      have : 1 + cutLen l (if x = true then t else t + 1) = cutLen l (if x = true then t else t + 1) + 1 := by omega
      rw [this, List.drop_succ_cons, hitsIn_cons]
      rw [hitsIn_cons] at h
      cases x
      · simp only [Bool.false_eq_true, ↓reduceIte, Nat.zero_add] at h ⊢
        rw [ih (t + 1) h]
      · simp only [↓reduceIte] at h ⊢
        rw [ih t (by omega)]; omega

theorem cutLen_one_pos (l : List Bool) (h : 1 ≤ hitsIn l) : 1 ≤ cutLen l 1 := by
  cases l with
  | nil => simp [hitsIn] at h
  | cons x l => simp [cutLen]

/-- The last object of the prefix `cutLen l 1` is the hit. -/
theorem getElem_cutLen_one (l : List Bool) (h : 1 ≤ hitsIn l) : l[cutLen l 1 - 1]? = some true := by
  induction l with
  | nil => simp [hitsIn] at h
  | cons x l ih =>
    cases x
    · rw [hitsIn_cons] at h
      simp only [Bool.false_eq_true, ↓reduceIte, Nat.zero_add] at h
      have hp := cutLen_one_pos l h
      simp only [cutLen, Bool.false_eq_true, ↓reduceIte]
      have e : 1 + cutLen l 1 - 1 = (cutLen l 1 - 1) + 1 := by omega
      rw [e, List.getElem?_cons_succ]
      exact ih h
    · simp [cutLen, cutLen_zero]

/-- Before the hit, the prefix holds only non-hits. -/
theorem getElem_before_cutLen_one (l : List Bool) (j : Nat) (hj : j + 1 < cutLen l 1) : l[j]? = some false := by
  induction l generalizing j with
  | nil => simp [cutLen] at hj
  | cons x l ih =>
    cases x
    · simp only [cutLen, Bool.false_eq_true, ↓reduceIte, Nat.zero_add] at hj
      cases j with
      | zero => rfl
      | succ j => rw [List.getElem?_cons_succ]; exact ih j (by omega)
    · simp [cutLen, cutLen_zero] at hj

/-- The inner hit loop from iterator position `q`: with a hit ahead it stops right after it,
having processed every difficulty object on the way. -/
theorem taikoHitLoop_hit (sk : Skills S) (bases : List Bool) (fuel : Nat) (g : TaikoGrad S) (q : Nat)
    (hq : g.iterPos = q) (hs : g.skills = processedPrefix sk q)
    (hh : 1 ≤ hitsIn (bases.drop q)) (hf : cutLen (bases.drop q) 1 ≤ fuel) :
    taikoHitLoop sk bases fuel g =
      (true, { g with iterPos := q + cutLen (bases.drop q) 1,
                      skills := processedPrefix sk (q + cutLen (bases.drop q) 1) }) := by
  induction fuel generalizing g q with
  | zero => have := cutLen_one_pos _ hh; omega
  | succ fuel ih =>
    unfold taikoHitLoop
    rw [hq]
    have hdrop : bases[q]? = (bases.drop q)[0]? := by simp
    cases hd : bases.drop q with
    | nil => rw [hd] at hh; simp [hitsIn] at hh
    | cons x rest =>
      have hx : bases[q]? = some x := by rw [hdrop, hd]; rfl
      simp only [hx]
      have hdrop1 : bases.drop (q + 1) = rest := by
        rw [← List.drop_drop, hd]; rfl
      cases x
      · -- a non-hit: process it and continue
        simp only [Bool.false_eq_true, ↓reduceIte]
        rw [hd] at hh hf
        rw [hitsIn_cons] at hh
        simp only [Bool.false_eq_true, ↓reduceIte, Nat.zero_add] at hh
        simp only [cutLen, Bool.false_eq_true, ↓reduceIte, Nat.zero_add] at hf
        have := ih { g with iterPos := q + 1, skills := sk.process g.skills q } (q + 1) rfl
          (by simp only [hs]; rw [processedPrefix_succ]) (by rw [hdrop1]; exact hh) (by rw [hdrop1]; omega)
        rw [this, hdrop1]
        simp only [cutLen, Bool.false_eq_true, ↓reduceIte, Nat.zero_add]
        have e : q + 1 + cutLen rest 1 = q + (1 + cutLen rest 1) := by omega
        rw [e]
      · simp only [↓reduceIte, cutLen, cutLen_zero, Nat.add_zero]
        rw [hs, ← processedPrefix_succ]

/-- …and with no hit ahead it runs the iterator dry, processing everything that is left. -/
theorem taikoHitLoop_dry (sk : Skills S) (bases : List Bool) (fuel : Nat) (g : TaikoGrad S) (q : Nat)
    (hq : g.iterPos = q) (hs : g.skills = processedPrefix sk q) (hle : q ≤ bases.length)
    (hh : hitsIn (bases.drop q) = 0) (hf : bases.length - q + 1 ≤ fuel) :
    taikoHitLoop sk bases fuel g =
      (false, { g with iterPos := bases.length, skills := processedPrefix sk bases.length }) := by
  induction fuel generalizing g q with
  | zero => omega
  | succ fuel ih =>
    unfold taikoHitLoop
    rw [hq]
    cases hd : bases.drop q with
    | nil =>
      have hlen : bases.length ≤ q := by
        have := congrArg List.length hd
        simp at this; omega
      have hqe : q = bases.length := by omega
      have hx : bases[q]? = none := by simp; omega
      simp only [hx]
      subst hqe
      cases g
      simp_all
    | cons x rest =>
      have hdrop : bases[q]? = (bases.drop q)[0]? := by simp
      have hx : bases[q]? = some x := by rw [hdrop, hd]; rfl
      simp only [hx]
      have hdrop1 : bases.drop (q + 1) = rest := by
        rw [← List.drop_drop, hd]; rfl
      have hqlt : q < bases.length := by
        have := congrArg List.length hd
        simp at this; omega
      rw [hd, hitsIn_cons] at hh
      cases x
      · simp only [Bool.false_eq_true, ↓reduceIte]
        simp only [Bool.false_eq_true, ↓reduceIte, Nat.zero_add] at hh
        exact ih { g with iterPos := q + 1, skills := sk.process g.skills q } (q + 1) rfl
          (by simp only [hs]; rw [processedPrefix_succ]) (by omega) (by rw [hdrop1]; exact hh) (by omega)
      · simp at hh


theorem taiko_inspect_fold (take : Nat) (l : List Bool) (mc nd : Nat) (h : mc ≤ take) :
    (l.foldl (taikoInspectStep take) (mc, nd)).1 = min take (mc + hitsIn l) := by
  induction l generalizing mc nd with
  | nil => simp [hitsIn]; omega
  | cons b t ih =>
    simp only [List.foldl_cons]
    have hstep : taikoInspectStep take (mc, nd) b =
        if mc < take then (mc + (if b then 1 else 0), nd + 1) else (mc, nd) := rfl
    rw [hstep]
    by_cases hlt : mc < take
    · rw [if_pos hlt]
      cases b
      · rw [ih _ _ (by simp; omega)]; simp [hitsIn]
      · rw [ih _ _ (by simp; omega)]; simp [hitsIn]; omega
    · rw [if_neg hlt, ih _ _ h]
      have : mc = take := by omega
      omega


/-! ### Regular maps: the first two objects are hits and a third object exists -/

theorem cutLen_two_hits (rest : List Bool) (i : Nat) (hi : 2 ≤ i) :
    cutLen (true :: true :: rest) i = 2 + cutLen rest (i - 2) := by
  obtain ⟨k, rfl⟩ : ∃ k, i = k + 2 := ⟨i - 2, by omega⟩
  simp only [cutLen, ↓reduceIte, Nat.add_sub_cancel]
  omega

/-- Canonical state after `i ≥ 2` values on a regular map `true :: true :: rest`. -/
structure TaikoCanon (sk : Skills S) (rest : List Bool) (g : TaikoGrad S) (i : Nat) : Prop where
  idx : g.idx = i
  combo : g.maxCombo = i
  pos : g.iterPos = cutLen rest (i - 2)
  skills : g.skills = processedPrefix sk (cutLen rest (i - 2))
  ge : 2 ≤ i
  le : i ≤ 2 + hitsIn rest

/-- The value reported as the `i`-th one (`i ≥ 1`). -/
def taikoValue (sk : Skills S) (rest : List Bool) (i : Nat) : Nat × S :=
  (i, processedPrefix sk (cutLen rest (i - 2)))

theorem taikoNext_spec (sk : Skills S) (rest : List Bool) (g : TaikoGrad S) (i : Nat)
    (hc : TaikoCanon sk rest g i) :
    (i < 2 + hitsIn rest →
      (taikoNext sk (true :: true :: rest) g).1 = some (taikoValue sk rest (i + 1)) ∧
      TaikoCanon sk rest (taikoNext sk (true :: true :: rest) g).2 (i + 1)) ∧
    (i = 2 + hitsIn rest → (taikoNext sk (true :: true :: rest) g).1 = none) := by
  obtain ⟨hidx, hcombo, hpos, hsk, hge, hle⟩ := hc
  have hdrop : (true :: true :: rest).drop 2 = rest := rfl
  have hqle : cutLen rest (i - 2) ≤ rest.length := cutLen_le _ _
  have hrem : hitsIn (rest.drop (cutLen rest (i - 2))) = hitsIn rest - (i - 2) :=
    hitsIn_drop_cutLen rest (i - 2) (by omega)
  have hidx2 : g.idx ≥ 2 := by omega
  constructor
  · intro hlt
    have hh : 1 ≤ hitsIn (rest.drop (cutLen rest (i - 2))) := by omega
    have hf : cutLen (rest.drop (cutLen rest (i - 2))) 1 ≤ rest.length + 1 := by
      have := cutLen_le (rest.drop (cutLen rest (i - 2))) 1
      simp at this; omega
    have hl := taikoHitLoop_hit sk rest (rest.length + 1) g _ hpos hsk hh hf
    have hnext : cutLen rest (i - 2) + cutLen (rest.drop (cutLen rest (i - 2))) 1 = cutLen rest (i + 1 - 2) := by
      rw [← cutLen_add]; congr 1; omega
    simp only [taikoNext, hdrop, hidx2, ↓reduceIte, hl, hnext]
    refine ⟨?_, ⟨by simp [hidx], by simp [hcombo], rfl, rfl, by omega, by omega⟩⟩
    simp [taikoValue, hcombo]
  · intro heq
    have hh : hitsIn (rest.drop (cutLen rest (i - 2))) = 0 := by omega
    have hl := taikoHitLoop_dry sk rest (rest.length + 1) g _ hpos hsk hqle hh (by omega)
    simp only [taikoNext, hdrop, hidx2, ↓reduceIte, hl]

/-- The first two `next` calls on a regular map: values 1 and 2, then the canonical state 2. -/
theorem taiko_first_two (sk : Skills S) (rest : List Bool) (hne : rest ≠ []) :
    let objs := true :: true :: rest
    let r1 := taikoNext sk objs (taikoNew sk objs)
    let r2 := taikoNext sk objs r1.2
    r1.1 = some (taikoValue sk rest 1) ∧ r2.1 = some (taikoValue sk rest 2) ∧ TaikoCanon sk rest r2.2 2 := by
  intro objs r1 r2
  have hdrop : objs.drop 2 = rest := rfl
  have hemp : rest.isEmpty = false := by cases rest <;> simp_all
  refine ⟨?_, ?_, ?_⟩
  · simp [r1, taikoNext, taikoNew, hdrop, hemp, taikoFirstCombos, objs, taikoValue, cutLen_zero, processedPrefix, processFrom]
  · simp [r2, r1, taikoNext, taikoNew, hdrop, hemp, taikoFirstCombos, objs, taikoValue, cutLen_zero, processedPrefix, processFrom]
  · refine ⟨?_, ?_, ?_, ?_, Nat.le_refl _, by omega⟩ <;>
      simp [r2, r1, taikoNext, taikoNew, hdrop, hemp, taikoFirstCombos, objs, cutLen_zero, processedPrefix, processFrom]

/-- One-shot with `take = i`, `1 ≤ i ≤ hits`, on a regular map. -/
theorem taikoOneShot_regular (sk : Skills S) (rest : List Bool) (i : Nat) (h1 : 1 ≤ i)
    (hle : i ≤ 2 + hitsIn rest) :
    taikoOneShot sk (true :: true :: rest) i = taikoValue sk rest i := by
  have hmc := taiko_inspect_fold i (true :: true :: rest) 0 0 (Nat.zero_le _)
  have hnd := taiko_inspect_fold_nd i (true :: true :: rest) 0 0 (Nat.zero_le _)
  simp only [Nat.zero_add, Nat.sub_zero] at hmc hnd
  have hH : hitsIn (true :: true :: rest) = 2 + hitsIn rest := by
    rw [hitsIn_cons, hitsIn_cons]; simp; omega
  unfold taikoOneShot taikoCreate
  generalize (true :: true :: rest).foldl (taikoInspectStep i) (0, 0) = r at hmc hnd
  obtain ⟨mc, nd⟩ := r
  simp only at hmc hnd
  have hlen : ¬ ((true :: true :: rest).length < 2) := by simp
  simp only [hlen, ↓reduceIte]
  rw [hmc, hnd, hH]
  have hmin : min i (2 + hitsIn rest) = i := by omega
  rcases Nat.lt_or_ge i 2 with hi | hi
  · have hi1 : i = 1 := by omega
    subst hi1
    simp [taikoValue, cutLen, cutLen_zero, hmin]
  · rw [cutLen_two_hits rest i hi]
    have hq := cutLen_le rest (i - 2)
    have hpos : 0 < i ∧ 0 < 2 + cutLen rest (i - 2) := by omega
    simp only [hpos, and_self, ↓reduceIte, hmin, taikoValue, List.length_cons]
    congr 2
    omega

end Rosu.Gradual

namespace Rosu.Gradual

variable {S : Type}

theorem taiko_nexts_spec (sk : Skills S) (rest : List Bool) (k : Nat) (g : TaikoGrad S) (i : Nat)
    (hc : TaikoCanon sk rest g i) (hk : i + k ≤ 2 + hitsIn rest) :
    ((taikoMachine sk (true :: true :: rest)).nexts g k).1 =
      (List.range k).map (fun d => Res.some (taikoValue sk rest (i + d + 1))) ∧
    TaikoCanon sk rest ((taikoMachine sk (true :: true :: rest)).nexts g k).2 (i + k) := by
  induction k generalizing g i with
  | zero => simpa [Machine.nexts] using hc
  | succ k ih =>
    have hlt : i < 2 + hitsIn rest := by omega
    obtain ⟨hv, hc'⟩ := (taikoNext_spec sk rest g i hc).1 hlt
    have ih' := ih _ (i + 1) hc' (by omega)
    simp only [Machine.nexts]
    have hn : (taikoMachine sk (true :: true :: rest)).next g =
        (Res.some (taikoValue sk rest (i + 1)), (taikoNext sk (true :: true :: rest) g).2) := by
      show (optToRes (taikoNext sk (true :: true :: rest) g).1, _) = _
      rw [hv]; rfl
    rw [hn]
    refine ⟨?_, ?_⟩
    · simp only
      rw [ih'.1, List.range_succ_eq_map]
      simp only [List.map_cons, List.map_map, Nat.add_zero]
      congr 1
      apply List.map_congr_left
      intro d _
      simp only [Function.comp]
      congr 2
      omega
    · have e : i + (k + 1) = i + 1 + k := by omega
      rw [e]; exact ih'.2

end Rosu.Gradual
