import RosuModel.Lemmas.GradualOsu

/-! Helper lemmas for the osu!taiko gradual model (`TaikoGradualDifficulty::next` as fixed), for
**arbitrary** object lists: canonical state after `i` values, `next`, the one-shot value. -/

namespace Rosu.Gradual

variable {S : Type}

/-- Number of hits in a list of objects. -/
def hitsIn (l : List Bool) : Nat := (l.filter id).length

/-- Length of the shortest prefix of `l` that contains `t` hits (the whole list if there are
fewer). -/
def cutLen : List Bool → Nat → Nat
  | _, 0 => 0
  | [], _ + 1 => 0
  | b :: l, t + 1 => 1 + cutLen l (if b then t else t + 1)

theorem cutLen_zero (l : List Bool) : cutLen l 0 = 0 := by
  cases l <;> rfl

theorem cutLen_le (l : List Bool) (t : Nat) : cutLen l t ≤ l.length := by
  induction l generalizing t with
  | nil => cases t <;> simp [cutLen]
  | cons b l ih =>
    cases t with
    | zero => simp [cutLen]
    | succ t => simp only [cutLen, List.length_cons]; have := ih (if b then t else t + 1); omega

theorem hitsIn_cons (b : Bool) (l : List Bool) : hitsIn (b :: l) = (if b then 1 else 0) + hitsIn l := by
  cases b <;> simp [hitsIn] <;> omega

/-- The `inspect` closure counts exactly the objects of the shortest prefix with `take` hits. -/
theorem taiko_inspect_fold_nd (take : Nat) (l : List Bool) (mc nd : Nat) (h : mc ≤ take) :
    (l.foldl (taikoInspectStep take) (mc, nd)).2 = nd + cutLen l (take - mc) := by
  induction l generalizing mc nd with
  | nil => cases (take - mc) <;> simp [cutLen]
  | cons b t ih =>
    simp only [List.foldl_cons]
    have hstep : taikoInspectStep take (mc, nd) b =
        if mc < take then (mc + (if b then 1 else 0), nd + 1) else (mc, nd) := rfl
    rw [hstep]
    by_cases hlt : mc < take
    · rw [if_pos hlt]
      obtain ⟨k, hk⟩ : ∃ k, take - mc = k + 1 := ⟨take - mc - 1, by omega⟩
      rw [hk]
      cases b
      · rw [ih _ _ (by simp; omega)]
        simp only [cutLen, Bool.false_eq_true, ↓reduceIte, Nat.add_zero]
        rw [hk]; omega
      · rw [ih _ _ (by simp; omega)]
        simp only [cutLen, ↓reduceIte]
        have : take - (mc + 1) = k := by omega
        rw [this]; omega
    · rw [if_neg hlt, ih _ _ h]
      have : take - mc = 0 := by omega
      rw [this, cutLen_zero, cutLen_zero]

theorem cutLen_add (l : List Bool) (a b : Nat) :
    cutLen l (a + b) = cutLen l a + cutLen (l.drop (cutLen l a)) b := by
  induction l generalizing a with
  | nil =>
    cases a with
    | zero => simp [cutLen_zero]
    | succ a =>
      have : a + 1 + b = (a + b) + 1 := by omega
      rw [this]; simp [cutLen]; cases b <;> simp [cutLen]
  | cons x l ih =>
    cases a with
    | zero => simp [cutLen_zero]
    | succ a =>
      have e : a + 1 + b = (a + b) + 1 := by omega
      rw [e]
      simp only [cutLen]
      cases x
      · simp only [Bool.false_eq_true, ↓reduceIte]
        have e2 : a + b + 1 = (a + 1) + b := by omega
        rw [e2, ih (a + 1)]
        have : 1 + cutLen l (a + 1) = cutLen l (a + 1) + 1 := by omega
        rw [this, List.drop_succ_cons]; omega
      · simp only [↓reduceIte]
        rw [ih a]
        have : 1 + cutLen l a = cutLen l a + 1 := by omega
        rw [this, List.drop_succ_cons]; omega

/-- After cutting off the prefix with `t ≤ hits` hits, `hits - t` hits remain. -/
theorem hitsIn_drop_cutLen (l : List Bool) (t : Nat) (h : t ≤ hitsIn l) :
    hitsIn (l.drop (cutLen l t)) = hitsIn l - t := by
  induction l generalizing t with
  | nil => simp [hitsIn] at h; subst h; simp [cutLen_zero, hitsIn]
  | cons x l ih =>
    cases t with
    | zero => simp [cutLen_zero]
    | succ t =>
      simp only [cutLen]
      have : 1 + cutLen l (if x = true then t else t + 1) = cutLen l (if x = true then t else t + 1) + 1 := by omega
      rw [this, List.drop_succ_cons, hitsIn_cons]
      rw [hitsIn_cons] at h
      cases x
      · simp only [Bool.false_eq_true, ↓reduceIte, Nat.zero_add] at h ⊢
        rw [ih (t + 1) h]
      · simp only [↓reduceIte] at h ⊢
        rw [ih t (by omega)]; omega

theorem cutLen_one_pos (l : List Bool) (h : 1 ≤ hitsIn l) : 1 ≤ cutLen l 1 := by
  cases l with
  | nil => simp [hitsIn] at h
  | cons x l => simp [cutLen]

/-- The last object of the prefix `cutLen l 1` is the hit. -/
theorem getElem_cutLen_one (l : List Bool) (h : 1 ≤ hitsIn l) : l[cutLen l 1 - 1]? = some true := by
  induction l with
  | nil => simp [hitsIn] at h
  | cons x l ih =>
    cases x
    · rw [hitsIn_cons] at h
      simp only [Bool.false_eq_true, ↓reduceIte, Nat.zero_add] at h
      have hp := cutLen_one_pos l h
      simp only [cutLen, Bool.false_eq_true, ↓reduceIte]
      have e : 1 + cutLen l 1 - 1 = (cutLen l 1 - 1) + 1 := by omega
      rw [e, List.getElem?_cons_succ]
      exact ih h
    · simp [cutLen, cutLen_zero]

/-- Before the hit, the prefix holds only non-hits. -/
theorem getElem_before_cutLen_one (l : List Bool) (j : Nat) (hj : j + 1 < cutLen l 1) : l[j]? = some false := by
  induction l generalizing j with
  | nil => simp [cutLen] at hj
  | cons x l ih =>
    cases x
    · simp only [cutLen, Bool.false_eq_true, ↓reduceIte, Nat.zero_add] at hj
      cases j with
      | zero => rfl
      | succ j => rw [List.getElem?_cons_succ]; exact ih j (by omega)
    · simp [cutLen, cutLen_zero] at hj

/-- The inner hit loop from iterator position `q`: with a hit ahead it stops right after it,
having processed every difficulty object on the way. -/
theorem taikoHitLoop_hit (sk : Skills S) (bases : List Bool) (fuel : Nat) (g : TaikoGrad S) (q : Nat)
    (hq : g.iterPos = q) (hs : g.skills = processedPrefix sk q)
    (hh : 1 ≤ hitsIn (bases.drop q)) (hf : cutLen (bases.drop q) 1 ≤ fuel) :
    taikoHitLoop sk bases fuel g =
      (true, { g with iterPos := q + cutLen (bases.drop q) 1,
                      skills := processedPrefix sk (q + cutLen (bases.drop q) 1) }) := by
  induction fuel generalizing g q with
  | zero => have := cutLen_one_pos _ hh; omega
  | succ fuel ih =>
    unfold taikoHitLoop
    rw [hq]
    have hdrop : bases[q]? = (bases.drop q)[0]? := by simp
    cases hd : bases.drop q with
    | nil => rw [hd] at hh; simp [hitsIn] at hh
    | cons x rest =>
      have hx : bases[q]? = some x := by rw [hdrop, hd]; rfl
      simp only [hx]
      have hdrop1 : bases.drop (q + 1) = rest := by
        rw [← List.drop_drop, hd]; rfl
      cases x
      · -- a non-hit: process it and continue
        simp only [Bool.false_eq_true, ↓reduceIte]
        rw [hd] at hh hf
        rw [hitsIn_cons] at hh
        simp only [Bool.false_eq_true, ↓reduceIte, Nat.zero_add] at hh
        simp only [cutLen, Bool.false_eq_true, ↓reduceIte, Nat.zero_add] at hf
        have := ih { g with iterPos := q + 1, skills := sk.process g.skills q } (q + 1) rfl
          (by simp only [hs]; rw [processedPrefix_succ]) (by rw [hdrop1]; exact hh) (by rw [hdrop1]; omega)
        rw [this, hdrop1]
        simp only [cutLen, Bool.false_eq_true, ↓reduceIte, Nat.zero_add]
        have e : q + 1 + cutLen rest 1 = q + (1 + cutLen rest 1) := by omega
        rw [e]
      · simp only [↓reduceIte, cutLen, cutLen_zero, Nat.add_zero]
        rw [hs, ← processedPrefix_succ]

/-- …and with no hit ahead it runs the iterator dry, processing everything that is left. -/
theorem taikoHitLoop_dry (sk : Skills S) (bases : List Bool) (fuel : Nat) (g : TaikoGrad S) (q : Nat)
    (hq : g.iterPos = q) (hs : g.skills = processedPrefix sk q) (hle : q ≤ bases.length)
    (hh : hitsIn (bases.drop q) = 0) (hf : bases.length - q + 1 ≤ fuel) :
    taikoHitLoop sk bases fuel g =
      (false, { g with iterPos := bases.length, skills := processedPrefix sk bases.length }) := by
  induction fuel generalizing g q with
  | zero => omega
  | succ fuel ih =>
    unfold taikoHitLoop
    rw [hq]
    cases hd : bases.drop q with
    | nil =>
      have hlen : bases.length ≤ q := by
        have := congrArg List.length hd
        simp at this; omega
      have hqe : q = bases.length := by omega
      have hx : bases[q]? = none := by simp; omega
      simp only [hx]
      subst hqe
      cases g
      simp_all
    | cons x rest =>
      have hdrop : bases[q]? = (bases.drop q)[0]? := by simp
      have hx : bases[q]? = some x := by rw [hdrop, hd]; rfl
      simp only [hx]
      have hdrop1 : bases.drop (q + 1) = rest := by
        rw [← List.drop_drop, hd]; rfl
      have hqlt : q < bases.length := by
        have := congrArg List.length hd
        simp at this; omega
      rw [hd, hitsIn_cons] at hh
      cases x
      · simp only [Bool.false_eq_true, ↓reduceIte]
        simp only [Bool.false_eq_true, ↓reduceIte, Nat.zero_add] at hh
        exact ih { g with iterPos := q + 1, skills := sk.process g.skills q } (q + 1) rfl
          (by simp only [hs]; rw [processedPrefix_succ]) (by omega) (by rw [hdrop1]; exact hh) (by omega)
      · simp at hh


theorem taiko_inspect_fold (take : Nat) (l : List Bool) (mc nd : Nat) (h : mc ≤ take) :
    (l.foldl (taikoInspectStep take) (mc, nd)).1 = min take (mc + hitsIn l) := by
  induction l generalizing mc nd with
  | nil => simp [hitsIn]; omega
  | cons b t ih =>
    simp only [List.foldl_cons]
    have hstep : taikoInspectStep take (mc, nd) b =
        if mc < take then (mc + (if b then 1 else 0), nd + 1) else (mc, nd) := rfl
    rw [hstep]
    by_cases hlt : mc < take
    · rw [if_pos hlt]
      cases b
      · rw [ih _ _ (by simp; omega)]; simp [hitsIn]
      · rw [ih _ _ (by simp; omega)]; simp [hitsIn]; omega
    · rw [if_neg hlt, ih _ _ h]
      have : mc = take := by omega
      omega


/-! ### Arbitrary maps -/

/-- Hits among the first two objects (the objects without a difficulty object). -/
def firstHits (objs : List Bool) : Nat := hitsIn (objs.take 2)

theorem nHits_eq (objs : List Bool) : (taikoFirstCombos objs).nHits = firstHits objs := by
  match objs with
  | [] => rfl
  | [a] => cases a <;> rfl
  | a :: b :: rest => cases a <;> cases b <;> rfl

theorem hitsIn_append (l₁ l₂ : List Bool) : hitsIn (l₁ ++ l₂) = hitsIn l₁ + hitsIn l₂ := by
  simp [hitsIn, List.filter_append]

theorem hitsIn_split (objs : List Bool) : hitsIn objs = firstHits objs + hitsIn (objs.drop 2) := by
  have := hitsIn_append (objs.take 2) (objs.drop 2)
  rw [List.take_append_drop] at this
  exact this

/-- State after `i` hits have been passed and nothing has been drained (the states inside `next` / `nth`
before the drain; for `i < H` also the canonical state after `i` values). -/
structure TaikoMid (sk : Skills S) (objs : List Bool) (g : TaikoGrad S) (i : Nat) : Prop where
  idx : g.idx = i
  combo : g.maxCombo = i
  pos : g.iterPos = cutLen (objs.drop 2) (i - firstHits objs)
  skills : g.skills = processedPrefix sk (cutLen (objs.drop 2) (i - firstHits objs))
  le : i ≤ hitsIn objs

/-- The `i`-th value without the final drain. -/
def taikoMidValue (sk : Skills S) (objs : List Bool) (i : Nat) : Nat × S :=
  (i, processedPrefix sk (cutLen (objs.drop 2) (i - firstHits objs)))

theorem taikoNew_mid (sk : Skills S) (objs : List Bool) : TaikoMid sk objs (taikoNew sk objs) 0 :=
  ⟨rfl, rfl, by simp [taikoNew, cutLen_zero], by simp [taikoNew, cutLen_zero, processedPrefix, processFrom],
    Nat.zero_le _⟩

theorem taikoNextCore_spec (sk : Skills S) (objs : List Bool) (g : TaikoGrad S) (i : Nat)
    (hc : TaikoMid sk objs g i) :
    (i < hitsIn objs →
      (taikoNextCore sk objs g).1 = some (taikoMidValue sk objs (i + 1)) ∧
      TaikoMid sk objs (taikoNextCore sk objs g).2 (i + 1)) ∧
    (i = hitsIn objs → (taikoNextCore sk objs g).1 = none ∧ (taikoNextCore sk objs g).2.idx = i) := by
  obtain ⟨hidx, hcombo, hpos, hsk, hle⟩ := hc
  have hH := hitsIn_split objs
  have hn := nHits_eq objs
  by_cases hk : i < firstHits objs
  · -- a hit among the first two objects: nothing is processed
    have hcond : ¬ (g.idx ≥ (taikoFirstCombos objs).nHits) := by rw [hn, hidx]; omega
    have e0 : i - firstHits objs = 0 := by omega
    have e1 : i + 1 - firstHits objs = 0 := by omega
    constructor
    · intro _
      simp only [taikoNextCore, hcond, if_false]
      refine ⟨?_, ⟨by simp [hidx], by simp [hcombo], ?_, ?_, by omega⟩⟩
      · simp [taikoMidValue, hcombo, hsk, e0, e1]
      · simp [hpos, e0, e1]
      · simp [hsk, e0, e1]
    · intro heq; omega
  · have hcond : g.idx ≥ (taikoFirstCombos objs).nHits := by rw [hn, hidx]; omega
    have hqle : cutLen (objs.drop 2) (i - firstHits objs) ≤ (objs.drop 2).length := cutLen_le _ _
    have hrem : hitsIn ((objs.drop 2).drop (cutLen (objs.drop 2) (i - firstHits objs))) =
        hitsIn (objs.drop 2) - (i - firstHits objs) :=
      hitsIn_drop_cutLen (objs.drop 2) (i - firstHits objs) (by omega)
    constructor
    · intro hlt
      have hh : 1 ≤ hitsIn ((objs.drop 2).drop (cutLen (objs.drop 2) (i - firstHits objs))) := by omega
      have hf : cutLen ((objs.drop 2).drop (cutLen (objs.drop 2) (i - firstHits objs))) 1 ≤
          (objs.drop 2).length + 1 := by
        have h1 := cutLen_le ((objs.drop 2).drop (cutLen (objs.drop 2) (i - firstHits objs))) 1
        have h2 : ((objs.drop 2).drop (cutLen (objs.drop 2) (i - firstHits objs))).length ≤
            (objs.drop 2).length := by rw [List.length_drop]; omega
        omega
      have hl := taikoHitLoop_hit sk (objs.drop 2) ((objs.drop 2).length + 1) g _ hpos hsk hh hf
      have hnext : cutLen (objs.drop 2) (i - firstHits objs) +
          cutLen ((objs.drop 2).drop (cutLen (objs.drop 2) (i - firstHits objs))) 1 =
          cutLen (objs.drop 2) (i + 1 - firstHits objs) := by
        rw [← cutLen_add]; congr 1; omega
      simp only [taikoNextCore, hcond, if_true, hl, hnext]
      refine ⟨?_, ⟨by simp [hidx], by simp [hcombo], rfl, rfl, by omega⟩⟩
      simp [taikoMidValue, hcombo]
    · intro heq
      have hh : hitsIn ((objs.drop 2).drop (cutLen (objs.drop 2) (i - firstHits objs))) = 0 := by omega
      have hl := taikoHitLoop_dry sk (objs.drop 2) ((objs.drop 2).length + 1) g _ hpos hsk hqle hh
        (by omega)
      simp only [taikoNextCore, hcond, if_true, hl]
      refine ⟨?_, ?_⟩ <;> simp [hidx]

theorem cutLen_nil (t : Nat) : cutLen [] t = 0 := by cases t <;> rfl

/-- `cutLen` of a list with at least two objects, beyond the hits of the first two. -/
theorem cutLen_beyond_first (a b : Bool) (rest : List Bool) (m : Nat) :
    cutLen (a :: b :: rest) (m + firstHits (a :: b :: rest) + 1) = 2 + cutLen rest (m + 1) := by
  cases a <;> cases b <;> simp [firstHits, hitsIn, cutLen] <;> omega

/-- … and up to the hits of the first two objects the cut stays inside them. -/
theorem cutLen_within_first (a b : Bool) (rest : List Bool) (i : Nat) (hi : i ≤ firstHits (a :: b :: rest)) :
    cutLen (a :: b :: rest) i ≤ 2 := by
  cases a <;> cases b <;> simp [firstHits, hitsIn] at hi
  · subst hi; simp [cutLen_zero]
  · rcases (by omega : i = 0 ∨ i = 1) with h | h <;> subst h <;> simp [cutLen, cutLen_zero]
  · rcases (by omega : i = 0 ∨ i = 1) with h | h <;> subst h <;> simp [cutLen, cutLen_zero]
  · rcases (by omega : i = 0 ∨ i = 1 ∨ i = 2) with h | h | h <;> subst h <;> simp [cutLen, cutLen_zero]

/-- The pre-fix one-shot with `passed_objects = i`, `1 ≤ i ≤ hits`, on an arbitrary map. -/
theorem taikoOneShotOld_general (sk : Skills S) (objs : List Bool) (i : Nat) (h1 : 1 ≤ i)
    (hle : i ≤ hitsIn objs) :
    Old.taikoOneShot sk objs i = taikoMidValue sk objs i := by
  have hmc := taiko_inspect_fold i objs 0 0 (Nat.zero_le _)
  have hnd := taiko_inspect_fold_nd i objs 0 0 (Nat.zero_le _)
  simp only [Nat.zero_add, Nat.sub_zero] at hmc hnd
  have hmin : min i (hitsIn objs) = i := by omega
  unfold Old.taikoOneShot taikoCreate
  generalize objs.foldl (taikoInspectStep i) (0, 0) = r at hmc hnd
  obtain ⟨mc, nd⟩ := r
  simp only at hmc hnd
  match objs, hle, hmc, hnd with
  | [], hle, _, _ => simp [hitsIn] at hle; omega
  | [a], hle, hmc, hnd =>
    simp only [List.length_singleton, show (1 : Nat) < 2 by omega, if_true]
    rw [hmc, hmin]
    simp [taikoMidValue, cutLen_nil]
  | a :: b :: rest, hle, hmc, hnd =>
    have hlen : ¬ ((a :: b :: rest).length < 2) := by simp
    simp only [hlen, if_false]
    rw [hmc, hmin, hnd]
    simp only [taikoMidValue, List.drop_succ_cons, List.drop_zero, List.length_cons]
    congr 2
    have hq := cutLen_le rest (i - firstHits (a :: b :: rest))
    by_cases hk : i ≤ firstHits (a :: b :: rest)
    · have := cutLen_within_first a b rest i hk
      have e0 : i - firstHits (a :: b :: rest) = 0 := by omega
      rw [e0, cutLen_zero]
      split <;> omega
    · obtain ⟨m, hm⟩ : ∃ m, i = m + firstHits (a :: b :: rest) + 1 :=
        ⟨i - firstHits (a :: b :: rest) - 1, by omega⟩
      have := cutLen_beyond_first a b rest m
      rw [← hm] at this
      have e1 : i - firstHits (a :: b :: rest) = m + 1 := by omega
      rw [e1] at hq ⊢
      rw [this]
      have hpos : 0 < i ∧ 0 < 2 + cutLen rest (m + 1) := by omega
      simp only [hpos, and_self, if_true]
      omega

theorem cutLen_cons_succ (b : Bool) (l : List Bool) (t : Nat) :
    cutLen (b :: l) (t + 1) = 1 + cutLen l (if b then t else t + 1) := rfl

/-! ### Canonical states and values with the final drain -/

/-- Position of the difficulty-object iterator after `i` values: the hits passed so far, and — once the
last hit has been reported — everything (`taikoDrain`). -/
def taikoPos (objs : List Bool) (i : Nat) : Nat :=
  if 0 < i ∧ i = hitsIn objs then (objs.drop 2).length
  else cutLen (objs.drop 2) (i - firstHits objs)

/-- Canonical state after `i` values. -/
structure TaikoCanon (sk : Skills S) (objs : List Bool) (g : TaikoGrad S) (i : Nat) : Prop where
  idx : g.idx = i
  combo : g.maxCombo = i
  pos : g.iterPos = taikoPos objs i
  skills : g.skills = processedPrefix sk (taikoPos objs i)
  le : i ≤ hitsIn objs

/-- The `i`-th value. -/
def taikoValue (sk : Skills S) (objs : List Bool) (i : Nat) : Nat × S :=
  (i, processedPrefix sk (taikoPos objs i))

theorem taikoPos_mid (objs : List Bool) (i : Nat) (h : i < hitsIn objs ∨ i = 0) :
    taikoPos objs i = cutLen (objs.drop 2) (i - firstHits objs) := by
  unfold taikoPos
  rw [if_neg (by omega)]

theorem TaikoCanon.toMid {sk : Skills S} {objs : List Bool} {g : TaikoGrad S} {i : Nat}
    (hc : TaikoCanon sk objs g i) (h : i < hitsIn objs ∨ i = 0) : TaikoMid sk objs g i :=
  ⟨hc.idx, hc.combo, by rw [hc.pos, taikoPos_mid objs i h], by rw [hc.skills, taikoPos_mid objs i h], hc.le⟩

theorem TaikoMid.toCanon {sk : Skills S} {objs : List Bool} {g : TaikoGrad S} {i : Nat}
    (hc : TaikoMid sk objs g i) (h : i < hitsIn objs ∨ i = 0) : TaikoCanon sk objs g i :=
  ⟨hc.idx, hc.combo, by rw [hc.pos, taikoPos_mid objs i h], by rw [hc.skills, taikoPos_mid objs i h], hc.le⟩

theorem taikoNew_canon (sk : Skills S) (objs : List Bool) : TaikoCanon sk objs (taikoNew sk objs) 0 :=
  (taikoNew_mid sk objs).toCanon (Or.inr rfl)

/-- The drain after `idx += 1`: it turns the undrained state after `j ≥ 1` hits into the canonical
state after `j` values (a no-op unless `j` is the number of hits). -/
theorem taikoDrain_mid (sk : Skills S) (objs : List Bool) (g : TaikoGrad S) (j : Nat)
    (hm : TaikoMid sk objs g j) (hj : 0 < j) : TaikoCanon sk objs (taikoDrain sk objs g) j := by
  obtain ⟨hidx, hcombo, hpos, hsk, hle⟩ := hm
  have hq : cutLen (objs.drop 2) (j - firstHits objs) ≤ (objs.drop 2).length := cutLen_le _ _
  unfold taikoDrain
  by_cases hH : j = hitsIn objs
  · have hcond : g.idx = (objs.filter id).length := by rw [hidx, hH]; rfl
    have hp : taikoPos objs j = (objs.drop 2).length := by
      unfold taikoPos; rw [if_pos ⟨hj, hH⟩]
    rw [if_pos hcond]
    refine ⟨hidx, hcombo, ?_, ?_, hle⟩
    · show g.iterPos + ((objs.drop 2).length - g.iterPos) = _
      rw [hp, hpos]; omega
    · show processFrom sk g.skills g.iterPos ((objs.drop 2).length - g.iterPos) = _
      rw [hp, hsk, hpos, ← processedPrefix_add]
      congr 1; omega
  · have hcond : ¬ g.idx = (objs.filter id).length := by
      rw [hidx]; exact fun h => hH h
    rw [if_neg hcond]
    exact (TaikoMid.toCanon ⟨hidx, hcombo, hpos, hsk, hle⟩ (Or.inl (by omega)))

theorem taikoNext_of_core_none (sk : Skills S) (objs : List Bool) (g : TaikoGrad S)
    (h : (taikoNextCore sk objs g).1 = none) :
    taikoNext sk objs g = (none, (taikoNextCore sk objs g).2) := by
  unfold taikoNext
  generalize taikoNextCore sk objs g = r at h ⊢
  obtain ⟨a, b⟩ := r
  simp only at h
  subst h
  rfl

/-- `next` from an undrained state after `j < H` hits: the value number `j + 1` and the canonical state
after it. -/
theorem taikoNext_mid (sk : Skills S) (objs : List Bool) (g : TaikoGrad S) (j : Nat)
    (hm : TaikoMid sk objs g j) (hlt : j < hitsIn objs) :
    (taikoNext sk objs g).1 = some (taikoValue sk objs (j + 1)) ∧
      TaikoCanon sk objs (taikoNext sk objs g).2 (j + 1) := by
  obtain ⟨hv, hm'⟩ := (taikoNextCore_spec sk objs g j hm).1 hlt
  have hd := taikoDrain_mid sk objs _ (j + 1) hm' (by omega)
  unfold taikoNext
  generalize taikoNextCore sk objs g = r at hv hd ⊢
  obtain ⟨a, b⟩ := r
  simp only at hv hd
  subst hv
  refine ⟨?_, hd⟩
  simp only [taikoValue]
  rw [hd.combo, hd.skills]

/-- `next` from the canonical state after `i` values. -/
theorem taikoNext_spec (sk : Skills S) (objs : List Bool) (g : TaikoGrad S) (i : Nat)
    (hc : TaikoCanon sk objs g i) :
    (i < hitsIn objs →
      (taikoNext sk objs g).1 = some (taikoValue sk objs (i + 1)) ∧
      TaikoCanon sk objs (taikoNext sk objs g).2 (i + 1)) ∧
    (i = hitsIn objs → (taikoNext sk objs g).1 = none ∧ (taikoNext sk objs g).2.idx = i) := by
  constructor
  · intro hlt
    exact taikoNext_mid sk objs g i (hc.toMid (Or.inl hlt)) hlt
  · intro heq
    by_cases h0 : i = 0
    · have hn := (taikoNextCore_spec sk objs g i (hc.toMid (Or.inr h0))).2 heq
      rw [taikoNext_of_core_none sk objs g hn.1]
      exact ⟨rfl, hn.2⟩
    · -- already drained: the hit loop finds nothing
      have hp : taikoPos objs i = (objs.drop 2).length := by
        unfold taikoPos; rw [if_pos ⟨by omega, heq⟩]
      have hH := hitsIn_split objs
      have hcond : g.idx ≥ (taikoFirstCombos objs).nHits := by rw [nHits_eq, hc.idx]; omega
      have hdrop0 : hitsIn ((objs.drop 2).drop (objs.drop 2).length) = 0 := by
        rw [List.drop_length]; rfl
      have hl := taikoHitLoop_dry sk (objs.drop 2) ((objs.drop 2).length + 1) g (objs.drop 2).length
        (by rw [hc.pos, hp]) (by rw [hc.skills, hp]) (Nat.le_refl _) hdrop0 (by omega)
      have hcore : taikoNextCore sk objs g =
          (none, { g with iterPos := (objs.drop 2).length,
                          skills := processedPrefix sk (objs.drop 2).length }) := by
        simp only [taikoNextCore, hcond, if_true, hl]
      rw [taikoNext_of_core_none sk objs g (by rw [hcore])]
      rw [hcore]
      exact ⟨rfl, hc.idx⟩

theorem taiko_nexts_spec (sk : Skills S) (objs : List Bool) (k : Nat) (g : TaikoGrad S) (i : Nat)
    (hc : TaikoCanon sk objs g i) (hk : i + k ≤ hitsIn objs) :
    ((taikoMachine sk objs).nexts g k).1 =
      (List.range k).map (fun d => Res.some (taikoValue sk objs (i + d + 1))) ∧
    TaikoCanon sk objs ((taikoMachine sk objs).nexts g k).2 (i + k) := by
  induction k generalizing g i with
  | zero => simpa [Machine.nexts] using hc
  | succ k ih =>
    have hlt : i < hitsIn objs := by omega
    obtain ⟨hv, hc'⟩ := (taikoNext_spec sk objs g i hc).1 hlt
    have ih' := ih _ (i + 1) hc' (by omega)
    simp only [Machine.nexts]
    have hn : (taikoMachine sk objs).next g =
        (Res.some (taikoValue sk objs (i + 1)), (taikoNext sk objs g).2) := by
      show (optToRes (taikoNext sk objs g).1, _) = _
      rw [hv]; rfl
    rw [hn]
    refine ⟨?_, ?_⟩
    · simp only
      rw [ih'.1, List.range_succ_eq_map]
      simp only [List.map_cons, List.map_map, Nat.add_zero]
      congr 1
      apply List.map_congr_left
      intro d _
      simp only [Function.comp]
      congr 2
      omega
    · have e : i + (k + 1) = i + 1 + k := by omega
      rw [e]; exact ih'.2

/-- One-shot with a limit at or beyond the number of hits: everything is processed. -/
theorem taikoOneShot_ge (sk : Skills S) (objs : List Bool) (t : Nat) (h : hitsIn objs ≤ t) :
    taikoOneShot sk objs t = (hitsIn objs, processedPrefix sk (objs.drop 2).length) := by
  have hmc := taiko_inspect_fold t objs 0 0 (Nat.zero_le _)
  simp only [Nat.zero_add] at hmc
  have hcond : t ≥ (objs.filter id).length := h
  unfold taikoOneShot taikoCreate
  generalize objs.foldl (taikoInspectStep t) (0, 0) = r at hmc
  obtain ⟨mc, nd⟩ := r
  simp only at hmc
  by_cases hlen : objs.length < 2
  · simp only [hlen, if_true, hcond]
    rw [hmc, Nat.min_eq_right h]
    have : (objs.drop 2).length = 0 := by simp; omega
    simp [this]
  · simp only [hlen, if_false, hcond, if_true]
    rw [hmc, Nat.min_eq_right h]
    simp

/-- One-shot with `passed_objects = i`, `1 ≤ i ≤ hits`, on an arbitrary map: the `i`-th value. -/
theorem taikoOneShot_general (sk : Skills S) (objs : List Bool) (i : Nat) (h1 : 1 ≤ i)
    (hle : i ≤ hitsIn objs) :
    taikoOneShot sk objs i = taikoValue sk objs i := by
  rcases Nat.lt_or_ge i (hitsIn objs) with hlt | hge
  · have hcond : ¬ i ≥ (objs.filter id).length := by
      intro h; exact absurd h (by show ¬ hitsIn objs ≤ i; omega)
    have : taikoOneShot sk objs i = Old.taikoOneShot sk objs i := by
      unfold taikoOneShot Old.taikoOneShot
      simp only [hcond, if_false]
    rw [this, taikoOneShotOld_general sk objs i h1 hle]
    simp only [taikoMidValue, taikoValue, taikoPos_mid objs i (Or.inl hlt)]
  · have heq : i = hitsIn objs := by omega
    rw [taikoOneShot_ge sk objs i hge]
    simp only [taikoValue]
    have hp : taikoPos objs i = (objs.drop 2).length := by
      unfold taikoPos; rw [if_pos ⟨by omega, heq⟩]
    rw [hp, heq]

end Rosu.Gradual
