import RosuModel.Model.Skill
import RosuModel.Lemmas.StrainsVecOps

/-!
Lemmas about the section loop of `define_skill!` (`Model/Skill.lean`).
-/

namespace Rosu.Skill
open Rosu.SV

variable {T P σ σ' : Type}

/-- The part of the state that decides how many peaks exist: section end and peak count. -/
def shape (st : State T σ) : T × Nat := (st.sectionEnd, st.peaks.len)

theorem sectionLoop_shape (A : Arith T) (F : StrainFns T P σ) (F' : StrainFns T P σ')
    (o : Obj T P) : ∀ (fuel : Nat) (st : State T σ) (st' : State T σ'), shape st = shape st' →
    (sectionLoop A F o fuel st).map shape = (sectionLoop A F' o fuel st').map shape := by
  intro fuel
  induction fuel with
  | zero =>
    intro st st' h
    have h1 : st.sectionEnd = st'.sectionEnd := congrArg Prod.fst h
    simp only [sectionLoop, h1]
    split <;> simp [h]
  | succ fuel ih =>
    intro st st' h
    have h1 : st.sectionEnd = st'.sectionEnd := congrArg Prod.fst h
    have h2 : st.peaks.len = st'.peaks.len := congrArg Prod.snd h
    simp only [sectionLoop, h1]
    split
    · apply ih
      simp [shape, push_len, h2]
    · simp [h]

theorem process_shape (A : Arith T) (F : StrainFns T P σ) (F' : StrainFns T P σ') (fuel : Nat)
    (o : Obj T P) (st : State T σ) (st' : State T σ') (h : shape st = shape st') :
    (process A F fuel st o).map shape = (process A F' fuel st' o).map shape := by
  have h1 : st.sectionEnd = st'.sectionEnd := congrArg Prod.fst h
  have h2 : st.peaks.len = st'.peaks.len := congrArg Prod.snd h
  unfold process
  have key := sectionLoop_shape A F F' o fuel
    (if o.idx = 0 then { st with sectionEnd := A.ceilSec o.startTime } else st)
    (if o.idx = 0 then { st' with sectionEnd := A.ceilSec o.startTime } else st')
    (by split <;> simp [shape, h2, h1])
  simp only
  generalize sectionLoop A F o fuel _ = r at key
  generalize sectionLoop A F' o fuel _ = r' at key
  cases r <;> cases r' <;> simp_all [shape]

/-- Termination within the fuel, the final section end and the number of stored peaks do not
depend on the skill (its state type, its strain functions). -/
theorem processAll_shape (A : Arith T) (F : StrainFns T P σ) (F' : StrainFns T P σ') (fuel : Nat)
    (os : List (Obj T P)) : ∀ (st : State T σ) (st' : State T σ'), shape st = shape st' →
    (processAll A F fuel st os).map shape = (processAll A F' fuel st' os).map shape := by
  induction os with
  | nil => intro st st' h; simp [processAll, h]
  | cons o os ih =>
    intro st st' h
    have key := process_shape A F F' fuel o st st' h
    unfold processAll
    generalize process A F fuel st o = r at key
    generalize process A F' fuel st' o = r' at key
    cases r with
    | none => cases r' with
      | none => rfl
      | some b => simp at key
    | some a => cases r' with
      | none => simp at key
      | some b =>
        simp only [Option.map_some, Option.some.injEq] at key
        exact ih a b key

/-! ## monotonicity of the peak count -/

theorem sectionLoop_mono (A : Arith T) (F : StrainFns T P σ) (o : Obj T P) :
    ∀ (fuel : Nat) (s s' : State T σ), sectionLoop A F o fuel s = some s' →
    s.peaks.len ≤ s'.peaks.len := by
  intro fuel
  induction fuel with
  | zero =>
    intro s s' hs; simp only [sectionLoop] at hs
    split at hs
    · cases hs
    · cases hs; exact Nat.le_refl _
  | succ fuel ih =>
    intro s s' hs; simp only [sectionLoop] at hs
    split at hs
    · have := ih _ _ hs; simp only [push_len] at this; omega
    · cases hs; exact Nat.le_refl _

theorem process_mono (A : Arith T) (F : StrainFns T P σ) (fuel : Nat) (o : Obj T P)
    (s s' : State T σ) (h : process A F fuel s o = some s') : s.peaks.len ≤ s'.peaks.len := by
  unfold process at h
  simp only at h
  split at h
  · cases h
  · rename_i d hd
    cases h
    have h2 := sectionLoop_mono A F o _ _ _ hd
    have : (if o.idx = 0 then { s with sectionEnd := A.ceilSec o.startTime } else s).peaks.len
        = s.peaks.len := by split <;> rfl
    simp only
    omega

theorem processAll_mono (A : Arith T) (F : StrainFns T P σ) (fuel : Nat) (os : List (Obj T P)) :
    ∀ (a b : State T σ), processAll A F fuel a os = some b → a.peaks.len ≤ b.peaks.len := by
  induction os with
  | nil => intro a b hab; simp only [processAll] at hab; cases hab; exact Nat.le_refl _
  | cons o os ih =>
    intro a b hab
    unfold processAll at hab
    split at hab
    · cases hab
    · rename_i c hc
      have h1 := ih _ _ hab
      have h2 := process_mono A F fuel o _ _ hc
      omega

/-! ## well-formedness of the stored peaks -/

/-- Strain functions and `max` produce 64-bit patterns. -/
structure Bounded (A : Arith T) (F : StrainFns T P σ) : Prop where
  sv : ∀ s o, (F.strainValueAt s o).2 < TWO64
  ini : ∀ s t o, (F.initialStrain s t o).2 < TWO64
  fmax : ∀ a b, a < TWO64 → b < TWO64 → A.fmax a b < TWO64

/-- Invariant of the skill state. -/
def Good (st : State T σ) : Prop := WF st.peaks ∧ st.sectionPeak < TWO64

theorem sectionLoop_good (A : Arith T) (F : StrainFns T P σ) (hb : Bounded A F) (o : Obj T P) :
    ∀ (fuel : Nat) (st st' : State T σ), sectionLoop A F o fuel st = some st' →
    st'.peaks.len + 1 < SIGN → Good st → Good st' := by
  intro fuel
  induction fuel with
  | zero =>
    intro st st' h _ hg
    simp only [sectionLoop] at h
    split at h
    · cases h
    · cases h; exact hg
  | succ fuel ih =>
    intro st st' h hl hg
    simp only [sectionLoop] at h
    split at h
    · have hm := sectionLoop_mono A F o fuel _ _ h
      simp only [push_len] at hm
      exact ih _ _ h hl ⟨push_WF hg.1 _ hg.2 (by omega), hb.ini _ _ _⟩
    · cases h; exact hg

theorem process_good (A : Arith T) (F : StrainFns T P σ) (hb : Bounded A F) (fuel : Nat)
    (o : Obj T P) (st st' : State T σ) (h : process A F fuel st o = some st')
    (hl : st'.peaks.len + 1 < SIGN) (hg : Good st) : Good st' := by
  unfold process at h
  simp only at h
  split at h
  · cases h
  · rename_i s hs
    cases h
    have hg0 : Good (if o.idx = 0 then { st with sectionEnd := A.ceilSec o.startTime } else st) := by
      split <;> exact hg
    have h1 := sectionLoop_good A F hb o fuel _ s hs hl hg0
    exact ⟨h1.1, hb.fmax _ _ (hb.sv _ _) h1.2⟩

theorem processAll_good (A : Arith T) (F : StrainFns T P σ) (hb : Bounded A F) (fuel : Nat)
    (os : List (Obj T P)) : ∀ (st st' : State T σ), processAll A F fuel st os = some st' →
    st'.peaks.len + 1 < SIGN → Good st → Good st' := by
  induction os with
  | nil => intro st st' h _ hg; simp only [processAll] at h; cases h; exact hg
  | cons o os ih =>
    intro st st' h hl hg
    unfold processAll at h
    split at h
    · cases h
    · rename_i s hs
      have hm := processAll_mono A F fuel os s st' h
      exact ih s st' h hl (process_good A F hb fuel o st s hs (by omega) hg)

theorem init_good (zero : T) (s0 : σ) : Good (State.init zero s0) :=
  ⟨empty_WF, by simp [State.init, TWO64]⟩

/-- The exported vector of a good state has exactly `len()` elements and is what the stored
peaks (plus the open section) represent. -/
theorem exportPeaks_spec {st : State T σ} (hg : Good st) (hl : st.peaks.len + 1 < SIGN) :
    exportPeaks st = some (currentStrainPeaks st).abs ∧
    (currentStrainPeaks st).abs.length = st.peaks.len + 1 ∧
    WF (currentStrainPeaks st) := by
  have hw := push_WF hg.1 st.sectionPeak hg.2 hl
  refine ⟨intoVec_eq_abs _, ?_, hw⟩
  have := hw.lenEq
  unfold currentStrainPeaks SVec.abs at *
  rw [← this, push_len]

/-! ## exact integer instance: the loop terminates -/

theorem sectionLoop_int_terminates (L : Int) (hL : 1 ≤ L) (F : StrainFns Int P σ) (o : Obj Int P) :
    ∀ (fuel : Nat) (st : State Int σ), (o.startTime - st.sectionEnd).toNat ≤ fuel →
    (sectionLoop (intArith L) F o fuel st).isSome = true := by
  intro fuel
  induction fuel with
  | zero =>
    intro st h
    simp only [sectionLoop, intArith]
    have : ¬ (o.startTime > st.sectionEnd) := by omega
    simp [this]
  | succ fuel ih =>
    intro st h
    simp only [sectionLoop]
    split
    · apply ih
      rename_i hgt
      simp only [intArith, decide_eq_true_eq] at hgt ⊢
      omega
    · rfl

/-! ## aggregation -/

/-- `difficulty_value` sees the same terms whether it runs on the internal compact vector or on
the exported `Vec<f64>` (drop zeros, sort descending). -/
theorem dvTerms_eq_exported {sv : SVec} (h : WF sv) : dvTerms sv = dvTermsExported sv.abs := by
  unfold dvTerms dvTermsExported SVec.retainNonZeroAndSort SVec.retainNonZero SVec.sortDesc
    SVec.transmuteIntoVec SVec.abs
  simp only
  rw [filter_isValue_eq_filter_abs h.entries]

theorem dvTermsOsu_eq_exported {sv : SVec} (h : WF sv) (f : Nat → Nat → Nat) (k : Nat) :
    dvTermsOsu f k sv = dvTermsOsuExported f k sv.abs := by
  unfold dvTermsOsu dvTermsOsuExported SVec.sortedNonZeroUpdate
  simp only
  have := dvTerms_eq_exported h
  unfold dvTerms SVec.transmuteIntoVec at this
  unfold SVec.sortDesc SVec.transmuteIntoVec
  simp only
  rw [this]

theorem sumTerms_eq_exported {sv : SVec} (h : WF sv) :
    sv.sumTerms = sv.abs.filter nonZeroBits := by
  unfold SVec.sumTerms SVec.abs
  exact filter_isValue_eq_filter_abs h.entries

/-- Adding `+0.0` terms does not change a left fold whose step ignores `+0.0`. -/
theorem foldl_filter_zero {α : Type} (add : α → Nat → α) (h0 : ∀ a, add a 0 = a) (l : List Nat) :
    ∀ z, (l.filter nonZeroBits).foldl add z = l.foldl add z := by
  induction l with
  | nil => intro z; rfl
  | cons b l ih =>
    intro z
    by_cases hb : b = 0
    · subst hb
      rw [List.filter_cons_of_neg (by simp [nonZeroBits]), List.foldl_cons, h0]; exact ih z
    · rw [List.filter_cons_of_pos (by simp [nonZeroBits, hb]), List.foldl_cons, List.foldl_cons]
      exact ih _

end Rosu.Skill
