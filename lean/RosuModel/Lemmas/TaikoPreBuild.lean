import RosuModel.Model.TaikoPre

/-!
Lemmas about the object-construction part of `Model/TaikoPre.lean`: `newObj` / `buildLoop` / `build`
never fail, and the store they produce is well formed (`Store.WF`): every pointer in the index
vectors is a valid position, `objects[k].idx = k`, the note vector is strictly increasing and
`note_idx` is the position in it.
-/

namespace Rosu.TaikoPre

variable {T : Type}

/-- Well-formedness of a `TaikoDifficultyObjects` store. -/
structure Store.WF (st : Store T) : Prop where
  notes_lt : ∀ p ∈ st.notes, p < st.objects.length
  centres_lt : ∀ p ∈ st.centres, p < st.objects.length
  rims_lt : ∀ p ∈ st.rims, p < st.objects.length
  idx_eq : ∀ k (o : DObj T), st.objects[k]? = some o → o.idx = k
  notes_sorted : st.notes.Pairwise (· < ·)
  /-- the `k`-th note has `note_idx = k` and is a hit -/
  note_back : ∀ k p, st.notes[k]? = some p →
    ∃ o : DObj T, st.objects[p]? = some o ∧ o.noteIdx = k ∧ o.kind.isHit = true
  /-- every hit is in the note vector at position `note_idx`; a non-hit has `note_idx = 0` -/
  note_fwd : ∀ p (o : DObj T), st.objects[p]? = some o →
    (o.kind.isHit = true → st.notes[o.noteIdx]? = some p) ∧ (o.kind.isHit = false → o.noteIdx = 0)

theorem Store.WF.empty : (({} : Store T)).WF where
  notes_lt := by intro p h; cases h
  centres_lt := by intro p h; cases h
  rims_lt := by intro p h; cases h
  idx_eq := by intro k o h; simp at h
  notes_sorted := List.Pairwise.nil
  note_back := by intro k p h; simp at h
  note_fwd := by intro p o h; simp at h

theorem lt_of_getElem?_eq_some {α : Type} {l : List α} {k : Nat} {a : α} (h : l[k]? = some a) :
    k < l.length := (List.getElem?_eq_some_iff.mp h).1

theorem closestRatio_isSome (A : Arith T) (x : T) : ∃ r, closestRatio A x = some r := by
  simp [closestRatio, commonRatios]

theorem rhythmRatio_isSome (A : Arith T) (d : T) (p : Option T) : ∃ r, rhythmRatio A d p = some r := by
  cases p with
  | none => exact ⟨_, rfl⟩
  | some v => exact closestRatio_isSome A _

/-- The object `newObj` appends, given the ratio it computed. -/
def mkObj (A : Arith T) (clock : T) (st : Store T) (i : Nat) (curr last : Obj T) (ratio : T) : DObj T :=
  ⟨i, A.div (A.sub curr.time last.time) clock, A.div curr.time clock, curr.kind,
    match curr.kind with
    | .centre => MonoIdx.centre st.centres.length
    | .rim => MonoIdx.rim st.rims.length
    | .nonhit => MonoIdx.none,
    if curr.kind.isHit then st.notes.length else 0, ratio⟩

/-- The store after `newObj`. -/
def pushObj (st : Store T) (o : DObj T) : Store T :=
  let p := st.objects.length
  { objects := st.objects ++ [o]
    centres := if o.kind = .centre then st.centres ++ [p] else st.centres
    rims := if o.kind = .rim then st.rims ++ [p] else st.rims
    notes := if o.kind.isHit then st.notes ++ [p] else st.notes }

/-- `TaikoDifficultyObject::new` never fails when called with `idx = objects.len()` (the
`objects.objects[idx - 1]` index is valid). -/
theorem newObj_spec (A : Arith T) (clock : T) (st : Store T) (i : Nat) (curr last : Obj T)
    (hlen : st.objects.length = i) :
    ∃ ratio, newObj A clock st i curr last = some (pushObj st (mkObj A clock st i curr last ratio)) := by
  cases i with
  | zero =>
    obtain ⟨r, hr⟩ := rhythmRatio_isSome A (A.div (A.sub curr.time last.time) clock) none
    refine ⟨r, ?_⟩
    simp only [newObj, hr, Option.bind_eq_bind, Option.bind_some, pushObj, mkObj, hlen]
    rfl
  | succ j =>
    have hj : j < st.objects.length := by omega
    obtain ⟨r, hr⟩ := rhythmRatio_isSome A (A.div (A.sub curr.time last.time) clock)
      (some (st.objects[j]).delta)
    refine ⟨r, ?_⟩
    simp only [newObj, List.getElem?_eq_getElem hj, Option.map_some, hr, Option.bind_eq_bind,
      Option.bind_some, pushObj, mkObj, hlen]
    rfl

theorem pushObj_wf (st : Store T) (o : DObj T) (h : st.WF)
    (hidx : o.idx = st.objects.length)
    (hnote : o.noteIdx = if o.kind.isHit then st.notes.length else 0) : (pushObj st o).WF := by
  have hlen : (pushObj st o).objects.length = st.objects.length + 1 := by simp [pushObj]
  have hget : ∀ p, p < st.objects.length → (pushObj st o).objects[p]? = st.objects[p]? := by
    intro p hp; simp [pushObj, List.getElem?_append_left hp]
  have hlast : (pushObj st o).objects[st.objects.length]? = some o := by simp [pushObj]
  constructor
  · intro p hp
    rw [hlen]
    by_cases hk : o.kind.isHit = true
    · simp only [pushObj, hk, if_true, List.mem_append, List.mem_singleton] at hp
      rcases hp with hp | hp
      · have := h.notes_lt p hp; omega
      · omega
    · simp only [pushObj, hk, if_false] at hp
      have := h.notes_lt p hp; omega
  · intro p hp
    rw [hlen]
    by_cases hk : o.kind = .centre
    · simp only [pushObj, hk, if_true, List.mem_append, List.mem_singleton] at hp
      rcases hp with hp | hp
      · have := h.centres_lt p hp; omega
      · omega
    · simp only [pushObj, hk, if_false] at hp
      have := h.centres_lt p hp; omega
  · intro p hp
    rw [hlen]
    by_cases hk : o.kind = .rim
    · simp only [pushObj, hk, if_true, List.mem_append, List.mem_singleton] at hp
      rcases hp with hp | hp
      · have := h.rims_lt p hp; omega
      · omega
    · simp only [pushObj, hk, if_false] at hp
      have := h.rims_lt p hp; omega
  · intro k o' hk
    by_cases hlt : k < st.objects.length
    · rw [hget k hlt] at hk; exact h.idx_eq k o' hk
    · have hk' : k < (pushObj st o).objects.length := lt_of_getElem?_eq_some hk
      have : k = st.objects.length := by omega
      subst this
      rw [hlast] at hk; cases hk; exact hidx
  · by_cases hk : o.kind.isHit = true
    · simp only [pushObj, hk, if_true]
      rw [List.pairwise_append]
      refine ⟨h.notes_sorted, List.pairwise_singleton _ _, ?_⟩
      intro a ha b hb
      simp only [List.mem_singleton] at hb
      subst hb
      exact h.notes_lt a ha
    · simp only [pushObj, hk, if_false]; exact h.notes_sorted
  · intro k p hkp
    by_cases hk : o.kind.isHit = true
    · have hnotes : (pushObj st o).notes = st.notes ++ [st.objects.length] := by simp [pushObj, hk]
      rw [hnotes] at hkp
      by_cases hlt : k < st.notes.length
      · rw [List.getElem?_append_left hlt] at hkp
        obtain ⟨o', ho', h1, h2⟩ := h.note_back k p hkp
        have hp : p < st.objects.length := h.notes_lt p (List.mem_of_getElem? hkp)
        exact ⟨o', by rw [hget p hp]; exact ho', h1, h2⟩
      · have hk' : k = st.notes.length := by
          have := lt_of_getElem?_eq_some hkp
          simp at this; omega
        subst hk'
        simp at hkp
        subst hkp
        exact ⟨o, hlast, by rw [hnote, hk]; simp, hk⟩
    · have hnotes : (pushObj st o).notes = st.notes := by simp [pushObj, hk]
      rw [hnotes] at hkp
      obtain ⟨o', ho', h1, h2⟩ := h.note_back k p hkp
      have hp : p < st.objects.length := h.notes_lt p (List.mem_of_getElem? hkp)
      exact ⟨o', by rw [hget p hp]; exact ho', h1, h2⟩
  · intro p o' hp
    by_cases hlt : p < st.objects.length
    · rw [hget p hlt] at hp
      obtain ⟨h1, h2⟩ := h.note_fwd p o' hp
      refine ⟨?_, h2⟩
      intro hh
      have := h1 hh
      have hlt' : o'.noteIdx < st.notes.length := lt_of_getElem?_eq_some this
      by_cases hk : o.kind.isHit = true
      · simp only [pushObj, hk, if_true]; rw [List.getElem?_append_left hlt']; exact this
      · simp only [pushObj, hk, if_false]; exact this
    · have hp' : p < (pushObj st o).objects.length := lt_of_getElem?_eq_some hp
      have : p = st.objects.length := by omega
      subst this
      rw [hlast] at hp; cases hp
      constructor
      · intro hh
        simp only [pushObj, hh, if_true]
        rw [hnote, hh]; simp
      · intro hh
        rw [hnote, hh]; simp

theorem mkObj_idx (A : Arith T) (clock : T) (st : Store T) (i : Nat) (curr last : Obj T) (r : T) :
    (mkObj A clock st i curr last r).idx = i := rfl

theorem mkObj_kind (A : Arith T) (clock : T) (st : Store T) (i : Nat) (curr last : Obj T) (r : T) :
    (mkObj A clock st i curr last r).kind = curr.kind := rfl

/-- The construction loop never fails and keeps the store well formed; it appends one object per
remaining hit object. -/
theorem buildLoop_spec (A : Arith T) (clock : T) :
    ∀ (rest : List (Obj T)) (last : Obj T) (i : Nat) (st : Store T),
      st.WF → st.objects.length = i →
      ∃ st', buildLoop A clock rest last i st = some st' ∧ st'.WF ∧
        st'.objects.length = i + rest.length ∧
        st'.objects.map (·.kind) = st.objects.map (·.kind) ++ rest.map (·.kind) := by
  intro rest
  induction rest with
  | nil => intro last i st h hl; exact ⟨st, rfl, h, by simpa using hl, by simp⟩
  | cons curr rest ih =>
    intro last i st h hl
    obtain ⟨r, hr⟩ := newObj_spec A clock st i curr last hl
    have hwf : (pushObj st (mkObj A clock st i curr last r)).WF :=
      pushObj_wf st _ h (by rw [mkObj_idx, hl]) rfl
    have hl' : (pushObj st (mkObj A clock st i curr last r)).objects.length = i + 1 := by
      simp [pushObj, hl]
    obtain ⟨st', h1, h2, h3, h4⟩ := ih curr (i + 1) _ hwf hl'
    refine ⟨st', ?_, h2, ?_, ?_⟩
    · simp only [buildLoop, hr, Option.bind_eq_bind, Option.bind_some]; exact h1
    · rw [h3]; simp; omega
    · rw [h4]; simp [pushObj, mkObj]

/-- `create_difficulty_objects`' construction part never fails (in particular `len - 2` does not
underflow: it is only evaluated when a second object exists) and yields a well-formed store with
one difficulty object per hit object after the second. -/
theorem build_spec (A : Arith T) (clock : T) (objs : List (Obj T)) :
    ∃ st, build A clock objs = some st ∧ st.WF ∧ st.objects.length = objs.length - 2 ∧
      st.objects.map (·.kind) = (objs.drop 2).map (·.kind) := by
  match objs with
  | [] => exact ⟨{}, rfl, Store.WF.empty, rfl, rfl⟩
  | [_] => exact ⟨{}, rfl, Store.WF.empty, rfl, rfl⟩
  | a :: last :: rest =>
    obtain ⟨st', h1, h2, h3, h4⟩ := buildLoop_spec A clock rest last 0 {} Store.WF.empty rfl
    refine ⟨st', ?_, h2, ?_, ?_⟩
    · simp only [build, csub, List.length_cons]
      rw [if_pos (by omega)]
      simpa using h1
    · simp [h3]
    · simpa using h4

end Rosu.TaikoPre
