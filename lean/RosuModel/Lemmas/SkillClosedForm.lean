import RosuModel.Lemmas.Skill
import Mathlib.Tactic.Linarith
import Mathlib.Tactic.Ring

/-!
Closed form of the number of strain sections for exact integer times
(`intArith L`, `L ≥ 1`): `1 + (max_i ⌈t_i / L⌉ − ⌈t_0 / L⌉)`.
-/

namespace Rosu.Skill
open Rosu.SV

variable {P σ : Type}

/-- `⌈t / L⌉` for `L > 0` -/
def ceilDiv (L t : Int) : Int := -((-t) / L)

theorem ceilSec_eq (L t : Int) : (intArith L).ceilSec t = L * ceilDiv L t := by
  show t + (-t) % L = L * -((-t) / L)
  rw [Int.emod_def]; ring

/-- `t > L·m ↔ ⌈t/L⌉ > m` -/
theorem gt_mul_iff (L t m : Int) (hL : 0 < L) : t > L * m ↔ ceilDiv L t > m := by
  unfold ceilDiv
  have h1 : 0 ≤ (-t) % L := Int.emod_nonneg _ (by omega)
  have h2 : (-t) % L < L := Int.emod_lt_of_pos _ hL
  have h3 : (-t) % L = -t - L * ((-t) / L) := Int.emod_def _ _
  constructor
  · intro h
    by_contra hc
    have : -((-t) / L) - m ≤ 0 := by omega
    nlinarith
  · intro h
    have : 1 ≤ -((-t) / L) - m := by omega
    nlinarith

/-- The section loop started at a section boundary `L·m`: it stops at
`L·max(m, ⌈t/L⌉)` after `max(m, ⌈t/L⌉) − m` pushes. -/
theorem sectionLoop_int_closed (L : Int) (hL : 0 < L) (F : StrainFns Int P σ) (o : Obj Int P) :
    ∀ (fuel : Nat) (st : State Int σ) (m : Int), st.sectionEnd = L * m →
    (max m (ceilDiv L o.startTime) - m).toNat ≤ fuel →
    ∃ st', sectionLoop (intArith L) F o fuel st = some st' ∧
      st'.sectionEnd = L * max m (ceilDiv L o.startTime) ∧
      st'.peaks.len = st.peaks.len + (max m (ceilDiv L o.startTime) - m).toNat := by
  intro fuel
  induction fuel with
  | zero =>
    intro st m he hf
    have hk : ceilDiv L o.startTime ≤ m := by omega
    have hng : ¬ (o.startTime > L * m) := by rw [gt_mul_iff L _ m hL]; omega
    refine ⟨st, ?_, ?_, ?_⟩
    · simp only [sectionLoop, intArith, he, decide_eq_true_eq, if_neg hng]
    · rw [he, max_eq_left hk]
    · rw [max_eq_left hk]; simp
  | succ fuel ih =>
    intro st m he hf
    by_cases hgt : o.startTime > L * m
    · have hk : ceilDiv L o.startTime > m := (gt_mul_iff L _ m hL).mp hgt
      let st1 : State Int σ :=
        { st with sk := (F.initialStrain st.sk st.sectionEnd o).1,
                  sectionPeak := (F.initialStrain st.sk st.sectionEnd o).2,
                  sectionEnd := (intArith L).addSec st.sectionEnd,
                  peaks := st.peaks.push st.sectionPeak }
      have hstep : sectionLoop (intArith L) F o (fuel + 1) st
          = sectionLoop (intArith L) F o fuel st1 := by
        simp only [sectionLoop, intArith, he, decide_eq_true_eq, if_pos hgt, st1]
      have he1 : st1.sectionEnd = L * (m + 1) := by
        show st.sectionEnd + L = L * (m + 1)
        rw [he]; ring
      have hl1 : st1.peaks.len = st.peaks.len + 1 := push_len _ _
      obtain ⟨st', h1, h2, h3⟩ := ih st1 (m + 1) he1
        (by rw [max_eq_right (by omega : m + 1 ≤ ceilDiv L o.startTime)]
            rw [max_eq_right (by omega : m ≤ ceilDiv L o.startTime)] at hf
            omega)
      refine ⟨st', by rw [hstep]; exact h1, ?_, ?_⟩
      · rw [h2, max_eq_right (by omega : m + 1 ≤ ceilDiv L o.startTime),
          max_eq_right (by omega : m ≤ ceilDiv L o.startTime)]
      · rw [h3, max_eq_right (by omega : m + 1 ≤ ceilDiv L o.startTime),
          max_eq_right (by omega : m ≤ ceilDiv L o.startTime)]
        rw [hl1]; omega
    · have hk : ceilDiv L o.startTime ≤ m := by
        have := (gt_mul_iff L o.startTime m hL).not.mp hgt; omega
      refine ⟨st, ?_, ?_, ?_⟩
      · simp only [sectionLoop, intArith, he, decide_eq_true_eq, if_neg hgt]
      · rw [he, max_eq_left hk]
      · rw [max_eq_left hk]; simp

/-- `⌈t₀/L⌉` followed by the running maximum over the later objects. -/
def maxCeil (L : Int) (m : Int) (os : List (Obj Int P)) : Int :=
  os.foldl (fun acc o => max acc (ceilDiv L o.startTime)) m

theorem le_maxCeil (L m : Int) (os : List (Obj Int P)) : m ≤ maxCeil L m os := by
  induction os generalizing m with
  | nil => exact Int.le_refl _
  | cons o os ih =>
    show m ≤ maxCeil L (max m (ceilDiv L o.startTime)) os
    exact Int.le_trans (Int.le_max_left _ _) (ih _)

/-- Objects after the first (none has `idx = 0`), starting from a boundary `L·m`. -/
theorem processAll_int_closed (L : Int) (hL : 0 < L) (F : StrainFns Int P σ) (fuel : Nat)
    (os : List (Obj Int P)) : ∀ (st : State Int σ) (m : Int), st.sectionEnd = L * m →
    (∀ o ∈ os, o.idx ≠ 0) → (maxCeil L m os - m).toNat ≤ fuel →
    ∃ st', processAll (intArith L) F fuel st os = some st' ∧
      st'.sectionEnd = L * maxCeil L m os ∧
      st'.peaks.len = st.peaks.len + (maxCeil L m os - m).toNat := by
  induction os with
  | nil => intro st m he _ _; exact ⟨st, rfl, by simpa [maxCeil] using he, by simp [maxCeil]⟩
  | cons o os ih =>
    intro st m he hidx hf
    have hi : o.idx ≠ 0 := hidx o (by simp)
    have hm1 : max m (ceilDiv L o.startTime) ≤ maxCeil L m (o :: os) := le_maxCeil L _ os
    have hm0 : m ≤ max m (ceilDiv L o.startTime) := Int.le_max_left _ _
    obtain ⟨s1, h1, h2, h3⟩ := sectionLoop_int_closed L hL F o fuel st m he (by omega)
    -- one `process` step
    have hp : ∃ s2, process (intArith L) F fuel st o = some s2 ∧
        s2.sectionEnd = s1.sectionEnd ∧ s2.peaks.len = s1.peaks.len := by
      unfold process
      simp only [if_neg hi, h1]
      exact ⟨_, rfl, rfl, rfl⟩
    obtain ⟨s2, hp1, hp2, hp3⟩ := hp
    obtain ⟨st', g1, g2, g3⟩ := ih s2 (max m (ceilDiv L o.startTime)) (by rw [hp2, h2])
      (fun x hx => hidx x (by simp [hx]))
      (by show (maxCeil L m (o :: os) - _).toNat ≤ fuel; omega)
    refine ⟨st', ?_, g2, ?_⟩
    · unfold processAll; rw [hp1]; exact g1
    · rw [g3, hp3, h3]
      show _ = st.peaks.len + (maxCeil L m (o :: os) - m).toNat
      have : maxCeil L (max m (ceilDiv L o.startTime)) os = maxCeil L m (o :: os) := rfl
      rw [this]; omega

/-- A whole run: first object has `idx = 0`, no later object has; the number of stored peaks is
`max_i ⌈t_i/L⌉ − ⌈t_0/L⌉`, the final section end `L · max_i ⌈t_i/L⌉`. -/
theorem processAll_int_from_init (L : Int) (hL : 0 < L) (F : StrainFns Int P σ) (fuel : Nat)
    (s0 : σ) (o0 : Obj Int P) (os : List (Obj Int P)) (h0 : o0.idx = 0)
    (hidx : ∀ o ∈ os, o.idx ≠ 0)
    (hf : (maxCeil L (ceilDiv L o0.startTime) os - ceilDiv L o0.startTime).toNat ≤ fuel) :
    ∃ st, processAll (intArith L) F fuel (State.init 0 s0) (o0 :: os) = some st ∧
      st.sectionEnd = L * maxCeil L (ceilDiv L o0.startTime) os ∧
      st.peaks.len = (maxCeil L (ceilDiv L o0.startTime) os - ceilDiv L o0.startTime).toNat := by
  let k0 := ceilDiv L o0.startTime
  let stA : State Int σ := { State.init 0 s0 with sectionEnd := (intArith L).ceilSec o0.startTime }
  obtain ⟨s1, h1, h2, h3⟩ := sectionLoop_int_closed L hL F o0 fuel stA k0 (ceilSec_eq L _)
    (by simp [k0])
  have hp : ∃ s2, process (intArith L) F fuel (State.init 0 s0) o0 = some s2 ∧
      s2.sectionEnd = s1.sectionEnd ∧ s2.peaks.len = s1.peaks.len := by
    unfold process
    simp only [if_pos h0]
    split
    · rename_i heq
      have : sectionLoop (intArith L) F o0 fuel stA = none := heq
      rw [h1] at this; cases this
    · rename_i s heq
      have : sectionLoop (intArith L) F o0 fuel stA = some s := heq
      rw [h1] at this
      cases this
      exact ⟨_, rfl, rfl, rfl⟩
  obtain ⟨s2, hp1, hp2, hp3⟩ := hp
  have hk : max k0 (ceilDiv L o0.startTime) = k0 := by simp [k0]
  obtain ⟨st, g1, g2, g3⟩ := processAll_int_closed L hL F fuel os s2 k0
    (by rw [hp2, h2, hk]) hidx hf
  refine ⟨st, ?_, g2, ?_⟩
  · unfold processAll; rw [hp1]; exact g1
  · rw [g3, hp3, h3, hk]
    have : stA.peaks.len = 0 := rfl
    rw [this]
    show 0 + (k0 - k0).toNat + (maxCeil L k0 os - k0).toNat = (maxCeil L k0 os - k0).toNat
    simp

end Rosu.Skill
