import RosuModel.Lemmas.FiniteAcc
import Mathlib.Data.List.Forall2

/-! Lemmas for C09: `difficulty_value`, `count_top_weighted_strains`, the piecewise-rational
helpers and the Wilson lower bound. -/
namespace Rosu.Finite

/-! ### sorting -/

theorem mem_insertDesc (x y : Rat) (l : List Rat) : y ∈ insertDesc x l ↔ y = x ∨ y ∈ l := by
  induction l with
  | nil => simp [insertDesc]
  | cons z zs ih =>
    unfold insertDesc
    split_ifs
    · simp
    · simp only [List.mem_cons, ih]; tauto

theorem mem_sortDesc (y : Rat) (l : List Rat) : y ∈ sortDesc l ↔ y ∈ l := by
  induction l with
  | nil => simp [sortDesc]
  | cons z zs ih => simp only [sortDesc, mem_insertDesc, ih, List.mem_cons]

theorem length_insertDesc (x : Rat) (l : List Rat) : (insertDesc x l).length = l.length + 1 := by
  induction l with
  | nil => rfl
  | cons z zs ih => unfold insertDesc; split_ifs <;> simp [ih]

theorem length_sortDesc (l : List Rat) : (sortDesc l).length = l.length := by
  induction l with
  | nil => rfl
  | cons z zs ih => simp [sortDesc, length_insertDesc, ih]

/-- descending chain -/
def Desc : List Rat → Prop
  | [] => True
  | [_] => True
  | a :: b :: t => b ≤ a ∧ Desc (b :: t)

theorem Desc.tail {a : Rat} {t : List Rat} (h : Desc (a :: t)) : Desc t := by
  cases t with
  | nil => trivial
  | cons b t => exact h.2

theorem desc_insertDesc (x : Rat) (l : List Rat) (h : Desc l) : Desc (insertDesc x l) := by
  induction l with
  | nil => trivial
  | cons y ys ih =>
    unfold insertDesc
    split_ifs with hyx
    · exact ⟨hyx, h⟩
    · have hxy : x ≤ y := le_of_lt (lt_of_not_ge hyx)
      cases ys with
      | nil => exact ⟨hxy, trivial⟩
      | cons z zs =>
        have ih' := ih h.2
        unfold insertDesc at ih' ⊢
        split_ifs at ih' ⊢ with hzx
        · exact ⟨hxy, ih'⟩
        · exact ⟨h.1, ih'⟩

theorem desc_sortDesc (l : List Rat) : Desc (sortDesc l) := by
  induction l with
  | nil => trivial
  | cons x xs ih => exact desc_insertDesc x _ ih

/-! ### pointwise domination survives sorting (k-th largest is monotone in every entry) -/

theorem dom_L1 : ∀ (t' t : List Rat) (h x' : Rat), Desc (h :: t) → h ≤ x' → List.Forall₂ (· ≤ ·) t t' →
    List.Forall₂ (· ≤ ·) (h :: t) (insertDesc x' t') := by
  intro t'
  induction t' with
  | nil =>
    intro t h x' _ hx hf
    cases hf
    exact List.Forall₂.cons hx List.Forall₂.nil
  | cons y' ys' ih =>
    intro t h x' hd hx hf
    cases hf with
    | cons hy hrest =>
      rename_i y ys
      unfold insertDesc
      split_ifs with c
      · exact List.Forall₂.cons hx (List.Forall₂.cons hy hrest)
      · have hlt : x' < y' := lt_of_not_ge c
        refine List.Forall₂.cons (le_of_lt (lt_of_le_of_lt hx hlt)) ?_
        exact ih ys y x' hd.2 (le_trans hd.1 hx) hrest

theorem dom_L2 : ∀ (t t' : List Rat) (x h' : Rat), Desc (h' :: t') → x ≤ h' → List.Forall₂ (· ≤ ·) t t' →
    List.Forall₂ (· ≤ ·) (insertDesc x t) (h' :: t') := by
  intro t
  induction t with
  | nil =>
    intro t' x h' _ hx hf
    cases hf
    exact List.Forall₂.cons hx List.Forall₂.nil
  | cons y ys ih =>
    intro t' x h' hd hx hf
    cases hf with
    | cons hy hrest =>
      rename_i y' ys'
      unfold insertDesc
      split_ifs with c
      · exact List.Forall₂.cons hx (List.Forall₂.cons hy hrest)
      · have hlt : x < y := lt_of_not_ge c
        refine List.Forall₂.cons (le_trans hy hd.1) ?_
        exact ih ys' x y' hd.2 (le_trans (le_of_lt hlt) hy) hrest

theorem insert_dom : ∀ (a b : List Rat) (x x' : Rat), Desc a → Desc b → List.Forall₂ (· ≤ ·) a b → x ≤ x' →
    List.Forall₂ (· ≤ ·) (insertDesc x a) (insertDesc x' b) := by
  intro a
  induction a with
  | nil =>
    intro b x x' _ _ hf hx
    cases hf
    exact List.Forall₂.cons hx List.Forall₂.nil
  | cons y ys ih =>
    intro b x x' ha hb hf hx
    cases hf with
    | cons hy hrest =>
      rename_i y' ys'
      unfold insertDesc
      split_ifs with c1 c2 c2
      · exact List.Forall₂.cons hx (List.Forall₂.cons hy hrest)
      · have hlt : x' < y' := lt_of_not_ge c2
        refine List.Forall₂.cons (le_of_lt (lt_of_le_of_lt hx hlt)) ?_
        exact dom_L1 ys' ys y x' ha (le_trans c1 hx) hrest
      · have hlt : x < y := lt_of_not_ge c1
        refine List.Forall₂.cons (le_trans hy c2) ?_
        exact dom_L2 ys ys' x y' hb (le_trans (le_of_lt hlt) hy) hrest
      · exact List.Forall₂.cons hy (ih ys' x x' ha.tail hb.tail hrest hx)

theorem sort_dom {l l' : List Rat} (h : List.Forall₂ (· ≤ ·) l l') :
    List.Forall₂ (· ≤ ·) (sortDesc l) (sortDesc l') := by
  induction h with
  | nil => exact List.Forall₂.nil
  | cons hx _ ih => exact insert_dom _ _ _ _ (desc_sortDesc _) (desc_sortDesc _) ih hx

/-! ### the weighted sum -/

theorem weightedSum_nonneg (w : Rat) (hw : 0 ≤ w) : ∀ (l : List Rat) (wt : Rat), 0 ≤ wt → (∀ x ∈ l, 0 ≤ x) →
    0 ≤ weightedSum w wt l := by
  intro l
  induction l with
  | nil => intro wt _ _; exact le_refl _
  | cons s ss ih =>
    intro wt hwt hl
    unfold weightedSum
    have h1 : 0 ≤ s := hl s (List.mem_cons_self)
    have h2 := ih (wt * w) (mul_nonneg hwt hw) (fun x hx => hl x (List.mem_cons_of_mem _ hx))
    have h3 : 0 ≤ s * wt := mul_nonneg h1 hwt
    linarith

theorem weightedSum_mono (w : Rat) (hw : 0 ≤ w) {a b : List Rat} (h : List.Forall₂ (· ≤ ·) a b) :
    ∀ wt, 0 ≤ wt → weightedSum w wt a ≤ weightedSum w wt b := by
  induction h with
  | nil => intro wt _; exact le_refl _
  | cons hx _ ih =>
    intro wt hwt
    unfold weightedSum
    have h1 := ih (wt * w) (mul_nonneg hwt hw)
    have h2 := mul_le_mul_of_nonneg_right hx hwt
    linarith

theorem weightedSum_append_zeros (w : Rat) (k : Nat) : ∀ (l : List Rat) (wt : Rat),
    weightedSum w wt (l ++ List.replicate k 0) = weightedSum w wt l := by
  intro l
  induction l with
  | nil =>
    intro wt
    induction k generalizing wt with
    | zero => rfl
    | succ k ih =>
      simp only [List.nil_append, List.replicate_succ] at ih ⊢
      unfold weightedSum
      rw [ih (wt * w)]; simp [weightedSum]
  | cons s ss ih =>
    intro wt
    simp only [List.cons_append]
    unfold weightedSum
    rw [ih]

theorem weightedSum_le_geom (w M : Rat) (hw0 : 0 ≤ w) (hw1 : w < 1) (hM : 0 ≤ M) :
    ∀ (l : List Rat) (wt : Rat), 0 ≤ wt → (∀ x ∈ l, x ≤ M) → weightedSum w wt l ≤ M * wt / (1 - w) := by
  have h1w : 0 < 1 - w := by linarith
  intro l
  induction l with
  | nil =>
    intro wt hwt _
    unfold weightedSum
    exact div_nonneg (mul_nonneg hM hwt) h1w.le
  | cons s ss ih =>
    intro wt hwt hl
    unfold weightedSum
    have hs : s ≤ M := hl s (List.mem_cons_self)
    have h2 := ih (wt * w) (mul_nonneg hwt hw0) (fun x hx => hl x (List.mem_cons_of_mem _ hx))
    have h3 : s * wt ≤ M * wt := mul_le_mul_of_nonneg_right hs hwt
    have e : M * wt / (1 - w) = M * wt + M * (wt * w) / (1 - w) := by
      field_simp; ring
    rw [e]; linarith

/-! ### zeros sort to the end and contribute nothing -/

theorem insertDesc_pos_append_zeros (x : Rat) (hx : 0 < x) (k : Nat) : ∀ A : List Rat,
    insertDesc x (A ++ List.replicate k 0) = insertDesc x A ++ List.replicate k 0 := by
  intro A
  induction A with
  | nil =>
    cases k with
    | zero => rfl
    | succ k =>
      simp only [List.nil_append, List.replicate_succ, insertDesc, if_pos hx.le, List.cons_append]
  | cons y ys ih =>
    simp only [List.cons_append]
    unfold insertDesc
    split_ifs
    · rfl
    · rw [ih]; rfl

theorem insertDesc_zero_append_zeros (k : Nat) : ∀ A : List Rat, (∀ y ∈ A, 0 < y) →
    insertDesc 0 (A ++ List.replicate k 0) = A ++ List.replicate (k + 1) 0 := by
  intro A
  induction A with
  | nil =>
    intro _
    cases k with
    | zero => rfl
    | succ k =>
      simp only [List.nil_append, List.replicate_succ, insertDesc, le_refl, if_true]
  | cons y ys ih =>
    intro hA
    have hy : 0 < y := hA y (List.mem_cons_self)
    simp only [List.cons_append]
    unfold insertDesc
    rw [if_neg (not_le.mpr hy), ih (fun z hz => hA z (List.mem_cons_of_mem _ hz))]

theorem sortDesc_split (l : List Rat) (hl : ∀ x ∈ l, 0 ≤ x) :
    ∃ k, sortDesc l = sortDesc (l.filter (· ≠ 0)) ++ List.replicate k 0 := by
  induction l with
  | nil => exact ⟨0, rfl⟩
  | cons x xs ih =>
    obtain ⟨k, hk⟩ := ih (fun y hy => hl y (List.mem_cons_of_mem _ hy))
    have hx : 0 ≤ x := hl x (List.mem_cons_self)
    by_cases h0 : x = 0
    · refine ⟨k + 1, ?_⟩
      have hf : (x :: xs).filter (· ≠ 0) = xs.filter (· ≠ 0) := by simp [h0]
      rw [hf]
      show insertDesc x (sortDesc xs) = _
      rw [hk, h0]
      apply insertDesc_zero_append_zeros
      intro y hy
      rw [mem_sortDesc] at hy
      have hy' := List.mem_filter.mp hy
      have : 0 ≤ y := hl y (List.mem_cons_of_mem _ hy'.1)
      have hne : y ≠ 0 := by simpa using hy'.2
      exact lt_of_le_of_ne this (Ne.symm hne)
    · refine ⟨k, ?_⟩
      have hf : (x :: xs).filter (· ≠ 0) = x :: xs.filter (· ≠ 0) := by simp [h0]
      rw [hf]
      show insertDesc x (sortDesc xs) = insertDesc x (sortDesc (xs.filter (· ≠ 0))) ++ _
      rw [hk]
      exact insertDesc_pos_append_zeros x (lt_of_le_of_ne hx (Ne.symm h0)) k _

/-- for non-negative peaks the zero filter does not change the value -/
theorem dv_eq_unfiltered (w : Rat) (l : List Rat) (hl : ∀ x ∈ l, 0 ≤ x) :
    difficultyValue w l = weightedSum w 1 (sortDesc l) := by
  obtain ⟨k, hk⟩ := sortDesc_split l hl
  unfold difficultyValue
  rw [hk, weightedSum_append_zeros]

theorem forall2_nonneg {l l' : List Rat} (h : List.Forall₂ (· ≤ ·) l l') : (∀ x ∈ l, 0 ≤ x) → ∀ y ∈ l', 0 ≤ y := by
  induction h with
  | nil => intro _ y hy; cases hy
  | cons hab _ ih =>
    intro hl y hy
    rcases List.mem_cons.mp hy with e | e
    · rw [e]; exact le_trans (hl _ List.mem_cons_self) hab
    · exact ih (fun x hx => hl x (List.mem_cons_of_mem _ hx)) y e

/-! ### `count_top_weighted_strains` -/

theorem sumOptL_map_bounds (f : Rat → Option Rat) (c : Rat) : ∀ (l : List Rat) (acc : Rat),
    (∀ s ∈ l, ∃ v, f s = some v ∧ 0 ≤ v ∧ v ≤ c) →
    ∃ r, sumOptL (· + ·) acc (l.map f) = some r ∧ acc ≤ r ∧ r ≤ acc + c * (l.length : Rat) := by
  intro l
  induction l with
  | nil => intro acc _; exact ⟨acc, rfl, le_refl _, by simp⟩
  | cons s ss ih =>
    intro acc h
    obtain ⟨v, hv, hv0, hvc⟩ := h s (List.mem_cons_self)
    obtain ⟨r, hr, hr0, hrc⟩ := ih (acc + v) (fun x hx => h x (List.mem_cons_of_mem _ hx))
    refine ⟨r, ?_, by linarith, ?_⟩
    · simp only [List.map_cons, hv, sumOptL]; exact hr
    · simp only [List.length_cons]; push_cast; linarith

theorem countTop_unfold (ex : Rat → Rat) (strains : List Rat) (dv : Rat) :
    countTopWeightedStrains ex strains dv =
      if strains.isEmpty then some 0
      else if floatEq (dv / 10) 0 then some (strains.length : Rat)
      else sumOptL (· + ·) 0 (strains.map fun s =>
        (cdiv s (dv / 10)).bind fun r => cdiv (11 / 10) (1 + ex (-10 * (r - 22 / 25)))) := rfl

theorem floatEq_false_ne_zero {c : Rat} (h : floatEq c 0 = false) : c ≠ 0 := by
  intro h0
  rw [h0] at h
  unfold floatEq at h
  simp [qabs, f64Eps] at h

/-! ### helpers -/

theorem cdiv_isSome (a b : Rat) : (cdiv a b).isSome = true ↔ b ≠ 0 := by
  unfold cdiv; split_ifs with h <;> simp [h]

end Rosu.Finite
