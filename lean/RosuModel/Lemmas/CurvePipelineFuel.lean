import RosuModel.Lemmas.PipelineCurve
import RosuModel.Lemmas.CurveTotalWide

/-!
# The fuel half of the curve stage, in EXACT arithmetic

Setting: both float types are an ordered field `K` (`Lemmas/CurveBasic.fieldArith T`: `+ − × ÷ abs < ≤ ==`
are the field operations, casts the identity, `sqrt`/`acos`/`sin`/`cos`/`ceil` uninterpreted, `atan2`
answering in `[−π, π]`, `π > 0`), `i32 as f32` is the integer cast, and every control point of every slider is
an offset of magnitude `≤ 262144` (what the decoder guarantees: `Lemmas/CurveDecodeBound.lean`).  Then with
fuel `≥ 4095` the CURVE never runs out of fuel (`curveNew_total_wide`): when the curve stage answers `fuel`,
it is the tick loop of `SliderEventsIter` (its own budget theorem: `Props/C05c.slider_events_total_bound`)
that ran out, on the `path.dist()` the curve model computed.

This is NOT a statement about `f32`: there the bezier loop's termination inside the decoder's limit is
searched (CURVE lines), and "terminates in every arithmetic" is false (`C05f.bezier_loop_can_spin`).
-/
namespace Rosu.PipelineCurve
open Rosu.DecodeLine Rosu.PipelineBytes
open Rosu.SliderEvents (osuParams)

set_option linter.unusedSectionVars false

variable {K : Type} [Field K] [LinearOrder K] [IsStrictOrderedRing K] (T : Rosu.Curve.Transc K)

/-- a stored control point is an offset of magnitude `≤ 2^18` in both coordinates -/
def CPB (c : CP) : Prop := (-262144 ≤ c.x ∧ c.x ≤ 262144) ∧ (-262144 ≤ c.y ∧ c.y ≤ 262144)

/-- all sliders of an object list have bounded control points -/
def SlidersBounded (objs : List HObj) : Prop :=
  ∀ h ∈ objs, ∀ r len ns cps, h.kind = .slider r len ns cps → ∀ c ∈ cps, CPB c

theorem abs_cast_le (n : Int) (h : -262144 ≤ n ∧ n ≤ 262144) : |(n : K)| ≤ 262144 := by
  rw [abs_le]
  constructor
  · have : ((-262144 : Int) : K) ≤ (n : K) := Int.cast_le.mpr h.1
    simpa using this
  · have : (n : K) ≤ ((262144 : Int) : K) := Int.cast_le.mpr h.2
    simpa using this

theorem controlPoints_bounded (O : BOps K K) (hO : ∀ n, O.ofI32 n = (n : K)) (cps : List CP)
    (hb : ∀ c ∈ cps, CPB c) :
    ∀ p ∈ (controlPoints O cps).toList, |p.pos.x| ≤ 262144 ∧ |p.pos.y| ≤ 262144 := by
  intro p hp
  simp only [controlPoints, List.toList_toArray, List.mem_map] at hp
  obtain ⟨c, hc, rfl⟩ := hp
  simp only [hO]
  exact ⟨abs_cast_le c.x (hb c hc).1, abs_cast_le c.y (hb c hc).2⟩

/-- the tick loop of this slider's events ran out of fuel, for some `path.dist()` -/
def EventsOutOfFuel (O : BOps K K) (E : Rosu.SliderEvents.Arith K) (fuel : Nat) (d : Decoded)
    (start repeats : Nat) : Prop :=
  ∃ dist, (osuParams E (sliderIn O d start repeats dist)).events E fuel = .outOfFuel

/-- the only way `sliderCurve` answers `fuel` -/
def FuelFromEvents (O : BOps K K) (E : Rosu.SliderEvents.Arith K) (fuel : Nat) (d : Decoded)
    (start repeats : Nat) (r : Except Fail (SliderCurve K K × Bufs K)) : Prop :=
  match r with
  | .error .fuel => EventsOutOfFuel O E fuel d start repeats
  | _ => True

theorem sliderCurve_fuel (hpi : 0 < T.pi)
    (hatan : ∀ y x, -T.pi ≤ T.atan2 y x ∧ T.atan2 y x ≤ T.pi)
    (O : BOps K K) (hO : ∀ n, O.ofI32 n = (n : K)) (A : Rosu.ConvOsu.Ar K K)
    (E : Rosu.SliderEvents.Arith K) (F : FoldOps K) (fuel : Nat) (hfuel : 4095 ≤ fuel) (d : Decoded)
    (start repeats : Nat) (len : Option Nat) (cps : List CP) (hcps : ∀ c ∈ cps, CPB c)
    (bufs : Bufs K) (hb : BufsWF bufs) :
    FuelFromEvents O E fuel d start repeats
      (sliderCurve O A E (Rosu.Curve.fieldArith T) F fuel d start repeats len cps bufs) := by
  obtain ⟨c0, b0, hc0⟩ := Rosu.Curve.curveNew_total_wide T hpi hatan fuel hfuel true
    (controlPoints O cps) (len.map O.dec64) bufs.path bufs.bez hb
    (controlPoints_bounded O hO cps hcps)
  unfold sliderCurve
  rw [hc0]
  simp only
  obtain ⟨hsz, _, _⟩ := Rosu.Curve.curveNew_sizes (Rosu.Curve.fieldArith T) fuel true
    (controlPoints O cps) (len.map O.dec64) bufs.path bufs.bez hb c0 b0 hc0
  have hqf : ∀ pr, Rosu.Curve.positionAt (Rosu.Curve.fieldArith T) c0 pr
      = .ok (Classical.choose (Rosu.Curve.positionAt_ok (Rosu.Curve.fieldArith T) c0 hsz pr)) :=
    fun pr => Classical.choose_spec (Rosu.Curve.positionAt_ok (Rosu.Curve.fieldArith T) c0 hsz pr)
  generalize hq : (fun pr => Classical.choose
    (Rosu.Curve.positionAt_ok (Rosu.Curve.fieldArith T) c0 hsz pr)) = qf at hqf
  have hqf' : ∀ pr, Rosu.Curve.positionAt (Rosu.Curve.fieldArith T) c0 pr = .ok (qf pr) := by
    intro pr; rw [← hq]; exact hqf pr
  simp only [hqf']
  split
  · exact trivial
  · rename_i hev
    exact ⟨_, hev⟩
  · split
    · rename_i e hfold
      refine absurd hfold (foldr_ne_error _ ?_ _ _ e)
      intro a b
      simp only []
      split
      · exact ⟨_, rfl⟩
      · split
        · exact ⟨_, rfl⟩
        · exact ⟨_, rfl⟩
    · exact trivial

/-- **The curve stage answers `fuel` only when some slider's EVENT loop ran out of fuel** (exact
arithmetic, bounded control points, fuel `≥ 4095`): the curve itself always returns. -/
theorem curveInputsOfModel_fuel (hpi : 0 < T.pi)
    (hatan : ∀ y x, -T.pi ≤ T.atan2 y x ∧ T.atan2 y x ≤ T.pi)
    (O : BOps K K) (hO : ∀ n, O.ofI32 n = (n : K)) (A : Rosu.ConvOsu.Ar K K)
    (E : Rosu.SliderEvents.Arith K) (F : FoldOps K) (fuel : Nat) (hfuel : 4095 ≤ fuel) (d : Decoded)
    (objs : List HObj) (hobjs : SlidersBounded objs) (bufs : Bufs K) (hb : BufsWF bufs)
    (h : curveInputsOfModel O A E (Rosu.Curve.fieldArith T) F fuel d objs bufs = .error .fuel) :
    ∃ o ∈ objs, ∃ r len ns cps, o.kind = .slider r len ns cps ∧
      EventsOutOfFuel O E fuel d o.time r := by
  induction objs generalizing bufs with
  | nil => simp [curveInputsOfModel] at h
  | cons o t ih =>
    have ht : SlidersBounded t := fun x hx => hobjs x (List.mem_cons_of_mem _ hx)
    unfold curveInputsOfModel at h
    cases hk : o.kind with
    | circle =>
      rw [hk] at h
      obtain ⟨x, hx, hr⟩ := ih ht bufs hb h
      exact ⟨x, List.mem_cons_of_mem _ hx, hr⟩
    | spinner dur =>
      rw [hk] at h
      obtain ⟨x, hx, hr⟩ := ih ht bufs hb h
      exact ⟨x, List.mem_cons_of_mem _ hx, hr⟩
    | hold dur =>
      rw [hk] at h
      obtain ⟨x, hx, hr⟩ := ih ht bufs hb h
      exact ⟨x, List.mem_cons_of_mem _ hx, hr⟩
    | slider repeats len ns cps =>
      rw [hk] at h
      simp only at h
      have hcps : ∀ c ∈ cps, CPB c := hobjs o (List.mem_cons_self ..) repeats len ns cps hk
      have hs := sliderCurve_fuel T hpi hatan O hO A E F fuel hfuel d o.time repeats len cps hcps
        bufs hb
      cases hsc : sliderCurve O A E (Rosu.Curve.fieldArith T) F fuel d o.time repeats len cps bufs with
      | error e =>
        rw [hsc] at h hs
        simp only at h
        cases h
        exact ⟨o, List.mem_cons_self .., repeats, len, ns, cps, hk, hs⟩
      | ok v =>
        obtain ⟨sc, bufs'⟩ := v
        rw [hsc] at h
        simp only at h
        have hb' := (sliderCurve_noPanic O A E (Rosu.Curve.fieldArith T) F fuel d o.time repeats len
          cps bufs hb).2 sc bufs' hsc
        cases hrest : curveInputsOfModel O A E (Rosu.Curve.fieldArith T) F fuel d t bufs' with
        | error e =>
          rw [hrest] at h
          simp only at h
          cases h
          obtain ⟨x, hx, hr⟩ := ih ht bufs' hb' hrest
          exact ⟨x, List.mem_cons_of_mem _ hx, hr⟩
        | ok l =>
          rw [hrest] at h
          simp only at h
          cases h

variable [Rosu.PerfCalc.PPOps K]

/-- **Byte level.** When the composed osu! pipeline answers `fuel` (exact arithmetic, fuel `≥ 4095`,
decoded control points bounded), the CURVE is not the cause: either some slider's event loop ran out of
fuel, or the downstream pipeline did on the model's own curve inputs. -/
theorem osuFromBytesCurve_fuel (hpi : 0 < T.pi)
    (hatan : ∀ y x, -T.pi ≤ T.atan2 y x ∧ T.atan2 y x ≤ T.pi)
    (O : BOps K K) (hO : ∀ n, O.ofI32 n = (n : K)) (A : Rosu.ConvOsu.Ar K K)
    (E : Rosu.SliderEvents.Arith K) (F : FoldOps K) (fuel : Nat) (hfuel : 4095 ≤ fuel)
    (bytes : List UInt8) (i : OsuInputs K) (take : Nat)
    (hbound : ∀ d objs snd, fromBytes bytes = some d → d.objects = some (objs, snd) →
      SlidersBounded (objs.map (·.2)))
    (h : osuDifficultyFromBytesCurve O A E (Rosu.Curve.fieldArith T) F fuel bytes i take = .fuel) :
    ∃ d objs snd, fromBytes bytes = some d ∧ d.objects = some (objs, snd) ∧
      ((∃ o ∈ objs.map (·.2), ∃ r len ns cps, o.kind = .slider r len ns cps ∧
          EventsOutOfFuel O E fuel d o.time r) ∨
       ∃ curves, curveInputsOfModel O A E (Rosu.Curve.fieldArith T) F fuel d (objs.map (·.2))
            Bufs.empty = .ok curves ∧
          osuDifficultyFromBytes O A E fuel bytes i take curves = .fuel) := by
  unfold osuDifficultyFromBytesCurve at h
  cases hb : fromBytes bytes with
  | none => rw [hb] at h; cases h
  | some d =>
    rw [hb] at h
    simp only at h
    split at h
    · cases h
    · cases ho : d.objects with
      | none => rw [ho] at h; cases h
      | some v =>
        obtain ⟨objs, snd⟩ := v
        rw [ho] at h
        simp only at h
        refine ⟨d, objs, snd, rfl, ho, ?_⟩
        cases hc : curveInputsOfModel O A E (Rosu.Curve.fieldArith T) F fuel d (objs.map (·.2))
            Bufs.empty with
        | error e =>
          rw [hc] at h
          cases e with
          | fuel =>
            exact Or.inl (curveInputsOfModel_fuel T hpi hatan O hO A E F fuel hfuel d _
              (hbound d objs snd hb ho) Bufs.empty bufsWF_empty hc)
          | panic => simp at h
          | clampPanic => simp at h
        | ok curves =>
          rw [hc] at h
          exact Or.inr ⟨curves, rfl, h⟩

end Rosu.PipelineCurve
