import RosuModel.Model.GradualView
import RosuModel.Gen.Lookahead

/-!
Look-ahead distance of a mode's evaluators, derived from the generated site table
(`Gen/Lookahead.lean`, re-extracted from the source on every run).
-/

namespace Rosu.GradualView
open Rosu.Gen.Lookahead

/-- Kinds that only reach backwards from the object being processed (or to the first member of a
group it belongs to). -/
def backwardKinds : List String :=
  ["previous", "previous_note", "previous_mono", "previous_color_change", "first_hit_object",
   "upgraded_previous"]

/-- How far ahead one access site can reach.  `next(k, list)` with a literal `k` reaches `k + 1`
ahead; anything that is not known to be backwards-only counts as unbounded (list length, whole-list
iteration, indexing, taiko's forward accessors and group members). -/
def siteAhead (s : Site) : Ahead :=
  if backwardKinds.contains s.kind then .bounded 0
  else if s.kind == "next" then
    (if s.arg == "0" then .bounded 1 else if s.arg == "1" then .bounded 2
     else if s.arg == "2" then .bounded 3 else .unbounded)
  else .unbounded

def Ahead.sup : Ahead → Ahead → Ahead
  | .bounded a, .bounded b => .bounded (max a b)
  | _, _ => .unbounded

/-- Look-ahead of a mode: the furthest any site of the mode's own code or of the shared skill code
(`define_skill!`) reaches. -/
def modeAhead (mode : String) : Ahead :=
  ((sites.filter (fun s => s.mode == mode || s.mode == "any")).map siteAhead).foldl Ahead.sup (.bounded 0)

/-- The generated shapes, reduced to what the model fixes. -/
def genShapes : List GradualView.Shape :=
  shapes.map (fun s => ⟨s.mode, s.path, s.takeBeforeCtor, s.takeAtLoop⟩)

end Rosu.GradualView
