import RosuModel.Lemmas.ManiaPatternSafeLoop

/-!
The 7K+1 occupancy invariant, hit-object side.  `Inv8 p`: the pattern lies inside `[0, 8)`, holds at
most 6 distinct columns, and a lone note is not in the special column 0.  `Inv8` implies `Free8`
(what `convertStep_safe` assumes of the previous pattern in 7K+1), and every pattern the hit-object
generator produces in 7K+1 from an `Inv8` previous pattern — without the `MIRROR` flag, which
`HitObjectPatternGenerator::new` never sets for 8 columns — satisfies it again.
-/
namespace Rosu.ManiaPattern
open Rosu.Safety Rosu.Rng Rosu.ConvertWF

variable {F : Type}

/-- `column_with_objs() ≤ hit_objects.len()` -/
def LenLe (p : Pat) : Prop := Cols.len p.cols ≤ p.notes.length

/-- every note at or right of column `lo` -/
def NotesGe (lo : Nat) (p : Pat) : Prop := ∀ n ∈ p.notes, lo ≤ n.col

def Inv8 (p : Pat) : Prop :=
  PatOk 8 p ∧ Cols.len p.cols ≤ 6 ∧ (p.notes.length = 1 → NotesGe 1 p)

theorem LenLe.empty : LenLe Pat.empty := by simp [LenLe, Pat.empty, Cols.len_zero]

theorem LenLe.add {p p' : Pat} {c : Nat} {t : NoteTime} (hp : LenLe p) (h : p.add c t = .ok p') : LenLe p' := by
  unfold LenLe at *
  rw [Pat.add_cols h, Pat.add_notes h]
  have := Cols.len_insert_le p.cols c
  simp only [List.length_append, List.length_singleton]
  omega

theorem NotesGe.add {lo : Nat} {p p' : Pat} {c : Nat} {t : NoteTime} (hp : NotesGe lo p) (hc : lo ≤ c)
    (h : p.add c t = .ok p') : NotesGe lo p' := by
  intro n hn
  rw [Pat.add_notes h, List.mem_append] at hn
  rcases hn with hn | hn
  · exact hp n hn
  · simp only [List.mem_singleton] at hn; subst hn; exact hc

theorem NotesGe.empty (lo : Nat) : NotesGe lo Pat.empty := by intro n hn; cases hn

theorem Inv8.empty : Inv8 Pat.empty :=
  ⟨PatOk.empty 8, by simp [Pat.empty, Cols.len_zero], fun h => by simp [Pat.empty] at h⟩

/-- **`Inv8` implies `Free8`**: at most 6 occupied columns leave one of 1–7 free; a lone note at a
column ≥ 1 reads back as that column. -/
theorem Inv8.free8 {p : Pat} (h : Inv8 p) : Free8 p := by
  obtain ⟨hok, hlen, hlone⟩ := h
  constructor
  · obtain ⟨c, h1, h2, h3, _⟩ := free_of_count p.cols 0 1 8 (by omega) (by rw [Cols.len_zero]; omega)
    exact ⟨c, h1, h2, h3⟩
  · intro hl n hn
    have hmem : n ∈ p.notes := List.mem_of_getLast? (by simpa using hn)
    have h1 := hlone hl n hmem
    have h8 := hok.1 n hmem
    have : posColumn 8 n.col = n.col := column_columnToPos n.col 8 h8 (by omega)
    rw [this, Nat.mod_eq_of_lt (by omega)]
    omega

section hit
variable {A : PArith F} (hA : RangeLaw A) (g : HitIn F) (h1 : 1 ≤ g.total) (h16 : g.total ≤ 16)
include hA h1 h16

theorem hitNextColumn_ge (s : Osu) (col c : Nat) (s' : Osu)
    (hcol : randomStart g.total ≤ col ∧ col < g.total)
    (h : hitNextColumn A g s col = .ok (c, s')) : randomStart g.total ≤ c ∧ c < g.total := by
  refine ⟨?_, hitNextColumn_inv hA g h1 h16 s col c s' hcol.2 h⟩
  unfold hitNextColumn at h
  have hrs := randomStart_le g.total
  split at h
  · obtain ⟨l, hl, h2⟩ := bind_ok h
    have hl' := u8add_ok hl
    split at h2
    · cases h2; exact Nat.le_refl _
    · cases h2; omega
  · cases h
    exact (getRandomColumn_bounds hA s _ _ (randomStart_lt h1) (by omega)).1

/-- the loop of `generate_random_notes` adds exactly `k` notes, all in `[random_start, total)` -/
theorem hitRandomNotesLoop_shape (allow : Bool) :
    ∀ (k : Nat) (pat : Pat) (c : Nat) (s : Osu) (r : Pat × Osu),
      (randomStart g.total ≤ c ∧ c < g.total) → LenLe pat → NotesGe (randomStart g.total) pat →
      hitRandomNotesLoop A g allow k pat c s = .ok r →
      r.1.notes.length = pat.notes.length + k ∧ LenLe r.1 ∧ NotesGe (randomStart g.total) r.1 := by
  intro k
  induction k with
  | zero =>
    intro pat c s r _ hl hg h
    unfold hitRandomNotesLoop at h; cases h; exact ⟨rfl, hl, hg⟩
  | succ k ih =>
    intro pat c s r hc hl hg h
    unfold hitRandomNotesLoop at h
    obtain ⟨⟨c', s'⟩, hf, h2⟩ := bind_ok h
    simp only at h2
    obtain ⟨pat', ha, h3⟩ := bind_ok h2
    have hc' : randomStart g.total ≤ c' ∧ c' < g.total :=
      findAvail_inv (fun c => randomStart g.total ≤ c ∧ c < g.total)
        (fun s col c s' hcol hn => hitNextColumn_ge hA g h1 h16 s col c s' hcol hn) hc hf
    obtain ⟨e1, e2, e3⟩ := ih pat' c' s' r hc' (hl.add ha) (hg.add hc'.1 ha) h3
    refine ⟨?_, e2, e3⟩
    rw [e1, Pat.add_notes ha]
    simp only [List.length_append, List.length_singleton]
    omega

end hit

/-! ## 7K+1 -/

theorem single_shape {c : Nat} {t : NoteTime} {p : Pat} (hc : 1 ≤ c) (h : Pat.single c t = .ok p) :
    Cols.len p.cols ≤ 6 ∧ (p.notes.length = 1 → NotesGe 1 p) := by
  have hl := LenLe.empty.add h
  have hg := (NotesGe.empty 1).add hc h
  unfold LenLe at hl
  rw [Pat.add_notes h] at hl
  simp only [Pat.empty, List.nil_append, List.length_singleton] at hl
  exact ⟨by omega, fun _ => hg⟩


section eight
variable {A : PArith F} (hP : ProbLaw A) (g : HitIn F) (h8 : g.total = 8)
include hP h8

theorem rs8 : randomStart g.total = 1 := by unfold randomStart; rw [if_pos h8]

/-- `generate_random_notes(n)` in 7K+1 with `1 ≤ n ≤ 5` after an `Inv8` previous pattern: between 1
and `n` notes, none in the special column -/
theorem hitRandomNotes_8 (n : Int) (hn1 : 1 ≤ n) (hn5 : n ≤ 5) (hprev : Cols.len g.prev.cols ≤ 6)
    (s : Osu) (r : Pat × Osu) (h : hitRandomNotes A g n s = .ok r) :
    1 ≤ r.1.notes.length ∧ r.1.notes.length ≤ 5 ∧ LenLe r.1 ∧ NotesGe 1 r.1 := by
  unfold hitRandomNotes at h
  have hrs := rs8 hP g h8
  have hcs : randomStart g.total ≤ getColumnSpecial g.total g.x ∧ getColumnSpecial g.total g.x < g.total :=
    ⟨getColumnSpecial_ge _ _, getColumnSpecial_lt (by omega) (by omega) _⟩
  obtain ⟨e1, e2, e3⟩ := hitRandomNotesLoop_shape hP.toRangeLaw g (by omega) (by omega) _ _ _ _ _ _
    hcs LenLe.empty (NotesGe.empty _) h
  rw [hrs] at e3
  simp only [Pat.empty, List.length_nil, Nat.zero_add] at e1
  have hcnt : (g.prev.count : Int) ≤ 6 := by unfold Pat.count; exact_mod_cast hprev
  have hcnt0 : (0 : Int) ≤ g.prev.count := Int.natCast_nonneg _
  have hk : 1 ≤ (if (!has g.ct FORCE_NOT_STACK) = true then n
      else min ((g.total : Int) - randomStart g.total - g.prev.count) n).toNat ∧
      (if (!has g.ct FORCE_NOT_STACK) = true then n
      else min ((g.total : Int) - randomStart g.total - g.prev.count) n).toNat ≤ 5 := by
    rw [hrs, h8]
    split <;> omega
  exact ⟨by rw [e1]; exact hk.1, by rw [e1]; exact hk.2, e2, e3⟩

/-- `generate_random_pattern` in 7K+1 -/
theorem hitRandomPattern_8 (p2 p3 p4 p5 : F) (hprev : Cols.len g.prev.cols ≤ 6) (s : Osu) (r : Pat × Osu)
    (h : hitRandomPattern A g p2 p3 p4 p5 s = .ok r) :
    Cols.len r.1.cols ≤ 6 ∧ (r.1.notes.length = 1 → NotesGe 1 r.1) := by
  unfold hitRandomPattern at h
  have hcap := noteCount_caps hP s
    (if sampleHas g.sample S_CLAP then A.pct 100 else (hitProbs A g.total p2 p3 p4 p5).1)
    (hitProbs A g.total p2 p3 p4 p5).2.1 (hitProbs A g.total p2 p3 p4 p5).2.2.1
    (hitProbs A g.total p2 p3 p4 p5).2.2.2 (A.pct 0)
  have hnc : hitNoteCount A g p2 p3 p4 p5 s = noteCount A s
      (if sampleHas g.sample S_CLAP then A.pct 100 else (hitProbs A g.total p2 p3 p4 p5).1)
      (hitProbs A g.total p2 p3 p4 p5).2.1 (hitProbs A g.total p2 p3 p4 p5).2.2.1
      (hitProbs A g.total p2 p3 p4 p5).2.2.2 (A.pct 0) := rfl
  rw [hnc] at h
  generalize noteCount A s _ _ _ _ _ = nc at h hcap
  obtain ⟨n, s1⟩ := nc
  simp only at h hcap
  obtain ⟨⟨pat, s2⟩, hr, h2⟩ := bind_ok h
  obtain ⟨e1, e2, e3, e4⟩ := hitRandomNotes_8 hP g h8 n hcap.1 (hcap.2.2.1 trivial) hprev s1 _ hr
  simp only at h2 e1 e2 e3 e4
  split at h2
  · obtain ⟨pat', ha, h3⟩ := bind_ok h2
    cases h3
    have hl := e3.add ha
    refine ⟨?_, ?_⟩
    · show Cols.len pat'.cols ≤ 6
      unfold LenLe at hl; rw [Pat.add_notes ha] at hl
      simp only [List.length_append, List.length_singleton] at hl; omega
    · intro hone
      change pat'.notes.length = 1 at hone
      rw [Pat.add_notes ha] at hone
      simp only [List.length_append, List.length_singleton] at hone
      omega
  · cases h2
    exact ⟨by show Cols.len pat.cols ≤ 6; unfold LenLe at e3; omega, fun _ => e4⟩

/-- the copy loops of REVERSE / FORCE_STACK in 7K+1: one note per occupied column of the previous
pattern among the columns visited, none in the special column -/
theorem hitCopyLoop_shape (f : Nat → M Nat)
    (hf : ∀ i c, 1 ≤ i → i < 8 → f i = .ok c → 1 ≤ c) :
    ∀ (k i : Nat) (pat r : Pat), 1 ≤ i → i + k ≤ 8 → LenLe pat → NotesGe 1 pat →
      hitCopyLoop g f k i pat = .ok r →
      LenLe r ∧ NotesGe 1 r ∧
        r.notes.length ≤ pat.notes.length + (List.range' i k).countP (fun j => g.prev.cols.testBit j) := by
  intro k
  induction k with
  | zero => intro i pat r _ _ hl hg h; unfold hitCopyLoop at h; cases h; exact ⟨hl, hg, by simp⟩
  | succ k ih =>
    intro i pat r hi hk hl hg h
    unfold hitCopyLoop at h
    rw [Pat.has_safe g.prev (by omega : i < 16), ok_bind] at h
    rw [List.range'_succ, List.countP_cons]
    split at h
    · rename_i hb
      obtain ⟨c, hc, h3⟩ := bind_ok h
      obtain ⟨pat', ha, h4⟩ := bind_ok h3
      obtain ⟨e1, e2, e3⟩ := ih (i + 1) pat' r (by omega) (by omega) (hl.add ha)
        (hg.add (hf i c hi (by omega) hc) ha) h4
      refine ⟨e1, e2, ?_⟩
      rw [Pat.add_notes ha] at e3
      simp only [List.length_append, List.length_singleton] at e3
      simp only [hb, if_true]
      omega
    · obtain ⟨e1, e2, e3⟩ := ih (i + 1) pat r (by omega) (by omega) hl hg h
      exact ⟨e1, e2, by omega⟩

/-- **the hit-object generator preserves `Inv8`** in 7K+1 when `MIRROR` is not set -/
theorem hitGenerate_inv8 (hprev : Inv8 g.prev) (hmir : has g.ct MIRROR = false) (stair : Nat) (s : Osu)
    (r : Pat × Osu × Nat) (h : hitGenerate A g stair s = .ok r) : Inv8 r.1 := by
  have hok := hitGenerate_ok hP.toRangeLaw g (by omega) (by omega) stair s r h
  rw [h8] at hok
  refine ⟨hok, ?_⟩
  unfold hitGenerate at h
  obtain ⟨⟨p, s'⟩, hc, h2⟩ := bind_ok h
  cases h2
  show Cols.len p.cols ≤ 6 ∧ (p.notes.length = 1 → NotesGe 1 p)
  unfold hitGenerateCore at hc
  rw [if_neg (by omega)] at hc
  have hrs := rs8 hP g h8
  have hlast : hitLastColumn g < 8 := by
    have := hitLastColumn_lt hP.toRangeLaw g (by omega) (by omega); omega
  -- a lone previous note is not in the special column
  have hlone : g.prev.notes.length = 1 → 1 ≤ hitLastColumn g := by
    intro hl
    unfold hitLastColumn
    cases hg : g.prev.notes.getLast? with
    | none =>
      have : g.prev.notes = [] := List.getLast?_eq_none_iff.mp hg
      rw [this] at hl; cases hl
    | some n =>
      simp only
      have hmem : n ∈ g.prev.notes := List.mem_of_getLast? hg
      have hn1 := hprev.2.2 hl n hmem
      have hn8 := hprev.1.1 n hmem
      rw [h8, show posColumn 8 n.col = n.col from column_columnToPos n.col 8 hn8 (by omega),
        Nat.mod_eq_of_lt (by omega)]
      exact hn1
  have hcnt := countP_range'_le_len g.prev.cols 1 7 (by omega)
  rw [hrs, h8] at hc
  generalize hitLastColumn g = last at hc hlast hlone
  unfold hitCoreSpecial at hc
  split at hc
  · -- REVERSE
    obtain ⟨q, hq, h3⟩ := bind_ok hc
    cases h3
    obtain ⟨e1, e2, e3⟩ := hitCopyLoop_shape hP g h8 _ (fun i c hi hi' hf => by
      obtain ⟨a, ha, hf2⟩ := bind_ok hf
      obtain ⟨b, hb, hf3⟩ := bind_ok hf2
      have := u8add_ok ha; have := u8sub_ok hb; have := u8sub_ok hf3
      omega) _ _ _ _ (Nat.le_refl _) (by omega) LenLe.empty (NotesGe.empty _) hq
    simp only [Pat.empty, List.length_nil, Nat.zero_add] at e3
    have : (8 % 256 - 1 : Nat) = 7 := by decide
    rw [this] at e3
    exact ⟨by unfold LenLe at e1; have := hprev.2.1; omega, fun _ => e2⟩
  · split at hc
    · -- CYCLE
      rename_i _ hcond
      obtain ⟨a, ha, h3⟩ := bind_ok hc
      obtain ⟨b, hb, h4⟩ := bind_ok h3
      obtain ⟨c, hcc, h5⟩ := bind_ok h4
      obtain ⟨q, hq, h6⟩ := bind_ok h5
      cases h6
      have := u8add_ok ha; have := u8sub_ok hb; have := u8sub_ok hcc
      exact single_shape (by omega) hq
    · split at hc
      · -- FORCE_STACK
        obtain ⟨q, hq, h3⟩ := bind_ok hc
        cases h3
        obtain ⟨e1, e2, e3⟩ := hitCopyLoop_shape hP g h8 _ (fun i c hi _ hf => by cases hf; exact hi)
          _ _ _ _ (Nat.le_refl _) (by omega) LenLe.empty (NotesGe.empty _) hq
        simp only [Pat.empty, List.length_nil, Nat.zero_add] at e3
        have : (8 % 256 - 1 : Nat) = 7 := by decide
        rw [this] at e3
        exact ⟨by unfold LenLe at e1; have := hprev.2.1; omega, fun _ => e2⟩
      · split at hc
        · -- STAIR
          obtain ⟨t, ht, h3⟩ := bind_ok hc
          obtain ⟨q, hq, h4⟩ := bind_ok h3
          cases h4
          have := u8add_ok ht
          refine single_shape ?_ hq
          split <;> omega
        · split at hc
          · -- REVERSE_STAIR
            rename_i hcond
            simp only [Bool.and_eq_true, decide_eq_true_eq] at hcond
            have hl1 := hlone hcond.1
            obtain ⟨t, ht, h3⟩ := bind_ok hc
            obtain ⟨r', hr', h4⟩ := bind_ok h3
            obtain ⟨t', ht', h5⟩ := bind_ok h4
            obtain ⟨q, hq, h6⟩ := bind_ok h5
            cases h6
            have e1 := i8sub_ok ht
            have e2 := i8sub_ok hr'
            have hlt16 := Pat.single_lt16 hq
            refine single_shape ?_ hq
            split at ht'
            · have e3 := i8sub_ok ht'
              unfold asI8 at e1 e2 e3
              unfold asU8 at hlt16 ⊢
              omega
            · rename_i hne
              cases ht'
              unfold asI8 at e1 e2
              unfold asU8 at hlt16 ⊢
              omega
          · -- KEEP_SINGLE / random patterns (MIRROR excluded)
            unfold hitCoreRandom at hc
            split at hc
            · obtain ⟨e1, e2, e3, e4⟩ := hitRandomNotes_8 hP g h8 1 (by omega) (by omega) hprev.2.1 s _ hc
              exact ⟨by show Cols.len p.cols ≤ 6; unfold LenLe at e3; simp only at e1 e2 e3; omega, fun _ => e4⟩
            · rw [hmir] at hc
              simp only [Bool.false_eq_true, if_false] at hc
              repeat' split at hc
              all_goals exact hitRandomPattern_8 hP g h8 _ _ _ _ hprev.2.1 s _ hc

end eight

end Rosu.ManiaPattern

namespace Rosu.ManiaPattern
open Rosu.Safety Rosu.Rng

variable {F : Type}

/-- objects whose 7K+1 step is covered by the proved part of the occupancy invariant: circles
without the `MIRROR` flag (`HitObjectPatternGenerator::new` sets it only for `total_columns != 8`)
and spinners / hold notes (which leave `last_values.pattern` untouched) -/
def NoSlider8 : ObjIn F → Prop
  | .circle _ _ ct => has ct MIRROR = false
  | .slider .. => False
  | .spinner .. => True

theorem convertStep_inv8 {A : PArith F} (hP : ProbLaw A) (cd : F) (fuel : Nat) (st : ConvSt) (o : ObjIn F)
    (hprev : Inv8 st.prev) (ho : NoSlider8 o) (r : Emitted × ConvSt)
    (h : convertStep A 8 cd fuel st o = .ok r) : Inv8 r.2.prev := by
  cases o with
  | circle x sample ct =>
    unfold convertStep at h
    obtain ⟨⟨p, s', stair'⟩, hg, h2⟩ := bind_ok h
    cases h2
    exact hitGenerate_inv8 hP ⟨8, x, sample, ct, st.prev, cd, fuel⟩ rfl hprev ho _ _ _ hg
  | slider x sample ct span startT endT seg nodes => exact absurd ho (by simp [NoSlider8])
  | spinner sample hold short =>
    unfold convertStep at h
    obtain ⟨⟨p, s'⟩, hg, h2⟩ := bind_ok h
    cases h2
    exact hprev

/-- **7K+1, maps without sliders: the whole conversion never fails** (except by fuel), from any state
whose previous pattern satisfies `Inv8` — in particular the initial one.  The `Free8` hypothesis of
`convertStep_safe` is discharged by the occupancy invariant at every step. -/
theorem convertLoop_safe_8K_no_sliders {A : PArith F} (hP : ProbLaw A) (cd : F) (fuel : Nat) :
    ∀ (os : List (ObjIn F)) (st : ConvSt), Inv8 st.prev → (∀ o ∈ os, NoSlider8 o) →
      OkOrFuel (convertLoop A 8 cd fuel st os) := by
  intro os
  induction os with
  | nil => intro st _ _; unfold convertLoop; exact OkOrFuel.ok _
  | cons o os ih =>
    intro st hprev hwf
    unfold convertLoop
    have ho := hwf o (List.mem_cons_self ..)
    have hobj : ObjWf o := by
      cases o with
      | circle => trivial
      | slider => exact absurd ho (by simp [NoSlider8])
      | spinner => trivial
    have hstep := convertStep_safe hP 8 (by omega) (by omega) cd fuel st o hprev.1 hobj (fun _ => hprev.free8)
    refine OkOrFuel.bind hstep.1 ?_
    rintro ⟨e, st'⟩ hs
    simp only
    refine OkOrFuel.bind (ih st' (convertStep_inv8 hP cd fuel st o hprev ho _ hs)
      (fun o' ho' => hwf o' (List.mem_cons_of_mem _ ho'))) ?_
    rintro ⟨rest, stf⟩ _
    exact OkOrFuel.ok _

end Rosu.ManiaPattern
