import RosuModel.Lemmas.ManiaPatternPath

/-!
Durations: every slider note the path generator emits has `end ≥ start`, given `start_time ≤ end_time`
and `segment_duration ≥ 0` (what `PathObjectPatternGenerator::new` computes for a slider of
non-negative length: `end = floor(start + …) ≥ start`, `segment = (end − start) / span_count`).
-/
namespace Rosu.ManiaPattern
open Rosu.Safety Rosu.Rng Rosu.ConvertWF

variable {F : Type}

/-- a note's duration is non-negative (`new_slider_note(start, end)`: circle if equal, else a hold of
`end − start`); circles / spinner holds carry the object's own times -/
def TimeOk : NoteTime → Prop
  | .span s e => s ≤ e
  | _ => True

def PatT (p : Pat) : Prop := ∀ n ∈ p.notes, TimeOk n.time

theorem PatT.empty : PatT Pat.empty := by intro n hn; cases hn

theorem PatT.add {p p' : Pat} {c : Nat} {t : NoteTime} (hp : PatT p) (ht : TimeOk t)
    (h : p.add c t = .ok p') : PatT p' := by
  intro n hn
  rw [Pat.add_notes h, List.mem_append] at hn
  rcases hn with hn | hn
  · exact hp n hn
  · simp only [List.mem_singleton] at hn; subst hn; exact ht

theorem PatT.append {p q : Pat} (hp : PatT p) (hq : PatT q) : PatT (p.append q) := by
  intro n hn
  simp only [Pat.append, List.mem_append] at hn
  rcases hn with hn | hn
  · exact hp n hn
  · exact hq n hn

theorem TimeOk.same (t : Int) : TimeOk (.span t t) := Int.le_refl t

section path
variable {A : PArith F} (g : PathIn F)

theorem pathHoldLoop_t (withPrev : Bool) (t : Int) (ht : t ≤ g.endT) :
    ∀ (k : Nat) (pat : Pat) (c : Nat) (s : Osu) (r : Pat × Nat × Osu), PatT pat →
      pathHoldLoop A g withPrev t k pat c s = .ok r → PatT r.1 := by
  intro k
  induction k with
  | zero => intro pat c s r hp h; unfold pathHoldLoop at h; cases h; exact hp
  | succ k ih =>
    intro pat c s r hp h
    unfold pathHoldLoop at h
    obtain ⟨⟨c', s'⟩, _, h2⟩ := bind_ok h
    simp only at h2
    obtain ⟨pat', ha, h3⟩ := bind_ok h2
    exact ih pat' c' s' r (hp.add (t := .span t g.endT) ht ha) h3

theorem pathRandomHoldNotes_t (t : Int) (ht : t ≤ g.endT) (n : Int) (s : Osu) (r : Pat × Osu)
    (h : pathRandomHoldNotes A g t n s = .ok r) : PatT r.1 := by
  unfold pathRandomHoldNotes at h
  simp only at h
  generalize getRandomColumn A s (randomStart g.total) g.total = c0 at h
  obtain ⟨c0, s0⟩ := c0
  simp only at h
  obtain ⟨⟨pat, c1, s1⟩, hl1, h2⟩ := bind_ok h
  have r1 := pathHoldLoop_t g _ t ht _ _ _ _ _ PatT.empty hl1
  simp only at h2 r1
  obtain ⟨⟨pat2, c2, s2⟩, hl2, h3⟩ := bind_ok h2
  have r2 := pathHoldLoop_t g _ t ht _ _ _ _ _ r1 hl2
  cases h3
  exact r2

theorem pathRandomNotesLoop_t :
    ∀ (k : Nat) (pat : Pat) (c last : Nat) (t : Int) (s : Osu) (r : Pat × Osu), PatT pat →
      pathRandomNotesLoop A g k pat c last t s = .ok r → PatT r.1 := by
  intro k
  induction k with
  | zero => intro pat c last t s r hp h; unfold pathRandomNotesLoop at h; cases h; exact hp
  | succ k ih =>
    intro pat c last t s r hp h
    unfold pathRandomNotesLoop at h
    obtain ⟨pat', ha, h2⟩ := bind_ok h
    obtain ⟨⟨c', s'⟩, _, h3⟩ := bind_ok h2
    simp only at h3
    obtain ⟨t', _, h4⟩ := bind_ok h3
    exact ih pat' c' c' t' s' r (hp.add (TimeOk.same t) ha) h4

theorem pathRandomNotes_t (ct : Nat) (t n : Int) (s : Osu) (r : Pat × Osu)
    (h : pathRandomNotes A g ct t n s = .ok r) : PatT r.1 := by
  unfold pathRandomNotes at h
  obtain ⟨⟨c, s1⟩, _, h2⟩ := bind_ok h
  exact pathRandomNotesLoop_t g _ _ _ _ _ _ _ PatT.empty h2

theorem pathStairLoop_t :
    ∀ (k : Nat) (pat : Pat) (column : Int) (inc : Bool) (t : Int) (r : Pat), PatT pat →
      pathStairLoop g k pat column inc t = .ok r → PatT r := by
  intro k
  induction k with
  | zero => intro pat column inc t r hp h; unfold pathStairLoop at h; cases h; exact hp
  | succ k ih =>
    intro pat column inc t r hp h
    unfold pathStairLoop at h
    obtain ⟨pat', ha, h3⟩ := bind_ok h
    obtain ⟨t', _, h4⟩ := bind_ok h3
    have hp' := hp.add (TimeOk.same t) ha
    split at h4
    · split at h4
      · exact ih pat' _ _ _ r hp' h4
      · exact ih pat' _ _ _ r hp' h4
    · split at h4
      · exact ih pat' _ _ _ r hp' h4
      · exact ih pat' _ _ _ r hp' h4

theorem pathStair_t (t : Int) (s : Osu) (r : Pat × Osu) (h : pathStair A g t s = .ok r) : PatT r.1 := by
  unfold pathStair at h
  simp only at h
  generalize nextDouble A s = nd at h
  obtain ⟨v, s1⟩ := nd
  simp only at h
  obtain ⟨iters, _, h3⟩ := bind_ok h
  obtain ⟨pat, hl, h4⟩ := bind_ok h3
  cases h4
  exact pathStairLoop_t g _ _ _ _ _ _ PatT.empty hl

theorem pathMultipleLoop_t (interval legacy : Int) :
    ∀ (k : Nat) (pat : Pat) (c : Int) (t : Int) (s : Osu) (r : Pat × Osu), PatT pat →
      pathMultipleLoop A g interval legacy k pat c t s = .ok r → PatT r.1 := by
  intro k
  induction k with
  | zero => intro pat c t s r hp h; unfold pathMultipleLoop at h; cases h; exact hp
  | succ k ih =>
    intro pat c t s r hp h
    unfold pathMultipleLoop at h
    simp only at h
    obtain ⟨pat1, ha1, h3⟩ := bind_ok h
    have hp1 := hp.add (TimeOk.same t) ha1
    obtain ⟨pat2, ha2, h4⟩ := bind_ok h3
    have hp2 : PatT pat2 := by
      split at ha2
      · exact hp1.add (TimeOk.same t) ha2
      · cases ha2; exact hp1
    generalize getRandomColumn A s (randomStart g.total) g.total = rc at h4
    obtain ⟨c', s'⟩ := rc
    simp only at h4
    obtain ⟨t', _, h5⟩ := bind_ok h4
    exact ih pat2 c' t' s' r hp2 h5

theorem pathMultiple_t (t : Int) (s : Osu) (r : Pat × Osu) (h : pathMultiple A g t s = .ok r) :
    PatT r.1 := by
  unfold pathMultiple at h
  simp only at h
  obtain ⟨iters, _, h3⟩ := bind_ok h
  exact pathMultipleLoop_t g _ _ _ _ _ _ _ _ PatT.empty h3

theorem pathNRandom_t (ct : Nat) (t : Int) (ht : t ≤ g.endT) (p2 p3 p4 : F) (s : Osu) (r : Pat × Osu)
    (h : pathNRandom A g ct t p2 p3 p4 s = .ok r) : PatT r.1 := by
  unfold pathNRandom at h
  obtain ⟨canTwo, _, h3⟩ := bind_ok h
  exact pathRandomHoldNotes_t g t ht _ _ _ h3

/-- tiled hold notes: the `k` remaining tiles start at `t, t + seg, …`, all at or before `endT` -/
theorem pathTiledLoop_t (endT : Int) (hseg : 0 ≤ g.seg) :
    ∀ (k : Nat) (pat : Pat) (c : Nat) (t : Int) (s : Osu) (r : Pat × Osu), PatT pat →
      t + (k : Int) * g.seg ≤ endT + g.seg →
      pathTiledLoop A g endT k pat c t s = .ok r → PatT r.1 := by
  intro k
  induction k with
  | zero => intro pat c t s r hp _ h; unfold pathTiledLoop at h; cases h; exact hp
  | succ k ih =>
    intro pat c t s r hp hk h
    unfold pathTiledLoop at h
    obtain ⟨⟨c', s'⟩, _, h2⟩ := bind_ok h
    simp only at h2
    obtain ⟨pat', ha, h3⟩ := bind_ok h2
    obtain ⟨t', ht', h4⟩ := bind_ok h3
    have e := i32add_ok ht'
    have hmul : ((k + 1 : Nat) : Int) * g.seg = (k : Int) * g.seg + g.seg := by
      rw [Int.natCast_succ, Int.add_mul, Int.one_mul]
    have hnn : 0 ≤ (k : Int) * g.seg := Int.mul_nonneg (Int.natCast_nonneg k) hseg
    rw [hmul] at hk
    have hle : t ≤ endT := by omega
    exact ih pat' c' t' s' r (hp.add (t := .span t endT) hle ha) (by omega) h4

theorem pathTiled_t (ct : Nat) (t : Int) (hseg : 0 ≤ g.seg) (s : Osu) (r : Pat × Osu)
    (h : pathTiled A g ct t s = .ok r) : PatT r.1 := by
  unfold pathTiled at h
  simp only at h
  obtain ⟨m, hm, h2⟩ := bind_ok h
  obtain ⟨endT, he, h3⟩ := bind_ok h2
  obtain ⟨⟨c, s1⟩, _, h4⟩ := bind_ok h3
  simp only at h4
  have e1 := i32mul_ok hm
  have e2 := i32add_ok he
  split at h4
  · cases h4
  · rename_i hneg
    refine pathTiledLoop_t g endT hseg _ _ _ _ _ _ PatT.empty ?_ h4
    -- `column_repeat = min(span, total) ≤ span`, so `t + column_repeat·seg ≤ t + seg·span = endT`
    have hk : ((min g.span (g.total : Int)).toNat : Int) ≤ g.span := by omega
    have := Int.mul_le_mul_of_nonneg_right hk hseg
    rw [Int.mul_comm g.span g.seg] at this
    omega

theorem pathRowLoop_t (hold : Nat) (t : Int) :
    ∀ (k : Nat) (row : Pat) (c : Nat) (s : Osu) (r : Pat × Nat × Osu), PatT row →
      pathRowLoop A g hold t k row c s = .ok r → PatT r.1 := by
  intro k
  induction k with
  | zero => intro row c s r hp h; unfold pathRowLoop at h; cases h; exact hp
  | succ k ih =>
    intro row c s r hp h
    unfold pathRowLoop at h
    obtain ⟨⟨c', s'⟩, _, h2⟩ := bind_ok h
    simp only at h2
    obtain ⟨row', ha, h3⟩ := bind_ok h2
    exact ih row' c' s' r (hp.add (TimeOk.same t) ha) h3

theorem pathHoldNormalLoop_t (hold n : Nat) (ign : Bool) :
    ∀ (k : Nat) (pat : Pat) (c : Nat) (t : Int) (s : Osu) (r : Pat × Osu), PatT pat →
      pathHoldNormalLoop A g hold n ign k pat c t s = .ok r → PatT r.1 := by
  intro k
  induction k with
  | zero => intro pat c t s r hp h; unfold pathHoldNormalLoop at h; cases h; exact hp
  | succ k ih =>
    intro pat c t s r hp h
    unfold pathHoldNormalLoop at h
    obtain ⟨⟨row, c', s'⟩, hrow, h2⟩ := bind_ok h
    simp only at h2
    obtain ⟨t', _, h3⟩ := bind_ok h2
    have hr : PatT row := by
      split at hrow
      · exact pathRowLoop_t g _ _ _ _ _ _ _ PatT.empty hrow
      · cases hrow; exact PatT.empty
    exact ih _ c' t' s' r (hp.append hr) h3

theorem pathHoldNormal_t (ct : Nat) (t : Int) (ht : t ≤ g.endT) (s : Osu) (r : Pat × Osu)
    (h : pathHoldNormal A g ct t s = .ok r) : PatT r.1 := by
  unfold pathHoldNormal at h
  obtain ⟨⟨hold, s1⟩, _, h2⟩ := bind_ok h
  simp only at h2
  obtain ⟨pat, hadd, h3⟩ := bind_ok h2
  have hp := PatT.empty.add (t := .span t g.endT) ht hadd
  generalize getRandomColumn A s1 (randomStart g.total) g.total = rc at h3
  obtain ⟨c0, s2⟩ := rc
  simp only at h3
  generalize (if A.gt g.cd (A.pct 650) = true then noteCount A s2 (A.pct 63) (A.pct 0) (A.pct 0) (A.pct 0) (A.pct 0)
    else _ : Int × Osu) = nc at h3
  obtain ⟨n, s3⟩ := nc
  simp only at h3
  obtain ⟨smp, _, h4⟩ := bind_ok h3
  obtain ⟨iters, _, h5⟩ := bind_ok h4
  exact pathHoldNormalLoop_t g _ _ _ _ _ _ _ _ _ hp h5

theorem pathGenerateCore_t (hse : g.startT ≤ g.endT) (hseg : 0 ≤ g.seg) (s : Osu) (r : Pat × Osu)
    (h : pathGenerateCore A g s = .ok r) : PatT r.1 := by
  unfold pathGenerateCore at h
  split at h
  · obtain ⟨p, hp, h2⟩ := bind_ok h
    cases h2
    exact PatT.empty.add (t := .span g.startT g.endT) hse hp
  · split at h
    · unfold pathCoreMulti at h
      split at h
      · exact pathRandomHoldNotes_t g _ hse _ _ _ h
      · split at h
        · obtain ⟨n, _, h3⟩ := bind_ok h
          exact pathRandomNotes_t g _ _ _ _ _ h3
        · split at h
          · exact pathStair_t g _ _ _ h
          · split at h
            · exact pathMultiple_t g _ _ _ h
            · obtain ⟨d, _, h3⟩ := bind_ok h
              split at h3
              · exact pathNRandom_t g _ _ hse _ _ _ _ _ h3
              · split at h3
                · exact pathTiled_t g _ _ hseg _ _ h3
                · exact pathHoldNormal_t g _ _ hse _ _ h3
    · unfold pathCoreSingle at h
      split at h
      · exact pathRandomNotes_t g _ _ _ _ _ h
      · repeat' split at h
        all_goals exact pathNRandom_t g _ _ hse _ _ _ _ _ h

theorem pathSplit_t :
    ∀ (ns : List Note) (a b : Pat) (r : Pat × Pat), (∀ n ∈ ns, TimeOk n.time) → PatT a → PatT b →
      pathSplit g ns a b = .ok r → PatT r.1 ∧ PatT r.2 := by
  intro ns
  induction ns with
  | nil => intro a b r _ ha hb h; unfold pathSplit at h; cases h; exact ⟨ha, hb⟩
  | cons n ns ih =>
    intro a b r hns ha hb h
    unfold pathSplit at h
    simp only at h
    have hn : TimeOk n.time := hns n (List.mem_cons_self ..)
    have hrest : ∀ m ∈ ns, TimeOk m.time := fun m hm => hns m (List.mem_cons_of_mem _ hm)
    split at h
    · obtain ⟨a', had, h2⟩ := bind_ok h
      exact ih a' b r hrest (ha.add hn had) hb h2
    · obtain ⟨b', had, h2⟩ := bind_ok h
      exact ih a b' r hrest ha (hb.add hn had) h2

/-- **(c)** every note of every pattern the path generator returns has a non-negative duration,
for every PRNG state, flags, key count and ANY arithmetic, given `start_time ≤ end_time` and
`segment_duration ≥ 0`. -/
theorem pathGenerate_t (hse : g.startT ≤ g.endT) (hseg : 0 ≤ g.seg) (s : Osu) (r : List Pat × Osu)
    (h : pathGenerate A g s = .ok r) : ∀ p ∈ r.1, PatT p := by
  unfold pathGenerate at h
  obtain ⟨⟨p, s'⟩, hc, h2⟩ := bind_ok h
  have hp := pathGenerateCore_t g hse hseg _ _ hc
  simp only at h2 hp
  split at h2
  · cases h2
    intro q hq
    simp only [List.mem_singleton] at hq
    subst hq; exact hp
  · obtain ⟨⟨a, b⟩, hs, h3⟩ := bind_ok h2
    cases h3
    have := pathSplit_t g _ _ _ _ hp PatT.empty PatT.empty hs
    intro q hq
    simp only [List.mem_cons, List.not_mem_nil, or_false] at hq
    rcases hq with hq | hq
    · subst hq; exact this.1
    · subst hq; exact this.2

end path

end Rosu.ManiaPattern
