import RosuModel.Model.Lifetime

/-!
Invariant of the pointer-discipline model (`Model/Lifetime.lean`) and its preservation by every
admissible operation; the decoder scratch-buffer invariant.  Core Lean only.
-/

namespace Rosu.Lifetime

/-! ## pointers -/

theorem derefFault_none_iff (h : List Block) (p : Ptr) : derefFault h p = none ↔ validPtr h p := by
  unfold derefFault validPtr
  cases hb : h[p.block]? with
  | none => simp
  | some b =>
    by_cases hl : b.live = false
    · simp [hl]
    · by_cases hg : b.gen = p.gen
      · simp [hl, hg]
      · simp [hl, hg]

theorem firstFault_none_iff (h : List Block) (ps : List Ptr) :
    firstFault h ps = none ↔ ∀ p ∈ ps, validPtr h p := by
  induction ps with
  | nil => simp [firstFault]
  | cons p ps ih =>
    unfold firstFault
    cases hd : derefFault h p with
    | some f =>
      have : ¬ validPtr h p := by
        intro hv
        rw [(derefFault_none_iff h p).2 hv] at hd
        cases hd
      simp [this]
    | none =>
      have hv := (derefFault_none_iff h p).1 hd
      simp [ih, hv]

/-! ## the invariant -/

/-- Per-instance part of the invariant, relative to the heap and the instance's index. -/
structure InstOk (h : List Block) (i : Nat) (inst : Inst) : Prop where
  safe : inst.layout.safe = true
  /-- each of the instance's blocks exists, was allocated for it, and is live iff the instance is -/
  blocks : ∀ b ∈ inst.blocks, ∃ blk, h[b]? = some blk ∧ blk.tag = i ∧ blk.live = inst.alive
  distinct : inst.holder ≠ some inst.owner
  /-- pointers are stored only while the instance is alive; each targets the instance's own
  storage block at its current generation, and that block is frozen -/
  ptrs : ∀ p ∈ inst.ptrs, inst.alive = true ∧ p.block = inst.owner ∧
    ∃ blk, h[inst.owner]? = some blk ∧ blk.gen = p.gen ∧ blk.frozen = true
  holderGen : ∀ hb, inst.holder = some hb → ∃ blk, h[hb]? = some blk ∧ blk.gen = 0

/-- The invariant: every instance is fine, and every block of the heap belongs to an instance
(nothing is allocated behind the model's back, which gives the no-leak statement). -/
structure Wf (w : World) : Prop where
  insts : ∀ (i : Nat) (inst : Inst), w.insts[i]? = some inst → InstOk w.heap i inst
  owned : ∀ (b : Nat) (blk : Block), w.heap[b]? = some blk →
    ∃ inst : Inst, w.insts[blk.tag]? = some inst ∧ b ∈ inst.blocks

theorem wf_empty : Wf World.empty := by
  constructor <;> intro a b h <;> simp [World.empty] at h

theorem owner_mem_blocks (inst : Inst) : inst.owner ∈ inst.blocks := by simp [Inst.blocks]

theorem holder_mem_blocks {inst : Inst} {hb : Nat} (h : inst.holder = some hb) : hb ∈ inst.blocks := by
  simp [Inst.blocks, h]

/-- Every pointer a live, well-formed instance would dereference is valid. -/
theorem InstOk.use_valid {h : List Block} {i : Nat} {inst : Inst} (ok : InstOk h i inst)
    (ha : inst.alive = true) : ∀ p ∈ inst.usePtrs, validPtr h p := by
  intro p hp
  simp only [Inst.usePtrs, List.mem_append] at hp
  rcases hp with hp | hp
  · unfold Inst.holderPtrs at hp
    cases hh : inst.holder with
    | none => simp [hh] at hp
    | some hb =>
      simp [hh] at hp
      obtain ⟨blk, h1, _, h3⟩ := ok.blocks hb (holder_mem_blocks hh)
      obtain ⟨blk', h1', h2'⟩ := ok.holderGen hb hh
      rw [h1] at h1'
      cases h1'
      exact ⟨blk, by rw [hp]; exact h1, by rw [h3, ha], by rw [hp]; exact h2'⟩
  · obtain ⟨_, hb, blk, h1, h2, _⟩ := ok.ptrs p hp
    obtain ⟨blk', h1', _, h3'⟩ := ok.blocks inst.owner (owner_mem_blocks inst)
    rw [h1] at h1'
    cases h1'
    exact ⟨blk, by rw [hb]; exact h1, by rw [h3', ha], h2⟩

theorem InstOk.ptrs_valid {h : List Block} {i : Nat} {inst : Inst} (ok : InstOk h i inst)
    (ha : inst.alive = true) : ∀ p ∈ inst.ptrs, validPtr h p := fun p hp =>
  ok.use_valid ha p (by simp [Inst.usePtrs, hp])

/-- A dropped instance stores no pointer. -/
theorem InstOk.dead_no_ptrs {h : List Block} {i : Nat} {inst : Inst} (ok : InstOk h i inst)
    (hd : inst.alive = false) : inst.ptrs = [] := by
  cases hp : inst.ptrs with
  | nil => rfl
  | cons p ps =>
    have := (ok.ptrs p (by simp [hp])).1
    rw [hd] at this
    cases this

/-- `InstOk` only looks at the instance's own blocks. -/
theorem InstOk.heap_congr {h h' : List Block} {i : Nat} {inst : Inst} (ok : InstOk h i inst)
    (same : ∀ b ∈ inst.blocks, h'[b]? = h[b]?) : InstOk h' i inst where
  safe := ok.safe
  blocks := fun b hb => by rw [same b hb]; exact ok.blocks b hb
  distinct := ok.distinct
  ptrs := fun p hp => by
    rw [same _ (owner_mem_blocks inst)]
    exact ok.ptrs p hp
  holderGen := fun hb hh => by
    rw [same _ (holder_mem_blocks hh)]
    exact ok.holderGen hb hh

theorem getElem?_append_some {α} {l t : List α} {b : Nat} {x : α} (h : l[b]? = some x) :
    (l ++ t)[b]? = some x := by
  have hb : b < l.length := by
    rcases Nat.lt_or_ge b l.length with hlt | hge
    · exact hlt
    · rw [List.getElem?_eq_none hge] at h
      cases h
  rw [List.getElem?_append_left hb]
  exact h

/-! ## construct -/

theorem lt_of_getElem?_some {α} {l : List α} {b : Nat} {x : α} (h : l[b]? = some x) : b < l.length := by
  rcases Nat.lt_or_ge b l.length with hlt | hge
  · exact hlt
  · rw [List.getElem?_eq_none hge] at h
    cases h

theorem getElem?_pair {α} {x y z : α} {k : Nat} (h : [x, y][k]? = some z) :
    (k = 0 ∧ z = x) ∨ (k = 1 ∧ z = y) := by
  match k, h with
  | 0, h => left; simp at h; exact ⟨rfl, h.symm⟩
  | 1, h => right; simp at h; exact ⟨rfl, h.symm⟩
  | k + 2, h => simp at h

theorem getElem?_single {α} {x z : α} {k : Nat} (h : [x][k]? = some z) : k = 0 ∧ z = x := by
  match k, h with
  | 0, h => simp at h; exact ⟨rfl, h.symm⟩
  | k + 1, h => simp at h

theorem InstOk.append {h : List Block} {i : Nat} {inst : Inst} (ok : InstOk h i inst) (t : List Block) :
    InstOk (h ++ t) i inst where
  safe := ok.safe
  blocks := fun b hb => by
    obtain ⟨blk, h1, h2⟩ := ok.blocks b hb
    exact ⟨blk, getElem?_append_some h1, h2⟩
  distinct := ok.distinct
  ptrs := fun p hp => by
    obtain ⟨h0, h1, blk, h2, h3⟩ := ok.ptrs p hp
    exact ⟨h0, h1, blk, getElem?_append_some h2, h3⟩
  holderGen := fun hb hh => by
    obtain ⟨blk, h1, h2⟩ := ok.holderGen hb hh
    exact ⟨blk, getElem?_append_some h1, h2⟩

theorem newInst_ok (w : World) (l : Layout) (n : Nat) (hl : l.safe = true) :
    InstOk (w.heap ++ newBlocks w.insts.length l.holderBoxed) w.insts.length (newInst w l n) := by
  have hown : (w.heap ++ newBlocks w.insts.length l.holderBoxed)[w.heap.length]? =
      some (ownerBlk w.insts.length) := by
    unfold newBlocks
    cases l.holderBoxed <;> simp
  refine ⟨hl, ?_, ?_, ?_, ?_⟩
  · intro b hb
    cases hbx : l.holderBoxed
    · simp [Inst.blocks, newInst, hbx] at hb
      rw [hbx] at hown
      subst hb
      exact ⟨_, hown, rfl, rfl⟩
    · simp [Inst.blocks, newInst, hbx] at hb
      rw [hbx] at hown
      rcases hb with hb | hb
      · subst hb
        exact ⟨_, hown, rfl, rfl⟩
      · subst hb
        refine ⟨holderBlk w.insts.length, ?_, rfl, rfl⟩
        simp [newBlocks]
  · cases hbx : l.holderBoxed <;> simp [newInst, hbx]
  · intro p hp
    have := List.eq_of_mem_replicate hp
    subst this
    exact ⟨rfl, rfl, _, hown, rfl, rfl⟩
  · intro hb hh
    cases hbx : l.holderBoxed
    · simp [newInst, hbx] at hh
    · simp [newInst, hbx] at hh
      subst hh
      refine ⟨holderBlk w.insts.length, ?_, rfl⟩
      simp [newBlocks]

theorem construct_wf (w : World) (hw : Wf w) (l : Layout) (n : Nat) (hl : l.safe = true) :
    Wf (construct w l n) := by
  have hnew : (w.insts ++ [newInst w l n])[w.insts.length]? = some (newInst w l n) := by simp
  constructor
  · intro i inst hi
    simp only [construct] at hi ⊢
    rcases Nat.lt_or_ge i w.insts.length with hlt | hge
    · rw [List.getElem?_append_left hlt] at hi
      exact (hw.insts i inst hi).append _
    · rw [List.getElem?_append_right hge] at hi
      obtain ⟨h0, h1⟩ := getElem?_single hi
      have : i = w.insts.length := by omega
      subst this
      subst h1
      exact newInst_ok w l n hl
  · intro b blk hb
    simp only [construct] at hb ⊢
    rcases Nat.lt_or_ge b w.heap.length with hlt | hge
    · rw [List.getElem?_append_left hlt] at hb
      obtain ⟨inst, h1, h2⟩ := hw.owned b blk hb
      exact ⟨inst, getElem?_append_some h1, h2⟩
    · rw [List.getElem?_append_right hge] at hb
      cases hbx : l.holderBoxed
      · simp only [newBlocks, hbx] at hb
        obtain ⟨h0, h1⟩ := getElem?_single hb
        have : b = w.heap.length := by omega
        subst this
        subst h1
        exact ⟨_, hnew, by simp [Inst.blocks, newInst]⟩
      · simp only [newBlocks, hbx, if_true] at hb
        rcases getElem?_pair hb with ⟨h0, h1⟩ | ⟨h0, h1⟩
        · have : b = w.heap.length := by omega
          subst this
          subst h1
          exact ⟨_, hnew, by simp [Inst.blocks, newInst]⟩
        · have : b = w.heap.length + 1 := by omega
          subst this
          subst h1
          exact ⟨_, hnew, by simp [Inst.blocks, newInst, hbx]⟩

/-! ## move -/

theorem safe_not_inline {l : Layout} (h : l.safe = true) : l.ownerInline = false := by
  unfold Layout.safe at h
  cases hh : l.ownerInline
  · rfl
  · simp [hh] at h

/-- Replacing instance `i` by one with the same blocks / pointers / liveness keeps the invariant. -/
theorem wf_set_same (w : World) (hw : Wf w) (i : Nat) (inst inst' : Inst)
    (hi : w.insts[i]? = some inst) (ok' : InstOk w.heap i inst') (hb : inst'.blocks = inst.blocks) :
    Wf ⟨w.heap, w.insts.set i inst'⟩ := by
  have hlt := lt_of_getElem?_some hi
  constructor
  · intro j x hj
    by_cases hij : i = j
    · subst hij
      rw [List.getElem?_set_self hlt] at hj
      cases hj
      exact ok'
    · rw [List.getElem?_set_ne hij] at hj
      exact hw.insts j x hj
  · intro b blk hbk
    obtain ⟨x, h1, h2⟩ := hw.owned b blk hbk
    by_cases hij : i = blk.tag
    · subst hij
      rw [hi] at h1
      cases h1
      exact ⟨inst', List.getElem?_set_self hlt, by rw [hb]; exact h2⟩
    · exact ⟨x, by rw [List.getElem?_set_ne hij]; exact h1, h2⟩

theorem moveInst_wf (w : World) (hw : Wf w) (i to : Nat) : Wf (moveInst w i to) := by
  unfold moveInst
  cases hi : w.insts[i]? with
  | none => exact hw
  | some inst =>
    dsimp only
    by_cases ha : inst.alive = false
    · rw [if_pos ha]; exact hw
    · rw [if_neg ha]
      have ok := hw.insts i inst hi
      rw [safe_not_inline ok.safe]
      exact wf_set_same w hw i inst { inst with handle := to } hi
        ⟨ok.safe, ok.blocks, ok.distinct, ok.ptrs, ok.holderGen⟩ rfl

/-- A move of the struct does not touch the heap (for heap-allocated storage) nor the stored
pointers: the blocks keep their identity and generation. -/
theorem moveInst_heap (w : World) (i to : Nat) (inst : Inst) (hi : w.insts[i]? = some inst)
    (hh : inst.layout.ownerInline = false) :
    (moveInst w i to).heap = w.heap ∧
    ∀ inst', (moveInst w i to).insts[i]? = some inst' →
      inst'.ptrs = inst.ptrs ∧ inst'.owner = inst.owner ∧ inst'.holder = inst.holder := by
  unfold moveInst
  simp only [hi]
  by_cases ha : inst.alive = false
  · rw [if_pos ha]
    refine ⟨rfl, ?_⟩
    intro inst' h
    rw [hi] at h
    cases h
    exact ⟨rfl, rfl, rfl⟩
  · rw [if_neg ha, hh]
    refine ⟨rfl, ?_⟩
    intro inst' h
    simp only at h
    rw [List.getElem?_set_self (lt_of_getElem?_some hi)] at h
    cases h
    exact ⟨rfl, rfl, rfl⟩

/-! ## use (`next` / `nth` / `len`) -/

theorem useInst_ok (w : World) (hw : Wf w) (i : Nat) : useInst w i = .ok w := by
  unfold useInst
  cases hi : w.insts[i]? with
  | none => rfl
  | some inst =>
    dsimp only
    by_cases ha : inst.alive = false
    · rw [if_pos ha]
    · rw [if_neg ha]
      have ha' : inst.alive = true := by simpa using ha
      rw [(firstFault_none_iff _ _).2 ((hw.insts i inst hi).use_valid ha')]

/-! ## drop -/

theorem free_spec {h : List Block} {b : Nat} {blk : Block} (hb : h[b]? = some blk)
    (hl : blk.live = true) :
    free h b = .ok (h.set b { blk with live := false, frozen := false }) := by
  unfold free
  simp [hb, hl]

def dead (blk : Block) : Block := { blk with live := false, frozen := false }

/-- Result of dropping a live, well-formed instance: no fault, no pointer stays stored, exactly
the instance's blocks are killed (each was live: no double free), all other blocks untouched. -/
theorem dropFields_spec {h : List Block} {i : Nat} {inst : Inst} (ok : InstOk h i inst)
    (ha : inst.alive = true) :
    ∃ h', dropFields inst (h, inst.ptrs) inst.layout.order = .ok (h', []) ∧
      (∀ c, c ∉ inst.blocks → h'[c]? = h[c]?) ∧
      (∀ c ∈ inst.blocks, ∃ blk, h[c]? = some blk ∧ blk.live = true ∧ h'[c]? = some (dead blk)) := by
  obtain ⟨ob, ho1, _, ho3⟩ := ok.blocks inst.owner (owner_mem_blocks inst)
  have hol : ob.live = true := by rw [ho3, ha]
  have hsafe := ok.safe
  have hvalid := (firstFault_none_iff h inst.ptrs).2 (ok.ptrs_valid ha)
  have holt : inst.owner < h.length := by
    rcases Nat.lt_or_ge inst.owner h.length with hlt | hge
    · exact hlt
    · rw [List.getElem?_eq_none hge] at ho1; cases ho1
  unfold Layout.safe at hsafe
  simp only [Bool.and_eq_true, Bool.or_eq_true, Bool.not_eq_true', beq_iff_eq] at hsafe
  obtain ⟨_, hord⟩ := hsafe
  cases hh : inst.holder with
  | none =>
    have hblocks : inst.blocks = [inst.owner] := by simp [Inst.blocks, hh]
    refine ⟨h.set inst.owner (dead ob), ?_, ?_, ?_⟩
    · rcases hord with hord | ⟨hord, hg⟩
      · rw [hord]
        simp [dropFields, dropField, hh, hvalid, free_spec ho1 hol, dead]
      · rw [hord]
        simp [dropFields, dropField, hh, hg, free_spec ho1 hol, dead]
    · intro c hc
      rw [hblocks] at hc
      simp at hc
      rw [List.getElem?_set]
      simp [Ne.symm hc]
    · intro c hc
      rw [hblocks] at hc
      simp at hc
      subst hc
      exact ⟨ob, ho1, hol, by simp [holt]⟩
  | some hb =>
    obtain ⟨bb, hb1, _, hb3⟩ := ok.blocks hb (holder_mem_blocks hh)
    have hbl : bb.live = true := by rw [hb3, ha]
    have hne : hb ≠ inst.owner := by
      intro e
      exact ok.distinct (by rw [hh, e])
    have hblt : hb < h.length := by
      rcases Nat.lt_or_ge hb h.length with hlt | hge
      · exact hlt
      · rw [List.getElem?_eq_none hge] at hb1; cases hb1
    have hblocks : inst.blocks = [inst.owner, hb] := by simp [Inst.blocks, hh]
    rcases hord with hord | ⟨hord, hg⟩
    · -- borrower first: free holder, then owner
      have ho1' : (h.set hb (dead bb))[inst.owner]? = some ob := by
        rw [List.getElem?_set]; simp [hne, ho1]
      refine ⟨(h.set hb (dead bb)).set inst.owner (dead ob), ?_, ?_, ?_⟩
      · rw [hord]
        simp only [dropFields, dropField, hh, hvalid]
        have : (if inst.layout.glueDerefs = true then (none : Option Fault) else none) = none := by
          split <;> rfl
        simp only [this]
        have e1 := free_spec hb1 hbl
        simp only [dead] at ho1' ⊢
        rw [e1]
        simp only []
        rw [free_spec ho1' hol]
      · intro c hc
        rw [hblocks] at hc
        simp at hc
        rw [List.getElem?_set, List.getElem?_set]
        simp [Ne.symm hc.1, Ne.symm hc.2]
      · intro c hc
        rw [hblocks] at hc
        simp at hc
        rcases hc with hc | hc
        · subst hc
          exact ⟨ob, ho1, hol, by simp [holt]⟩
        · subst hc
          refine ⟨bb, hb1, hbl, ?_⟩
          rw [List.getElem?_set]
          simp [Ne.symm hne, hblt]
    · -- owner first, borrower's drop glue does not dereference
      have hb1' : (h.set inst.owner (dead ob))[hb]? = some bb := by
        rw [List.getElem?_set]; simp [Ne.symm hne, hb1]
      refine ⟨(h.set inst.owner (dead ob)).set hb (dead bb), ?_, ?_, ?_⟩
      · rw [hord]
        simp only [dropFields, dropField, hh, hg]
        have e1 := free_spec ho1 hol
        simp only [dead] at hb1' ⊢
        rw [e1]
        simp only [Bool.false_eq_true, if_false]
        rw [free_spec hb1' hbl]
      · intro c hc
        rw [hblocks] at hc
        simp at hc
        rw [List.getElem?_set, List.getElem?_set]
        simp [Ne.symm hc.1, Ne.symm hc.2]
      · intro c hc
        rw [hblocks] at hc
        simp at hc
        rcases hc with hc | hc
        · subst hc
          refine ⟨ob, ho1, hol, ?_⟩
          rw [List.getElem?_set]
          simp [hne, holt]
        · subst hc
          exact ⟨bb, hb1, hbl, by simp [hblt]⟩

theorem dropInst_wf (w : World) (hw : Wf w) (i : Nat) :
    ∃ w', dropInst w i = .ok w' ∧ Wf w' := by
  unfold dropInst
  cases hi : w.insts[i]? with
  | none => exact ⟨w, rfl, hw⟩
  | some inst =>
    by_cases ha : inst.alive = false
    · exact ⟨w, by simp [ha], hw⟩
    · have ha' : inst.alive = true := by simpa using ha
      have ok := hw.insts i inst hi
      obtain ⟨h', hd, hsame, hkill⟩ := dropFields_spec ok ha'
      simp only [ha, hd]
      refine ⟨_, rfl, ?_⟩
      have hlt : i < w.insts.length := by
        rcases Nat.lt_or_ge i w.insts.length with h | h
        · exact h
        · rw [List.getElem?_eq_none h] at hi; cases hi
      constructor
      · intro j inst' hj
        simp only [List.getElem?_set] at hj
        by_cases hij : i = j
        · subst hij
          simp [hlt] at hj
          subst hj
          exact {
            safe := ok.safe
            blocks := by
              intro b hb
              obtain ⟨blk, h1, _, h3⟩ := hkill b hb
              obtain ⟨blk', h1', h2', _⟩ := ok.blocks b hb
              rw [h1] at h1'; cases h1'
              exact ⟨dead blk, h3, h2', rfl⟩
            distinct := ok.distinct
            ptrs := by intro p hp; simp at hp
            holderGen := by
              intro hb hh
              obtain ⟨blk, h1, _, h3⟩ := hkill hb (holder_mem_blocks hh)
              obtain ⟨blk', h1', h2'⟩ := ok.holderGen hb hh
              rw [h1] at h1'; cases h1'
              exact ⟨dead blk, h3, h2'⟩ }
        · simp only [hij, if_false] at hj
          have ok' := hw.insts j inst' hj
          refine ok'.heap_congr ?_
          intro b hb
          apply hsame
          intro hbi
          -- a block of instance j cannot be a block of instance i: the ghost tags differ
          obtain ⟨blk, h1, h2, _⟩ := ok'.blocks b hb
          obtain ⟨blk', h1', h2', _⟩ := ok.blocks b hbi
          rw [h1] at h1'; cases h1'
          exact hij (h2'.symm.trans h2)
      · intro b blk hb
        by_cases hbi : b ∈ inst.blocks
        · obtain ⟨blk0, h1, _, h3⟩ := hkill b hbi
          rw [h3] at hb
          cases hb
          obtain ⟨blk', h1', h2', _⟩ := ok.blocks b hbi
          rw [h1] at h1'; cases h1'
          refine ⟨{ inst with alive := false, ptrs := [] }, ?_, hbi⟩
          simp [dead, h2', hlt]
        · rw [hsame b hbi] at hb
          obtain ⟨inst', h1, h2⟩ := hw.owned b blk hb
          by_cases hij : i = blk.tag
          · subst hij
            rw [hi] at h1; cases h1
            exact absurd h2 hbi
          · exact ⟨inst', by simp [hij]; exact h1, h2⟩

/-! ## every admissible operation preserves the invariant and does not fault -/

theorem step_wf (w : World) (hw : Wf w) (op : Op) (ha : op.admissible = true) :
    ∃ w', step w op = .ok w' ∧ Wf w' := by
  cases op with
  | construct l n => exact ⟨_, rfl, construct_wf w hw l n ha⟩
  | moveStruct i to => exact ⟨_, rfl, moveInst_wf w hw i to⟩
  | next i => exact ⟨w, useInst_ok w hw i, hw⟩
  | nth i k => exact ⟨w, useInst_ok w hw i, hw⟩
  | len i => exact ⟨w, useInst_ok w hw i, hw⟩
  | dropStruct i => exact dropInst_wf w hw i
  | mutateOwner i => simp [Op.admissible] at ha
  | cloneBitwise i => simp [Op.admissible] at ha

theorem run_wf (ops : List Op) : ∀ (w : World), Wf w → (∀ op ∈ ops, op.admissible = true) →
    ∃ w', run w ops = .ok w' ∧ Wf w' := by
  induction ops with
  | nil => intro w hw _; exact ⟨w, rfl, hw⟩
  | cons op ops ih =>
    intro w hw hall
    obtain ⟨w1, h1, hw1⟩ := step_wf w hw op (hall op (by simp))
    obtain ⟨w2, h2, hw2⟩ := ih w1 hw1 (fun o ho => hall o (by simp [ho]))
    exact ⟨w2, by simp [run, h1, h2], hw2⟩

/-- Liveness is monotone: a dead block is never revived (block ids are not reused), so together
with "freeing a dead block is a fault" every block is freed at most once. -/
theorem step_dead_stays_dead (w : World) (hw : Wf w) (op : Op) (ha : op.admissible = true)
    (w' : World) (hs : step w op = .ok w') (b : Nat) (blk : Block)
    (hb : w.heap[b]? = some blk) (hd : blk.live = false) :
    ∃ blk', w'.heap[b]? = some blk' ∧ blk'.live = false := by
  cases op with
  | construct l n =>
    simp only [step, Except.ok.injEq] at hs
    subst hs
    exact ⟨blk, getElem?_append_some hb, hd⟩
  | moveStruct i to =>
    simp only [step, Except.ok.injEq] at hs
    subst hs
    unfold moveInst
    cases hi : w.insts[i]? with
    | none => exact ⟨blk, hb, hd⟩
    | some inst =>
      dsimp only
      by_cases hal : inst.alive = false
      · rw [if_pos hal]; exact ⟨blk, hb, hd⟩
      · rw [if_neg hal, safe_not_inline (hw.insts i inst hi).safe]
        exact ⟨blk, hb, hd⟩
  | next i => simp only [step, useInst_ok w hw i, Except.ok.injEq] at hs; subst hs; exact ⟨blk, hb, hd⟩
  | nth i k => simp only [step, useInst_ok w hw i, Except.ok.injEq] at hs; subst hs; exact ⟨blk, hb, hd⟩
  | len i => simp only [step, useInst_ok w hw i, Except.ok.injEq] at hs; subst hs; exact ⟨blk, hb, hd⟩
  | dropStruct i =>
    simp only [step] at hs
    unfold dropInst at hs
    cases hi : w.insts[i]? with
    | none => rw [hi] at hs; simp only [Except.ok.injEq] at hs; subst hs; exact ⟨blk, hb, hd⟩
    | some inst =>
      rw [hi] at hs
      dsimp only at hs
      by_cases hal : inst.alive = false
      · rw [if_pos hal] at hs; simp only [Except.ok.injEq] at hs; subst hs; exact ⟨blk, hb, hd⟩
      · rw [if_neg hal] at hs
        have hal' : inst.alive = true := by simpa using hal
        obtain ⟨h', hdf, hsame, hkill⟩ := dropFields_spec (hw.insts i inst hi) hal'
        rw [hdf] at hs
        simp only [Except.ok.injEq] at hs
        subst hs
        by_cases hbi : b ∈ inst.blocks
        · obtain ⟨blk0, _, _, h3⟩ := hkill b hbi
          exact ⟨dead blk0, h3, rfl⟩
        · exact ⟨blk, by rw [hsame b hbi]; exact hb, hd⟩
  | mutateOwner i => simp [Op.admissible] at ha
  | cloneBitwise i => simp [Op.admissible] at ha

theorem free_dead_is_fault {h : List Block} {b : Nat} {blk : Block} (hb : h[b]? = some blk)
    (hd : blk.live = false) : free h b = .error .doubleFree := by
  unfold free
  simp [hb, hd]

/-- Pointers dereferenced by an operation are valid in a well-formed world. -/
theorem derefs_valid (w : World) (hw : Wf w) (op : Op) : ∀ p ∈ derefs w op, validPtr w.heap p := by
  intro p hp
  cases op with
  | next i | nth i _ | len i =>
    simp only [derefs] at hp
    cases hi : w.insts[i]? with
    | none => simp [hi] at hp
    | some inst =>
      simp only [hi] at hp
      by_cases ha : inst.alive = true
      · simp only [ha, if_true] at hp
        exact (hw.insts i inst hi).use_valid ha p hp
      · simp [ha] at hp
  | dropStruct i =>
    simp only [derefs] at hp
    cases hi : w.insts[i]? with
    | none => simp [hi] at hp
    | some inst =>
      simp only [hi] at hp
      by_cases ha : inst.alive = true
      · by_cases hg : inst.layout.glueDerefs = true
        · simp only [ha, hg, Bool.and_self, if_true] at hp
          exact (hw.insts i inst hi).ptrs_valid ha p hp
        · simp [hg] at hp
      · simp [ha] at hp
  | construct l n => simp [derefs] at hp
  | moveStruct i to => simp [derefs] at hp
  | mutateOwner i => simp [derefs] at hp
  | cloneBitwise i => simp [derefs] at hp

/-- When every instance has been dropped, every block is dead. -/
theorem no_leak_of_wf (w : World) (hw : Wf w) (hall : ∀ inst ∈ w.insts, inst.alive = false) :
    ∀ blk ∈ w.heap, blk.live = false := by
  intro blk hb
  obtain ⟨b, hlt, hget⟩ := List.getElem_of_mem hb
  have hb' : w.heap[b]? = some blk := by rw [List.getElem?_eq_getElem hlt, hget]
  obtain ⟨inst, h1, h2⟩ := hw.owned b blk hb'
  obtain ⟨blk', h3, _, h5⟩ := (hw.insts _ inst h1).blocks b h2
  rw [hb'] at h3; cases h3
  rw [h5]
  exact hall inst (List.mem_of_getElem? h1)

/-! ## (c) decoder scratch buffer -/

theorem all_replicate_eq (k g : Nat) : (List.replicate k g).all (· == g) = true := by
  simp

/-- One call of the real `point_split` on an empty scratch buffer: no fault, and the buffer is
empty again afterwards whatever the closure returned. -/
theorem stepD_real (d : Dec) (he : d.scratch = []) (op : DOp) :
    ∃ d', stepD realProg d op = .ok d' ∧ d'.scratch = [] := by
  cases op with
  | enterLine => refine ⟨_, rfl, ?_⟩; split <;> simp [he]
  | leaveLine => refine ⟨_, rfl, ?_⟩; split <;> simp [he]
  | pointSplit k r =>
    unfold stepD
    by_cases hc : (d.alive = false || d.inLine = false) = true
    · simp only [hc, if_true]
      exact ⟨d, rfl, he⟩
    · simp only [hc]
      have hall : (List.replicate k d.lineGen).all (· == d.lineGen) = true := all_replicate_eq k d.lineGen
      cases r <;>
        simp [realProg, execProg, execStmt, viewFault, he, hall]

theorem runD_real (ops : List DOp) : ∀ (d : Dec), d.scratch = [] →
    ∃ d', runD realProg d ops = .ok d' ∧ d'.scratch = [] := by
  induction ops with
  | nil => intro d he; exact ⟨d, rfl, he⟩
  | cons op ops ih =>
    intro d he
    obtain ⟨d1, h1, he1⟩ := stepD_real d he op
    obtain ⟨d2, h2, he2⟩ := ih d1 he1
    exact ⟨d2, by simp [runD, h1, h2], he2⟩

end Rosu.Lifetime
