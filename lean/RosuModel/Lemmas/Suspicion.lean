import RosuModel.Model.Suspicion

/-!
Structural lemmas about `Rosu.Susp.scan` / `check` that hold in ANY arithmetic (core Lean only).
-/
namespace Rosu.Susp

variable {T P : Type}

/-- the object makes the loop return `RedFlag` (if it is reached and not too dense) -/
def flagged (A : Arith T P) (mode : Mode) (o : Obj T P) : Bool :=
  o.isSlider && checkRepeats o.repeats && (checkPos A o && osuOrCatch mode)

/-- the object increments `repeats_beyond_threshold` -/
def countsRepeats (A : Arith T P) (mode : Mode) (o : Obj T P) : Bool :=
  o.isSlider && checkRepeats o.repeats && !(checkPos A o && osuOrCatch mode)

/-- the object increments `pos_beyond_threshold` -/
def countsPos (A : Arith T P) (o : Obj T P) : Bool :=
  o.isSlider && !checkRepeats o.repeats && checkPos A o

/-- no object of `pre` is too dense w.r.t. the whole list `pre ++ rest` -/
def DenseFreePrefix (A : Arith T P) (mode : Mode) : List (Obj T P) → List (Obj T P) → Prop
  | [], _ => True
  | h :: t, rest => tooDense A mode h (h :: t ++ rest) = false ∧ DenseFreePrefix A mode t rest

/-- no object is too dense -/
def DenseFree (A : Arith T P) (mode : Mode) : List (Obj T P) → Prop
  | [] => True
  | h :: t => tooDense A mode h (h :: t) = false ∧ DenseFree A mode t

theorem denseFreePrefix_nil_iff (A : Arith T P) (mode : Mode) (l : List (Obj T P)) :
    DenseFreePrefix A mode l [] ↔ DenseFree A mode l := by
  induction l with
  | nil => exact Iff.rfl
  | cons h t ih =>
    unfold DenseFreePrefix DenseFree
    rw [List.append_nil, ih]

/-- one step of the loop on an object that triggers nothing -/
theorem scan_cons_quiet (A : Arith T P) (mode : Mode) (h : Obj T P) (t : List (Obj T P)) (pb rb : Nat)
    (hd : tooDense A mode h (h :: t) = false) (hf : flagged A mode h = false) :
    scan A mode (h :: t) pb rb =
      scan A mode t (pb + (if countsPos A h then 1 else 0)) (rb + (if countsRepeats A mode h then 1 else 0)) := by
  conv => lhs; rw [scan]
  unfold flagged at hf
  unfold countsPos countsRepeats
  rw [hd]
  cases hs : h.isSlider <;> cases hr : checkRepeats h.repeats <;> cases hp : (checkPos A h) <;>
    cases hm : osuOrCatch mode <;> simp_all

/-- the loop skips a prefix in which nothing triggers, accumulating the two counters -/
theorem scan_append_quiet (A : Arith T P) (mode : Mode) (rest : List (Obj T P)) :
    ∀ (pre : List (Obj T P)) (pb rb : Nat), DenseFreePrefix A mode pre rest →
      (∀ o ∈ pre, flagged A mode o = false) →
      scan A mode (pre ++ rest) pb rb =
        scan A mode rest (pb + pre.countP (countsPos A)) (rb + pre.countP (countsRepeats A mode)) := by
  intro pre
  induction pre with
  | nil => intro pb rb _ _; simp
  | cons h t ih =>
    intro pb rb hd hf
    obtain ⟨hd1, hd2⟩ := hd
    rw [List.cons_append, scan_cons_quiet A mode h (t ++ rest) pb rb hd1 (hf h List.mem_cons_self),
      ih _ _ hd2 (fun o ho => hf o (List.mem_cons_of_mem _ ho))]
    rw [List.countP_cons, List.countP_cons]
    congr 1 <;> omega

/-- first trigger is density -/
theorem scan_density (A : Arith T P) (mode : Mode) (h : Obj T P) (t : List (Obj T P)) (pb rb : Nat)
    (hd : tooDense A mode h (h :: t) = true) : scan A mode (h :: t) pb rb = .density := by
  rw [scan, hd]; rfl

/-- first trigger is the red flag (and the object is not too dense) -/
theorem scan_redFlag (A : Arith T P) (mode : Mode) (h : Obj T P) (t : List (Obj T P)) (pb rb : Nat)
    (hd : tooDense A mode h (h :: t) = false) (hf : flagged A mode h = true) :
    scan A mode (h :: t) pb rb = .redFlag := by
  rw [scan]
  unfold flagged at hf
  rw [hd]
  simp only [Bool.and_eq_true] at hf
  obtain ⟨⟨h1, h2⟩, h3, h4⟩ := hf
  simp [h1, h2, h3, h4]

theorem final_ne_density (mode : Mode) (a b : Nat) : final mode a b ≠ .density ∧ final mode a b ≠ .redFlag ∧
    final mode a b ≠ .objectCount ∧ final mode a b ≠ .length := by
  unfold final
  cases mode <;> simp <;> (split <;> try split) <;> simp

/-- the loop answers `ok` exactly if nothing triggers and the final rules answer `ok` -/
theorem scan_ok_iff (A : Arith T P) (mode : Mode) :
    ∀ (l : List (Obj T P)) (pb rb : Nat), scan A mode l pb rb = .ok ↔
      (DenseFree A mode l ∧ (∀ o ∈ l, flagged A mode o = false) ∧
        final mode (pb + l.countP (countsPos A)) (rb + l.countP (countsRepeats A mode)) = .ok) := by
  intro l
  induction l with
  | nil => intro pb rb; simp [scan, DenseFree]
  | cons h t ih =>
    intro pb rb
    cases hd : tooDense A mode h (h :: t)
    · cases hf : flagged A mode h
      · rw [scan_cons_quiet A mode h t pb rb hd hf, ih]
        simp only [DenseFree]
        rw [List.countP_cons, List.countP_cons]
        constructor
        · rintro ⟨h1, h2, h3⟩
          refine ⟨⟨hd, h1⟩, ?_, ?_⟩
          · intro o ho
            rcases List.mem_cons.mp ho with rfl | ho
            · exact hf
            · exact h2 o ho
          · rw [← h3]; congr 1 <;> omega
        · rintro ⟨⟨_, h1⟩, h2, h3⟩
          refine ⟨h1, fun o ho => h2 o (List.mem_cons_of_mem _ ho), ?_⟩
          rw [← h3]; congr 1 <;> omega
      · rw [scan_redFlag A mode h t pb rb hd hf]
        constructor
        · intro hc; cases hc
        · rintro ⟨_, h2, _⟩
          have := h2 h List.mem_cons_self
          rw [hf] at this; cases this
    · rw [scan_density A mode h t pb rb hd]
      constructor
      · intro hc; cases hc
      · rintro ⟨h1, _⟩
        simp only [DenseFree] at h1
        rw [hd] at h1; cases h1.1

/-- `check` answers `ok` exactly if none of the rules applies -/
theorem check_ok_iff (A : Arith T P) (mode : Mode) (objs : List (Obj T P)) :
    check A mode objs = .ok ↔
      (tooManyObjects mode objs.length = false ∧ tooLong A objs = false ∧ DenseFree A mode objs ∧
        (∀ o ∈ objs, flagged A mode o = false) ∧
        final mode (objs.countP (countsPos A)) (objs.countP (countsRepeats A mode)) = .ok) := by
  unfold check
  cases h1 : tooManyObjects mode objs.length
  · cases h2 : tooLong A objs
    · simp only [Bool.false_eq_true, if_false, true_and]
      rw [scan_ok_iff, Nat.zero_add, Nat.zero_add]
    · simp
  · simp

/-- `final` is `ok` iff taiko/mania or both counters are within the limit -/
theorem final_ok_iff (mode : Mode) (a b : Nat) :
    final mode a b = .ok ↔ (osuOrCatch mode = false ∨ (a ≤ thresholdFlagged ∧ b ≤ thresholdFlagged)) := by
  unfold final osuOrCatch
  cases mode <;> simp
  all_goals
    split
    · simp; omega
    · split
      · simp; omega
      · simp; omega

/-- density of the suffix form, read with indices into the whole list -/
theorem denseFree_index (A : Arith T P) (mode : Mode) :
    ∀ (l : List (Obj T P)), DenseFree A mode l ↔
      ∀ (i : Nat) (c : Obj T P), l[i]? = some c → tooDense A mode c (l.drop i) = false := by
  intro l
  induction l with
  | nil => simp [DenseFree]
  | cons h t ih =>
    unfold DenseFree
    rw [ih]
    constructor
    · rintro ⟨h1, h2⟩ i c hc
      cases i with
      | zero =>
        simp only [List.getElem?_cons_zero, Option.some.injEq] at hc
        subst hc; simpa using h1
      | succ i =>
        simp only [List.getElem?_cons_succ] at hc
        simpa using h2 i c hc
    · intro hall
      refine ⟨by simpa using hall 0 h (by simp), fun i c hc => ?_⟩
      simpa using hall (i + 1) c (by simpa using hc)

theorem denseWithin_false_iff (A : Arith T P) (per : Nat) (limit : T) (c : Obj T P) (l : List (Obj T P)) (i : Nat) :
    denseWithin A per limit c (l.drop i) = false ↔
      ∀ o, l[i + per]? = some o → A.lt (A.sub o.start c.start) limit = false := by
  unfold denseWithin
  rw [List.getElem?_drop]
  cases l[i + per]? <;> simp

end Rosu.Susp
