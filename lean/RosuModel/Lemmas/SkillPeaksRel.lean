import RosuModel.Lemmas.SkillPeaks
import Mathlib.Data.List.Forall2

/-!
Two skills run over the same objects (same section structure, `processAll_shape`): if the values of the
first never exceed those of the second (as bit patterns of non-negative doubles, where the order of the
patterns is the numeric order), then every stored / exported peak of the first is `≤` the corresponding
peak of the second.  Used for taiko's `single_color_stamina` against `stamina`
(`mono_stamina_factor = (mono/stamina)^5 ≤ 1`).
-/

namespace Rosu.Skill
open Rosu.SV

variable {T P σ σ' : Type}

/-- lock-step hypotheses: `RS` relates the two private states -/
structure PairLe (A : Arith T) (F : StrainFns T P σ) (G : StrainFns T P σ') (RS : σ → σ' → Prop) : Prop where
  fmax_mono : ∀ a a' b b', a ≤ a' → b ≤ b' → A.fmax a b ≤ A.fmax a' b'
  fmax_sign : ∀ a b, a < SIGN → b < SIGN → A.fmax a b < SIGN
  sv : ∀ s s' o, RS s s' → RS (F.strainValueAt s o).1 (G.strainValueAt s' o).1
        ∧ (F.strainValueAt s o).2 ≤ (G.strainValueAt s' o).2 ∧ (G.strainValueAt s' o).2 < SIGN
  ini : ∀ s s' t o, RS s s' → RS (F.initialStrain s t o).1 (G.initialStrain s' t o).1
        ∧ (F.initialStrain s t o).2 ≤ (G.initialStrain s' t o).2 ∧ (G.initialStrain s' t o).2 < SIGN

def PeaksLe (RS : σ → σ' → Prop) (st : State T σ) (st' : State T σ') : Prop :=
  st.sectionEnd = st'.sectionEnd ∧ st.peaks.len = st'.peaks.len ∧ RS st.sk st'.sk
    ∧ st.sectionPeak ≤ st'.sectionPeak ∧ st'.sectionPeak < SIGN
    ∧ List.Forall₂ (· ≤ ·) st.peaks.abs st'.peaks.abs

theorem canon_le_self (a : Nat) : canon a ≤ a := by unfold canon; split <;> omega

theorem canon_mono {a b : Nat} (h : a ≤ b) (hb : b < SIGN) : canon a ≤ canon b := by
  by_cases hb0 : b = 0
  · have : a = 0 := by omega
    rw [this, hb0]; exact Nat.le_refl _
  · have : canon b = b := canon_of_value ((isValueBits_iff b).2 ⟨by omega, hb⟩)
    rw [this]; exact Nat.le_trans (canon_le_self a) h

theorem push_forall2 {s s' : SVec} (hw : WF s) (hw' : WF s') (hl : s.len + 1 < SIGN) (hl' : s'.len + 1 < SIGN)
    {a b : Nat} (hab : a ≤ b) (hb : b < SIGN) (h : List.Forall₂ (· ≤ ·) s.abs s'.abs) :
    List.Forall₂ (· ≤ ·) (s.push a).abs (s'.push b).abs := by
  rw [push_abs s a (hw.bound hl), push_abs s' b (hw'.bound hl')]
  exact List.rel_append h (List.Forall₂.cons (canon_mono hab hb) List.Forall₂.nil)

variable (A : Arith T) (F : StrainFns T P σ) (G : StrainFns T P σ') (RS : σ → σ' → Prop)

theorem sectionLoop_peaksLe (hbF : Bounded A F) (hbG : Bounded A G) (hp : PairLe A F G RS) (o : Obj T P) :
    ∀ (fuel : Nat) (st s1 : State T σ) (st' s1' : State T σ'),
    sectionLoop A F o fuel st = some s1 → sectionLoop A G o fuel st' = some s1' →
    s1.peaks.len + 1 < SIGN → Good st → Good st' → PeaksLe RS st st' → PeaksLe RS s1 s1' := by
  intro fuel
  induction fuel with
  | zero =>
    intro st s1 st' s1' h h' _ _ _ hr
    simp only [sectionLoop] at h h'
    rw [hr.1] at h
    split at h'
    · cases h'
    · rename_i hgt
      rw [if_neg hgt] at h
      cases h; cases h'; exact hr
  | succ fuel ih =>
    intro st s1 st' s1' h h' hl hg hg' hr
    simp only [sectionLoop] at h h'
    rw [hr.1] at h
    split at h'
    · rename_i hgt
      rw [if_pos hgt] at h
      have hm := sectionLoop_mono A F o fuel _ _ h
      simp only [push_len] at hm
      have hlen : st'.peaks.len + 1 < SIGN := by rw [← hr.2.1]; omega
      have hi := hp.ini st.sk st'.sk st'.sectionEnd o hr.2.2.1
      refine ih _ _ _ _ h h' hl ⟨push_WF hg.1 _ hg.2 (by omega), hbF.ini _ _ _⟩
        ⟨push_WF hg'.1 _ hg'.2 hlen, hbG.ini _ _ _⟩ ?_
      refine ⟨rfl, ?_, hi.1, hi.2.1, hi.2.2, ?_⟩
      · simp only [push_len]; rw [hr.2.1]
      · exact push_forall2 hg.1 hg'.1 (by omega) hlen hr.2.2.2.1 hr.2.2.2.2.1 hr.2.2.2.2.2
    · rename_i hgt
      rw [if_neg hgt] at h
      cases h; cases h'; exact hr

theorem process_peaksLe (hbF : Bounded A F) (hbG : Bounded A G) (hp : PairLe A F G RS) (fuel : Nat)
    (o : Obj T P) (st s1 : State T σ) (st' s1' : State T σ')
    (h : process A F fuel st o = some s1) (h' : process A G fuel st' o = some s1')
    (hl : s1.peaks.len + 1 < SIGN) (hg : Good st) (hg' : Good st') (hr : PeaksLe RS st st') :
    PeaksLe RS s1 s1' := by
  unfold process at h h'
  simp only at h h'
  split at h
  · cases h
  · rename_i a ha
    split at h'
    · cases h'
    · rename_i b hb
      cases h; cases h'
      have hg0 : Good (if o.idx = 0 then { st with sectionEnd := A.ceilSec o.startTime } else st) := by
        split <;> exact hg
      have hg0' : Good (if o.idx = 0 then { st' with sectionEnd := A.ceilSec o.startTime } else st') := by
        split <;> exact hg'
      have hr0 : PeaksLe RS (if o.idx = 0 then { st with sectionEnd := A.ceilSec o.startTime } else st)
          (if o.idx = 0 then { st' with sectionEnd := A.ceilSec o.startTime } else st') := by
        split
        · exact ⟨rfl, hr.2.1, hr.2.2.1, hr.2.2.2.1, hr.2.2.2.2.1, hr.2.2.2.2.2⟩
        · exact hr
      have h1 := sectionLoop_peaksLe A F G RS hbF hbG hp o fuel _ a _ b ha hb hl hg0 hg0' hr0
      have hv := hp.sv a.sk b.sk o h1.2.2.1
      exact ⟨h1.1, h1.2.1, hv.1, hp.fmax_mono _ _ _ _ hv.2.1 h1.2.2.2.1,
        hp.fmax_sign _ _ hv.2.2 h1.2.2.2.2.1, h1.2.2.2.2.2⟩

theorem processAll_peaksLe (hbF : Bounded A F) (hbG : Bounded A G) (hp : PairLe A F G RS) (fuel : Nat)
    (os : List (Obj T P)) : ∀ (st s1 : State T σ) (st' s1' : State T σ'),
    processAll A F fuel st os = some s1 → processAll A G fuel st' os = some s1' →
    s1.peaks.len + 1 < SIGN → Good st → Good st' → PeaksLe RS st st' → PeaksLe RS s1 s1' := by
  induction os with
  | nil =>
    intro st s1 st' s1' h h' _ _ _ hr
    simp only [processAll] at h h'; cases h; cases h'; exact hr
  | cons o os ih =>
    intro st s1 st' s1' h h' hl hg hg' hr
    unfold processAll at h h'
    split at h
    · cases h
    · rename_i a ha
      split at h'
      · cases h'
      · rename_i b hb
        have hm := processAll_mono A F fuel os a s1 h
        have hla : a.peaks.len + 1 < SIGN := by omega
        have hr1 := process_peaksLe A F G RS hbF hbG hp fuel o st a st' b ha hb hla hg hg' hr
        have hlb : b.peaks.len + 1 < SIGN := by rw [← hr1.2.1]; exact hla
        exact ih a s1 b s1' h h' hl (process_good A F hbF fuel o st a ha hla hg)
          (process_good A G hbG fuel o st' b hb hlb hg') hr1

/-- exported peaks: same length, pointwise `≤` -/
theorem exported_peaks_le (hbF : Bounded A F) (hbG : Bounded A G) (hp : PairLe A F G RS) (fuel : Nat)
    (zero : T) (s0 : σ) (s0' : σ') (h0 : RS s0 s0') (os : List (Obj T P)) (s1 : State T σ) (s1' : State T σ')
    (h : processAll A F fuel (State.init zero s0) os = some s1)
    (h' : processAll A G fuel (State.init zero s0') os = some s1') (hl : s1.peaks.len + 1 < SIGN) :
    List.Forall₂ (· ≤ ·) (currentStrainPeaks s1).abs (currentStrainPeaks s1').abs := by
  have hinit : PeaksLe RS (State.init zero s0) (State.init zero s0') := by
    refine ⟨rfl, rfl, h0, Nat.le_refl _, by simp [State.init, SIGN], ?_⟩
    simp [State.init, SVec.empty, SVec.abs, absList]
  have hr := processAll_peaksLe A F G RS hbF hbG hp fuel os _ s1 _ s1' h h' hl
    (init_good zero s0) (init_good zero s0') hinit
  have hg := processAll_good A F hbF fuel os _ s1 h hl (init_good zero s0)
  have hl' : s1'.peaks.len + 1 < SIGN := by rw [← hr.2.1]; exact hl
  have hg' := processAll_good A G hbG fuel os _ s1' h' hl' (init_good zero s0')
  exact push_forall2 hg.1 hg'.1 hl hl' hr.2.2.2.1 hr.2.2.2.2.1 hr.2.2.2.2.2

end Rosu.Skill
