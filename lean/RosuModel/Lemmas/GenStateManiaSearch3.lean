import RosuModel.Lemmas.GenStateManiaSearch2

/-!
C12 lemmas for the mania nested search, part 3: `maniaGenRaw` in the search arm is
search + shift on a well-formed context, and the specification all C12 clauses need — now for
**every** arm (`maniaGenRaw_spec`).
-/
namespace Rosu.GenState
set_option linter.unusedSectionVars false
set_option linter.unusedSimpArgs false

variable {R : Type} [NumOps R]
open NumOps

/-- The search context `maniaGenRaw` builds (mania/performance/mod.rs, `generate_state`, arm `_`). -/
def maniaCtxOfB (c : ManiaCfg) (b : ManiaB R) (acc : R) : ManiaCtx R :=
  let nObjects₀ := min (passedU32 c.passed) c.nObjects
  let misses := optMin b.misses nObjects₀
  let nObjects := if c.classic then nObjects₀ else nObjects₀ + c.nHoldNotes
  let nRemaining := nObjects - misses
  { acc := acc, target := mul acc (ofNat ((if c.classic then 60 else 61) * nObjects)),
    classic := c.classic, nObjects := nObjects, nRemaining := nRemaining, misses := misses,
    g320 := b.n320, g300 := b.n300, g200 := b.n200, g100 := b.n100, g50 := b.n50,
    n320 := optMin b.n320 nRemaining, n300 := optMin b.n300 nRemaining,
    n200 := optMin b.n200 nRemaining, n100 := optMin b.n100 nRemaining,
    n50 := optMin b.n50 nRemaining }

/-- With accuracy and at least two open hit results, `maniaGenRaw` is search + shift. -/
theorem maniaGenRaw_search_eq (c : ManiaCfg) (b : ManiaB R) (acc : R) (hacc : b.acc = some acc)
    (h2 : 2 ≤ noneCount b) :
    maniaGenRaw c b
      = ⟨(maniaShift (maniaCtxOfB c b acc) c.prio (maniaSearch (maniaCtxOfB c b acc)).val).1,
         (maniaSearch (maniaCtxOfB c b acc)).hit,
         decide ((maniaCtxOfB c b acc).misses ≤ (maniaCtxOfB c b acc).nObjects)
           && (maniaSearch (maniaCtxOfB c b acc)).ok
           && (maniaShift (maniaCtxOfB c b acc) c.prio (maniaSearch (maniaCtxOfB c b acc)).val).2⟩ := by
  obtain ⟨a0, a1, a2, a3, a4, a5, a6⟩ := b
  simp only at hacc
  subst hacc
  cases a1 <;> cases a2 <;> cases a3 <;> cases a4 <;> cases a5 <;>
    first
      | rfl
      | (exfalso; simp [noneCount] at h2)

theorem maniaCtxOfB_wf (c : ManiaCfg) (b : ManiaB R) (acc : R) (h2 : 2 ≤ noneCount b) :
    ManiaCtxWF (maniaCtxOfB c b acc) := by
  have hm := optMin_le b.misses (min (passedU32 c.passed) c.nObjects)
  refine ⟨?_, rfl, rfl, rfl, rfl, rfl, h2⟩
  simp only [maniaCtxOfB]
  split <;> omega

theorem maniaCtxOfB_nObjects (c : ManiaCfg) (b : ManiaB R) (acc : R) :
    (maniaCtxOfB c b acc).nObjects = maniaJ c := rfl

theorem maniaCtxOfB_misses (c : ManiaCfg) (b : ManiaB R) (acc : R) :
    (maniaCtxOfB c b acc).misses = optMin b.misses (maniaJ0 c) := rfl

theorem maniaCtxOfB_nRemaining (c : ManiaCfg) (b : ManiaB R) (acc : R) :
    (maniaCtxOfB c b acc).nRemaining = maniaJ c - optMin b.misses (maniaJ0 c) := rfl

/-- Everything the C12 clauses need about a generated mania state, for every arm.  The only
place where "a candidate was accepted" matters is a provided `n50` (`keep50`). -/
structure ManiaSpec (b : ManiaB R) (J misses : Nat) (accepted : Bool) (s : ManiaState) : Prop where
  le320 : s.n320 ≤ J - misses
  le300 : s.n300 ≤ J - misses
  le200 : s.n200 ≤ J - misses
  le100 : s.n100 ≤ J - misses
  le50 : s.n50 ≤ J - misses
  sum_eq : maniaProvided b + misses ≤ J → s.totalHits = J
  keep320 : ∀ n, b.n320 = some n → maniaProvided b + misses ≤ J →
    (noneCount b = 0 → maniaProvided b + misses = J) → s.n320 = n
  keep300 : ∀ n, b.n300 = some n → maniaProvided b + misses ≤ J →
    (noneCount b = 0 → maniaProvided b + misses = J) → s.n300 = n
  keep200 : ∀ n, b.n200 = some n → maniaProvided b + misses ≤ J →
    (noneCount b = 0 → maniaProvided b + misses = J) → s.n200 = n
  keep100 : ∀ n, b.n100 = some n → maniaProvided b + misses ≤ J →
    (noneCount b = 0 → maniaProvided b + misses = J) → s.n100 = n
  keep50 : ∀ n, b.n50 = some n → accepted = true → maniaProvided b + misses ≤ J →
    (noneCount b = 0 → maniaProvided b + misses = J) → s.n50 = n

theorem ManiaNSSpec.toSpec {b : ManiaB R} {J misses : Nat} {s : ManiaState} (h : ManiaNSSpec b J misses s)
    (accepted : Bool) : ManiaSpec b J misses accepted s :=
  ⟨h.le320, h.le300, h.le200, h.le100, h.le50, h.sum_eq, h.keep320, h.keep300, h.keep200, h.keep100,
    fun n hn _ => h.keep50 n hn⟩

theorem optMin_le_provided (b : ManiaB R) (cap : Nat) :
    optMin b.n320 cap + optMin b.n300 cap + optMin b.n200 cap + optMin b.n100 cap + optMin b.n50 cap
      ≤ maniaProvided b := by
  have h1 := optMin_le_getD b.n320 cap
  have h2 := optMin_le_getD b.n300 cap
  have h3 := optMin_le_getD b.n200 cap
  have h4 := optMin_le_getD b.n100 cap
  have h5 := optMin_le_getD b.n50 cap
  unfold maniaProvided
  omega

/-- In the nested-search arm the generated state satisfies the invariant of `best`, phrased with
the builder's fields: `pK` = the provided value clamped to `judgements − misses` (`0` when absent). -/
theorem maniaGenRaw_search_good (c : ManiaCfg) (b : ManiaB R) (hs : ManiaSearchArm b) :
    ManiaGoodB b.n320.isNone b.n300.isNone b.n200.isNone b.n100.isNone b.n50.isNone
      (maniaJ c - optMin b.misses (maniaJ0 c)) (maniaJ c) (optMin b.misses (maniaJ0 c))
      (optMin b.n320 (maniaJ c - optMin b.misses (maniaJ0 c)))
      (optMin b.n300 (maniaJ c - optMin b.misses (maniaJ0 c)))
      (optMin b.n200 (maniaJ c - optMin b.misses (maniaJ0 c)))
      (optMin b.n100 (maniaJ c - optMin b.misses (maniaJ0 c)))
      (optMin b.n50 (maniaJ c - optMin b.misses (maniaJ0 c)))
      (maniaGenRaw c b).accepted (maniaGenRaw c b).state := by
  obtain ⟨hacc, h2⟩ := hs
  rcases hb : b.acc with _ | acc
  · rw [hb] at hacc; simp at hacc
  rw [maniaGenRaw_search_eq c b acc hb h2]
  exact maniaSearchShift_good (maniaCtxOfB c b acc) (maniaCtxOfB_wf c b acc h2) c.prio

/-- In the nested-search arm every provided result is clamped to `judgements − misses`
**individually** and otherwise untouched (`n50`: once a candidate was accepted) — this is what the
code does when the provided results do not jointly fit. -/
theorem maniaGenRaw_search_clamped (c : ManiaCfg) (b : ManiaB R) (hs : ManiaSearchArm b) :
    (∀ n, b.n320 = some n → (maniaGenRaw c b).state.n320 = min n (maniaJ c - optMin b.misses (maniaJ0 c))) ∧
    (∀ n, b.n300 = some n → (maniaGenRaw c b).state.n300 = min n (maniaJ c - optMin b.misses (maniaJ0 c))) ∧
    (∀ n, b.n200 = some n → (maniaGenRaw c b).state.n200 = min n (maniaJ c - optMin b.misses (maniaJ0 c))) ∧
    (∀ n, b.n100 = some n → (maniaGenRaw c b).state.n100 = min n (maniaJ c - optMin b.misses (maniaJ0 c))) ∧
    ((maniaGenRaw c b).accepted = true →
      ∀ n, b.n50 = some n → (maniaGenRaw c b).state.n50 = min n (maniaJ c - optMin b.misses (maniaJ0 c))) := by
  have hg := maniaGenRaw_search_good c b hs
  refine ⟨?_, ?_, ?_, ?_, ?_⟩
  · intro n hn; rw [hn] at hg; exact hg.k320 rfl
  · intro n hn; rw [hn] at hg; exact hg.k300 rfl
  · intro n hn; rw [hn] at hg; exact hg.k200 rfl
  · intro n hn; rw [hn] at hg; exact hg.k100 rfl
  · intro ha n hn; rw [hn] at hg; exact hg.k50 rfl ha

/-- The specification holds in the nested-search arm. -/
theorem maniaGenRaw_search_spec (c : ManiaCfg) (b : ManiaB R) (hs : ManiaSearchArm b) :
    ManiaSpec b (maniaJ c) (optMin b.misses (maniaJ0 c)) (maniaGenRaw c b).accepted (maniaGenRaw c b).state := by
  have hg := maniaGenRaw_search_good c b hs
  obtain ⟨k1, k2, k3, k4, k5⟩ := maniaGenRaw_search_clamped c b hs
  generalize (maniaGenRaw c b).state = s at *
  generalize (maniaGenRaw c b).accepted = hit at *
  generalize maniaJ c = J at *
  generalize optMin b.misses (maniaJ0 c) = m at *
  obtain ⟨l1, l2, l3, l4, l5⟩ := hg.les (optMin_le _ _) (optMin_le _ _) (optMin_le _ _) (optMin_le _ _)
  have hprov := optMin_le_provided b (J - m)
  have hp1 : b.n320.getD 0 ≤ maniaProvided b := by unfold maniaProvided; omega
  have hp2 : b.n300.getD 0 ≤ maniaProvided b := by unfold maniaProvided; omega
  have hp3 : b.n200.getD 0 ≤ maniaProvided b := by unfold maniaProvided; omega
  have hp4 : b.n100.getD 0 ≤ maniaProvided b := by unfold maniaProvided; omega
  have hp5 : b.n50.getD 0 ≤ maniaProvided b := by unfold maniaProvided; omega
  refine ⟨l1, l2, l3, l4, l5, ?_, ?_, ?_, ?_, ?_, ?_⟩
  · intro hfit
    apply hg.total_eq
    omega
  · intro n hn hfit _
    rw [k1 n hn]; rw [hn] at hp1; simp only [Option.getD_some] at hp1; omega
  · intro n hn hfit _
    rw [k2 n hn]; rw [hn] at hp2; simp only [Option.getD_some] at hp2; omega
  · intro n hn hfit _
    rw [k3 n hn]; rw [hn] at hp3; simp only [Option.getD_some] at hp3; omega
  · intro n hn hfit _
    rw [k4 n hn]; rw [hn] at hp4; simp only [Option.getD_some] at hp4; omega
  · intro n hn ha hfit _
    rw [k5 ha n hn]; rw [hn] at hp5; simp only [Option.getD_some] at hp5; omega

/-- The specification holds in **every** arm. -/
theorem maniaGenRaw_spec (c : ManiaCfg) (b : ManiaB R) :
    ManiaSpec b (maniaJ c) (optMin b.misses (maniaJ0 c)) (maniaGenRaw c b).accepted (maniaGenRaw c b).state := by
  by_cases hs : ManiaSearchArm b
  · exact maniaGenRaw_search_spec c b hs
  · exact (maniaGenRaw_ns_spec c b hs).1.toSpec _

/-- outside the nested search a candidate is always "accepted" -/
theorem maniaGenRaw_accepted_of_not_search (c : ManiaCfg) (b : ManiaB R) (hs : ¬ ManiaSearchArm b) :
    (maniaGenRaw c b).accepted = true := (maniaGenRaw_ns_spec c b hs).2

end Rosu.GenState
