import RosuModel.Lemmas.PipelineManiaConvert
import RosuModel.Lemmas.SkillOpsReal
import Mathlib.Tactic.Linarith

/-!
Invert over exact real arithmetic: every hold note `apply_invert_to_beatmap` creates has a
non-negative duration (C19 clause "non-negative durations" for the Invert mod).
-/
namespace Rosu.PipelineManiaConvert
open Rosu.SkillOps

theorem insertF_sorted (x : ℝ) : ∀ l : List ℝ, l.Pairwise (· ≤ ·) → (insertF x l).Pairwise (· ≤ ·) ∧
    ∀ y ∈ insertF x l, y = x ∨ y ∈ l := by
  intro l
  induction l with
  | nil => intro _; exact ⟨by simp [insertF], by simp [insertF]⟩
  | cons y ys ih =>
    intro hs
    unfold insertF
    have hy := List.pairwise_cons.mp hs
    by_cases h : y ≤ x
    · have ht : FOps.totalGe x y = true := by simp [FOps.totalGe, h]
      rw [if_pos ht]
      obtain ⟨s1, s2⟩ := ih hy.2
      refine ⟨List.pairwise_cons.mpr ⟨?_, s1⟩, ?_⟩
      · intro z hz
        rcases s2 z hz with rfl | hz'
        · exact h
        · exact hy.1 z hz'
      · intro z hz
        rcases List.mem_cons.mp hz with rfl | hz'
        · exact Or.inr (List.mem_cons_self ..)
        · rcases s2 z hz' with rfl | h3
          · exact Or.inl rfl
          · exact Or.inr (List.mem_cons_of_mem _ h3)
    · have ht : ¬ (FOps.totalGe x y = true) := by simp [FOps.totalGe, h]
      rw [if_neg ht]
      refine ⟨List.pairwise_cons.mpr ⟨?_, hs⟩, ?_⟩
      · intro z hz
        have hxy : x ≤ y := le_of_lt (not_le.mp h)
        rcases List.mem_cons.mp hz with rfl | hz'
        · exact hxy
        · exact le_trans hxy (hy.1 z hz')
      · intro z hz
        rcases List.mem_cons.mp hz with rfl | hz'
        · exact Or.inl rfl
        · exact Or.inr hz'

theorem foldl_insertF_sorted : ∀ (l acc : List ℝ), acc.Pairwise (· ≤ ·) →
    (l.foldl (fun acc x => insertF x acc) acc).Pairwise (· ≤ ·) := by
  intro l
  induction l with
  | nil => intro acc h; exact h
  | cons x xs ih => intro acc h; exact ih _ (insertF_sorted x acc h).1

theorem windows2_le : ∀ l : List ℝ, l.Pairwise (· ≤ ·) → ∀ w ∈ windows2 l, w.1 ≤ w.2 := by
  intro l
  induction l with
  | nil => intro _ w hw; simp [windows2] at hw
  | cons a t ih =>
    intro hs w hw
    cases t with
    | nil => simp [windows2] at hw
    | cons b r =>
      simp only [windows2, List.mem_cons] at hw
      have h1 := List.pairwise_cons.mp hs
      rcases hw with rfl | hw
      · exact h1.1 b (List.mem_cons_self ..)
      · exact ih h1.2 w hw

theorem mapM_mem {α β : Type} (f : α → Option β) : ∀ (l : List α) (r : List β), l.mapM f = some r →
    ∀ y ∈ r, ∃ x ∈ l, f x = some y := by
  intro l
  induction l with
  | nil => intro r h y hy; simp at h; subst h; cases hy
  | cons a l ih =>
    intro r h y hy
    simp only [List.mapM_cons] at h
    cases ha : f a with
    | none => simp [ha] at h
    | some b =>
      cases hl : l.mapM f with
      | none => simp [ha, hl] at h
      | some bs =>
        simp [ha, hl] at h
        subst h
        rcases List.mem_cons.mp hy with rfl | hy'
        · exact ⟨a, List.mem_cons_self .., ha⟩
        · obtain ⟨x, hx, hfx⟩ := ih bs hl y hy'
          exact ⟨x, List.mem_cons_of_mem _ hx, hfx⟩

/-- every hold note one column of Invert creates has `duration ≥ 0` -/
theorem invertColumn_durations (pts : List (ℝ × ℝ)) (buf r : List (HitObj ℝ ℝ))
    (h : invertColumn pts buf = some r) : ∀ o ∈ r, ∀ d, o.dur = some d → 0 ≤ d := by
  unfold invertColumn at h
  intro o ho d hd
  obtain ⟨w, hw, hf⟩ := mapM_mem _ _ _ h o ho
  have hsorted := foldl_insertF_sorted
    (((buf.filter (·.dur.isNone)).map (·.start)) ++
      ((buf.filterMap fun h => h.dur.map fun d => [h.start, h.start + d])).flatten) [] List.Pairwise.nil
  have hle := windows2_le _ hsorted w hw
  cases hb : buf.head? with
  | none => simp [hb] at hf
  | some first =>
    simp only [hb, Option.some.injEq] at hf
    subst hf
    simp only [Option.some.injEq] at hd
    subst hd
    simp only [r_fmax, r_sub, r_div]
    have : 0 ≤ (w.2 - w.1) / (2.0 : ℝ) := by
      apply div_nonneg (by linarith)
      norm_num
    exact le_trans this (le_max_left _ _)

end Rosu.PipelineManiaConvert

namespace Rosu.PipelineManiaConvert
open Rosu.SkillOps Rosu.PipelineMania

/-- **every hold note `apply_invert_to_beatmap` creates has a non-negative duration** (ℝ), for every
object list, key count and timing points (beat lengths of any sign) -/
theorem applyInvert_durations (P : PrepOps ℝ ℝ) (pts : List (ℝ × ℝ)) (total : ℝ) (cols : Nat)
    (l r : List (HitObj ℝ ℝ)) (h : applyInvert P pts total cols l = some r) :
    ∀ o ∈ r, ∀ d, o.dur = some d → 0 ≤ d := by
  unfold applyInvert at h
  cases hm : (List.range cols).mapM (fun c => invertColumn pts (l.filter fun h => column P h.x total = c)) with
  | none => simp [hm] at h
  | some cs =>
    simp only [hm, Option.map_some, Option.some.injEq] at h
    subst h
    intro o ho d hd
    have ho' := (sortByStart_perm _).subset ho
    simp only [List.mem_flatten] at ho'
    obtain ⟨col, hcol, hoc⟩ := ho'
    obtain ⟨c, _, hc⟩ := mapM_mem _ _ _ hm col hcol
    exact invertColumn_durations pts _ col hc o hoc d hd

end Rosu.PipelineManiaConvert
