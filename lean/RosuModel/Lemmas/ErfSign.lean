import RosuModel.Lemmas.ErfCerts
import RosuModel.Lemmas.PerfCalcTaiko

/-!
# From the polynomial certificates to facts about the transcribed `erf_imp` rows (ℝ)
-/
namespace Rosu.PerfCalc
open Rosu.Gen.PerfConsts

theorem erfB_real (i : Nat) : (erfB i : ℝ) = ((bq i : ℚ) : ℝ) := dval_real _

/-- one row of `erf_imp` on its interval: the division is in-domain and `0 < b + P/Q < z` -/
theorem erfRow_bounds (n d : List DLit) (i : Nat) (shift w : ℚ) (shiftR : ℝ) (hs : shiftR = (shift : ℝ))
    (hp : posCert n d (bq i) w = true) (hu : upCert n d (bq i) shift w = true) (z : ℝ)
    (h1 : shiftR ≤ z) (h2 : z ≤ shiftR + w) :
    0 < evalPoly (z - shiftR) (tbl d)
      ∧ 0 < (erfRow z shiftR n d i).2 + (erfRow z shiftR n d i).1
      ∧ (erfRow z shiftR n d i).2 + (erfRow z shiftR n d i).1 < z := by
  subst hs
  have hx0 : 0 ≤ z - (shift : ℝ) := by linarith
  have hxw : z - (shift : ℝ) ≤ (w : ℝ) := by linarith
  obtain ⟨hq, hpos⟩ := posCert_sound n d (bq i) w hp (z - shift) hx0 hxw
  have hup := upCert_sound n d (bq i) shift w hu (z - shift) hx0 hxw
  have hrow : (erfRow z (shift : ℝ) n d i).2 + (erfRow z (shift : ℝ) n d i).1
      = ((bq i : ℚ) : ℝ) + evalPoly (z - (shift : ℝ)) (tbl n) / evalPoly (z - (shift : ℝ)) (tbl d) := by
    unfold erfRow
    simp only [erfB_real, r_sub, r_div]
  refine ⟨by simpa [r_sub] using hq, ?_, ?_⟩
  · rw [hrow]
    have : ((bq i : ℚ) : ℝ) + evalPoly (z - shift) (tbl n) / evalPoly (z - shift) (tbl d)
        = (((bq i : ℚ) : ℝ) * evalPoly (z - shift) (tbl d) + evalPoly (z - shift) (tbl n)) / evalPoly (z - shift) (tbl d) := by
      field_simp
    rw [this]
    exact div_pos hpos hq
  · rw [hrow]
    have : ((bq i : ℚ) : ℝ) + evalPoly (z - shift) (tbl n) / evalPoly (z - shift) (tbl d) - z
        = ((((bq i : ℚ) : ℝ) - shift - (z - shift)) * evalPoly (z - shift) (tbl d) + evalPoly (z - shift) (tbl n))
            / evalPoly (z - shift) (tbl d) := by
      field_simp
      ring
    have hneg : ((bq i : ℚ) : ℝ) + evalPoly (z - shift) (tbl n) / evalPoly (z - shift) (tbl d) - z < 0 := by
      rw [this]
      exact div_neg_of_neg_of_pos hup hq
    linarith

/-- the middle branch of `erf_imp`: with `0 < s < z` (`s = b + P/Q`) the value `g·b + g·r`, `g = exp(−z²)/z`, lies in
`(0, 1)` — only `0 < exp ≤ 1` for a non-positive argument is used, no numeric bound on `exp` -/
theorem erf_mid_mem (z b r : ℝ) (hz : 0 < z) (h0 : 0 < b + r) (h1 : b + r < z) :
    0 < Real.exp (-z * z) / z * b + Real.exp (-z * z) / z * r
      ∧ Real.exp (-z * z) / z * b + Real.exp (-z * z) / z * r < 1 := by
  have he : 0 < Real.exp (-z * z) := Real.exp_pos _
  have he1 : Real.exp (-z * z) ≤ 1 := by
    apply Real.exp_le_one_iff.mpr
    nlinarith [mul_pos hz hz]
  have hg : 0 < Real.exp (-z * z) / z := div_pos he hz
  have e : Real.exp (-z * z) / z * b + Real.exp (-z * z) / z * r = Real.exp (-z * z) / z * (b + r) := by ring
  rw [e]
  refine ⟨mul_pos hg h0, ?_⟩
  have hg1 : Real.exp (-z * z) / z ≤ 1 / z := div_le_div_of_nonneg_right he1 hz.le
  calc Real.exp (-z * z) / z * (b + r) ≤ 1 / z * (b + r) := mul_le_mul_of_nonneg_right hg1 h0.le
    _ < 1 / z * z := mul_lt_mul_of_pos_left h1 (by positivity)
    _ = 1 := by field_simp

end Rosu.PerfCalc
