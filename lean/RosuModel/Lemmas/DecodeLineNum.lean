import RosuModel.Lemmas.DecodeLineHit

/-!
Numeric facts about the number layer (`Model/DecodeNum.lean`): what an accepted limited parse
guarantees (not NaN, inside `[-limit, limit]`, hence finite), `clamp` ranges, and that rounding never
produces a NaN.  `F.num` is the numeric order key of a non-NaN bit pattern (both zeros ↦ 0).
-/
namespace Rosu.DecodeLine

theorem lt_false_le (F : Fmt) (a b : Nat) (ha : F.isNaN a = false) (hb : F.isNaN b = false)
    (h : F.lt a b = false) : F.num b ≤ F.num a := by
  unfold Fmt.lt at h
  simp only [ha, hb, Bool.not_false, Bool.true_and, decide_eq_false_iff_not] at h
  omega

/-- an accepted limited parse is not NaN and passed both limit tests -/
theorem parseLim_ok (F : Fmt) (s : Str) (lim n : Nat) (h : F.parseLim s lim = .ok n) :
    F.isNaN n = false ∧ F.lt n (F.neg lim) = false ∧ F.lt lim n = false := by
  unfold Fmt.parseLim at h
  cases hr : F.parseRaw s with
  | none => rw [hr] at h; cases h
  | some m =>
    rw [hr] at h
    simp only [] at h
    by_cases h1 : F.lt m (F.neg lim) = true
    · rw [if_pos h1] at h; cases h
    · rw [if_neg h1] at h
      by_cases h2 : F.lt lim m = true
      · rw [if_pos h2] at h; cases h
      · rw [if_neg h2] at h
        by_cases h3 : F.isNaN m = true
        · rw [if_pos h3] at h; cases h
        · rw [if_neg h3] at h
          injection h with h
          subst h
          exact ⟨by simpa using h3, by simpa using h1, by simpa using h2⟩

theorem mag_le_of_num (F : Fmt) (n : Nat) (L : Nat) (h1 : -(L : Int) ≤ F.num n) (h2 : F.num n ≤ L) :
    F.mag n ≤ L := by
  unfold Fmt.num at h1 h2
  cases hneg : F.isNeg n <;> simp only [hneg, Bool.false_eq_true, if_false, if_true] at h1 h2 <;> omega

/-- (c) every accepted limited parse is not NaN and its magnitude is at most the limit's -/
theorem parseLim_bounds (F : Fmt) (s : Str) (lim n : Nat) (h : F.parseLim s lim = .ok n)
    (hl : F.isNaN lim = false) (hnl : F.isNaN (F.neg lim) = false)
    (hp : F.num lim = (F.mag lim : Int)) (hn : F.num (F.neg lim) = -(F.mag lim : Int)) :
    F.isNaN n = false ∧ F.mag n ≤ F.mag lim := by
  obtain ⟨h0, h1, h2⟩ := parseLim_ok F s lim n h
  refine ⟨h0, mag_le_of_num F n _ ?_ ?_⟩
  · rw [← hn]; exact lt_false_le F n _ h0 hnl h1
  · rw [← hp]; exact lt_false_le F _ n hl h0 h2

theorem parseF64_bounds (s : Str) (n : Nat) (h : parseF64 s = .ok n) :
    F64.mag n ≤ maxParse64 ∧ F64.isFinite n = true := by
  have := parseLim_bounds F64 s maxParse64 n h (by decide) (by decide) (by decide) (by decide)
  have hm : F64.mag maxParse64 = maxParse64 := by decide
  rw [hm] at this
  refine ⟨this.2, ?_⟩
  unfold Fmt.isFinite
  have : maxParse64 < F64.infBits := by decide
  simp only [decide_eq_true_eq]
  omega

theorem parseF32_bounds (s : Str) (n : Nat) (h : parseF32 s = .ok n) :
    F32.mag n ≤ maxParse32 ∧ F32.isFinite n = true := by
  have := parseLim_bounds F32 s maxParse32 n h (by decide) (by decide) (by decide) (by decide)
  have hm : F32.mag maxParse32 = maxParse32 := by decide
  rw [hm] at this
  refine ⟨this.2, ?_⟩
  unfold Fmt.isFinite
  have : maxParse32 < F32.infBits := by decide
  simp only [decide_eq_true_eq]
  omega

theorem parseCoord64_bounds (s : Str) (n : Nat) (h : F64.parseLim s maxCoord64 = .ok n) :
    F64.mag n ≤ maxCoord64 := by
  have := parseLim_bounds F64 s maxCoord64 n h (by decide) (by decide) (by decide) (by decide)
  have hm : F64.mag maxCoord64 = maxCoord64 := by decide
  rw [hm] at this
  exact this.2

/-- `clamp` of a non-NaN value lies in the interval -/
theorem clamp_bounds (F : Fmt) (x lo hi : Nat) (hx : F.isNaN x = false) (hlo : F.isNaN lo = false)
    (hhi : F.isNaN hi = false) (hle : F.num lo ≤ F.num hi) :
    F.isNaN (F.clamp x lo hi) = false ∧ F.num lo ≤ F.num (F.clamp x lo hi) ∧
      F.num (F.clamp x lo hi) ≤ F.num hi := by
  unfold Fmt.clamp
  by_cases h1 : F.lt x lo = true
  · rw [if_pos h1]; exact ⟨hlo, Int.le_refl _, hle⟩
  · rw [if_neg h1]
    by_cases h2 : F.lt hi x = true
    · rw [if_pos h2]; exact ⟨hhi, hle, Int.le_refl _⟩
    · rw [if_neg h2]
      exact ⟨hx, lt_false_le F x lo hx hlo (by simpa using h1), lt_false_le F hi x hhi hx (by simpa using h2)⟩

theorem roundPos_le_inf (F : Fmt) (n d : Nat) : roundPos F n d ≤ F.infBits := by
  unfold roundPos
  by_cases h0 : n = 0
  · rw [if_pos h0]; exact Nat.zero_le _
  · rw [if_neg h0]
    split
    · exact Nat.le_refl _
    · omega

theorem withSign64_not_nan (neg : Bool) (m : Nat) (h : m ≤ F64.infBits) :
    F64.isNaN (F64.withSign neg m) = false := by
  have hi : F64.infBits = 9218868437227405312 := by decide
  have hs : F64.signBit = 9223372036854775808 := by decide
  unfold Fmt.isNaN Fmt.mag Fmt.withSign
  rw [hi] at h ⊢
  rw [hs]
  cases neg <;> simp only [Bool.false_eq_true, if_false, if_true, decide_eq_false_iff_not] <;> omega

/-- IEEE division as modelled never yields NaN (finite operands, non-zero divisor) -/
theorem div64_not_nan (a b : Nat) : F64.isNaN (F64.div a b) = false := by
  unfold Fmt.div
  simp only []
  apply withSign64_not_nan
  split <;> exact roundPos_le_inf _ _ _

end Rosu.DecodeLine
