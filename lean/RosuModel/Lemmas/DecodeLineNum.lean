import RosuModel.Lemmas.DecodeLineHit

/-!
Numeric facts about the number layer (`Model/DecodeNum.lean`): what an accepted limited parse
guarantees (not NaN, inside `[-limit, limit]`, hence finite), `clamp` ranges, and that rounding never
produces a NaN.  `F.num` is the numeric order key of a non-NaN bit pattern (both zeros ↦ 0).
-/
namespace Rosu.DecodeLine

theorem lt_false_le (F : Fmt) (a b : Nat) (ha : F.isNaN a = false) (hb : F.isNaN b = false)
    (h : F.lt a b = false) : F.num b ≤ F.num a := by
  unfold Fmt.lt at h
  simp only [ha, hb, Bool.not_false, Bool.true_and, decide_eq_false_iff_not] at h
  omega

/-- an accepted limited parse is not NaN and passed both limit tests -/
theorem parseLim_ok (F : Fmt) (s : Str) (lim n : Nat) (h : F.parseLim s lim = .ok n) :
    F.isNaN n = false ∧ F.lt n (F.neg lim) = false ∧ F.lt lim n = false := by
  unfold Fmt.parseLim at h
  cases hr : F.parseRaw s with
  | none => rw [hr] at h; cases h
  | some m =>
    rw [hr] at h
    simp only [] at h
    by_cases h1 : F.lt m (F.neg lim) = true
    · rw [if_pos h1] at h; cases h
    · rw [if_neg h1] at h
      by_cases h2 : F.lt lim m = true
      · rw [if_pos h2] at h; cases h
      · rw [if_neg h2] at h
        by_cases h3 : F.isNaN m = true
        · rw [if_pos h3] at h; cases h
        · rw [if_neg h3] at h
          injection h with h
          subst h
          exact ⟨by simpa using h3, by simpa using h1, by simpa using h2⟩

theorem mag_le_of_num (F : Fmt) (n : Nat) (L : Nat) (h1 : -(L : Int) ≤ F.num n) (h2 : F.num n ≤ L) :
    F.mag n ≤ L := by
  unfold Fmt.num at h1 h2
  cases hneg : F.isNeg n <;> simp only [hneg, Bool.false_eq_true, if_false, if_true] at h1 h2 <;> omega

/-- (c) every accepted limited parse is not NaN and its magnitude is at most the limit's -/
theorem parseLim_bounds (F : Fmt) (s : Str) (lim n : Nat) (h : F.parseLim s lim = .ok n)
    (hl : F.isNaN lim = false) (hnl : F.isNaN (F.neg lim) = false)
    (hp : F.num lim = (F.mag lim : Int)) (hn : F.num (F.neg lim) = -(F.mag lim : Int)) :
    F.isNaN n = false ∧ F.mag n ≤ F.mag lim := by
  obtain ⟨h0, h1, h2⟩ := parseLim_ok F s lim n h
  refine ⟨h0, mag_le_of_num F n _ ?_ ?_⟩
  · rw [← hn]; exact lt_false_le F n _ h0 hnl h1
  · rw [← hp]; exact lt_false_le F _ n hl h0 h2

theorem parseF64_bounds (s : Str) (n : Nat) (h : parseF64 s = .ok n) :
    F64.mag n ≤ maxParse64 ∧ F64.isFinite n = true := by
  have := parseLim_bounds F64 s maxParse64 n h (by decide) (by decide) (by decide) (by decide)
  have hm : F64.mag maxParse64 = maxParse64 := by decide
  rw [hm] at this
  refine ⟨this.2, ?_⟩
  unfold Fmt.isFinite
  have : maxParse64 < F64.infBits := by decide
  simp only [decide_eq_true_eq]
  omega

theorem parseF32_bounds (s : Str) (n : Nat) (h : parseF32 s = .ok n) :
    F32.mag n ≤ maxParse32 ∧ F32.isFinite n = true := by
  have := parseLim_bounds F32 s maxParse32 n h (by decide) (by decide) (by decide) (by decide)
  have hm : F32.mag maxParse32 = maxParse32 := by decide
  rw [hm] at this
  refine ⟨this.2, ?_⟩
  unfold Fmt.isFinite
  have : maxParse32 < F32.infBits := by decide
  simp only [decide_eq_true_eq]
  omega

theorem parseCoord64_bounds (s : Str) (n : Nat) (h : F64.parseLim s maxCoord64 = .ok n) :
    F64.mag n ≤ maxCoord64 := by
  have := parseLim_bounds F64 s maxCoord64 n h (by decide) (by decide) (by decide) (by decide)
  have hm : F64.mag maxCoord64 = maxCoord64 := by decide
  rw [hm] at this
  exact this.2

/-- `clamp` of a non-NaN value lies in the interval -/
theorem clamp_bounds (F : Fmt) (x lo hi : Nat) (hx : F.isNaN x = false) (hlo : F.isNaN lo = false)
    (hhi : F.isNaN hi = false) (hle : F.num lo ≤ F.num hi) :
    F.isNaN (F.clamp x lo hi) = false ∧ F.num lo ≤ F.num (F.clamp x lo hi) ∧
      F.num (F.clamp x lo hi) ≤ F.num hi := by
  unfold Fmt.clamp
  by_cases h1 : F.lt x lo = true
  · rw [if_pos h1]; exact ⟨hlo, Int.le_refl _, hle⟩
  · rw [if_neg h1]
    by_cases h2 : F.lt hi x = true
    · rw [if_pos h2]; exact ⟨hhi, hle, Int.le_refl _⟩
    · rw [if_neg h2]
      exact ⟨hx, lt_false_le F x lo hx hlo (by simpa using h1), lt_false_le F hi x hhi hx (by simpa using h2)⟩

theorem roundPos_le_inf (F : Fmt) (n d : Nat) : roundPos F n d ≤ F.infBits := by
  unfold roundPos
  by_cases h0 : n = 0
  · rw [if_pos h0]; exact Nat.zero_le _
  · rw [if_neg h0]
    split
    · exact Nat.le_refl _
    · omega

theorem withSign64_not_nan (neg : Bool) (m : Nat) (h : m ≤ F64.infBits) :
    F64.isNaN (F64.withSign neg m) = false := by
  have hi : F64.infBits = 9218868437227405312 := by decide
  have hs : F64.signBit = 9223372036854775808 := by decide
  unfold Fmt.isNaN Fmt.mag Fmt.withSign
  rw [hi] at h ⊢
  rw [hs]
  cases neg <;> simp only [Bool.false_eq_true, if_false, if_true, decide_eq_false_iff_not] <;> omega

/-- IEEE division as modelled never yields NaN (finite operands, non-zero divisor) -/
theorem div64_not_nan (a b : Nat) : F64.isNaN (F64.div a b) = false := by
  unfold Fmt.div
  simp only []
  apply withSign64_not_nan
  split <;> exact roundPos_le_inf _ _ _

theorem ofBin64_not_nan (neg : Bool) (m : Nat) (e : Int) : F64.isNaN (F64.ofBin neg m e) = false := by
  unfold Fmt.ofBin
  apply withSign64_not_nan
  split <;> exact roundPos_le_inf _ _ _

/-- IEEE subtraction as modelled never yields NaN (finite operands) -/
theorem sub64_not_nan (a b : Nat) : F64.isNaN (F64.sub a b) = false := by
  unfold Fmt.sub
  split
  · split <;> decide
  · exact ofBin64_not_nan _ _ _

/-- `x.max(0.0)` of a non-NaN value is not NaN and not negative -/
theorem max0_nonneg (a : Nat) (ha : F64.isNaN a = false) :
    F64.isNaN (F64.max a 0) = false ∧ 0 ≤ F64.num (F64.max a 0) := by
  unfold Fmt.max
  by_cases h : F64.lt a 0 = true
  · rw [if_pos h]; decide
  · rw [if_neg h]
    refine ⟨ha, ?_⟩
    have := lt_false_le F64 a 0 ha (by decide) (by simpa using h)
    have h0 : F64.num 0 = 0 := by decide
    omega

theorem nz64_props (b : Nat) (hb : F64.isNaN b = false) (hn : 0 ≤ F64.num b) :
    F64.isNaN (nz64 b) = false ∧ 0 ≤ F64.num (nz64 b) := by
  unfold nz64
  split
  · decide
  · exact ⟨hb, hn⟩

theorem nz64_not_nan (b : Nat) (hb : F64.isNaN b = false) : F64.isNaN (nz64 b) = false := by
  unfold nz64
  split
  · decide
  · exact hb

/-- `bpm_multiplier` is `1.0` or a (never NaN) quotient -/
theorem bpm_multiplier_not_nan (beatLen speed : Nat) : F64.isNaN (difficultyVal beatLen speed).2.1 = false := by
  unfold difficultyVal
  simp only []
  split
  · exact div64_not_nan _ _
  · decide

/-! ## `as i32` of a value inside the coordinate limit -/

theorem truncMag32_le (b : Nat) (hm : F32.mag b ≤ 0x48000000) : F32.truncMag b ≤ 131072 := by
  unfold Fmt.truncMag Fmt.frac
  have hp : F32.p = 24 := rfl
  have hem : F32.emin = -126 := rfl
  simp only [hp, hem]
  generalize F32.mag b = mg at hm
  have h23 : (2:Nat) ^ (24 - 1) = 8388608 := by decide
  rw [h23]
  by_cases hbe : mg / 8388608 = 0
  · simp only [hbe, if_true]
    have : ¬ ((-126 : Int) - ((24:Nat) - 1) ≥ 0) := by omega
    simp only [this, if_false]
    have hk : (-((-126 : Int) - ((24:Nat) - 1))).toNat = 149 := by omega
    rw [hk, Nat.div_eq_of_lt]
    · omega
    · have : (2:Nat) ^ 23 ≤ 2 ^ 149 := Nat.pow_le_pow_right (by decide) (by decide)
      have h23' : (2:Nat) ^ 23 = 8388608 := by decide
      rw [h23'] at this
      have : mg % 8388608 < 8388608 := Nat.mod_lt _ (by decide)
      omega
  · simp only [hbe, if_false]
    have hbe2 : mg / 8388608 ≤ 144 := by omega
    have hneg : ¬ (((mg / 8388608 : Nat) : Int) - 1 + -126 - ((24:Nat) - 1) ≥ 0) := by omega
    simp only [hneg, if_false]
    have hk : (-(((mg / 8388608 : Nat) : Int) - 1 + -126 - ((24:Nat) - 1))).toNat = 150 - mg / 8388608 := by omega
    rw [hk]
    apply Nat.le_of_lt_succ
    rw [Nat.div_lt_iff_lt_mul (Nat.two_pow_pos _)]
    by_cases h144 : mg / 8388608 = 144
    · rw [h144]
      have : (2:Nat) ^ (150 - 144) = 64 := by decide
      rw [this]; omega
    · have : (2:Nat) ^ 7 ≤ 2 ^ (150 - mg / 8388608) := Nat.pow_le_pow_right (by decide) (by omega)
      have h7 : (2:Nat)^7 = 128 := by decide
      rw [h7] at this
      have : 131073 * 128 ≤ 131073 * 2 ^ (150 - mg / 8388608) := Nat.mul_le_mul_left _ this
      omega

theorem truncMag64_le (b : Nat) (hm : F64.mag b ≤ 0x4100000000000000) : F64.truncMag b ≤ 131072 := by
  unfold Fmt.truncMag Fmt.frac
  have hp : F64.p = 53 := rfl
  have hem : F64.emin = -1022 := rfl
  simp only [hp, hem]
  generalize F64.mag b = mg at hm
  have h52 : (2:Nat) ^ (53 - 1) = 4503599627370496 := by decide
  rw [h52]
  by_cases hbe : mg / 4503599627370496 = 0
  · simp only [hbe, if_true]
    have : ¬ ((-1022 : Int) - ((53:Nat) - 1) ≥ 0) := by omega
    simp only [this, if_false]
    have hk : (-((-1022 : Int) - ((53:Nat) - 1))).toNat = 1074 := by omega
    rw [hk, Nat.div_eq_of_lt]
    · omega
    · have : (2:Nat) ^ 52 ≤ 2 ^ 1074 := Nat.pow_le_pow_right (by decide) (by decide)
      have h52' : (2:Nat) ^ 52 = 4503599627370496 := by decide
      rw [h52'] at this
      have : mg % 4503599627370496 < 4503599627370496 := Nat.mod_lt _ (by decide)
      omega
  · simp only [hbe, if_false]
    have hbe2 : mg / 4503599627370496 ≤ 1040 := by omega
    have hneg : ¬ (((mg / 4503599627370496 : Nat) : Int) - 1 + -1022 - ((53:Nat) - 1) ≥ 0) := by omega
    simp only [hneg, if_false]
    have hk : (-(((mg / 4503599627370496 : Nat) : Int) - 1 + -1022 - ((53:Nat) - 1))).toNat = 1075 - mg / 4503599627370496 := by omega
    rw [hk]
    apply Nat.le_of_lt_succ
    rw [Nat.div_lt_iff_lt_mul (Nat.two_pow_pos _)]
    by_cases h1040 : mg / 4503599627370496 = 1040
    · rw [h1040]
      have : (2:Nat) ^ (1075 - 1040) = 34359738368 := by decide
      rw [this]; omega
    · have : (2:Nat) ^ 36 ≤ 2 ^ (1075 - mg / 4503599627370496) := Nat.pow_le_pow_right (by decide) (by omega)
      have h36 : (2:Nat)^36 = 68719476736 := by decide
      rw [h36] at this
      have : 131073 * 68719476736 ≤ 131073 * 2 ^ (1075 - mg / 4503599627370496) := Nat.mul_le_mul_left _ this
      omega

theorem toI32_bound (F : Fmt) (b L : Nat) (hf : F.isFinite b = true) (ht : F.truncMag b ≤ L)
    (hL : L ≤ 2147483647) : -(L : Int) ≤ F.toI32 b ∧ F.toI32 b ≤ L := by
  have hn : F.isNaN b = false := by
    unfold Fmt.isFinite at hf
    unfold Fmt.isNaN
    simp only [decide_eq_true_eq] at hf
    simp only [decide_eq_false_iff_not]
    omega
  unfold Fmt.toI32
  simp only [hn, hf, Bool.false_eq_true, if_false, Bool.not_true]
  cases F.isNeg b <;> simp only [Bool.false_eq_true, if_false, if_true] <;> split <;> (try split) <;> omega

/-- (c) a parsed coordinate, after `as i32`, lies in `[-131072, 131072]` -/
theorem posOf_bound (s : Str) (v : Int) (h : posOf s = .ok v) : -131072 ≤ v ∧ v ≤ 131072 := by
  unfold posOf at h
  cases hp : F32.parseLim s maxCoord32 with
  | error e => rw [hp] at h; cases h
  | ok b =>
    rw [hp] at h
    injection h with h
    subst h
    have hb := parseLim_bounds F32 s maxCoord32 b hp (by decide) (by decide) (by decide) (by decide)
    have hm : F32.mag maxCoord32 = 0x48000000 := by decide
    rw [hm] at hb
    have hfin : F32.isFinite b = true := by
      unfold Fmt.isFinite
      have : (0x48000000 : Nat) < F32.infBits := by decide
      simp only [decide_eq_true_eq]
      omega
    exact toI32_bound F32 b 131072 hfin (truncMag32_le b hb.2) (by decide)

theorem coord64_toI32_bound (s : Str) (b : Nat) (hp : F64.parseLim s maxCoord64 = .ok b) :
    -131072 ≤ F64.toI32 b ∧ F64.toI32 b ≤ 131072 := by
  have hb := parseLim_bounds F64 s maxCoord64 b hp (by decide) (by decide) (by decide) (by decide)
  have hm : F64.mag maxCoord64 = 0x4100000000000000 := by decide
  rw [hm] at hb
  have hfin : F64.isFinite b = true := by
    unfold Fmt.isFinite
    have : (0x4100000000000000 : Nat) < F64.infBits := by decide
    simp only [decide_eq_true_eq]
    omega
  exact toI32_bound F64 b 131072 hfin (truncMag64_le b hb.2) (by decide)

/-- (c) a path point read by `read_point`: before the offset is subtracted both coordinates lie in
`[-131072, 131072]` -/
theorem readPoint_bound (v : Str) (ox oy : Int) (c : CP) (h : readPoint v ox oy = .ok c) :
    (-131072 ≤ c.x + ox ∧ c.x + ox ≤ 131072) ∧ (-131072 ≤ c.y + oy ∧ c.y + oy ≤ 131072) := by
  unfold readPoint at h
  match hs : splitC ':' v, h with
  | [], h => cases h
  | [_], h => cases h
  | xs :: ys :: _, h =>
    simp only [] at h
    cases hx : F64.parseLim xs maxCoord64 with
    | error e => rw [hx] at h; cases h
    | ok x =>
      cases hy : F64.parseLim ys maxCoord64 with
      | error e => rw [hx, hy] at h; cases h
      | ok y =>
        rw [hx, hy] at h
        injection h with h
        subst h
        have bx := coord64_toI32_bound xs x hx
        have by' := coord64_toI32_bound ys y hy
        simp only []
        omega

end Rosu.DecodeLine
