import RosuModel.Model.Rng

/-!
Lemmas about `Model/Rng.lean`: output ranges of the xorshift generator, and the range invariant
of the .NET compat generator (every `seed_array` entry stays in `[0, i32::MAX]`, the two cursors
stay in `[1, 55]`), which makes every index valid and every plain `i32` subtraction overflow-free.
-/
namespace Rosu.Rng

/-! ## osu! xorshift -/

theorem Osu.nextInt_lt (s : Osu) : s.nextInt.1 < 2147483648 := by
  unfold Osu.nextInt
  simp only
  have : ((s.genUnsigned.1 &&& 0x7FFFFFFF).toNat) ≤ (0x7FFFFFFF : UInt32).toNat := by
    rw [UInt32.toNat_and]; exact Nat.and_le_right
  have h2 : (0x7FFFFFFF : UInt32).toNat = 2147483647 := by decide
  omega

/-- Exact `next_int_range`: never below `lo`, never above `hi`. -/
theorem rangeExact_bounds (lo hi : Int) (n : Nat) (hlt : lo < hi) (hn : n < 2147483648) :
    lo ≤ rangeExact lo hi n ∧ rangeExact lo hi n ≤ hi ∧ (0 < hi → rangeExact lo hi n < hi) := by
  unfold rangeExact
  have hp0 : 0 ≤ (n : Int) * (hi - lo) := Int.mul_nonneg (by omega) (by omega)
  have hp1 : (n : Int) * (hi - lo) < 2147483648 * (hi - lo) :=
    Int.mul_lt_mul_of_pos_right (by omega) (by omega)
  generalize (n : Int) * (hi - lo) = p at hp0 hp1
  rcases Int.lt_or_le (lo * 2147483648 + p) 0 with hneg | hpos
  · have h : (lo * 2147483648 + p).tdiv 2147483648 = -((-(lo * 2147483648 + p)) / 2147483648) := by
      rw [← Int.tdiv_eq_ediv_of_nonneg (by omega), Int.neg_tdiv, Int.neg_neg]
    rw [h]; omega
  · rw [Int.tdiv_eq_ediv_of_nonneg hpos]; omega

theorem Osu.nextBool_bitIdx (s : Osu) (h : 1 ≤ s.bitIdx ∧ s.bitIdx ≤ 32) :
    1 ≤ s.nextBool.2.bitIdx ∧ s.nextBool.2.bitIdx ≤ 32 := by
  unfold Osu.nextBool
  split
  · simp
  · rename_i hne
    simp at hne ⊢
    omega

/-! ## .NET compat generator -/

/-- Range invariant of `seed_array`. -/
def SaOk (sa : List Int) : Prop := sa.length = 56 ∧ ∀ x ∈ sa, 0 ≤ x ∧ x ≤ i32Max

/-- Invariant of the generator state. -/
def CsOk (s : Csharp) : Prop :=
  SaOk s.sa ∧ 0 ≤ s.inext ∧ s.inext ≤ 55 ∧ 0 ≤ s.inextp ∧ s.inextp ≤ 55

theorem SaOk.getD {sa : List Int} (h : SaOk sa) (i : Nat) : 0 ≤ sa.getD i 0 ∧ sa.getD i 0 ≤ i32Max := by
  rw [List.getD_eq_getElem?_getD]
  cases hx : sa[i]? with
  | none => simp [i32Max]
  | some x => simpa using h.2 x (List.mem_of_getElem? hx)

theorem SaOk.set {sa : List Int} (h : SaOk sa) (i : Nat) (v : Int) (hv : 0 ≤ v ∧ v ≤ i32Max) :
    SaOk (sa.set i v) := by
  refine ⟨by simpa using h.1, ?_⟩
  intro x hx
  rcases List.mem_or_eq_of_mem_set hx with hx | rfl
  · exact h.2 x hx
  · exact hv

theorem wrap32_id {x : Int} (h1 : -2147483648 ≤ x) (h2 : x ≤ 2147483647) : wrap32 x = x := by
  unfold wrap32; omega

theorem sample_range (r : Int) (h1 : -i32Max ≤ r) (h2 : r ≤ i32Max) :
    0 ≤ (if (if r = i32Max then r - 1 else r) < 0 then (if r = i32Max then r - 1 else r) + i32Max
        else (if r = i32Max then r - 1 else r)) ∧
    (if (if r = i32Max then r - 1 else r) < 0 then (if r = i32Max then r - 1 else r) + i32Max
        else (if r = i32Max then r - 1 else r)) < i32Max := by
  simp only [i32Min, i32Max] at *
  by_cases hr : r = 2147483647
  · subst hr; decide
  · by_cases hneg : r < 0
    · simp only [hr, hneg, if_false, if_true]; omega
    · simp only [hr, hneg, if_false]; omega

/-- One draw: the raw difference fits `i32` (so the plain `-` cannot overflow), the cursors are
valid indices, the result is in `[0, i32::MAX)`, and the invariant is preserved. -/
theorem Csharp.internalSample_ok (s : Csharp) (h : CsOk s) :
    let locInext := if s.inext + 1 >= 56 then 1 else s.inext + 1
    let locInextp := if s.inextp + 1 >= 56 then 1 else s.inextp + 1
    let raw := s.sa.getD locInext.toNat 0 - s.sa.getD locInextp.toNat 0
    (i32Min ≤ raw ∧ raw ≤ i32Max) ∧
    (1 ≤ s.internalSample.2.inext ∧ s.internalSample.2.inext ≤ 55) ∧
    (1 ≤ s.internalSample.2.inextp ∧ s.internalSample.2.inextp ≤ 55) ∧
    (0 ≤ s.internalSample.1 ∧ s.internalSample.1 < i32Max) ∧
    CsOk s.internalSample.2 := by
  intro locInext locInextp raw
  obtain ⟨hsa, h1, h2, h3, h4⟩ := h
  have ha := hsa.getD locInext.toNat
  have hb := hsa.getD locInextp.toNat
  have hraw : i32Min ≤ raw ∧ raw ≤ i32Max := by
    simp only [raw, i32Min, i32Max] at *; omega
  have hi1 : 1 ≤ locInext ∧ locInext ≤ 55 := by simp only [locInext]; split <;> omega
  have hi2 : 1 ≤ locInextp ∧ locInextp ≤ 55 := by simp only [locInextp]; split <;> omega
  have hdef : s.internalSample.1 =
      (if (if raw = i32Max then raw - 1 else raw) < 0 then (if raw = i32Max then raw - 1 else raw) + i32Max
        else (if raw = i32Max then raw - 1 else raw)) := rfl
  have hres : 0 ≤ s.internalSample.1 ∧ s.internalSample.1 < i32Max := by
    rw [hdef]
    exact sample_range raw (by simp only [raw, i32Min, i32Max] at *; omega) hraw.2
  refine ⟨hraw, hi1, hi2, hres, ?_, ?_, ?_, ?_, ?_⟩
  · exact hsa.set _ _ ⟨hres.1, Int.le_of_lt hres.2⟩
  · show 0 ≤ locInext; omega
  · show locInext ≤ 55; omega
  · show 0 ≤ locInextp; omega
  · show locInextp ≤ 55; omega

/-- `n` consecutive `next()` calls. -/
def Csharp.draws : Nat → Csharp → List Int × Csharp
  | 0, s => ([], s)
  | n + 1, s =>
    let (v, s') := s.next
    let (vs, s'') := Csharp.draws n s'
    (v :: vs, s'')

theorem Csharp.draws_ok (n : Nat) (s : Csharp) (h : CsOk s) :
    (∀ v ∈ (Csharp.draws n s).1, 0 ≤ v ∧ v < i32Max) ∧ CsOk (Csharp.draws n s).2 := by
  induction n generalizing s with
  | zero => simp [Csharp.draws, h]
  | succ n ih =>
    have hs := Csharp.internalSample_ok s h
    simp only at hs
    obtain ⟨_, _, _, hres, hok⟩ := hs
    have := ih _ hok
    simp only [Csharp.draws, Csharp.next]
    refine ⟨?_, this.2⟩
    intro v hv
    simp only [List.mem_cons] at hv
    rcases hv with rfl | hv
    · exact hres
    · exact this.1 v hv

/-! ### Initialisation, second loop: the range `[0, i32::MAX]` is closed under the mixing step -/

theorem fixNeg_wrap_range {x y : Int} (hx : 0 ≤ x ∧ x ≤ i32Max) (hy : 0 ≤ y ∧ y ≤ i32Max) :
    0 ≤ fixNeg (wrap32 (x - y)) ∧ fixNeg (wrap32 (x - y)) ≤ i32Max := by
  simp only [i32Max] at *
  rw [wrap32_id (by omega) (by omega)]
  unfold fixNeg i32Max
  split <;> omega

theorem mixStep_ok (sa : List Int) (i : Nat) (h : SaOk sa) : SaOk (mixStep sa i) := by
  unfold mixStep
  exact h.set _ _ (fixNeg_wrap_range (h.getD _) (h.getD _))

theorem foldl_mixStep_ok (is : List Nat) (sa : List Int) (h : SaOk sa) : SaOk (is.foldl mixStep sa) := by
  induction is generalizing sa with
  | nil => exact h
  | cons i is ih => exact ih _ (mixStep_ok sa i h)

theorem mixRound_ok (sa : List Int) (h : SaOk sa) : SaOk (mixRound sa) := foldl_mixStep_ok _ _ h

end Rosu.Rng
