import RosuModel.Lemmas.DecodeLineHit

/-!
The `curve_points` buffer through `convert_path_str`: it is only ever appended to (so stale content
is a prefix of whatever the next slider collects), and a successful conversion appends at least one
point.
-/
namespace Rosu.DecodeLine

/-! ## the append law -/

def shiftR (c : List CP) (r : List CP × Nat × Nat × List CP) : List CP × Nat × Nat × List CP :=
  (r.1, r.2.1, r.2.2.1, c ++ r.2.2.2)

theorem cpLoop_append (pt : PT) (n : Nat) (c : List CP) : ∀ (fuel : Nat) (verts : List CP)
    (start e0 : Nat) (curve : List CP),
    cpLoop pt n fuel verts start e0 (c ++ curve) = (cpLoop pt n fuel verts start e0 curve).map (shiftR c) := by
  intro fuel
  induction fuel with
  | zero => intro verts start e0 curve; rfl
  | succ f ih =>
    intro verts start e0 curve
    unfold cpLoop
    simp only []
    by_cases he : e0 + 1 < n
    · simp only [he, if_true]
      cases h1 : verts[e0 + 1]? with
      | none => rfl
      | some a =>
        cases h2 : verts[e0 + 1 - 1]? with
        | none => rfl
        | some b =>
          simp only []
          split
          · exact ih _ _ _ _
          · split
            · exact ih _ _ _ _
            · split
              · rfl
              · split
                · exact ih _ _ _ _
                · cases slice? (verts.set (e0 + 1 - 1) { b with ty := some pt }) start (e0 + 1) with
                  | none => rfl
                  | some sl =>
                    simp only []
                    rw [← ih, List.append_assoc]
    · simp only [he, if_false]
      rfl

theorem cpTail_append (c curve verts : List CP) (epl : Nat) (pt : PT) :
    cpTail (c ++ curve) verts epl pt = (c ++ (cpTail curve verts epl pt).1, (cpTail curve verts epl pt).2) := by
  unfold cpTail
  by_cases h : verts.length < epl
  · simp only [h, if_true]
  · simp only [h, if_false]
    rw [cpLoop_append]
    cases cpLoop pt (verts.length - epl) (verts.length - epl + 1) verts 0 0 curve with
    | error e => rfl
    | ok r =>
      obtain ⟨v', s', e', cv⟩ := r
      simp only [Except.map, shiftR]
      by_cases hes : e' > s'
      · simp only [hes, if_true]
        cases slice? v' s' e' with
        | none => rfl
        | some sl => simp only [List.append_assoc]
      · simp only [hes, if_false]

theorem convertPoints_append (c curve : List CP) (points : List Str) (ep : Option Str) (first : Bool)
    (ox oy : Int) :
    convertPoints (c ++ curve) points ep first ox oy =
      (c ++ (convertPoints curve points ep first ox oy).1, (convertPoints curve points ep first ox oy).2) := by
  unfold convertPoints
  cases points with
  | nil => rfl
  | cons tyStr pts =>
    simp only []
    cases readPoints ox oy pts with
    | error e => rfl
    | ok vs =>
      simp only []
      cases endVertex ep ox oy with
      | error e => rfl
      | ok ev =>
        simp only []
        cases cpVerts first vs ev with
        | nil => rfl
        | cons v rest => exact cpTail_append _ _ _ _ _

theorem pathLoop_append (ps : List Str) (ox oy : Int) (c : List CP) : ∀ (fuel start e0 : Nat)
    (first : Bool) (curve : List CP),
    pathLoop ps ox oy fuel start e0 first (c ++ curve) =
      (c ++ (pathLoop ps ox oy fuel start e0 first curve).1, (pathLoop ps ox oy fuel start e0 first curve).2) := by
  intro fuel
  induction fuel with
  | zero => intro start e0 first curve; rfl
  | succ f ih =>
    intro start e0 first curve
    unfold pathLoop
    simp only []
    by_cases he : e0 + 1 < ps.length
    · simp only [he, if_true]
      cases ps[e0 + 1]? with
      | none => rfl
      | some piece =>
        simp only []
        cases piece.head? with
        | none => rfl
        | some ch =>
          simp only []
          by_cases hl : (!isAsciiAlpha ch) = true
          · simp only [hl, if_true]
            exact ih _ _ _ _
          · simp only [hl, if_false]
            cases slice? ps start (e0 + 1) with
            | none => rfl
            | some seg =>
              simp only []
              rw [convertPoints_append]
              cases hcp : convertPoints curve seg ps[e0 + 1 + 1]? first ox oy with
              | mk curve' r =>
                cases r with
                | error err => rfl
                | ok u => exact ih _ _ _ _
    · simp only [he, if_false]

/-- (d) the general law: whatever is already in `curve_points` (stale points of rejected lines
included) stays in front, untouched, of what the conversion itself produces; result and error do
not depend on the old content. -/
theorem convertPathStr_append (c curve : List CP) (s : Str) (ox oy : Int) :
    convertPathStr (c ++ curve) s ox oy =
      (c ++ (convertPathStr curve s ox oy).1, (convertPathStr curve s ox oy).2) := by
  unfold convertPathStr
  simp only []
  rw [pathLoop_append]
  cases pathLoop (splitC '|' s) ox oy ((splitC '|' s).length + 1) 0 0 true curve with
  | mk curve' r =>
    cases r with
    | error e => rfl
    | ok t =>
      obtain ⟨start, e, first⟩ := t
      simp only []
      by_cases hes : e > start
      · simp only [hes, if_true]
        cases slice? (splitC '|' s) start e with
        | none => rfl
        | some seg => exact convertPoints_append _ _ _ _ _ _ _
      · simp only [hes, if_false]

/-! ## a successful conversion appends at least one point -/

/-- `cpLoop_spec` plus: at the exit `start_idx < end_idx`, so the final `extend` always runs -/
theorem cpLoop_spec2 (pt : PT) (n : Nat) : ∀ (fuel : Nat) (verts : List CP) (start e0 : Nat)
    (curve : List CP), n ≤ verts.length → start ≤ e0 + 1 → e0 ≤ n → n + 1 ≤ e0 + fuel →
    (start ≤ e0 ∨ start + 1 ≤ n) →
    ∃ verts' start' e' curve', cpLoop pt n fuel verts start e0 curve = .ok (verts', start', e', curve') ∧
      verts'.length = verts.length ∧ (e' = e0 + 1 ∨ e' ≤ n) ∧ start' < e' := by
  intro fuel
  induction fuel with
  | zero => intro verts start e0 curve h1 h2 h3 h4; omega
  | succ f ih =>
    intro verts start e0 curve h1 h2 h3 h4 hP
    unfold cpLoop
    by_cases he : e0 + 1 < n
    · have ha : e0 + 1 < verts.length := by omega
      have hb : e0 + 1 - 1 < verts.length := by omega
      simp only [he, if_true, List.getElem?_eq_getElem ha, List.getElem?_eq_getElem hb]
      have rec1 : ∃ verts' start' e' curve',
          cpLoop pt n f verts start (e0 + 1) curve = .ok (verts', start', e', curve') ∧
          verts'.length = verts.length ∧ (e' = e0 + 1 ∨ e' ≤ n) ∧ start' < e' := by
        obtain ⟨v', s', e', c', hr, hl, hb, hlt⟩ :=
          ih verts start (e0 + 1) curve h1 (by omega) (by omega) (by omega) (by omega)
        exact ⟨v', s', e', c', hr, hl, by omega, hlt⟩
      split
      · exact rec1
      · split
        · exact rec1
        · split
          · omega
          · split
            · exact rec1
            · have hlen : (verts.set (e0 + 1 - 1) { verts[e0 + 1 - 1] with ty := some pt }).length
                  = verts.length := List.length_set
              rw [slice?_some _ start (e0 + 1) h2 (by rw [hlen]; omega)]
              simp only []
              obtain ⟨v', s', e', c', hr, hl, hb, hlt⟩ := ih
                (verts.set (e0 + 1 - 1) { verts[e0 + 1 - 1] with ty := some pt }) (e0 + 1 + 1) (e0 + 1)
                (curve ++ List.take (e0 + 1 - start)
                  (List.drop start (verts.set (e0 + 1 - 1) { verts[e0 + 1 - 1] with ty := some pt })))
                (by rw [hlen]; exact h1) (by omega) (by omega) (by omega) (by omega)
              exact ⟨v', s', e', c', hr, by rw [hl, hlen], by omega, hlt⟩
    · simp only [he, if_false]
      exact ⟨verts, start, e0 + 1, curve, rfl, rfl, Or.inl rfl, by omega⟩

theorem cpTail_ok_ne_nil (curve verts : List CP) (epl : Nat) (pt : PT) (h1 : epl ≤ verts.length)
    (h2 : 1 ≤ verts.length) : (cpTail curve verts epl pt).1 ≠ [] ∨ (cpTail curve verts epl pt).2 ≠ .ok () := by
  unfold cpTail
  rw [if_neg (by omega)]
  obtain ⟨v', s', e', c', hr, hl, hb, hlt⟩ := cpLoop_spec2 pt (verts.length - epl)
    (verts.length - epl + 1) verts 0 0 curve (by omega) (by omega) (by omega) (by omega) (by omega)
  rw [hr]
  simp only []
  rw [if_pos hlt, slice?_some _ _ _ (by omega) (by omega)]
  left
  simp only []
  intro hnil
  have := congrArg List.length hnil
  simp only [List.length_append, List.length_take, List.length_drop, List.length_nil] at this
  omega

theorem convertPoints_ok_ne_nil (curve : List CP) (points : List Str) (ep : Option Str) (first : Bool)
    (ox oy : Int) (h : (convertPoints curve points ep first ox oy).2 = .ok ()) :
    (convertPoints curve points ep first ox oy).1 ≠ [] := by
  unfold convertPoints at h ⊢
  cases points with
  | nil => cases h
  | cons tyStr pts =>
    simp only [] at h ⊢
    cases hvs : readPoints ox oy pts with
    | error e => rw [hvs] at h; cases h
    | ok vs =>
      rw [hvs] at h
      simp only [] at h ⊢
      cases hev : endVertex ep ox oy with
      | error e => rw [hev] at h; cases h
      | ok ev =>
        rw [hev] at h
        simp only [] at h ⊢
        cases hverts : cpVerts first vs ev with
        | nil => rw [hverts] at h; cases h
        | cons v rest =>
          rw [hverts] at h
          simp only [] at h ⊢
          have hl : ev.length ≤ (v :: rest).length := by
            have : (cpVerts first vs ev).length = (v :: rest).length := by rw [hverts]
            unfold cpVerts at this
            simp only [List.length_append, List.length_cons] at this ⊢
            omega
          rcases cpTail_ok_ne_nil curve ({ v with ty := some (resolvePT (ptOfStr tyStr) (v :: rest)) } :: rest)
            ev.length (resolvePT (ptOfStr tyStr) (v :: rest)) hl (by simp) with hh | hh
          · exact hh
          · exact absurd h hh

theorem pathLoop_start_lt (ps : List Str) (ox oy : Int) : ∀ (fuel start e0 : Nat) (first : Bool)
    (curve : List CP), start ≤ e0 →
    ∀ r, (pathLoop ps ox oy fuel start e0 first curve).2 = .ok r → r.1 < r.2.1 := by
  intro fuel
  induction fuel with
  | zero => intro start e0 first curve h r hr; cases hr
  | succ f ih =>
    intro start e0 first curve h r hr
    unfold pathLoop at hr
    simp only [] at hr
    by_cases he : e0 + 1 < ps.length
    · simp only [he, if_true] at hr
      cases hp : ps[e0 + 1]? with
      | none => rw [hp] at hr; cases hr
      | some piece =>
        rw [hp] at hr
        simp only [] at hr
        cases hh : piece.head? with
        | none => rw [hh] at hr; cases hr
        | some ch =>
          rw [hh] at hr
          simp only [] at hr
          by_cases hl : (!isAsciiAlpha ch) = true
          · simp only [hl, if_true] at hr
            exact ih start (e0 + 1) first curve (by omega) r hr
          · simp only [hl, if_false] at hr
            cases hs : slice? ps start (e0 + 1) with
            | none => rw [hs] at hr; cases hr
            | some seg =>
              rw [hs] at hr
              simp only [] at hr
              cases hcp : convertPoints curve seg ps[e0 + 1 + 1]? first ox oy with
              | mk curve' rr =>
                rw [hcp] at hr
                cases rr with
                | error err => cases hr
                | ok u => exact ih (e0 + 1) (e0 + 1) false curve' (Nat.le_refl _) r hr
    · simp only [he, if_false] at hr
      injection hr with hr
      subst hr
      simp only []
      omega

/-- every successful `convert_path_str` leaves at least one control point in the buffer -/
theorem convertPathStr_ok_ne_nil (curve : List CP) (s : Str) (ox oy : Int)
    (h : (convertPathStr curve s ox oy).2 = .ok ()) : (convertPathStr curve s ox oy).1 ≠ [] := by
  unfold convertPathStr at h ⊢
  simp only [] at h ⊢
  have hlt := pathLoop_start_lt (splitC '|' s) ox oy ((splitC '|' s).length + 1) 0 0 true curve
    (Nat.le_refl 0)
  cases hp : pathLoop (splitC '|' s) ox oy ((splitC '|' s).length + 1) 0 0 true curve with
  | mk curve' r =>
    rw [hp] at h hlt
    cases r with
    | error e => cases h
    | ok t =>
      obtain ⟨start, e, first⟩ := t
      have := hlt (start, e, first) rfl
      simp only [] at this h ⊢
      rw [if_pos this] at h ⊢
      cases hs : slice? (splitC '|' s) start e with
      | none => rw [hs] at h; cases h
      | some seg =>
        rw [hs] at h
        exact convertPoints_ok_ne_nil _ _ _ _ _ _ h

end Rosu.DecodeLine
