import RosuModel.Lemmas.FiniteAcc

/-! Lemmas for C09: the abstract IEEE domain `XF`, the Wilson bound over an ordered field. -/
namespace Rosu.Finite

namespace XF

theorem mul_fin_zero (x : XF) : mul x (fin 0) = if x.isFinite then fin 0 else nan := by
  cases x with
  | fin q => simp [mul, isFinite]
  | pinf => simp [mul, isFinite, ofSign, sgn]
  | ninf => simp [mul, isFinite, ofSign, sgn]
  | nan => simp [mul, isFinite]

theorem fin_zero_mul_fin (r : Rat) : mul (fin 0) (fin r) = fin 0 := by simp [mul]

theorem nan_mul (x : XF) : mul nan x = nan := by cases x <;> rfl

theorem mul_fin_fin (a b : Rat) : mul (fin a) (fin b) = fin (a * b) := rfl

theorem isFinite_iff {x : XF} : x.isFinite = true ↔ ∃ q, x = fin q := by
  cases x <;> simp [isFinite]

theorem mul_finite {x y : XF} (hx : x.isFinite = true) (hy : y.isFinite = true) : (mul x y).isFinite = true := by
  obtain ⟨a, rfl⟩ := isFinite_iff.mp hx
  obtain ⟨b, rfl⟩ := isFinite_iff.mp hy
  rfl

end XF

/-! ### Wilson lower bound over any linear ordered field (ℚ, ℝ) -/

section Wilson
variable {K : Type} [Field K] [LinearOrder K] [IsStrictOrderedRing K]

/-- the same expression as `pLowerBound`, over `K` -/
def pLowerK (n p z sq : K) : K := (n * p + z * z / 2) / (n + z * z) - z / (n + z * z) * sq

theorem pLowerK_eq (n p z sq : K) (h : n + z * z ≠ 0) :
    pLowerK n p z sq = (n * p + z * z / 2 - z * sq) / (n + z * z) := by
  unfold pLowerK; field_simp

/-- `n ≥ 1` hits of which a proportion `p ∈ (0, 1]` are greats: the bound is strictly between 0 and 1,
so `erf_inv` receives a point of its open domain and returns a finite, non-zero value -/
theorem pLowerK_mem_Ioo (n p z sq : K) (hn : 0 < n) (hp0 : 0 < p) (hp1 : p ≤ 1) (hz : 0 < z)
    (hsq0 : 0 ≤ sq) (hsq : sq * sq = n * p * (1 - p) + z * z / 4) :
    0 < pLowerK n p z sq ∧ pLowerK n p z sq < 1 := by
  have hd : 0 < n + z * z := by positivity
  rw [pLowerK_eq n p z sq hd.ne']
  constructor
  · apply div_pos _ hd
    have hA : 0 ≤ n * p + z * z / 2 := by positivity
    have hB : 0 ≤ z * sq := by positivity
    by_contra hcon
    have hle : n * p + z * z / 2 ≤ z * sq := by linarith
    have hsqr : (n * p + z * z / 2) * (n * p + z * z / 2) ≤ (z * sq) * (z * sq) :=
      mul_self_le_mul_self hA hle
    have e : (z * sq) * (z * sq) = z * z * (sq * sq) := by ring
    rw [e, hsq] at hsqr
    have hpos : 0 < n * n * (p * p) + z * z * n * (p * p) := by positivity
    nlinarith
  · rw [div_lt_one hd]
    have hB : 0 ≤ z * sq := by positivity
    have : n * p ≤ n := by nlinarith
    have hz2 : 0 < z * z := by positivity
    linarith

/-- without the `n300 == 0` guard: `p = 0` makes the radicand `z²/4`, its root `z/2`, and the bound
exactly `0` — `erf_inv(0) = 0` and the code divides by it -/
theorem pLowerK_zero_at_p0 (n z : K) (h : n + z * z ≠ 0) : pLowerK n 0 z (z / 2) = 0 := by
  rw [pLowerK_eq n 0 z (z / 2) h]
  have : n * 0 + z * z / 2 - z * (z / 2) = 0 := by ring
  rw [this, zero_div]

end Wilson

theorem pLowerBound_eq_K (n p z sq : Rat) : pLowerBound n p z sq = pLowerK n p z sq := rfl

end Rosu.Finite
