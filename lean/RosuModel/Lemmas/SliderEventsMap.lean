import RosuModel.Lemmas.SliderEvents

/-!
# From raw slider parameters to the counting models — for EVERY arithmetic

* the event list of a slider with `n` spans has exactly one head, `n − 1` repeats, one legacy last
  tick, one tail and `n · k` ticks (`k` = ticks per span, the same for every span);
* a juice stream records `n + 1` fruits and `n · k` droplets, and its record sequence ends with a
  fruit — so the stream of a whole map never ends with unattributed tiny droplets;
* an osu! slider has `n · k + (n − 1)` large ticks and one more nested object.

Core Lean only.
-/

namespace Rosu.SliderEvents

open Rosu.Gradual

variable {F : Type}

/-! ## unpacking the outcome wrappers -/

theorem Iter.new_spanCount (A : Arith F) (a b c d e : F) (n : Nat) (it : Iter F)
    (h : Iter.new A a b c d e n = some it) : it.spanCount = n := by
  unfold Iter.new at h
  simp only at h
  split at h
  · exact absurd h (by simp)
  · simp only [Option.some.injEq] at h
    subst h; rfl

theorem sliderEvents_ok (A : Arith F) (fuel : Nat) (a b c d e : F) (n : Nat) (l : List (Event F))
    (h : sliderEvents A fuel a b c d e n = .ok l) :
    ∃ it, Iter.new A a b c d e n = some it ∧ it.spanCount = n ∧ it.events A fuel = some l := by
  unfold sliderEvents at h
  split at h
  · exact absurd h (by simp)
  · rename_i it hit
    split at h
    · exact absurd h (by simp)
    · rename_i l' hl
      simp only [Outcome.ok.injEq] at h
      subst h
      exact ⟨it, hit, Iter.new_spanCount A a b c d e n it hit, hl⟩

/-! ## kind counts of a complete event list -/

/-- Ticks per span: the length of the tick-distance list (0 when there is no span at all). -/
def ticksPerSpan (A : Arith F) (it : Iter F) (fuel : Nat) : Nat :=
  match spanTickDists A it fuel with
  | some ds => ds.length
  | none => 0

/-- Shape of everything the iterator yields, in every arithmetic. -/
theorem events_shape (A : Arith F) (it : Iter F) (fuel : Nat) (l : List (Event F))
    (h : it.events A fuel = some l) :
    ∃ mid : List (Event F),
      l = headEvent A it :: (mid ++ [lastTickEvent A it, tailEvent A it]) ∧
      (∀ e ∈ mid, e.kind = .tick ∨ e.kind = .rep) ∧
      kindCount .rep mid = it.spanCount - 1 ∧
      kindCount .tick mid = it.spanCount * ticksPerSpan A it fuel := by
  cases hds : spanTickDists A it fuel with
  | some ds =>
    rw [events_eq A it fuel ds hds] at h
    simp only [Option.some.injEq] at h
    refine ⟨midEvents A it ds it.spanCount 0, h.symm, midEvents_kinds A it ds _ _, ?_, ?_⟩
    · rw [midEvents_reps]; simp only [Nat.zero_add, Nat.zero_min, Nat.sub_zero]; omega
    · rw [midEvents_ticks]; unfold ticksPerSpan; rw [hds]
  | none =>
    have hsome : (it.events A fuel).isSome = true := by rw [h]; rfl
    rw [events_isSome_iff, hds] at hsome
    simp only [Option.isSome_none, Bool.false_eq_true, or_false] at hsome
    refine ⟨[], ?_, by simp, by simp [kindCount_nil, hsome], by simp [kindCount_nil, hsome]⟩
    unfold Iter.events at h
    rw [hsome] at h
    simp only [spansEvents, Option.some.injEq] at h
    rw [← h]

theorem mid_no_other (k : Kind) (hk1 : k ≠ .tick) (hk2 : k ≠ .rep) (mid : List (Event F))
    (h : ∀ e ∈ mid, e.kind = .tick ∨ e.kind = .rep) : kindCount k mid = 0 := by
  unfold kindCount
  rw [List.countP_eq_zero]
  intro e he
  rcases h e he with h | h <;> rw [h] <;> cases k <;> simp_all

/-- How many events of each kind a complete event list has. -/
theorem events_kind_counts (A : Arith F) (it : Iter F) (fuel : Nat) (l : List (Event F))
    (h : it.events A fuel = some l) :
    kindCount .head l = 1 ∧ kindCount .rep l = it.spanCount - 1 ∧ kindCount .lastTick l = 1 ∧
    kindCount .tail l = 1 ∧ kindCount .tick l = it.spanCount * ticksPerSpan A it fuel := by
  obtain ⟨mid, rfl, hk, hr, ht⟩ := events_shape A it fuel l h
  have e1 : (headEvent A it).kind = .head := rfl
  have e2 : (lastTickEvent A it).kind = .lastTick := rfl
  have e3 : (tailEvent A it).kind = .tail := rfl
  have z1 := mid_no_other .head (by simp) (by simp) mid hk
  have z2 := mid_no_other .lastTick (by simp) (by simp) mid hk
  have z3 := mid_no_other .tail (by simp) (by simp) mid hk
  refine ⟨?_, ?_, ?_, ?_, ?_⟩ <;>
    simp only [kindCount_cons, kindCount_append, kindCount_nil, e1, e2, e3, z1, z2, z3, hr, ht] <;>
    simp

theorem mid_length (mid : List (Event F)) (hk : ∀ e ∈ mid, e.kind = .tick ∨ e.kind = .rep) :
    mid.length = kindCount .tick mid + kindCount .rep mid := by
  induction mid with
  | nil => rfl
  | cons e t ih =>
    have := ih (fun x hx => hk x (List.mem_cons_of_mem _ hx))
    rw [List.length_cons, kindCount_cons, kindCount_cons, this]
    rcases hk e (List.mem_cons_self) with h | h <;> rw [h] <;> simp <;> omega

/-- Total number of events: `n·k` ticks, `n − 1` repeats, head, last tick, tail. -/
theorem events_length (A : Arith F) (it : Iter F) (fuel : Nat) (l : List (Event F))
    (h : it.events A fuel = some l) :
    l.length = it.spanCount * ticksPerSpan A it fuel + (it.spanCount - 1) + 3 := by
  obtain ⟨mid, rfl, hk, hr, ht⟩ := events_shape A it fuel l h
  have hlen := mid_length mid hk
  simp only [List.length_cons, List.length_append, List.length_nil, hlen, hr, ht]

/-! ## juice streams -/

theorem juiceRecords_ends_fruit (A : Arith F) (fuel : Nat) (e : Event F) (he : e.kind = .tail) :
    ∀ (es : List (Event F)) (last : Option F) (r : List CatchEvent),
      juiceRecords A fuel last (es ++ [e]) = some r → ∃ r', r = r' ++ [.fruit] := by
  intro es
  induction es with
  | nil =>
    intro last r h
    simp only [List.nil_append] at h
    unfold juiceRecords at h
    simp only at h
    split at h
    · rename_i t rest _ hrest
      simp only [juiceRecords, Option.some.injEq] at hrest
      simp only [Option.some.injEq] at h
      subst h hrest
      exact ⟨t, by simp [he, recordOf]⟩
    · exact absurd h (by simp)
  | cons x xs ih =>
    intro last r h
    rw [List.cons_append] at h
    unfold juiceRecords at h
    simp only at h
    split at h
    · rename_i t rest _ hrest
      obtain ⟨r', hr'⟩ := ih (some x.time) rest hrest
      simp only [Option.some.injEq] at h
      subst h
      exact ⟨t ++ recordOf x.kind ++ r', by rw [hr']; simp⟩
    · exact absurd h (by simp)

theorem juiceStream_ok (A : Arith F) (fuel : Nat) (s : SliderIn F) (r : List CatchEvent)
    (h : juiceStream A fuel s = .ok r) :
    ∃ (it : Iter F) (l : List (Event F)), it.spanCount = s.spans ∧ it.events A fuel = some l ∧
      juiceRecords A fuel none l = some r := by
  unfold juiceStream at h
  split at h
  · exact absurd h (by simp)
  · exact absurd h (by simp)
  · rename_i evs hev
    split at h
    · exact absurd h (by simp)
    · rename_i r' hr
      simp only [Outcome.ok.injEq] at h
      subst h
      unfold Params.events at hev
      obtain ⟨it, _, hn, hl⟩ := sliderEvents_ok A fuel _ _ _ _ _ _ evs hev
      exact ⟨it, evs, hn, hl, hr⟩

/-- A juice stream with `n ≥ 1` spans records `n + 1` fruits (head, `n − 1` repeats, tail) and
`n · k` droplets; its last record is a fruit. -/
theorem juiceStream_counts (A : Arith F) (fuel : Nat) (s : SliderIn F) (r : List CatchEvent)
    (h : juiceStream A fuel s = .ok r) (hs : 1 ≤ s.spans) :
    fruitCount r = s.spans + 1 ∧ (∃ k, dropletCount r = s.spans * k) ∧ ∃ r', r = r' ++ [.fruit] := by
  obtain ⟨it, l, hn, hl, hr⟩ := juiceStream_ok A fuel s r h
  obtain ⟨c1, c2, _, c4, c5⟩ := events_kind_counts A it fuel l hl
  obtain ⟨hf, hd⟩ := juiceRecords_counts A fuel l none r hr
  refine ⟨?_, ⟨ticksPerSpan A it fuel, ?_⟩, ?_⟩
  · rw [hf]; unfold fruitKinds; rw [c1, c2, c4, hn]; omega
  · rw [hd, c5, hn]
  · obtain ⟨mid, rfl, _⟩ := events_shape A it fuel l hl
    have : headEvent A it :: (mid ++ [lastTickEvent A it, tailEvent A it]) =
        (headEvent A it :: (mid ++ [lastTickEvent A it])) ++ [tailEvent A it] := by simp
    rw [this] at hr
    exact juiceRecords_ends_fruit A fuel _ rfl _ none r hr

/-! ## whole catch maps -/

/-- Every slider of the map has at least one span (`span_count = repeats + 1`). -/
def SpansPositive : List (RawObj F) → Prop
  | [] => True
  | .slider s :: os => 1 ≤ s.spans ∧ SpansPositive os
  | _ :: os => SpansPositive os

/-- circles + Σ over sliders of (`span_count + 1`) -/
def expectedFruits : List (RawObj F) → Nat
  | [] => 0
  | .circle :: os => 1 + expectedFruits os
  | .spinner :: os => expectedFruits os
  | .slider s :: os => (s.spans + 1) + expectedFruits os

theorem fruitCount_append (a b : List CatchEvent) : fruitCount (a ++ b) = fruitCount a + fruitCount b := by
  unfold fruitCount; exact List.countP_append

theorem catchMapEvents_cons_ok (A : Arith F) (fuel : Nat) (o : RawObj F) (os : List (RawObj F))
    (evs : List CatchEvent) (h : catchMapEvents A fuel (o :: os) = .ok evs) :
    ∃ a b, evs = a ++ b ∧ catchMapEvents A fuel os = .ok b ∧
      (match o with
        | .circle => a = [.fruit]
        | .spinner => a = []
        | .slider s => juiceStream A fuel s = .ok a) := by
  unfold catchMapEvents at h
  simp only at h
  split at h
  case h_1 a b ha hb =>
    simp only [Outcome.ok.injEq] at h
    refine ⟨a, b, h.symm, hb, ?_⟩
    cases o with
    | circle => simp only [Outcome.ok.injEq] at ha; exact ha.symm
    | spinner => simp only [Outcome.ok.injEq] at ha; exact ha.symm
    | slider s => exact ha
  all_goals exact absurd h (by simp)

/-- **C14, catch fruits from raw parameters**: whatever the arithmetic, the record stream of a map
contains one fruit per circle and `span_count + 1` fruits per slider. -/
theorem catchMapEvents_fruits (A : Arith F) (fuel : Nat) :
    ∀ (objs : List (RawObj F)) (evs : List CatchEvent),
      catchMapEvents A fuel objs = .ok evs → SpansPositive objs →
        fruitCount evs = expectedFruits objs := by
  intro objs
  induction objs with
  | nil =>
    intro evs h _
    simp only [catchMapEvents, Outcome.ok.injEq] at h
    subst h; rfl
  | cons o os ih =>
    intro evs h hp
    obtain ⟨a, b, rfl, hb, ha⟩ := catchMapEvents_cons_ok A fuel o os evs h
    rw [fruitCount_append]
    cases o with
    | circle =>
      simp only at ha; subst ha
      rw [ih b hb hp]; rfl
    | spinner =>
      simp only at ha; subst ha
      rw [ih b hb hp]; simp [expectedFruits, fruitCount]
    | slider s =>
      simp only at ha
      obtain ⟨hf, _, _⟩ := juiceStream_counts A fuel s a ha hp.1
      rw [hf, ih b hb hp.2]; rfl

/-- The gradual builder's pending record after a stream that ends with a fruit is empty. -/
theorem gradual_pending_after_fruit (st : CatchRec × List CatchRec) (r : List CatchEvent) :
    ((r ++ [CatchEvent.fruit]).foldl catchGradualStep st).1 = ⟨false, 0⟩ := by
  rw [List.foldl_append]; rfl

/-- No tiny droplets are left unattributed at the end of a map's record stream: the hypothesis
`CatchWellFormed` of the catch theorems of C02/C14 holds for every stream the converter model
produces (each object's records are empty or end with a fruit). -/
theorem catchMapEvents_pending (A : Arith F) (fuel : Nat) :
    ∀ (objs : List (RawObj F)) (evs : List CatchEvent) (st : CatchRec × List CatchRec),
      catchMapEvents A fuel objs = .ok evs → SpansPositive objs → st.1.tiny = 0 →
        (evs.foldl catchGradualStep st).1.tiny = 0 := by
  intro objs
  induction objs with
  | nil =>
    intro evs st h _ hst
    simp only [catchMapEvents, Outcome.ok.injEq] at h
    subst h; exact hst
  | cons o os ih =>
    intro evs st h hp hst
    obtain ⟨a, b, rfl, hb, ha⟩ := catchMapEvents_cons_ok A fuel o os evs h
    rw [List.foldl_append]
    cases o with
    | circle =>
      simp only at ha; subst ha
      exact ih b _ hb hp rfl
    | spinner =>
      simp only at ha; subst ha
      exact ih b _ hb hp hst
    | slider s =>
      simp only at ha
      obtain ⟨_, _, r', hr'⟩ := juiceStream_counts A fuel s a ha hp.1
      subst hr'
      apply ih b _ hb hp.2
      rw [gradual_pending_after_fruit]

/-- With `take` at or above the number of palpable objects the regular builder counts every fruit
and droplet of the stream. -/
theorem catchRegular_full (evs : List CatchEvent) :
    ∀ (st : Nat × CatchCounts), catchPalpable evs ≤ st.1 →
      (evs.foldl catchRegularStep st).2.fruits = st.2.fruits + fruitCount evs ∧
      (evs.foldl catchRegularStep st).2.droplets = st.2.droplets + dropletCount evs := by
  induction evs with
  | nil => intro st _; exact ⟨rfl, rfl⟩
  | cons e t ih =>
    intro st h
    have hpal : catchPalpable (e :: t) =
        catchPalpable t + (match e with | .tiny _ => 0 | _ => 1) := by
      unfold catchPalpable
      rw [List.filter_cons]
      cases e <;> simp
    rw [List.foldl_cons]
    unfold fruitCount dropletCount at ih ⊢
    rw [List.countP_cons, List.countP_cons]
    cases e with
    | fruit =>
      simp only at hpal
      have hpos : 0 < st.1 := by omega
      have hstep : catchRegularStep st .fruit =
          (st.1 - 1, { st.2 with fruits := st.2.fruits + 1 }) := by
        simp [catchRegularStep, hpos]
      have := ih (catchRegularStep st .fruit) (by rw [hstep]; simp only; omega)
      rw [this.1, this.2, hstep]
      simp; omega
    | droplet =>
      simp only at hpal
      have hpos : 0 < st.1 := by omega
      have hstep : catchRegularStep st .droplet =
          (st.1 - 1, { st.2 with droplets := st.2.droplets + 1 }) := by
        simp [catchRegularStep, hpos]
      have := ih (catchRegularStep st .droplet) (by rw [hstep]; simp only; omega)
      rw [this.1, this.2, hstep]
      simp; omega
    | tiny n =>
      simp only at hpal
      have hstep : (catchRegularStep st (.tiny n)).1 = st.1 ∧
          (catchRegularStep st (.tiny n)).2.fruits = st.2.fruits ∧
          (catchRegularStep st (.tiny n)).2.droplets = st.2.droplets := by
        simp only [catchRegularStep]; split <;> simp
      have := ih (catchRegularStep st (.tiny n)) (by rw [hstep.1]; omega)
      rw [this.1, this.2, hstep.2.1, hstep.2.2]
      simp

/-! ## osu! sliders -/

theorem osuSlider_ok (A : Arith F) (fuel : Nat) (s : SliderIn F) (o : OsuObj)
    (h : osuSlider A fuel s = .ok o) :
    ∃ (it : Iter F) (l : List (Event F)), it.spanCount = s.spans ∧ it.events A fuel = some l ∧
      o = osuSliderObj A (osuParams A s) l := by
  unfold osuSlider at h
  simp only at h
  split at h
  · exact absurd h (by simp)
  · exact absurd h (by simp)
  · rename_i evs hev
    simp only [Outcome.ok.injEq] at h
    unfold Params.events at hev
    obtain ⟨it, _, hn, hl⟩ := sliderEvents_ok A fuel _ _ _ _ _ _ evs hev
    exact ⟨it, evs, hn, hl, h.symm⟩

/-- An osu! slider's descriptor: `n·k + (n − 1)` large ticks (ticks and repeats), one more nested
object (the tail). -/
theorem osuSlider_counts (A : Arith F) (fuel : Nat) (s : SliderIn F) (o : OsuObj)
    (h : osuSlider A fuel s = .ok o) :
    o.kind = .slider ∧ o.nested = o.largeTicks + 1 ∧
      ∃ k, o.largeTicks = s.spans * k + (s.spans - 1) := by
  obtain ⟨it, l, hn, hl, rfl⟩ := osuSlider_ok A fuel s o h
  obtain ⟨_, c2, _, c4, c5⟩ := events_kind_counts A it fuel l hl
  have ht := osuNested_count A (osuParams A s) .tick l
  have hr := osuNested_count A (osuParams A s) .rep l
  have hta := osuNested_count A (osuParams A s) .tail l
  simp only [kindOfNested] at ht hr hta
  refine ⟨rfl, ?_, ⟨ticksPerSpan A it fuel, ?_⟩⟩
  · show (osuNested A (osuParams A s) l).length = largeTickCount (osuNested A (osuParams A s) l) + 1
    rw [length_eq_nestedCounts, largeTickCount_eq, hta, c4]
  · show largeTickCount (osuNested A (osuParams A s) l) = _
    rw [largeTickCount_eq, ht, hr, c5, c2, hn]


/-! ## whole osu! maps -/

/-- What the counting code can rely on for a descriptor built from raw parameters. -/
def OsuObjOk (o : OsuObj) : Prop :=
  (o.kind = .slider → o.nested = o.largeTicks + 1) ∧
  (o.kind ≠ .slider → o.largeTicks = 0 ∧ o.nested = 0)

theorem osuMapObjs_cons_ok (A : Arith F) (fuel : Nat) (o : RawObj F) (os : List (RawObj F))
    (objs : List OsuObj) (h : osuMapObjs A fuel (o :: os) = .ok objs) :
    ∃ a b, objs = a :: b ∧ osuMapObjs A fuel os = .ok b ∧
      (match o with
        | .circle => a = ⟨.circle, 0, 0⟩
        | .spinner => a = ⟨.spinner, 0, 0⟩
        | .slider s => osuSlider A fuel s = .ok a) := by
  unfold osuMapObjs at h
  simp only at h
  split at h
  case h_1 a b ha hb =>
    simp only [Outcome.ok.injEq] at h
    refine ⟨a, b, h.symm, hb, ?_⟩
    cases o with
    | circle => simp only [Outcome.ok.injEq] at ha; exact ha.symm
    | spinner => simp only [Outcome.ok.injEq] at ha; exact ha.symm
    | slider s => exact ha
  all_goals exact absurd h (by simp)

/-- One descriptor per hit object, each of the promised shape — in every arithmetic. -/
theorem osuMapObjs_spec (A : Arith F) (fuel : Nat) :
    ∀ (raw : List (RawObj F)) (objs : List OsuObj), osuMapObjs A fuel raw = .ok objs →
      objs.length = raw.length ∧ ∀ o ∈ objs, OsuObjOk o := by
  intro raw
  induction raw with
  | nil =>
    intro objs h
    simp only [osuMapObjs, Outcome.ok.injEq] at h
    subst h
    exact ⟨rfl, by simp⟩
  | cons o os ih =>
    intro objs h
    obtain ⟨a, b, rfl, hb, ha⟩ := osuMapObjs_cons_ok A fuel o os objs h
    obtain ⟨hl, hall⟩ := ih b hb
    refine ⟨by simp [hl], ?_⟩
    intro x hx
    rcases List.mem_cons.mp hx with rfl | hx
    · cases o with
      | circle => simp only at ha; subst ha; exact ⟨by simp, by simp⟩
      | spinner => simp only at ha; subst ha; exact ⟨by simp, by simp⟩
      | slider s =>
        simp only at ha
        obtain ⟨hk, hn, _⟩ := osuSlider_counts A fuel s x ha
        exact ⟨fun _ => hn, fun hne => absurd hk hne⟩
    · exact hall x hx

/-- For descriptors of that shape: max combo = objects + large ticks + sliders (one tail each). -/
theorem osu_fold_maxCombo (l : List OsuObj) (hl : ∀ o ∈ l, OsuObjOk o) (c : OsuCounts)
    (hc : c.maxCombo = c.nCircles + c.nSliders + c.nSpinners + c.nLargeTicks + c.nSliders) :
    let r := l.foldl OsuCounts.incr c
    r.maxCombo = r.nCircles + r.nSliders + r.nSpinners + r.nLargeTicks + r.nSliders := by
  induction l generalizing c with
  | nil => exact hc
  | cons o t ih =>
    simp only [List.foldl_cons]
    apply ih (fun x hx => hl x (List.mem_cons_of_mem _ hx))
    have ho := hl o List.mem_cons_self
    unfold OsuObjOk at ho
    unfold OsuCounts.incr
    cases hk : o.kind <;> simp only [] <;> simp only [hk] at ho
    · omega
    · have := ho.1 trivial; omega
    · omega

end Rosu.SliderEvents
