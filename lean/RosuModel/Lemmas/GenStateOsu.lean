import RosuModel.Lemmas.GenStateBasic

/-! C12 lemmas for the osu!standard generator, for every `NumOps` instance. -/
namespace Rosu.GenState
set_option linter.unusedSectionVars false

variable {R : Type} [NumOps R]

/-- Outcome of a single-unknown search arm: the provided component is kept and either nothing was
accepted (both unknowns stay `0`) or the two unknowns fill what is left. -/
theorem osuArm100_spec (x : OsuCtx R) (n : Nat) (hn : n ≤ x.nRemaining) :
    let h := osuArm100 x n
    h.ok = true ∧ h.n300 = n ∧
      ((h.accepted = false ∧ h.n100 = 0 ∧ h.n50 = 0) ∨ (h.accepted = true ∧ h.n100 + h.n50 = x.nRemaining - n)) := by
  have e : min n x.nRemaining = n := by omega
  have key : SearchInv (R := R) (0, 0) (fun v => v.1 + v.2 = x.nRemaining - n)
      ((rangeIncl (min (x.nRemaining - n) (NumOps.floorU32 (NumOps.div (NumOps.sub x.targetTotal
          (NumOps.ofNat (50 * (x.nRemaining - n) + 300 * n + x.sav))) (NumOps.ofNat 50 : R))))
        (min (x.nRemaining - n) (NumOps.ceilU32 (NumOps.div (NumOps.sub x.targetTotal
          (NumOps.ofNat (50 * (x.nRemaining - n) + 300 * n + x.sav))) (NumOps.ofNat 50 : R))))).foldl
        (fun a new100 =>
          (a.check (decide (new100 ≤ x.nRemaining - n))).offer (x.distOf n new100 (x.nRemaining - n - new100))
            (new100, x.nRemaining - n - new100))
        { dist := NumOps.maxVal, val := (0, 0), hit := false, ok := decide (n ≤ x.nRemaining) }) := by
    apply foldl_inv
    · exact ⟨by simpa using hn, Or.inl ⟨rfl, rfl⟩⟩
    · intro a k hk ha
      have hk' := mem_rangeIncl hk
      have hle : k ≤ x.nRemaining - n := by omega
      apply searchInv_step _ _ _ _ _ _ ha
      · simpa using hle
      · show k + (x.nRemaining - n - k) = x.nRemaining - n
        omega
  unfold osuArm100
  simp only [e]
  obtain ⟨hok, hcase⟩ := key
  refine ⟨hok, by first | rfl | trivial, ?_⟩
  rcases hcase with ⟨hh, hv⟩ | ⟨hh, hv⟩
  · left; exact ⟨hh, by rw [hv], by rw [hv]⟩
  · right; exact ⟨hh, hv⟩

theorem osuArm300a_spec (x : OsuCtx R) (n : Nat) (hn : n ≤ x.nRemaining) :
    let h := osuArm300a x n
    h.ok = true ∧ h.n100 = n ∧
      ((h.accepted = false ∧ h.n300 = 0 ∧ h.n50 = 0) ∨ (h.accepted = true ∧ h.n300 + h.n50 = x.nRemaining - n)) := by
  have e : min n x.nRemaining = n := by omega
  have key : SearchInv (R := R) (0, 0) (fun v => v.1 + v.2 = x.nRemaining - n)
      ((rangeIncl (min (x.nRemaining - n) (NumOps.floorU32 (NumOps.div (NumOps.sub x.targetTotal
          (NumOps.ofNat (50 * (x.nRemaining - n) + 100 * n + x.sav))) (NumOps.ofNat 250 : R))))
        (min (x.nRemaining - n) (NumOps.ceilU32 (NumOps.div (NumOps.sub x.targetTotal
          (NumOps.ofNat (50 * (x.nRemaining - n) + 100 * n + x.sav))) (NumOps.ofNat 250 : R))))).foldl
        (fun a new300 =>
          (a.check (decide (new300 ≤ x.nRemaining - n))).offer (x.distOf new300 n (x.nRemaining - n - new300))
            (new300, x.nRemaining - n - new300))
        { dist := NumOps.maxVal, val := (0, 0), hit := false, ok := decide (n ≤ x.nRemaining) }) := by
    apply foldl_inv
    · exact ⟨by simpa using hn, Or.inl ⟨rfl, rfl⟩⟩
    · intro a k hk ha
      have hk' := mem_rangeIncl hk
      have hle : k ≤ x.nRemaining - n := by omega
      apply searchInv_step _ _ _ _ _ _ ha
      · simpa using hle
      · show k + (x.nRemaining - n - k) = x.nRemaining - n
        omega
  unfold osuArm300a
  simp only [e]
  obtain ⟨hok, hcase⟩ := key
  refine ⟨hok, by first | rfl | trivial, ?_⟩
  rcases hcase with ⟨hh, hv⟩ | ⟨hh, hv⟩
  · left; exact ⟨hh, by rw [hv], by rw [hv]⟩
  · right; exact ⟨hh, hv⟩

theorem osuArm300b_spec (x : OsuCtx R) (n : Nat) (hn : n ≤ x.nRemaining) :
    let h := osuArm300b x n
    h.ok = true ∧ h.n50 = n ∧
      ((h.accepted = false ∧ h.n300 = 0 ∧ h.n100 = 0) ∨ (h.accepted = true ∧ h.n300 + h.n100 = x.nRemaining - n)) := by
  have e : min n x.nRemaining = n := by omega
  have key : SearchInv (R := R) (0, 0) (fun v => v.1 + v.2 = x.nRemaining - n)
      ((rangeIncl (min (x.nRemaining - n) (NumOps.floorU32 (NumOps.div (NumOps.sub (NumOps.add x.targetTotal
          (NumOps.ofNat (100 * x.misses + 50 * n))) (NumOps.ofNat (100 * x.nObjects + x.sav))) (NumOps.ofNat 200 : R))))
        (min (x.nRemaining - n) (NumOps.ceilU32 (NumOps.div (NumOps.sub (NumOps.add x.targetTotal
          (NumOps.ofNat (100 * x.misses + 50 * n))) (NumOps.ofNat (100 * x.nObjects + x.sav))) (NumOps.ofNat 200 : R))))).foldl
        (fun a new300 =>
          (a.check (decide (new300 ≤ x.nRemaining - n))).offer (x.distOf new300 (x.nRemaining - n - new300) n)
            (new300, x.nRemaining - n - new300))
        { dist := NumOps.maxVal, val := (0, 0), hit := false, ok := decide (n ≤ x.nRemaining) }) := by
    apply foldl_inv
    · exact ⟨by simpa using hn, Or.inl ⟨rfl, rfl⟩⟩
    · intro a k hk ha
      have hk' := mem_rangeIncl hk
      have hle : k ≤ x.nRemaining - n := by omega
      apply searchInv_step _ _ _ _ _ _ ha
      · simpa using hle
      · show k + (x.nRemaining - n - k) = x.nRemaining - n
        omega
  unfold osuArm300b
  simp only [e]
  obtain ⟨hok, hcase⟩ := key
  refine ⟨hok, by first | rfl | trivial, ?_⟩
  rcases hcase with ⟨hh, hv⟩ | ⟨hh, hv⟩
  · left; exact ⟨hh, by rw [hv], by rw [hv]⟩
  · right; exact ⟨hh, hv⟩

/-- the nested search only ever accepts triples that distribute exactly `nRemaining` -/
theorem osuSearch2_inv (x : OsuCtx R) :
    SearchInv (R := R) (0, 0, 0) (fun v => v.1 + v.2.1 + v.2.2 = x.nRemaining) (osuSearch2 x) := by
  unfold osuSearch2
  apply foldl_inv
  · exact ⟨rfl, Or.inl ⟨rfl, rfl⟩⟩
  · intro a k hk ha
    have hk' := mem_rangeIncl hk
    have hle : k ≤ x.nRemaining := by omega
    apply foldl_inv
    · obtain ⟨hok, hcase⟩ := ha
      exact ⟨by simp [hok, hle], by simpa using hcase⟩
    · intro a' j hj ha'
      have hj' := mem_rangeIncl hj
      have hle' : k + j ≤ x.nRemaining := by omega
      apply searchInv_step _ _ _ _ _ _ ha'
      · simpa using hle'
      · show k + j + (x.nRemaining - k - j) = x.nRemaining
        omega

/-- the priority adjustment keeps the sum and never underflows -/
theorem osuShift_spec (prio : Prio) (a b c : Nat) :
    let r := osuShift prio a b c
    r.2 = true ∧ r.1.1 + r.1.2.1 + r.1.2.2 = a + b + c := by
  cases prio <;> simp [osuShift] <;> omega

theorem osuArmNone_spec (x : OsuCtx R) (prio : Prio) :
    let h := osuArmNone x prio
    h.ok = true ∧
      ((h.accepted = false ∧ h.n300 = 0 ∧ h.n100 = 0 ∧ h.n50 = 0) ∨
       (h.accepted = true ∧ h.n300 + h.n100 + h.n50 = x.nRemaining)) := by
  obtain ⟨hok, hcase⟩ := osuSearch2_inv x
  unfold osuArmNone
  have hs := osuShift_spec prio (osuSearch2 x).val.1 (osuSearch2 x).val.2.1 (osuSearch2 x).val.2.2
  simp only at hs ⊢
  refine ⟨by simp [hok, hs.1], ?_⟩
  rcases hcase with ⟨hh, hv⟩ | ⟨hh, hv⟩
  · left
    refine ⟨hh, ?_⟩
    rw [hv]
    cases prio <;> simp [osuShift]
  · right
    exact ⟨hh, by omega⟩

/-- Everything the C12 clauses need to know about the hit-result part. -/
structure OsuHitsSpec (b : OsuB R) (nObjects misses : Nat) (h : OsuHits) : Prop where
  ok : h.ok = true
  le300 : h.n300 ≤ nObjects - misses
  le100 : h.n100 ≤ nObjects - misses
  le50 : h.n50 ≤ nObjects - misses
  sum_ge : h.accepted = true → nObjects ≤ h.n300 + h.n100 + h.n50 + misses
  sum_eq : h.accepted = true → b.n300.getD 0 + b.n100.getD 0 + b.n50.getD 0 + misses ≤ nObjects →
    h.n300 + h.n100 + h.n50 + misses = nObjects
  keep300 : h.accepted = true → ∀ n, b.n300 = some n →
    n + b.n100.getD 0 + b.n50.getD 0 + misses ≤ nObjects →
    (b.n100 = none ∨ b.n50 = none ∨ n + b.n100.getD 0 + b.n50.getD 0 + misses = nObjects) → h.n300 = n
  keep100 : h.accepted = true → ∀ n, b.n100 = some n →
    b.n300.getD 0 + n + b.n50.getD 0 + misses ≤ nObjects →
    (b.n300 = none ∨ b.n50 = none ∨ b.n300.getD 0 + n + b.n50.getD 0 + misses = nObjects) → h.n100 = n
  keep50 : h.accepted = true → ∀ n, b.n50 = some n →
    b.n300.getD 0 + b.n100.getD 0 + n + misses ≤ nObjects →
    (b.n300 = none ∨ b.n100 = none ∨ b.n300.getD 0 + b.n100.getD 0 + n + misses = nObjects) → h.n50 = n

theorem osuHitResults_spec (prio : Prio) (b : OsuB R) (origin : OsuOrigin) (se lt st nObjects misses : Nat)
    (hm : misses ≤ nObjects) :
    OsuHitsSpec b nObjects misses (osuHitResults prio b origin se lt st nObjects misses) := by
  unfold osuHitResults
  rcases hacc : b.acc with _ | acc
  · rcases h3 : b.n300 with _ | n3 <;> rcases h1 : b.n100 with _ | n1 <;> rcases h5 : b.n50 with _ | n5 <;>
      cases prio <;> (constructor <;> simp [osuNoAcc, h3, h1, h5] <;> omega)
  · rcases h3 : b.n300 with _ | n3 <;> rcases h1 : b.n100 with _ | n1 <;> rcases h5 : b.n50 with _ | n5
    · -- none none none
      have hs := osuArmNone_spec (R := R)
        { acc := acc, targetTotal := NumOps.mul acc (NumOps.ofNat (300 * nObjects + (osuSliderAccValues origin se lt st).2)),
          origin := origin, nObjects := nObjects, nRemaining := nObjects - misses, misses := misses,
          lt := lt, st := st, se := se, sav := (osuSliderAccValues origin se lt st).1 } prio
      simp only at hs ⊢
      obtain ⟨hok, hcase⟩ := hs
      constructor <;> (try simp only [hok, h3, h1, h5, Option.getD_none]) <;>
        rcases hcase with ⟨hh, h300, h100, h50⟩ | ⟨hh, hsum⟩ <;>
        first
          | omega
          | (simp_all; done)
          | (simp_all <;> omega)
    · -- none none some
      have hn : min n5 (nObjects - misses) ≤ nObjects - misses := by omega
      have hs := osuArm300b_spec (R := R)
        { acc := acc, targetTotal := NumOps.mul acc (NumOps.ofNat (300 * nObjects + (osuSliderAccValues origin se lt st).2)),
          origin := origin, nObjects := nObjects, nRemaining := nObjects - misses, misses := misses,
          lt := lt, st := st, se := se, sav := (osuSliderAccValues origin se lt st).1 } _ hn
      simp only [optMin_some, optMin_none] at hs ⊢
      obtain ⟨hok, hkeep, hcase⟩ := hs
      constructor <;> (try simp only [hok, h3, h1, h5, Option.getD_none, Option.getD_some]) <;>
        rcases hcase with ⟨hh, ha, hb⟩ | ⟨hh, hsum⟩ <;>
        first
          | omega
          | (simp_all; done)
          | (simp_all <;> omega)
    · -- none some none
      have hn : min n1 (nObjects - misses) ≤ nObjects - misses := by omega
      have hs := osuArm300a_spec (R := R)
        { acc := acc, targetTotal := NumOps.mul acc (NumOps.ofNat (300 * nObjects + (osuSliderAccValues origin se lt st).2)),
          origin := origin, nObjects := nObjects, nRemaining := nObjects - misses, misses := misses,
          lt := lt, st := st, se := se, sav := (osuSliderAccValues origin se lt st).1 } _ hn
      simp only [optMin_some, optMin_none] at hs ⊢
      obtain ⟨hok, hkeep, hcase⟩ := hs
      constructor <;> (try simp only [hok, h3, h1, h5, Option.getD_none, Option.getD_some]) <;>
        rcases hcase with ⟨hh, ha, hb⟩ | ⟨hh, hsum⟩ <;>
        first
          | omega
          | (simp_all; done)
          | (simp_all <;> omega)
    · cases prio <;> (constructor <;> simp [h3, h1, h5] <;> omega)
    · -- some none none
      have hn : min n3 (nObjects - misses) ≤ nObjects - misses := by omega
      have hs := osuArm100_spec (R := R)
        { acc := acc, targetTotal := NumOps.mul acc (NumOps.ofNat (300 * nObjects + (osuSliderAccValues origin se lt st).2)),
          origin := origin, nObjects := nObjects, nRemaining := nObjects - misses, misses := misses,
          lt := lt, st := st, se := se, sav := (osuSliderAccValues origin se lt st).1 } _ hn
      simp only [optMin_some, optMin_none] at hs ⊢
      obtain ⟨hok, hkeep, hcase⟩ := hs
      constructor <;> (try simp only [hok, h3, h1, h5, Option.getD_none, Option.getD_some]) <;>
        rcases hcase with ⟨hh, ha, hb⟩ | ⟨hh, hsum⟩ <;>
        first
          | omega
          | (simp_all; done)
          | (simp_all <;> omega)
    all_goals (cases prio <;> (constructor <;> simp [h3, h1, h5] <;> omega))

/-- The branch the second call takes: every hit result provided and consistent. -/
theorem osuHitResults_all_given (prio : Prio) (b : OsuB R) (origin : OsuOrigin) (se lt st nObjects misses x y z : Nat)
    (h3 : b.n300 = some x) (h1 : b.n100 = some y) (h5 : b.n50 = some z)
    (hx : x ≤ nObjects - misses) (hy : y ≤ nObjects - misses) (hz : z ≤ nObjects - misses)
    (hsum : nObjects ≤ x + y + z + misses) :
    osuHitResults prio b origin se lt st nObjects misses = ⟨x, y, z, true, true⟩ := by
  unfold osuHitResults
  have e1 : min x (nObjects - misses) = x := by omega
  have e2 : min y (nObjects - misses) = y := by omega
  have e3 : min z (nObjects - misses) = z := by omega
  have e4 : nObjects - (x + y + z + misses) = 0 := by omega
  rcases hacc : b.acc with _ | acc <;> cases prio <;> simp [h3, h1, h5, e1, e2, e3, e4, osuNoAcc]

theorem osuGenRaw_eq (c : OsuCfg) (b : OsuB R) :
    osuGenRaw c b =
      (let nObjects := min (passedU32 c.passed) c.nObjects
       let misses := optMin b.misses nObjects
       let sp := osuSliderParts c b
       let hits := osuHitResults c.prio b sp.1 sp.2.1 sp.2.2.1 sp.2.2.2 nObjects misses
       { state := { maxCombo := optMinOr b.combo (c.maxCombo - misses), largeTickHits := sp.2.2.1,
                    smallTickHits := sp.2.2.2, sliderEndHits := sp.2.1, n300 := hits.n300,
                    n100 := hits.n100, n50 := hits.n50, misses := misses },
         accepted := hits.accepted, ok := decide (misses ≤ nObjects) && hits.ok }) := rfl

/-- The slider parts of the second call (fields set to the first call's output) are the same. -/
theorem osuSliderParts_update (c : OsuCfg) (b b' : OsuB R)
    (hse : b'.sliderEndHits = some (osuSliderParts c b).2.1)
    (hlt : b'.largeTickHits = some (osuSliderParts c b).2.2.1)
    (hst : b'.smallTickHits = some (osuSliderParts c b).2.2.2) :
    osuSliderParts c b' = osuSliderParts c b := by
  unfold osuSliderParts at *
  rcases hl : c.lazer <;> rcases hn : c.noSliderHeadAcc <;> simp only [hl, hn] at hse hlt hst ⊢
  · have h1 := optMinOr_le b.sliderEndHits c.nSliders
    have h2 := optMinOr_le b.largeTickHits c.nLargeTicks
    simp only [hse, hlt, optMinOr_some]
    congr 2
    · omega
    · congr 1; omega
  · have h1 := optMinOr_le b.smallTickHits c.nSliders
    have h2 := optMinOr_le b.largeTickHits (c.nSliders + c.nLargeTicks)
    simp only [hst, hlt, optMinOr_some]
    congr 3
    · omega
    · omega

/-- The second call (every field provided, consistent values) returns the provided values. -/
theorem osuGenRaw_all_given (c : OsuCfg) (b : OsuB R) (k x y z m : Nat)
    (hc : b.combo = some k) (h3 : b.n300 = some x) (h1 : b.n100 = some y) (h5 : b.n50 = some z)
    (hm : b.misses = some m)
    (hmle : m ≤ min (passedU32 c.passed) c.nObjects)
    (hx : x ≤ min (passedU32 c.passed) c.nObjects - m) (hy : y ≤ min (passedU32 c.passed) c.nObjects - m)
    (hz : z ≤ min (passedU32 c.passed) c.nObjects - m)
    (hsum : min (passedU32 c.passed) c.nObjects ≤ x + y + z + m) (hk : k ≤ c.maxCombo - m) :
    osuGenRaw c b =
      { state := { maxCombo := k, largeTickHits := (osuSliderParts c b).2.2.1,
                   smallTickHits := (osuSliderParts c b).2.2.2, sliderEndHits := (osuSliderParts c b).2.1,
                   n300 := x, n100 := y, n50 := z, misses := m },
        accepted := true, ok := true } := by
  rw [osuGenRaw_eq]
  have e : min m (min (passedU32 c.passed) c.nObjects) = m := by omega
  have e2 : min k (c.maxCombo - m) = k := by omega
  simp only [hc, hm, optMin_some, optMinOr_some, e, e2]
  rw [osuHitResults_all_given c.prio b _ _ _ _ _ m x y z h3 h1 h5 hx hy hz hsum]
  simp [hmle]

end Rosu.GenState
