import RosuModel.Lemmas.TaikoPreColourAll

/-!
Liveness of the colour graph of `Model/TaikoPre.lean`: every repeating hit pattern is referenced by
the colour data of at least one object.  In the code that reference is the only *strong* pointer
to the pattern once `process_and_assign` has returned (`color_data.repeating_hit_patterns:
Option<RefCount<…>>`); the pattern strongly owns its alternating patterns, which strongly own their
mono streaks.  Hence every `Weak` of the colour graph (`prev`, `parent`, `mono_streak`,
`alternating_mono_pattern`) can be upgraded for as long as the difficulty objects live — which is
what identifying `Weak::upgrade` with index validity in the model presupposes.
-/

namespace Rosu.TaikoPre

variable {T : Type}

/-- In a list of lists whose concatenation has no duplicates an element determines its block. -/
theorem flatten_index_unique {α : Type} :
    ∀ (L : List (List α)) (i j : Nat) (a b : List α) (x : α),
      L.flatten.Nodup → L[i]? = some a → L[j]? = some b → x ∈ a → x ∈ b → i = j
  | [], i, _, _, _, _, _, hi, _, _, _ => by simp at hi
  | _ :: _, 0, 0, _, _, _, _, _, _, _, _ => rfl
  | l :: L, 0, j + 1, a, b, x, hnd, hi, hj, ha, hb => by
    simp only [List.getElem?_cons_zero, Option.some.injEq] at hi
    simp only [List.getElem?_cons_succ] at hj
    subst hi
    rw [List.flatten_cons, List.nodup_append] at hnd
    have : x ∈ L.flatten := List.mem_flatten.mpr ⟨b, List.mem_of_getElem? hj, hb⟩
    exact absurd rfl (hnd.2.2 x ha x this)
  | l :: L, i + 1, 0, a, b, x, hnd, hi, hj, ha, hb => by
    simp only [List.getElem?_cons_zero, Option.some.injEq] at hj
    simp only [List.getElem?_cons_succ] at hi
    subst hj
    rw [List.flatten_cons, List.nodup_append] at hnd
    have : x ∈ L.flatten := List.mem_flatten.mpr ⟨a, List.mem_of_getElem? hi, ha⟩
    exact absurd rfl (hnd.2.2 x hb x this)
  | l :: L, i + 1, j + 1, a, b, x, hnd, hi, hj, ha, hb => by
    simp only [List.getElem?_cons_succ] at hi hj
    rw [List.flatten_cons, List.nodup_append] at hnd
    have := flatten_index_unique L i j a b x hnd.2.1 hi hj ha hb
    omega

theorem reps_blocks_flatten (reps : List Rep) :
    (reps.map fun r => r.flatten.flatten).flatten = reps.flatten.flatten.flatten := by
  rw [List.flatten_flatten (L := reps), List.flatten_flatten (L := reps.map List.flatten), List.map_map]
  rfl

/-- The colour data of an object names the repeating pattern that contains the object. -/
theorem colour_rep_unique {st : Store T} {monos : List Mono} {alts : List Alt} {reps : List Rep}
    {ivs : List Nat} {colour : List ColourOf} (hci : ColourInv st monos alts reps ivs colour)
    (k : Nat) (rep : Rep) (hk : reps[k]? = some rep) (p : Nat) (hp : p ∈ rep.flatten.flatten)
    (c : ColourOf) (hc : colour[p]? = some c) : c.1 = k := by
  obtain ⟨rep', alt', mono', r1, r2, r3, r4⟩ := hci.colour_points p c hc
  have hp' : p ∈ rep'.flatten.flatten :=
    List.mem_flatten.mpr ⟨mono', List.mem_flatten.mpr ⟨alt', List.mem_of_getElem? r2, List.mem_of_getElem? r3⟩,
      List.mem_of_getElem? r4⟩
  have hnd : ((reps.map fun r => r.flatten.flatten).flatten).Nodup := by
    rw [reps_blocks_flatten, hci.reps_partition, hci.alts_partition, hci.monos_partition]
    exact List.nodup_range
  exact flatten_index_unique (reps.map fun r => r.flatten.flatten) c.1 k _ _ p hnd
    (by rw [List.getElem?_map, r1]; rfl) (by rw [List.getElem?_map, hk]; rfl) hp' hp

/-- **Every repeating hit pattern is held by an object**: for each pattern `k` there is an object
whose colour data points at it. -/
theorem every_rep_is_held {st : Store T} {monos : List Mono} {alts : List Alt} {reps : List Rep}
    {ivs : List Nat} {colour : List ColourOf} (hci : ColourInv st monos alts reps ivs colour)
    (k : Nat) (hk : k < reps.length) :
    ∃ p : Nat, ∃ c : ColourOf, colour[p]? = some c ∧ c.1 = k := by
  have hget : reps[k]? = some reps[k] := List.getElem?_eq_getElem hk
  have hrep : reps[k] ∈ reps := List.getElem_mem hk
  obtain ⟨alt, halt⟩ := List.exists_mem_of_ne_nil _ (hci.reps_nonempty _ hrep)
  have halts : alt ∈ alts := by
    rw [← hci.reps_partition]; exact List.mem_flatten.mpr ⟨_, hrep, halt⟩
  obtain ⟨mono, hmono⟩ := List.exists_mem_of_ne_nil _ (hci.alts_nonempty _ halts)
  have hmonos : mono ∈ monos := by
    rw [← hci.alts_partition]; exact List.mem_flatten.mpr ⟨_, halts, hmono⟩
  obtain ⟨p, hp⟩ := List.exists_mem_of_ne_nil _ (hci.monos_nonempty _ hmonos)
  have hpn : p < st.objects.length := by
    have : p ∈ monos.flatten := List.mem_flatten.mpr ⟨_, hmonos, hp⟩
    rw [hci.monos_partition] at this
    exact List.mem_range.mp this
  have hlt : p < colour.length := by rw [hci.colour_len]; exact hpn
  have hc : colour[p]? = some colour[p] := List.getElem?_eq_getElem hlt
  refine ⟨p, colour[p], hc, ?_⟩
  exact colour_rep_unique hci k reps[k] hget p
    (List.mem_flatten.mpr ⟨mono, List.mem_flatten.mpr ⟨alt, halt, hmono⟩, hp⟩) _ hc

end Rosu.TaikoPre
