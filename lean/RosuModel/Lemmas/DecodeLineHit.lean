import RosuModel.Model.DecodeLine

/-!
Lemmas about the hit-object line parser of `Model/DecodeLine.lean`:
* no checked access ever fails (`Err.panic` is unreachable) — loop invariants of the two
  `while { end_idx += 1; end_idx < len }` loops;
* exactly one object and one sound are pushed by an accepted line, none by a rejected one.
-/
namespace Rosu.DecodeLine

/-! ## small facts -/

theorem slice?_some {α : Type} (l : List α) (a b : Nat) (h1 : a ≤ b) (h2 : b ≤ l.length) :
    slice? l a b = some ((l.drop a).take (b - a)) := by
  unfold slice?; rw [if_pos ⟨h1, h2⟩]

theorem parseI32Lim_ok_range (s : Str) (lim n : Int) (h : parseI32Lim s lim = .ok n) :
    -lim ≤ n ∧ n ≤ lim := by
  unfold parseI32Lim at h
  split at h
  · cases h
  · split at h
    · cases h
    · split at h
      · cases h
      · injection h with h; subst h; omega

theorem parseI32_ok_range (s : Str) (n : Int) (h : parseI32 s = .ok n) :
    -2147483647 ≤ n ∧ n ≤ 2147483647 := parseI32Lim_ok_range s _ n h

theorem readPoint_ne_panic (v : Str) (ox oy : Int) : readPoint v ox oy ≠ .error .panic := by
  unfold readPoint
  split
  · split <;> simp
  · simp

theorem readPoints_ne_panic (ox oy : Int) : ∀ l, readPoints ox oy l ≠ .error .panic
  | [] => by simp [readPoints]
  | p :: ps => by
    unfold readPoints
    split
    · rename_i e h
      intro hc
      injection hc with hc
      subst hc
      exact readPoint_ne_panic p ox oy h
    · split
      · rename_i e h
        intro hc
        injection hc with hc
        subst hc
        exact readPoints_ne_panic ox oy ps h
      · simp

theorem endVertex_ne_panic (ep : Option Str) (ox oy : Int) : endVertex ep ox oy ≠ .error .panic := by
  unfold endVertex
  split
  · simp
  · split
    · rename_i e h
      intro hc
      injection hc with hc
      subst hc
      exact readPoint_ne_panic _ ox oy h
    · simp

theorem endVertex_length (ep : Option Str) (ox oy : Int) (ev : List CP)
    (h : endVertex ep ox oy = .ok ev) : ev.length ≤ 1 := by
  unfold endVertex at h
  split at h
  · injection h with h; subst h; simp
  · split at h
    · cases h
    · injection h with h; subst h; simp

/-! ## the loop of `convert_points` -/

/-- The loop returns (fuel `n + 1` suffices), never indexes out of bounds, keeps the number of
vertices, and stops at `end_idx = e0 + 1` or at some `end_idx ≤ n`. -/
theorem cpLoop_spec (pt : PT) (n : Nat) : ∀ (fuel : Nat) (verts : List CP) (start e0 : Nat)
    (curve : List CP), n ≤ verts.length → start ≤ e0 + 1 → e0 ≤ n → n + 1 ≤ e0 + fuel →
    ∃ verts' start' e' curve', cpLoop pt n fuel verts start e0 curve = .ok (verts', start', e', curve') ∧
      verts'.length = verts.length ∧ (e' = e0 + 1 ∨ e' ≤ n) := by
  intro fuel
  induction fuel with
  | zero => intro verts start e0 curve h1 h2 h3 h4; omega
  | succ f ih =>
    intro verts start e0 curve h1 h2 h3 h4
    unfold cpLoop
    by_cases he : e0 + 1 < n
    · have ha : e0 + 1 < verts.length := by omega
      have hb : e0 + 1 - 1 < verts.length := by omega
      simp only [he, if_true, List.getElem?_eq_getElem ha, List.getElem?_eq_getElem hb]
      have rec1 : ∃ verts' start' e' curve',
          cpLoop pt n f verts start (e0 + 1) curve = .ok (verts', start', e', curve') ∧
          verts'.length = verts.length ∧ (e' = e0 + 1 ∨ e' ≤ n) := by
        obtain ⟨v', s', e', c', hr, hl, hb⟩ := ih verts start (e0 + 1) curve h1 (by omega) (by omega) (by omega)
        exact ⟨v', s', e', c', hr, hl, by omega⟩
      split
      · exact rec1
      · split
        · exact rec1
        · split
          · omega
          · split
            · exact rec1
            · have hlen : (verts.set (e0 + 1 - 1) { verts[e0 + 1 - 1] with ty := some pt }).length
                  = verts.length := List.length_set
              rw [slice?_some _ start (e0 + 1) h2 (by rw [hlen]; omega)]
              simp only []
              obtain ⟨v', s', e', c', hr, hl, hb⟩ := ih
                (verts.set (e0 + 1 - 1) { verts[e0 + 1 - 1] with ty := some pt }) (e0 + 1 + 1) (e0 + 1)
                (curve ++ List.take (e0 + 1 - start)
                  (List.drop start (verts.set (e0 + 1 - 1) { verts[e0 + 1 - 1] with ty := some pt })))
                (by rw [hlen]; exact h1) (by omega) (by omega) (by omega)
              exact ⟨v', s', e', c', hr, by rw [hl, hlen], by omega⟩
    · simp only [he, if_false]
      exact ⟨verts, start, e0 + 1, curve, rfl, rfl, Or.inl rfl⟩

theorem cpTail_ne_panic (curve verts : List CP) (epl : Nat) (pt : PT) (h1 : epl ≤ verts.length)
    (h2 : 1 ≤ verts.length) : (cpTail curve verts epl pt).2 ≠ .error .panic := by
  unfold cpTail
  rw [if_neg (by omega)]
  obtain ⟨v', s', e', c', hr, hl, hb⟩ := cpLoop_spec pt (verts.length - epl) (verts.length - epl + 1)
    verts 0 0 curve (by omega) (by omega) (by omega) (by omega)
  rw [hr]
  simp only []
  by_cases hes : e' > s'
  · rw [if_pos hes, slice?_some _ _ _ (by omega) (by omega)]
    simp
  · rw [if_neg hes]
    simp

/-- `convert_points` never panics. -/
theorem convertPoints_ne_panic (curve : List CP) (points : List Str) (ep : Option Str) (first : Bool)
    (ox oy : Int) : (convertPoints curve points ep first ox oy).2 ≠ .error .panic := by
  unfold convertPoints
  cases points with
  | nil => simp
  | cons tyStr pts =>
    simp only []
    cases hvs : readPoints ox oy pts with
    | error e =>
      simp only []
      intro hc
      injection hc with hc
      subst hc
      exact readPoints_ne_panic ox oy pts hvs
    | ok vs =>
      simp only []
      cases hev : endVertex ep ox oy with
      | error e =>
        simp only []
        intro hc
        injection hc with hc
        subst hc
        exact endVertex_ne_panic ep ox oy hev
      | ok ev =>
        simp only []
        cases hverts : cpVerts first vs ev with
        | nil => simp
        | cons v rest =>
          simp only []
          apply cpTail_ne_panic
          · have : (cpVerts first vs ev).length = (v :: rest).length := by rw [hverts]
            unfold cpVerts at this
            simp only [List.length_append, List.length_cons] at this ⊢
            omega
          · simp

/-! ## the loop of `convert_path_str` -/

theorem pathLoop_spec (ps : List Str) (ox oy : Int) : ∀ (fuel start e0 : Nat) (first : Bool)
    (curve : List CP), start ≤ e0 → e0 ≤ ps.length → ps.length + 1 ≤ e0 + fuel →
    (pathLoop ps ox oy fuel start e0 first curve).2 ≠ .error .panic ∧
    ∀ r, (pathLoop ps ox oy fuel start e0 first curve).2 = .ok r →
      r.1 ≤ r.2.1 ∧ (r.2.1 = e0 + 1 ∨ r.2.1 ≤ ps.length) := by
  intro fuel
  induction fuel with
  | zero => intro start e0 first curve h1 h2 h3; omega
  | succ f ih =>
    intro start e0 first curve h1 h2 h3
    unfold pathLoop
    by_cases he : e0 + 1 < ps.length
    · simp only [he, if_true, List.getElem?_eq_getElem he]
      split
      · simp
      · rename_i c hc
        have rec1 := ih start (e0 + 1) first curve (by omega) (by omega) (by omega)
        split
        · refine ⟨rec1.1, fun r hr => ?_⟩
          have := rec1.2 r hr
          omega
        · rw [slice?_some _ start (e0 + 1) (by omega) (by omega)]
          simp only []
          split
          · rename_i curve' err hcp
            refine ⟨?_, fun r hr => by cases hr⟩
            intro hc
            injection hc with hc
            subst hc
            have := convertPoints_ne_panic curve (List.take (e0 + 1 - start) (List.drop start ps))
              ps[e0 + 1 + 1]? first ox oy
            rw [hcp] at this
            exact this rfl
          · rename_i curve' hcp
            have rec2 := ih (e0 + 1) (e0 + 1) false curve' (by omega) (by omega) (by omega)
            refine ⟨rec2.1, fun r hr => ?_⟩
            have := rec2.2 r hr
            omega
    · simp only [he, if_false]
      refine ⟨by simp, fun r hr => ?_⟩
      injection hr with hr
      subst hr
      exact ⟨by simp; omega, Or.inl rfl⟩

theorem splitC_length_pos (c : Char) (s : Str) : 1 ≤ (splitC c s).length := by
  unfold splitC; simp

/-- `convert_path_str` never panics. -/
theorem convertPathStr_ne_panic (curve : List CP) (s : Str) (ox oy : Int) :
    (convertPathStr curve s ox oy).2 ≠ .error .panic := by
  unfold convertPathStr
  simp only []
  have hp := splitC_length_pos '|' s
  have spec := pathLoop_spec (splitC '|' s) ox oy ((splitC '|' s).length + 1) 0 0 true curve
    (by omega) (by omega) (by omega)
  split
  · rename_i curve' e h
    intro hc
    injection hc with hc
    subst hc
    have := spec.1
    rw [h] at this
    exact this rfl
  · rename_i curve' start e first h
    have hb := spec.2 (start, e, first) (by rw [h])
    simp only [] at hb
    split
    · rw [slice?_some _ _ _ hb.1 (by omega)]
      exact convertPoints_ne_panic _ _ _ _ _ _
    · simp

/-! ## `parse_hit_objects` -/

theorem sliderLen_ne_panic (f : Option Str) : sliderLen f ≠ .error .panic := by
  unfold sliderLen
  cases f with
  | none => simp
  | some s =>
    simp only []
    cases F64.parseLim s maxCoord64 <;> simp

theorem parseSlider_ne_panic (curve : List CP) (x y : Int) (sound : Nat) (ps rs : Str)
    (rest2 : List Str) : (parseSlider curve x y sound ps rs rest2).2 ≠ .error .panic := by
  unfold parseSlider
  cases hreps : parseI32 rs with
  | error e => simp
  | ok reps =>
    simp only []
    have hr := parseI32_ok_range _ _ hreps
    by_cases h9 : reps > repeatCap
    · rw [if_pos h9]; simp
    · rw [if_neg h9]
      have : repeatsOf reps = some (if reps - 1 < 0 then 0 else reps - 1).toNat := by
        unfold repeatsOf; rw [if_neg (by omega)]
      rw [this]
      simp only []
      cases hlen : sliderLen rest2.head? with
      | error e =>
        simp only []
        intro hc
        injection hc with hc
        subst hc
        exact sliderLen_ne_panic _ hlen
      | ok len =>
        simp only []
        cases parseCustomSound rest2[3]? sound with
        | error e => simp
        | ok snd =>
          simp only []
          have hp := convertPathStr_ne_panic curve ps x y
          cases hcp : convertPathStr curve ps x y with
          | mk curve' r =>
            rw [hcp] at hp
            cases r with
            | error e =>
              simp only []
              intro hc
              injection hc with hc
              subst hc
              exact hp rfl
            | ok u => simp

theorem parseCircle_ne_panic (sound : Nat) (rest : List Str) : parseCircle sound rest ≠ .error .panic := by
  unfold parseCircle
  cases parseCustomSound rest.head? sound <;> simp

theorem parseSpinner_ne_panic (time sound : Nat) (rest : List Str) :
    parseSpinner time sound rest ≠ .error .panic := by
  unfold parseSpinner
  cases rest with
  | nil => simp
  | cons es rest2 =>
    simp only []
    cases parseF64 es with
    | error e => simp
    | ok t =>
      simp only []
      cases parseCustomSound rest2.head? sound <;> simp

theorem parseHold_ne_panic (time sound : Nat) (rest : List Str) :
    parseHold time sound rest ≠ .error .panic := by
  unfold parseHold
  cases Option.filter (fun s => !s.isEmpty) rest.head? with
  | none => simp
  | some s =>
    simp only []
    cases splitOnce ':' s with
    | none => simp
    | some p =>
      obtain ⟨es, bank⟩ := p
      simp only []
      cases parseCustomSound (some bank) sound with
      | error e => simp
      | ok snd =>
        simp only []
        cases parseF64 es <;> simp

theorem parseKind_ne_panic (curve : List CP) (x y : Int) (time : Nat) (ty : Int) (sound : Nat)
    (rest : List Str) : (parseKind curve x y time ty sound rest).2 ≠ .error .panic := by
  unfold parseKind
  by_cases h1 : hasFlag ty 1 = true
  · rw [if_pos h1]; exact parseCircle_ne_panic _ _
  · rw [if_neg h1]
    by_cases h2 : hasFlag ty 2 = true
    · rw [if_pos h2]
      match rest with
      | [] => simp
      | [_] => simp
      | ps :: rs :: rest2 => exact parseSlider_ne_panic _ _ _ _ _ _ _
    · rw [if_neg h2]
      by_cases h8 : hasFlag ty 8 = true
      · rw [if_pos h8]; exact parseSpinner_ne_panic _ _ _
      · rw [if_neg h8]
        by_cases h128 : hasFlag ty 128 = true
        · rw [if_pos h128]; exact parseHold_ne_panic _ _ _
        · rw [if_neg h128]; simp

theorem posOf_ne_panic (s : Str) : posOf s ≠ .error .panic := by
  unfold posOf
  cases F32.parseLim s maxCoord32 <;> simp

/-- (a) `parse_hit_objects` never panics: no index, slice or subtraction it performs can fail, for
every state and every line. -/
theorem parseHitObject_ne_panic (st : HState) (line : Str) :
    (parseHitObject st line).2 ≠ .error .panic := by
  unfold parseHitObject
  match splitC ',' (trimComment line) with
  | [] => simp
  | [_] => simp
  | [_, _] => simp
  | [_, _, _] => simp
  | [_, _, _, _] => simp
  | xs :: ys :: ts :: ks :: ss :: rest =>
    simp only []
    cases hx : posOf xs with
    | error e =>
      simp only []
      intro hc
      injection hc with hc
      subst hc
      exact posOf_ne_panic _ hx
    | ok x =>
      simp only []
      cases hy : posOf ys with
      | error e =>
        simp only []
        intro hc
        injection hc with hc
        subst hc
        exact posOf_ne_panic _ hy
      | ok y =>
        simp only []
        cases parseF64 ts with
        | error e => simp
        | ok time =>
          simp only []
          cases parseI32Raw ks with
          | none => simp
          | some ty =>
            simp only []
            cases parseI32Raw ss with
            | none => simp
            | some sn =>
              simp only []
              have hp := parseKind_ne_panic st.curve x y time ty (sn % 256).toNat rest
              cases hk : parseKind st.curve x y time ty (sn % 256).toNat rest with
              | mk curve r =>
                rw [hk] at hp
                cases r with
                | error e =>
                  simp only []
                  intro hc
                  injection hc with hc
                  subst hc
                  exact hp rfl
                | ok u => simp

/-- what `parse_hit_objects` does to the two vectors, in one statement: either the line is accepted
and exactly one object and one sound are appended, or it is rejected and both are untouched. -/
theorem parseHitObject_cases (st : HState) (line : Str) :
    ((parseHitObject st line).2 = .ok () ∧ ∃ o s,
        (parseHitObject st line).1.objects = st.objects ++ [o] ∧
        (parseHitObject st line).1.sounds = st.sounds ++ [s]) ∨
    ((∃ e, (parseHitObject st line).2 = .error e) ∧
        (parseHitObject st line).1.objects = st.objects ∧
        (parseHitObject st line).1.sounds = st.sounds) := by
  unfold parseHitObject
  match splitC ',' (trimComment line) with
  | [] => exact Or.inr ⟨⟨_, rfl⟩, rfl, rfl⟩
  | [_] => exact Or.inr ⟨⟨_, rfl⟩, rfl, rfl⟩
  | [_, _] => exact Or.inr ⟨⟨_, rfl⟩, rfl, rfl⟩
  | [_, _, _] => exact Or.inr ⟨⟨_, rfl⟩, rfl, rfl⟩
  | [_, _, _, _] => exact Or.inr ⟨⟨_, rfl⟩, rfl, rfl⟩
  | xs :: ys :: ts :: ks :: ss :: rest =>
    simp only []
    cases posOf xs with
    | error e => exact Or.inr ⟨⟨_, rfl⟩, rfl, rfl⟩
    | ok x =>
      simp only []
      cases posOf ys with
      | error e => exact Or.inr ⟨⟨_, rfl⟩, rfl, rfl⟩
      | ok y =>
        simp only []
        cases parseF64 ts with
        | error e => exact Or.inr ⟨⟨_, rfl⟩, rfl, rfl⟩
        | ok time =>
          simp only []
          cases parseI32Raw ks with
          | none => exact Or.inr ⟨⟨_, rfl⟩, rfl, rfl⟩
          | some ty =>
            simp only []
            cases parseI32Raw ss with
            | none => exact Or.inr ⟨⟨_, rfl⟩, rfl, rfl⟩
            | some sn =>
              simp only []
              cases parseKind st.curve x y time ty (sn % 256).toNat rest with
              | mk curve r =>
                cases r with
                | error e => exact Or.inr ⟨⟨_, rfl⟩, rfl, rfl⟩
                | ok u =>
                  obtain ⟨kind, snd⟩ := u
                  exact Or.inl ⟨rfl, _, _, rfl, rfl⟩

/-- (b) an accepted line pushes exactly one object and exactly one sound. -/
theorem parseHitObject_ok (st : HState) (line : Str) (h : (parseHitObject st line).2 = .ok ()) :
    ∃ o s, (parseHitObject st line).1.objects = st.objects ++ [o] ∧
      (parseHitObject st line).1.sounds = st.sounds ++ [s] := by
  rcases parseHitObject_cases st line with ⟨_, h2⟩ | ⟨⟨e, he⟩, _⟩
  · exact h2
  · rw [h] at he; cases he

/-- (b) a rejected line pushes neither an object nor a sound. -/
theorem parseHitObject_err (st : HState) (line : Str) (e : Err)
    (h : (parseHitObject st line).2 = .error e) :
    (parseHitObject st line).1.objects = st.objects ∧
      (parseHitObject st line).1.sounds = st.sounds := by
  rcases parseHitObject_cases st line with ⟨h1, _⟩ | ⟨_, h2⟩
  · rw [h] at h1; cases h1
  · exact h2

end Rosu.DecodeLine
