import RosuModel.Lemmas.CurveQuarter
import RosuModel.Lemmas.CurveSubdiv2

/-!
# `approximate_bspline` terminates in exact arithmetic, with an explicit iteration and vertex bound

Over an ordered field: a stack entry whose second differences have squared length `≤ ¼ · 16^k` is
completely processed (itself and everything it pushes) within `2^(k+1) − 1` iterations of the
`while let Some(parent) = to_flatten.pop()` loop and contributes at most `2^k` flat leaves of `p − 1`
vertices each — every subdivision divides the squared second differences by 16
(`Lemmas/CurveQuarter.lean`) and `bezier_is_flat_enough` accepts at `≤ ¼`.
-/
namespace Rosu.Curve

set_option linter.unusedSectionVars false

variable {K : Type} [Field K] [LinearOrder K] [IsStrictOrderedRing K] (T : Transc K)

/-- all four bezier buffers have at least `p` entries -/
def BufGe (p : Nat) (b : Bez K) : Prop :=
  p ≤ b.left.size ∧ p ≤ b.right.size ∧ p ≤ b.mid.size ∧ p ≤ b.leftChild.size

theorem isFlatEnough_iff (c : Array (Pos K)) :
    isFlatEnough (fieldArith T) c = true ↔ SdLe (1 / 4) c.toList := by
  unfold isFlatEnough
  rw [← anyNotFlat_false_iff T]
  cases anyNotFlat (fieldArith T) c.toList <;> simp

theorem SdLe_mono {m m' : K} (h : m ≤ m') (l : List (Pos K)) (hl : SdLe m l) : SdLe m' l :=
  fun i a b c ha hb hc => le_trans (hl i a b c ha hb hc) h

theorem pow_two_succ (k : Nat) : 2 ^ (k + 1) = 2 * 2 ^ k := by
  rw [Nat.pow_succ]; omega

theorem one_le_two_pow (k : Nat) : 1 ≤ 2 ^ k := Nat.one_le_two_pow

/-- One stack entry: iterations, leaves, vertices. -/
theorem bsplineLoop_entry (p : Nat) (hp : 2 ≤ p) :
    ∀ (k : Nat) (c : Array (Pos K)), c.size = p → SdLe (1 / 4 * 16 ^ k) c.toList →
      ∀ (path : Array (Pos K)) (b : Bez K), BufGe p b →
      ∃ (n leaves : Nat) (path' : Array (Pos K)) (b' : Bez K),
        1 ≤ n ∧ n ≤ 2 ^ (k + 1) - 1 ∧ 1 ≤ leaves ∧ leaves ≤ 2 ^ k ∧
        path'.size = path.size + leaves * (p - 1) ∧ BufGe p b' ∧
        ∀ (fuel : Nat) (rest : List (Array (Pos K))),
          bsplineLoop (fieldArith T) p (n + fuel) (c :: rest) path b =
            bsplineLoop (fieldArith T) p fuel rest path' b' := by
  intro k
  induction k with
  | zero =>
    intro c hc hsd path b hb
    have hflat : isFlatEnough (fieldArith T) c = true := by
      rw [isFlatEnough_iff]
      simpa using hsd
    obtain ⟨path', b', happ, _, hl, hr, hm, hlc⟩ := approximate_spec (fieldArith T) c path b
      (by omega) ⟨by rw [hc]; exact hb.1, by rw [hc]; exact hb.2.1, by rw [hc]; exact hb.2.2.1⟩
    have hsz := approximate_size (fieldArith T) c path b (by omega)
      ⟨by rw [hc]; exact hb.1, by rw [hc]; exact hb.2.1, by rw [hc]; exact hb.2.2.1⟩ path' b' happ
    refine ⟨1, 1, path', b', Nat.le_refl 1, by simp, Nat.le_refl 1, by simp, ?_, ?_, ?_⟩
    · rw [hsz, hc]; omega
    · exact ⟨by rw [hl]; exact hb.1, by rw [hr]; exact hb.2.1, by rw [hm]; exact hb.2.2.1,
        by rw [hlc]; exact hb.2.2.2⟩
    · intro fuel rest
      rw [Nat.add_comm 1 fuel]
      simp only [bsplineLoop, hflat, if_true, happ, bind, Except.bind]
  | succ k ih =>
    intro c hc hsd path b hb
    by_cases hflat : isFlatEnough (fieldArith T) c = true
    · -- flat: as in the base case
      obtain ⟨path', b', happ, _, hl, hr, hm, hlc⟩ := approximate_spec (fieldArith T) c path b
        (by omega) ⟨by rw [hc]; exact hb.1, by rw [hc]; exact hb.2.1, by rw [hc]; exact hb.2.2.1⟩
      have hsz := approximate_size (fieldArith T) c path b (by omega)
        ⟨by rw [hc]; exact hb.1, by rw [hc]; exact hb.2.1, by rw [hc]; exact hb.2.2.1⟩ path' b' happ
      have h1 := one_le_two_pow (k + 1)
      have h2 := one_le_two_pow (k + 1 + 1)
      have h3 := pow_two_succ (k + 1)
      refine ⟨1, 1, path', b', Nat.le_refl 1, by omega, Nat.le_refl 1, h1, ?_, ?_, ?_⟩
      · rw [hsz, hc]; omega
      · exact ⟨by rw [hl]; exact hb.1, by rw [hr]; exact hb.2.1, by rw [hm]; exact hb.2.2.1,
          by rw [hlc]; exact hb.2.2.2⟩
      · intro fuel rest
        rw [Nat.add_comm 1 fuel]
        simp only [bsplineLoop, hflat, if_true, happ, bind, Except.bind]
    · -- not flat: subdivide, the two children are one level better
      have hrc : (Array.replicate p (zero (fieldArith T)) : Array (Pos K)).size = p := by simp
      obtain ⟨lc', rc', mid', hsub, hlcs, hrcs, hmids, hleft, hright⟩ :=
        subdivide_spec (fieldArith T) c b.leftChild (Array.replicate p (zero (fieldArith T))) b.mid
          (by omega) (by rw [hc]; exact hb.2.2.2) (by rw [hc, hrc])
          (by rw [hc]; exact hb.2.2.1)
      have hm16 : (1 / 4 * 16 ^ (k + 1) : K) / 16 = 1 / 4 * 16 ^ k := by
        rw [pow_succ]; ring
      -- left child
      have hLsize : (lc'.extract 0 p).size = p := by
        rw [Array.size_extract, hlcs]
        have := hb.2.2.2
        omega
      have hLsd : SdLe (1 / 4 * 16 ^ k) (lc'.extract 0 p).toList := by
        have := SdLe_leftChildOf T _ c.toList hsd
        rw [hm16, ← hleft, hc] at this
        exact this
      -- right child
      have hRsize : rc'.size = p := by rw [hrcs, hrc]
      have hRsd : SdLe (1 / 4 * 16 ^ k) rc'.toList := by
        have := SdLe_rightChildOf T _ c.toList hsd
        rw [hm16, ← hright, hc] at this
        have e : rc'.extract 0 p = rc' := by
          rw [← hRsize]; exact Array.extract_size
        rw [e] at this
        exact this
      have hb1 : BufGe p { b with leftChild := lc', mid := mid' } :=
        ⟨hb.1, hb.2.1, by show p ≤ mid'.size; rw [hmids]; exact hb.2.2.1,
          by show p ≤ lc'.size; rw [hlcs]; exact hb.2.2.2⟩
      obtain ⟨n1, lv1, path1, b2, hn1, hn1', hlv1, hlv1', hp1, hb2, hrun1⟩ :=
        ih (lc'.extract 0 p) hLsize hLsd path _ hb1
      obtain ⟨n2, lv2, path2, b3, hn2, hn2', hlv2, hlv2', hp2, hb3, hrun2⟩ :=
        ih rc' hRsize hRsd path1 b2 hb2
      have h3 := pow_two_succ (k + 1)
      have h4 := pow_two_succ k
      have h5 := one_le_two_pow k
      refine ⟨1 + n1 + n2, lv1 + lv2, path2, b3, by omega, by omega, by omega, by omega, ?_, hb3, ?_⟩
      · rw [hp2, hp1, Nat.add_mul]; omega
      · intro fuel rest
        have e : 1 + n1 + n2 + fuel = (n1 + (n2 + fuel)) + 1 := by omega
        rw [e]
        have hneed : need (decide (p ≤ lc'.size) && decide (c.size = p)) = .ok () := by
          have : p ≤ lc'.size := by rw [hlcs]; exact hb.2.2.2
          simp [need, this, hc]
        have hflat' : isFlatEnough (fieldArith T) c = false := by
          cases h : isFlatEnough (fieldArith T) c
          · rfl
          · exact absurd h hflat
        simp only [bsplineLoop, hflat', Bool.false_eq_true, if_false, hsub, hneed, bind,
          Except.bind]
        rw [hrun1, hrun2]

/-- `BezierBuffers::extend_exact(len)` on buffers of one common length makes all of them `≥ len`. -/
theorem bufGe_extendExact (b : Bez K) (hb : BezWF b) (len : Nat) :
    BufGe len (extendExact (fieldArith T) b len) := by
  obtain ⟨h1, h2, h3⟩ := hb
  unfold extendExact
  split
  · rename_i h
    exact ⟨h, by omega, by omega, by omega⟩
  · rename_i h
    refine ⟨?_, ?_, ?_, ?_⟩ <;> simp only [Array.size_append, Array.size_replicate] <;> omega

/-- ★ `approximate_bezier` in exact arithmetic: if every second difference of the `p ≥ 2` control
points has squared length `≤ ¼ · 16^k`, then ANY fuel `≥ 2^(k+1) − 1` suffices, the result is `ok`,
and at most `2^k · (p − 1) + 1` vertices are appended. -/
theorem approximateBezier_terminates (k : Nat) (pts path : Array (Pos K)) (b : Bez K)
    (hp : 2 ≤ pts.size) (hb : BezWF b) (hsd : SdLe (1 / 4 * 16 ^ k) pts.toList)
    (fuel : Nat) (hfuel : 2 ^ (k + 1) - 1 ≤ fuel) :
    ∃ path' b', approximateBezier (fieldArith T) fuel path pts b = .ok (path', b') ∧
      path'.size ≤ path.size + 2 ^ k * (pts.size - 1) + 1 ∧ path.size + pts.size ≤ path'.size := by
  obtain ⟨n, lv, path1, b1, hn, hn', hlv, hlv', hp1, _, hrun⟩ :=
    bsplineLoop_entry T pts.size hp k pts rfl hsd path (extendExact (fieldArith T) b pts.size)
      (bufGe_extendExact T b hb pts.size)
  have hrun' := hrun (fuel - n) []
  have e : n + (fuel - n) = fuel := by omega
  rw [e] at hrun'
  have hlast : ∃ v, getC pts (pts.size - 1) = .ok v := by
    have : pts.size - 1 < pts.size := by omega
    exact ⟨pts[pts.size - 1], by simp [getC, Array.getElem?_eq_getElem this]⟩
  obtain ⟨v, hv⟩ := hlast
  refine ⟨path1.push v, b1, ?_, ?_, ?_⟩
  · unfold approximateBezier
    have hs : subC pts.size 1 = .ok (pts.size - 1) := by
      unfold subC; rw [if_pos (by omega)]
    simp only [hrun', bsplineLoop, hs, hv, bind, Except.bind]
  · rw [Array.size_push, hp1]
    have : lv * (pts.size - 1) ≤ 2 ^ k * (pts.size - 1) := Nat.mul_le_mul_right _ hlv'
    omega
  · rw [Array.size_push, hp1]
    have : 1 * (pts.size - 1) ≤ lv * (pts.size - 1) := Nat.mul_le_mul_right _ hlv
    omega

/-- With all coordinates in `[-B, B]` every second difference has squared length `≤ 32 B²`. -/
theorem SdLe_of_bounded (B : K) (l : List (Pos K))
    (h : ∀ v ∈ l, |v.x| ≤ B ∧ |v.y| ≤ B) : SdLe (32 * B ^ 2) l := by
  intro i a b c ha hb hc
  have ma := h a (List.mem_of_getElem? ha)
  have mb := h b (List.mem_of_getElem? hb)
  have mc := h c (List.mem_of_getElem? hc)
  obtain ⟨ax, ay⟩ := ma
  obtain ⟨bx, by'⟩ := mb
  obtain ⟨cx, cy⟩ := mc
  rw [abs_le] at ax ay bx by' cx cy
  unfold sdSq
  have hx : (a.x - b.x * 2 + c.x) * (a.x - b.x * 2 + c.x) ≤ 16 * B ^ 2 := by
    nlinarith [ax.1, ax.2, bx.1, bx.2, cx.1, cx.2]
  have hy : (a.y - b.y * 2 + c.y) * (a.y - b.y * 2 + c.y) ≤ 16 * B ^ 2 := by
    nlinarith [ay.1, ay.2, by'.1, by'.2, cy.1, cy.2]
  linarith

/-- ★ At the decoder's coordinate limit (`|x|, |y| ≤ 131072`) `k = 11`: in exact arithmetic the stack
loop of `approximate_bspline` ends within `4095` iterations and appends at most `2048 · (p − 1) + 1`
vertices, whatever the `p ≥ 2` control points are. -/
theorem approximateBezier_decoder_limit (pts path : Array (Pos K)) (b : Bez K)
    (hp : 2 ≤ pts.size) (hb : BezWF b)
    (hcoord : ∀ v ∈ pts.toList, |v.x| ≤ 131072 ∧ |v.y| ≤ 131072)
    (fuel : Nat) (hfuel : 4095 ≤ fuel) :
    ∃ path' b', approximateBezier (fieldArith T) fuel path pts b = .ok (path', b') ∧
      path'.size ≤ path.size + 2048 * (pts.size - 1) + 1 := by
  have hsd : SdLe (1 / 4 * 16 ^ 11 : K) pts.toList := by
    refine SdLe_mono ?_ _ (SdLe_of_bounded (131072 : K) pts.toList hcoord)
    norm_num
  obtain ⟨path', b', h, hs, _⟩ :=
    approximateBezier_terminates T 11 pts path b hp hb hsd fuel (by norm_num; exact hfuel)
  exact ⟨path', b', h, by simpa using hs⟩

end Rosu.Curve
