import RosuModel.Lemmas.PerfCalcOsu4

/-! osu! pp formulas over ℝ: `calculate_deviation` / `calculate_speed_deviation` — side conditions and
positivity, discharging `SpeedDeviationOK`. -/

namespace Rosu.PerfCalc
open PPOps
open Rosu.Finite (OsuState)

/-- no great among the relevant hits: the Wilson bound is exactly 0 (the code's `p_lower_bound == 0.0`
branch) -/
theorem pLowerBound_zero (n : ℝ) (hn : 0 < n) : pLowerBound n 0 = 0 := by
  rw [pLowerBound_eq_K]
  have hz := zCrit_pos
  have hs : Real.sqrt (n * 0 * (1 - 0) + zCrit * zCrit / 4) = zCrit / 2 := by
    rw [Real.sqrt_eq_iff_mul_self_eq (by positivity) (by positivity)]
    ring
  rw [hs]
  exact Rosu.Finite.pLowerK_zero_at_p0 n zCrit (by positivity)

theorem sqrt_three_pos : (0 : ℝ) < Real.sqrt 3.0 := Real.sqrt_pos.2 (by norm_num)

/-- `meh_variance > 0` as soon as the ok window is non-zero -/
theorem mehVariance_pos {o m : ℝ} (ho : 0 < o) : (0 : ℝ) < (m * m + o * m + o * o) / 3.0 := by
  have : 0 < m * m + o * m + o * o := by nlinarith [sq_nonneg (m + o / 2), mul_pos ho ho]
  exact div_pos this (by norm_num)

section
variable (sf : Special ℝ)

/-- hypotheses of the deviation block -/
structure OsuWindowsOK (c : OsuCalc ℝ) : Prop where
  great_pos : 0 < c.attrs.greatHitWindow
  ok_pos : 0 < c.attrs.okHitWindow
  /-- bounds that keep the Wilson bound below `1 − 10⁻¹¹` (`u32` counts satisfy them) -/
  snc_le : c.attrs.speedNoteCount ≤ 8589934592
  hits_le : c.state.totalHits ≤ 2 ^ 33

/-- the deviation before the selection is positive when a great was hit (`p > 0`) -/
theorem osuDeviationCore_spec (E : ErfFacts sf) (c : OsuCalc ℝ) (W : OsuWindowsOK c) {n p : ℝ}
    (hn : 0 < n) (hp0 : 0 ≤ p) (hp1 : p ≤ 1) (hN : n ≤ maxHits) :
    0 < (osuDeviationCore sf c n p).1
    ∧ (p = 0 → (osuDeviationCore sf c n p).2.1 = 0)
    ∧ (0 < p → 0 < (osuDeviationCore sf c n p).2.1 ∧ (osuDeviationCore sf c n p).2.1 < 1
        ∧ 0 < c.attrs.greatHitWindow / (Real.sqrt 2.0 * sf.erfInv (osuDeviationCore sf c n p).2.1)
        ∧ 0 < sf.erfInv (osuDeviationCore sf c n p).2.1) := by
  have hpl0 : p = 0 → pLowerBound n p = 0 := fun h => by rw [h]; exact pLowerBound_zero n hn
  have hplpos : 0 < p → 0 < pLowerBound n p ∧ pLowerBound n p < 1 := fun h => pLowerBound_mem n p hn h hp1
  have hd0 : 0 < p → 0 < c.attrs.greatHitWindow / (Real.sqrt 2.0 * sf.erfInv (pLowerBound n p)) := by
    intro h
    obtain ⟨a, b⟩ := hplpos h
    exact div_pos W.great_pos (mul_pos sqrt_two_pos (E.erfInv_pos _ a (pLowerBound_le n p hn hp0 hp1 hN)))
  refine ⟨?_, hpl0, fun h => ⟨(hplpos h).1, (hplpos h).2, hd0 h,
    E.erfInv_pos _ (hplpos h).1 (pLowerBound_le n p hn hp0 hp1 hN)⟩⟩
  unfold osuDeviationCore
  extract_lets pl g o d0 rv d1 lim sel
  show 0 < sel
  have hlim : 0 < lim := div_pos W.ok_pos sqrt_three_pos
  show 0 < (if (PPOps.beq pl 0.0 || PPOps.le 1.0 rv || PPOps.lt lim d1) = true then lim else d1)
  by_cases hc : (PPOps.beq pl 0.0 || PPOps.le 1.0 rv || PPOps.lt lim d1) = true
  · rw [if_pos hc]; exact hlim
  · rw [if_neg hc]
    simp only [Bool.or_eq_true, not_or, Bool.not_eq_true] at hc
    obtain ⟨⟨h1, h2⟩, _⟩ := hc
    have hplne : pLowerBound n p ≠ 0 := by
      have := (r_beq_false pl 0.0).1 h1
      have h0 : (0.0 : ℝ) = 0 := by norm_num
      rw [h0] at this; exact this
    have hppos : 0 < p := by
      rcases hp0.lt_or_eq with h | h
      · exact h
      · exact absurd (hpl0 h.symm) hplne
    have hrv : rv < 1 := by
      have := (r_le_false 1.0 rv).1 h2
      have h1' : (1.0 : ℝ) = 1 := by norm_num
      rw [h1'] at this; exact not_le.mp this
    have hd0' : 0 < d0 := hd0 hppos
    have hs : 0 < Real.sqrt (1.0 - rv) := by
      apply Real.sqrt_pos.2
      have h1' : (1.0 : ℝ) = 1 := by norm_num
      rw [h1']; exact sub_pos.2 hrv
    exact mul_pos hd0' hs

/-- the inputs of `calculate_deviation` as `calculate_speed_deviation` produces them -/
structure RelevantCountsOK (great ok meh miss : ℝ) : Prop where
  go_le : great + ok ≤ maxHits
  great_nonneg : 0 ≤ great
  ok_nonneg : 0 ≤ ok
  meh_nonneg : 0 ≤ meh
  miss_nonneg : 0 ≤ miss

theorem relevant_n_p {great ok meh miss : ℝ} (R : RelevantCountsOK great ok meh miss) :
    (0 : ℝ) < max 1.0 (great + ok + meh + miss - miss - meh)
      ∧ 0 ≤ great / max 1.0 (great + ok + meh + miss - miss - meh)
      ∧ great / max 1.0 (great + ok + meh + miss - miss - meh) ≤ 1
      ∧ (great = 0 → great / max 1.0 (great + ok + meh + miss - miss - meh) = 0)
      ∧ (0 < great → 0 < great / max 1.0 (great + ok + meh + miss - miss - meh))
      ∧ max 1.0 (great + ok + meh + miss - miss - meh) ≤ maxHits := by
  have hn : (0 : ℝ) < max 1.0 (great + ok + meh + miss - miss - meh) :=
    lt_of_lt_of_le (by norm_num) (le_max_left _ _)
  have hge : great ≤ max 1.0 (great + ok + meh + miss - miss - meh) := by
    have : great ≤ great + ok + meh + miss - miss - meh := by
      have := R.ok_nonneg
      linarith
    exact le_trans this (le_max_right _ _)
  refine ⟨hn, div_nonneg R.great_nonneg hn.le, (div_le_one hn).2 hge, ?_, fun h => div_pos h hn, ?_⟩
  · intro h; rw [h, zero_div]
  · apply max_le
    · unfold maxHits; norm_num
    · have := R.go_le
      linarith

/-- `calculate_deviation` returns a positive number whenever it returns -/
theorem calculateDeviation_pos (E : ErfFacts sf) (c : OsuCalc ℝ) (W : OsuWindowsOK c)
    {great ok meh miss : ℝ} (R : RelevantCountsOK great ok meh miss) (d : ℝ)
    (h : calculateDeviation sf c great ok meh miss = some d) : 0 < d := by
  unfold calculateDeviation at h
  by_cases hs : PPOps.le (great + ok + meh) 0.0 = true
  · rw [if_pos hs] at h; exact absurd h (by simp)
  · rw [if_neg hs] at h
    have hS : 0 < great + ok + meh := by
      have := (r_le_false _ _).1 (by simpa using hs)
      have h0 : (0.0 : ℝ) = 0 := by norm_num
      rw [h0] at this; exact not_le.mp this
    obtain ⟨hn, hp0, hp1, _, _, hN⟩ := relevant_n_p R
    have hsel := (osuDeviationCore_spec sf E c W hn hp0 hp1 hN).1
    simp only [Option.some.injEq] at h
    rw [← h]
    apply Real.sqrt_pos.2
    apply div_pos _ hS
    have hmv := mehVariance_pos (m := c.attrs.mehHitWindow) W.ok_pos
    have hsq : 0 < ((osuDeviationCore sf c (max 1.0 (great + ok + meh + miss - miss - meh))
        (great / max 1.0 (great + ok + meh + miss - miss - meh))).1) ^ (2.0 : ℝ) :=
      Real.rpow_pos_of_pos hsel _
    rcases (add_nonneg R.great_nonneg R.ok_nonneg).lt_or_eq with hgo | hgo
    · exact add_pos_of_pos_of_nonneg (mul_pos hgo hsq) (mul_nonneg R.meh_nonneg hmv.le)
    · have hmeh : 0 < meh := by linarith
      rw [← hgo, zero_mul, zero_add]
      exact mul_pos hmeh hmv

/-- (a) `calculate_deviation`: every partial operation on the path taken is in its domain -/
theorem calculateDeviationDom_true (E : ErfFacts sf) (c : OsuCalc ℝ) (W : OsuWindowsOK c)
    {great ok meh miss : ℝ} (R : RelevantCountsOK great ok meh miss) :
    calculateDeviationDom sf c great ok meh miss = true := by
  unfold calculateDeviationDom
  by_cases hs : PPOps.le (great + ok + meh) 0.0 = true
  · rw [if_pos hs]
  · rw [if_neg hs]
    have hS : 0 < great + ok + meh := by
      have := (r_le_false _ _).1 (by simpa using hs)
      have h0 : (0.0 : ℝ) = 0 := by norm_num
      rw [h0] at this; exact not_le.mp this
    obtain ⟨hn, hp0, hp1, hpz, hpp, hN⟩ := relevant_n_p R
    obtain ⟨hsel, hpl0, hplp⟩ := osuDeviationCore_spec sf E c W hn hp0 hp1 hN
    extract_lets objectCount n p pl dev0 sel mv
    have e1 : nz n = true := by rw [nz_iff]; exact hn.ne'
    have e2 : pLowerBoundDom n p = true := pLowerBoundDom_true n p hn hp0 hp1
    have e3 : (if PPOps.beq pl 0.0 = true then true
        else PPOps.lt (-1.0) pl && PPOps.lt pl 1.0 && nz (PPOps.sqrt 2.0 * sf.erfInv pl)
          && nz dev0 && nz (PPOps.sqrt 2.0 * dev0)
          && nz (dev0 * sf.erf (c.attrs.okHitWindow / (PPOps.sqrt 2.0 * dev0)))) = true := by
      by_cases hb : PPOps.beq pl 0.0 = true
      · rw [if_pos hb]
      · rw [if_neg hb]
        have hplne : pl ≠ 0 := by
          have := (r_beq_false pl 0.0).1 (by simpa using hb)
          have h0 : (0.0 : ℝ) = 0 := by norm_num
          rw [h0] at this; exact this
        have hgreat : 0 < great := by
          rcases R.great_nonneg.lt_or_eq with h | h
          · exact h
          · exact absurd (hpl0 (hpz h.symm)) hplne
        obtain ⟨a1, a2, a3, a4⟩ := hplp (hpp hgreat)
        have hd0 : 0 < dev0 := a3
        have b1 : PPOps.lt (-1.0 : ℝ) pl = true := by
          rw [r_lt]; have : (-1.0 : ℝ) < 0 := by norm_num
          exact lt_trans this a1
        have b2 : PPOps.lt pl (1.0 : ℝ) = true := by
          rw [r_lt]; have h1 : (1.0 : ℝ) = 1 := by norm_num
          rw [h1]; exact a2
        have b3 : nz (PPOps.sqrt 2.0 * sf.erfInv pl : ℝ) = true := by
          rw [nz_iff]; exact (mul_pos sqrt_two_pos a4).ne'
        have b4 : nz dev0 = true := by rw [nz_iff]; exact hd0.ne'
        have b5 : nz (PPOps.sqrt 2.0 * dev0 : ℝ) = true := by
          rw [nz_iff]; exact (sqrt_two_mul_pos hd0).ne'
        have b6 : nz (dev0 * sf.erf (c.attrs.okHitWindow / (PPOps.sqrt 2.0 * dev0)) : ℝ) = true := by
          rw [nz_iff]
          exact (mul_pos hd0 (E.erf_pos _ (div_pos W.ok_pos (sqrt_two_mul_pos hd0)))).ne'
        rw [b1, b2, b3, b4, b5, b6]; rfl
    have e4 : nz (great + ok + meh : ℝ) = true := by rw [nz_iff]; exact hS.ne'
    have e5 : PPOps.le (0.0 : ℝ) (((great + ok) * PPOps.powf sel 2.0 + meh * mv) / (great + ok + meh)) = true := by
      rw [r_le]
      have h0 : (0.0 : ℝ) = 0 := by norm_num
      rw [h0]
      apply div_nonneg _ hS.le
      have hmv : (0 : ℝ) ≤ mv := (mehVariance_pos (m := c.attrs.mehHitWindow) W.ok_pos).le
      exact add_nonneg (mul_nonneg (add_nonneg R.great_nonneg R.ok_nonneg) (rpow_two_nonneg sel))
        (mul_nonneg R.meh_nonneg hmv)
    rw [e1, e2, e3, e4, e5]; rfl

/-- the relevant counts are non-negative when `speed_note_count ≥ 0` -/
theorem osuRelevantCounts_ok (c : OsuCalc ℝ) (hs : 0 ≤ c.attrs.speedNoteCount)
    (hsl : c.attrs.speedNoteCount ≤ 8589934592) (hhl : c.state.totalHits ≤ 2 ^ 33) :
    RelevantCountsOK (osuRelevantCounts c).1 (osuRelevantCounts c).2.1 (osuRelevantCounts c).2.2.1
      (osuRelevantCounts c).2.2.2 := by
  unfold osuRelevantCounts
  extract_lets s snc0 snc miss meh ok great
  have hsnc : (0 : ℝ) ≤ snc := by
    show (0 : ℝ) ≤ c.attrs.speedNoteCount + ((c.state.totalHits : ℝ) - c.attrs.speedNoteCount) * 0.1
    have ht : (0 : ℝ) ≤ (c.state.totalHits : ℝ) := Nat.cast_nonneg _
    norm_num; nlinarith
  have hmiss : 0 ≤ miss ∧ miss ≤ snc := ⟨le_min (Nat.cast_nonneg _) hsnc, min_le_right _ _⟩
  have hmeh : 0 ≤ meh ∧ meh ≤ snc - miss :=
    ⟨le_min (Nat.cast_nonneg _) (sub_nonneg.2 hmiss.2), min_le_right _ _⟩
  have hok : 0 ≤ ok := le_min (Nat.cast_nonneg _) (sub_nonneg.2 hmeh.2)
  have hgreat : 0 ≤ great := le_trans (by norm_num) (le_max_left _ _)
  refine ⟨?_, hgreat, hok, hmeh.1, hmiss.1⟩
  have ht : ((c.state.totalHits : ℕ) : ℝ) ≤ 8589934592 := by
    have : ((2 ^ 33 : ℕ) : ℝ) = 8589934592 := by norm_num
    rw [← this]; exact_mod_cast hhl
  have hsncle : snc ≤ 8589934592 := by
    show c.attrs.speedNoteCount + ((c.state.totalHits : ℝ) - c.attrs.speedNoteCount) * 0.1 ≤ 8589934592
    norm_num; nlinarith
  have hokle : ok ≤ 8589934592 := by
    have h1 : ok ≤ ((c.state.n100 : ℕ) : ℝ) := min_le_left _ _
    have h2 : ((c.state.n100 : ℕ) : ℝ) ≤ ((c.state.totalHits : ℕ) : ℝ) := by
      have : c.state.n100 ≤ c.state.totalHits := by unfold Rosu.Finite.OsuState.totalHits; omega
      exact_mod_cast this
    linarith
  have hgle : great ≤ 8589934592 := by
    apply max_le
    · norm_num
    · have := hmiss.1
      have := hmeh.1
      linarith
  unfold maxHits
  linarith

/-- `SpeedDeviationOK` from `ErfFacts`, positive great/ok hit windows and `speed_note_count ≥ 0` -/
theorem speedDeviationOK_of (E : ErfFacts sf) (c : OsuCalc ℝ) (W : OsuWindowsOK c)
    (hs : 0 ≤ c.attrs.speedNoteCount) : SpeedDeviationOK sf c := by
  have W' : OsuWindowsOK (osuAdjusted c) := ⟨W.great_pos, W.ok_pos, W.snc_le, W.hits_le⟩
  have R := osuRelevantCounts_ok (osuAdjusted c) hs W.snc_le W.hits_le
  constructor
  · unfold calculateSpeedDeviationDom
    by_cases h : osuTotalSuccessfulHits (osuAdjusted c).state = 0
    · rw [if_pos h]
    · rw [if_neg h]; exact calculateDeviationDom_true sf E _ W' R
  · intro sd hsd
    unfold calculateSpeedDeviation at hsd
    by_cases h : osuTotalSuccessfulHits (osuAdjusted c).state = 0
    · rw [if_pos h] at hsd; exact absurd hsd (by simp)
    · rw [if_neg h] at hsd; exact calculateDeviation_pos sf E _ W' R sd hsd

end

end Rosu.PerfCalc
