import RosuModel.Model.StackingFull

/-!
Index safety of the full stacking models: with `heights.length = objs.length` every checked access
succeeds and the length is preserved (core Lean only).
-/
namespace Rosu.Stack

variable {T P : Type}

theorem getElem?_some_of_lt {α : Type} (l : List α) {i : Nat} (h : i < l.length) : ∃ x, l[i]? = some x :=
  ⟨l[i], List.getElem?_eq_getElem h⟩

theorem setC_ok (h : List Int) (i : Nat) (v : Int) (hi : i < h.length) :
    ∃ h', setC h i v = some h' ∧ h'.length = h.length := by
  unfold setC
  rw [if_pos hi]
  exact ⟨_, rfl, List.length_set⟩

theorem offsetLoop_ok (A : Arith T P) (objs : List (SObj T P)) (on : SObj T P) (offset : Int) :
    ∀ (js : List Nat) (h : List Int), (∀ j ∈ js, j < objs.length) → h.length = objs.length →
      ∃ h', offsetLoop A objs on offset js h = some h' ∧ h'.length = objs.length := by
  intro js
  induction js with
  | nil => intro h _ hl; exact ⟨h, rfl, hl⟩
  | cons j js ih =>
    intro h hj hl
    have hjlt := hj j List.mem_cons_self
    obtain ⟨oj, hoj⟩ := getElem?_some_of_lt objs hjlt
    obtain ⟨hv, hhv⟩ := getElem?_some_of_lt h (by omega : j < h.length)
    unfold offsetLoop
    simp only [hoj, hhv]
    split
    · obtain ⟨h', hs, hl'⟩ := setC_ok h j (hv - offset) (by omega)
      simp only [hs]
      exact ih h' (fun k hk => hj k (List.mem_cons_of_mem _ hk)) (by omega)
    · exact ih h (fun k hk => hj k (List.mem_cons_of_mem _ hk)) hl

theorem circleLoop_ok (A : Arith T P) (thr : T) (objs : List (SObj T P)) (i : Nat) (hi : i < objs.length) :
    ∀ (n objIdx : Nat) (h : List Int), n ≤ i → objIdx ≤ i → h.length = objs.length →
      ∃ h', circleLoop A thr objs i n objIdx h = some h' ∧ h'.length = objs.length := by
  intro n
  induction n with
  | zero => intro _ h _ _ hl; exact ⟨h, rfl, hl⟩
  | succ n ih =>
    intro objIdx h hn ho hl
    obtain ⟨on, hon⟩ := getElem?_some_of_lt objs (by omega : n < objs.length)
    obtain ⟨oi, hoi⟩ := getElem?_some_of_lt objs (by omega : objIdx < objs.length)
    obtain ⟨hvi, hhi⟩ := getElem?_some_of_lt h (by omega : objIdx < h.length)
    obtain ⟨hvn, hhn⟩ := getElem?_some_of_lt h (by omega : n < h.length)
    unfold circleLoop
    simp only [hon, hoi, hhi, hhn]
    split
    · exact ih objIdx h (by omega) ho hl
    · split
      · exact ⟨h, rfl, hl⟩
      · split
        · apply offsetLoop_ok A objs on _ _ h _ hl
          intro j hj
          rw [List.mem_range'_1] at hj
          omega
        · split
          · obtain ⟨h', hs, hl'⟩ := setC_ok h n (hvi + 1) (by omega)
            simp only [hs]
            exact ih n h' (by omega) (by omega) (by omega)
          · exact ih objIdx h (by omega) ho hl

theorem sliderLoop_ok (A : Arith T P) (thr : T) (objs : List (SObj T P)) :
    ∀ (n objIdx : Nat) (h : List Int), n ≤ objs.length → objIdx < objs.length → h.length = objs.length →
      ∃ h', sliderLoop A thr objs n objIdx h = some h' ∧ h'.length = objs.length := by
  intro n
  induction n with
  | zero => intro _ h _ _ hl; exact ⟨h, rfl, hl⟩
  | succ n ih =>
    intro objIdx h hn ho hl
    obtain ⟨on, hon⟩ := getElem?_some_of_lt objs (by omega : n < objs.length)
    obtain ⟨oi, hoi⟩ := getElem?_some_of_lt objs ho
    obtain ⟨hvi, hhi⟩ := getElem?_some_of_lt h (by omega : objIdx < h.length)
    unfold sliderLoop
    simp only [hon, hoi, hhi]
    split
    · exact ih objIdx h (by omega) ho hl
    · split
      · exact ⟨h, rfl, hl⟩
      · split
        · obtain ⟨h', hs, hl'⟩ := setC_ok h n (hvi + 1) (by omega)
          simp only [hs]
          exact ih n h' (by omega) (by omega) (by omega)
        · exact ih objIdx h (by omega) ho hl

theorem stackStep_ok (A : Arith T P) (thr : T) (objs : List (SObj T P)) (h : List Int) (i : Nat)
    (hi : i < objs.length) (hl : h.length = objs.length) :
    ∃ h', stackStep A thr objs h i = some h' ∧ h'.length = objs.length := by
  obtain ⟨oi, hoi⟩ := getElem?_some_of_lt objs hi
  obtain ⟨hvi, hhi⟩ := getElem?_some_of_lt h (by omega : i < h.length)
  unfold stackStep
  simp only [hoi, hhi]
  split
  · exact ⟨h, rfl, hl⟩
  · split
    · exact circleLoop_ok A thr objs i hi i i h (Nat.le_refl _) (Nat.le_refl _) hl
    · split
      · exact sliderLoop_ok A thr objs i i h (by omega) hi hl
      · exact ⟨h, rfl, hl⟩

theorem foldlM_ok {α : Type} (f : List Int → α → Option (List Int)) (len : Nat) (l : List α) (Q : α → Prop)
    (hf : ∀ h a, Q a → h.length = len → ∃ h', f h a = some h' ∧ h'.length = len) (hq : ∀ a ∈ l, Q a) :
    ∀ (h : List Int), h.length = len → ∃ h', l.foldlM f h = some h' ∧ h'.length = len := by
  induction l with
  | nil => intro h hl; exact ⟨h, rfl, hl⟩
  | cons a l ih =>
    intro h hl
    obtain ⟨h1, e1, l1⟩ := hf h a (hq a List.mem_cons_self) hl
    rw [List.foldlM_cons, e1]
    exact ih (fun b hb => hq b (List.mem_cons_of_mem _ hb)) h1 l1

theorem stacking_ok (A : Arith T P) (thr : T) (objs : List (SObj T P)) :
    ∃ h, stacking A thr objs = some h ∧ h.length = objs.length := by
  unfold stacking
  cases hlen : objs.length with
  | zero => exact ⟨[], rfl, rfl⟩
  | succ e =>
    simp only
    have := foldlM_ok (stackStep A thr objs) objs.length (List.range' 1 e).reverse (fun i => i < objs.length)
      (fun h a ha hl => stackStep_ok A thr objs h a ha hl)
      (by intro a ha; rw [List.mem_reverse, List.mem_range'_1] at ha; show a < objs.length; omega)
      (List.replicate (e + 1) 0) (by rw [List.length_replicate, hlen])
    rw [hlen] at this
    exact this

/-! ### old_stacking -/

theorem oldInner_ok (A : Arith T P) (thr : T) (objs : List (SObj T P)) (i : Nat) (hi : i < objs.length)
    (oi : SObj T P) (p2 : P) :
    ∀ (js : List Nat) (st : T) (ss : Int) (h : List Int), (∀ j ∈ js, j < objs.length) → h.length = objs.length →
      ∃ h', oldInner A thr objs i oi p2 js st ss h = some h' ∧ h'.length = objs.length := by
  intro js
  induction js with
  | nil => intro _ _ h _ hl; exact ⟨h, rfl, hl⟩
  | cons j js ih =>
    intro st ss h hj hl
    have hjlt := hj j List.mem_cons_self
    have hrest : ∀ k ∈ js, k < objs.length := fun k hk => hj k (List.mem_cons_of_mem _ hk)
    obtain ⟨oj, hoj⟩ := getElem?_some_of_lt objs hjlt
    obtain ⟨hvj, hhj⟩ := getElem?_some_of_lt h (by omega : j < h.length)
    obtain ⟨hvi, hhi⟩ := getElem?_some_of_lt h (by omega : i < h.length)
    unfold oldInner
    simp only [hoj, hhj, hhi]
    split
    · exact ⟨h, rfl, hl⟩
    · split
      · obtain ⟨h', hs, hl'⟩ := setC_ok h i (hvi + 1) (by omega)
        simp only [hs]
        exact ih _ _ h' hrest (by omega)
      · split
        · obtain ⟨h', hs, hl'⟩ := setC_ok h j (hvj - (ss + 1)) (by omega)
          simp only [hs]
          exact ih _ _ h' hrest (by omega)
        · exact ih _ _ h hrest hl

theorem oldStep_ok (A : Arith T P) (thr : T) (objs : List (SObj T P)) (h : List Int) (i : Nat)
    (hi : i < objs.length) (hl : h.length = objs.length) :
    ∃ h', oldStep A thr objs h i = some h' ∧ h'.length = objs.length := by
  obtain ⟨oi, hoi⟩ := getElem?_some_of_lt objs hi
  obtain ⟨hvi, hhi⟩ := getElem?_some_of_lt h (by omega : i < h.length)
  unfold oldStep
  simp only [hoi, hhi]
  split
  · exact ⟨h, rfl, hl⟩
  · apply oldInner_ok A thr objs i hi oi _ _ _ _ h _ hl
    intro j hj
    rw [List.mem_range'_1] at hj
    omega

theorem oldStacking_ok (A : Arith T P) (thr : T) (objs : List (SObj T P)) :
    ∃ h, oldStacking A thr objs = some h ∧ h.length = objs.length := by
  unfold oldStacking
  exact foldlM_ok (oldStep A thr objs) objs.length (List.range objs.length) (fun i => i < objs.length)
    (fun h a ha hl => oldStep_ok A thr objs h a ha hl)
    (by intro a ha; exact List.mem_range.mp ha)
    (List.replicate objs.length 0) List.length_replicate

end Rosu.Stack
