import RosuModel.Lemmas.DecodeLineDriver

/-!
The section driver of rosu-map (`Model/DecodeLine.lean`: `parseVersion`, `firstSection`, `route`,
`decodeLines`): which lines reach which parser, and that trailing content of a no-op section does
not change the result.
-/
namespace Rosu.DecodeLine

/-- every routed line is a line of the file, in file order, at most once -/
theorem route_sublist (sec : Sec) (ls : List Str) : ((route sec ls).map (·.2)).Sublist ls := by
  induction ls generalizing sec with
  | nil => exact List.Sublist.slnil
  | cons l ls ih =>
    unfold route
    split
    · exact (ih sec).cons l
    · split
      · exact (ih _).cons l
      · exact (ih sec).cons_cons l

theorem firstSection_sublist (ls : List Str) (sec : Sec) (body : List Str)
    (h : firstSection ls = some (sec, body)) : body.Sublist ls := by
  induction ls with
  | nil => cases h
  | cons l ls ih =>
    unfold firstSection at h
    split at h
    · injection h with h
      injection h with h1 h2
      subst h2
      exact (List.Sublist.refl _).cons l
    · exact (ih h).cons l

theorem parseVersion_sublist (ls : List Str) : (parseVersion ls).2.Sublist ls := by
  induction ls with
  | nil => exact List.Sublist.slnil
  | cons l ls ih =>
    unfold parseVersion
    split
    · split
      · exact ih.cons l
      · exact List.Sublist.refl _
    · split
      · exact (List.Sublist.refl _).cons l
      · exact List.Sublist.refl _

/-- a section header starts with `[`: it is not skipped, not empty and not a version line -/
theorem secOfLine_some (l : Str) (s : Sec) (h : secOfLine l = some s) :
    ∃ rest, l = '[' :: rest := by
  unfold secOfLine at h
  split at h
  · exact ⟨_, rfl⟩
  · cases h

theorem header_not_skipped (l : Str) (s : Sec) (h : secOfLine l = some s) : shouldSkip l = false := by
  obtain ⟨rest, rfl⟩ := secOfLine_some l s h
  have hw : isWs '[' = false := by decide
  simp [shouldSkip, trimStart, List.dropWhile, hw, startsWith]

theorem header_not_version (l : Str) (s : Sec) (h : secOfLine l = some s) :
    startsWith "osu file format v".toList l = false ∧ l.isEmpty = false := by
  obtain ⟨rest, rfl⟩ := secOfLine_some l s h
  refine ⟨?_, rfl⟩
  simp [startsWith]

theorem route_append_header (hdr : Str) (s : Sec) (g : List Str) (h : secOfLine hdr = some s) :
    ∀ (body : List Str) (sec : Sec), route sec (body ++ hdr :: g) = route sec body ++ route s g := by
  intro body
  induction body with
  | nil =>
    intro sec
    simp only [List.nil_append, route, header_not_skipped hdr s h, h, Bool.false_eq_true, if_false]
  | cons l ls ih =>
    intro sec
    simp only [List.cons_append]
    rw [route, route]
    split
    · exact ih sec
    · split
      · exact ih _
      · rw [ih sec]; rfl

/-- lines of a no-op section leave the state alone -/
theorem stepLine_noop (sec : Sec) (hn : sec.isNoop = true) (s : BState) (l : Str) :
    (stepLine sec s l).1 = s := by
  cases sec <;> first | rfl | cases hn

theorem foldl_route_noop (s : Sec) (hn : s.isNoop = true) (g : List Str)
    (hg : ∀ l ∈ g, secOfLine l = none) (st : BState) :
    (route s g).foldl (fun st p => (stepLine p.1 st p.2).1) st = st := by
  induction g with
  | nil => rfl
  | cons l ls ih =>
    have hl : secOfLine l = none := hg l (List.mem_cons_self ..)
    have hls : ∀ l ∈ ls, secOfLine l = none := fun x hx => hg x (List.mem_cons_of_mem _ hx)
    rw [route]
    split
    · exact ih hls
    · rw [hl]
      simp only [List.foldl_cons]
      rw [stepLine_noop s hn]
      exact ih hls

theorem firstSection_append_some (ls x : List Str) (sec : Sec) (body : List Str)
    (h : firstSection ls = some (sec, body)) : firstSection (ls ++ x) = some (sec, body ++ x) := by
  induction ls with
  | nil => cases h
  | cons l ls ih =>
    simp only [List.cons_append]
    unfold firstSection at h ⊢
    split at h
    · injection h with h
      injection h with h1 h2
      subst h1 h2
      rfl
    · exact ih h

theorem firstSection_append_none (ls g : List Str) (hdr : Str) (s : Sec)
    (hs : secOfLine hdr = some s) (h : firstSection ls = none) :
    firstSection (ls ++ hdr :: g) = some (s, g) := by
  induction ls with
  | nil => simp [firstSection, hs]
  | cons l ls ih =>
    simp only [List.cons_append]
    unfold firstSection at h ⊢
    split at h
    · cases h
    · exact ih h

/-- `parse_version` either never finds a non-empty line, or its outcome is unaffected by appended
lines -/
theorem parseVersion_append (ls x : List Str) :
    ((parseVersion ls).1 = none ∧ (parseVersion ls).2 = [] ∧ ∀ l ∈ ls, l.isEmpty = true ∧
        startsWith "osu file format v".toList l = false) ∨
    parseVersion (ls ++ x) = ((parseVersion ls).1, (parseVersion ls).2 ++ x) := by
  induction ls with
  | nil => exact Or.inl ⟨rfl, rfl, fun l hl => by cases hl⟩
  | cons l ls ih =>
    simp only [List.cons_append]
    by_cases hp : startsWith "osu file format v".toList l = true
    · right
      rw [parseVersion, parseVersion]
      simp only [hp, Bool.not_true, Bool.false_eq_true, if_false]
      cases parseI32 ((splitC 'v' l).getLast?.getD []) <;> rfl
    · by_cases he : l.isEmpty = true
      · rcases ih with ⟨h1, h2, h3⟩ | h
        · left
          rw [parseVersion]
          simp only [hp, he, if_true, Bool.not_false]
          refine ⟨h1, h2, fun l' hl' => ?_⟩
          rcases List.mem_cons.mp hl' with rfl | hm
          · exact ⟨he, by simpa using hp⟩
          · exact h3 l' hm
        · right
          rw [parseVersion, parseVersion]
          simp only [hp, he, if_true, Bool.not_false]
          exact h
      · right
        rw [parseVersion, parseVersion]
        simp only [hp, he, Bool.not_false, if_true, Bool.false_eq_true, if_false]
        rfl

theorem parseVersion_all_empty (ls : List Str) (x : List Str) (hdr : Str)
    (h : ∀ l ∈ ls, l.isEmpty = true ∧ startsWith "osu file format v".toList l = false)
    (h1 : startsWith "osu file format v".toList hdr = false) (h2 : hdr.isEmpty = false) :
    parseVersion (ls ++ hdr :: x) = (none, hdr :: x) := by
  induction ls with
  | nil =>
    simp only [List.nil_append]
    rw [parseVersion]
    simp only [h1, h2, Bool.not_false, if_true, Bool.false_eq_true, if_false]
  | cons l ls ih =>
    simp only [List.cons_append]
    rw [parseVersion]
    have := h l (List.mem_cons_self ..)
    simp only [this.1, this.2, Bool.not_false, if_true]
    exact ih (fun x hx => h x (List.mem_cons_of_mem _ hx))

/-- (e) Appending a header of one of the six no-op sections followed by ANY lines that are not
section headers does not change the decoded state. -/
theorem decodeLines_append_noop (ls g : List Str) (hdr : Str) (s : Sec)
    (hs : secOfLine hdr = some s) (hn : s.isNoop = true) (hg : ∀ l ∈ g, secOfLine l = none) :
    decodeLines (ls ++ hdr :: g) = decodeLines ls := by
  obtain ⟨hv, hne⟩ := header_not_version hdr s hs
  rcases parseVersion_append ls (hdr :: g) with ⟨h1, h2, h3⟩ | h
  · unfold decodeLines
    rw [parseVersion_all_empty ls g hdr h3 hv hne, h1, h2]
    simp only [firstSection, hs]
    exact foldl_route_noop s hn g hg _
  · unfold decodeLines
    rw [h]
    simp only []
    cases hf : firstSection (parseVersion ls).2 with
    | none =>
      rw [firstSection_append_none _ g hdr s hs hf]
      exact foldl_route_noop s hn g hg _
    | some p =>
      obtain ⟨sec, body⟩ := p
      rw [firstSection_append_some _ _ sec body hf]
      simp only []
      rw [route_append_header hdr s g hs, List.foldl_append]
      exact foldl_route_noop s hn g hg _

/-- lines that are not section headers are invisible to the search for the first section -/
theorem firstSection_skip_prefix (pre rest : List Str) (h : ∀ l ∈ pre, secOfLine l = none) :
    firstSection (pre ++ rest) = firstSection rest := by
  induction pre with
  | nil => rfl
  | cons l ls ih =>
    simp only [List.cons_append]
    rw [firstSection, h l (List.mem_cons_self ..)]
    exact ih (fun x hx => h x (List.mem_cons_of_mem _ hx))

/-- the lines that reach a parser, in order, form a sublist of the file's lines -/
theorem routed_sublist (ls : List Str) (sec : Sec) (body : List Str)
    (h : firstSection (parseVersion ls).2 = some (sec, body)) :
    ((route sec body).map (·.2)).Sublist ls :=
  ((route_sublist sec body).trans (firstSection_sublist _ sec body h)).trans (parseVersion_sublist ls)

end Rosu.DecodeLine
