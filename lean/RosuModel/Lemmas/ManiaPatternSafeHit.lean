import RosuModel.Lemmas.ManiaPatternSafe

/-!
(b) for `HitObjectPatternGenerator`: under the laws of the arithmetic, every key count 1–16, every
PRNG state, every flag combination and every previous pattern, `generate()` completes or runs out
of fuel — except for the one 7K+1 situation excluded by hypothesis (`REVERSE_STAIR` after a lone
note in the special column).
-/
namespace Rosu.ManiaPattern
open Rosu.Safety Rosu.Rng Rosu.ConvertWF

variable {F : Type}

theorem ok_bind {α β : Type} (a : α) (f : α → M β) : ((Except.ok a : M α) >>= f) = f a := rfl

theorem testBit_insert (s c b : Nat) : (s ||| 2 ^ c).testBit b = (s.testBit b || decide (c = b)) := by
  rw [Nat.testBit_or, Nat.testBit_two_pow]

section hit
variable {A : PArith F} (hP : ProbLaw A) (g : HitIn F) (h1 : 1 ≤ g.total) (h16 : g.total ≤ 16)
include hP h1 h16

theorem hitNextColumn_total (s : Osu) (col : Nat) (hcol : col < g.total) :
    ∃ c s', hitNextColumn A g s col = .ok (c, s') ∧ c < g.total := by
  unfold hitNextColumn
  split
  · rw [u8add_safe (by omega : col + 1 ≤ 255), ok_bind]
    split
    · exact ⟨_, _, rfl, randomStart_lt h1⟩
    · rename_i hne
      have hm : g.total % 256 = g.total := Nat.mod_eq_of_lt (by omega)
      rw [hm] at hne
      exact ⟨_, _, rfl, by omega⟩
  · exact ⟨_, _, rfl, (getRandomColumn_bounds hP.toRangeLaw s _ _ (randomStart_lt h1) (by omega)).2⟩

theorem hitRandomNotesLoop_safe (allow : Bool) :
    ∀ (k : Nat) (pat : Pat) (c : Nat) (s : Osu), c < g.total →
      (k = 0 ∨ Cols.len pat.cols + k + (if allow then 0 else Cols.len g.prev.cols) + randomStart g.total
        ≤ g.total) →
      OkOrFuel (hitRandomNotesLoop A g allow k pat c s) := by
  intro k
  induction k with
  | zero => intro pat c s _ _; unfold hitRandomNotesLoop; exact OkOrFuel.ok _
  | succ k ih =>
    intro pat c s hc hinv
    have hinv' : Cols.len pat.cols + (k + 1) + (if allow then 0 else Cols.len g.prev.cols)
        + randomStart g.total ≤ g.total := by
      rcases hinv with h | h
      · omega
      · exact h
    unfold hitRandomNotesLoop
    have hfind : OkOrFuel (findAvail none (if allow then [pat.cols] else [pat.cols, g.prev.cols])
        (randomStart g.total) g.total (hitNextColumn A g) g.fuel s c) := by
      apply findAvail_totalB g.total h16 _ _ _ _ _ _ _ _ h16 hc
        (fun s col hcol => hitNextColumn_total hP g h1 h16 s col hcol)
      cases allow
      · obtain ⟨c0, h1', h2', h3', h4'⟩ := free_of_count pat.cols g.prev.cols (randomStart g.total) g.total h16
          (by simp only [Bool.false_eq_true, if_false] at hinv'; omega)
        exact ⟨c0, h1', h2', by simpa using isValidA_none_two (by omega) h3' h4'⟩
      · obtain ⟨c0, h1', h2', h3', _⟩ := free_of_count pat.cols 0 (randomStart g.total) g.total h16
          (by simp only [if_true] at hinv'; rw [Cols.len_zero]; omega)
        exact ⟨c0, h1', h2', by simpa using isValidA_none_one (by omega) h3'⟩
    refine OkOrFuel.bind hfind ?_
    rintro ⟨c', s'⟩ hf
    have hc' : c' < g.total :=
      findAvail_inv (· < g.total)
        (fun s col c s' hcol hn => hitNextColumn_inv hP.toRangeLaw g h1 h16 s col c s' hcol hn) hc hf
    simp only
    rw [Pat.add_safe pat _ (by omega : c' < 16), ok_bind]
    apply ih _ c' s' hc'
    right
    have := Cols.len_insert_le pat.cols c'
    simp only
    omega

theorem hitRandomNotes_safe (n : Int) (s : Osu)
    (hn : has g.ct FORCE_NOT_STACK = false → n ≤ (g.total : Int) - randomStart g.total) :
    OkOrFuel (hitRandomNotes A g n s) := by
  unfold hitRandomNotes
  apply hitRandomNotesLoop_safe hP g h1 h16 _ _ _ _ _ (getColumnSpecial_lt h1 h16 _)
  cases hf : has g.ct FORCE_NOT_STACK
  · have := hn hf
    simp only [Bool.not_false, if_true, Pat.empty, Cols.len_zero]
    by_cases h0 : n.toNat = 0
    · exact Or.inl h0
    · right; omega
  · simp only [Bool.not_true, Bool.false_eq_true, if_false, Pat.empty, Cols.len_zero, Pat.count]
    by_cases h0 : (min ((g.total : Int) - randomStart g.total - Cols.len g.prev.cols) n).toNat = 0
    · exact Or.inl h0
    · right; omega

omit hP h1 h16 in
theorem hitProbs_caps (T : Nat) (p2 p3 p4 p5 : F) (h2 : 2 ≤ T) :
    (T ≤ 3 → (hitProbs A T p2 p3 p4 p5).2.1 = A.pct 0) ∧
    (T ≤ 4 → (hitProbs A T p2 p3 p4 p5).2.2.1 = A.pct 0) ∧
    (T ≤ 5 → (hitProbs A T p2 p3 p4 p5).2.2.2 = A.pct 0) := by
  refine ⟨fun h => ?_, fun h => ?_, fun h => ?_⟩ <;> unfold hitProbs <;> repeat' split
  all_goals first | rfl | omega

theorem hitNoteCount_le (h2 : 2 ≤ g.total) (p2 p3 p4 p5 : F) (s : Osu) :
    1 ≤ (hitNoteCount A g p2 p3 p4 p5 s).1 ∧
    (hitNoteCount A g p2 p3 p4 p5 s).1 ≤ (g.total : Int) - randomStart g.total := by
  unfold hitNoteCount
  have hrs : randomStart g.total = if g.total = 8 then 1 else 0 := rfl
  have q := hitProbs_caps (A := A) g.total p2 p3 p4 p5 h2
  have c := noteCount_caps hP s
    (if sampleHas g.sample S_CLAP then A.pct 100 else (hitProbs A g.total p2 p3 p4 p5).1)
    (hitProbs A g.total p2 p3 p4 p5).2.1 (hitProbs A g.total p2 p3 p4 p5).2.2.1
    (hitProbs A g.total p2 p3 p4 p5).2.2.2 (A.pct 0)
  generalize (noteCount A s _ _ _ _ _).1 = n at c ⊢
  have c5 := c.2.2.1 rfl
  have c4 : g.total ≤ 5 → n ≤ 4 := fun h => c.2.2.2.1 rfl (q.2.2 h)
  have c3 : g.total ≤ 4 → n ≤ 3 := fun h => c.2.2.2.2.1 rfl (q.2.2 (by omega)) (q.2.1 h)
  have c2 : g.total ≤ 3 → n ≤ 2 := fun h => c.2.2.2.2.2.1 rfl (q.2.2 (by omega)) (q.2.1 (by omega)) (q.1 h)
  have c1 := c.1
  rw [hrs]
  by_cases e3 : g.total ≤ 3
  · have := c2 e3; split <;> omega
  · by_cases e4 : g.total ≤ 4
    · have := c3 e4; split <;> omega
    · by_cases e5 : g.total ≤ 5
      · have := c4 e5; split <;> omega
      · split <;> omega

theorem hitRandomPattern_safe (h2 : 2 ≤ g.total) (p2 p3 p4 p5 : F) (s : Osu) :
    OkOrFuel (hitRandomPattern A g p2 p3 p4 p5 s) := by
  unfold hitRandomPattern
  have hle := hitNoteCount_le hP g h1 h16 h2 p2 p3 p4 p5 s
  generalize hitNoteCount A g p2 p3 p4 p5 s = nc at hle
  obtain ⟨n, s1⟩ := nc
  simp only at hle ⊢
  refine OkOrFuel.bind (hitRandomNotes_safe hP g h1 h16 n s1 (fun _ => hle.2)) ?_
  rintro ⟨pat, s2⟩ _
  simp only
  split
  · rw [Pat.add_safe pat _ (by omega : 0 < 16), ok_bind]; exact OkOrFuel.ok _
  · exact OkOrFuel.ok _

omit hP h1 h16 in
theorem mirrorProbs_caps (T : Nat) (centre p2 p3 : F) (h2 : 2 ≤ T) :
    (T ≤ 3 → (mirrorProbs A T centre p2 p3).2.1 = A.pct 0) ∧
    (T ≤ 5 → (mirrorProbs A T centre p2 p3).2.2 = A.pct 0) := by
  refine ⟨fun h => ?_, fun h => ?_⟩ <;> unfold mirrorProbs <;> repeat' split
  all_goals first | rfl | omega

theorem hitNoteCountMirrored_le (h2 : 2 ≤ g.total) (centre p2 p3 : F) (s : Osu) :
    1 ≤ (hitNoteCountMirrored A g centre p2 p3 s).1.1 ∧
    (hitNoteCountMirrored A g centre p2 p3 s).1.1 + randomStart g.total ≤
      (if g.total % 2 = 0 then g.total / 2 else (g.total - 1) / 2 : Nat) := by
  unfold hitNoteCountMirrored
  have hrs : randomStart g.total = if g.total = 8 then 1 else 0 := rfl
  have hz := clamp01_zero hP
  have q := mirrorProbs_caps (A := A) g.total centre p2 p3 h2
  have c := noteCount_caps hP (nextDouble A s).2 (A.clamp01 (mirrorProbs A g.total centre p2 p3).2.1)
    (A.clamp01 (mirrorProbs A g.total centre p2 p3).2.2) (A.pct 0) (A.pct 0) (A.pct 0)
  simp only
  generalize (noteCount A (nextDouble A s).2 _ _ _ _ _).1 = n at c ⊢
  have c3 := c.2.2.2.2.1 rfl rfl rfl
  have c2 : g.total ≤ 5 → n ≤ 2 := fun h => c.2.2.2.2.2.1 rfl rfl rfl (by rw [q.2 h, hz])
  have c1 : g.total ≤ 3 → n = 1 := fun h =>
    c.2.2.2.2.2.2 rfl rfl rfl (by rw [q.2 (by omega), hz]) (by rw [q.1 h, hz])
  have c0 := c.1
  rw [hrs]
  by_cases e3 : g.total ≤ 3
  · have := c1 e3; split <;> split <;> omega
  · by_cases e5 : g.total ≤ 5
    · have := c2 e5; split <;> split <;> omega
    · split <;> split <;> omega

theorem hitMirroredLoop_safe (limit : Nat) (hl : randomStart g.total < limit) (hlt : 2 * limit ≤ g.total) :
    ∀ (k : Nat) (pat : Pat) (c : Nat) (s : Osu) (L : Cols),
      (randomStart g.total ≤ c ∧ c < limit) →
      (∀ b, randomStart g.total ≤ b → b < limit → pat.cols.testBit b = L.testBit b) →
      (k = 0 ∨ Cols.len L + k + randomStart g.total ≤ limit) →
      OkOrFuel (hitMirroredLoop A g limit k pat c s) := by
  intro k
  induction k with
  | zero => intro pat c s L _ _ _; unfold hitMirroredLoop; exact OkOrFuel.ok _
  | succ k ih =>
    intro pat c s L hc hL hinv
    have hinv' : Cols.len L + (k + 1) + randomStart g.total ≤ limit := by
      rcases hinv with h | h
      · omega
      · exact h
    have hrs := randomStart_le g.total
    unfold hitMirroredLoop
    simp only
    have hfind : OkOrFuel (findAvail none [pat.cols] (randomStart g.total) limit
        (randomNext A (randomStart g.total) limit) g.fuel s c) := by
      apply findAvail_totalB limit (by omega) _ _ _ _ _ _ _ _ (by omega) hc.2
        (fun s col _ => randomNext_totalB hP.toRangeLaw hl (by omega) s col)
      obtain ⟨c0, h1', h2', h3', _⟩ := free_of_count L 0 (randomStart g.total) limit (by omega)
        (by rw [Cols.len_zero]; omega)
      refine ⟨c0, h1', h2', isValidA_none_one (by omega) ?_⟩
      rw [hL c0 h1' h2']; exact h3'
    refine OkOrFuel.bind hfind ?_
    rintro ⟨c', s'⟩ hf
    have hc' : randomStart g.total ≤ c' ∧ c' < limit :=
      findAvail_inv (fun c => randomStart g.total ≤ c ∧ c < limit)
        (fun s col c s' _ hn => randomNext_inv hP.toRangeLaw hl (by omega) s col c s' hn) hc hf
    simp only
    have hmod : (randomStart g.total + g.total) % 256 = randomStart g.total + g.total :=
      Nat.mod_eq_of_lt (by omega)
    rw [Pat.add_safe pat _ (by omega : c' < 16), ok_bind, hmod,
      u8sub_safe (by omega : c' ≤ randomStart g.total + g.total), ok_bind,
      u8sub_safe (by omega : 1 ≤ randomStart g.total + g.total - c'), ok_bind,
      Pat.add_safe _ _ (by omega : randomStart g.total + g.total - c' - 1 < 16), ok_bind]
    apply ih _ c' s' (L ||| 2 ^ c') hc'
    · intro b hb1 hb2
      simp only [testBit_insert]
      rw [hL b hb1 hb2]
      have hne : ¬ (randomStart g.total + g.total - c' - 1 = b) := by omega
      simp [hne]
    · right
      have := Cols.len_insert_le L c'
      omega

theorem hitMirrored_safe (h2 : 2 ≤ g.total) (centre p2 p3 : F) (s : Osu) :
    OkOrFuel (hitMirrored A g centre p2 p3 s) := by
  unfold hitMirrored
  split
  · exact hitRandomPattern_safe hP g h1 h16 h2 _ _ _ _ _
  · have hle := hitNoteCountMirrored_le hP g h1 h16 h2 centre p2 p3 s
    generalize hitNoteCountMirrored A g centre p2 p3 s = nc at hle
    obtain ⟨⟨n, addc⟩, s1⟩ := nc
    simp only at hle ⊢
    have hlim : randomStart g.total < (if g.total % 2 = 0 then g.total / 2 else (g.total - 1) / 2) ∧
        2 * (if g.total % 2 = 0 then g.total / 2 else (g.total - 1) / 2) ≤ g.total := by
      unfold randomStart; split <;> split <;> omega
    generalize (if g.total % 2 = 0 then g.total / 2 else (g.total - 1) / 2) = limit at hle hlim ⊢
    have hb := getRandomColumn_bounds hP.toRangeLaw s1 (randomStart g.total) limit hlim.1 (by omega)
    generalize getRandomColumn A s1 (randomStart g.total) limit = c0 at hb ⊢
    obtain ⟨c0, s2⟩ := c0
    simp only at hb ⊢
    refine OkOrFuel.bind (hitMirroredLoop_safe hP g h1 h16 limit hlim.1 hlim.2 _ _ _ _ 0 hb
      (fun b _ _ => rfl) (by right; rw [Cols.len_zero]; omega)) ?_
    rintro ⟨pat, s3⟩ _
    simp only
    have hcen : g.total % 256 / 2 < 16 := by omega
    split
    · rw [Pat.add_safe pat _ hcen, ok_bind]
      split
      · rw [Pat.add_safe _ _ (by omega : 0 < 16), ok_bind]; exact OkOrFuel.ok _
      · rw [ok_bind]; exact OkOrFuel.ok _
    · rw [ok_bind]
      split
      · rw [Pat.add_safe _ _ (by omega : 0 < 16), ok_bind]; exact OkOrFuel.ok _
      · rw [ok_bind]; exact OkOrFuel.ok _

omit hP h1 in
theorem hitCopyLoop_safe (f : Nat → M Nat)
    (hf : ∀ i, randomStart g.total ≤ i → i < g.total → ∃ c, f i = .ok c ∧ c < 16) :
    ∀ (k i : Nat) (pat : Pat), randomStart g.total ≤ i → i + k ≤ g.total →
      OkOrFuel (hitCopyLoop g f k i pat) := by
  intro k
  induction k with
  | zero => intro i pat _ _; unfold hitCopyLoop; exact OkOrFuel.ok _
  | succ k ih =>
    intro i pat hi hk
    unfold hitCopyLoop
    rw [Pat.has_safe g.prev (by omega : i < 16), ok_bind]
    split
    · obtain ⟨c, hc, hc16⟩ := hf i hi (by omega)
      rw [hc, ok_bind, Pat.add_safe pat _ hc16, ok_bind]
      exact ih (i + 1) _ (by omega) (by omega)
    · exact ih (i + 1) _ (by omega) (by omega)

theorem hitCoreRandom_safe (h2 : 2 ≤ g.total) (s : Osu) : OkOrFuel (hitCoreRandom A g s) := by
  unfold hitCoreRandom
  have hrs := randomStart_lt h1
  split
  · exact hitRandomNotes_safe hP g h1 h16 1 s (fun _ => by omega)
  · repeat' split
    all_goals first
      | exact hitMirrored_safe hP g h1 h16 h2 _ _ _ _
      | exact hitRandomPattern_safe hP g h1 h16 h2 _ _ _ _ _

/-- `generate_core()` past the one-column case; `hspecial` excludes the 7K+1 `REVERSE_STAIR` step
from the special column -/
theorem hitCoreSpecial_safe (h2 : 2 ≤ g.total) (last : Nat) (hlast : last < g.total) (s : Osu)
    (hspecial : g.total = 8 → g.prev.notes.length = 1 → has g.ct REVERSE_STAIR = true → last ≠ 0) :
    OkOrFuel (hitCoreSpecial A g last (g.total % 256) (randomStart g.total) s) := by
  have hrs := randomStart_le g.total
  have hrs' := randomStart_lt h1
  have hm : g.total % 256 = g.total := Nat.mod_eq_of_lt (by omega)
  have hrsT : randomStart g.total + g.total ≤ 16 := by unfold randomStart; split <;> omega
  rw [hm]
  unfold hitCoreSpecial
  split
  · -- REVERSE
    refine OkOrFuel.bind (hitCopyLoop_safe g h16 _ ?_ _ _ _ (Nat.le_refl _) (by omega)) ?_
    · intro i hi hi'
      refine ⟨randomStart g.total + g.total - i - 1, ?_, by omega⟩
      rw [u8add_safe (by omega), ok_bind, u8sub_safe (by omega), ok_bind, u8sub_safe (by omega)]
    · intro p _; exact OkOrFuel.ok _
  · split
    · -- CYCLE
      rw [u8add_safe (by omega), ok_bind, u8sub_safe (by omega), ok_bind, u8sub_safe (by omega), ok_bind]
      unfold Pat.single
      rw [Pat.add_safe _ _ (by omega), ok_bind]
      exact OkOrFuel.ok _
    · split
      · -- FORCE_STACK
        refine OkOrFuel.bind (hitCopyLoop_safe g h16 _ ?_ _ _ _ (Nat.le_refl _) (by omega)) ?_
        · intro i _ hi'; exact ⟨i, rfl, by omega⟩
        · intro p _; exact OkOrFuel.ok _
      · split
        · -- STAIR
          rw [u8add_safe (by omega), ok_bind]
          unfold Pat.single
          rw [Pat.add_safe _ _ (by split <;> omega), ok_bind]
          exact OkOrFuel.ok _
        · split
          · -- REVERSE_STAIR
            rename_i hcond
            simp only [Bool.and_eq_true, decide_eq_true_eq] at hcond
            have hne := hspecial
            have hI1 : asI8 (last : Int) = last := by unfold asI8; omega
            have hI2 : asI8 (randomStart g.total : Int) = randomStart g.total := by unfold asI8; omega
            have hI3 : asI8 (g.total : Int) = g.total := by unfold asI8; omega
            rw [hI1, hI2, hI3]
            have e1 : i8sub (last : Int) 1 = .ok ((last : Int) - 1) := by
              unfold i8sub; rw [if_neg (by omega)]
            have e2 : i8sub (randomStart g.total : Int) 1 = .ok ((randomStart g.total : Int) - 1) := by
              unfold i8sub; rw [if_neg (by omega)]
            have e3 : i8sub (g.total : Int) 1 = .ok ((g.total : Int) - 1) := by
              unfold i8sub; rw [if_neg (by omega)]
            rw [e1, ok_bind, e2, ok_bind]
            have hcol : ∀ t : Int, (if (last : Int) - 1 = (randomStart g.total : Int) - 1
                then i8sub (g.total : Int) 1 else .ok ((last : Int) - 1)) = .ok t → asU8 t < 16 := by
              intro t ht
              split at ht
              · rw [e3] at ht; cases ht; unfold asU8; omega
              · rename_i hneq
                cases ht
                have h0 : last ≠ 0 := by
                  intro h0
                  have hr : randomStart g.total = 1 := by omega
                  have h8 : g.total = 8 := by
                    unfold randomStart at hr; split at hr
                    · assumption
                    · omega
                  exact hne h8 hcond.1 hcond.2 h0
                unfold asU8; omega
            by_cases heq : (last : Int) - 1 = (randomStart g.total : Int) - 1
            · rw [if_pos heq, e3, ok_bind]
              have := hcol ((g.total : Int) - 1) (by rw [if_pos heq, e3])
              unfold Pat.single
              rw [Pat.add_safe _ _ this, ok_bind]
              exact OkOrFuel.ok _
            · rw [if_neg heq, ok_bind]
              have := hcol ((last : Int) - 1) (by rw [if_neg heq])
              unfold Pat.single
              rw [Pat.add_safe _ _ this, ok_bind]
              exact OkOrFuel.ok _
          · exact hitCoreRandom_safe hP g h1 h16 h2 s

/-- **(b) for the hit-object generator.** -/
theorem hitGenerate_safe (stair : Nat) (s : Osu)
    (hspecial : g.total = 8 → g.prev.notes.length = 1 → has g.ct REVERSE_STAIR = true →
      hitLastColumn g ≠ 0) :
    OkOrFuel (hitGenerate A g stair s) := by
  unfold hitGenerate
  refine OkOrFuel.bind ?_ (fun _ _ => OkOrFuel.ok _)
  unfold hitGenerateCore
  split
  · unfold Pat.single
    rw [Pat.add_safe _ _ (by omega : 0 < 16), ok_bind]
    exact OkOrFuel.ok _
  · exact hitCoreSpecial_safe hP g h1 h16 (by omega) _ (hitLastColumn_lt hP.toRangeLaw g h1 h16) s hspecial

end hit

end Rosu.ManiaPattern
