import RosuModel.Model.FieldEq

/-! Frame lemmas for the `Difficulty` setters, field by field (fields and setters named as in the
source: `Builder.diffSetters`).  Used by Props/C18.lean (`dropped_setters_invisible`). -/

namespace Rosu.ReadSet
open Rosu.Builder

/-- Applying the same setter with the same argument to two values keeps their agreement on any field. -/
theorem fieldEq_apply_both (a b : Diff) (s f : String) (x : Arg) (hs : s ∈ diffSetters)
    (hf : f ∈ diffSetters) (h : fieldEq f a b = true) :
    fieldEq f (a.apply s x) (b.apply s x) = true := by
  simp only [diffSetters, List.mem_cons, List.not_mem_nil, or_false] at hf hs
  rcases hs with rfl | rfl | rfl | rfl | rfl | rfl | rfl | rfl | rfl <;>
    rcases hf with rfl | rfl | rfl | rfl | rfl | rfl | rfl | rfl | rfl <;>
    cases x <;> simp [fieldEq, Diff.apply, DSetter.ofString, Diff.applyS] at h ⊢ <;> exact h

/-- A setter applied to one of two values does not disturb their agreement on another field. -/
theorem fieldEq_apply_right (a b : Diff) (s f : String) (x : Arg) (hne : f ≠ s) (hs : s ∈ diffSetters)
    (hf : f ∈ diffSetters) (h : fieldEq f a b = true) :
    fieldEq f a (b.apply s x) = true := by
  simp only [diffSetters, List.mem_cons, List.not_mem_nil, or_false] at hf hs
  rcases hs with rfl | rfl | rfl | rfl | rfl | rfl | rfl | rfl | rfl <;>
    rcases hf with rfl | rfl | rfl | rfl | rfl | rfl | rfl | rfl | rfl <;>
    first
    | exact absurd rfl hne
    | (cases x <;> simp [fieldEq, Diff.apply, DSetter.ofString, Diff.applyS] at h ⊢ <;> exact h)

theorem fieldEq_refl (a : Diff) (f : String) (hf : f ∈ diffSetters) : fieldEq f a a = true := by
  simp only [diffSetters, List.mem_cons, List.not_mem_nil, or_false] at hf
  rcases hf with rfl | rfl | rfl | rfl | rfl | rfl | rfl | rfl | rfl <;> simp [fieldEq]

end Rosu.ReadSet
