//! Operation sequences on the real `StrainsVec` of the current build (compact by default, plain
//! `Vec<f64>` with `--features raw_strains`), shared by C10 and C11: correspondence lines for the
//! Lean model (`SV …`, `DV …`) and a direct oracle against a plain list.

use rosu_pp::verif::{skill_probe, StrainsVec};

use crate::{
    common::{guarded, Run},
    rng::Rng,
};

pub const RAW: bool = cfg!(feature = "raw_strains");

pub fn variant() -> &'static str {
    if RAW {
        "r"
    } else {
        "c"
    }
}

#[derive(Clone, Debug, PartialEq)]
pub enum SvOp {
    Push(u64),
    /// `n` pushes of `+0.0` (one token, so that zero runs beyond 2^16 / 2^17 sections — hours of
    /// silence in a map — fit on a request line)
    PushZeros(usize),
    Len,
    Iter,
    IterLen,
    Sum,
    IntoVec,
    /// clone, `retain_non_zero_and_sort`, `transmute_into_vec`
    RetainSortTransmute,
    /// clone, `sorted_non_zero_iter_mut().take(k)` scaled by the factors, `sort_desc`, transmute
    Update(usize, Vec<u64>),
    Retain,
    SortDesc,
    /// clone, `transmute_into_vec`
    Transmute,
}

pub fn hex(b: u64) -> String {
    format!("{b:016x}")
}

/// `;`-separated 16-digit hex values; a run of 16 or more `+0.0` is written `z<count>` (the
/// model driver renders its lists the same way, `showHexList` in Model/StrainsWire.lean).
pub fn hex_list(v: &[u64]) -> String {
    if v.is_empty() {
        return "-".to_owned();
    }
    let mut parts: Vec<String> = Vec::new();
    let mut i = 0;
    while i < v.len() {
        if v[i] == 0 {
            let mut j = i;
            while j < v.len() && v[j] == 0 {
                j += 1;
            }
            if j - i >= 16 {
                parts.push(format!("z{}", j - i));
            } else {
                parts.extend((i..j).map(|_| hex(0)));
            }
            i = j;
        } else {
            parts.push(hex(v[i]));
            i += 1;
        }
    }
    parts.join(";")
}

pub fn show_f(f: f64) -> String {
    if f.is_nan() {
        "nan".to_owned()
    } else {
        hex(f.to_bits())
    }
}

impl SvOp {
    pub fn token(&self) -> String {
        match self {
            SvOp::Push(b) => format!("P{}", hex(*b)),
            SvOp::PushZeros(n) => format!("Z{n}"),
            SvOp::Len => "L".into(),
            SvOp::Iter => "I".into(),
            SvOp::IterLen => "E".into(),
            SvOp::Sum => "S".into(),
            SvOp::IntoVec => "V".into(),
            SvOp::RetainSortTransmute => "T".into(),
            SvOp::Update(k, fs) => format!("U{k}:{}", hex_list(fs)),
            SvOp::Retain => "R".into(),
            SvOp::SortDesc => "D".into(),
            SvOp::Transmute => "X".into(),
        }
    }
}

pub fn ops_token(ops: &[SvOp]) -> String {
    if ops.is_empty() {
        "-".to_owned()
    } else {
        ops.iter().map(SvOp::token).collect::<Vec<_>>().join(",")
    }
}

/// `Iterator::sum::<f64>()` of an empty iterator (std's additive identity: `-0.0` or `0.0`
/// depending on the std version); sent to the model so that it replays the same fold.
pub fn sum_identity() -> f64 {
    std::iter::empty::<f64>().sum()
}

fn bits(v: Vec<f64>) -> Vec<u64> {
    v.into_iter().map(f64::to_bits).collect()
}

/// Runs the ops on the real type; returns the observation tokens.
pub fn run_real(ops: &[SvOp]) -> Vec<String> {
    let mut v = StrainsVec::with_capacity(4);
    let mut out = Vec::new();
    for op in ops {
        match op {
            SvOp::Push(b) => v.push(f64::from_bits(*b)),
            SvOp::PushZeros(n) => {
                for _ in 0..*n {
                    v.push(0.0);
                }
            }
            SvOp::Len => out.push(format!("L{}", v.len())),
            SvOp::Iter => out.push(format!("I{}", hex_list(&bits(v.iter().collect())))),
            SvOp::IterLen => out.push(format!("E{}", v.iter().len())),
            SvOp::Sum => out.push(format!("S{}", show_f(v.sum()))),
            SvOp::IntoVec => out.push(format!("V{}", hex_list(&bits(v.clone().into_vec())))),
            SvOp::RetainSortTransmute => {
                let mut c = v.clone();
                c.retain_non_zero_and_sort();
                // SAFETY: zeros were just removed
                let r = unsafe { c.transmute_into_vec() };
                out.push(format!("T{}", hex_list(&bits(r))));
            }
            SvOp::Update(k, fs) => {
                let mut c = v.clone();
                for (i, x) in c.sorted_non_zero_iter_mut().take(*k).enumerate() {
                    if let Some(f) = fs.get(i) {
                        *x *= f64::from_bits(*f);
                    }
                }
                c.sort_desc();
                // SAFETY: zeros were removed by sorted_non_zero_iter_mut
                let r = unsafe { c.transmute_into_vec() };
                out.push(format!("U{}", hex_list(&bits(r))));
            }
            SvOp::Retain => v.retain_non_zero(),
            SvOp::SortDesc => v.sort_desc(),
            SvOp::Transmute => {
                // SAFETY: generated only when no zero entry exists, or (release builds, rogue
                // stream) to observe the raw entries: every u64 is a valid f64 bit pattern.
                let r = unsafe { v.clone().transmute_into_vec() };
                out.push(format!("X{}", hex_list(&bits(r))));
            }
        }
    }
    out
}

pub const ONE: u64 = 0x3ff0_0000_0000_0000;
pub const NEG_ZERO: u64 = 0x8000_0000_0000_0000;
pub const INF: u64 = 0x7ff0_0000_0000_0000;
pub const NAN_POS: u64 = 0x7ff8_0000_0000_0000;
pub const NAN_NEG: u64 = 0xfff8_0000_0000_0000;

/// Value classes; `good_only` restricts to `+0.0` and `(0, +inf]`.
pub fn draw_value(rng: &mut Rng, good_only: bool) -> (u64, &'static str) {
    let r = rng.below(100);
    if r < 35 {
        return (0, "push:+0.0");
    }
    if r < 75 {
        let v = match rng.below(6) {
            0 => 1.0,
            1 => 0.5 + rng.unit(),
            2 => rng.unit() * 1000.0 + 0.001,
            3 => rng.unit() * 1e-3 + 1e-9,
            4 => (rng.below(20) + 1) as f64, // ties are likely
            _ => rng.unit() * 10.0 + 1e-6,
        };
        return (v.to_bits(), "push:positive-normal");
    }
    if r < 81 {
        let b = *rng.pick(&[1u64, 2, 0x000f_ffff_ffff_ffff, 0x0000_0000_8000_0000, 0x0010_0000_0000_0000]);
        return (b, "push:subnormal-or-min");
    }
    if r < 85 {
        return (*rng.pick(&[INF, f64::MAX.to_bits()]), "push:+inf-or-max");
    }
    if good_only {
        return (ONE + rng.below(1 << 20), "push:positive-normal");
    }
    match rng.below(6) {
        0 => (NEG_ZERO, "push:-0.0"),
        1 => (NAN_POS | rng.below(4), "push:+nan"),
        2 => (NAN_NEG, "push:-nan"),
        3 => ((-1.0 - rng.unit() * 100.0).to_bits(), "push:negative"),
        4 => (0xfff0_0000_0000_0000, "push:-inf"),
        _ => (NEG_ZERO | rng.below(1 << 30), "push:negative-subnormal"),
    }
}

fn draw_factors(rng: &mut Rng, k: usize) -> Vec<u64> {
    (0..k)
        .map(|_| (*rng.pick(&[0.75f64, 0.8, 0.9, 0.97, 1.0, 1.25, 2.0, 0.5])).to_bits())
        .collect::<Vec<u64>>()
}

#[derive(Clone, Copy, PartialEq, Debug)]
pub enum Stream {
    /// only `+0.0` / positive pushes, documented call discipline
    Good,
    /// any 64-bit class, documented call discipline
    Any,
    /// any class, `sort_desc` / `transmute_into_vec` at arbitrary points (release builds only:
    /// violates the documented preconditions, still no invalid access in the compact layout)
    Rogue,
}

/// A random op sequence of roughly `n` ops.
pub fn random_ops(rng: &mut Rng, n: usize, stream: Stream, run: &mut Run) -> Vec<SvOp> {
    let mut ops = Vec::new();
    let mut clean = false; // retained and nothing pushed since
    let mut has_nan = false;
    let zero_runs = rng.chance(1, 3);
    for _ in 0..n {
        let r = rng.below(100);
        if r < 55 {
            let (mut b, mut class) = draw_value(rng, stream == Stream::Good);
            if zero_runs && rng.chance(1, 2) {
                b = 0;
                class = "push:+0.0";
            }
            if b & 0x7ff0_0000_0000_0000 == 0x7ff0_0000_0000_0000 && b & 0x000f_ffff_ffff_ffff != 0 {
                has_nan = true;
            }
            run.count(class);
            ops.push(SvOp::Push(b));
            clean = false;
        } else if r < 61 {
            ops.push(SvOp::Len);
        } else if r < 68 {
            ops.push(SvOp::Iter);
        } else if r < 71 {
            ops.push(SvOp::IterLen);
        } else if r < 77 {
            ops.push(SvOp::Sum);
        } else if r < 83 {
            ops.push(SvOp::IntoVec);
        } else if r < 88 {
            ops.push(SvOp::RetainSortTransmute);
        } else if r < 92 {
            // NaN payloads through a multiplication are not compared: skip the update then
            if !has_nan {
                let k = rng.below(12) as usize;
                ops.push(SvOp::Update(k, draw_factors(rng, k)));
            }
        } else if r < 95 {
            ops.push(SvOp::Retain);
            clean = true;
        } else if r < 98 {
            if clean || stream == Stream::Rogue {
                ops.push(SvOp::SortDesc);
            }
        } else if clean || stream == Stream::Rogue {
            ops.push(SvOp::Transmute);
        }
    }
    // always end with the full set of observers
    ops.extend([SvOp::Len, SvOp::Iter, SvOp::Sum, SvOp::IntoVec, SvOp::RetainSortTransmute]);
    ops
}

/// Hand-made corner sequences (empty, size 1–3, ties, long zero runs, extremes).
pub fn corner_ops() -> Vec<Vec<SvOp>> {
    use SvOp::*;
    let obs = || vec![Len, Iter, IterLen, Sum, IntoVec, RetainSortTransmute, Update(10, vec![ONE; 10])];
    let two = 2.0f64.to_bits();
    let mut v: Vec<Vec<SvOp>> = Vec::new();
    let mut add = |pushes: &[u64]| {
        let mut ops: Vec<SvOp> = pushes.iter().map(|b| Push(*b)).collect();
        ops.extend(obs());
        v.push(ops);
    };
    add(&[]);
    add(&[0]);
    add(&[ONE]);
    add(&[0, 0]);
    add(&[0, ONE]);
    add(&[ONE, 0]);
    add(&[ONE, ONE]);
    add(&[ONE, two, ONE]);
    add(&[0, 0, 0, ONE, 0, 0, two, 0]);
    add(&[ONE, 0, 0, 0, 0, 0, 0, 0, 0, 0, 0, 0, 0]);
    add(&[1, 2, 3, 0, INF, f64::MAX.to_bits()]);
    add(&[two, two, two, ONE, ONE, 0, two]);
    let long: Vec<u64> = (0..3000).map(|i| if i % 1000 == 999 { ONE + i } else { 0 }).collect();
    add(&long);
    // zero runs around 2^16 and 2^17 sections (a map with 7–15 hours of silence): every observer
    // must still see every section
    for n in [65_535usize, 65_536, 65_537, 70_000, 131_073] {
        v.push(vec![Push(ONE), PushZeros(n), Push(two), Len, IterLen, Iter, IntoVec, Sum, RetainSortTransmute, PushZeros(3), Len, IntoVec]);
    }
    v.push(vec![PushZeros(70_000), Len, IterLen, IntoVec, Push(ONE), PushZeros(66_000), Len, Iter, IntoVec, Retain, Len, Iter]);
    // retain / sort on the vector itself, then keep pushing
    v.push(vec![Push(ONE), Push(0), Push(two), Retain, Len, IterLen, Iter, SortDesc, Transmute, Push(0), Push(ONE), Len, Iter, IntoVec, Sum]);
    v.push(vec![Retain, SortDesc, Transmute, Len, Iter, Sum, IntoVec]);
    v.push(vec![Push(0), Push(0), Retain, SortDesc, Transmute, Len, IterLen, Iter, Sum, IntoVec, Push(0), Iter]);
    v
}

/// Adds one correspondence line (and optionally the plain-list oracle) for `ops`.
pub fn check_ops(run: &mut Run, case_id: &str, ops: &[SvOp], oracle: bool) {
    let req = format!("SV {} {} {}", variant(), hex(sum_identity().to_bits()), ops_token(ops));
    run.repro.insert(case_id.to_owned(), req.clone());
    match guarded(|| run_real(ops)) {
        Ok(out) => {
            let obs = if out.is_empty() { "-".to_owned() } else { out.join(" ") };
            if oracle && !RAW {
                if let Err(e) = plain_list_oracle(ops, &out) {
                    run.fail("oracle:strainsvec-vs-plain-list", "", case_id, e, req.clone());
                }
            }
            run.line(case_id, req, obs);
        }
        Err(p) => run.fail("oracle:strainsvec-panic", "", case_id, p, req),
    }
}

fn canon(b: u64) -> u64 {
    if b > 0 && b >> 63 == 0 {
        b
    } else {
        0
    }
}

/// C11 (a) directly on the implementation: under the documented discipline the compact vector
/// behaves like the plain list of canonicalised values.
fn plain_list_oracle(ops: &[SvOp], out: &[String]) -> Result<(), String> {
    let mut plain: Vec<u64> = Vec::new();
    // `len()` of the compact variant counts pushes (`retain_non_zero` does not update it)
    let mut pushes = 0usize;
    let mut it = out.iter();
    let sorted_desc = |v: &[u64]| {
        let mut s: Vec<f64> = v.iter().filter(|b| **b != 0).map(|b| f64::from_bits(*b)).collect();
        s.sort_by(|a, b| b.total_cmp(a));
        s.into_iter().map(f64::to_bits).collect::<Vec<u64>>()
    };
    for op in ops {
        match op {
            SvOp::Push(b) => {
                plain.push(canon(*b));
                pushes += 1;
            }
            SvOp::PushZeros(n) => {
                plain.extend(std::iter::repeat(0).take(*n));
                pushes += n;
            }
            SvOp::Retain => plain.retain(|b| *b != 0),
            SvOp::SortDesc => plain = sorted_desc(&plain),
            SvOp::Len | SvOp::IterLen => {
                let got = it.next().ok_or("missing output")?;
                let want = pushes;
                if got[1..] != want.to_string() {
                    return Err(format!("{op:?}: got {got}, plain list has {want}"));
                }
            }
            SvOp::Iter | SvOp::IntoVec | SvOp::Transmute => {
                let got = it.next().ok_or("missing output")?;
                if got[1..] != hex_list(&plain) {
                    return Err(format!("{op:?}: got {got}, plain list is {}", hex_list(&plain)));
                }
            }
            SvOp::Sum => {
                let got = it.next().ok_or("missing output")?;
                let want: f64 = plain.iter().map(|b| f64::from_bits(*b)).sum();
                let g = &got[1..];
                let ok = if want.is_nan() {
                    g == "nan"
                } else {
                    g != "nan" && f64::from_bits(u64::from_str_radix(g, 16).unwrap_or(1)) == want
                };
                if !ok {
                    return Err(format!("sum: got {got}, plain list sums to {}", show_f(want)));
                }
            }
            SvOp::RetainSortTransmute => {
                let got = it.next().ok_or("missing output")?;
                if got[1..] != hex_list(&sorted_desc(&plain)) {
                    return Err(format!("retain+sort+transmute: got {got}, want {}", hex_list(&sorted_desc(&plain))));
                }
            }
            SvOp::Update(k, fs) => {
                let got = it.next().ok_or("missing output")?;
                let mut s = sorted_desc(&plain);
                for (i, x) in s.iter_mut().take(*k).enumerate() {
                    if let Some(f) = fs.get(i) {
                        *x = (f64::from_bits(*x) * f64::from_bits(*f)).to_bits();
                    }
                }
                let mut s: Vec<f64> = s.into_iter().map(f64::from_bits).collect();
                s.sort_by(|a, b| b.total_cmp(a));
                let s: Vec<u64> = s.into_iter().map(f64::to_bits).collect();
                if got[1..] != hex_list(&s) {
                    return Err(format!("update: got {got}, want {}", hex_list(&s)));
                }
            }
        }
    }
    Ok(())
}

/// `lerp(baseline, 1.0, log10(lerp(1.0, 10.0, clamp(i / count))))` exactly as
/// `osu::difficulty::skills::strain::difficulty_value` computes it.
pub fn osu_factors(reduced_section_count: usize, baseline: f64) -> Vec<u64> {
    let lerp = |start: f64, end: f64, amount: f64| start + (end - start) * amount;
    (0..reduced_section_count)
        .map(|i| {
            let clamped = f64::from((i as f32 / reduced_section_count as f32).clamp(0.0, 1.0));
            let scale = f64::log10(lerp(1.0, 10.0, clamped));
            lerp(baseline, 1.0, scale).to_bits()
        })
        .collect()
}

/// Re-aggregation from an exported peaks vector, same `f64` operations in the same order as
/// `any::difficulty::skills::difficulty_value`.
pub fn reaggregate_generic(peaks: &[f64], decay: f64) -> f64 {
    let mut v: Vec<f64> = peaks.iter().copied().filter(|x| x.to_bits() != 0).collect();
    v.sort_by(|a, b| b.total_cmp(a));
    let mut difficulty = 0.0;
    let mut weight = 1.0;
    for strain in v {
        difficulty += strain * weight;
        weight *= decay;
    }
    difficulty
}

/// … and as `osu::difficulty::skills::strain::difficulty_value`.
pub fn reaggregate_osu(peaks: &[f64], count: usize, baseline: f64, decay: f64) -> f64 {
    let mut v: Vec<f64> = peaks.iter().copied().filter(|x| x.to_bits() != 0).collect();
    v.sort_by(|a, b| b.total_cmp(a));
    let fs = osu_factors(count, baseline);
    for (i, x) in v.iter_mut().take(count).enumerate() {
        *x *= f64::from_bits(fs[i]);
    }
    v.sort_by(|a, b| b.total_cmp(a));
    let mut difficulty = 0.0;
    let mut weight = 1.0;
    for strain in v {
        difficulty += strain * weight;
        weight *= decay;
    }
    difficulty
}

/// `DV` correspondence + oracle: both crate-private aggregation functions on a pushed vector vs
/// the model, and vs re-aggregation from the exported vector.
pub fn check_dv(run: &mut Run, case_id: &str, pushes: &[u64], decay: f64) {
    let build = || {
        let mut v = StrainsVec::with_capacity(pushes.len());
        for b in pushes {
            v.push(f64::from_bits(*b));
        }
        v
    };
    let exported: Vec<f64> = match guarded(|| build().into_vec()) {
        Ok(v) => v,
        Err(p) => {
            run.fail("oracle:strainsvec-panic", "", case_id, p, hex_list(pushes));
            return;
        }
    };
    // generic
    let req = format!("DV {} g {} 0 - {}", variant(), hex(decay.to_bits()), hex_list(pushes));
    match guarded(|| skill_probe::generic_difficulty_value(build(), decay)) {
        Ok(dv) => {
            let re = reaggregate_generic(&exported, decay);
            if show_f(re) != show_f(dv) {
                run.fail(
                    "oracle:dv-export-vs-internal",
                    "",
                    case_id,
                    format!("generic difficulty_value internal {} != re-aggregated from into_vec {}", show_f(dv), show_f(re)),
                    req.clone(),
                );
            }
            run.line(case_id, req, show_f(dv));
        }
        Err(p) => run.fail("oracle:dv-panic", "", case_id, p, req),
    }
    // osu (10 reduced sections, baseline 0.75)
    let fs = osu_factors(10, 0.75);
    let req = format!("DV {} o {} 10 {} {}", variant(), hex(decay.to_bits()), hex_list(&fs), hex_list(pushes));
    match guarded(|| rosu_pp::osu::verif::strain_difficulty_value(build(), 10, 0.75, decay)) {
        Ok(dv) => {
            let re = reaggregate_osu(&exported, 10, 0.75, decay);
            if show_f(re) != show_f(dv) {
                run.fail(
                    "oracle:dv-export-vs-internal",
                    "",
                    case_id,
                    format!("osu difficulty_value internal {} != re-aggregated from into_vec {}", show_f(dv), show_f(re)),
                    req.clone(),
                );
            }
            run.line(case_id, req, show_f(dv));
        }
        Err(p) => run.fail("oracle:dv-panic", "", case_id, p, req),
    }
}

/// Good pushes only (what skills produce): zeros, positive values, long zero runs, ties.
pub fn random_good_pushes(rng: &mut Rng, max_len: usize) -> Vec<u64> {
    let n = rng.below(max_len as u64 + 1) as usize;
    let mut v = Vec::with_capacity(n);
    let p_zero = *rng.pick(&[0u64, 10, 50, 90]);
    while v.len() < n {
        if rng.below(100) < p_zero {
            let run_len = if rng.chance(1, 4) { rng.below(40) + 1 } else { 1 };
            for _ in 0..run_len {
                v.push(0);
            }
        } else {
            v.push(draw_value(rng, true).0);
        }
    }
    v.truncate(n);
    v
}

/// The whole StrainsVec part of a run (C10 and C11 share it).
pub fn run_sv(run: &mut Run, tier: &str, seed: u64, only: Option<&str>, with_rogue: bool) {
    let thorough = tier == "thorough";
    let mut rng = Rng::new(seed ^ 0x5EC7);
    for (i, ops) in corner_ops().into_iter().enumerate() {
        let id = format!("sv-corner-{i}");
        if only.is_some_and(|o| o != id) {
            continue;
        }
        run.count("sv:corner");
        run.eval(Some(&ops_token(&ops)));
        if i < 3 {
            run.sample(format!("{id}: {}", ops_token(&ops)));
        }
        check_ops(run, &id, &ops, true);
    }
    let n = if thorough { 40_000 } else { 1500 };
    for i in 0..n {
        let stream = match i % 10 {
            0..=3 => Stream::Good,
            4..=7 => Stream::Any,
            _ if with_rogue && !cfg!(debug_assertions) => Stream::Rogue,
            _ => Stream::Any,
        };
        let id = format!("sv-{i}-{stream:?}");
        let len = match rng.below(10) {
            0 => rng.below(4) as usize,
            1..=6 => rng.range(4, 30) as usize,
            _ => rng.range(30, if thorough { 400 } else { 120 }) as usize,
        };
        let mut r2 = rng.fork();
        if only.is_some_and(|o| o != id) {
            continue;
        }
        let ops = random_ops(&mut r2, len, stream, run);
        run.count(&format!("sv:stream:{stream:?}"));
        run.count(match len {
            0..=3 => "sv:ops:0-3",
            4..=29 => "sv:ops:4-29",
            _ => "sv:ops:30+",
        });
        run.eval((len >= 2).then_some(ops_token(&ops).as_str()));
        if i % 97 == 0 {
            run.sample(format!("{id}: {}", ops_token(&ops)));
        }
        check_ops(run, &id, &ops, stream != Stream::Rogue);
    }
    let n_dv = if thorough { 10_000 } else { 500 };
    for i in 0..n_dv {
        let id = format!("dv-{i}");
        let mut r2 = rng.fork();
        if only.is_some_and(|o| o != id) {
            continue;
        }
        let pushes = random_good_pushes(&mut r2, if i % 10 == 0 { 400 } else { 40 });
        let decay = *r2.pick(&[0.9, 0.94, 0.9, 0.5]);
        run.count("dv:cases");
        run.count(match pushes.iter().filter(|b| **b != 0).count() {
            0 => "dv:nonzero:0",
            1..=10 => "dv:nonzero:1-10",
            _ => "dv:nonzero:11+",
        });
        run.eval((pushes.len() >= 2).then_some(hex_list(&pushes).as_str()));
        run.repro.insert(id.clone(), format!("pushes={} decay={decay}", hex_list(&pushes)));
        check_dv(run, &id, &pushes, decay);
    }
}
