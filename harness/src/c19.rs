//! C19 — converted maps are well-formed inputs of their target mode.
//!
//! Direct oracle on `Beatmap::convert` outputs (taiko / catch / mania under every key mod), plus
//! correspondence lines for the mania column arithmetic and `target_columns`
//! (`lean/RosuModel/Model/Convert.lean`): TCOL, COL, C2PSET, and for the slider → hits part of the
//! taiko converter (`lean/RosuModel/Model/TaikoTicks.lean`, replayed with IEEE doubles): TTICKS.

use std::{cmp::Ordering, collections::BTreeSet};

use rosu_pp::{
    model::{
        control_point::{DifficultyPoint, TimingPoint},
        hit_object::{HitObject, HitObjectKind},
        mode::GameMode,
        mods::rosu_mods::GameModsIntermode,
    },
    Beatmap, GameMods,
};

use crate::{
    c06::csv,
    common::{decode, guarded, hash64, resource_maps, LazerTag, ModsSpec, Run},
    mapgen::{random_map, GenCfg, MapSpec, ObjKind, ObjSpec, TimingSpec},
    rng::Rng,
};

fn wanted(only: Option<&str>, id: &str) -> bool {
    only.is_none_or(|o| o == id)
}

/// Every way to ask for a key count: none, legacy bits 1K-9K, lazer/intermode 1K-10K.
fn key_mods() -> Vec<(String, GameMods, Option<u32>)> {
    let mut v: Vec<(String, GameMods, Option<u32>)> = vec![("none".into(), GameMods::from(0u32), None)];
    let legacy: [(u32, u32); 9] = [
        (1, 1 << 26),
        (2, 1 << 28),
        (3, 1 << 27),
        (4, 1 << 15),
        (5, 1 << 16),
        (6, 1 << 17),
        (7, 1 << 18),
        (8, 1 << 19),
        (9, 1 << 24),
    ];
    for (k, bits) in legacy {
        v.push((format!("legacy-{k}K"), GameMods::from(bits), Some(k)));
    }
    const ACR: [&str; 10] = ["1K", "2K", "3K", "4K", "5K", "6K", "7K", "8K", "9K", "10K"];
    for (i, a) in ACR.iter().enumerate() {
        let k = i as u32 + 1;
        v.push((format!("lazer-{a}"), ModsSpec::Lazer(vec![LazerTag::Acronym(a)]).build(3), Some(k)));
        if let Ok(im) = a.parse::<GameModsIntermode>() {
            v.push((format!("intermode-{a}"), GameMods::from(im), Some(k)));
        }
    }
    // key mod combined with unrelated mods
    v.push(("legacy-4K+HDDT".into(), GameMods::from((1u32 << 15) | 8 | 64), Some(4)));
    v.push(("legacy-HR".into(), GameMods::from(16u32), None));
    v
}

fn strictly_increasing_total(times: impl Iterator<Item = f64>) -> bool {
    let v: Vec<f64> = times.collect();
    v.windows(2).all(|w| w[0].total_cmp(&w[1]) == Ordering::Less)
}

fn control_points_ok(map: &Beatmap) -> Result<(), String> {
    if !strictly_increasing_total(map.timing_points.iter().map(|p| p.time)) {
        return Err("timing points not strictly ordered".into());
    }
    if !strictly_increasing_total(map.difficulty_points.iter().map(|p| p.time)) {
        return Err("difficulty points not strictly ordered".into());
    }
    if !strictly_increasing_total(map.effect_points.iter().map(|p| p.time)) {
        return Err(format!("effect points not strictly ordered: {:?}", map.effect_points.iter().map(|p| p.time).collect::<Vec<_>>()));
    }
    Ok(())
}

fn common_ok(out: &Beatmap, mode: GameMode) -> Result<(), String> {
    if out.mode != mode {
        return Err(format!("mode is {:?}", out.mode));
    }
    if !out.is_convert {
        return Err("is_convert not set".into());
    }
    if let Some(w) = out.hit_objects.windows(2).find(|w| !(w[0].start_time <= w[1].start_time)) {
        return Err(format!("objects out of order: {} before {}", w[0].start_time, w[1].start_time));
    }
    for h in &out.hit_objects {
        if !h.start_time.is_finite() {
            return Err(format!("start time {}", h.start_time));
        }
        match &h.kind {
            HitObjectKind::Spinner(s) if !(s.duration >= 0.0 && s.duration.is_finite()) => {
                return Err(format!("spinner duration {}", s.duration))
            }
            HitObjectKind::Hold(s) if !(s.duration >= 0.0 && s.duration.is_finite()) => {
                return Err(format!("hold duration {}", s.duration))
            }
            _ => {}
        }
    }
    control_points_ok(out)
}

fn check_taiko(src: &Beatmap, out: &Beatmap) -> Result<(), String> {
    common_ok(out, GameMode::Taiko)?;
    if out.hit_sounds.len() != out.hit_objects.len() {
        return Err(format!("{} hit sounds for {} objects", out.hit_sounds.len(), out.hit_objects.len()));
    }
    if out.timing_points != src.timing_points || out.difficulty_points != src.difficulty_points {
        return Err("timing/difficulty points changed".into());
    }
    if out.hit_objects.iter().any(HitObject::is_hold_note) {
        return Err("hold note left in a taiko convert".into());
    }
    // generated hits sit at (0,0); source objects carry x >= 1 as a tag
    let mut seen = BTreeSet::new();
    for (h, s) in out.hit_objects.iter().zip(&out.hit_sounds) {
        let tag = h.pos.x as i64;
        if tag == 0 {
            if !h.is_circle() {
                return Err("generated object is not a hit".into());
            }
            continue;
        }
        let Some(i) = src.hit_objects.iter().position(|o| o.pos.x as i64 == tag) else {
            return Err(format!("object with unknown tag {tag}"));
        };
        if !seen.insert(tag) {
            return Err(format!("object {tag} duplicated"));
        }
        if u8::from(*s) != u8::from(src.hit_sounds[i]) {
            return Err(format!("object {tag} lost its hit sound"));
        }
        let o = &src.hit_objects[i];
        let same_kind = match (&o.kind, &h.kind) {
            (HitObjectKind::Hold(a), HitObjectKind::Spinner(b)) => a.duration == b.duration,
            (a, b) => a == b,
        };
        if !same_kind || o.start_time != h.start_time {
            return Err(format!("untouched object {tag} changed"));
        }
    }
    // every source object survives or (sliders only) is replaced by hits starting at its time
    for (i, o) in src.hit_objects.iter().enumerate() {
        let tag = o.pos.x as i64;
        if seen.contains(&tag) {
            continue;
        }
        let HitObjectKind::Slider(sl) = &o.kind else {
            return Err(format!("non-slider object {tag} vanished"));
        };
        let first_sound = sl.node_sounds.first().copied().map_or(u8::from(src.hit_sounds[i]), u8::from);
        let found = out
            .hit_objects
            .iter()
            .zip(&out.hit_sounds)
            .any(|(h, s)| h.pos.x == 0.0 && h.start_time == o.start_time && u8::from(*s) == first_sound);
        if !found {
            return Err(format!("converted slider {tag} has no head hit with its first node sound"));
        }
    }
    Ok(())
}

fn check_catch(src: &Beatmap, out: &Beatmap) -> Result<(), String> {
    common_ok(out, GameMode::Catch)?;
    let mut expect = src.clone();
    expect.mode = GameMode::Catch;
    expect.is_convert = true;
    if *out != expect {
        return Err("catch convert changed something besides mode / is_convert".into());
    }
    Ok(())
}

fn check_mania(src: &Beatmap, out: &Beatmap, keys: Option<u32>) -> Result<(), String> {
    common_ok(out, GameMode::Mania)?;
    let cs = out.cs;
    match keys {
        Some(k) if cs != k as f32 => return Err(format!("key mod {k}K but cs = {cs}")),
        None if ![4.0, 5.0, 6.0, 7.0].contains(&cs) => return Err(format!("no key mod but cs = {cs}")),
        _ => {}
    }
    for h in &out.hit_objects {
        let c = rosu_pp::mania::verif::column(h.pos.x, cs);
        if c >= cs as usize {
            return Err(format!("x = {} is column {c} of {cs}", h.pos.x));
        }
        if !(h.is_circle() || h.is_hold_note()) {
            return Err(format!("mania convert produced {:?}", h.kind));
        }
    }
    if out.timing_points != src.timing_points
        || out.difficulty_points != src.difficulty_points
        || out.effect_points != src.effect_points
    {
        return Err("control points changed".into());
    }
    if !src.hit_objects.is_empty() && out.hit_objects.is_empty() {
        return Err("all objects vanished".into());
    }
    Ok(())
}

/// `f64::total_cmp` key (the integer the model compares).
fn total_key(t: f64) -> i64 {
    let b = t.to_bits() as i64;
    b ^ ((((b >> 63) as u64) >> 1) as i64)
}

fn join_or_dash(v: Vec<String>, sep: &str) -> String {
    if v.is_empty() {
        "-".to_owned()
    } else {
        v.join(sep)
    }
}

/// TTICKS line: everything the slider arm of `taiko::convert` reads of the source map (request)
/// and what it did (observed): which sliders are still sliders, and the (time, sound) of every
/// generated hit. Source objects carry a unique tag x >= 1, generated hits sit at x = 0.
fn tticks_line(src: &Beatmap, out: &Beatmap) -> Option<(String, String, usize, usize)> {
    let mut sliders = Vec::new();
    for (i, o) in src.hit_objects.iter().enumerate() {
        if let HitObjectKind::Slider(sl) = &o.kind {
            sliders.push(format!(
                "{}:{}:{}:{}:{}:{}",
                o.pos.x as i64,
                o.start_time.to_bits(),
                sl.expected_dist.unwrap_or(0.0).to_bits(),
                sl.span_count(),
                u8::from(src.hit_sounds[i]),
                join_or_dash(sl.node_sounds.iter().map(|s| u8::from(*s).to_string()).collect(), "/")
            ));
        }
    }
    if sliders.is_empty() {
        return None;
    }
    let tps = join_or_dash(src.timing_points.iter().map(|p| format!("{}:{}", p.time.to_bits(), p.beat_len.to_bits())).collect(), ";");
    let dps = join_or_dash(
        src.difficulty_points.iter().map(|p| format!("{}:{}", p.time.to_bits(), p.slider_velocity.to_bits())).collect(),
        ";",
    );
    let req = format!(
        "TTICKS {} {} {} {} {} {tps} {dps} {}",
        src.version.max(0),
        src.slider_multiplier.to_bits(),
        src.slider_tick_rate.to_bits(),
        TimingPoint::DEFAULT_BEAT_LEN.to_bits(),
        DifficultyPoint::DEFAULT_SLIDER_VELOCITY.to_bits(),
        sliders.join(";")
    );
    let mut kept: Vec<i64> = out.hit_objects.iter().filter(|h| h.is_slider()).map(|h| h.pos.x as i64).collect();
    kept.sort_unstable();
    let mut hits: Vec<(i64, u8)> = out
        .hit_objects
        .iter()
        .zip(&out.hit_sounds)
        .filter(|(h, _)| h.pos.x == 0.0 && h.is_circle())
        .map(|(h, s)| (total_key(h.start_time), u8::from(*s)))
        .collect();
    hits.sort_unstable();
    let n_hits = hits.len();
    let n_kept = kept.len();
    let obs = format!(
        "{}|{}",
        join_or_dash(kept.iter().map(i64::to_string).collect(), ";"),
        join_or_dash(hits.iter().map(|(t, s)| format!("{t}:{s}")).collect(), ";")
    );
    Some((req, obs, sliders.len() - n_kept, n_hits))
}

/// One-slider maps that sweep the parameters of `should_convert_slider_to_taiko_hits` and of the
/// tick loop: length, repeats, slider velocity, beat length, tick rate, slider multiplier,
/// format version below / from 8, start time.
fn tick_spec(rng: &mut Rng) -> MapSpec {
    let mut m = MapSpec::default();
    m.version = *rng.pick(&[3, 7, 8, 14, 128]);
    m.slider_multiplier = *rng.pick(&[0.4, 0.75, 1.0, 1.4, 1.7, 2.2, 3.6]);
    m.slider_tick_rate = *rng.pick(&[0.5, 1.0, 1.0, 2.0, 3.0, 4.0, 8.0, 1.5]);
    m.timing[0].beat_len = *rng.pick(&[6.0, 100.0, 250.0, 300.0, 333.33, 375.5, 500.0, 1000.0, 2400.0, 60000.0]);
    m.timing[0].time = *rng.pick(&[0.0, 0.0, -2000.0, 500.0]);
    let start = *rng.pick(&[0.0, 1.0, 1000.0, 2500.0, 123456.0, -500.0, 2000000000.0, 777.0]);
    if rng.chance(2, 3) {
        m.timing.push(TimingSpec {
            time: *rng.pick(&[0.0, start, start - 1.0, start + 1.0]),
            beat_len: -(*rng.pick(&[10.0, 25.0, 50.0, 66.67, 100.0, 133.33, 200.0, 1000.0, 5000.0, 1.0])),
            uninherited: false,
            kiai: rng.chance(1, 2),
        });
    }
    if rng.chance(1, 4) {
        m.timing.push(TimingSpec {
            time: start + *rng.pick(&[-10.0, 0.0, 10.0]),
            beat_len: *rng.pick(&[200.0, 375.0, 750.0]),
            uninherited: true,
            kiai: false,
        });
    }
    let n = rng.range(1, 3) as usize;
    for i in 0..n {
        let length = match rng.below(4) {
            0 => rng.range(1, 40) as f64,
            1 => rng.range(1, 600) as f64,
            2 => rng.range(1, 4000) as f64 / 8.0,
            _ => *rng.pick(&[0.0, 0.5, 17.5, 70.0, 140.0, 280.0, 1500.0, 20000.0]),
        };
        let slides = *rng.pick(&[1, 1, 1, 2, 2, 3, 4, 5, 9, 30, 100]);
        m.objects.push(ObjSpec {
            x: i as i32 + 1,
            y: 100,
            time: start + (i as f64) * *rng.pick(&[0.0, 50.0, 700.0, 5000.0]),
            sound: *rng.pick(&[0u8, 2, 4, 8, 14]),
            kind: ObjKind::Slider { curve: 'L', points: vec![(300, 100)], slides, length },
        });
    }
    if rng.chance(1, 3) {
        m.objects.push(ObjSpec { x: 9, y: 50, time: start + 300.0, sound: 2, kind: ObjKind::Circle });
    }
    m
}

fn gen_spec(rng: &mut Rng, ci: usize, thorough: bool) -> MapSpec {
    let mut cfg = GenCfg::small(0);
    cfg.weights = *rng.pick(&[[5, 3, 2, 0], [1, 0, 0, 0], [0, 1, 0, 0], [0, 0, 1, 0], [2, 6, 1, 0], [8, 1, 0, 0], [3, 3, 1, 1], [6, 2, 1, 0], [4, 5, 2, 0]]);
    cfg.max_objects = if ci < 30 {
        ci % 4
    } else if ci % 11 == 0 {
        if thorough {
            300
        } else {
            80
        }
    } else {
        *rng.pick(&[5, 10, 20, 30])
    };
    cfg.max_slides = *rng.pick(&[1, 2, 4, 7]);
    cfg.dense = rng.chance(1, 4);
    cfg.long_gaps = rng.chance(1, 6);
    cfg.allow_negative_start = rng.chance(1, 5);
    let mut spec = random_map(rng, &cfg);
    spec.version = *rng.pick(&[3, 5, 7, 8, 9, 12, 14, 128]);
    // tags: x >= 1, unique
    for (i, o) in spec.objects.iter_mut().enumerate() {
        o.x = i as i32 + 1;
        o.sound = ((i * 5 + 1) % 16) as u8;
        if let ObjKind::Slider { length, slides, .. } = &mut o.kind {
            if rng.chance(1, 3) {
                *length = *rng.pick(&[5.0, 17.5, 50.0, 120.0, 600.0, 1500.0]);
            }
            if rng.chance(1, 8) {
                *slides = *rng.pick(&[1, 10, 30]);
            }
        }
    }
    // control points exactly at object times (the taiko converter then *replaces* effect points)
    if rng.chance(1, 2) && !spec.objects.is_empty() {
        for _ in 0..rng.range(1, 3) {
            let t = rng.pick(&spec.objects).time;
            spec.timing.push(crate::mapgen::TimingSpec {
                time: t,
                beat_len: -(*rng.pick(&[50.0, 100.0, 200.0, 80.0])),
                uninherited: false,
                kiai: rng.chance(1, 2),
            });
        }
    }
    if rng.chance(1, 3) {
        spec.cs = *rng.pick(&[0.0, 2.0, 4.4, 4.5, 4.6, 5.0, 5.5, 7.0, 10.0]);
    }
    if rng.chance(1, 3) {
        spec.od = *rng.pick(&[0.0, 2.0, 3.5, 4.0, 4.5, 4.6, 5.0, 5.5, 6.0, 10.0]);
    }
    spec
}

fn convert(map: &Beatmap, mode: GameMode, mods: &GameMods) -> Result<Beatmap, String> {
    match guarded(|| map.clone().convert(mode, mods)) {
        Err(p) => Err(format!("panic: {p}")),
        Ok(Err(e)) => Err(format!("convert error: {e:?}")),
        Ok(Ok(m)) => Ok(m),
    }
}

fn check_map(run: &mut Run, id: &str, src: &Beatmap, repro: &str, mods: &[(String, GameMods, Option<u32>)], all_mods: bool, rng: &mut Rng) {
    let none = GameMods::from(0u32);
    match convert(src, GameMode::Taiko, &none).and_then(|out| {
        run.count_n("taiko:objects-out", out.hit_objects.len() as u64);
        run.count_n("taiko:generated-hits", out.hit_objects.iter().filter(|h| h.pos.x == 0.0).count() as u64);
        run.count_n("taiko:effect-points-added", (out.effect_points.len() as i64 - src.effect_points.len() as i64).max(0) as u64);
        // slider arithmetic: decision + tick loop + edge sounds vs the f64 replay of the model
        if let Some((req, obs, n_conv, n_hits)) = tticks_line(src, &out) {
            run.count_n("taiko:sliders-converted", n_conv as u64);
            if n_conv > 0 {
                run.count(&format!(
                    "taiko:hits-per-converted-slider:{}",
                    match n_hits / n_conv {
                        0 => "0",
                        1 => "1",
                        2..=4 => "2-4",
                        5..=16 => "5-16",
                        _ => ">16",
                    }
                ));
            }
            run.repro.insert(format!("{id}/ticks"), repro.to_owned());
            run.line(&format!("{id}/ticks"), req, obs);
        }
        check_taiko(src, &out)
    }) {
        Ok(()) => {}
        Err(e) => run.fail("oracle:taiko-convert", "", id, e, repro.to_owned()),
    }
    match convert(src, GameMode::Catch, &none).and_then(|out| check_catch(src, &out)) {
        Ok(()) => {}
        Err(e) => run.fail("oracle:catch-convert", "", id, e, repro.to_owned()),
    }
    crate::c19_mania::path_new_lines(run, id, src, repro);
    let count = src.hit_objects.iter().filter(|h| h.is_slider() || h.is_spinner()).count();
    let len = src.hit_objects.len();
    let picks: Vec<usize> = if all_mods { (0..mods.len()).collect() } else { vec![0, 1 + rng.below(mods.len() as u64 - 1) as usize, 1 + rng.below(mods.len() as u64 - 1) as usize] };
    for mi in picks {
        let (name, gm, keys) = &mods[mi];
        let mid = format!("{id}/{name}");
        match convert(src, GameMode::Mania, gm) {
            Err(e) => run.fail("oracle:mania-convert", "", &mid, e, repro.to_owned()),
            Ok(out) => {
                if let Err(e) = check_mania(src, &out, *keys) {
                    run.fail("oracle:mania-convert", "", &mid, format!("{name}: {e}"), repro.to_owned());
                }
                run.count(&format!("mania:keys-out:{}", out.cs));
                // pattern generators: the traced conversion replayed by the model (MPT line)
                crate::c19_mania::trace_map(run, &mid, src, gm, &out, repro);
                run.count_n("mania:objects-out", out.hit_objects.len() as u64);
                // target_columns: model fed with the accessor's answer and the map's rounded cs/od/mix
                let snap_keys = rosu_pp::verif::mods_snapshot(gm).mania_keys;
                if snap_keys.map(|k| k as u32) != *keys {
                    run.fail("oracle:mania-keys-accessor", "", &mid, format!("mania_keys() = {snap_keys:?}, expected {keys:?}"), repro.to_owned());
                }
                run.repro.insert(mid.clone(), repro.to_owned());
                run.line(
                    &mid,
                    format!(
                        "TCOL {} {} {} {count} {len}",
                        snap_keys.map_or("-".to_owned(), |k| (k as u32).to_string()),
                        src.cs.round_ties_even() as i64,
                        src.od.round_ties_even() as i64
                    ),
                    format!("{}", out.cs as u32),
                );
                // generated x positions are exactly the column positions of the model, and read back
                let xs: BTreeSet<i64> = out.hit_objects.iter().map(|h| h.pos.x as i64).collect();
                if !xs.is_empty() && out.hit_objects.iter().all(|h| h.pos.x.fract() == 0.0) {
                    run.line(
                        &mid,
                        format!("C2PSET {} {}", out.cs as u32, csv(&xs)),
                        csv(xs.iter().map(|x| rosu_pp::mania::verif::column(*x as f32, out.cs))),
                    );
                }
            }
        }
    }
}

pub fn run(tier: &str, seed: u64, only: Option<&str>) -> Run {
    let mut run = Run::default();
    let thorough = tier == "thorough";
    let mods = key_mods();

    // column arithmetic: every key count a convert can produce, every integral x around the playfield
    if wanted(only, "columns") {
        let xs: Vec<i32> = (-20..=620).chain([1000, 131072, -131072]).collect();
        for t in 1..=10u32 {
            run.line(
                "columns",
                format!("COL {t} {}", csv(&xs)),
                csv(xs.iter().map(|x| rosu_pp::mania::verif::column(*x as f32, t as f32))),
            );
        }
        // native mania key counts above 10: the bound must hold; f32 rounding may differ from the exact quotient
        for t in 1..=18u32 {
            for x in xs.iter() {
                let c = rosu_pp::mania::verif::column(*x as f32, t as f32);
                if c >= t as usize {
                    run.fail("oracle:column-bound", "", "columns", format!("column({x}, {t}) = {c}"), String::new());
                }
                let exact = ((*x).max(0) as u64 * u64::from(t) / 512).min(u64::from(t) - 1) as usize;
                if c != exact {
                    run.count(&format!("note:f32-column-differs-from-exact(x={x},keys={t})"));
                }
            }
        }
        run.eval(Some("columns"));
    }

    // pattern generators in isolation (MPH / MPP / MPE lines)
    crate::c19_mania::isolated(&mut run, tier, seed, only);
    crate::c19_mania::occupancy_search(&mut run, tier, seed, only);

    let n_cases = if thorough { 30000 } else { 2500 };
    for ci in 0..n_cases {
        let id = format!("conv-{ci}");
        if only.is_some_and(|o| o != id && !o.starts_with(&format!("{id}/"))) {
            continue;
        }
        let mut rng = Rng::new(seed ^ hash64(&id));
        let spec = gen_spec(&mut rng, ci, thorough);
        let text = spec.render();
        let src = match decode(&text) {
            Ok(m) => m,
            Err(e) => {
                run.fail("oracle:decode", "", &id, e, text);
                continue;
            }
        };
        run.count(&format!("src:version:{}", if spec.version < 8 { "<8" } else { ">=8" }));
        run.count(&format!(
            "src:objects:{}",
            match src.hit_objects.len() {
                0 => "0",
                1..=3 => "1-3",
                4..=20 => "4-20",
                _ => ">20",
            }
        ));
        run.count_n("src:sliders", src.hit_objects.iter().filter(|h| h.is_slider()).count() as u64);
        run.count_n("src:spinners", src.hit_objects.iter().filter(|h| h.is_spinner()).count() as u64);
        run.count_n("src:circles", src.hit_objects.iter().filter(|h| h.is_circle()).count() as u64);
        run.count_n("src:holds", src.hit_objects.iter().filter(|h| h.is_hold_note()).count() as u64);
        run.eval((!src.hit_objects.is_empty()).then_some(text.as_str()));
        check_map(&mut run, &id, &src, &text, &mods, thorough || ci % 5 == 0, &mut rng);
        if ci % 70 == 31 {
            run.sample(format!("{id}: v{} cs={} od={} objects={}", spec.version, spec.cs, spec.od, spec.kinds()));
        }
    }
    // one-slider maps sweeping the slider arithmetic (TTICKS lines + the taiko oracle)
    let n_ticks = if thorough { 40000 } else { 3000 };
    for ci in 0..n_ticks {
        let id = format!("tick-{ci}");
        if only.is_some_and(|o| o != id && !o.starts_with(&format!("{id}/"))) {
            continue;
        }
        let mut rng = Rng::new(seed ^ hash64(&id));
        let spec = tick_spec(&mut rng);
        let text = spec.render();
        let mut src = match decode(&text) {
            Ok(m) => m,
            Err(e) => {
                run.fail("oracle:decode", "", &id, e, text);
                continue;
            }
        };
        // edge sounds: every third map gets explicit node sounds of length 0..=4 (exercises the
        // `.get(i)` fallback and the `% edge_sound_count` cycle)
        let mut note = String::new();
        if ci % 3 == 0 {
            for h in src.hit_objects.iter_mut() {
                if let HitObjectKind::Slider(sl) = &mut h.kind {
                    let n = rng.below(5) as usize;
                    let v: Vec<_> = (0..n).map(|k| ((k * 2 + 2) as u8 & 14).into()).collect();
                    sl.node_sounds = v.into_boxed_slice();
                    note = format!(" (node_sounds of the sliders set to {n} distinct entries 2,4,6,8 after decoding)");
                }
            }
        }
        run.count(&format!("ticks:version:{}", if spec.version < 8 { "<8" } else { ">=8" }));
        run.eval((!src.hit_objects.is_empty()).then_some(text.as_str()));
        let repro = format!("{text}{note}");
        check_map(&mut run, &id, &src, &repro, &mods, false, &mut rng);
    }
    // the ranked osu!standard resource map (and truncations of it)
    for (i, (mode, text)) in resource_maps().into_iter().enumerate() {
        if mode != 0 {
            continue;
        }
        for (k, n) in [usize::MAX, 50, 7].into_iter().enumerate() {
            let id = format!("conv-res-{i}-{k}");
            if only.is_some_and(|o| o != id && !o.starts_with(&format!("{id}/"))) {
                continue;
            }
            let t = if n == usize::MAX { text.clone() } else { crate::common::truncate_objects(&text, n) };
            if let Ok(mut src) = decode(&t) {
                // tag the objects (x >= 1, unique) the way generated maps are tagged
                for (j, h) in src.hit_objects.iter_mut().enumerate() {
                    h.pos.x = j as f32 + 1.0;
                }
                let mut rng = Rng::new(seed ^ hash64(&id));
                run.count("src:resource-map");
                run.eval(Some(&id));
                check_map(&mut run, &id, &src, &format!("resource map 2785319 truncated to {n} objects, x := index + 1"), &mods, true, &mut rng);
            }
        }
    }
    run
}
