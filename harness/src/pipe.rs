//! C02 / C14 / C16 / C06 — native osu!mania END TO END (`PIPE mania` lines).
//!
//! Request: the raw bytes of an `.osu` file, legacy mod bits, optional custom clock rate, optional
//! `passed_objects`.  Real side: `Beatmap::from_bytes(bytes)` → `Difficulty::…calculate_for_mode::<Mania>`
//! (stars bits, max_combo, n_objects, n_hold_notes, is_convert) and every value of the real
//! `ManiaGradualDifficulty`.  Model side: `Model/PipelineMania.lean` (decode → preparation → concrete
//! `Strain` skill → aggregation → stars; counting model; gradual machine with the concrete skill).
//! Bit-exact.  Direct oracle: gradual value i == one-shot with `passed_objects(i)`, last == full.

use rosu_pp::{
    mania::{Mania, ManiaGradualDifficulty},
    taiko::{Taiko, TaikoGradualDifficulty},
    model::{hit_object::HitObjectKind, mode::GameMode},
    Beatmap, Difficulty,
};

use crate::{
    common::{guarded, resource_maps, LazerTag, ModsSpec, Run},
    rng::Rng,
    svops::hex,
};

fn show_z(f: f64) -> String {
    if f == 0.0 {
        hex(0)
    } else if f.is_nan() {
        "nan".to_owned()
    } else {
        hex(f.to_bits())
    }
}

fn fnv(mut h: u64, s: &str) -> u64 {
    for b in s.bytes() {
        h ^= u64::from(b);
        h = h.wrapping_mul(0x0000_0100_0000_01b3);
    }
    h
}

/// Count, order-sensitive checksum over all items, the items (first and last 24 beyond 48) — the
/// same rendering as `showLong` in Model/SliderEventsWire.lean.
fn show_long(l: &[String]) -> String {
    let mut h: u64 = 0xcbf2_9ce4_8422_2325;
    for s in l {
        h = fnv(fnv(h, s), ";");
    }
    let n = l.len();
    let shown: Vec<&str> = if n <= 48 {
        l.iter().map(String::as_str).collect()
    } else {
        l[..24].iter().map(String::as_str).chain(std::iter::once("...")).chain(l[n - 24..].iter().map(String::as_str)).collect()
    };
    format!("{n}#{h}#{}", if shown.is_empty() { "-".to_owned() } else { shown.join(";") })
}

fn build(mods: u32, rate: Option<f64>, take: Option<u32>) -> Difficulty {
    let mut d = Difficulty::new().mods(mods);
    if let Some(r) = rate {
        d = d.clock_rate(r);
    }
    if let Some(t) = take {
        d = d.passed_objects(t);
    }
    d
}

fn check(run: &mut Run, id: &str, bytes: &[u8], mods: u32, rate: Option<f64>, take: Option<u32>) {
    let hexb: String = if bytes.is_empty() { "-".to_owned() } else { bytes.iter().map(|b| format!("{b:02x}")).collect() };
    let req = format!(
        "PIPE mania {hexb} {mods} {} {}",
        rate.map_or("-".to_owned(), |r| hex(r.to_bits())),
        take.map_or("-".to_owned(), |t| t.to_string())
    );
    let repro = format!("mods={mods} rate={rate:?} take={take:?} bytes=<<{}>>", String::from_utf8_lossy(bytes));
    run.repro.insert(id.to_owned(), repro.clone());
    let map = match guarded(|| Beatmap::from_bytes(bytes)) {
        Ok(Ok(m)) => m,
        Ok(Err(_)) => {
            run.count("pipe:stage:io-error");
            run.line(id, req, "IOERR".to_owned());
            return;
        }
        Err(e) => {
            run.fail("oracle:pipe-decode-panic", "", id, e, repro);
            return;
        }
    };
    run.count("pipe:stage:decoded");
    if map.mode != GameMode::Mania {
        run.count("pipe:stage:not-mania");
        run.line(id, req, format!("NOTMANIA {}", map.mode as u8));
        return;
    }
    if map.hit_objects.iter().any(|h| matches!(h.kind, HitObjectKind::Slider(_))) {
        run.count("pipe:stage:unsupported-slider-line");
        run.line(id, req, "UNSUPPORTED".to_owned());
        return;
    }
    run.count("pipe:stage:prepared");
    let n = map.hit_objects.len();
    run.count(match n {
        0 => "pipe:objects:0",
        1 => "pipe:objects:1",
        2..=10 => "pipe:objects:2-10",
        11..=100 => "pipe:objects:11-100",
        _ => "pipe:objects:100+",
    });
    if map.hit_objects.iter().any(|h| matches!(h.kind, HitObjectKind::Spinner(_))) {
        run.count("pipe:has-spinner-line");
    }
    if map.hit_objects.iter().any(|h| matches!(h.kind, HitObjectKind::Hold(_))) {
        run.count("pipe:has-hold");
    }
    run.count(&format!("pipe:keys:{}", map.cs.round_ties_even().max(1.0) as u32));
    let d = build(mods, rate, take);
    let attrs = match guarded(|| d.calculate_for_mode::<Mania>(&map)) {
        Ok(Ok(a)) => a,
        other => {
            run.fail("oracle:pipe-calculate-failed", "", id, format!("{other:?}"), repro);
            return;
        }
    };
    run.count("pipe:stage:stars");
    let mut resp = format!("S{} C{} N{} H{} V{}", show_z(attrs.stars), attrs.max_combo, attrs.n_objects, attrs.n_hold_notes, u8::from(attrs.is_convert));
    if !attrs.stars.is_finite() || attrs.stars < 0.0 {
        run.fail("oracle:pipe-stars-not-finite-nonnegative", "", id, format!("{}", attrs.stars), repro.clone());
    }
    if attrs.n_objects as usize != n.min(take.map_or(usize::MAX, |t| t as usize)) {
        run.fail("oracle:pipe-n-objects", "", id, format!("n_objects {} for {n} objects, take {take:?}", attrs.n_objects), repro.clone());
    }
    if take.is_none() {
        let grad: Vec<_> = match guarded(|| ManiaGradualDifficulty::new(build(mods, rate, None), &map).map(|g| g.collect::<Vec<_>>())) {
            Ok(Ok(v)) => v,
            other => {
                run.fail("oracle:pipe-gradual-failed", "", id, format!("{:?}", other.map(|r| r.map(|v| v.len()))), repro);
                return;
            }
        };
        run.count("pipe:stage:gradual");
        let steps: Vec<String> = grad.iter().map(|a| format!("{}:{}:{}:{}", show_z(a.stars), a.max_combo, a.n_objects, a.n_hold_notes)).collect();
        resp.push_str(&format!(" G{}", show_long(&steps)));
        // C02 directly on the implementation
        if grad.len() != n {
            run.fail("oracle:pipe-gradual-count", "", id, format!("{} values for {n} objects", grad.len()), repro.clone());
        }
        if let Some(last) = grad.last() {
            if *last != attrs {
                run.fail("oracle:pipe-gradual-last-vs-full", "", id, format!("{last:?} vs {attrs:?}"), repro.clone());
            }
        }
        let idxs: Vec<usize> = if n <= 24 { (0..grad.len()).collect() } else { vec![0, 1, n / 3, n / 2, n - 2, n - 1] };
        for i in idxs {
            if i < grad.len() {
                if let Ok(Ok(a)) = guarded(|| build(mods, rate, Some(i as u32 + 1)).calculate_for_mode::<Mania>(&map)) {
                    if a != grad[i] {
                        run.fail("oracle:pipe-gradual-vs-oneshot", "", id, format!("value {} differs from passed_objects({})", i + 1, i + 1), repro.clone());
                    }
                    run.count("pipe:gradual-vs-oneshot-compared");
                }
            }
        }
    }
    run.line(id, req, resp);
}

fn build_x(ho: bool, inv: bool, rate: Option<f64>, take: Option<u32>) -> Difficulty {
    let mut tags = Vec::new();
    if ho {
        tags.push(LazerTag::HoldOff);
    }
    if inv {
        tags.push(LazerTag::Invert);
    }
    let mut d = Difficulty::new().mods(ModsSpec::Lazer(tags).build(3));
    if let Some(r) = rate {
        d = d.clock_rate(r);
    }
    if let Some(t) = take {
        d = d.passed_objects(t);
    }
    d
}

/// A native mania file under HoldOff / Invert: `PIPE maniax` line.
fn check_maniax(run: &mut Run, id: &str, bytes: &[u8], ho: bool, inv: bool, rate: Option<f64>, take: Option<u32>) {
    let hexb: String = if bytes.is_empty() { "-".to_owned() } else { bytes.iter().map(|b| format!("{b:02x}")).collect() };
    let req = format!(
        "PIPE maniax {hexb} {}{} {} {}",
        u8::from(ho),
        u8::from(inv),
        rate.map_or("-".to_owned(), |r| hex(r.to_bits())),
        take.map_or("-".to_owned(), |t| t.to_string())
    );
    let repro = format!("maniax ho={ho} invert={inv} rate={rate:?} take={take:?} bytes=<<{}>>", String::from_utf8_lossy(bytes));
    run.repro.insert(id.to_owned(), repro.clone());
    let map = match guarded(|| Beatmap::from_bytes(bytes)) {
        Ok(Ok(m)) => m,
        Ok(Err(_)) => {
            run.line(id, req, "IOERR".to_owned());
            return;
        }
        Err(e) => {
            run.fail("oracle:pipe-decode-panic", "", id, e, repro);
            return;
        }
    };
    if map.mode != GameMode::Mania {
        run.line(id, req, format!("NOTMANIA {}", map.mode as u8));
        return;
    }
    if map.hit_objects.iter().any(|h| !h.is_circle() && !h.is_hold_note()) {
        run.count("pipex:stage:unsupported-spinner-or-slider-line");
        run.line(id, req, "UNSUPPORTED".to_owned());
        return;
    }
    let attrs = match guarded(|| build_x(ho, inv, rate, take).calculate_for_mode::<Mania>(&map)) {
        Ok(Ok(a)) => a,
        other => {
            run.fail("oracle:pipe-calculate-failed", "", id, format!("{other:?}"), repro);
            return;
        }
    };
    run.count(&format!("pipex:stage:stars:ho{}in{}", u8::from(ho), u8::from(inv)));
    let mut resp = format!("S{} C{} N{} H{} V{}", show_z(attrs.stars), attrs.max_combo, attrs.n_objects, attrs.n_hold_notes, u8::from(attrs.is_convert));
    if ho && attrs.n_hold_notes != 0 && !inv {
        run.fail("oracle:pipe-holdoff-leaves-hold-notes", "", id, format!("{attrs:?}"), repro.clone());
    }
    if take.is_none() {
        if let Ok(Ok(grad)) = guarded(|| ManiaGradualDifficulty::new(build_x(ho, inv, rate, None), &map).map(|g| g.collect::<Vec<_>>())) {
            let steps: Vec<String> = grad.iter().map(|a| format!("{}:{}:{}:{}", show_z(a.stars), a.max_combo, a.n_objects, a.n_hold_notes)).collect();
            resp.push_str(&format!(" G{}", show_long(&steps)));
            if let Some(last) = grad.last() {
                if *last != attrs {
                    run.fail("oracle:pipe-gradual-last-vs-full", "", id, format!("{last:?} vs {attrs:?}"), repro.clone());
                }
            }
            run.count("pipex:stage:gradual");
        }
    }
    run.line(id, req, resp);
}

/// One native-taiko case: `PIPE taiko` line.
fn check_taiko(run: &mut Run, id: &str, bytes: &[u8], mods: u32, rate: Option<f64>, take: Option<u32>) {
    let hexb: String = if bytes.is_empty() { "-".to_owned() } else { bytes.iter().map(|b| format!("{b:02x}")).collect() };
    let repro = format!("taiko mods={mods} rate={rate:?} take={take:?} bytes=<<{}>>", String::from_utf8_lossy(bytes));
    run.repro.insert(id.to_owned(), repro.clone());
    let head = format!(
        "PIPE taiko {hexb} {mods} {} {}",
        rate.map_or("-".to_owned(), |r| hex(r.to_bits())),
        take.map_or("-".to_owned(), |t| t.to_string())
    );
    let sum0 = hex(crate::svops::sum_identity().to_bits());
    let map = match guarded(|| Beatmap::from_bytes(bytes)) {
        Ok(Ok(m)) => m,
        Ok(Err(_)) => {
            run.count("tpipe:stage:io-error");
            run.line(id, format!("{head} {sum0} {}", hex(0)), "IOERR".to_owned());
            return;
        }
        Err(e) => {
            run.fail("oracle:pipe-decode-panic", "", id, e, repro);
            return;
        }
    };
    run.count("tpipe:stage:decoded");
    if map.mode != GameMode::Taiko {
        run.count("tpipe:stage:not-taiko");
        run.line(id, format!("{head} {sum0} {}", hex(0)), format!("NOTTAIKO {}", map.mode as u8));
        return;
    }
    let d = build(mods, rate, take);
    let attrs = match guarded(|| d.calculate_for_mode::<Taiko>(&map)) {
        Ok(Ok(a)) => a,
        other => {
            run.fail("oracle:pipe-calculate-failed", "", id, format!("{other:?}"), repro);
            return;
        }
    };
    run.count("tpipe:stage:stars");
    let n = map.hit_objects.len();
    run.count(match n {
        0..=2 => "tpipe:objects:0-2",
        3..=10 => "tpipe:objects:3-10",
        11..=100 => "tpipe:objects:11-100",
        _ => "tpipe:objects:100+",
    });
    if map.hit_objects.iter().any(|h| !h.is_circle()) {
        run.count("tpipe:has-drumroll-or-swell");
    }
    if map.effect_points.len() > 1 || map.timing_points.len() > 1 {
        run.count("tpipe:several-control-points");
    }
    for (what, v) in [("stars", attrs.stars), ("stamina", attrs.stamina), ("rhythm", attrs.rhythm), ("color", attrs.color), ("reading", attrs.reading), ("mono_stamina_factor", attrs.mono_stamina_factor)] {
        if !v.is_finite() || v < 0.0 {
            run.fail("oracle:pipe-taiko-attr-not-finite-nonnegative", "", id, format!("{what} = {v}"), repro.clone());
        }
    }
    let hits = map.hit_objects.iter().filter(|h| h.is_circle()).count();
    let want_combo = hits.min(take.map_or(usize::MAX, |t| t as usize));
    if attrs.max_combo as usize != want_combo {
        run.fail("oracle:pipe-taiko-max-combo", "", id, format!("max_combo {} for {hits} hits, take {take:?}", attrs.max_combo), repro.clone());
    }
    // gradual values: every native taiko file (since the repair /repo ea9de37 the gradual calculator
    // agrees with the one-shot path for every object list; since the fix of the trailing drum rolls /
    // swells the last value is the full calculation whatever the last object is)
    let regular = take.is_none();
    let last_is_hit = n > 0 && map.hit_objects[n - 1].is_circle();
    let mut gtail = String::new();
    let mut gflag = "";
    if regular {
        if let Ok(Ok(vals)) = guarded(|| TaikoGradualDifficulty::new(build(mods, rate, None), &map).map(|g| g.collect::<Vec<_>>())) {
            run.count("tpipe:stage:gradual");
            let steps: Vec<String> = vals.iter().map(|a| format!("{}:{}", show_z(a.stars), a.max_combo)).collect();
            let hits = map.hit_objects.iter().filter(|h| h.is_circle()).count();
            if vals.len() != hits {
                run.fail("oracle:pipe-taiko-gradual-count", "", id, format!("{} values for {hits} hits", vals.len()), repro.clone());
            }
            if n < 3 || !map.hit_objects[0].is_circle() || !map.hit_objects[1].is_circle() {
                run.count("tpipe:gradual:formerly-excluded-class");
            }
            gtail = format!(" G{}", crate::common::show_long(&steps));
            gflag = " G";
            if !last_is_hit {
                run.count("tpipe:gradual:last-object-not-a-hit");
            }
            if let Some(last) = vals.last() {
                if *last != attrs {
                    run.fail("oracle:pipe-taiko-gradual-last-vs-full", "", id, format!("{last:?} vs {attrs:?}"), repro.clone());
                }
            }
        }
    }
    run.line(
        id,
        format!("{head} {sum0} {}{gflag}", hex(attrs.great_hit_window.to_bits())),
        format!(
            "R{} D{} C{} T{} M{} S{} X{} V{}{gtail}",
            show_z(attrs.rhythm),
            show_z(attrs.reading),
            show_z(attrs.color),
            show_z(attrs.stamina),
            show_z(attrs.mono_stamina_factor),
            show_z(attrs.stars),
            attrs.max_combo,
            u8::from(attrs.is_convert)
        ),
    );
}

/// A native taiko file as text: dons / kats / finishers, drum rolls (slider lines), swells (spinner
/// lines), uninherited and inherited timing points (scroll speed), header / EOL variants, junk lines.
pub fn taiko_file(rng: &mut Rng, n: usize) -> Vec<u8> {
    let version = *rng.pick(&[14, 14, 14, 128, 10, 7, 5]);
    let eol = if rng.chance(1, 4) { "\r\n" } else { "\n" };
    let mut s = String::new();
    if rng.chance(1, 12) {
        s.push('\u{feff}');
    }
    if !rng.chance(1, 15) {
        s.push_str(&format!("osu file format v{version}{eol}{eol}"));
    }
    s.push_str(&format!("[General]{eol}Mode: 1{eol}{eol}"));
    s.push_str(&format!(
        "[Difficulty]{eol}HPDrainRate:5{eol}CircleSize:5{eol}OverallDifficulty:{}{eol}ApproachRate:5{eol}SliderMultiplier:{}{eol}SliderTickRate:1{eol}{eol}",
        *rng.pick(&["0", "3", "5", "6.5", "8", "10"]),
        *rng.pick(&["1.4", "1", "2", "3.6", "0.4", "1.47"])
    ));
    let beat = *rng.pick(&[250.0, 300.0, 333.33, 400.0, 500.0, 600.0]);
    s.push_str(&format!("[TimingPoints]{eol}{},{beat},4,1,0,100,1,0{eol}", *rng.pick(&[0, 0, 0, -500, 1200])));
    for k in 0..rng.below(4) {
        let t = 800 + 1700 * k as i64 + rng.range(0, 600);
        if rng.chance(1, 3) {
            s.push_str(&format!("{t},{},4,1,0,100,1,{}{eol}", *rng.pick(&[200.0, 375.0, 750.0, 461.5]), rng.below(2)));
        } else {
            s.push_str(&format!("{t},{},4,1,0,100,0,{}{eol}", *rng.pick(&[-25.0, -50.0, -66.67, -100.0, -133.33, -200.0, -400.0]), rng.below(2)));
        }
    }
    s.push_str(&format!("{eol}[HitObjects]{eol}"));
    let mut t = rng.range(-300, 1500) as f64;
    let mut rim = rng.chance(1, 2);
    let mut run_left = 0;
    let mut div = *rng.pick(&[1.0, 2.0, 4.0, 8.0]);
    let mut lines: Vec<String> = Vec::new();
    for _ in 0..n {
        if run_left == 0 {
            rim = !rim;
            run_left = *rng.pick(&[1, 1, 2, 2, 3, 4, 7, 12]);
            if rng.chance(1, 3) {
                div = *rng.pick(&[1.0, 2.0, 3.0, 4.0, 6.0, 8.0]);
            }
        }
        run_left -= 1;
        let sound = if rim { *rng.pick(&[2, 8, 10, 12]) } else { *rng.pick(&[0, 4, 1]) };
        let r = rng.below(24);
        lines.push(if r < 21 {
            format!("256,192,{t},1,{sound},0:0:0:0:")
        } else if r < 23 {
            format!("256,192,{t},2,{sound},L|{}:192,{},{}", rng.range(260, 500), rng.range(1, 3), *rng.pick(&[70, 140, 280]))
        } else {
            format!("256,192,{t},12,0,{}", t + *rng.pick(&[50.0, 400.0, 2000.0]))
        });
        if rng.chance(1, 16) {
            lines.push((*rng.pick(&["", "// c", "junk", "256,192,x,1,0", "256,192,100,64,0"])).to_owned());
        }
        t += match rng.below(40) {
            0 => 0.0,
            1 => *rng.pick(&[1.0, 2.0, 5.0]),
            2 => *rng.pick(&[3000.0, 20000.0]),
            _ => beat / div,
        };
    }
    if rng.chance(1, 6) && lines.len() > 2 {
        let i = rng.below(lines.len() as u64) as usize;
        let j = rng.below(lines.len() as u64) as usize;
        lines.swap(i, j);
    }
    for l in lines {
        s.push_str(&l);
        s.push_str(eol);
    }
    s.into_bytes()
}

/// A native mania file as text: header / line-ending / BOM variants, section order, malformed lines.
pub fn mania_file(rng: &mut Rng, n: usize) -> Vec<u8> {
    let version = *rng.pick(&[14, 14, 14, 128, 12, 9, 7, 5, 3]);
    let eol = if rng.chance(1, 4) { "\r\n" } else { "\n" };
    let cs = *rng.pick(&["1", "2", "3", "4", "4.5", "5", "5.5", "6", "7", "7.5", "8", "9", "10", "0", "0.4", "2.5", "18", "25", "-3", "abc"]);
    let keys: f32 = cs.parse::<f32>().map_or(5.0, |c: f32| c.clamp(1.0, 18.0).round_ties_even().max(1.0));
    let mut s = String::new();
    if rng.chance(1, 12) {
        s.push('\u{feff}');
    }
    if !rng.chance(1, 15) {
        s.push_str(&format!("osu file format v{version}{eol}{eol}"));
    }
    s.push_str(&format!("[General]{eol}Mode: 3{eol}StackLeniency: 0.7{eol}{eol}"));
    if rng.chance(1, 6) {
        s.push_str(&format!("[Metadata]{eol}Title:x{eol}Tags:a b [HitObjects] c{eol}{eol}"));
    }
    s.push_str(&format!("[Difficulty]{eol}HPDrainRate:7{eol}CircleSize:{cs}{eol}OverallDifficulty:{}{eol}ApproachRate:5{eol}SliderMultiplier:1.4{eol}SliderTickRate:1{eol}{eol}", rng.range(0, 10)));
    s.push_str(&format!("[TimingPoints]{eol}0,500,4,2,0,100,1,0{eol}{eol}[HitObjects]{eol}"));
    let mut t = rng.range(-300, 1500) as f64;
    let dense = rng.chance(1, 3);
    let foreign = rng.chance(1, 10);
    let mut lines: Vec<String> = Vec::new();
    for _ in 0..n {
        let col = rng.below(keys as u64) as f32;
        let x: i64 = match rng.below(10) {
            0 => rng.range(-50, 600),                                   // off-grid, also outside the playfield
            1 => ((col + 1.0) * 512.0 / keys) as i64,                   // exactly on a column boundary
            _ => ((col + 0.5) * 512.0 / keys) as i64,
        };
        let r = rng.below(20);
        let line = if r < 11 {
            format!("{x},192,{t},1,0,0:0:0:0:")
        } else if r < 18 {
            let end = t + *rng.pick(&[-50.0, 0.0, 1.0, 99.0, 100.0, 101.0, 250.0, 1000.0, 12345.5, 1e7]);
            format!("{x},192,{t},128,0,{end}:0:0:0:0:")
        } else if r == 18 && foreign {
            format!("{x},192,{t},12,0,{}", t + *rng.pick(&[0.0, 150.0, 3000.0]))
        } else if foreign && rng.chance(1, 3) {
            format!("{x},192,{t},2,0,L|300:192,1,140")
        } else {
            format!("{x},192,{t},1,0")
        };
        lines.push(line);
        if rng.chance(1, 14) {
            lines.push((*rng.pick(&["", "// comment", "garbage", "1,2", "256,192,abc,1,0", "256,192,1e400,1,0", "256,192,100,64,0", "99999999,192,100,1,0", "256,192,NaN,1,0"])).to_owned());
        }
        let step = match rng.below(10) {
            0 | 1 | 2 => 0.0,
            3 => *rng.pick(&[0.5, 1.0, 1.5]),
            _ if dense => *rng.pick(&[30.0, 60.0, 125.0]),
            _ => *rng.pick(&[125.0, 250.0, 500.0, 1000.0, 7000.0]),
        };
        t += step;
    }
    if rng.chance(1, 5) && lines.len() > 2 {
        // unsorted lines: the decoder sorts
        let i = rng.below(lines.len() as u64) as usize;
        let j = rng.below(lines.len() as u64) as usize;
        lines.swap(i, j);
    }
    for l in lines {
        s.push_str(&l);
        s.push_str(eol);
    }
    if rng.chance(1, 8) {
        s.push_str(&format!("{eol}[Colours]{eol}Combo1 : 1,2,3{eol}"));
    }
    let mut bytes = s.into_bytes();
    match rng.below(30) {
        0 => {
            // UTF-16LE with BOM
            let text = String::from_utf8_lossy(&bytes).into_owned();
            bytes = vec![0xFF, 0xFE];
            for u in text.encode_utf16() {
                bytes.extend_from_slice(&u.to_le_bytes());
            }
        }
        1 if !bytes.is_empty() => {
            let k = rng.below(bytes.len() as u64) as usize;
            bytes[k] = *rng.pick(&[0xFF, 0xC0, 0x80, 0x0A, 0x00]);
        }
        _ => {}
    }
    bytes
}

pub fn run(run: &mut Run, tier: &str, seed: u64, only: Option<&str>) {
    let thorough = tier == "thorough";
    let mut rng = Rng::new(seed ^ 0x919E);
    let mut cases: Vec<(String, Vec<u8>)> = Vec::new();
    // tiny files
    for (i, b) in [&b""[..], b"a", b"ab", b"\xFF\xFE\x0A", b"osu file format v14\n[General]\nMode: 3\n", b"[General]\nMode:3\n[HitObjects]\n256,192,0,1,0\n", b"[General]\nMode: 2\n[HitObjects]\n256,192,0,1,0\n"].iter().enumerate() {
        cases.push((format!("pipe-tiny-{i}"), b.to_vec()));
    }
    let n_gen = if thorough { 3000 } else { 260 };
    for i in 0..n_gen {
        let n = *rng.pick(&[0usize, 1, 2, 3, 5, 9, 20, 45]);
        cases.push((format!("pipe-gen-{i}"), mania_file(&mut rng, n)));
    }
    for (mode, text) in resource_maps() {
        if mode != 3 {
            continue;
        }
        for k in if thorough { vec![10usize, 80, 400, usize::MAX] } else { vec![30usize, 250] } {
            let t = if k == usize::MAX { text.clone() } else { crate::common::truncate_objects(&text, k) };
            cases.push((format!("pipe-res-first{k}"), t.into_bytes()));
        }
    }
    // --- native taiko
    let mut tcases: Vec<(String, Vec<u8>)> = Vec::new();
    for (i, b) in [&b""[..], b"ab", b"[General]\nMode: 1\n", b"[General]\nMode:1\n[HitObjects]\n256,192,0,1,0\n256,192,200,1,8\n256,192,400,1,0\n256,192,600,1,2\n"].iter().enumerate() {
        tcases.push((format!("tpipe-tiny-{i}"), b.to_vec()));
    }
    let n_tgen = if thorough { 2500 } else { 220 };
    for i in 0..n_tgen {
        let n = *rng.pick(&[0usize, 1, 2, 3, 4, 6, 12, 30, 70]);
        tcases.push((format!("tpipe-gen-{i}"), taiko_file(&mut rng, n)));
    }
    for (mode, text) in resource_maps() {
        if mode != 1 {
            continue;
        }
        for k in if thorough { vec![10usize, 80, 400, usize::MAX] } else { vec![40usize, 300] } {
            let t = if k == usize::MAX { text.clone() } else { crate::common::truncate_objects(&text, k) };
            tcases.push((format!("tpipe-res-first{k}"), t.into_bytes()));
        }
    }
    for (id, bytes) in tcases {
        if only.is_some_and(|o| o != id && !o.starts_with(&format!("{id}#"))) {
            continue;
        }
        run.eval(Some(&format!("tpipe|{}", hex(crate::common::hash64(&String::from_utf8_lossy(&bytes))))));
        let n_lines = bytes.iter().filter(|b| **b == b'\n').count() as u32;
        let (mods, rate): (u32, Option<f64>) = match rng.below(6) {
            0 | 1 => (0, None),
            2 => (*rng.pick(&[16u32, 2, 64, 256, 16 + 64, 2 + 256, 128, 8]), None),
            3 => (0, Some(*rng.pick(&[0.5, 0.75, 1.25, 1.5, 2.0, 1.1]))),
            4 => (*rng.pick(&[16u32, 2]), Some(*rng.pick(&[0.9, 1.33]))),
            _ => (64, None),
        };
        check_taiko(run, &format!("{id}#s"), &bytes, mods, rate, None);
        let mut takes: Vec<u32> = vec![0, 1, 2, 3, n_lines / 3, n_lines.saturating_sub(9), n_lines + 2];
        if std::env::var("SKILL_DEBUG_TAKES").is_ok() { takes.extend(4..=30); }
        takes.dedup();
        if bytes.len() > 20000 {
            takes.truncate(3);
        }
        for t in takes {
            check_taiko(run, &format!("{id}#s#p{t}"), &bytes, mods, rate, Some(t));
        }
    }
    for (id, bytes) in cases {
        if only.is_some_and(|o| o != id && !o.starts_with(&format!("{id}#"))) {
            continue;
        }
        run.eval(Some(&format!("pipe|{}", hex(crate::common::hash64(&String::from_utf8_lossy(&bytes))))));
        let n_lines = bytes.iter().filter(|b| **b == b'\n').count();
        let settings: Vec<(u32, Option<f64>)> = match rng.below(4) {
            0 => vec![(0, None)],
            1 => vec![(0, None), (*rng.pick(&[64u32, 256, 576, 64 + 2, 16, 2, 1 << 30, 32768 + 64]), None)],
            2 => vec![(0, Some(*rng.pick(&[0.5, 0.75, 1.1, 1.3, 1.5, 2.0, 0.001, 250.0])))],
            _ => vec![(*rng.pick(&[0u32, 64, 256]), Some(*rng.pick(&[0.9, 1.25, 1.7777])))],
        };
        // HoldOff / Invert (lazer mods) on the same bytes
        {
            let (ho, inv) = *rng.pick(&[(true, false), (false, true), (true, true)]);
            let rate = *rng.pick(&[None, None, Some(1.5), Some(0.8)]);
            check_maniax(run, &format!("{id}#x"), &bytes, ho, inv, rate, None);
            let n = n_lines as u32;
            for t in [0u32, 1, 2, n / 2, n + 3] {
                check_maniax(run, &format!("{id}#x#p{t}"), &bytes, ho, inv, rate, Some(t));
            }
        }
        for (si, (mods, rate)) in settings.into_iter().enumerate() {
            check(run, &format!("{id}#s{si}"), &bytes, mods, rate, None);
            let mut takes: Vec<u32> = vec![0, 1, 2, 3];
            let n = n_lines as u32;
            takes.extend([n / 3, n.saturating_sub(8), n + 2]);
            takes.dedup();
            if bytes.len() > 20000 {
                takes.truncate(3);
            }
            for t in takes {
                check(run, &format!("{id}#s{si}#p{t}"), &bytes, mods, rate, Some(t));
            }
        }
    }
}
