//! C20 — concurrent use is interference-free.
//!
//! The same job list (requests of the C01 pool) is run sequentially and then on 2..16 OS threads
//! (random assignment; maps shared by reference or cloned per call); every result must equal the
//! sequential one exactly.  Compile-time `Send + Sync` assertions are part of this file.  When the
//! harness is built with the `sync` feature, gradual calculators are additionally handed from
//! thread to thread after every step and must yield the single-thread sequence.

use std::{sync::Barrier, thread};

use rosu_pp::{
    any::{DifficultyAttributes, PerformanceAttributes, ScoreState, Strains},
    model::beatmap::BeatmapAttributes,
    Beatmap, Difficulty, GameMods, Performance,
};

use crate::{
    common::Run,
    hist::{self, Ctx, Pool},
    rng::Rng,
};

#[allow(dead_code)]
fn assert_send_sync<T: Send + Sync>() {}
#[allow(dead_code)]
fn assert_send<T: Send>() {}

/// Fails to compile if one of the value types stops being `Send + Sync`.
#[allow(dead_code)]
fn static_assertions() {
    assert_send_sync::<Beatmap>();
    assert_send_sync::<Difficulty>();
    assert_send_sync::<GameMods>();
    assert_send_sync::<ScoreState>();
    assert_send_sync::<DifficultyAttributes>();
    assert_send_sync::<PerformanceAttributes>();
    assert_send_sync::<Strains>();
    assert_send_sync::<BeatmapAttributes>();
    assert_send_sync::<rosu_pp::osu::OsuDifficultyAttributes>();
    assert_send_sync::<rosu_pp::taiko::TaikoDifficultyAttributes>();
    assert_send_sync::<rosu_pp::catch::CatchDifficultyAttributes>();
    assert_send_sync::<rosu_pp::mania::ManiaDifficultyAttributes>();
    assert_send_sync::<rosu_pp::osu::OsuPerformanceAttributes>();
    assert_send_sync::<rosu_pp::taiko::TaikoPerformanceAttributes>();
    assert_send_sync::<rosu_pp::catch::CatchPerformanceAttributes>();
    assert_send_sync::<rosu_pp::mania::ManiaPerformanceAttributes>();
    assert_send_sync::<Performance<'static>>();
    // gradual calculators of the modes without a shared object graph
    assert_send::<rosu_pp::osu::OsuGradualDifficulty>();
    assert_send::<rosu_pp::catch::CatchGradualDifficulty>();
    assert_send::<rosu_pp::mania::ManiaGradualDifficulty>();
    #[cfg(feature = "sync")]
    {
        assert_send::<rosu_pp::taiko::TaikoGradualDifficulty>();
        assert_send::<rosu_pp::GradualDifficulty>();
        assert_send::<rosu_pp::GradualPerformance>();
    }
}

fn run_parallel(pool: &Pool, jobs: &[(usize, u8)], assignment: &[usize], n_threads: usize) -> Vec<Option<(String, Result<(), String>)>> {
    let barrier = Barrier::new(n_threads);
    let mut results: Vec<Option<(String, Result<(), String>)>> = vec![None; jobs.len()];
    let per_thread: Vec<Vec<(usize, (String, Result<(), String>))>> = thread::scope(|s| {
        let handles: Vec<_> = (0..n_threads)
            .map(|t| {
                let barrier = &barrier;
                s.spawn(move || {
                    let mut ctx = Ctx::default();
                    barrier.wait();
                    let mut out = Vec::new();
                    for (j, (ri, var)) in jobs.iter().enumerate() {
                        if assignment[j] == t {
                            out.push((j, hist::exec(pool, *ri, *var, &mut ctx)));
                        }
                    }
                    out
                })
            })
            .collect();
        handles.into_iter().map(|h| h.join().unwrap_or_default()).collect()
    });
    for part in per_thread {
        for (j, r) in part {
            results[j] = Some(r);
        }
    }
    results
}

#[cfg(feature = "sync")]
mod handover {
    use std::{sync::mpsc, thread};

    use rosu_pp::{any::ScoreState, GradualDifficulty, GradualPerformance};

    use crate::{
        common::{mode_of, Run},
        hist::Pool,
    };

    enum Calc {
        Diff(GradualDifficulty),
        Perf(GradualPerformance),
    }

    fn state(i: usize) -> ScoreState {
        let mut s = ScoreState::new();
        s.max_combo = i as u32 + 1;
        s.n300 = i as u32 + 1;
        s
    }

    fn step(c: &mut Calc, i: usize) -> Option<String> {
        match c {
            Calc::Diff(g) => g.next().map(|a| format!("{a:?}")),
            Calc::Perf(g) => g.next(state(i)).map(|a| format!("{a:?}")),
        }
    }

    fn make(pool: &Pool, ri: usize, perf: bool) -> Option<Calc> {
        let req = &pool.reqs[ri];
        let map = &pool.maps[req.map].map;
        let d = req.settings.build(req.mode);
        if perf {
            GradualPerformance::new_with_mode(d, map, mode_of(req.mode)).ok().map(Calc::Perf)
        } else {
            GradualDifficulty::new_with_mode(d, map, mode_of(req.mode)).ok().map(Calc::Diff)
        }
    }

    /// The calculator travels round a ring of `n_threads` threads, one step per visit.
    fn ring(calc: Calc, n_threads: usize, cap: usize) -> Vec<String> {
        let (done_tx, done_rx) = mpsc::channel::<Vec<String>>();
        let mut senders = Vec::new();
        let mut receivers = Vec::new();
        for _ in 0..n_threads {
            let (tx, rx) = mpsc::channel::<(Calc, Vec<String>)>();
            senders.push(tx);
            receivers.push(rx);
        }
        thread::scope(|s| {
            for (t, rx) in receivers.into_iter().enumerate() {
                let next = senders[(t + 1) % n_threads].clone();
                let done = done_tx.clone();
                s.spawn(move || {
                    while let Ok((mut c, mut seq)) = rx.recv() {
                        let i = seq.len();
                        let v = if i < cap { step(&mut c, i) } else { None };
                        match v {
                            Some(v) => {
                                seq.push(v);
                                if next.send((c, seq)).is_err() {
                                    break;
                                }
                            }
                            None => {
                                let _ = done.send(seq);
                                break;
                            }
                        }
                    }
                });
            }
            let first = senders[0].clone();
            let _ = first.send((calc, Vec::new()));
            let seq = done_rx.recv().unwrap_or_default();
            // closing every sender ends the ring threads
            drop(first);
            senders.clear();
            seq
        })
    }

    pub fn run(run: &mut Run, pool: &Pool, seed: u64, thorough: bool) {
        let mut rng = crate::rng::Rng::new(seed ^ 0x5EC);
        let n = if thorough { 1500 } else { 200 };
        let cap = if thorough { 400 } else { 120 };
        for k in 0..n {
            let ri = rng.below(pool.reqs.len() as u64) as usize;
            let perf = rng.chance(1, 3);
            let n_threads = *rng.pick(&[2usize, 3, 4, 8]);
            let id = format!("handover-{k}");
            let (Some(a), Some(mut b)) = (make(pool, ri, perf), make(pool, ri, perf)) else {
                run.count("handover:not-convertible");
                continue;
            };
            let mut single = Vec::new();
            while single.len() < cap {
                match step(&mut b, single.len()) {
                    Some(v) => single.push(v),
                    None => break,
                }
            }
            let handed = ring(a, n_threads, cap);
            run.count(&format!("handover:threads:{n_threads}"));
            run.count(if perf { "handover:gradual-performance" } else { "handover:gradual-difficulty" });
            run.count(&format!("handover:mode:{}", crate::common::mode_name(pool.reqs[ri].mode)));
            run.count_n("handover:steps", single.len() as u64);
            run.eval((single.len() >= 2).then_some(&format!("handover{ri}{perf}{n_threads}")));
            if handed != single {
                let pos = handed.iter().zip(&single).position(|(x, y)| x != y).unwrap_or(handed.len().min(single.len()));
                run.fail(
                    "oracle:handover-sequence-differs",
                    "",
                    &id,
                    format!(
                        "{} threads, {} vs {} values, first difference at step {pos}: {:?} vs {:?}",
                        n_threads,
                        handed.len(),
                        single.len(),
                        handed.get(pos),
                        single.get(pos)
                    ),
                    crate::hist::repro(pool, ri),
                );
            }
        }
    }
}

pub fn run(tier: &str, seed: u64, only: Option<&str>) -> Run {
    let mut run = Run::default();
    let thorough = tier == "thorough";
    let pool = hist::build_pool(seed, thorough);
    hist::note_pool(&mut run, &pool);
    run.count(if cfg!(feature = "sync") { "build:sync-feature" } else { "build:default-features" });
    let rounds = if thorough { 60 } else { 12 };
    let n_jobs = if thorough { 1500 } else { 600 };
    let cores = thread::available_parallelism().map_or(4, |n| n.get());
    run.count_n("cores", cores as u64);
    for round in 0..rounds {
        let id = format!("round-{round}");
        if only.is_some_and(|o| o != id) {
            continue;
        }
        // per-round generator: a replay of one round sees the same job list
        let mut rng = Rng::new(seed ^ 0xC20 ^ ((round as u64 + 1) << 20));
        // job list with repetitions (the same request often runs on several threads at once)
        let hot: Vec<usize> = (0..8).map(|_| rng.below(pool.reqs.len() as u64) as usize).collect();
        let jobs: Vec<(usize, u8)> = (0..n_jobs)
            .map(|_| {
                let ri = if rng.chance(1, 3) { *rng.pick(&hot) } else { rng.below(pool.reqs.len() as u64) as usize };
                (ri, rng.below(8) as u8)
            })
            .collect();
        let mut ctx = Ctx::default();
        let sequential: Vec<(String, Result<(), String>)> = jobs.iter().map(|(ri, var)| hist::exec(&pool, *ri, *var, &mut ctx)).collect();
        let thread_counts: &[usize] = if thorough { &[2, 3, 4, 6, 8, 12, 16] } else { &[2, 4, 16] };
        for &n_threads in thread_counts {
            let n_threads = n_threads.min(cores.max(2));
            let assignment: Vec<usize> = match rng.below(3) {
                0 => (0..jobs.len()).map(|j| j % n_threads).collect(),
                _ => (0..jobs.len()).map(|_| rng.below(n_threads as u64) as usize).collect(),
            };
            let par = run_parallel(&pool, &jobs, &assignment, n_threads);
            run.count(&format!("parallel-runs:threads:{n_threads}"));
            for (j, got) in par.into_iter().enumerate() {
                let (ri, var) = jobs[j];
                run.eval((pool.maps[pool.reqs[ri].map].n_objects >= 1).then_some(&format!("{ri}")));
                run.count(if var & 2 != 0 { "jobs:private-map-clone" } else { "jobs:shared-map-reference" });
                match got {
                    None => run.fail("oracle:thread-died", "", &id, format!("job {j} has no result ({n_threads} threads)"), hist::repro(&pool, ri)),
                    Some((dump, untouched)) => {
                        if let Err(e) = untouched {
                            run.fail("oracle:map-modified-by-reference-call", "", &id, format!("job {j}, {n_threads} threads: {e}"), hist::repro(&pool, ri));
                        }
                        if dump != sequential[j].0 {
                            run.fail(
                                "oracle:parallel-result-differs-from-sequential",
                                "",
                                &id,
                                format!(
                                    "job {j} on thread {} of {n_threads}: {} sequential=`{}` parallel=`{}`",
                                    assignment[j],
                                    hist::describe(&pool, ri),
                                    clip(&sequential[j].0),
                                    clip(&dump)
                                ),
                                hist::repro(&pool, ri),
                            );
                        }
                    }
                }
            }
        }
        if round == 0 {
            run.sample(format!("{} jobs, e.g. {}", jobs.len(), hist::describe(&pool, jobs[0].0)));
        }
    }
    // one shared &Beatmap hammered by all cores with the same request
    if only.is_none() {
        let ri = (0..pool.reqs.len()).find(|ri| matches!(pool.reqs[*ri].op, hist::Op::Difficulty) && pool.maps[pool.reqs[*ri].map].n_objects > 300);
        if let Some(ri) = ri {
            let jobs: Vec<(usize, u8)> = (0..cores * 4).map(|_| (ri, 0)).collect();
            let assignment: Vec<usize> = (0..jobs.len()).map(|j| j % cores).collect();
            let mut ctx = Ctx::default();
            let expect = hist::exec(&pool, ri, 0, &mut ctx).0;
            for (j, got) in run_parallel(&pool, &jobs, &assignment, cores).into_iter().enumerate() {
                run.eval(None);
                if got.as_ref().map(|g| &g.0) != Some(&expect) {
                    run.fail("oracle:parallel-result-differs-from-sequential", "", "same-request-all-cores", format!("job {j}: {}", hist::describe(&pool, ri)), hist::repro(&pool, ri));
                }
            }
            run.count("same-request-on-all-cores");
        }
    }
    #[cfg(feature = "sync")]
    if only.is_none() || only.is_some_and(|o| o.starts_with("handover")) {
        handover::run(&mut run, &pool, seed, thorough);
    }
    run
}

fn clip(s: &str) -> String {
    let end = s.char_indices().nth(300).map_or(s.len(), |(i, _)| i);
    s[..end].to_owned()
}
