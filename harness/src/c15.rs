//! C15 — gradual calculators obey the iterator protocol.

use crate::{
    common::Run,
    grad::{
        cases, check_adaptors, check_protocol, corr_line, exhaustive_ops, note_prepared, ops_str,
        prepare, random_ops,
    },
    rng::Rng,
};

pub fn run(tier: &str, seed: u64, only: Option<&str>) -> Run {
    let mut run = Run::default();
    let thorough = tier == "thorough";
    let (n_random, prefixes): (usize, &[usize]) = if thorough { (12000, &[1, 2, 3, 6, 20, 60]) } else { (900, &[2, 5]) };
    let mut rng = Rng::new(seed ^ 0x15);
    let ex2 = exhaustive_ops(2);
    let ex3 = exhaustive_ops(3);
    for (ci, c) in cases(seed ^ 0x1500, n_random, prefixes).into_iter().enumerate() {
        if only.is_some_and(|o| o != c.id) {
            continue;
        }
        match prepare(&c.text, c.mode, &c.settings) {
            Ok(p) => {
                note_prepared(&mut run, &p);
                run.repro.insert(c.id.clone(), p.repro());
                check_adaptors(&mut run, &c.id, &p);
                let mut seqs: Vec<Vec<_>> = Vec::new();
                // exhaustive short sequences on the small maps, random longer ones everywhere
                if p.units <= 4 {
                    if thorough || ci % 4 == 0 {
                        seqs.extend(ex3.iter().cloned());
                    } else {
                        seqs.extend(ex2.iter().cloned());
                    }
                }
                let n_rand = if thorough { 24 } else { 6 };
                for _ in 0..n_rand {
                    let len = rng.range(1, if thorough { 30 } else { 12 }) as usize;
                    seqs.push(random_ops(&mut rng, len));
                }
                for (si, ops) in seqs.iter().enumerate() {
                    let key = format!("{}|{}|{}", p.mode, p.objs, ops_str(ops));
                    run.eval((p.units >= 1 && ops.len() >= 2).then_some(key.as_str()));
                    corr_line(&mut run, &c.id, &p, ops);
                    // the direct oracle is quadratic in the sequence length: sample it
                    if ops.len() <= 3 || si % 3 == 0 {
                        check_protocol(&mut run, &c.id, &p, ops);
                    }
                    if si == 1 && p.units >= 2 {
                        run.sample(format!("{}: mode={} objs={} ops={}", c.id, p.mode, p.objs, ops_str(ops)));
                    }
                }
                run.count_n("op-sequences", seqs.len() as u64);
                // the protocol must also hold when the Difficulty handed to the calculator carries a
                // `passed_objects(k)` of its own (whether that truncates the calculator is the calculator's
                // business; that `len()` announces what `next()` then delivers is the protocol)
                for k in [0usize, 1, p.units / 2, p.units + 2] {
                    check_preset_protocol(&mut run, &c.id, &p, k as u32);
                }
            }
            Err(e) if e.starts_with("convert:") => run.count("skipped:not-convertible"),
            Err(e) => run.fail("oracle:prepare", "", &c.id, e, c.text.clone()),
        }
    }
    run
}


/// Iterator-protocol self-consistency of a gradual difficulty calculator whose `Difficulty` carries
/// `passed_objects(k)`: `len()` before the walk = number of values `next()` yields, `len()` drops by one per
/// value and is 0 at the end, a further `next()` is `None`, and `nth(j)` on a fresh twin equals the `(j+1)`-th
/// value of the walk for every `j < len`. No comparison with any one-shot result (seed
/// C15-catch-gradual-take-vs-len-count: `new` honoured the limit, `len()` did not).
fn check_preset_protocol(run: &mut Run, id: &str, p: &crate::grad::Prepared, k: u32) {
    use crate::common::{guarded, mode_of};
    use rosu_pp::GradualDifficulty;
    let d = p.difficulty.clone().passed_objects(k);
    let fresh = || guarded(|| GradualDifficulty::new_with_mode(d.clone(), &p.map, mode_of(p.mode)));
    let Ok(Ok(mut g)) = fresh() else {
        return;
    };
    run.count("preset-limit-protocol-walks");
    let walk = guarded(move || {
        let announced = g.len();
        let mut vals: Vec<String> = Vec::new();
        let mut lens: Vec<usize> = Vec::new();
        for _ in 0..announced.min(100_000) + 3 {
            match g.next() {
                Some(v) => {
                    vals.push(format!("{v:?}"));
                    lens.push(g.len());
                }
                None => break,
            }
        }
        let after = (g.next().is_none(), g.len());
        (announced, vals, lens, after)
    });
    let (announced, vals, lens, after) = match walk {
        Ok(w) => w,
        Err(e) => {
            run.fail("oracle:preset-limit-protocol-panic", "", id, format!("Difficulty carries passed_objects({k}): {e}"), p.repro());
            return;
        }
    };
    let mut bad = String::new();
    if vals.len() != announced {
        bad.push_str(&format!("len() announced {announced} values, next() yielded {}; ", vals.len()));
    }
    for (i, l) in lens.iter().enumerate() {
        if *l + i + 1 != vals.len().max(announced) && bad.is_empty() {
            bad.push_str(&format!("after value {} len() = {l}, expected {}; ", i + 1, announced.saturating_sub(i + 1)));
        }
    }
    if !after.0 || after.1 != 0 {
        bad.push_str(&format!("after exhaustion next().is_none() = {}, len() = {}; ", after.0, after.1));
    }
    // nth(j) on a fresh twin = (j+1)-th value, sampled
    for j in [0usize, 1, vals.len() / 2, vals.len().saturating_sub(1)] {
        if j >= vals.len() {
            continue;
        }
        if let Ok(Ok(mut t)) = fresh() {
            match guarded(move || t.nth(j).map(|v| format!("{v:?}"))) {
                Ok(Some(v)) if v == vals[j] => {}
                Ok(other) => bad.push_str(&format!("nth({j}) on a fresh calculator = {:?}, the walk's value {} is {}; ", other.map(|s| s.chars().take(80).collect::<String>()), j + 1, vals[j].chars().take(80).collect::<String>())),
                Err(e) => bad.push_str(&format!("nth({j}) panicked: {e}; ")),
            }
        }
    }
    if !bad.is_empty() {
        run.fail("oracle:preset-limit-protocol", "", id, format!("Difficulty carries passed_objects({k}): {bad}"), p.repro());
    }
}
