//! C15 — gradual calculators obey the iterator protocol.

use crate::{
    common::Run,
    grad::{
        cases, check_adaptors, check_protocol, corr_line, exhaustive_ops, note_prepared, ops_str,
        prepare, random_ops,
    },
    rng::Rng,
};

pub fn run(tier: &str, seed: u64, only: Option<&str>) -> Run {
    let mut run = Run::default();
    let thorough = tier == "thorough";
    let (n_random, prefixes): (usize, &[usize]) = if thorough { (12000, &[1, 2, 3, 6, 20, 60]) } else { (900, &[2, 5]) };
    let mut rng = Rng::new(seed ^ 0x15);
    let ex2 = exhaustive_ops(2);
    let ex3 = exhaustive_ops(3);
    for (ci, c) in cases(seed ^ 0x1500, n_random, prefixes).into_iter().enumerate() {
        if only.is_some_and(|o| o != c.id) {
            continue;
        }
        match prepare(&c.text, c.mode, &c.settings) {
            Ok(p) => {
                note_prepared(&mut run, &p);
                run.repro.insert(c.id.clone(), p.repro());
                check_adaptors(&mut run, &c.id, &p);
                let mut seqs: Vec<Vec<_>> = Vec::new();
                // exhaustive short sequences on the small maps, random longer ones everywhere
                if p.units <= 4 {
                    if thorough || ci % 4 == 0 {
                        seqs.extend(ex3.iter().cloned());
                    } else {
                        seqs.extend(ex2.iter().cloned());
                    }
                }
                let n_rand = if thorough { 24 } else { 6 };
                for _ in 0..n_rand {
                    let len = rng.range(1, if thorough { 30 } else { 12 }) as usize;
                    seqs.push(random_ops(&mut rng, len));
                }
                for (si, ops) in seqs.iter().enumerate() {
                    let key = format!("{}|{}|{}", p.mode, p.objs, ops_str(ops));
                    run.eval((p.units >= 1 && ops.len() >= 2).then_some(key.as_str()));
                    corr_line(&mut run, &c.id, &p, ops);
                    // the direct oracle is quadratic in the sequence length: sample it
                    if ops.len() <= 3 || si % 3 == 0 {
                        check_protocol(&mut run, &c.id, &p, ops);
                    }
                    if si == 1 && p.units >= 2 {
                        run.sample(format!("{}: mode={} objs={} ops={}", c.id, p.mode, p.objs, ops_str(ops)));
                    }
                }
                run.count_n("op-sequences", seqs.len() as u64);
            }
            Err(e) if e.starts_with("convert:") => run.count("skipped:not-convertible"),
            Err(e) => run.fail("oracle:prepare", "", &c.id, e, c.text.clone()),
        }
    }
    run
}
