//! C02 / C14 / C16 — osu!catch end to end: `PIPE catch` lines. The real `Difficulty::calculate` (and
//! the gradual calculator's i-th value) on generated catch maps and osu!→catch converts vs the
//! composed model `lean/RosuModel/Model/PipelineCatch.lean`, bit-exact on every attribute field.
use rosu_pp::{
    catch::{verif as cv, Catch, CatchGradualDifficulty},
    Beatmap,
};

use crate::{
    common::{decode, guarded, hash64, random_settings, resource_maps, truncate_objects, Run, Settings},
    mapgen::{random_map, GenCfg, ObjKind},
    rng::Rng,
};

fn h32(x: f32) -> String {
    format!("{:x}", x.to_bits())
}

fn h64(x: f64) -> String {
    format!("{:x}", x.to_bits())
}

fn pipe_case(run: &mut Run, id: &str, map: &Beatmap, settings: &Settings, passed: Option<u32>, rng: &mut Rng, repro: &str) {
    pipe_case_impl(run, id, map, settings, passed, rng, repro, None);
}

/// `PIPE catchb`: the same comparison starting from the BYTES of a native catch file
/// (`Model/PipelineBytes.lean`): bytes + settings + per-slider curve data + banana counts.
fn pipe_bytes_case(run: &mut Run, id: &str, bytes: &[u8], settings: &Settings, passed: Option<u32>, rng: &mut Rng) {
    let hexb: String = if bytes.is_empty() { "-".to_owned() } else { bytes.iter().map(|b| format!("{b:02x}")).collect() };
    let repro = format!("settings={} passed_objects={passed:?} bytes=<<{}>>", settings.describe(), String::from_utf8_lossy(bytes));
    let b2 = bytes.to_vec();
    let map = match guarded(move || Beatmap::from_bytes(&b2)) {
        Ok(Ok(m)) => m,
        Ok(Err(_)) => {
            run.count("pipeb:stage:io-error");
            run.line(id, format!("PIPE catchb {hexb} 0 0 0 0 0 - - - -"), "IOERR".to_owned());
            return;
        }
        Err(e) => {
            run.fail("oracle:pipe-decode-panic", "", id, e, repro);
            return;
        }
    };
    if map.mode != rosu_pp::model::mode::GameMode::Catch {
        run.count("pipeb:stage:other-mode");
        run.line(id, format!("PIPE catchb {hexb} 0 0 0 0 0 - - - -"), format!("OTHERMODE {}", map.mode as u8));
        return;
    }
    run.count("pipeb:stage:decoded");
    pipe_case_impl(run, id, &map, settings, passed, rng, &repro, Some(&hexb));
}

#[allow(clippy::too_many_arguments)]
fn pipe_case_impl(run: &mut Run, id: &str, map: &Beatmap, settings: &Settings, passed: Option<u32>, rng: &mut Rng, repro: &str, bytes_hex: Option<&str>) {
    let mut d = settings.build(2);
    if let Some(k) = passed {
        d = d.passed_objects(k);
    }
    let (m2, d2) = (map.clone(), d.clone());
    let inputs = match guarded(move || cv::pipeline_inputs(&d2, &m2)) {
        Ok(Ok(i)) => i,
        Ok(Err(_)) => {
            run.count("pipe:skipped:not-convertible");
            return;
        }
        Err(e) => {
            run.fail("oracle:catch-pipeline-inputs-panic", "", id, e, repro.to_owned());
            return;
        }
    };
    let (m3, d3) = (map.clone(), d.clone());
    let attrs = match guarded(move || d3.calculate_for_mode::<Catch>(&m3)) {
        Ok(Ok(a)) => a,
        Ok(Err(_)) => return,
        Err(e) => {
            run.fail("oracle:catch-calculate-panic", "", id, e, repro.to_owned());
            return;
        }
    };
    let n_palp: usize = inputs.steps.iter().map(|s| s.palpables.len()).sum();
    // gradual values at up to three indices (the Difficulty of the gradual calculator carries no passed_objects)
    let mut gidx: Vec<usize> = Vec::new();
    let mut gvals = String::new();
    if n_palp > 0 && passed.is_none() {
        for _ in 0..3 {
            let i = 1 + rng.below(n_palp as u64) as usize;
            if !gidx.contains(&i) {
                gidx.push(i);
            }
        }
        gidx.push(n_palp);
        if bytes_hex.is_some() {
            gidx.push(n_palp + 1);
            gidx.push(n_palp + 4);
        }
        gidx.sort_unstable();
        gidx.dedup();
        for i in &gidx {
            let (m4, d4, k) = (map.clone(), settings.build(2), *i);
            let v = guarded(move || CatchGradualDifficulty::new(d4, &m4).ok().and_then(|mut g| g.nth(k - 1)));
            match v {
                Ok(Some(a)) => gvals.push_str(&format!(" G{i}={},{},{},{}", h64(a.stars), a.n_fruits, a.n_droplets, a.n_tiny_droplets)),
                Ok(None) => gvals.push_str(&format!(" G{i}=none")),
                Err(_) => gvals.push_str(&format!(" G{i}=PANIC")),
            }
        }
    }
    let mut objs: Vec<String> = Vec::with_capacity(inputs.steps.len());
    let mut curves: Vec<String> = Vec::new();
    let mut bananas: Vec<String> = Vec::new();
    for (s, sl) in inputs.steps.iter().zip(inputs.sliders.iter()) {
        match (s.kind, sl) {
            (0, _) => objs.push(format!("f:{}:{}", h32(s.x), h64(s.start_time))),
            (2, _) => {
                bananas.push(s.n_bananas.to_string());
                objs.push(format!("b:{}", s.n_bananas));
            }
            (1, Some(i)) => {
                let xs: Vec<String> = s.nested.iter().filter(|n| n.0 != 2).map(|n| h32(n.1)).collect();
                curves.push(format!("{}:{}", i.dist.to_bits(), if xs.is_empty() { "-".to_owned() } else { xs.join(",") }));
                objs.push(format!(
                    "s:{}:{}:{}:{}:{}:{}:{}:{}:{}",
                    h32(s.x),
                    h32(s.last_control_x),
                    i.start_time.to_bits(),
                    i.beat_len.to_bits(),
                    i.slider_velocity.to_bits(),
                    u8::from(i.generate_ticks),
                    i.dist.to_bits(),
                    i.span_count,
                    if xs.is_empty() { "-".to_owned() } else { xs.join(",") }
                ));
                run.count(&format!("pipe:stream-nested:{}", s.nested.len().min(12)));
            }
            _ => {
                run.fail("oracle:catch-pipeline-inputs", "", id, "slider step without slider inputs".into(), repro.to_owned());
                return;
            }
        }
    }
    run.count(&format!("pipe:hr={}", inputs.hr_offsets));
    run.count(&format!("pipe:reflect={}", inputs.reflect_horizontally));
    run.count(&format!("pipe:convert={}", inputs.is_convert));
    run.count(&format!("pipe:take:{}", if inputs.take == usize::MAX { "unset" } else if inputs.take == 0 { "0" } else if inputs.take >= n_palp { ">=n" } else { "<n" }));
    run.count(&format!("pipe:palpables:{}", match n_palp { 0 => "0", 1..=5 => "1-5", 6..=30 => "6-30", _ => ">30" }));
    run.count(&format!("pipe:stars:{}", if attrs.stars == 0.0 { "0" } else { ">0" }));
    if let Some(hexb) = bytes_hex {
        run.count("pipeb:lines");
        run.repro.insert(id.to_owned(), repro.to_owned());
        run.line(
            id,
            format!(
                "PIPE catchb {hexb} {} {} {} {} {} {} {} {} {}",
                u8::from(inputs.hr_offsets),
                u8::from(inputs.reflect_horizontally),
                h32(inputs.cs),
                h64(inputs.ar),
                h64(inputs.clock_rate),
                if inputs.take == usize::MAX { "-".to_owned() } else { inputs.take.to_string() },
                if gidx.is_empty() { "-".to_owned() } else { gidx.iter().map(|i| i.to_string()).collect::<Vec<_>>().join(",") },
                if bananas.is_empty() { "-".to_owned() } else { bananas.join(",") },
                if curves.is_empty() { "-".to_owned() } else { curves.join(";") }
            ),
            format!(
                "{} {} {} {} {} {}{gvals}",
                h64(attrs.stars),
                h64(attrs.ar),
                attrs.n_fruits,
                attrs.n_droplets,
                attrs.n_tiny_droplets,
                u8::from(attrs.is_convert)
            ),
        );
        run.eval((n_palp > 0).then_some(id));
        return;
    }
    run.count("pipe:lines");
    run.repro.insert(id.to_owned(), repro.to_owned());
    run.line(
        id,
        format!(
            "PIPE catch {} {} {} {} {} {} {} {} {} {} {} {}",
            inputs.version,
            inputs.slider_multiplier.to_bits(),
            inputs.slider_tick_rate.to_bits(),
            u8::from(inputs.hr_offsets),
            u8::from(inputs.reflect_horizontally),
            h32(inputs.cs),
            h64(inputs.ar),
            h64(inputs.clock_rate),
            u8::from(inputs.is_convert),
            if inputs.take == usize::MAX { "-".to_owned() } else { inputs.take.to_string() },
            if gidx.is_empty() { "-".to_owned() } else { gidx.iter().map(|i| i.to_string()).collect::<Vec<_>>().join(",") },
            if objs.is_empty() { "-".to_owned() } else { objs.join(";") }
        ),
        format!(
            "{} {} {} {} {} {}{gvals}",
            h64(attrs.stars),
            h64(attrs.ar),
            attrs.n_fruits,
            attrs.n_droplets,
            attrs.n_tiny_droplets,
            u8::from(attrs.is_convert)
        ),
    );
    run.eval((n_palp > 0).then_some(id));
}

pub fn run(run: &mut Run, tier: &str, seed: u64, only: Option<&str>) {
    let thorough = tier == "thorough";
    let n = if thorough { 20_000 } else { 1_500 };
    for ci in 0..n {
        let id = format!("pipe-catch-{ci}");
        if only.is_some_and(|o| o != id) {
            continue;
        }
        let mut rng = Rng::new(seed ^ hash64(&id));
        let mut cfg = GenCfg::small(if rng.chance(1, 2) { 2 } else { 0 });
        cfg.max_objects = *rng.pick(&[3, 6, 12, 24]);
        cfg.weights = *rng.pick(&[[10, 0, 0, 0], [10, 4, 2, 1], [4, 10, 2, 0], [6, 6, 6, 0]]);
        cfg.max_slides = *rng.pick(&[1, 2, 5]);
        cfg.long_gaps = rng.chance(1, 4);
        let mut spec = random_map(&mut rng, &cfg);
        spec.version = *rng.pick(&[14, 14, 128, 9, 7, 5]);
        // hard-rock branches: equal-x runs, small steps, gaps around 1000 ms
        if rng.chance(1, 2) && !spec.objects.is_empty() {
            let mut t = spec.objects[0].time;
            let mut x = *rng.pick(&[0, 100, 256, 512]);
            for o in spec.objects.iter_mut() {
                t += *rng.pick(&[40.0, 120.0, 250.0, 400.0, 999.0, 1001.0, 1500.0]);
                match rng.below(4) {
                    0 | 1 => {}
                    2 => x = (x + rng.range(-30, 30) as i32).clamp(0, 512),
                    _ => x = rng.range(0, 512) as i32,
                }
                o.x = x;
                let dt = t - o.time;
                if let ObjKind::Spinner { end } | ObjKind::Hold { end } = &mut o.kind {
                    *end += dt;
                }
                o.time = t;
            }
        }
        // tiny-droplet threshold: event spacings of 45-110 ms (ticks every beat_len / tick_rate), long sliders
        if rng.chance(1, 3) {
            spec.slider_tick_rate = *rng.pick(&[2.0, 4.0]);
            let bl = *rng.pick(&[180.0, 240.0, 280.0, 300.0, 316.0, 320.0, 324.0, 340.0, 400.0, 440.0]);
            if let Some(t) = spec.timing.iter_mut().find(|t| t.uninherited) {
                t.beat_len = bl;
            }
            for o in spec.objects.iter_mut() {
                if let ObjKind::Slider { length, points, .. } = &mut o.kind {
                    *length = *rng.pick(&[120.0, 200.0, 333.0, 480.0]);
                    if let Some(last) = points.last_mut() {
                        last.0 = (o.x + 300).min(512);
                    }
                }
            }
            run.count("pipe:tick-spacing-sweep");
        }
        let text = spec.render();
        let Ok(map) = decode(&text) else {
            run.count("pipe:skipped:decode");
            continue;
        };
        let settings = if rng.chance(1, 4) { Settings::default() } else { random_settings(&mut rng, 2) };
        let passed = match rng.below(3) {
            0 => None,
            1 => Some(rng.below(8) as u32),
            _ => Some(rng.below(map.hit_objects.len() as u64 * 4 + 3) as u32),
        };
        let repro = format!("{text}\n# settings: {} passed_objects: {passed:?}", settings.describe());
        pipe_case(run, &id, &map, &settings, passed, &mut rng, &repro);
        if spec.mode == 2 {
            let bytes = crate::mapgen::file_variant(&mut rng, &text);
            pipe_bytes_case(run, &format!("{id}#bytes"), &bytes, &settings, passed, &mut rng);
        }
    }
    for (i, (mode, text)) in resource_maps().into_iter().enumerate() {
        if mode != 0 && mode != 2 {
            continue;
        }
        let id = format!("pipe-catch-res-{i}");
        if only.is_some_and(|o| !o.starts_with(&id)) {
            continue;
        }
        let Ok(map) = decode(&truncate_objects(&text, 150)) else { continue };
        for (j, bits) in [0u32, 16, 64, 2].into_iter().enumerate() {
            let settings = Settings { mods: crate::common::ModsSpec::Bits(bits), ..Settings::default() };
            let mut rng = Rng::new(seed ^ hash64(&format!("{id}-{j}")));
            pipe_case(run, &format!("{id}-{j}"), &map, &settings, None, &mut rng, &format!("resource map {i} truncated to 150 objects, mods bits {bits}"));
        }
    }
}
