//! C07 — mode dispatch and map conversion are mutually consistent.

use rosu_pp::{
    any::{DifficultyAttributes, PerformanceAttributes, Strains},
    catch::Catch,
    mania::Mania,
    model::mode::{ConvertError, GameMode},
    osu::Osu,
    taiko::Taiko,
    Beatmap, Difficulty, GameMods, GradualDifficulty, GradualPerformance, Performance,
};

use crate::{
    common::{decode, guarded, mode_idx, mode_name, mode_of, random_settings, resource_maps, truncate_objects, LazerTag, ModsSpec, Run, Settings},
    grad::one_shot,
    mapgen::{random_map, GenCfg},
    rng::Rng,
};

fn cap(m: GameMode) -> &'static str {
    ["Osu", "Taiko", "Catch", "Mania"][mode_idx(m) as usize]
}

fn show_outcome(r: &Result<Beatmap, ConvertError>) -> String {
    match r {
        Ok(m) => format!("ok:{}:{}", cap(m.mode), u8::from(m.is_convert)),
        Err(ConvertError::AlreadyConverted) => "err:already".into(),
        Err(ConvertError::Convert { from, to }) => format!("err:convert:{}:{}", cap(*from), cap(*to)),
    }
}

fn strains_for(d: &Difficulty, map: &Beatmap, mode: GameMode) -> Result<Strains, String> {
    let r = guarded(|| match mode {
        GameMode::Osu => d.strains_for_mode::<Osu>(map).map(Strains::Osu),
        GameMode::Taiko => d.strains_for_mode::<Taiko>(map).map(Strains::Taiko),
        GameMode::Catch => d.strains_for_mode::<Catch>(map).map(Strains::Catch),
        GameMode::Mania => d.strains_for_mode::<Mania>(map).map(Strains::Mania),
    });
    match r {
        Ok(Ok(s)) => Ok(s),
        Ok(Err(e)) => Err(format!("convert:{e:?}")),
        Err(p) => Err(format!("panic:{p}")),
    }
}

fn conversion_mods(rng: &mut Rng, target: u8) -> Settings {
    let mut s = if rng.chance(1, 2) { Settings::default() } else { random_settings(rng, target) };
    if target == 3 {
        match rng.below(5) {
            0 => {
                s.mods = ModsSpec::Bits(*rng.pick(&[1u32 << 15, 1 << 16, 1 << 17, 1 << 18, 1 << 19, 1 << 24, 1 << 26, 1 << 27, 1 << 28]))
            }
            1 => s.mods = ModsSpec::Lazer(vec![LazerTag::Acronym("10K")]),
            2 => s.mods = ModsSpec::Lazer(vec![LazerTag::HoldOff]),
            3 => s.mods = ModsSpec::Lazer(vec![LazerTag::Invert, LazerTag::RandomSeed(rng.range(0, 99) as i32)]),
            _ => {}
        }
    }
    if target == 1 && rng.chance(1, 4) {
        s.mods = ModsSpec::Lazer(vec![LazerTag::RandomSeed(rng.range(0, 99) as i32)]);
    }
    s
}

pub fn run(tier: &str, seed: u64, only: Option<&str>) -> Run {
    let mut run = Run::default();
    let thorough = tier == "thorough";
    let mut rng = Rng::new(seed ^ 0x07);
    let n_cases = if thorough { 4000 } else { 500 };
    let res = resource_maps();
    for i in 0..n_cases {
        let src_mode = *rng.pick(&[0u8, 0, 0, 1, 2, 3]);
        let target = rng.below(4) as u8;
        let use_res = i % 25 == 24 && !res.is_empty();
        let pre_convert = rng.chance(1, 6);
        let mut cfg = GenCfg::small(src_mode);
        cfg.max_objects = *rng.pick(&[0, 1, 4, 9, 14]);
        let mut text = random_map(&mut rng, &cfg).render();
        let mut src_mode = src_mode;
        if use_res {
            let (m, t) = &res[(i / 25) % res.len()];
            text = truncate_objects(t, 25);
            src_mode = *m;
        }
        let settings = conversion_mods(&mut rng, target);
        let pre_target = rng.range(1, 3) as u8;
        let id = format!("c-{i}-{}{}-to-{}", mode_name(src_mode), if pre_convert { "-preconv" } else { "" }, mode_name(target));
        if only.is_some_and(|o| o != id) {
            continue;
        }
        let Ok(mut map) = decode(&text) else { continue };
        let mods: GameMods = settings.mods.build(target);
        if pre_convert {
            // an already converted map as input
            let _ = map.convert_mut(mode_of(pre_target), &GameMods::default());
        }
        let gm = mode_of(target);
        let repro = format!("src={} preconv={pre_convert}/{pre_target} target={} settings={} map=<<\n{text}>>", mode_name(src_mode), mode_name(target), settings.describe());
        run.repro.insert(id.clone(), repro.clone());
        run.count(&format!("src:{}{}", cap(map.mode), if map.is_convert { "-conv" } else { "" }));
        run.count(&format!("target:{}", cap(gm)));
        let key = format!("{}|{}|{}|{}", cap(map.mode), map.is_convert, cap(gm), map.hit_objects.len());
        run.eval((map.mode != gm).then_some(key.as_str()));
        if i % 61 == 0 {
            run.sample(format!("{id}: {} objects, settings {}", map.hit_objects.len(), settings.describe()));
        }

        // --- the three conversion entry points ---
        let by_ref = guarded(|| map.convert_ref(gm, &mods).map(|c| c.into_owned()));
        let by_val = guarded(|| map.clone().convert(gm, &mods));
        let by_mut = guarded(|| {
            let mut m = map.clone();
            let r = m.convert_mut(gm, &mods);
            (r, m)
        });
        let (Ok(by_ref), Ok(by_val), Ok((mut_res, mut_map))) = (by_ref, by_val, by_mut) else {
            run.fail("oracle:convert-panic", "", &id, "conversion panicked".into(), repro.clone());
            continue;
        };
        let mut_out = match &mut_res {
            Ok(()) => show_outcome(&Ok(mut_map.clone())),
            Err(e) => format!("{}|left:{}:{}", show_outcome(&Err(*e)), cap(mut_map.mode), u8::from(mut_map.is_convert)),
        };
        run.line(
            &id,
            format!("CONV {} {} {}", cap(map.mode), u8::from(map.is_convert), cap(gm)),
            format!("ref={} val={} mut={}", show_outcome(&by_ref), show_outcome(&by_val), mut_out),
        );
        match (&by_ref, &by_val, &mut_res) {
            (Ok(a), Ok(b), Ok(())) => {
                if format!("{a:?}") != format!("{b:?}") || format!("{a:?}") != format!("{mut_map:?}") {
                    run.fail("oracle:convert-entry-points-differ", "", &id, "ref/value/in-place maps differ".into(), repro.clone());
                }
                if map.mode == gm && format!("{a:?}") != format!("{map:?}") {
                    run.fail("oracle:convert-own-mode-not-identity", "", &id, String::new(), repro.clone());
                }
                if map.mode != gm && !(a.mode == gm && a.is_convert && map.mode == GameMode::Osu && !map.is_convert) {
                    run.fail("oracle:convert-flags", "", &id, format!("mode={:?} is_convert={}", a.mode, a.is_convert), repro.clone());
                }
            }
            (Err(a), Err(b), Err(c)) => {
                if format!("{a:?}") != format!("{b:?}") || format!("{a:?}") != format!("{c:?}") {
                    run.fail("oracle:convert-errors-differ", "", &id, format!("{a:?} {b:?} {c:?}"), repro.clone());
                }
                if format!("{mut_map:?}") != format!("{map:?}") {
                    run.fail("oracle:failed-convert-mutated-map", "", &id, String::new(), repro.clone());
                }
                if map.mode == gm || (map.mode == GameMode::Osu && !map.is_convert) {
                    run.fail("oracle:convert-should-succeed", "", &id, format!("{a:?}"), repro.clone());
                }
            }
            _ => run.fail("oracle:convert-entry-points-differ", "", &id, "ok/err mismatch".into(), repro.clone()),
        }

        // --- direct-for-mode vs on the explicitly converted map ---
        let difficulty = settings.build(target);
        let direct = one_shot(&difficulty, &map, gm);
        match (&direct, &by_ref) {
            (Ok(a), Ok(conv)) => {
                let on_conv = guarded(|| difficulty.calculate(conv));
                match on_conv {
                    Ok(b) if format!("{a:?}") == format!("{b:?}") => {}
                    Ok(b) => run.fail("oracle:difficulty-for-mode-ne-converted", "", &id, format!("direct {a:?}\nconverted {b:?}"), repro.clone()),
                    Err(e) => run.fail("oracle:calc-panic", "", &id, e, repro.clone()),
                }
                // strains
                let sa = strains_for(&difficulty, &map, gm);
                let sb = guarded(|| difficulty.strains(conv));
                if let (Ok(sa), Ok(sb)) = (&sa, &sb) {
                    if format!("{sa:?}") != format!("{sb:?}") {
                        run.fail("oracle:strains-for-mode-ne-converted", "", &id, String::new(), repro.clone());
                    }
                } else {
                    run.fail("oracle:strains-error", "", &id, format!("{:?} / {:?}", sa.as_ref().err(), sb.as_ref().err()), repro.clone());
                }
                // gradual difficulty: constructor for mode vs constructor on the converted map
                let ga = guarded(|| GradualDifficulty::new_with_mode(difficulty.clone(), &map, gm).map(|g| g.map(|a| format!("{a:?}")).collect::<Vec<_>>()));
                let gb = guarded(|| GradualDifficulty::new(difficulty.clone(), conv).map(|a| format!("{a:?}")).collect::<Vec<_>>());
                match (ga, gb) {
                    (Ok(Ok(x)), Ok(y)) if x == y => {}
                    (Ok(Ok(x)), Ok(y)) => run.fail("oracle:gradual-for-mode-ne-converted", "", &id, format!("{} vs {} values", x.len(), y.len()), repro.clone()),
                    // e.g. the taiko known finding (len() underflow makes `collect` reserve usize::MAX):
                    // C07 only asks that both routes behave alike
                    (Err(_), Err(_)) => run.count("gradual-both-routes-panic"),
                    _ => run.fail("oracle:gradual-error", "", &id, String::new(), repro.clone()),
                }
                // performance: try_mode / mode_or_ignore vs explicit conversion
                let perf = |p: Performance<'_>| -> String { format!("{:?}", p.difficulty(difficulty.clone()).accuracy(97.25).misses(1).calculate()) };
                let pa = guarded(|| Performance::new(&map).difficulty(difficulty.clone()).try_mode(gm).map(|p| perf(p)).map_err(|_| ()));
                let pb = guarded(|| perf(Performance::new(conv)));
                match (pa, pb) {
                    (Ok(Ok(x)), Ok(y)) if x == y => {}
                    (Ok(Ok(x)), Ok(y)) => run.fail("oracle:try-mode-ne-converted", "", &id, format!("try_mode {x}\nconverted {y}"), repro.clone()),
                    (Ok(Err(())), Ok(_)) => run.fail("oracle:try-mode-refused", "", &id, String::new(), repro.clone()),
                    _ => run.fail("oracle:performance-panic", "", &id, String::new(), repro.clone()),
                }
                // a full score specification (incl. priority, combo, tick counts) set BEFORE the
                // conversion must mean the same as setting it on the converted builder
                let mut spec = crate::c04::random_spec(&mut rng, conv.hit_objects.len().min(12) as u32);
                // the osu! builder has no katu/geki fields: those setters are no-ops before the conversion
                spec.n_katu = None;
                spec.n_geki = None;
                let sa = guarded(|| {
                    spec.apply(Performance::new(&map).difficulty(difficulty.clone()))
                        .try_mode(gm)
                        .map(|p| format!("{:?}", p.calculate()))
                        .map_err(|_| ())
                });
                let sb = guarded(|| format!("{:?}", spec.apply(Performance::new(conv).difficulty(difficulty.clone())).calculate()));
                match (sa, sb) {
                    (Ok(Ok(x)), Ok(y)) if x == y => {}
                    (Ok(Ok(x)), Ok(y)) => run.fail(
                        "oracle:spec-before-try-mode-ne-after",
                        "",
                        &id,
                        format!("spec {spec:?}\nset before try_mode: {x}\nset on converted: {y}"),
                        repro.clone(),
                    ),
                    (Err(_), Err(_)) => run.count("spec-both-panic"),
                    _ => run.fail("oracle:spec-try-mode-error", "", &id, format!("spec {spec:?}"), repro.clone()),
                }
                let sc = guarded(|| {
                    format!("{:?}", spec.apply(Performance::new(&map).difficulty(difficulty.clone())).mode_or_ignore(gm).calculate())
                });
                let sd = guarded(|| format!("{:?}", spec.apply(Performance::new(conv).difficulty(difficulty.clone())).calculate()));
                if let (Ok(x), Ok(y)) = (&sc, &sd) {
                    if x != y {
                        run.fail("oracle:spec-before-mode-or-ignore-ne-after", "", &id, format!("spec {spec:?}\n{x}\n{y}"), repro.clone());
                    }
                }
                let pc = guarded(|| perf(Performance::new(&map).difficulty(difficulty.clone()).mode_or_ignore(gm)));
                let pd = guarded(|| perf(Performance::new(conv)));
                if let (Ok(x), Ok(y)) = (&pc, &pd) {
                    if x != y {
                        run.fail("oracle:mode-or-ignore-ne-converted", "", &id, format!("{x}\n{y}"), repro.clone());
                    }
                }
                // gradual performance for mode: final value vs one-shot performance on converted
                let gp = guarded(|| {
                    GradualPerformance::new_with_mode(difficulty.clone(), &map, gm).map(|mut g| {
                        let st = rosu_pp::any::ScoreState { max_combo: 3, n300: 2, misses: 1, ..Default::default() };
                        g.last(st).map(|a| format!("{a:?}"))
                    })
                });
                let gq = guarded(|| {
                    let mut g = GradualPerformance::new(difficulty.clone(), conv);
                    let st = rosu_pp::any::ScoreState { max_combo: 3, n300: 2, misses: 1, ..Default::default() };
                    g.last(st).map(|a| format!("{a:?}"))
                });
                match (gp, gq) {
                    (Ok(Ok(x)), Ok(y)) if x == y => {}
                    (Ok(Ok(_)), Ok(_)) => run.fail("oracle:gradual-performance-for-mode-ne-converted", "", &id, String::new(), repro.clone()),
                    _ => run.fail("oracle:gradual-performance-error", "", &id, String::new(), repro.clone()),
                }
            }
            (Err(e), Err(_)) if e.starts_with("convert:") => {
                // try_mode must refuse, mode_or_ignore must keep the original mode
                let refused = guarded(|| Performance::new(&map).try_mode(gm).is_err());
                if refused != Ok(true) {
                    run.fail("oracle:try-mode-accepted-unconvertible", "", &id, String::new(), repro.clone());
                }
                let kept = guarded(|| {
                    let p = Performance::new(&map).mode_or_ignore(gm);
                    matches!(
                        (&p, map.mode),
                        (Performance::Osu(_), GameMode::Osu) | (Performance::Taiko(_), GameMode::Taiko) | (Performance::Catch(_), GameMode::Catch) | (Performance::Mania(_), GameMode::Mania)
                    )
                });
                if kept != Ok(true) {
                    run.fail("oracle:mode-or-ignore-changed-mode", "", &id, String::new(), repro.clone());
                }
            }
            (a, b) => run.fail(
                "oracle:for-mode-vs-convert-disagree",
                "",
                &id,
                format!("direct ok={} convert ok={} ({:?})", a.is_ok(), b.is_ok(), a.as_ref().err()),
                repro.clone(),
            ),
        }
        // generic calculate on own mode equals calculate_for_mode of own mode
        let own = guarded(|| difficulty.calculate(&map));
        let own_for = one_shot(&difficulty, &map, map.mode);
        if let (Ok(a), Ok(b)) = (&own, &own_for) {
            if format!("{a:?}") != format!("{b:?}") {
                run.fail("oracle:calculate-ne-calculate-for-own-mode", "", &id, String::new(), repro.clone());
            }
            let _: &DifficultyAttributes = a;
        }
        let _: Option<PerformanceAttributes> = None;
    }
    run
}
