//! Modules are gated by per-property cargo features (`p01` … `p20`, `p05m`; default = all) so that
//! `./check Cxx` can fall back to building only the modules property Cxx needs when another module
//! stops compiling against a changed /repo (e.g. a crate-private signature a hook user relies on).
pub mod common;
pub mod debugvis;
pub mod mapgen;
pub mod rng;
pub mod viewsink;

#[cfg(any(feature = "p12" , feature = "p13"))]
pub mod genstate;
#[cfg(any(feature = "p01" , feature = "p02" , feature = "p03" , feature = "p04" , feature = "p07" , feature = "p08" , feature = "p09" , feature = "p10" , feature = "p11" , feature = "p14" , feature = "p15" , feature = "p16" , feature = "p17" , feature = "p18" , feature = "p20"))]
pub mod grad;
#[cfg(any(feature = "p09" , feature = "p10" , feature = "p11" , feature = "p16"))]
pub mod svops;
#[cfg(any(feature = "p01" , feature = "p20"))]
pub mod hist;
#[cfg(any(feature = "p05m"))]
pub mod c05_models;
#[cfg(any(feature = "p01"))]
pub mod c01;
#[cfg(any(feature = "p02"))]
pub mod c02;
#[cfg(any(feature = "p02"))]
pub mod pipe_catch;
#[cfg(any(feature = "p02"))]
pub mod pipe_maniac;
pub mod pipe;
#[cfg(any(feature = "p03" , feature = "p04" , feature = "p07"))]
pub mod pipe_perf;
#[cfg(any(feature = "p03"))]
pub mod c03;
#[cfg(any(feature = "p04" , feature = "p07"))]
pub mod c04;
#[cfg(any(feature = "p05"))]
pub mod c05;
#[cfg(any(feature = "p05"))]
pub mod curve;
#[cfg(any(feature = "p06" , feature = "p19"))]
pub mod c06;
#[cfg(feature = "p06")]
pub mod c06b;
#[cfg(any(feature = "p07"))]
pub mod c07;
#[cfg(any(feature = "p08"))]
pub mod c08;
#[cfg(any(feature = "p09"))]
pub mod c09;
#[cfg(any(feature = "p09"))]
pub mod c09pp;
#[cfg(any(feature = "p09"))]
pub mod c09osk;
#[cfg(any(feature = "p09"))]
pub mod pipe_osu;
#[cfg(any(feature = "p10"))]
pub mod c10;
#[cfg(any(feature = "p11"))]
pub mod c11;
#[cfg(any(feature = "p12"))]
pub mod c12;
#[cfg(any(feature = "p13"))]
pub mod c13;
#[cfg(any(feature = "p14"))]
pub mod c14;
#[cfg(any(feature = "p14"))]
pub mod conv;
#[cfg(any(feature = "p14"))]
pub mod nested;
#[cfg(any(feature = "p02", feature = "p05"))]
pub mod taikopre;
#[cfg(any(feature = "p15"))]
pub mod c15;
#[cfg(any(feature = "p09" , feature = "p10" , feature = "p16"))]
pub mod c16;
#[cfg(any(feature = "p09" , feature = "p10" , feature = "p16"))]
pub mod skillc;
#[cfg(any(feature = "p17"))]
pub mod c17;
#[cfg(any(feature = "p18"))]
pub mod c18;
#[cfg(any(feature = "p19"))]
pub mod c19;
#[cfg(any(feature = "p19"))]
pub mod c19_mania;
#[cfg(any(feature = "p20"))]
pub mod c20;
