pub mod common;
pub mod grad;
pub mod mapgen;
pub mod rng;

pub mod c01;
pub mod c02;
pub mod c03;
pub mod c04;
pub mod c06;
pub mod c07;
pub mod c14;
pub mod c15;
pub mod c18;
pub mod c19;
pub mod c20;
pub mod hist;
