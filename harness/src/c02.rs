//! C02 — gradual difficulty equals difficulty of the played prefix.

use crate::{
    common::Run,
    grad::{cases, check_views, check_walk, lookahead_cases, note_prepared, prepare},
};

pub fn run(tier: &str, seed: u64, only: Option<&str>) -> Run {
    let mut run = Run::default();
    let (n_random, prefixes): (usize, &[usize]) = if tier == "thorough" {
        (60000, &[1, 2, 3, 4, 7, 15, 40, 120, 300])
    } else {
        (5000, &[2, 3, 9, 30])
    };
    let n_look = if tier == "thorough" { 4000 } else { 400 };
    let mut all = cases(seed, n_random, prefixes);
    all.extend(lookahead_cases(seed, n_look));
    for c in all {
        if only.is_some_and(|o| o != c.id) {
            continue;
        }
        match prepare(&c.text, c.mode, &c.settings) {
            Ok(p) => {
                note_prepared(&mut run, &p);
                run.repro.insert(c.id.clone(), p.repro());
                let key = format!("{}|{}|{}", p.mode, p.objs, p.settings.describe());
                run.eval((p.units >= 1).then_some(key.as_str()));
                if p.units >= 2 {
                    run.sample(format!("{}: mode={} objs={} settings={}", c.id, p.mode, p.objs, p.settings.describe()));
                }
                check_walk(&mut run, &c.id, &p);
                if c.id.starts_with("look-") {
                    run.count("stream:lookahead");
                }
                check_views(&mut run, &c.id, &p);
            }
            Err(e) if e.starts_with("convert:") => run.count("skipped:not-convertible"),
            Err(e) => run.fail("oracle:prepare", "", &c.id, e, c.text.clone()),
        }
    }
    // taiko difficulty-object construction, colour / rhythm preprocessing (TKPRE lines)
    crate::taikopre::run(&mut run, tier, seed, only, false);
    // osu!catch end to end (PIPE catch lines)
    crate::pipe_catch::run(&mut run, tier, seed, only);
    // osu!->mania convert end to end (PIPE maniac lines)
    crate::pipe_maniac::run(&mut run, tier, seed, only);
    // native osu!mania end to end against Model/PipelineMania.lean (PIPE lines)
    crate::pipe::run(&mut run, tier, seed, only);
    run
}
