//! C01 — calculations are deterministic, pure functions of their inputs.
//!
//! * correspondence `BPM`: `Beatmap::bpm()` on generated timing configurations (exact ties,
//!   repeated beat lengths, rounding collisions, objects before/after the sections, …) against the
//!   Lean model evaluated under four iteration orders of the hash map;
//! * correspondence `OSU` / `CS`: the two PRNGs, bit-exact, many seeds × mixed draws;
//! * direct oracle: random call histories over a request pool, every response must equal the
//!   first response to the same request (two OS threads, fresh vs. reused builders, shared vs.
//!   cloned maps), maps passed by reference must be unchanged; thorough tier: the same request
//!   list in fresh child processes (other hash seeds, other addresses).

use std::{collections::BTreeMap, fmt::Write as _, process::Command};

use rosu_pp::{
    model::{
        control_point::TimingPoint,
        hit_object::{HitObject, HitObjectKind, HoldNote, Spinner},
    },
    verif::{CsharpRandom, OsuRandom},
    Beatmap,
};

use crate::{
    common::{guarded, hash64, Run},
    hist::{self, Ctx, Pool},
    rng::Rng,
};

fn bits(x: f64) -> String {
    // NaN canonical, like Lean's Float.toBits
    if x.is_nan() {
        "7ff8000000000000".to_owned()
    } else {
        format!("{:x}", x.to_bits())
    }
}

/* ---------------------------------------------------------------- bpm */

struct BpmCase {
    id: String,
    map: Beatmap,
    shape: &'static str,
}

fn obj(time: f64, kind: u8, dur: f64) -> HitObject {
    HitObject {
        pos: Default::default(),
        start_time: time,
        kind: match kind {
            0 => HitObjectKind::Circle,
            1 => HitObjectKind::Spinner(Spinner { duration: dur }),
            _ => HitObjectKind::Hold(HoldNote { duration: dur }),
        },
    }
}

/// `HitObject::end_time` is crate-private; same float operation.
fn end_time(h: &HitObject) -> f64 {
    match &h.kind {
        HitObjectKind::Circle | HitObjectKind::Slider(_) => h.start_time,
        HitObjectKind::Spinner(Spinner { duration }) | HitObjectKind::Hold(HoldNote { duration }) => {
            h.start_time + *duration
        }
    }
}

fn bpm_map(tps: &[(f64, f64)], objs: Vec<HitObject>) -> Beatmap {
    // field assignment instead of a struct literal: a private field added to `Beatmap` must not
    // stop the harness from building
    let mut map = Beatmap::default();
    map.timing_points = tps.iter().map(|(t, b)| TimingPoint { time: *t, beat_len: *b }).collect();
    map.hit_objects = objs;
    map
}

fn bpm_cases(seed: u64, n_random: usize) -> Vec<BpmCase> {
    let mut rng = Rng::new(seed ^ 0xB93);
    let mut v = Vec::new();
    let mut push = |id: String, shape: &'static str, tps: &[(f64, f64)], objs: Vec<HitObject>| {
        v.push(BpmCase { id, map: bpm_map(tps, objs), shape });
    };
    // hand-made corners
    push("bpm-none".into(), "no-points", &[], vec![]);
    push("bpm-none-obj".into(), "no-points", &[], vec![obj(1000.0, 0, 0.0)]);
    push("bpm-single".into(), "single-point", &[(0.0, 500.0)], vec![obj(2000.0, 0, 0.0)]);
    push("bpm-single-noobj".into(), "single-point", &[(300.0, 400.0)], vec![]);
    push("bpm-single-late".into(), "single-point", &[(5000.0, 500.0)], vec![obj(100.0, 0, 0.0)]);
    push("bpm-tie2".into(), "exact-tie", &[(0.0, 500.0), (1000.0, 250.0)], vec![obj(2000.0, 0, 0.0)]);
    push("bpm-tie2-rev".into(), "exact-tie", &[(0.0, 250.0), (1000.0, 500.0)], vec![obj(2000.0, 0, 0.0)]);
    push(
        "bpm-tie3".into(),
        "exact-tie",
        &[(0.0, 300.0), (1000.0, 400.0), (2000.0, 500.0)],
        vec![obj(3000.0, 0, 0.0)],
    );
    push(
        "bpm-tie-repeated".into(),
        "exact-tie",
        &[(0.0, 300.0), (500.0, 400.0), (1000.0, 300.0), (1500.0, 400.0)],
        vec![obj(2000.0, 0, 0.0)],
    );
    push(
        "bpm-tie-spinner-end".into(),
        "exact-tie",
        &[(0.0, 500.0), (1000.0, 250.0)],
        vec![obj(1500.0, 1, 500.0)],
    );
    push(
        "bpm-tie-hold-end".into(),
        "exact-tie",
        &[(0.0, 500.0), (1000.0, 250.0)],
        vec![obj(1000.0, 2, 1000.0)],
    );
    push(
        "bpm-rounding-collision".into(),
        "rounded-keys-collide",
        &[(0.0, 500.0004), (1000.0, 499.9996), (2000.0, 250.0), (4000.0, 250.0)],
        vec![obj(4000.0, 0, 0.0)],
    );
    push(
        "bpm-zero-durations".into(),
        "exact-tie",
        &[(0.0, 500.0), (0.0, 250.0), (0.0, 125.0)],
        vec![obj(0.0, 0, 0.0)],
    );
    push(
        "bpm-objects-before".into(),
        "object-before-sections",
        &[(1000.0, 500.0), (2000.0, 250.0), (3000.0, 125.0)],
        vec![obj(500.0, 0, 0.0)],
    );
    push(
        "bpm-negative".into(),
        "negative-times",
        &[(-3000.0, 500.0), (-1000.0, 250.0)],
        vec![obj(-500.0, 0, 0.0)],
    );
    push(
        "bpm-extreme".into(),
        "extreme-values",
        &[(0.0, f64::INFINITY), (1000.0, 0.0), (2000.0, -0.0), (3000.0, 1e300), (4000.0, 5e-324)],
        vec![obj(5000.0, 0, 0.0)],
    );
    push(
        "bpm-unsorted".into(),
        "unsorted-times",
        &[(3000.0, 500.0), (1000.0, 250.0), (2000.0, 300.0)],
        vec![obj(2500.0, 0, 0.0)],
    );
    // random, tie-rich: few distinct beat lengths, grid times
    for i in 0..n_random {
        let n = *rng.pick(&[0usize, 1, 2, 2, 3, 3, 4, 5, 6, 8, 12, 20]);
        let pool: Vec<f64> = match rng.below(4) {
            0 => vec![500.0, 250.0],
            1 => vec![300.0, 400.0, 500.0, 300.0004, 299.9996],
            2 => vec![333.333333, 333.3334, 666.67, 1000.0, 125.0, 0.5],
            _ => (0..4).map(|_| rng.range(50, 2000) as f64 / *rng.pick(&[1.0, 3.0, 7.0, 1000.0])).collect(),
        };
        let step = *rng.pick(&[1000.0, 500.0, 250.0, 333.0]);
        let mut t = if rng.chance(1, 6) { -(rng.range(0, 4) as f64) * step } else { 0.0 };
        let mut tps = Vec::new();
        for _ in 0..n {
            tps.push((t, *rng.pick(&pool)));
            let lo = if rng.chance(1, 8) { 0 } else { 1 };
            t += step * (rng.range(lo, 3) as f64);
        }
        let shape = match rng.below(6) {
            0 => "no-objects",
            1 => "object-before-sections",
            2 => "object-inside",
            3 => "object-with-duration",
            _ => "object-after",
        };
        let objs = match shape {
            "no-objects" => vec![],
            "object-before-sections" => vec![obj(-5000.0, 0, 0.0)],
            "object-inside" => vec![obj(0.0, 0, 0.0), obj(step * rng.range(0, 6) as f64, 0, 0.0)],
            "object-with-duration" => vec![obj(t, rng.range(1, 2) as u8, step * rng.range(0, 3) as f64)],
            _ => vec![obj(t + step * rng.range(0, 2) as f64, 0, 0.0)],
        };
        v.push(BpmCase { id: format!("bpm-rnd-{i}"), map: bpm_map(&tps, objs), shape });
    }
    v
}

/// Independent recomputation of the accumulated durations, only to know (for the evidence and for
/// the `T`/`U` flag of the correspondence) whether two entries share the maximal duration.
fn shares_maximum(map: &Beatmap) -> bool {
    let tps = &map.timing_points;
    let last_time = map.hit_objects.last().map(end_time).or_else(|| tps.last().map(|t| t.time)).unwrap_or(0.0);
    let mut entries: Vec<(u64, f64)> = Vec::new();
    let mut add = |beat_len: f64, curr: f64, next: f64| {
        let key = ((1000.0 * beat_len).round() / 1000.0).to_bits();
        let pos = match entries.iter().position(|e| e.0 == key) {
            Some(p) => p,
            None => {
                entries.push((key, 0.0));
                entries.len() - 1
            }
        };
        if curr <= last_time {
            entries[pos].1 += next - curr;
        }
    };
    match tps.as_slice() {
        [c] => add(c.beat_len, 0.0, last_time),
        [c, n, ..] => add(c.beat_len, 0.0, n.time),
        [] => {}
    }
    for i in 1..tps.len().saturating_sub(1) {
        add(tps[i].beat_len, tps[i].time, tps[i + 1].time);
    }
    if tps.len() >= 2 {
        let c = &tps[tps.len() - 1];
        add(c.beat_len, c.time, last_time);
    }
    let mut best: Option<f64> = None;
    for e in &entries {
        if best.map_or(true, |b| e.1.total_cmp(&b).is_gt()) {
            best = Some(e.1);
        }
    }
    best.is_some_and(|b| entries.iter().filter(|e| e.1.total_cmp(&b).is_eq()).count() >= 2)
}

fn bpm_line(map: &Beatmap) -> Option<String> {
    if map.timing_points.iter().any(|t| t.beat_len.is_nan() || t.time.is_nan()) {
        return None;
    }
    let last = map.hit_objects.last().map_or("-".to_owned(), |h| bits(end_time(h)));
    let tps: Vec<String> = map.timing_points.iter().map(|t| format!("{}:{}", bits(t.time), bits(t.beat_len))).collect();
    Some(format!("BPM {} {}", last, if tps.is_empty() { "-".to_owned() } else { tps.join(";") }))
}

fn check_bpm(run: &mut Run, id: &str, map: &Beatmap, shape: &str, calls: usize) {
    run.count(&format!("bpm:shape:{shape}"));
    run.count(&format!(
        "bpm:timing-points:{}",
        match map.timing_points.len() {
            0 => "0",
            1 => "1",
            2 => "2",
            3..=5 => "3-5",
            _ => "6+",
        }
    ));
    let first = match guarded(|| map.bpm()) {
        Ok(v) => v,
        Err(e) => {
            run.fail("oracle:bpm-panic", "", id, e, format!("{:?} last={:?}", map.timing_points, map.hit_objects.last()));
            return;
        }
    };
    // every call builds a HashMap with a fresh RandomState
    let mut distinct = BTreeMap::new();
    for _ in 0..calls {
        let v = guarded(|| map.bpm()).unwrap_or(f64::NAN);
        *distinct.entry(bits(v)).or_insert(0u32) += 1;
    }
    if distinct.len() > 1 || !distinct.contains_key(&bits(first)) {
        run.fail(
            "oracle:bpm-varies-between-calls",
            "",
            id,
            format!("{calls} calls returned {distinct:?} (f64 bits)"),
            format!("timing_points={:?} last_object={:?}", map.timing_points, map.hit_objects.last()),
        );
    }
    let tie = shares_maximum(map);
    if tie {
        run.count("bpm:two-entries-share-the-maximum");
    }
    run.eval((map.timing_points.len() >= 2).then_some(&format!("{:?}{:?}", map.timing_points, map.hit_objects.last())));
    if let Some(line) = bpm_line(map) {
        let b = bits(first);
        run.line(id, line, format!("{b} {b} {b} {b} {}", if tie { "T" } else { "U" }));
        run.repro.insert(id.to_owned(), format!("timing_points={:?} last_object={:?}", map.timing_points, map.hit_objects.last()));
    } else {
        run.count("bpm:skipped-nan-input");
    }
}

/* ---------------------------------------------------------------- PRNGs */

const SPECIAL_SEEDS: &[i32] = &[
    0,
    1,
    -1,
    i32::MIN,
    i32::MAX,
    i32::MIN + 1,
    2,
    1337,
    161_803_398,
    161_803_399,
    -161_803_398,
    // seeds for which `initialize` passes through an entry equal to -1 or i32::MAX
    1_235_545_220,
    -1_235_545_220,
    614_279_151,
    -614_279_151,
    1_235_228_408,
    -1_235_228_408,
];

fn check_osu_rng(run: &mut Run, seed: i32, rng: &mut Rng, n_ops: usize) {
    let id = format!("osu-rng-{seed}");
    let mut r = OsuRandom::new(seed);
    let mut r2 = OsuRandom::new(seed);
    let mut ops = Vec::new();
    let mut outs = Vec::new();
    for _ in 0..n_ops {
        match rng.below(8) {
            0 | 1 => {
                let v = r.next_int();
                if v < 0 || r2.next_int() != v {
                    run.fail("oracle:osu-next-int", "", &id, format!("next_int()={v}"), format!("seed={seed}"));
                }
                ops.push("I".to_owned());
                outs.push(v.to_string());
            }
            2 => {
                let v = r.next_double();
                r2.next_double();
                if !(0.0..1.0).contains(&v) {
                    run.fail("oracle:osu-next-double", "", &id, format!("next_double()={v}"), format!("seed={seed}"));
                }
                ops.push("D".to_owned());
                outs.push(bits(v));
            }
            3 => {
                let v = r.next_bool();
                r2.next_bool();
                ops.push("B".to_owned());
                outs.push(u8::from(v).to_string());
            }
            4 | 5 | 6 => {
                // bounds whose difference fits i32 (the code computes `max - min` in i32)
                let (lo, hi) = match rng.below(6) {
                    0 => (0, rng.range(1, 10) as i32),
                    1 => (rng.range(0, 9) as i32, rng.range(10, 18) as i32),
                    2 => (rng.range(-20, -1) as i32, rng.range(-20, 20) as i32),
                    3 => (rng.range(-1_000_000, 1_000_000) as i32, rng.range(-1_000_000, 1_000_000) as i32),
                    4 => (rng.range(-1_000_000_000, 0) as i32, rng.range(0, 1_000_000_000) as i32),
                    _ => (0, i32::MAX),
                };
                let v = r.next_int_range(lo, hi);
                r2.next_int_range(lo, hi);
                if lo < hi && (v < lo || v > hi || (hi > 0 && v >= hi)) {
                    run.fail(
                        "oracle:osu-range",
                        "",
                        &id,
                        format!("next_int_range({lo},{hi})={v}"),
                        format!("seed={seed}"),
                    );
                }
                run.count(if hi <= 0 { "rng:osu-range-nonpositive-hi" } else { "rng:osu-range-positive-hi" });
                ops.push(format!("R{lo}:{hi}"));
                outs.push(v.to_string());
            }
            _ => {
                let lo = *rng.pick(&[0.0, 0.0, -3.5, 10.25]);
                let hi = *rng.pick(&[0.0, 20.0, 7.75, 1e6, 3e9]);
                let v = r.next_double_range(lo, hi);
                r2.next_double_range(lo, hi);
                ops.push(format!("F{}:{}", bits(lo), bits(hi)));
                outs.push(v.to_string());
            }
        }
    }
    run.eval(Some(&format!("osu{seed}{}", ops.join(","))));
    run.line(&id, format!("OSU {seed} {}", ops.join(",")), outs.join(" "));
    run.repro.insert(id, format!("OsuRandom::new({seed}) ops={}", ops.join(",")));
}

fn check_cs_rng(run: &mut Run, seed: i32, rng: &mut Rng, n_ops: usize) {
    let id = format!("cs-rng-{seed}");
    let made = guarded(|| (CsharpRandom::new(seed), CsharpRandom::new(seed)));
    let (mut r, mut r2) = match made {
        Ok(x) => x,
        Err(e) => {
            run.fail("oracle:csharp-new-panic", "", &id, e, format!("seed={seed}"));
            return;
        }
    };
    let mut ops = Vec::new();
    let mut outs = Vec::new();
    for _ in 0..n_ops {
        if rng.chance(2, 3) {
            let v = r.next();
            if !(0..i32::MAX).contains(&v) || r2.next() != v {
                run.fail("oracle:csharp-next", "", &id, format!("next()={v}"), format!("seed={seed}"));
            }
            ops.push("N".to_owned());
            outs.push(v.to_string());
        } else {
            let m = match rng.below(6) {
                0 => 2,
                1 => rng.range(1, 20) as i32,
                2 => rng.range(1, 65536) as i32,
                3 => rng.range(1, i64::from(i32::MAX)) as i32,
                4 => 0,
                _ => rng.range(-1000, -1) as i32,
            };
            let v = r.next_max(m);
            r2.next_max(m);
            if m > 0 && !(0..m).contains(&v) {
                run.fail("oracle:csharp-next-max", "", &id, format!("next_max({m})={v}"), format!("seed={seed}"));
            }
            ops.push(format!("M{m}"));
            outs.push(v.to_string());
        }
    }
    run.eval(Some(&format!("cs{seed}{}", ops.join(","))));
    run.line(&id, format!("CS {seed} {}", ops.join(",")), outs.join(" "));
    run.repro.insert(id, format!("CsharpRandom::new({seed}) ops={}", ops.join(",")));
}

/* ---------------------------------------------------------------- histories */

fn run_history(run: &mut Run, pool: &Pool, first: &mut BTreeMap<usize, String>, hid: &str, seed: u64, len: usize) {
    let mut rng = Rng::new(seed);
    // a history revisits a small working set often and wanders over the whole pool otherwise
    let hot: Vec<usize> = (0..6).map(|_| rng.below(pool.reqs.len() as u64) as usize).collect();
    let mut plan: Vec<(usize, u8)> = Vec::new();
    for _ in 0..len {
        let ri = if rng.chance(2, 5) { *rng.pick(&hot) } else { rng.below(pool.reqs.len() as u64) as usize };
        plan.push((ri, rng.below(8) as u8));
    }
    let mut main_ctx = Ctx::default();
    let mut pos = 0;
    let mut on_worker = false;
    let mut responses: Vec<(usize, u8, bool, String, Result<(), String>)> = Vec::new();
    while pos < plan.len() {
        let chunk = (rng.range(1, 8) as usize).min(plan.len() - pos);
        let part = &plan[pos..pos + chunk];
        if on_worker {
            // a fresh OS thread: fresh thread-local hash seeds, fresh builder cache
            let got = std::thread::scope(|s| {
                s.spawn(|| {
                    let mut ctx = Ctx::default();
                    part.iter().map(|(ri, var)| hist::exec(pool, *ri, *var, &mut ctx)).collect::<Vec<_>>()
                })
                .join()
            });
            match got {
                Ok(rs) => {
                    for ((ri, var), (d, u)) in part.iter().zip(rs) {
                        responses.push((*ri, *var, true, d, u));
                    }
                }
                Err(_) => run.fail("oracle:worker-thread-died", "", hid, "worker thread panicked outside a guarded call".into(), String::new()),
            }
        } else {
            for (ri, var) in part {
                let (d, u) = hist::exec(pool, *ri, *var, &mut main_ctx);
                responses.push((*ri, *var, false, d, u));
            }
        }
        on_worker = !on_worker;
        pos += chunk;
    }
    for (k, (ri, var, worker, dump, untouched)) in responses.into_iter().enumerate() {
        let req = &pool.reqs[ri];
        run.count(&format!("history:op:{}", req.op.tag()));
        run.count(if worker { "history:calls-on-worker-thread" } else { "history:calls-on-main-thread" });
        run.count(if var & 1 != 0 { "history:reused-builder" } else { "history:fresh-builder" });
        if dump.starts_with("panic:") {
            run.count("history:response-is-a-caught-panic");
        }
        let nontrivial = pool.maps[req.map].n_objects >= 1;
        run.eval(nontrivial.then_some(&format!("{ri}")));
        if let Err(e) = untouched {
            run.fail("oracle:map-modified-by-reference-call", "", hid, format!("position {k}: {e}"), hist::repro(pool, ri));
        }
        match first.get(&ri) {
            None => {
                first.insert(ri, dump);
            }
            Some(f) if *f == dump => run.count("history:repeat-equal"),
            Some(f) => {
                run.fail(
                    "oracle:response-differs-from-first",
                    "",
                    hid,
                    format!(
                        "position {k} (variant {var}, {}): {} first=`{}` now=`{}`",
                        if worker { "worker thread" } else { "main thread" },
                        hist::describe(pool, ri),
                        clip(f),
                        clip(&dump)
                    ),
                    hist::repro(pool, ri),
                );
            }
        }
    }
}

fn clip(s: &str) -> String {
    let end = s.char_indices().nth(400).map_or(s.len(), |(i, _)| i);
    s[..end].to_owned()
}

/// All requests once, in pool order: what a child process reports.
fn dump_all(pool: &Pool) -> Vec<String> {
    let mut ctx = Ctx::default();
    (0..pool.reqs.len()).map(|ri| hist::exec(pool, ri, 0, &mut ctx).0).collect()
}

fn cross_process(run: &mut Run, pool: &Pool, seed: u64, n_children: usize) {
    let Ok(exe) = std::env::current_exe() else {
        run.notes.push("cross-process: current_exe unavailable".into());
        return;
    };
    let mine = dump_all(pool);
    let base = std::env::temp_dir().join(format!("rosu-verif-c01-{}-{seed}", std::process::id()));
    let _ = std::fs::create_dir_all(&base);
    let mut children = Vec::new();
    for i in 0..n_children {
        let out = base.join(format!("child-{i}"));
        let dump = base.join(format!("dump-{i}.txt"));
        let child = Command::new(&exe)
            .args(["C01", "child", &seed.to_string(), out.to_str().unwrap_or(".")])
            .env("ROSU_VERIF_DUMP", &dump)
            // a different environment size shifts stack addresses a little more
            .env("ROSU_VERIF_PAD", "x".repeat(37 * i))
            .spawn();
        children.push((i, dump, child));
    }
    for (i, dump, child) in children {
        let ok = match child {
            Ok(mut c) => c.wait().map(|s| s.success()).unwrap_or(false),
            Err(_) => false,
        };
        let text = std::fs::read_to_string(&dump).unwrap_or_default();
        let theirs: Vec<&str> = text.lines().collect();
        if !ok || theirs.len() != mine.len() {
            run.fail(
                "oracle:child-process-failed",
                "",
                "cross-process",
                format!("child {i}: ok={ok}, {} of {} responses", theirs.len(), mine.len()),
                String::new(),
            );
            continue;
        }
        run.count("cross-process:children-compared");
        for (ri, (a, b)) in mine.iter().zip(theirs.iter()).enumerate() {
            run.eval(None);
            if hash_line(a) != *b {
                run.fail(
                    "oracle:response-differs-between-processes",
                    "",
                    "cross-process",
                    format!("child {i}: {} parent=`{}` child-hash={b}", hist::describe(pool, ri), clip(a)),
                    hist::repro(pool, ri),
                );
            }
        }
    }
    let _ = std::fs::remove_dir_all(&base);
}

fn hash_line(s: &str) -> String {
    format!("{:016x}:{}", hash64(s), s.len())
}

pub fn run(tier: &str, seed: u64, only: Option<&str>) -> Run {
    let mut run = Run::default();
    if tier == "child" {
        // child of the cross-process check: dump every response and leave
        let pool = hist::build_pool(seed, true);
        let mut text = String::new();
        for d in dump_all(&pool) {
            let _ = writeln!(text, "{}", hash_line(&d));
        }
        if let Ok(p) = std::env::var("ROSU_VERIF_DUMP") {
            let _ = std::fs::write(p, text);
        }
        return run;
    }
    let thorough = tier == "thorough";
    let want = |id: &str| only.map_or(true, |o| o == id);

    // Lean witness `osu_range_half_open_fails`, replayed on the real generator
    if only.is_none() {
        let mut r = OsuRandom::new(1337);
        r.next_int();
        r.next_int();
        r.next_int();
        let v = r.next_int_range(-5, -2);
        if v != -2 {
            run.fail(
                "oracle:lean-witness-not-reproduced",
                "",
                "witness-osu-range",
                format!("OsuRandom::new(1337), 3×next_int, next_int_range(-5,-2) = {v}, the model says -2"),
                String::new(),
            );
        }
        run.count("witness:osu-range-returns-hi-for-nonpositive-hi");
    }

    // (a) bpm
    let bpm_calls = if thorough { 64 } else { 24 };
    for c in bpm_cases(seed, if thorough { 6000 } else { 700 }) {
        if want(&c.id) {
            check_bpm(&mut run, &c.id, &c.map, c.shape, bpm_calls);
        }
    }
    let pool = hist::build_pool(seed, thorough);
    for pm in &pool.maps {
        let id = format!("bpm-decoded-{}", pm.id);
        if want(&id) {
            check_bpm(&mut run, &id, &pm.map, "decoded-map", bpm_calls);
        }
    }

    // (b) PRNGs
    let mut rng = Rng::new(seed ^ 0x5EED);
    let n_seeds = if thorough { 12_000 } else { 2_000 };
    let n_ops = 300;
    let mut seeds: Vec<i32> = SPECIAL_SEEDS.to_vec();
    while seeds.len() < n_seeds {
        seeds.push(match rng.below(4) {
            0 => rng.range(-100, 100) as i32,
            _ => rng.next() as i32,
        });
    }
    for s in seeds {
        // fork unconditionally so that a replay of one case sees the same draws
        let (mut r1, mut r2) = (rng.fork(), rng.fork());
        if want(&format!("osu-rng-{s}")) {
            check_osu_rng(&mut run, s, &mut r1, n_ops);
        }
        if want(&format!("cs-rng-{s}")) {
            check_cs_rng(&mut run, s, &mut r2, n_ops);
        }
    }
    run.count_n("rng:seeds", n_seeds as u64);

    // (c) histories
    hist::note_pool(&mut run, &pool);
    let (n_hist, len) = if thorough { (400, 1000) } else { (100, 400) };
    let mut first = BTreeMap::new();
    if only.is_some_and(|o| o.starts_with("history")) {
        // replay of one history: the reference responses come from one plain pass over the pool
        for (ri, d) in dump_all(&pool).into_iter().enumerate() {
            first.insert(ri, d);
        }
    }
    for h in 0..n_hist {
        let hid = format!("history-{h}");
        if want(&hid) {
            run_history(&mut run, &pool, &mut first, &hid, seed ^ (0x4157 + h as u64 * 7919), len);
        }
    }
    run.count_n("history:distinct-requests-seen", first.len() as u64);
    if let Some((ri, d)) = first.iter().next() {
        run.sample(format!("{} -> {}", hist::describe(&pool, *ri), clip(d)));
    }
    for (ri, d) in first.iter().filter(|(ri, _)| matches!(pool.reqs[**ri].op, hist::Op::Perf(_) | hist::Op::GradDiff(_))).take(3) {
        run.sample(format!("{} -> {}", hist::describe(&pool, *ri), clip(d)));
    }

    // (d) other processes
    if thorough && only.is_none() {
        cross_process(&mut run, &pool, seed, 12);
    }
    run
}
