//! C05 — no panic, abort or hang on any decodable, non-suspicious map.
//!
//! Two parts:
//!
//! * correspondence lines for the Lean safety models (`LQ` LimitedQueue op sequences, `CC`
//!   ContainedColumns op sequences, `FAC` find_available_column, `BAN` banana count replica,
//!   `TKH` taiko hit loop count over exact rationals) — see `c05_model_lines`;
//! * the search: generated / mutated / corrupted map texts, filtered by
//!   `decodes ∧ check_suspicion().is_ok() ∧ ≤ 400 objects ∧ slider bounds`, every public calculation
//!   on every surviving map.  Cases run in CHILD PROCESSES (this binary re-executed with the tier
//!   argument `child:<domain>:<lo>:<hi>:<file>`) under `ulimit -v`, with a per-case watchdog in
//!   the parent, so that an abort / hang / allocation failure is attributed to one case.
//!
//! Case `i` of a domain is a pure function of `(seed, domain, i)`: parent and child regenerate it
//! independently; a replay is `./check C05 --replay FILE` (case id `adv:<i>` / `real:<i>`).

use std::{
    borrow::Cow,
    collections::BTreeMap,
    fmt::Write as _,
    fs,
    io::Write as _,
    path::{Path, PathBuf},
    process::{Child, Command, Stdio},
    sync::Mutex,
    time::{Duration, Instant},
};

use rosu_pp::{
    any::{HitResultPriority, ScoreState},
    catch::Catch,
    mania::Mania,
    model::{beatmap::BeatmapAttributesBuilder, hit_object::HitObjectKind, mode::GameMode},
    osu::Osu,
    taiko::Taiko,
    Beatmap, GradualDifficulty, GradualPerformance, Performance,
};

use crate::{
    common::{hash64, mode_name, mode_of, resource_maps, LazerTag, ModsSpec, Run, Settings},
    mapgen::{MapSpec, ObjKind, ObjSpec, TimingSpec},
    rng::Rng,
};

// ------------------------------------------------------------------------------------------------
// budgets

/// objects per decoded map (the property's "a few hundred objects")
const MAX_OBJECTS: usize = 400;
const MAX_REPEATS: usize = 100;
const MAX_SLIDER_PX: f64 = 20_000.0;
const MAX_CONTROL_POINTS: usize = 200;
/// a single API call slower than this is reported (the property's "small time budget")
const SLOW_CALL_MS: u128 = 5_000;
/// no progress of a child for this long = hang
const CASE_TIMEOUT: Duration = Duration::from_secs(60);
/// address-space limit of a worker (KiB, `ulimit -v`)
const RLIMIT_AS_KIB: u64 = 2 * 1024 * 1024;
const BATCH: usize = 40;
/// hang/abort incidents per domain after which no further batches are started
const MAX_INCIDENTS: usize = 6;
/// Work that the property's bounds (objects, repeats, pixels) do NOT bound: total slider *time*
/// (catch: one tiny droplet per <= 80 ms, osu!: one tick per beat_len / tick_rate) and the number of
/// strain sections `span / (clock_rate * section_length)`.  Above these limits a case / a settings
/// block is "heavy": it only gets a light exercise and slowness there belongs to the known finding
/// `resource-proportional-work`.
const HEAVY_SLIDER_MS: f64 = 1_800_000.0;
/// beyond this much slider time the map is not calculated at all (millions of nested objects)
const SKIP_SLIDER_MS: f64 = 100_000_000.0;
const HEAVY_SECTIONS: f64 = 2_000_000.0;
/// nested objects + sections above which `oracle:work-exceeds-bounds` is reported (deterministic
/// witness of the finding, independent of wall-clock time)
const WORK_LIMIT: f64 = 1_000_000.0;
/// a full gradual walk is quadratic by design; after this long the walk jumps to the end with `nth`
const WALK_BUDGET: Duration = Duration::from_millis(700);

fn checked_profile() -> bool {
    cfg!(debug_assertions)
}

// ------------------------------------------------------------------------------------------------
// case generation

#[derive(Clone, Copy, PartialEq, Eq, Debug)]
pub enum Domain {
    /// adversarial: everything the decoder and `check_suspicion` let through
    Adv,
    /// realistic: times in [0, 3 h], coordinates near the playfield, editor-like values
    Real,
}

impl Domain {
    fn name(self) -> &'static str {
        match self {
            Domain::Adv => "adv",
            Domain::Real => "real",
        }
    }
    fn parse(s: &str) -> Option<Self> {
        match s {
            "adv" => Some(Domain::Adv),
            "real" => Some(Domain::Real),
            _ => None,
        }
    }
}

pub struct Case {
    pub bytes: Vec<u8>,
    /// corpus / structured / mutated / corrupted
    pub origin: &'static str,
    /// mutation kind or generator family
    pub kind: String,
    /// numeric corners deliberately put into the text
    pub tags: Vec<&'static str>,
}

fn case_rng(seed: u64, domain: Domain, idx: usize) -> Rng {
    Rng::new(seed ^ hash64(&format!("c05/{}/{idx}", domain.name())))
}

fn spinner(x: i32, y: i32, t: f64, end: f64) -> ObjSpec {
    ObjSpec { x, y, time: t, sound: 0, kind: ObjKind::Spinner { end } }
}

fn circle(x: i32, y: i32, t: f64) -> ObjSpec {
    ObjSpec { x, y, time: t, sound: 0, kind: ObjKind::Circle }
}

fn slider(x: i32, y: i32, t: f64, curve: char, points: Vec<(i32, i32)>, slides: u32, length: f64) -> ObjSpec {
    ObjSpec { x, y, time: t, sound: 0, kind: ObjKind::Slider { curve, points, slides, length } }
}

fn hold(x: i32, t: f64, end: f64) -> ObjSpec {
    ObjSpec { x, y: 192, time: t, sound: 0, kind: ObjKind::Hold { end } }
}

/// Hand-made corner maps and permanent regression inputs; always the first cases of `adv`.
fn corpus() -> Vec<(MapSpec, &'static str)> {
    let mut v = Vec::new();
    let base = |mode: u8| MapSpec { mode, ..Default::default() };
    // the old BananaShower::new hang (fixed by e8e374c): 1 ms spinner at t >= 2^24 ms
    let mut m = base(2);
    m.objects = vec![spinner(256, 192, 20_000_000.0, 20_000_001.0)];
    v.push((m, "banana-1ms-at-2e7"));
    let mut m = base(0);
    m.objects = vec![circle(10, 10, 1000.0), spinner(256, 192, 20_000_000.0, 20_000_001.0), circle(20, 20, 20_000_500.0)];
    v.push((m, "osu-banana-1ms-at-2e7"));
    let mut m = base(2);
    m.objects = vec![spinner(256, 192, 16_777_216.0, 16_777_217.0), spinner(256, 192, 33_554_432.0, 33_554_435.0)];
    v.push((m, "banana-at-2^24-2^25"));
    let mut m = base(2);
    m.objects = vec![spinner(256, 192, 2_147_483_000.0, 2_147_483_647.0)];
    v.push((m, "banana-near-2^31"));
    let mut m = base(2);
    m.objects = vec![spinner(256, 192, -2_147_483_648.0, 2_147_483_647.0)];
    v.push((m, "banana-full-i32-range"));
    let mut m = base(0);
    m.objects = vec![spinner(256, 192, 5000.0, 100.0), circle(1, 1, 6000.0)];
    v.push((m, "spinner-end-before-start"));
    for mode in 0..4u8 {
        let mut m = base(mode);
        m.objects = vec![];
        v.push((m, "empty"));
        let mut m = base(mode);
        m.objects = vec![circle(256, 192, 0.0)];
        v.push((m, "single-circle"));
        let mut m = base(mode);
        m.objects = vec![slider(0, 0, 0.0, 'L', vec![(0, 0)], 1, 0.0), slider(0, 0, 1.0, 'B', vec![(0, 0), (0, 0)], 100, 0.0)];
        v.push((m, "zero-length-sliders"));
        let mut m = base(mode);
        m.objects = vec![slider(0, 0, 0.0, 'L', vec![(9000, 9000)], 100, 20_000.0)];
        v.push((m, "max-slider"));
        let mut m = base(mode);
        m.objects = (0..60).map(|i| circle(256, 192, 2_147_483_000.0 + f64::from(i))).collect();
        v.push((m, "dense-near-2^31"));
        let mut m = base(mode);
        m.objects = vec![circle(0, 0, -2_147_483_648.0), circle(1, 1, -2_147_483_648.0 + 86_000_000.0)];
        v.push((m, "day-long-at-min-time"));
        let mut m = base(mode);
        m.objects = vec![circle(0, 0, 0.0), circle(1, 1, 86_400_000.0)];
        v.push((m, "day-long"));
    }
    let mut m = base(3);
    m.cs = 4.0;
    m.objects = vec![hold(64, 1000.0, 10.0), hold(192, 1000.0, 1000.0), hold(320, 2000.0, 2_147_483_647.0)];
    v.push((m, "hold-end-before-start"));
    // taiko: slider converted to hits with the smallest tick spacing
    let mut m = base(0);
    m.slider_tick_rate = 8.0;
    m.timing[0].beat_len = 6.0;
    m.objects = vec![slider(0, 0, 2_000_000_000.0, 'L', vec![(300, 0)], 100, 10.0), circle(0, 0, 2_000_001_000.0)];
    v.push((m, "taiko-tiny-tick-spacing-late"));
    // witnesses of the finding `resource-proportional-work` (inside the property's bounds, passes
    // check_suspicion): 3 objects whose slider lasts ~15 h => ~10^6 nested catch objects ...
    let mut m = base(2);
    m.slider_multiplier = 0.4;
    m.slider_tick_rate = 8.0;
    m.timing.push(TimingSpec { time: 0.0, beat_len: -1000.0, uninherited: false, kiai: false });
    m.objects = vec![circle(0, 0, 0.0), slider(0, 0, 1000.0, 'L', vec![(9000, 9000)], 30, 20_000.0), circle(0, 0, 80_000_000.0)];
    v.push((m, "witness-slider-time"));
    // ... and 2 circles one day apart at clock rate 0.01 => 2.16e7 strain sections per skill
    let mut m = base(0);
    m.objects = vec![circle(0, 0, 0.0), circle(300, 300, 1000.0), circle(1, 1, 86_400_000.0)];
    v.push((m, "witness-sections"));
    // witnesses of the finding `curve-nan-vertex` (worker CURVE): an inner perfect-curve segment
    // `L|10:0|P|3244:-2736|3225:104|3208:2645` (rendered below: the `P` token is spliced into the text)
    // whose determinant is 1 — `circular_arc_properties`' `d` cancels to 0 in f32, the centre is
    // infinite, every arc vertex NaN; catch (native and converted) then panics in `f32::clamp`
    for mode in [0u8, 2] {
        let mut m = base(mode);
        m.objects = vec![circle(100, 100, 1000.0), slider(0, 0, 1500.0, 'L', vec![(10, 0), (3244, -2736), (3225, 104), (3208, 2645)], 1, 300.0), circle(300, 200, 2300.0)];
        v.push((m, "witness-curve-arc-nonfinite-centre"));
    }
    // ... and the osu!-mode NaN vertex of `calculate_length` (legacy catmull `[A, A, B]`, expected
    // distance <= optimized_len): absorbed by every calculator (no panic, finite attributes)
    let mut m = base(0);
    m.version = 9;
    m.objects = vec![circle(100, 100, 1000.0), slider(100, 100, 1500.0, 'C', vec![(100, 100), (100, 100), (150, 100)], 2, 7.0), circle(300, 200, 1700.0)];
    v.push((m, "curve-catmull-nan-vertex"));
    v
}

const BEAT_CORNERS: &[f64] = &[
    0.0, 1e-9, 0.001, 1.0, 5.999, 6.0, 6.0001, 59.0, 60_000.0, 60_001.0, 1e9, 2_147_483_647.0, -1e-9, -0.001, -1.0, -9.99,
    -10.0, -100.0, -1000.0, -10_000.0, -10_001.0, -1e9, -2_147_483_647.0,
];

/// Structured map with numeric corners (adversarial domain).
fn adv_spec(rng: &mut Rng) -> (MapSpec, Vec<&'static str>) {
    let mut tags = Vec::new();
    let mode = rng.below(4) as u8;
    let mut m = MapSpec { mode, ..Default::default() };
    m.version = *rng.pick(&[3, 4, 5, 6, 7, 8, 9, 10, 11, 12, 13, 14, 14, 14, 128]);
    let attr = |rng: &mut Rng| *rng.pick(&[0.0f32, 0.5, 1.0, 2.0, 3.3, 4.0, 5.0, 6.5, 7.0, 8.0, 9.0, 9.5, 10.0, 11.0, -1.0, 18.0, 1e9]);
    m.ar = attr(rng);
    m.cs = attr(rng);
    m.hp = attr(rng);
    m.od = attr(rng);
    m.slider_multiplier = *rng.pick(&[0.4, 0.4, 1.0, 1.4, 1.7, 2.6, 3.6, 3.6, 0.0, 1e-9, 100.0, -1.0]);
    m.slider_tick_rate = *rng.pick(&[0.5, 1.0, 1.0, 2.0, 3.0, 4.0, 8.0, 8.0, 0.0, 1e-9, 1e9, -2.0, 0.333]);
    m.stack_leniency = *rng.pick(&[0.0, 0.3, 0.7, 1.0, 1.0, 10.0, -1.0, 1e9]);

    // time profile
    let prof = rng.below(10);
    let (t0, tag): (f64, &'static str) = match prof {
        0 => (0.0, "t0=0"),
        1 => (-(rng.range(1, 5000) as f64), "t0<0"),
        2 => (16_777_216.0 - rng.range(0, 3000) as f64, "t0~2^24"),
        3 => (16_777_216.0 + rng.range(0, 40_000_000) as f64, "t0>2^24"),
        4 => (2_147_483_647.0 - rng.range(0, 200_000) as f64, "t0~2^31"),
        5 => (2_147_483_647.0 - rng.range(200_000, 80_000_000) as f64, "t0<2^31-gap"),
        6 => (-2_147_483_648.0 + rng.range(0, 100_000) as f64, "t0~-2^31"),
        7 => (rng.range(0, 2_000_000_000) as f64, "t0-uniform"),
        _ => (rng.range(0, 3000) as f64 + if rng.chance(1, 2) { 0.5 } else { 0.0 }, "t0-small"),
    };
    tags.push(tag);

    // timing points
    m.timing.clear();
    let n_tp = rng.range(0, 5) as usize;
    let first_beat = if rng.chance(1, 3) {
        tags.push("beat-corner");
        *rng.pick(BEAT_CORNERS)
    } else {
        *rng.pick(&[120.0, 250.0, 333.33, 500.0, 1000.0])
    };
    m.timing.push(TimingSpec {
        time: if rng.chance(1, 4) { t0 + rng.range(-1000, 5000) as f64 } else { 0.0 },
        beat_len: first_beat,
        uninherited: first_beat >= 0.0 || rng.chance(1, 4),
        kiai: rng.chance(1, 4),
    });
    for _ in 0..n_tp {
        let corner = rng.chance(1, 3);
        let beat = if corner { *rng.pick(BEAT_CORNERS) } else { *rng.pick(&[-400.0, -200.0, -100.0, -50.0, -25.0, 300.0, 461.5]) };
        if corner {
            tags.push("beat-corner");
        }
        m.timing.push(TimingSpec {
            time: t0 + rng.range(-2000, 60_000) as f64 * if rng.chance(1, 8) { 1000.0 } else { 1.0 },
            beat_len: beat,
            uninherited: if beat < 0.0 { rng.chance(1, 8) } else { rng.chance(3, 4) },
            kiai: rng.chance(1, 3),
        });
    }

    // objects
    let n = match rng.below(8) {
        0 => rng.range(0, 3),
        1..=4 => rng.range(3, 40),
        5 | 6 => rng.range(40, 150),
        _ => rng.range(150, MAX_OBJECTS as i64),
    } as usize;
    let spacing_prof = rng.below(6);
    let total_budget = 86_000_000.0; // check_suspicion: last.start - first.start <= 1 day
    let mut t = t0;
    let columns = (m.cs.clamp(1.0, 18.0)) as i32;
    let weights: [u64; 4] = match mode {
        3 => [5, 1, 1, 5],
        _ => [6, 4, 2, if rng.chance(1, 6) { 2 } else { 0 }],
    };
    let total_w: u64 = weights.iter().sum();
    let coord_prof = rng.below(5);
    for i in 0..n {
        let (x, y) = match coord_prof {
            0 => {
                tags.push("coords-beyond-playfield");
                (*rng.pick(&[-131_072, -10_001, -10_000, -512, -1, 0, 512, 513, 640, 9_999, 10_000, 10_001, 131_072]),
                 *rng.pick(&[-131_072, -10_000, -384, -1, 0, 384, 385, 480, 10_000, 131_072]))
            }
            1 => (*rng.pick(&[0, 512, 256]), *rng.pick(&[0, 384, 192])),
            2 => (256 + rng.range(-2, 2) as i32, 192 + rng.range(-2, 2) as i32), // stacks
            _ => (rng.range(0, 512) as i32, rng.range(0, 384) as i32),
        };
        let x = if mode == 3 && coord_prof >= 3 { (rng.range(0, (columns - 1) as i64) as i32 * 512 + 256) / columns } else { x };
        let mut pick = rng.below(total_w);
        let mut k = 0;
        while pick >= weights[k] {
            pick -= weights[k];
            k += 1;
        }
        let sound = *rng.pick(&[0u8, 0, 2, 4, 8, 10, 6, 12, 14]);
        let kind = match k {
            0 => ObjKind::Circle,
            1 => {
                let curve = *rng.pick(&['L', 'B', 'P', 'C']);
                let np = match curve {
                    'P' => *rng.pick(&[1usize, 2, 2, 2, 3]),
                    _ => rng.range(1, 6) as usize,
                };
                let far = rng.chance(1, 8);
                let mut pts = Vec::new();
                let (mut cx, mut cy) = (x, y);
                for _ in 0..np {
                    if far {
                        cx = rng.range(-9000, 9000) as i32;
                        cy = rng.range(-9000, 9000) as i32;
                    } else {
                        cx += rng.range(-150, 150) as i32;
                        cy += rng.range(-120, 120) as i32;
                        if rng.chance(1, 10) {
                            // repeated control point (segment separator) / collinear perfect curve
                            pts.push((cx, cy));
                        }
                    }
                    pts.push((cx, cy));
                }
                let slides = *rng.pick(&[1u32, 1, 1, 2, 2, 3, 4, 7, 20, 99, 100, 0]);
                let length = *rng.pick(&[0.0, 1e-6, 0.5, 1.0, 10.0, 35.0, 70.0, 100.0, 140.0, 280.0, 560.5, 2000.0, 19_999.0, 20_000.0, -1.0]);
                if slides >= 20 {
                    tags.push("many-repeats");
                }
                if length >= 2000.0 {
                    tags.push("huge-slider");
                }
                if length <= 0.0 {
                    tags.push("zero-length-slider");
                }
                ObjKind::Slider { curve, points: pts, slides, length }
            }
            2 => {
                let d = *rng.pick(&[0.0, 1.0, 1.0, 2.0, 50.0, 100.0, 500.0, 3000.0, 60_000.0, -1.0, -5000.0, 1e7]);
                if d <= 1.0 {
                    tags.push("spinner-0/1ms");
                }
                ObjKind::Spinner { end: (t + d).clamp(-2_147_483_648.0, 2_147_483_647.0) }
            }
            _ => {
                let d = *rng.pick(&[0.0, 1.0, 50.0, 99.0, 100.0, 101.0, 200.0, 1000.0, -1.0, -500.0, 100_000.0]);
                if d < 0.0 {
                    tags.push("hold-end<start");
                }
                ObjKind::Hold { end: (t + d).clamp(-2_147_483_648.0, 2_147_483_647.0) }
            }
        };
        m.objects.push(ObjSpec { x, y, time: t, sound, kind });
        let remaining = (total_budget - (t - t0)).max(0.0);
        let gap = match spacing_prof {
            0 => 1.0,
            1 => *rng.pick(&[0.0, 0.0, 1.0, 1.0, 2.0, 15.0]),
            2 => *rng.pick(&[40.0, 75.0, 80.0, 95.0, 105.0, 125.0, 135.0, 150.0, 250.0, 500.0]),
            3 => {
                if rng.chance(1, 6) {
                    *rng.pick(&[60_000.0, 3_600_000.0, 20_000_000.0, 80_000_000.0])
                } else {
                    rng.range(0, 1200) as f64
                }
            }
            4 => rng.range(0, 400) as f64 + *rng.pick(&[0.0, 0.25, 0.5, 0.999]),
            _ => *rng.pick(&[0.0, 125.0, 250.0, 1000.0, 10_000.0]),
        };
        if gap >= 60_000.0 {
            tags.push("huge-gap");
        }
        if gap == 1.0 {
            tags.push("1ms-spacing");
        }
        let _ = i;
        t = (t + gap.min(remaining)).min(2_147_483_647.0);
    }
    if rng.chance(1, 5) && n > 0 {
        let a = t0 + rng.range(0, 5000) as f64;
        m.breaks.push((a, a + *rng.pick(&[0.0, 1.0, 650.0, 10_000.0, 1e9, -100.0])));
    }
    tags.sort_unstable();
    tags.dedup();
    (m, tags)
}

/// Structured map inside the ranges the editor can produce (realistic domain).
fn real_spec(rng: &mut Rng) -> (MapSpec, Vec<&'static str>) {
    let mut tags = Vec::new();
    let mode = rng.below(4) as u8;
    let mut m = MapSpec { mode, ..Default::default() };
    m.version = *rng.pick(&[3, 5, 6, 7, 8, 9, 10, 11, 12, 13, 14, 14, 14, 14, 128]);
    let attr = |rng: &mut Rng| rng.range(0, 100) as f32 * 0.1;
    m.ar = attr(rng);
    m.cs = if mode == 3 { rng.range(1, 10) as f32 } else { attr(rng) };
    m.hp = attr(rng);
    m.od = attr(rng);
    m.slider_multiplier = *rng.pick(&[0.4, 0.8, 1.0, 1.4, 1.7, 2.0, 2.6, 3.6]);
    m.slider_tick_rate = *rng.pick(&[0.5, 1.0, 1.0, 2.0, 3.0, 4.0, 8.0]);
    m.stack_leniency = *rng.pick(&[0.0, 0.2, 0.5, 0.7, 1.0]);
    let t0: f64 = match rng.below(5) {
        0 => {
            tags.push("t0=0");
            0.0
        }
        1 => {
            tags.push("t0~3h");
            10_800_000.0 - rng.range(1000, 400_000) as f64
        }
        2 => {
            tags.push("t0-minutes");
            rng.range(60_000, 9_000_000) as f64
        }
        _ => {
            tags.push("t0-small");
            rng.range(0, 5000) as f64
        }
    };
    m.timing.clear();
    let beat = *rng.pick(&[100.0, 150.0, 200.0, 250.0, 300.0, 333.333333333333, 375.0, 400.0, 461.538461538462, 500.0, 600.0, 750.0, 1000.0, 2000.0]);
    m.timing.push(TimingSpec { time: if rng.chance(1, 2) { 0.0 } else { (t0 - rng.range(0, 3000) as f64).max(0.0) }, beat_len: beat, uninherited: true, kiai: false });
    for _ in 0..rng.range(0, 6) {
        let inh = rng.chance(2, 3);
        m.timing.push(TimingSpec {
            time: t0 + rng.range(0, 120_000) as f64,
            beat_len: if inh { -(*rng.pick(&[25.0, 50.0, 66.6666666666667, 80.0, 100.0, 125.0, 133.333333333333, 200.0, 400.0, 1000.0])) } else { *rng.pick(&[200.0, 300.0, 400.0, 500.0, 800.0]) },
            uninherited: !inh,
            kiai: rng.chance(1, 3),
        });
    }
    let n = match rng.below(6) {
        0 => rng.range(0, 4),
        1..=3 => rng.range(4, 60),
        _ => rng.range(60, MAX_OBJECTS as i64),
    } as usize;
    let columns = m.cs.clamp(1.0, 18.0) as i32;
    let weights: [u64; 4] = match mode {
        3 => [5, 0, 0, 4],
        1 => [8, 2, 1, 0],
        _ => [6, 4, 1, 0],
    };
    let total_w: u64 = weights.iter().sum();
    let dense = rng.chance(1, 4);
    let stacky = rng.chance(1, 4);
    let mut t = t0;
    let (mut px, mut py) = (256, 192);
    for _ in 0..n {
        let (mut x, y) = if stacky && rng.chance(2, 3) { (px + rng.range(-1, 1) as i32, py + rng.range(-1, 1) as i32) } else { (rng.range(-40, 552) as i32, rng.range(-40, 424) as i32) };
        if mode == 3 {
            x = (rng.range(0, (columns - 1) as i64) as i32 * 512 + 256) / columns;
        }
        px = x;
        py = y;
        let mut pick = rng.below(total_w);
        let mut k = 0;
        while pick >= weights[k] {
            pick -= weights[k];
            k += 1;
        }
        let sound = *rng.pick(&[0u8, 0, 2, 4, 8, 10, 6, 12, 14]);
        let mut dur = 0.0;
        let kind = match k {
            0 => ObjKind::Circle,
            1 => {
                let curve = *rng.pick(&['L', 'B', 'P', 'C']);
                let np = if curve == 'P' { 2 } else { rng.range(1, 5) as usize };
                let mut pts = Vec::new();
                let (mut cx, mut cy) = (x, y);
                for _ in 0..np {
                    cx = (cx + rng.range(-140, 140) as i32).clamp(-60, 572);
                    cy = (cy + rng.range(-110, 110) as i32).clamp(-60, 444);
                    pts.push((cx, cy));
                    if rng.chance(1, 12) {
                        pts.push((cx, cy));
                    }
                }
                let slides = *rng.pick(&[1u32, 1, 1, 1, 2, 2, 3, 4, 6, 10]);
                let length = *rng.pick(&[8.75, 17.5, 35.0, 52.5, 70.0, 105.0, 140.0, 210.0, 280.0, 420.0, 560.0, 900.0]);
                dur = f64::from(slides) * length / (100.0 * m.slider_multiplier) * beat;
                ObjKind::Slider { curve, points: pts, slides, length }
            }
            2 => {
                dur = *rng.pick(&[1.0, 50.0, 200.0, 500.0, 1000.0, 3000.0, 10_000.0, 30_000.0]);
                if dur <= 1.0 {
                    tags.push("spinner-0/1ms");
                }
                ObjKind::Spinner { end: t + dur }
            }
            _ => {
                let d = *rng.pick(&[30.0, 60.0, 99.0, 100.0, 125.0, 250.0, 500.0, 1000.0, 4000.0]);
                ObjKind::Hold { end: t + d }
            }
        };
        m.objects.push(ObjSpec { x, y, time: t, sound, kind });
        let gap = if dense { *rng.pick(&[10.0, 20.0, 30.0, 40.0, 60.0, 75.0]) } else { *rng.pick(&[0.0, 62.5, 75.0, 83.0, 100.0, 125.0, 150.0, 166.0, 250.0, 333.0, 500.0, 1000.0, 2000.0, 15_000.0]) };
        t += if mode == 3 || rng.chance(1, 8) { gap } else { dur.floor().min(60_000.0) + gap };
        t = t.min(10_800_000.0);
    }
    if rng.chance(1, 4) && n > 4 {
        let a = t0 + rng.range(0, 60_000) as f64;
        m.breaks.push((a, a + rng.range(650, 20_000) as f64));
    }
    tags.sort_unstable();
    tags.dedup();
    (m, tags)
}

const EXTREME: [&str; 40] = [
    "1e300", "-1e300", "NaN", "inf", "-inf", "-0", "2147483647", "2147483648", "-2147483648", "-2147483647", "4294967296",
    "1e-320", "9007199254740993", "131072", "131073", "-131072", "9001", "9000", "101", "100", "3.4028235e38", "-1", "0", "1",
    "1e38", "2147483520", "16777216", "16777217", "33554433", "1e10", "1e9", "0.0001", "-0.0001", "20000", "10000", "10001",
    "-10001", "2147483000", "86400000", "0.5",
];
const REALISTIC: [&str; 24] = [
    "0", "1", "2", "3", "4", "5", "6", "8", "12", "64", "100", "128", "192", "256", "384", "500", "512", "1000", "-100", "-50",
    "-200", "0.5", "1.5", "333.33",
];

/// A window of at most `MAX_OBJECTS` consecutive hit-object lines of a resource map.
fn windowed(rng: &mut Rng, text: &str) -> String {
    let lines: Vec<&str> = text.lines().collect();
    let Some(start) = lines.iter().position(|l| l.trim() == "[HitObjects]") else {
        return text.to_owned();
    };
    let objs: Vec<&str> = lines[start + 1..].iter().copied().filter(|l| !l.trim().is_empty()).collect();
    let keep = match rng.below(4) {
        0 => rng.range(0, 12),
        1 => rng.range(12, 80),
        _ => rng.range(80, MAX_OBJECTS as i64 - 20),
    } as usize;
    let keep = keep.min(objs.len());
    let from = rng.below((objs.len() - keep + 1) as u64) as usize;
    let mut out: String = lines[..=start].join("\n");
    out.push('\n');
    for l in &objs[from..from + keep] {
        out.push_str(l);
        out.push('\n');
    }
    out
}

fn section_of(lines: &[String], i: usize) -> &str {
    lines[..=i].iter().rev().find(|l| l.starts_with('[')).map_or("", |s| s.as_str())
}

/// Line / field / byte level mutation of a (windowed) resource map.
fn mutate(rng: &mut Rng, text: &str, domain: Domain) -> (Vec<u8>, String, Vec<&'static str>) {
    let mut lines: Vec<String> = text.lines().map(str::to_owned).collect();
    let mut tags = Vec::new();
    let n_kinds = if domain == Domain::Adv { 13 } else { 8 };
    let kind = rng.below(n_kinds);
    let pick_line = |rng: &mut Rng, lines: &[String]| rng.below(lines.len().max(1) as u64) as usize;
    // lines of the sections whose numbers the calculations read
    let numeric_lines = |lines: &[String]| -> Vec<usize> {
        (0..lines.len())
            .filter(|&i| {
                let s = section_of(lines, i);
                (s == "[HitObjects]" || s == "[TimingPoints]" || s == "[Difficulty]" || s == "[Events]" || s == "[General]") && !lines[i].starts_with('[') && !lines[i].trim().is_empty()
            })
            .collect()
    };
    let name: &'static str = match kind {
        0 => "identity",
        1 => {
            if let Some(start) = lines.iter().position(|l| l.trim() == "[HitObjects]") {
                let n = lines.len() - start - 1;
                for i in (1..n).rev() {
                    let j = rng.below(i as u64 + 1) as usize;
                    lines.swap(start + 1 + i, start + 1 + j);
                }
            }
            "line:shuffle-objects"
        }
        2 => {
            for _ in 0..rng.range(1, 6) {
                let i = pick_line(rng, &lines);
                if i < lines.len() {
                    let l = lines[i].clone();
                    let j = pick_line(rng, &lines);
                    lines.insert(j, l);
                }
            }
            "line:duplicate"
        }
        3 => {
            for _ in 0..rng.range(1, 8) {
                if !lines.is_empty() {
                    let i = pick_line(rng, &lines);
                    lines.remove(i);
                }
            }
            "line:delete"
        }
        4 => {
            for _ in 0..rng.range(1, 4) {
                if lines.len() >= 2 {
                    let i = pick_line(rng, &lines);
                    let j = pick_line(rng, &lines);
                    lines.swap(i, j);
                }
            }
            "line:swap"
        }
        5 => {
            // other mode / version header
            let mode = rng.below(4);
            for l in lines.iter_mut() {
                if l.starts_with("Mode:") {
                    *l = format!("Mode: {mode}");
                }
            }
            if rng.chance(1, 2) {
                if let Some(l) = lines.first_mut() {
                    *l = format!("osu file format v{}", rng.pick(&[3, 4, 5, 6, 7, 8, 9, 10, 11, 12, 13, 14, 128]));
                }
            }
            "field:mode-version"
        }
        6 | 7 => {
            // realistic field replacement
            let cand = numeric_lines(&lines);
            for _ in 0..rng.range(1, 8) {
                if cand.is_empty() {
                    break;
                }
                let i = *rng.pick(&cand);
                let sep = if lines[i].contains(',') { ',' } else { ':' };
                let mut f: Vec<String> = lines[i].split(sep).map(str::to_owned).collect();
                let k = rng.below(f.len() as u64) as usize;
                f[k] = (*rng.pick(&REALISTIC)).to_owned();
                lines[i] = f.join(&sep.to_string());
            }
            "field:realistic-numbers"
        }
        8 | 9 | 10 => {
            let cand = numeric_lines(&lines);
            for _ in 0..rng.range(1, 8) {
                if cand.is_empty() {
                    break;
                }
                let i = *rng.pick(&cand);
                let sep = if lines[i].contains(',') { ',' } else { ':' };
                let mut f: Vec<String> = lines[i].split(sep).map(str::to_owned).collect();
                let k = rng.below(f.len() as u64) as usize;
                f[k] = (*rng.pick(&EXTREME)).to_owned();
                lines[i] = f.join(&sep.to_string());
            }
            tags.push("extreme-field");
            "field:extreme-numbers"
        }
        11 => {
            // shift every object (and timing point) time by a large offset
            let off: i64 = *rng.pick(&[16_777_216, 33_554_432, 2_000_000_000, 2_147_000_000, -2_147_000_000, 1_000_000_000, -5000]);
            for i in 0..lines.len() {
                let s = section_of(&lines, i).to_owned();
                let col = if s == "[HitObjects]" { 2 } else if s == "[TimingPoints]" { 0 } else { continue };
                let mut f: Vec<String> = lines[i].split(',').map(str::to_owned).collect();
                if f.len() > col {
                    if let Ok(v) = f[col].trim().parse::<f64>() {
                        f[col] = format!("{}", (v + off as f64).clamp(-2_147_483_648.0, 2_147_483_647.0));
                        // spinner / hold end times
                        if col == 2 && f.len() > 5 {
                            let ty = f[3].trim().parse::<i64>().unwrap_or(0);
                            if ty & 8 != 0 {
                                if let Ok(e) = f[5].trim().parse::<f64>() {
                                    f[5] = format!("{}", (e + off as f64).clamp(-2_147_483_648.0, 2_147_483_647.0));
                                }
                            }
                        }
                        lines[i] = f.join(",");
                    }
                }
            }
            tags.push("time-shift");
            "field:time-shift"
        }
        _ => {
            let mut b = lines.join("\n").into_bytes();
            for _ in 0..rng.range(1, 10) {
                if !b.is_empty() {
                    let i = rng.below(b.len() as u64) as usize;
                    b[i] = if rng.chance(1, 2) { *rng.pick(b"0123456789-.,:|eE \n") } else { rng.below(256) as u8 };
                }
            }
            return (b, "byte:flip".to_owned(), tags);
        }
    };
    (lines.join("\n").into_bytes(), name.to_owned(), tags)
}

fn corrupt(rng: &mut Rng, text: &str) -> (Vec<u8>, String) {
    match rng.below(5) {
        0 => {
            let mut b = text.as_bytes().to_vec();
            let cut = rng.below(b.len() as u64 + 1) as usize;
            b.truncate(cut);
            (b, "corrupt:truncate".into())
        }
        1 => {
            let mut b = vec![0xFF, 0xFE];
            for u in text.encode_utf16() {
                b.extend_from_slice(&u.to_le_bytes());
            }
            (b, "corrupt:utf16-le".into())
        }
        2 => {
            // splice two different texts
            let b = text.as_bytes();
            let a = rng.below(b.len() as u64 + 1) as usize;
            let c = rng.below(b.len() as u64 + 1) as usize;
            let mut o = b[..a].to_vec();
            o.extend_from_slice(&b[c..]);
            (o, "corrupt:splice".into())
        }
        3 => {
            let toks = [
                "[HitObjects]\n", "[TimingPoints]\n", "[Difficulty]\n", "[General]\n", "[Events]\n", "osu file format v", "14", "\n", "\n", ",", ",", ",", ":", "|", "1", "2",
                "12", "128", "256", "-1", "0", "NaN", "1e300", "B", "L", "P", "C", "Mode", "CircleSize", "SliderMultiplier", "//", " ", "100", "3.5", "\r\n", "2147483647", "6",
            ];
            let n = rng.range(0, 400) as usize;
            let mut s = String::new();
            for _ in 0..n {
                s.push_str(*rng.pick(&toks));
            }
            (s.into_bytes(), "corrupt:token-soup".into())
        }
        _ => {
            let mut b = text.as_bytes().to_vec();
            for _ in 0..rng.range(5, 60) {
                if !b.is_empty() {
                    let i = rng.below(b.len() as u64) as usize;
                    b[i] = rng.below(256) as u8;
                }
            }
            (b, "corrupt:many-bytes".into())
        }
    }
}

pub fn gen_case(seed: u64, domain: Domain, idx: usize) -> Case {
    if domain == Domain::Adv {
        let c = corpus();
        if idx < c.len() {
            let (m, name) = &c[idx];
            let mut text = m.render();
            if *name == "witness-curve-arc-nonfinite-centre" {
                text = text.replace("L|10:0|3244:-2736", "L|10:0|P|3244:-2736");
            }
            return Case { bytes: text.into_bytes(), origin: "corpus", kind: format!("corpus:{name}"), tags: vec![] };
        }
    }
    let mut rng = case_rng(seed, domain, idx);
    let res = resource_maps();
    let family = rng.below(10);
    match (domain, family) {
        (Domain::Adv, 0..=4) => {
            let (m, tags) = adv_spec(&mut rng);
            Case { bytes: m.render().into_bytes(), origin: "structured", kind: format!("structured:{}", mode_name(m.mode)), tags }
        }
        (Domain::Real, 0..=5) => {
            let (m, tags) = real_spec(&mut rng);
            Case { bytes: m.render().into_bytes(), origin: "structured", kind: format!("structured:{}", mode_name(m.mode)), tags }
        }
        (Domain::Adv, 9) => {
            let base = if rng.chance(1, 2) || res.is_empty() {
                adv_spec(&mut rng).0.render()
            } else {
                let i = rng.below(res.len() as u64) as usize;
                windowed(&mut rng, &res[i].1)
            };
            let (b, k) = corrupt(&mut rng, &base);
            Case { bytes: b, origin: "corrupted", kind: k, tags: vec![] }
        }
        _ => {
            let base = if res.is_empty() || rng.chance(1, 5) {
                if domain == Domain::Adv { adv_spec(&mut rng).0.render() } else { real_spec(&mut rng).0.render() }
            } else {
                let i = rng.below(res.len() as u64) as usize;
                windowed(&mut rng, &res[i].1)
            };
            let (b, k, tags) = mutate(&mut rng, &base, domain);
            Case { bytes: b, origin: "mutated", kind: format!("mutated:{k}"), tags }
        }
    }
}

// ------------------------------------------------------------------------------------------------
// filter

fn slider_bounds_ok(map: &Beatmap) -> bool {
    map.hit_objects.iter().all(|h| match &h.kind {
        HitObjectKind::Slider(s) => {
            s.repeats <= MAX_REPEATS
                && s.expected_dist.map_or(true, |d| d.abs() <= MAX_SLIDER_PX)
                && s.control_points.len() <= MAX_CONTROL_POINTS
                && s.control_points.iter().all(|p| p.pos.x.abs() <= MAX_SLIDER_PX as f32 && p.pos.y.abs() <= MAX_SLIDER_PX as f32)
        }
        _ => true,
    })
}

/// times in [0, 3 h] (end times included), coordinates near the playfield
fn realistic(map: &Beatmap) -> bool {
    const H3: f64 = 10_800_000.0;
    map.hit_objects.iter().all(|h| {
        let end = match h.kind {
            HitObjectKind::Spinner(s) => h.start_time + s.duration,
            HitObjectKind::Hold(s) => h.start_time + s.duration,
            _ => h.start_time,
        };
        let near = |p: rosu_pp::model::hit_object::Pos| p.x >= -256.0 && p.x <= 768.0 && p.y >= -256.0 && p.y <= 640.0;
        let pts_ok = match &h.kind {
            HitObjectKind::Slider(s) => s.control_points.iter().all(|c| near(h.pos + c.pos)) && s.expected_dist.map_or(true, |d| (0.0..=2000.0).contains(&d)) && s.repeats <= 20,
            _ => true,
        };
        h.start_time >= 0.0 && h.start_time <= H3 && end >= h.start_time && end <= H3 + 60_000.0 && near(h.pos) && pts_ok
    }) && map.timing_points.iter().all(|t| t.time >= -10_000.0 && t.time <= H3)
}

/// Estimated total slider time in ms: `spans * dist / (100 * slider_multiplier * sv) * beat_len`
/// with the control points active at the slider's start (last point at or before it; the first
/// timing point before any).
fn slider_ms_estimate(map: &Beatmap) -> f64 {
    let mut total = 0.0;
    for h in &map.hit_objects {
        if let HitObjectKind::Slider(s) = &h.kind {
            let beat = map
                .timing_points
                .iter()
                .rev()
                .find(|t| t.time <= h.start_time)
                .or(map.timing_points.first())
                .map_or(1000.0, |t| t.beat_len);
            let dp = map.difficulty_points.iter().rev().find(|t| t.time <= h.start_time);
            let sv = dp.map_or(1.0, |d| d.slider_velocity);
            let bm = dp.map_or(1.0, |d| d.bpm_multiplier);
            // without a positive expected distance the path is as long as its control points make
            // it (a perfect-curve arc is at most pi/2 times its chord polyline; 4x is generous)
            let dist = match s.expected_dist {
                Some(d) if d > 0.0 => d,
                _ => {
                    let mut len = 0.0f64;
                    let mut prev = rosu_pp::model::hit_object::Pos::default();
                    for c in s.control_points.iter() {
                        len += f64::from((c.pos - prev).length());
                        prev = c.pos;
                    }
                    4.0 * len
                }
            };
            let px_per_beat = 100.0 * map.slider_multiplier * sv;
            let a = (s.repeats + 1) as f64 * dist.abs() / px_per_beat.max(1e-9) * beat;
            // version < 8 style: beat length scaled by the bpm multiplier
            let b = (s.repeats + 1) as f64 * dist.abs() / (100.0 * map.slider_multiplier).max(1e-9) * beat * bm;
            let d = a.max(b);
            if d.is_finite() {
                total += d;
            } else {
                return f64::INFINITY;
            }
        }
    }
    total
}

/// time between the first start and the last start / end
fn span_ms(map: &Beatmap) -> f64 {
    let first = map.hit_objects.first().map_or(0.0, |h| h.start_time);
    let mut last = first;
    for h in &map.hit_objects {
        let end = match h.kind {
            HitObjectKind::Spinner(s) => h.start_time + s.duration,
            HitObjectKind::Hold(s) => h.start_time + s.duration,
            _ => h.start_time,
        };
        last = last.max(end).max(h.start_time);
    }
    last - first
}

// ------------------------------------------------------------------------------------------------
// the calculations

static LAST_PANIC_LOC: Mutex<String> = Mutex::new(String::new());
/// bumped before every call of a worker; watched by the worker's own watchdog thread
static CALLS: std::sync::atomic::AtomicU64 = std::sync::atomic::AtomicU64::new(0);

/// CPU time (user + system) of the calling thread in ms, from /proc/thread-self/stat (USER_HZ = 100).
/// The time budget is judged on CPU time so that a loaded machine does not produce false alarms.
fn thread_cpu_ms() -> Option<u128> {
    let s = fs::read_to_string("/proc/thread-self/stat").ok()?;
    let rest = &s[s.rfind(')')? + 1..];
    let mut it = rest.split_whitespace();
    let utime: u128 = it.nth(11)?.parse().ok()?;
    let stime: u128 = it.next()?.parse().ok()?;
    Some((utime + stime) * 10)
}

fn parent_pid() -> Option<u64> {
    // /proc/self/stat: `pid (comm) state ppid …`
    let s = fs::read_to_string("/proc/self/stat").ok()?;
    let rest = &s[s.rfind(')')? + 1..];
    rest.split_whitespace().nth(1)?.parse().ok()
}

/// A worker must never outlive its usefulness: it exits when its parent is gone (the harness was
/// killed, e.g. by ./check's timeout) or when a single call has been running for twice the
/// parent's watchdog time (the parent would have killed it by then).
fn spawn_self_watchdog() {
    use std::sync::atomic::Ordering;
    let ppid0 = parent_pid();
    std::thread::spawn(move || {
        let mut last = CALLS.load(Ordering::Relaxed);
        let mut since = Instant::now();
        loop {
            std::thread::sleep(Duration::from_secs(2));
            let now = CALLS.load(Ordering::Relaxed);
            if now != last {
                last = now;
                since = Instant::now();
            }
            if since.elapsed() > 2 * CASE_TIMEOUT || (ppid0.is_some() && parent_pid() != ppid0) {
                std::process::exit(9);
            }
        }
    });
}

struct Rec {
    /// single-case workers announce every call before making it, so that a hang / abort is
    /// attributed to one API call
    trace: Option<fs::File>,
    beat: Option<fs::File>,
    last_beat: Instant,
    cpu_cached: Option<u128>,
    cpu_read_at: Instant,
    apis: BTreeMap<&'static str, u64>,
    /// (api, class, detail)
    fails: Vec<(String, String, String)>,
    max_call_ms: u128,
    ctx: String,
    /// the case (slider time) or the current settings block (sections) is heavy
    heavy: bool,
    /// judgements of the current mania block (`n_objects + n_hold_notes`), 0 elsewhere
    mania_n: u64,
    /// the map has a slider whose curve (as catch computes it) has a non-finite vertex — the narrow
    /// classifier of the known finding `curve-nan-vertex`
    curve_nan: bool,
}


impl Rec {
    fn count(&mut self, key: &'static str) {
        *self.apis.entry(key).or_insert(0) += 1;
    }

    fn call<T>(&mut self, api: &'static str, f: impl FnOnce() -> T) -> Option<T> {
        *self.apis.entry(api).or_insert(0) += 1;
        CALLS.fetch_add(1, std::sync::atomic::Ordering::Relaxed);
        // heartbeat: the parent's watchdog looks at the growth of the protocol file
        if self.last_beat.elapsed() > Duration::from_secs(1) {
            self.last_beat = Instant::now();
            if let Some(f) = self.beat.as_mut() {
                let _ = writeln!(f, "H");
                let _ = f.flush();
            }
        }
        if let Some(f) = self.trace.as_mut() {
            let _ = writeln!(f, "A\t{api}\t{}", sanitize(&self.ctx));
            let _ = f.flush();
        }
        let t = Instant::now();
        // CPU clock of this thread, re-read at most every 50 ms of wall time
        if self.cpu_read_at.elapsed() > Duration::from_millis(50) {
            self.cpu_cached = thread_cpu_ms();
            self.cpu_read_at = t;
        }
        let r = std::panic::catch_unwind(std::panic::AssertUnwindSafe(f));
        let wall = t.elapsed().as_millis();
        let ms = if wall > SLOW_CALL_MS {
            match (self.cpu_cached, thread_cpu_ms()) {
                (Some(a), Some(b)) => b.saturating_sub(a).min(wall),
                _ => wall,
            }
        } else {
            wall
        };
        self.max_call_ms = self.max_call_ms.max(ms);
        if ms > SLOW_CALL_MS && self.fails.len() < 8 {
            // narrow classifiers of the two known findings about the time budget
            let n3 = (self.mania_n as f64).powi(3);
            let class = if self.heavy {
                "resource-proportional-work"
            } else if (api.starts_with("performance") || api.starts_with("gradual_perf")) && self.mania_n >= 600 && (ms as f64) <= 2e-5 * n3 {
                "mania-generate-state-cubic-search"
            } else {
                ""
            };
            self.fails.push((api.to_owned(), class.to_owned(), format!("slow: {ms} ms CPU, {wall} ms wall (budget {SLOW_CALL_MS} ms) [{}]", self.ctx)));
        }
        match r {
            Ok(v) => Some(v),
            Err(e) => {
                let msg = if let Some(s) = e.downcast_ref::<&str>() {
                    (*s).to_owned()
                } else if let Some(s) = e.downcast_ref::<String>() {
                    s.clone()
                } else {
                    "panic".to_owned()
                };
                let loc = LAST_PANIC_LOC.lock().map(|g| g.clone()).unwrap_or_default();
                // (the former class taiko-gradual-first-two-objects — `total_hits - idx` of the taiko
                // gradual len() overflowing — is fixed in /repo: such a panic is an ordinary failure)
                // known finding `curve-nan-vertex`: a NaN x position of a nested catch object reaches
                // `f32::clamp` in `Movement::strain_value_at` (assert `min <= max`). Narrow: the map has a
                // slider whose real curve is non-finite, the target is catch, and it is this assertion.
                let class = if self.curve_nan && self.ctx.contains("target=catch") && msg.contains("min > max, or either was NaN") { "curve-nan-vertex" } else { "" };
                if self.fails.len() < 8 {
                    self.fails.push((api.to_owned(), class.to_owned(), format!("panic `{msg}` at {loc} [{}]", self.ctx)));
                }
                None
            }
        }
    }
}

const KEY_BITS: [u32; 9] = [1 << 15, 1 << 16, 1 << 17, 1 << 18, 1 << 19, 1 << 24, 1 << 26, 1 << 27, 1 << 28];

/// Settings inside the documented ranges (clock rate [0.01, 100], attributes [-20, 20]).
fn rich_settings(rng: &mut Rng, mode: u8, domain: Domain) -> Settings {
    let mut s = Settings::default();
    if rng.chance(3, 5) {
        // EZ HD HR DT HT NC FL SO NF TD RX AP MR(1<<30) RD(1<<21) + key mods
        let pool = [0u32, 2, 8, 16, 64, 256, 576, 1024, 4096, 1, 4, 128, 8192, 1 << 30, 1 << 21, 1 << 20, 1 << 29, 16 + 64, 2 + 256, 8 + 16 + 64 + 1024, 2 + 64 + 8, 16 + 256];
        let mut bits = *rng.pick(&pool);
        if rng.chance(1, 3) {
            bits |= *rng.pick(&pool);
        }
        if rng.chance(1, 3) {
            bits |= *rng.pick(&KEY_BITS);
        }
        s.mods = ModsSpec::Bits(bits);
    } else {
        let mut tags = Vec::new();
        match rng.below(7) {
            0 => tags.push(LazerTag::DtRate(*rng.pick(&[1.01, 1.1, 1.5, 2.0]))),
            1 => tags.push(LazerTag::HtRate(*rng.pick(&[0.5, 0.75, 0.99]))),
            2 => tags.push(LazerTag::NcRate(*rng.pick(&[1.2, 1.5, 2.0]))),
            3 => tags.push(LazerTag::DcRate(*rng.pick(&[0.5, 0.75, 0.87]))),
            4 => tags.push(LazerTag::Acronym("HR")),
            5 => tags.push(LazerTag::Acronym("EZ")),
            _ => tags.push(LazerTag::Acronym("FL")),
        }
        if rng.chance(1, 3) {
            let v = |rng: &mut Rng| rng.chance(1, 2).then(|| rng.range(0, 22) as f64 * 0.5);
            tags.push(LazerTag::Da { ar: v(rng), cs: v(rng), hp: v(rng), od: v(rng) });
        }
        if rng.chance(1, 4) {
            tags.push(LazerTag::Classic);
        }
        if rng.chance(1, 4) {
            tags.push(LazerTag::Acronym("HD"));
        }
        if mode == 0 && rng.chance(1, 3) {
            tags.push(LazerTag::Mirror(*rng.pick(&[None, Some("0"), Some("1"), Some("2")])));
        }
        if mode == 3 {
            match rng.below(4) {
                0 => tags.push(LazerTag::HoldOff),
                1 => tags.push(LazerTag::Invert),
                2 => tags.push(LazerTag::Acronym(*rng.pick(&["1K", "2K", "3K", "4K", "5K", "6K", "7K", "8K", "9K", "10K", "DS", "MR"]))),
                _ => {}
            }
        }
        if (mode == 1 || mode == 3) && rng.chance(1, 3) {
            tags.push(LazerTag::RandomSeed(*rng.pick(&[0, 1, 42, -1, i32::MAX, i32::MIN, 1337])));
        }
        s.mods = ModsSpec::Lazer(tags);
    }
    if rng.chance(1, 3) {
        s.clock_rate = Some(if domain == Domain::Adv {
            *rng.pick(&[0.01, 0.05, 0.1, 0.5, 0.75, 0.87, 1.0, 1.1, 1.5, 2.0, 10.0, 100.0])
        } else {
            *rng.pick(&[0.5, 0.75, 0.87, 1.0, 1.1, 1.25, 1.5, 2.0])
        });
    }
    let attr = |rng: &mut Rng| {
        let v = if domain == Domain::Adv { *rng.pick(&[-20.0f32, -5.0, 0.0, 0.1, 5.0, 9.9, 10.0, 11.0, 13.33, 20.0]) } else { rng.range(0, 110) as f32 * 0.1 };
        (v, rng.chance(1, 2))
    };
    if rng.chance(1, 4) {
        s.ar = Some(attr(rng));
    }
    if rng.chance(1, 4) {
        s.cs = Some(attr(rng));
    }
    if rng.chance(1, 5) {
        s.hp = Some(attr(rng));
    }
    if rng.chance(1, 4) {
        s.od = Some(attr(rng));
    }
    if rng.chance(1, 6) {
        s.hardrock_offsets = Some(rng.chance(1, 2));
    }
    if rng.chance(1, 3) {
        s.lazer = Some(rng.chance(1, 2));
    }
    s
}

fn random_state(rng: &mut Rng, n: u32) -> ScoreState {
    let cap = 3 * n + 5;
    let mut st = ScoreState::new();
    let v = |rng: &mut Rng| match rng.below(4) {
        0 => 0,
        1 => rng.below(u64::from(n) + 1) as u32,
        _ => rng.below(u64::from(cap) + 1) as u32,
    };
    st.max_combo = v(rng);
    st.osu_large_tick_hits = v(rng);
    st.osu_small_tick_hits = v(rng);
    st.slider_end_hits = v(rng);
    st.n_geki = v(rng);
    st.n_katu = v(rng);
    st.n300 = v(rng);
    st.n100 = v(rng);
    st.n50 = v(rng);
    st.misses = v(rng);
    st
}

fn score_perf<'a>(mut p: Performance<'a>, rng: &mut Rng, n: u32) -> Performance<'a> {
    let cap = 3 * n + 5;
    let v = |rng: &mut Rng| match rng.below(3) {
        0 => rng.below(u64::from(n) + 1) as u32,
        1 => rng.below(u64::from(cap) + 1) as u32,
        _ => *rng.pick(&[0, 1, 2]),
    };
    if rng.chance(1, 2) {
        p = p.accuracy(*rng.pick(&[0.0, 0.001, 33.33, 50.0, 66.67, 80.0, 90.0, 95.5, 98.76, 99.99, 100.0]));
    }
    if rng.chance(1, 3) {
        p = p.combo(v(rng));
    }
    if rng.chance(1, 3) {
        p = p.misses(v(rng));
    }
    if rng.chance(1, 4) {
        p = p.n300(v(rng));
    }
    if rng.chance(1, 4) {
        p = p.n100(v(rng));
    }
    if rng.chance(1, 5) {
        p = p.n50(v(rng));
    }
    if rng.chance(1, 5) {
        p = p.n_geki(v(rng));
    }
    if rng.chance(1, 5) {
        p = p.n_katu(v(rng));
    }
    if rng.chance(1, 6) {
        p = p.large_tick_hits(v(rng));
    }
    if rng.chance(1, 6) {
        p = p.small_tick_hits(v(rng));
    }
    if rng.chance(1, 6) {
        p = p.slider_end_hits(v(rng));
    }
    if rng.chance(1, 3) {
        p = p.hitresult_priority(if rng.chance(1, 2) { HitResultPriority::WorstCase } else { HitResultPriority::BestCase });
    }
    if rng.chance(1, 4) {
        p = p.passed_objects(v(rng));
    }
    if rng.chance(1, 5) {
        p = p.lazer(rng.chance(1, 2));
    }
    p
}

/// Every public calculation on one decoded, non-suspicious, bounded map.
fn exercise(map: &Beatmap, rng: &mut Rng, domain: Domain, rec: &mut Rec, n_settings: usize, slider_heavy: bool, force_rate: Option<f64>) {
    let span = span_ms(map);
    rec.curve_nan = crate::common::map_has_nonfinite_curve(map, false);
    if rec.curve_nan {
        rec.count("maps-with-nonfinite-curve");
    }
    rec.ctx = "map-level".into();
    rec.call("bpm", || map.bpm());
    rec.call("total_break_time", || map.total_break_time());
    rec.call("attributes.build", || {
        let b = map.attributes();
        (b.build(), b.hit_windows())
    });
    let own = crate::common::mode_idx(map.mode);
    for si in 0..n_settings {
        for target in 0..4u8 {
            let gm = mode_of(target);
            let mut settings = rich_settings(rng, target, domain);
            if si == 0 && force_rate.is_some() {
                settings.clock_rate = force_rate;
            }
            let mods = settings.mods.build(target);
            rec.ctx = format!("target={} settings={}", mode_name(target), settings.describe());
            rec.mania_n = 0;
            rec.heavy = slider_heavy;
            let conv = rec.call("convert_ref", || map.convert_ref(gm, &mods).map(Cow::into_owned));
            if si == 0 {
                rec.call("convert_mut", || {
                    let mut m = map.clone();
                    let r = m.convert_mut(gm, &mods).is_ok();
                    (r, m.hit_objects.len())
                });
                rec.call("convert", || map.clone().convert(gm, &mods).map(|m| m.hit_objects.len()).ok());
            }
            let Some(Ok(c)) = conv else { continue };
            let n = c.hit_objects.len() as u32;
            let d = settings.build(target);
            let rate = rosu_pp::verif::difficulty_clock_rate(&d);
            let sections = span / (rate.abs().max(1e-9) * 400.0);
            let block_heavy = slider_heavy || sections >= HEAVY_SECTIONS;
            rec.heavy = block_heavy;
            if block_heavy {
                // light exercise: conversion and the one-shot calculations only
                rec.count("heavy-blocks");
                rec.ctx = format!("HEAVY slider_ms~{:.0} sections~{sections:.0} {}", slider_ms_estimate(map), rec.ctx);
                if slider_heavy && (si > 0 || !(target == own || target == 2)) {
                    continue;
                }
                let attrs = rec.call("difficulty.calculate", || d.calculate(&c));
                if !slider_heavy {
                    rec.call("difficulty.strains", || d.strains(&c));
                }
                let work = attrs.as_ref().map_or(0.0, |a| f64::from(a.max_combo())) + sections;
                if work > WORK_LIMIT && rec.fails.len() < 8 {
                    rec.fails.push((
                        "difficulty.calculate".into(),
                        "resource-proportional-work".into(),
                        format!("work-exceeds-bounds: {} decoded objects but max_combo {} and ~{sections:.0} strain sections (limit {WORK_LIMIT}) [{}]", map.hit_objects.len(), attrs.as_ref().map_or(0, |a| a.max_combo()), rec.ctx),
                    ));
                }
                if let Some(a) = attrs {
                    let mut r2 = rng.fork();
                    rec.call("performance.attrs", || score_perf(Performance::new(a).difficulty(d.clone()), &mut r2, n).calculate());
                }
                continue;
            }
            rec.call("attributes.builder", || {
                let b = BeatmapAttributesBuilder::new().map(&c).difficulty(&d).mode(gm, c.is_convert);
                (b.build(), b.hit_windows())
            });
            rec.call("attributes.builder-mods", || {
                let b = BeatmapAttributesBuilder::new().map(map).mods(mods.clone()).clock_rate(settings.clock_rate.unwrap_or(1.0)).mode(gm, own != target);
                (b.build(), b.hit_windows())
            });
            let attrs = rec.call("difficulty.calculate", || d.calculate(&c));
            if let Some(rosu_pp::any::DifficultyAttributes::Mania(a)) = &attrs {
                rec.mania_n = u64::from(a.n_objects) + u64::from(a.n_hold_notes);
            }
            rec.call("difficulty.calculate_for_mode", || match gm {
                GameMode::Osu => d.calculate_for_mode::<Osu>(map).is_ok(),
                GameMode::Taiko => d.calculate_for_mode::<Taiko>(map).is_ok(),
                GameMode::Catch => d.calculate_for_mode::<Catch>(map).is_ok(),
                GameMode::Mania => d.calculate_for_mode::<Mania>(map).is_ok(),
            });
            rec.call("difficulty.strains", || d.strains(&c));
            if si == 0 {
                rec.call("difficulty.strains_for_mode", || match gm {
                    GameMode::Osu => d.strains_for_mode::<Osu>(map).is_ok(),
                    GameMode::Taiko => d.strains_for_mode::<Taiko>(map).is_ok(),
                    GameMode::Catch => d.strains_for_mode::<Catch>(map).is_ok(),
                    GameMode::Mania => d.strains_for_mode::<Mania>(map).is_ok(),
                });
            }
            for _ in 0..2 {
                let k = match rng.below(4) {
                    0 => 0,
                    1 => rng.below(u64::from(n) + 1) as u32,
                    2 => n + rng.below(3) as u32,
                    _ => *rng.pick(&[1, 2, 3, u32::MAX]),
                };
                rec.call("difficulty.passed_objects", || d.clone().passed_objects(k).calculate(&c));
            }
            // gradual difficulty: walk with len() at every step (every `next` is a timed call of
            // its own; after WALK_BUDGET the walk jumps close to the end with `nth`), then past
            // the end
            if let Some(mut g) = rec.call("gradual.new", || GradualDifficulty::new(d.clone(), &c)) {
                rec.call("gradual.len", || g.len());
                let t_walk = Instant::now();
                let mut alive = true;
                let mut jumped = false;
                let mut after_jump = 0;
                while alive {
                    match rec.call("gradual.next", || g.next().is_some()) {
                        Some(true) => {}
                        Some(false) => break,
                        None => alive = false,
                    }
                    if alive && rec.call("gradual.len", || (g.len(), g.size_hint())).is_none() {
                        alive = false;
                    }
                    if jumped {
                        after_jump += 1;
                        if after_jump > 64 {
                            // (taiko known finding: len() can understate what is left)
                            break;
                        }
                    } else if alive && t_walk.elapsed() > WALK_BUDGET {
                        jumped = true;
                        rec.count("gradual.walk-jumps");
                        let rem = g.len();
                        if rem > 3 && rem < usize::MAX / 2 {
                            if rec.call("gradual.nth", || g.nth(rem - 3).is_some()).is_none() {
                                alive = false;
                            }
                        }
                    }
                }
                if alive {
                    rec.call("gradual.next-after-exhaustion", || g.next().is_none());
                    rec.call("gradual.len-after-exhaustion", || g.len());
                    rec.call("gradual.nth-after-exhaustion", || g.nth(3).is_none());
                }
            }
            if let Some(mut g) = rec.call("gradual.new_with_mode", || GradualDifficulty::new_with_mode(d.clone(), map, gm).ok()).flatten() {
                for _ in 0..6 {
                    let k = match rng.below(5) {
                        0 => 0,
                        1 => rng.below(4) as usize,
                        2 => rng.below(u64::from(n) + 2) as usize,
                        3 => usize::MAX,
                        _ => n as usize + rng.below(3) as usize,
                    };
                    let r = rec.call("gradual.nth", || g.nth(k).is_some());
                    rec.call("gradual.len", || g.len());
                    if r != Some(true) {
                        break;
                    }
                }
            }
            // gradual performance with random score states
            if let Some(mut g) = rec.call("gradual_perf.new", || GradualPerformance::new(d.clone(), &c)) {
                rec.call("gradual_perf.len", || g.len());
                for step in 0..8 {
                    let st = random_state(rng, n);
                    let r = match (step, rng.below(4)) {
                        (7, _) => rec.call("gradual_perf.last", || g.last(st).is_some()),
                        (_, 0) => {
                            let k = *rng.pick(&[0usize, 1, 2, 5, 50, usize::MAX]);
                            rec.call("gradual_perf.nth", || g.nth(st, k).is_some())
                        }
                        _ => rec.call("gradual_perf.next", || g.next(st).is_some()),
                    };
                    rec.call("gradual_perf.len", || g.len());
                    if r != Some(true) {
                        break;
                    }
                }
            }
            // performance with assorted score states
            for _ in 0..4 {
                let mut r2 = rng.fork();
                rec.call("performance.map", || score_perf(Performance::new(&c).difficulty(d.clone()), &mut r2, n).calculate());
            }
            {
                let mut r2 = rng.fork();
                rec.call("performance.try_mode", || match Performance::new(map).try_mode(gm) {
                    Ok(p) => Some(score_perf(p.difficulty(d.clone()), &mut r2, n).calculate()),
                    Err(_) => None,
                });
                let mut r3 = rng.fork();
                rec.call("performance.generate_state", || score_perf(Performance::new(&c).difficulty(d.clone()), &mut r3, n).generate_state());
                let mut r4 = rng.fork();
                rec.call("performance.state", || Performance::new(&c).difficulty(d.clone()).state(random_state(&mut r4, n)).calculate());
            }
            if let Some(a) = attrs {
                for _ in 0..3 {
                    let mut r2 = rng.fork();
                    let a2 = a.clone();
                    rec.call("performance.attrs", || score_perf(Performance::new(a2).difficulty(d.clone()), &mut r2, n).calculate());
                }
            }
        }
    }
}

// ------------------------------------------------------------------------------------------------
// child

fn sanitize(s: &str) -> String {
    s.chars().map(|c| if c == '\t' || c == '\n' || c == '\r' { ' ' } else { c }).take(1200).collect()
}

fn vm_hwm_kib() -> u64 {
    fs::read_to_string("/proc/self/status")
        .ok()
        .and_then(|s| s.lines().find(|l| l.starts_with("VmHWM:")).and_then(|l| l.split_whitespace().nth(1).and_then(|v| v.parse().ok())))
        .unwrap_or(0)
}

/// Runs cases `lo..hi` of `domain`, appending protocol lines to `file`.
fn child_main(seed: u64, domain: Domain, lo: usize, hi: usize, file: &Path, n_settings: usize) -> ! {
    std::panic::set_hook(Box::new(|info| {
        if let Ok(mut g) = LAST_PANIC_LOC.lock() {
            *g = info.location().map(|l| format!("{}:{}", l.file(), l.line())).unwrap_or_default();
        }
    }));
    let Ok(mut out) = fs::OpenOptions::new().create(true).append(true).open(file) else {
        std::process::exit(3);
    };
    spawn_self_watchdog();
    for idx in lo..hi {
        let _ = writeln!(out, "S\t{idx}");
        let _ = out.flush();
        let t0 = Instant::now();
        let case = gen_case(seed, domain, idx);
        let trace = if hi == lo + 1 { out.try_clone().ok() } else { None };
        let mut rec = Rec { trace, beat: out.try_clone().ok(), last_beat: Instant::now(), cpu_cached: thread_cpu_ms(), cpu_read_at: Instant::now(), apis: BTreeMap::new(), fails: Vec::new(), max_call_ms: 0, ctx: String::new(), heavy: false, mania_n: 0, curve_nan: false };
        rec.ctx = "decode".into();
        let decoded = rec.call("decode", || Beatmap::from_bytes(&case.bytes));
        let mut stage = "decode-panicked";
        let mut mode = "-";
        let mut nobj = 0usize;
        if let Some(r) = decoded {
            match r {
                Err(_) => stage = "decode-error",
                Ok(map) => {
                    nobj = map.hit_objects.len();
                    mode = mode_name(crate::common::mode_idx(map.mode));
                    // hypothesis of the sorted-map corollaries (Props/C05b.lean): decoded maps are sorted by start time
                    let sorted = map.hit_objects.windows(2).all(|w| w[0].start_time <= w[1].start_time);
                    let _ = writeln!(out, "U\t{idx}\t{}", u8::from(sorted));
                    // model lines of this map (accepted or not): `M <idx> <request> <observed>`
                    #[cfg(feature = "p05m")]
                    if !checked_profile() {
                        // thorough tier (n_settings = 2): every rejected map, every 4th accepted one (volume)
                        for (req, obs) in crate::c05_models::susp_lines_of_map(&map) {
                            if n_settings < 2 || obs != "ok" || idx % 4 == 0 {
                                let _ = writeln!(out, "M\t{idx}\t{req}\t{obs}");
                            }
                        }
                    }
                    let susp = rec.call("check_suspicion", || map.check_suspicion().is_ok());
                    stage = if susp != Some(true) {
                        "suspicious"
                    } else if nobj > MAX_OBJECTS {
                        "too-many-objects"
                    } else if !slider_bounds_ok(&map) {
                        "slider-bounds"
                    } else if domain == Domain::Real && !realistic(&map) {
                        "not-realistic"
                    } else {
                        let sl = slider_ms_estimate(&map);
                        let _ = writeln!(out, "W\t{idx}\t{sl:.0}\t{:.0}", span_ms(&map));
                        let _ = out.flush();
                        if sl >= SKIP_SLIDER_MS {
                            "heavy-skipped"
                        } else {
                            let mut rng = case_rng(seed ^ 0x5EED, domain, idx);
                            let heavy = sl >= HEAVY_SLIDER_MS;
                            // both stacking passes on the osu! objects of this map vs the Lean model
                            #[cfg(feature = "p05m")]
                            if !checked_profile() && !heavy && map.mode == GameMode::Osu && (n_settings < 2 || idx % 4 == 0) {
                                let thr = [840.0, 0.0, 1.0e9, 150.0, 1260.0][idx % 5];
                                if let Some(ls) = rec.call("osu-stacking-probe", || crate::c05_models::stk_lines_of_map(&map, thr)) {
                                    for (req, obs) in ls {
                                        let _ = writeln!(out, "M\t{idx}\t{req}\t{obs}");
                                    }
                                }
                            }
                            exercise(&map, &mut rng, domain, &mut rec, n_settings, heavy, case.kind.ends_with("witness-sections").then_some(0.01));
                            if heavy {
                                "exercised-light"
                            } else {
                                "exercised"
                            }
                        }
                    };
                }
            }
        }
        let apis: Vec<String> = rec.apis.iter().map(|(k, v)| format!("{k}={v}")).collect();
        let _ = writeln!(
            out,
            "C\t{idx}\t{}\t{}\t{stage}\t{mode}\t{nobj}\t{}\t{}\t{}\t{}\t{}",
            case.origin,
            sanitize(&case.kind),
            t0.elapsed().as_millis(),
            rec.max_call_ms,
            vm_hwm_kib(),
            case.tags.join(","),
            apis.join(",")
        );
        for (api, class, detail) in &rec.fails {
            let _ = writeln!(out, "F\t{idx}\t{api}\t{class}\t{}", sanitize(detail));
        }
        let _ = writeln!(out, "D\t{idx}");
        let _ = out.flush();
    }
    std::process::exit(0);
}

// ------------------------------------------------------------------------------------------------
// parent

struct Worker {
    child: Child,
    file: PathBuf,
    lo: usize,
    hi: usize,
    last_len: u64,
    last_change: Instant,
}

fn spawn_worker(exe: &Path, seed: u64, domain: Domain, lo: usize, hi: usize, dir: &Path, n_settings: usize, serial: usize) -> Option<Worker> {
    let file = dir.join(format!("{}-{lo}-{hi}-{serial}.txt", domain.name()));
    let _ = fs::remove_file(&file);
    let tier = format!("child:{}:{lo}:{hi}:{n_settings}:{}", domain.name(), file.display());
    // `ulimit -v` = RLIMIT_AS of the worker (no libc dependency in the harness)
    let script = format!("ulimit -v {RLIMIT_AS_KIB}; exec \"$0\" C05 \"$1\" {seed} /dev/null");
    let child = Command::new("sh")
        .arg("-c")
        .arg(script)
        .arg(exe)
        .arg(&tier)
        .stdin(Stdio::null())
        .stdout(Stdio::null())
        .stderr(Stdio::piped())
        .spawn()
        .ok()?;
    Some(Worker { child, file, lo, hi, last_len: 0, last_change: Instant::now() })
}

#[derive(Default)]
struct Progress {
    started: Option<usize>,
    done_upto: Option<usize>,
}

fn progress(text: &str) -> Progress {
    let mut p = Progress::default();
    for l in text.lines() {
        let mut it = l.split('\t');
        match (it.next(), it.next().and_then(|v| v.parse::<usize>().ok())) {
            (Some("S"), Some(i)) => p.started = Some(i),
            (Some("D"), Some(i)) => {
                p.done_upto = Some(i);
                if p.started == Some(i) {
                    p.started = None;
                }
            }
            _ => {}
        }
    }
    p
}

fn repro_of(seed: u64, domain: Domain, idx: usize) -> String {
    let c = gen_case(seed, domain, idx);
    let text = String::from_utf8_lossy(&c.bytes);
    let hex_needed = std::str::from_utf8(&c.bytes).is_err();
    let mut s = format!("case {}:{idx} seed {seed} kind {} ({} bytes)\n", domain.name(), c.kind, c.bytes.len());
    if hex_needed {
        s.push_str("bytes (hex): ");
        for b in c.bytes.iter().take(6000) {
            let _ = write!(s, "{b:02x}");
        }
        s.push('\n');
    }
    s.push_str(&text.chars().take(12_000).collect::<String>());
    s
}

fn last_call(text: &str) -> String {
    text.lines().rev().find(|l| l.starts_with("A\t")).map_or("(none)".to_owned(), |l| l[2..].replace('\t', " "))
}

/// Did the worker announce (W line) a slider-time-heavy map for case `idx`?
fn heavy_from(text: &str, idx: usize) -> bool {
    text.lines().any(|l| {
        let f: Vec<&str> = l.split('\t').collect();
        f.len() >= 3 && f[0] == "W" && f[1].parse::<usize>().ok() == Some(idx) && f[2].parse::<f64>().map_or(false, |v| v >= HEAVY_SLIDER_MS)
    }) || last_call(text).contains("HEAVY")
}

struct Outcome {
    heavy: bool,
    /// ok / hang / abort
    status: &'static str,
    detail: String,
}

/// Runs a single case alone in a fresh worker (confirmation of a hang / abort, and replays).
fn run_alone(exe: &Path, seed: u64, domain: Domain, idx: usize, dir: &Path, n_settings: usize, lines: &mut Vec<String>) -> Outcome {
    let Some(mut w) = spawn_worker(exe, seed, domain, idx, idx + 1, dir, n_settings, 900_000 + idx) else {
        return Outcome { heavy: false, status: "abort", detail: "cannot spawn worker".into() };
    };
    let t = Instant::now();
    loop {
        match w.child.try_wait() {
            Ok(Some(st)) => {
                let mut err = String::new();
                if let Some(mut e) = w.child.stderr.take() {
                    use std::io::Read;
                    let _ = e.read_to_string(&mut err);
                }
                let text = fs::read_to_string(&w.file).unwrap_or_default();
                let _ = fs::remove_file(&w.file);
                return if st.success() {
                    lines.extend(text.lines().filter(|l| !l.starts_with("A\t")).map(str::to_owned));
                    Outcome { heavy: false, status: "ok", detail: String::new() }
                } else {
                    Outcome { heavy: heavy_from(&text, idx), status: "abort", detail: format!("worker exit status {st}; last call started: {}; stderr: {}", last_call(&text), sanitize(&err)) }
                };
            }
            Ok(None) => {
                let len = fs::metadata(&w.file).map(|m| m.len()).unwrap_or(0);
                if len != w.last_len {
                    w.last_len = len;
                    w.last_change = Instant::now();
                }
                if w.last_change.elapsed() > CASE_TIMEOUT || t.elapsed() > 10 * CASE_TIMEOUT {
                    let _ = w.child.kill();
                    let _ = w.child.wait();
                    let text = fs::read_to_string(&w.file).unwrap_or_default();
                    let last = last_call(&text);
                    let _ = fs::remove_file(&w.file);
                    return Outcome { heavy: heavy_from(&text, idx), status: "hang", detail: format!("no result within {} s; last call started: {last}", CASE_TIMEOUT.as_secs()) };
                }
                std::thread::sleep(Duration::from_millis(20));
            }
            Err(e) => return Outcome { heavy: false, status: "abort", detail: format!("wait failed: {e}") },
        }
    }
}

/// Runs cases `0..n` of a domain through workers; returns the protocol lines of all workers and
/// records hangs / aborts as failures.
fn run_domain(run: &mut Run, exe: &Path, seed: u64, domain: Domain, n: usize, dir: &Path, n_settings: usize, jobs: usize, label: &str) -> Vec<String> {
    let mut pending: Vec<(usize, usize)> = Vec::new();
    let mut lo = 0;
    // the corpus (regression inputs) runs one case per worker so that hangs time out concurrently
    let singles = if domain == Domain::Adv { corpus().len().min(n) } else { 0 };
    while lo < n {
        let hi = if lo < singles { lo + 1 } else { (lo + BATCH).min(n) };
        pending.push((lo, hi));
        lo = hi;
    }
    pending.reverse();
    let mut workers: Vec<Worker> = Vec::new();
    let mut lines: Vec<String> = Vec::new();
    let mut serial = 0usize;
    let mut incidents: Vec<(usize, &'static str, String)> = Vec::new();
    while !pending.is_empty() || !workers.is_empty() {
        while workers.len() < jobs {
            let Some((lo, hi)) = pending.pop() else { break };
            serial += 1;
            match spawn_worker(exe, seed, domain, lo, hi, dir, n_settings, serial) {
                Some(w) => workers.push(w),
                None => {
                    run.fail("oracle:worker-spawn-failed", "", &format!("{label}{}:{lo}", domain.name()), "cannot spawn sh/ulimit worker".into(), String::new());
                }
            }
        }
        let mut i = 0;
        while i < workers.len() {
            let w = &mut workers[i];
            let len = fs::metadata(&w.file).map(|m| m.len()).unwrap_or(0);
            if len != w.last_len {
                w.last_len = len;
                w.last_change = Instant::now();
            }
            let finished = match w.child.try_wait() {
                Ok(Some(st)) => Some((st.success(), format!("{st}"))),
                Ok(None) => None,
                Err(e) => Some((false, format!("wait failed: {e}"))),
            };
            let timed_out = finished.is_none() && w.last_change.elapsed() > CASE_TIMEOUT;
            if finished.is_none() && !timed_out {
                i += 1;
                continue;
            }
            let mut w = workers.swap_remove(i);
            if timed_out {
                let _ = w.child.kill();
                let _ = w.child.wait();
            }
            let mut err = String::new();
            if let Some(mut e) = w.child.stderr.take() {
                use std::io::Read;
                let _ = e.read_to_string(&mut err);
            }
            let text = fs::read_to_string(&w.file).unwrap_or_default();
            let _ = fs::remove_file(&w.file);
            let p = progress(&text);
            let clean = matches!(finished, Some((true, _))) && p.started.is_none() && (w.hi == w.lo || p.done_upto == Some(w.hi - 1));
            // keep the complete records (cases with a D line)
            let mut cur: Vec<&str> = Vec::new();
            for l in text.lines() {
                cur.push(l);
                if l.starts_with("D\t") {
                    lines.extend(cur.drain(..).map(str::to_owned));
                }
            }
            if !clean {
                // the offending case is the one started and not done (or the next undone one)
                let bad = p.started.unwrap_or_else(|| p.done_upto.map_or(w.lo, |d| d + 1)).min(w.hi.saturating_sub(1));
                let what = if timed_out { "hang" } else { "abort" };
                let detail = if timed_out {
                    format!("no progress for {} s", CASE_TIMEOUT.as_secs())
                } else {
                    format!("worker {}; stderr: {}", finished.map(|f| f.1).unwrap_or_default(), sanitize(&err))
                };
                incidents.push((bad, what, detail));
                if incidents.len() >= MAX_INCIDENTS {
                    // the violation is established; do not spend hours on further hangs
                    if !pending.is_empty() {
                        run.notes.push(format!("{label}{}: search stopped after {MAX_INCIDENTS} hang/abort incidents, {} batches not run", domain.name(), pending.len()));
                    }
                    pending.clear();
                } else if bad + 1 < w.hi {
                    pending.push((bad + 1, w.hi));
                }
            }
        }
        std::thread::sleep(Duration::from_millis(15));
    }
    // confirm each incident alone (in parallel): attributes it to exactly one case and one call
    incidents.sort();
    incidents.dedup_by_key(|x| x.0);
    let mut confirmed: Vec<(usize, &'static str, String, Outcome, Vec<String>)> = Vec::new();
    for chunk in incidents.chunks(jobs.max(1)) {
        let results: Vec<(Outcome, Vec<String>)> = std::thread::scope(|sc| {
            let hs: Vec<_> = chunk
                .iter()
                .map(|(idx, _, _)| {
                    let idx = *idx;
                    sc.spawn(move || {
                        let mut l2 = Vec::new();
                        let o = run_alone(exe, seed, domain, idx, dir, n_settings, &mut l2);
                        (o, l2)
                    })
                })
                .collect();
            hs.into_iter().map(|h| h.join().unwrap_or_else(|_| (Outcome { heavy: false, status: "abort", detail: "confirmation thread panicked".into() }, Vec::new()))).collect()
        });
        for ((idx, what, detail), (o, l2)) in chunk.iter().cloned().zip(results) {
            confirmed.push((idx, what, detail, o, l2));
        }
    }
    for (idx, what, detail, o, l2) in confirmed {
        let id = format!("{label}{}:{idx}", domain.name());
        match o.status {
            "ok" => {
                // not reproducible in isolation: keep the case's records, report it all the same
                lines.extend(l2);
                run.fail(
                    &format!("oracle:{what}-in-batch-only"),
                    "",
                    &id,
                    format!("{what} inside a batch ({detail}) but the case alone completes; worker limit {RLIMIT_AS_KIB} KiB"),
                    repro_of(seed, domain, idx),
                );
            }
            st => {
                run.count(&format!("{label}incident:{st}"));
                run.fail(
                    &format!("oracle:{st}"),
                    if o.heavy { "resource-proportional-work" } else { "" },
                    &id,
                    format!("{st}: {} (first seen in a batch as {what}: {detail}); worker limit {RLIMIT_AS_KIB} KiB address space, watchdog {} s", o.detail, CASE_TIMEOUT.as_secs()),
                    repro_of(seed, domain, idx),
                );
            }
        }
    }
    lines
}

fn digest(run: &mut Run, seed: u64, domain: Domain, lines: &[String], label: &str) {
    let mut max_ms = 0u128;
    let mut max_call = 0u128;
    let mut max_hwm = 0u64;
    let mut sampled = 0;
    // completion order of the workers is arbitrary: order the records by case index
    let mut sorted: Vec<(usize, usize, &String)> = lines
        .iter()
        .enumerate()
        .map(|(k, l)| (l.split('\t').nth(1).and_then(|v| v.parse().ok()).unwrap_or(0), k, l))
        .collect();
    sorted.sort();
    for (_, _, l) in sorted {
        let f: Vec<&str> = l.split('\t').collect();
        match f.first().copied() {
            Some("C") if f.len() >= 12 => {
                let idx: usize = f[1].parse().unwrap_or(0);
                let (origin, kind, stage, mode, nobj) = (f[2], f[3], f[4], f[5], f[6]);
                run.count(&format!("{label}generated"));
                run.count(&format!("{label}origin:{origin}"));
                run.count(&format!("{label}stage:{stage}"));
                let kind_key = kind.split(':').take(2).collect::<Vec<_>>().join(":");
                run.count(&format!("{label}kind:{kind_key}"));
                if stage != "decode-error" && stage != "decode-panicked" {
                    run.count(&format!("{label}decoded"));
                }
                if stage == "exercised" || stage == "exercised-light" {
                    run.count(&format!("{label}exercised:{mode}"));
                    run.count(&format!("{label}exercised-kind:{kind_key}"));
                    let n: usize = nobj.parse().unwrap_or(0);
                    let b = match n {
                        0 => "0",
                        1..=2 => "1-2",
                        3..=20 => "3-20",
                        21..=100 => "21-100",
                        _ => "101-400",
                    };
                    run.count(&format!("{label}exercised-objects:{b}"));
                    for t in f[10].split(',').filter(|t| !t.is_empty()) {
                        run.count(&format!("{label}corner:{t}"));
                    }
                    for kv in f[11].split(',') {
                        if let Some((k, v)) = kv.split_once('=') {
                            run.count_n(&format!("{label}api:{k}"), v.parse().unwrap_or(0));
                        }
                    }
                    run.eval(Some(&format!("{label}{}:{idx}", domain.name())));
                    if sampled < 2 {
                        sampled += 1;
                        run.sample(format!("{label}{}:{idx} {kind} mode={mode} objects={nobj} apis=[{}]", domain.name(), f[11].chars().take(300).collect::<String>()));
                    }
                } else {
                    run.eval(None);
                }
                max_ms = max_ms.max(f[7].parse().unwrap_or(0));
                max_call = max_call.max(f[8].parse().unwrap_or(0));
                max_hwm = max_hwm.max(f[9].parse().unwrap_or(0));
            }
            Some("U") if f.len() >= 3 => {
                run.count(&format!("{label}decoded map sorted by start time:{}", if f[2] == "1" { "yes" } else { "NO" }));
            }
            Some("M") if f.len() >= 4 => {
                let idx: usize = f[1].parse().unwrap_or(0);
                let tag = f[2].split(' ').next().unwrap_or("?");
                run.count(&format!("{label}model:{tag} lines from searched maps"));
                if tag == "SUSP" {
                    run.count(&format!("{label}model:SUSP searched verdict:{}", f[3]));
                }
                if tag == "STK" && f[3].split(',').any(|h| h != "0" && h != "e") {
                    run.count(&format!("{label}model:STK searched maps with non-zero heights"));
                }
                run.line(&format!("{label}{}:{idx}", domain.name()), f[2].to_owned(), f[3].to_owned());
            }
            Some("F") if f.len() >= 5 => {
                let idx: usize = f[1].parse().unwrap_or(0);
                let (api, class, detail) = (f[2], f[3], f[4]);
                let kind = if detail.starts_with("slow") { "oracle:slow-call" } else if detail.starts_with("work-exceeds-bounds") { "oracle:work-exceeds-bounds" } else if api == "decode" || api == "check_suspicion" { "oracle:panic-in-decode" } else { "oracle:panic" };
                run.fail(kind, class, &format!("{label}{}:{idx}", domain.name()), format!("{api}: {detail}"), repro_of(seed, domain, idx));
            }
            _ => {}
        }
    }
    run.notes.push(format!(
        "{label}{}: slowest case {max_ms} ms, slowest single call {max_call} ms (budget {SLOW_CALL_MS} ms), worker peak RSS {max_hwm} KiB (address-space limit {RLIMIT_AS_KIB} KiB), profile {}",
        domain.name(),
        if checked_profile() { "checked (release + overflow-checks + debug-assertions)" } else { "release" }
    ));
}

pub fn run(tier: &str, seed: u64, only: Option<&str>) -> Run {
    // worker mode: `child:<domain>:<lo>:<hi>:<n_settings>:<file>`
    if let Some(rest) = tier.strip_prefix("child:") {
        let f: Vec<&str> = rest.splitn(5, ':').collect();
        if let (Some(d), Some(lo), Some(hi), Some(ns), Some(file)) =
            (f.first().and_then(|d| Domain::parse(d)), f.get(1).and_then(|v| v.parse().ok()), f.get(2).and_then(|v| v.parse().ok()), f.get(3).and_then(|v| v.parse().ok()), f.get(4))
        {
            child_main(seed, d, lo, hi, Path::new(file), ns);
        }
        std::process::exit(2);
    }
    let mut run = Run::default();
    let (base_tier, checked_only) = match tier.split_once(':') {
        Some((t, "checked")) => (t, true),
        _ => (tier, false),
    };
    let thorough = base_tier == "thorough";
    let label = if checked_only { "[checked] " } else { "" };
    if checked_only && !checked_profile() {
        run.fail("oracle:wrong-profile", "", "checked", "the `checked` slice was started from a binary without debug assertions".into(), String::new());
        return run;
    }
    if !checked_only {
        #[cfg(feature = "p05m")]
        crate::c05_models::model_lines(&mut run, base_tier, seed, only);
        #[cfg(not(feature = "p05m"))]
        run.notes.push("model lines skipped: built without feature p05m (c05_models does not compile against the current /repo)".to_owned());
        // taiko difficulty-object construction, colour / rhythm preprocessing (TKPRE lines, thin stream)
        crate::taikopre::run(&mut run, base_tier, seed, only, true);
        // slider path mathematics (CURVE / CURVES lines, Model/Curve.lean)
        crate::curve::run(&mut run, base_tier, seed, only);
    }
    let Ok(exe) = std::env::current_exe() else {
        run.fail("oracle:no-current-exe", "", "search", "current_exe unavailable".into(), String::new());
        return run;
    };
    let dir = std::env::temp_dir().join(format!("rosu-verif-c05-{}-{seed}", std::process::id()));
    let _ = fs::create_dir_all(&dir);
    let jobs = std::thread::available_parallelism().map_or(8, |n| n.get()).clamp(2, 16);
    let n_settings = if thorough { 2 } else { 1 };
    // (domain, number of cases)
    let plan: Vec<(Domain, usize)> = match (checked_only, thorough) {
        (false, false) => vec![(Domain::Adv, 2600), (Domain::Real, 500)],
        (false, true) => vec![(Domain::Adv, 60_000), (Domain::Real, 12_000)],
        (true, false) => vec![(Domain::Real, 500)],
        (true, true) => vec![(Domain::Real, 30_000)],
    };
    if let Some(id) = only {
        // `adv:<i>` / `real:<i>` (a `[checked] ` prefix is ignored: replays run in this binary)
        let id = id.trim_start_matches("[checked] ");
        if let Some((d, i)) = id.split_once(':').and_then(|(d, i)| Some((Domain::parse(d)?, i.parse::<usize>().ok()?))) {
            let mut lines = Vec::new();
            let o = run_alone(&exe, seed, d, i, &dir, n_settings, &mut lines);
            if o.status != "ok" {
                run.fail(&format!("oracle:{}", o.status), "", id, o.detail, repro_of(seed, d, i));
            }
            digest(&mut run, seed, d, &lines, label);
        }
        let _ = fs::remove_dir_all(&dir);
        return run;
    }
    for (domain, n) in plan {
        let lines = run_domain(&mut run, &exe, seed, domain, n, &dir, n_settings, jobs, label);
        digest(&mut run, seed, domain, &lines, label);
    }
    let _ = fs::remove_dir_all(&dir);
    run
}
