//! C09 — `OSK` correspondence lines: osu! difficulty-object construction and the aim / flashlight /
//! speed strain evaluators (`lean/RosuModel/Model/OsuSkill.lean`, evaluated by the driver with IEEE
//! doubles and `f32` roundings) against the real code through the hook `osu::verif::skill_probe`.
//!
//! One probe = five request lines (`obj`, `aim`, `fl`, `spd`, `rhy`) carrying the same raw object list (what
//! the constructor / evaluators read of every `OsuObject` after `convert_objects` and the slider cursor
//! pass) and the header (clock rate, scaling factor, radius, time_preempt, fade-in with/without HD,
//! hit window); the response is every constructed field resp. evaluator output per difficulty object.
//! The object fields are compared bit for bit (`atan2` is the only libm call there); evaluator outputs
//! are downstream of `pow`/`sin` and are allowed the numeric tolerance of tools/props/C09.json — the
//! evidence reports how many lines are bit-exact per group.
//!
//! Sources: every osu!-native (map, settings) case of the C09 search (degenerate families, random maps,
//! resource maps, clock rates, CS/OD overrides) + the hand-made pattern maps below (spinner → slider,
//! slider → spinner → slider, jumps at every angle incl. 0 and π, stacks, 1 ms gaps, equal times, breaks).

use std::collections::BTreeSet;

use rosu_pp::{osu::verif::{skill_probe, SkillProbe}, Beatmap, Difficulty};

use crate::{
    c09pp::{hexf, showf},
    common::{decode, hash64, Run, Settings, ModsSpec},
    mapgen::{MapSpec, ObjKind, ObjSpec, TimingSpec},
    rng::Rng,
};

pub struct OskLines {
    seen: BTreeSet<u64>,
    /// probes left
    pub budget: usize,
    /// objects per probe beyond which the probe is truncated to a prefix of the raw list
    max_objects: usize,
}

impl OskLines {
    pub fn new(thorough: bool, shards: usize) -> Self {
        OskLines { seen: BTreeSet::new(), budget: (if thorough { 6000 } else { 1400 }) / shards.max(1), max_objects: 120 }
    }
}

fn f32s(v: f32) -> String {
    hexf(f64::from(v))
}

fn request(group: &str, p: &SkillProbe, n_raw: usize, n_diff: usize) -> String {
    let hdr = [p.clock_rate, f64::from(p.scaling_factor), p.radius, p.time_preempt, p.time_fade_in, p.time_fade_in_hidden, p.hit_window];
    let hdr: Vec<String> = hdr.iter().map(|v| hexf(*v)).collect();
    let objs: Vec<String> = p.raw[..n_raw]
        .iter()
        .map(|r| {
            format!(
                "{}:{}:{}:{}:{}:{}:{}:{}:{}:{}:{}:{}:{}:{}",
                r.kind, hexf(r.start_time), f32s(r.pos.0), f32s(r.pos.1), f32s(r.stack_offset.0), f32s(r.stack_offset.1),
                f32s(r.lazy_end_pos.0), f32s(r.lazy_end_pos.1), f32s(r.lazy_travel_dist), hexf(r.lazy_travel_time),
                r.repeat_count, u8::from(r.has_tail), f32s(r.tail_pos.0), f32s(r.tail_pos.1)
            )
        })
        .collect();
    format!("OSK {group} {} {n_diff} {}", hdr.join(","), if objs.is_empty() { "-".to_owned() } else { objs.join(";") })
}

fn response(group: &str, p: &SkillProbe, n_diff: usize) -> String {
    let mut toks = vec![format!("n={n_diff}")];
    for d in &p.diff[..n_diff] {
        let i = d.idx;
        match group {
            "obj" => {
                toks.push(format!("st{i}={}", showf(d.start_time)));
                toks.push(format!("dt{i}={}", showf(d.delta_time)));
                toks.push(format!("sn{i}={}", showf(d.strain_time)));
                toks.push(format!("lj{i}={}", showf(d.lazy_jump_dist)));
                toks.push(format!("mj{i}={}", showf(d.min_jump_dist)));
                toks.push(format!("mt{i}={}", showf(d.min_jump_time)));
                toks.push(format!("td{i}={}", showf(d.travel_dist)));
                toks.push(format!("tt{i}={}", showf(d.travel_time)));
                toks.push(format!("an{i}={}", d.angle.map_or_else(|| "none".to_owned(), showf)));
            }
            "aim" => {
                toks.push(format!("a{i}={}", showf(d.aim)));
                toks.push(format!("n{i}={}", showf(d.aim_no_sliders)));
            }
            "fl" => {
                toks.push(format!("f{i}={}", showf(d.flashlight)));
                toks.push(format!("h{i}={}", showf(d.flashlight_hidden)));
            }
            "rhy" => toks.push(format!("r{i}={}", showf(d.rhythm))),
            _ => {
                toks.push(format!("s{i}={}", showf(d.speed)));
                toks.push(format!("p{i}={}", showf(d.speed_autopilot)));
            }
        }
    }
    toks.join(" ")
}

/// Probes one (map, difficulty) and pushes the four lines.  The map must be an osu! map.
pub fn probe(run: &mut Run, lines: &mut OskLines, id: &str, d: &Difficulty, map: &Beatmap) {
    if lines.budget == 0 {
        return;
    }
    let Ok(p) = crate::common::guarded(|| skill_probe(d, map)) else {
        run.count("OSK: probe panicked (not compared; C05)");
        return;
    };
    // the evaluators look ahead one object (speed: `next(0)`): a truncated probe keeps one object more
    // in the request than it compares
    let n_raw = p.raw.len().min(lines.max_objects);
    let n_diff = if n_raw == p.raw.len() { p.diff.len() } else { n_raw.saturating_sub(2) };
    let key = request("obj", &p, n_raw, n_diff);
    if !lines.seen.insert(hash64(&key)) {
        return;
    }
    lines.budget -= 1;
    run.count("lines:OSK probes");
    run.count_n("OSK: difficulty objects compared", n_diff as u64);
    let kinds: [usize; 3] = [0, 1, 2].map(|k| p.raw[..n_raw].iter().filter(|r| usize::from(r.kind) == k).count());
    run.count_n("OSK: raw circles", kinds[0] as u64);
    run.count_n("OSK: raw sliders", kinds[1] as u64);
    run.count_n("OSK: raw spinners", kinds[2] as u64);
    let mut nonfinite = 0u64;
    for dd in &p.diff[..n_diff] {
        for v in [dd.aim, dd.aim_no_sliders, dd.speed, dd.speed_autopilot, dd.rhythm, dd.flashlight, dd.flashlight_hidden] {
            if !(v.is_finite() && v >= 0.0) {
                nonfinite += 1;
            }
        }
        if dd.base_floor_violated() {
            run.count("OSK: strain_time < 25 or slider travel_time < 25 (floor violated)");
        }
    }
    if nonfinite > 0 {
        run.fail(
            "oracle:evaluator-output-not-finite-nonneg",
            // known finding `curve-nan-vertex`: some slider's curve (as osu! computes it) has a NaN vertex
            if crate::common::map_has_nonfinite_curve(map, true) { "curve-nan-vertex" } else { "" },
            id,
            format!("{nonfinite} evaluator outputs (aim / speed / rhythm / flashlight) are negative, infinite or NaN"),
            format!("osu::verif::skill_probe on case {id}"),
        );
    }
    for group in ["obj", "aim", "fl", "spd", "rhy"] {
        run.count(&format!("lines:OSK-{group}"));
        run.line(id, request(group, &p, n_raw, n_diff), response(group, &p, n_diff));
    }
}

trait FloorCheck {
    fn base_floor_violated(&self) -> bool;
}

impl FloorCheck for rosu_pp::osu::verif::SkillProbeDiff {
    fn base_floor_violated(&self) -> bool {
        !(self.strain_time >= 25.0) || (self.travel_dist != 0.0 && !(self.travel_time >= 25.0))
    }
}

fn circle(x: i32, y: i32, t: f64) -> ObjSpec {
    ObjSpec { x, y, time: t, sound: 0, kind: ObjKind::Circle }
}

fn slider(x: i32, y: i32, t: f64, curve: char, pts: Vec<(i32, i32)>, len: f64, slides: u32) -> ObjSpec {
    ObjSpec { x, y, time: t, sound: 0, kind: ObjKind::Slider { curve, points: pts, slides, length: len } }
}

fn spinner(t: f64, end: f64) -> ObjSpec {
    ObjSpec { x: 256, y: 192, time: t, sound: 0, kind: ObjKind::Spinner { end } }
}

/// hand-made pattern maps
pub fn pattern_maps(rng: &mut Rng) -> Vec<(String, MapSpec)> {
    let mut v = Vec::new();
    let mk = |objs: Vec<ObjSpec>| {
        let mut m = MapSpec { mode: 0, ..Default::default() };
        m.timing = vec![TimingSpec { time: 0.0, beat_len: 300.0, uninherited: true, kiai: false }];
        m.objects = objs;
        m
    };
    // the seeded change C09-spinner-then-slider-zero-travel-time: a slider right after a spinner
    v.push(("spinner-slider".to_owned(), mk(vec![spinner(500.0, 1500.0), slider(100, 100, 1700.0, 'L', vec![(300, 100)], 200.0, 1), circle(300, 200, 2200.0), circle(100, 250, 2500.0)])));
    v.push(("slider-spinner-slider".to_owned(), mk(vec![circle(50, 50, 300.0), slider(100, 100, 600.0, 'L', vec![(250, 100)], 150.0, 2), spinner(1500.0, 2500.0), slider(200, 300, 2700.0, 'P', vec![(300, 200), (400, 300)], 260.0, 1), slider(400, 300, 3300.0, 'B', vec![(300, 350), (200, 250), (100, 350)], 320.0, 3), circle(60, 60, 4200.0)])));
    v.push(("spinner-first".to_owned(), mk(vec![spinner(0.0, 800.0), slider(256, 192, 1000.0, 'L', vec![(256, 300)], 100.0, 1), slider(256, 300, 1400.0, 'L', vec![(256, 192)], 100.0, 1)])));
    // jumps at every angle incl. 0 and pi, equal rhythm
    for (name, step) in [("angles-150ms", 150.0), ("angles-100ms", 100.0), ("angles-60ms", 60.0)] {
        let mut objs = vec![circle(256, 192, 1000.0), circle(356, 192, 1000.0 + step)];
        let (mut x, mut y, mut dir) = (356.0f64, 192.0f64, 0.0f64);
        for k in 0..26 {
            let turn = std::f64::consts::PI * f64::from(k % 13) / 12.0; // 0 .. pi
            dir += if k % 2 == 0 { turn } else { -turn };
            let len = [30.0, 60.0, 110.0, 160.0, 320.0][k as usize % 5];
            x = (x + len * dir.cos()).clamp(0.0, 512.0);
            y = (y + len * dir.sin()).clamp(0.0, 384.0);
            objs.push(circle(x.round() as i32, y.round() as i32, 1000.0 + step * f64::from(k + 2)));
        }
        v.push((name.to_owned(), mk(objs)));
    }
    // straight lines back and forth (angle exactly 0 / pi), stacks, equal times, 1 ms gaps
    v.push(("back-and-forth".to_owned(), mk((0..14).map(|k| circle(if k % 2 == 0 { 100 } else { 400 }, 192, 1000.0 + 200.0 * f64::from(k))).collect())));
    v.push(("straight".to_owned(), mk((0..14).map(|k| circle(20 + 35 * k, 192, 1000.0 + 120.0 * f64::from(k))).collect())));
    v.push(("stack".to_owned(), mk((0..12).map(|k| circle(200, 200, 1000.0 + 90.0 * f64::from(k))).collect())));
    v.push(("equal-times".to_owned(), mk((0..8).map(|k| circle(50 * k, 100, 1000.0 + 100.0 * f64::from(k / 3))).collect())));
    v.push(("one-ms-gaps".to_owned(), mk((0..10).map(|k| if k % 3 == 2 { slider(40 * k, 150, 1000.0 + f64::from(k), 'L', vec![(40 * k + 80, 150)], 80.0, 1) } else { circle(40 * k, 100, 1000.0 + f64::from(k)) }).collect())));
    v.push(("long-breaks".to_owned(), mk(vec![circle(10, 10, 0.0), circle(500, 380, 60_000.0), slider(100, 100, 60_200.0, 'L', vec![(400, 100)], 300.0, 4), circle(100, 300, 400_000.0), circle(110, 300, 400_030.0), circle(120, 300, 400_060.0)])));
    // streams with sliders of every shape between
    for i in 0..6 {
        let mut objs = Vec::new();
        let mut t = 500.0;
        for k in 0..18 {
            let (x, y) = (rng.range(0, 512) as i32, rng.range(0, 384) as i32);
            t += *rng.pick(&[1.0, 24.0, 25.0, 26.0, 55.0, 75.0, 100.0, 150.0, 400.0, 1200.0]);
            if k % 4 == 3 {
                let curve = *rng.pick(&['L', 'B', 'P', 'C']);
                let pts = if curve == 'P' { vec![((x + 60).min(512), (y + 40).min(384)), ((x + 120).min(512), y)] } else { vec![((x + 90).min(512), y), (x, (y + 70).min(384))] };
                objs.push(slider(x, y, t, curve, pts, *rng.pick(&[1.0, 40.0, 130.0, 400.0]), *rng.pick(&[1, 1, 2, 5])));
                t += 300.0;
            } else if k % 11 == 10 {
                objs.push(spinner(t, t + 600.0));
                t += 650.0;
            } else {
                objs.push(circle(x, y, t));
            }
        }
        v.push((format!("mixed-{i}"), mk(objs)));
    }
    v
}

/// the hand-made pattern maps x a few settings
pub fn patterns(run: &mut Run, rng: &mut Rng, thorough: bool) {
    let mut lines = OskLines::new(thorough, 1);
    lines.budget = 400;
    for (name, spec) in pattern_maps(rng) {
        let Ok(map) = decode(&spec.render()) else { continue };
        let mut pool = vec![Settings::default()];
        for r in [0.5, 0.75, 1.5, 2.0] {
            pool.push(Settings { clock_rate: Some(r), ..Default::default() });
        }
        for cs in [0.0f32, 7.0, 10.0] {
            pool.push(Settings { cs: Some((cs, false)), od: Some((10.0 - cs, false)), ar: Some((cs.min(10.0), true)), ..Default::default() });
        }
        pool.push(Settings { mods: ModsSpec::Bits(8 + 1024 + 64), ..Default::default() });
        pool.push(Settings { mods: ModsSpec::Bits(16), ..Default::default() });
        for (si, st) in pool.iter().enumerate() {
            let id = format!("osk-{name}#{si}");
            run.repro.insert(id.clone(), format!("settings={} map=<<\n{}>>", st.describe(), spec.render()));
            probe(run, &mut lines, &id, &st.build(0), &map);
            run.eval(Some(&id));
        }
    }
}
