//! C06 — line-level parsers of the decoder and the section driver of rosu-map against the Lean
//! model `lean/RosuModel/Model/{DecodeNum,DecodeLine}.lean`.
//!
//! Correspondence lines (raw lines cross as `x<hex of UTF-8>`, `;`-separated):
//!   DNUM <kind> <s>          rosu-map `ParseNumber` / std `str::parse` on one string
//!   DLN <sec> <mode> <lines> the lines through the real `Beatmap::parse_<sec>` on ONE fresh
//!                            `BeatmapState` (public `rosu_map::DecodeBeatmap` trait): result code
//!                            of every line (`ok` / `E:<ParseBeatmapError variant>`) and the
//!                            canonical dump of `Beatmap::from(state)`
//!   DFILE <lines>            `Beatmap::from_bytes(lines.join("\n"))`, same dump
//!   DROUTE <lines>           a recording `DecodeBeatmap` implementation driven by the real
//!                            `rosu_map` section driver: version + (section, line) pairs
//! Oracle: after every DLN/DFILE case objects and sounds have equal length and the map is well-formed.

use rosu_map::{util::ParseNumber, DecodeBeatmap, DecodeState};
use rosu_pp::{
    model::{
        beatmap::{BeatmapState, ParseBeatmapError},
        hit_object::HitObjectKind,
    },
    Beatmap,
};

use crate::{
    c06::wellformed,
    common::{guarded, hash64, resource_maps, Run},
    rng::Rng,
};

pub fn hex(s: &str) -> String {
    let mut o = String::with_capacity(1 + 2 * s.len());
    o.push('x');
    for b in s.bytes() {
        o.push_str(&format!("{b:02x}"));
    }
    o
}

pub fn hex_lines(lines: &[String]) -> String {
    if lines.is_empty() {
        "-".to_owned()
    } else {
        lines.iter().map(|l| hex(l)).collect::<Vec<_>>().join(";")
    }
}

fn show_l(sep: &str, v: Vec<String>) -> String {
    if v.is_empty() {
        "-".to_owned()
    } else {
        v.join(sep)
    }
}

fn nz(x: f64) -> u64 {
    if x == 0.0 {
        0
    } else {
        x.to_bits()
    }
}

fn num_err_name(e: &rosu_map::util::ParseNumberError) -> &'static str {
    use rosu_map::util::ParseNumberError as E;
    match e {
        E::InvalidFloat(_) => "InvalidFloat",
        E::InvalidInteger(_) => "InvalidInteger",
        E::NaN => "NaN",
        E::NumberOverflow => "NumberOverflow",
        E::NumberUnderflow => "NumberUnderflow",
    }
}

fn err_name(e: &ParseBeatmapError) -> String {
    use ParseBeatmapError as E;
    match e {
        E::EffectFlags(_) => "EffectFlags".into(),
        E::EventType(_) => "EventType".into(),
        E::HitObjectType(_) => "HitObjectType".into(),
        E::HitSoundType(_) => "HitSoundType".into(),
        E::InvalidEventLine => "InvalidEventLine".into(),
        E::InvalidRepeatCount => "InvalidRepeatCount".into(),
        E::InvalidTimingPointLine => "InvalidTimingPointLine".into(),
        E::InvalidHitObjectLine => "InvalidHitObjectLine".into(),
        E::Mode(_) => "Mode".into(),
        E::Number(n) => format!("Number:{}", num_err_name(n)),
        E::TimeSignature => "TimeSignature".into(),
        E::TimingControlPointNaN => "TimingControlPointNaN".into(),
        E::UnknownHitObjectType => "UnknownHitObjectType".into(),
    }
}

/// The canonical dump shared with `DecodeLineWire.lean`.
pub fn dump(map: &Beatmap) -> String {
    let objs: Vec<String> = map
        .hit_objects
        .iter()
        .zip(map.hit_sounds.iter())
        .map(|(h, s)| {
            let head = format!("{}/{}/{}/{}", h.pos.x as i64, h.pos.y as i64, h.start_time.to_bits(), u8::from(*s));
            match &h.kind {
                HitObjectKind::Circle => format!("c/{head}"),
                HitObjectKind::Slider(sl) => {
                    let len = sl.expected_dist.map_or("-".to_owned(), |d| d.to_bits().to_string());
                    let ns = show_l(".", sl.node_sounds.iter().map(|n| u8::from(*n).to_string()).collect());
                    let cps = show_l(
                        "_",
                        sl.control_points
                            .iter()
                            .map(|c| {
                                let ty = match c.path_type {
                                    None => "n".to_owned(),
                                    Some(t) => {
                                        use rosu_map::section::hit_objects::SplineType as S;
                                        match (t.kind, t.degree) {
                                            (S::Catmull, _) => "C".to_owned(),
                                            (S::BSpline, None) => "B".to_owned(),
                                            (S::BSpline, Some(d)) => format!("B{d}"),
                                            (S::Linear, _) => "L".to_owned(),
                                            (S::PerfectCurve, _) => "P".to_owned(),
                                        }
                                    }
                                };
                                format!("{}.{}.{ty}", c.pos.x as i64, c.pos.y as i64)
                            })
                            .collect(),
                    );
                    format!("s/{head}/{}/{len}/{ns}/{cps}", sl.repeats)
                }
                HitObjectKind::Spinner(sp) => format!("p/{head}/{}", nz(sp.duration)),
                HitObjectKind::Hold(ho) => format!("h/{head}/{}", nz(ho.duration)),
            }
        })
        .collect();
    let objs = if map.hit_objects.len() == map.hit_sounds.len() {
        show_l(";", objs)
    } else {
        format!("LENGTHS-DIFFER:{}:{}", map.hit_objects.len(), map.hit_sounds.len())
    };
    format!(
        "v={} m={} sl={} d={},{},{},{},{},{} b={} T={} D={} E={} O={}",
        map.version,
        map.mode as u8,
        map.stack_leniency.to_bits(),
        map.hp.to_bits(),
        map.cs.to_bits(),
        map.od.to_bits(),
        map.ar.to_bits(),
        map.slider_multiplier.to_bits(),
        map.slider_tick_rate.to_bits(),
        show_l(";", map.breaks.iter().map(|b| format!("{}:{}", b.start_time.to_bits(), nz(b.end_time))).collect()),
        show_l(";", map.timing_points.iter().map(|p| format!("{}:{}", p.time.to_bits(), p.beat_len.to_bits())).collect()),
        show_l(
            ";",
            map.difficulty_points
                .iter()
                .map(|p| format!("{}:{}:{}:{}", p.time.to_bits(), p.slider_velocity.to_bits(), p.bpm_multiplier.to_bits(), u8::from(p.generate_ticks)))
                .collect()
        ),
        show_l(";", map.effect_points.iter().map(|p| format!("{}:{}:{}", p.time.to_bits(), u8::from(p.kiai), p.scroll_speed.to_bits())).collect()),
        objs
    )
}

// ---------------------------------------------------------------------------------------------
// recording decoder: the real section driver, our own parse_* methods
// ---------------------------------------------------------------------------------------------

pub struct Rec {
    version: i32,
    calls: Vec<(&'static str, String)>,
}

impl DecodeState for Rec {
    fn create(version: i32) -> Self {
        Self { version, calls: Vec::new() }
    }
}

pub struct RecOut(Rec);

impl From<Rec> for RecOut {
    fn from(r: Rec) -> Self {
        Self(r)
    }
}

#[derive(Debug)]
pub struct NoErr;
impl std::fmt::Display for NoErr {
    fn fmt(&self, f: &mut std::fmt::Formatter<'_>) -> std::fmt::Result {
        f.write_str("never")
    }
}
impl std::error::Error for NoErr {}

macro_rules! rec_fn {
    ($name:ident, $tag:literal) => {
        fn $name(state: &mut Rec, line: &str) -> Result<(), NoErr> {
            state.calls.push(($tag, line.to_owned()));
            Ok(())
        }
    };
}

impl DecodeBeatmap for RecOut {
    type Error = NoErr;
    type State = Rec;
    rec_fn!(parse_general, "General");
    rec_fn!(parse_editor, "Editor");
    rec_fn!(parse_metadata, "Metadata");
    rec_fn!(parse_difficulty, "Difficulty");
    rec_fn!(parse_events, "Events");
    rec_fn!(parse_timing_points, "TimingPoints");
    rec_fn!(parse_colors, "Colors");
    rec_fn!(parse_hit_objects, "HitObjects");
    rec_fn!(parse_variables, "Variables");
    rec_fn!(parse_catch_the_beat, "CatchTheBeat");
    rec_fn!(parse_mania, "Mania");
}

// ---------------------------------------------------------------------------------------------
// observers
// ---------------------------------------------------------------------------------------------

fn observe_dln(sec: &str, mode: u8, lines: &[String]) -> Result<(String, Beatmap), String> {
    guarded(|| {
        let mut st = BeatmapState::create(14);
        let _ = Beatmap::parse_general(&mut st, &format!("Mode:{mode}"));
        let mut codes = Vec::new();
        for l in lines {
            let r = match sec {
                "G" => Beatmap::parse_general(&mut st, l),
                "D" => Beatmap::parse_difficulty(&mut st, l),
                "E" => Beatmap::parse_events(&mut st, l),
                "T" => Beatmap::parse_timing_points(&mut st, l),
                _ => Beatmap::parse_hit_objects(&mut st, l),
            };
            codes.push(match r {
                Ok(()) => "ok".to_owned(),
                Err(e) => format!("E:{}", err_name(&e)),
            });
        }
        let map = Beatmap::from(st);
        (format!("{} {}", show_l(",", codes), dump(&map)), map)
    })
}

fn dln_case(run: &mut Run, id: &str, sec: &str, mode: u8, lines: &[String]) {
    let req = format!("DLN {sec} {mode} {}", hex_lines(lines));
    let repro = format!("parse_{sec} mode={mode} lines={lines:?}");
    run.repro.insert(id.to_owned(), repro.clone());
    match observe_dln(sec, mode, lines) {
        Err(p) => {
            run.line(id, req, "PANIC".to_owned());
            run.fail("oracle:line-parser-panic", "", id, p, repro);
        }
        Ok((obs, map)) => {
            for code in obs.split(' ').next().unwrap_or("").split(',') {
                run.count(&format!("dln:{sec}:{code}"));
            }
            run.line(id, req, obs);
            if map.hit_objects.len() != map.hit_sounds.len() {
                run.fail(
                    "oracle:objects-vs-sounds",
                    "",
                    id,
                    format!("{} objects, {} sounds", map.hit_objects.len(), map.hit_sounds.len()),
                    repro.clone(),
                );
            }
            if let Err(v) = wellformed(&map) {
                run.fail("oracle:wellformed", "", id, v, repro);
            }
        }
    }
}

fn dfile_case(run: &mut Run, id: &str, lines: &[String]) {
    let text = lines.join("\n");
    run.repro.insert(id.to_owned(), text.clone());
    let req = hex_lines(lines);
    match guarded(|| Beatmap::from_bytes(text.as_bytes())) {
        Err(p) => {
            run.line(id, format!("DFILE {req}"), "PANIC".to_owned());
            run.fail("oracle:decode-panic", "", id, p, text.clone());
        }
        Ok(Err(e)) => {
            run.line(id, format!("DFILE {req}"), "ioerr".to_owned());
            run.fail("oracle:decode-error", "", id, format!("{e}"), text.clone());
        }
        Ok(Ok(map)) => {
            run.line(id, format!("DFILE {req}"), dump(&map));
            run.count_n("dfile:objects", map.hit_objects.len() as u64);
            if let Ok((n, names)) = crate::c06::float_leaves_finite(&map) {
                run.count_n("wf:float-leaves-visited", n as u64);
                for name in names {
                    run.count(&format!("wf:float-field:{name}"));
                }
            }
            run.count_n("dfile:control-points", (map.timing_points.len() + map.difficulty_points.len() + map.effect_points.len()) as u64);
            if let Err(v) = wellformed(&map) {
                run.fail("oracle:wellformed", "", id, v, text.clone());
            }
        }
    }
    match guarded(|| RecOut::decode(std::io::Cursor::new(text.as_bytes()))) {
        Ok(Ok(RecOut(rec))) => {
            run.count_n("droute:lines-in", lines.len() as u64);
            run.count_n("droute:lines-routed", rec.calls.len() as u64);
            for (s, _) in &rec.calls {
                run.count(&format!("droute:to:{s}"));
            }
            let obs = format!("{} {}", rec.version, show_l(";", rec.calls.iter().map(|(s, l)| format!("{s}:{}", hex(l))).collect()));
            run.line(id, format!("DROUTE {req}"), obs);
        }
        Ok(Err(e)) => run.fail("oracle:decode-error", "", id, format!("recorder: {e}"), text),
        Err(p) => run.fail("oracle:decode-panic", "", id, format!("recorder: {p}"), text),
    }
}

fn num_case(run: &mut Run, id: &str, s: &str) {
    fn show<T: ToString>(r: Result<T, rosu_map::util::ParseNumberError>) -> String {
        match r {
            Ok(v) => format!("ok:{}", v.to_string()),
            Err(e) => format!("E:{}", num_err_name(&e)),
        }
    }
    let h = hex(s);
    let mut put = |kind: &str, obs: String| {
        let tag = if obs.starts_with("ok") { "ok" } else { obs.as_str() };
        run.count(&format!("dnum:{kind}:{tag}"));
        run.line(id, format!("DNUM {kind} {h}"), obs);
    };
    put("i32", show(<i32 as ParseNumber>::parse(s)));
    put("raw", s.parse::<i32>().map_or("E".to_owned(), |v| format!("ok:{v}")));
    put("f64", show(<f64 as ParseNumber>::parse(s).map(f64::to_bits)));
    put("f32", show(<f32 as ParseNumber>::parse(s).map(f32::to_bits)));
    put("c64", show(<f64 as ParseNumber>::parse_with_limits(s, 131_072.0).map(f64::to_bits)));
    put("c32", show(<f32 as ParseNumber>::parse_with_limits(s, 131_072.0).map(f32::to_bits)));
    put(
        "r64",
        s.trim().parse::<f64>().map_or("E".to_owned(), |v| if v.is_nan() { "ok:nan".to_owned() } else { format!("ok:{}", v.to_bits()) }),
    );
    put(
        "r32",
        s.trim().parse::<f32>().map_or("E".to_owned(), |v| if v.is_nan() { "ok:nan".to_owned() } else { format!("ok:{}", v.to_bits()) }),
    );
}

// ---------------------------------------------------------------------------------------------
// generators
// ---------------------------------------------------------------------------------------------

const NUM_CORNERS: [&str; 96] = [
    "", " ", "0", "-0", "+0", "00", "007", "1", "-1", "+1", "+-1", "-+1", "--1", "+", "-", ".", "-.", "+.", "1.", ".1", "-.1", "1.e1", ".e1", "e1", "1e", "1e+",
    "1e-", "1e+1", "1E-1", "1e1.5", "1e 1", " 1", "1 ", "\t1\n", "\u{a0}1\u{2003}", "\u{feff}1", "1_000", "0x10", "1,5", "１２", "٣", "nan", "NaN", "NAN", "-nan",
    "+nan", "nanx", "na", "inf", "-inf", "+inf", "Inf", "INFINITY", "infinity", "-Infinity", "infinit", "infinityy", "in", "i", "1e999", "-1e999", "1e-999",
    "1e99999999999999999999", "-1e-99999999999999999999", "0e99999999999999999999", "2147483647", "2147483648", "-2147483647", "-2147483648", "-2147483649",
    "2147483647.5", "2147483647.0000001", "2147483520", "2147483583", "2147483584", "2147483712", "4294967296", "99999999999999999999", "131072", "131072.0000000001",
    "131072.01", "131073", "-131072", "-131073", "131071.99", "9000", "9001", "1.7976931348623157e308", "1.7976931348623159e308", "4.9e-324", "2.4703282292062327e-324",
    "2.4703282292062328e-324", "2.2250738585072011e-308", "3.4028235e38", "3.4028236e38", "9007199254740993",
];

const MORE_NUMS: [&str; 24] = [
    "16777217", "1e-45", "7e-46", "0.1", "0.30000000000000004", "1e23", "8.5e22", "123456789012345678901234567890", "0.000000000000000000000000000001", "1e-5",
    "100.00000000000001", "99.99999", "1.4", "3.6", "0.7", "5e-324", "1e-400", "1e400", "1.0000000000000002", "1.00000000000000011102230246251565404236316680908203125",
    "1.00000000000000011102230246251565404236316680908203126", "0.5000000000000000277555756156289135105907917022705078125", "1e22", "1e15",
];

fn random_number(rng: &mut Rng) -> String {
    let mut s = String::new();
    match rng.below(8) {
        0 => s.push('-'),
        1 => s.push('+'),
        _ => {}
    }
    let nd = if rng.chance(1, 12) { rng.range(17, 45) } else { rng.range(0, 9) };
    for _ in 0..nd {
        s.push(char::from(b'0' + rng.below(10) as u8));
    }
    if rng.chance(1, 2) {
        s.push('.');
        let nf = if rng.chance(1, 12) { rng.range(17, 60) } else { rng.range(0, 8) };
        for _ in 0..nf {
            s.push(char::from(b'0' + rng.below(10) as u8));
        }
    }
    if rng.chance(1, 4) {
        s.push(*rng.pick(&['e', 'E']));
        match rng.below(4) {
            0 => s.push('-'),
            1 => s.push('+'),
            _ => {}
        }
        let e = *rng.pick(&[0i64, 1, 2, 5, 9, 10, 15, 22, 23, 37, 38, 39, 44, 45, 46, 300, 307, 308, 309, 323, 324, 325, 400, 70000]);
        if !rng.chance(1, 20) {
            s.push_str(&e.to_string());
        }
    }
    if rng.chance(1, 15) {
        let junk = *rng.pick(&[" ", "x", "f", ",", "\u{3000}", "e", ".", "-", "\r"]);
        if rng.chance(1, 2) {
            s.push_str(junk);
        } else {
            s.insert_str(0, junk);
        }
    }
    s
}

/// Numbers whose decimal expansion sits at or next to a rounding boundary of f32 / f64 / the limits.
fn boundary_number(rng: &mut Rng) -> String {
    match rng.below(5) {
        0 => {
            // halfway between two adjacent f32 values (exact decimal expansion) ± a trailing digit
            let bits = (rng.next() as u32) & 0x7F7F_FFFF;
            let a = f64::from(f32::from_bits(bits));
            let b = f64::from(f32::from_bits(bits + 1));
            let mid = (a + b) / 2.0; // exact in f64
            let mut s = format!("{:.160}", mid);
            while s.ends_with('0') {
                s.pop();
            }
            match rng.below(3) {
                0 => {}
                1 => s.push('1'),
                _ => {
                    // just below: replace the last digit d>0 by d-1 followed by 9s
                    if let Some(c) = s.pop() {
                        if c.is_ascii_digit() && c != '0' {
                            s.push(char::from(c as u8 - 1));
                            s.push_str("99");
                        } else {
                            s.push(c);
                        }
                    }
                }
            }
            s
        }
        1 => format!("{}", f64::from_bits(rng.next() & 0x7FEF_FFFF_FFFF_FFFF)),
        2 => format!("{:e}", f64::from_bits(rng.next() & 0x7FEF_FFFF_FFFF_FFFF)),
        3 => format!("{}", f32::from_bits((rng.next() as u32) & 0x7F7F_FFFF)),
        _ => {
            let base = *rng.pick(&[2147483647i64, 131072, 9000, 2147483520, 0, 1]);
            let d = rng.range(-2, 2);
            let frac = *rng.pick(&["", ".0", ".5", ".0000001", ".9999999999", "e0"]);
            format!("{}{}{frac}", if rng.chance(1, 3) { "-" } else { "" }, base + d)
        }
    }
}

const SOUND_TOKENS: [&str; 14] = ["0", "2", "4", "8", "14", "15", "1", "255", "256", "-1", "+3", " 2", "x", ""];
const TYPE_TOKENS: [&str; 26] = [
    "1", "5", "2", "6", "8", "12", "128", "3", "9", "130", "136", "0", "4", "16", "64", "256", "-1", "-2", "-128", "2147483647", "-2147483648", "2147483648", " 1", "1 ", "x", "",
];
const COORD_TOKENS: [&str; 26] = [
    "0", "256", "192", "-5", "512.7", "-0.5", "1e2", "131072", "131072.5", "-131072", "131073", "-131073", "1e9", "nan", "inf", " 64 ", "", "x", "0x10", "255.99999", "-0", "64\u{a0}", "-nan", "+nan", "-inf", "+inf",
];
const TIME_TOKENS: [&str; 25] = [
    "0", "-0", "1000", "1000.5", "-500", "1e3", "2147483647", "2147483647.5", "-2147483647", "-2147483648", "nan", "inf", "1e999", "", "abc", " 250 ", "99.99999", "4.9e-324", "+12", "12.", "-nan", "+nan", "-NaN", "-inf", "+inf",
];
const BANK_TOKENS: [&str; 14] = ["0:0:0:0:", "1:2:3:50:hit.wav", "0:0:0:0:x", "0:0", "", ":", "a:0:0:0:", "0:0:0:2147483648:", "0:0:0:0::extra", " 1 : 2 ", "0:0:0", "1", "::::", "::::f"];
const POINT_TOKENS: [&str; 26] = [
    "100:100", "200:150", "100:100", "0:0", "-50:300", "256:192", "131072:0", "131073:0", "1e2:5", "12.9:7.2", "nan:1", "1:inf", "5", "", ":", "1:2:3", "x:y", " 3 : 4 ",
    "100:100", "64:64", "-0.5:0.5", "300:300", "300:300", "1:", ":1", "1e999:0",
];
const TYPE_LETTERS: [&str; 14] = ["B", "L", "P", "C", "B3", "B0", "B-1", "Bx", "b", "p", "", "Z", "B2147483648", "L7"];

fn gen_path(rng: &mut Rng) -> String {
    let mut parts: Vec<String> = Vec::new();
    let nseg = if rng.chance(1, 5) { rng.range(2, 4) } else { 1 };
    for si in 0..nseg {
        if si > 0 || !rng.chance(1, 25) {
            parts.push((*rng.pick(&TYPE_LETTERS)).to_owned());
        }
        let np = if rng.chance(1, 10) { 0 } else { rng.range(1, 6) };
        let mut last: Option<String> = None;
        for _ in 0..np {
            let lim = 11 + 15 * usize::from(rng.chance(1, 6));
            let p = if rng.chance(1, 4) && last.is_some() { last.clone().unwrap() } else { (*rng.pick(&POINT_TOKENS[..lim])).to_owned() };
            parts.push(p.clone());
            last = Some(p);
        }
    }
    parts.join("|")
}

pub fn gen_hit_line(rng: &mut Rng, wild: bool) -> String {
    let tok = |rng: &mut Rng, pool: &[&str], sane: usize| -> String {
        if wild && rng.chance(1, 5) {
            (*rng.pick(pool)).to_owned()
        } else {
            (*rng.pick(&pool[..sane])).to_owned()
        }
    };
    let x = tok(rng, &COORD_TOKENS, 7);
    let y = tok(rng, &COORD_TOKENS, 7);
    let t = tok(rng, &TIME_TOKENS, 9);
    let snd = tok(rng, &SOUND_TOKENS, 8);
    let kind = match rng.below(10) {
        0..=2 => *rng.pick(&["1", "5"]),
        3..=5 => *rng.pick(&["2", "6"]),
        6 => *rng.pick(&["8", "12"]),
        7 => "128",
        _ => *rng.pick(&TYPE_TOKENS),
    };
    let mut f: Vec<String> = vec![x, y, t, kind.to_owned(), snd];
    let ty: i32 = kind.parse().unwrap_or(0);
    let nopt = rng.below(7);
    if ty & 1 != 0 {
        if nopt > 0 {
            f.push(tok(rng, &BANK_TOKENS, 3));
        }
    } else if ty & 2 != 0 {
        f.push(gen_path(rng));
        f.push(if wild && rng.chance(1, 6) { (*rng.pick(&["0", "-5", "9000", "9001", "2147483647", "-2147483647", "-2147483648", "x", "", "1.5", " 2 "])).to_owned() } else { rng.range(1, 4).to_string() });
        if nopt > 0 {
            f.push(if wild && rng.chance(1, 5) { (*rng.pick(&["0", "-0", "-10", "1e-17", "2.3e-16", "131072", "131072.1", "nan", "-nan", "+nan", "inf", "-inf", "", "x", "1e-320"])).to_owned() } else { (rng.range(1, 600) as f64 * 0.75).to_string() });
        }
        if nopt > 1 {
            f.push((*rng.pick(&["2|0|8", "0|0", "4", "x|2|300|-1", "", "1|2|3|4|5|6|7|8", "|"])).to_owned());
        }
        if nopt > 2 {
            f.push("0:0|0:0".to_owned());
        }
        if nopt > 3 {
            f.push(tok(rng, &BANK_TOKENS, 3));
        }
    } else if ty & 8 != 0 {
        if nopt > 0 || !wild {
            f.push(tok(rng, &TIME_TOKENS, 9));
        }
        if nopt > 2 {
            f.push(tok(rng, &BANK_TOKENS, 3));
        }
    } else if ty & 128 != 0 {
        if nopt > 0 {
            let e = tok(rng, &TIME_TOKENS, 9);
            f.push(match rng.below(6) {
                0 => e,
                1 => String::new(),
                _ => format!("{e}:{}", tok(rng, &BANK_TOKENS, 3)),
            });
        }
    } else if nopt > 3 {
        f.push("0:0:0:0:".to_owned());
    }
    if wild {
        match rng.below(14) {
            0 => {
                let k = rng.below(f.len() as u64 + 1) as usize;
                f.truncate(k);
            }
            1 => f.push("extra".to_owned()),
            2 => {
                let k = rng.below(f.len() as u64) as usize;
                f[k] = String::new();
            }
            3 => return format!("{} // comment, with, commas", f.join(",")),
            4 => return format!("  {}  ", f.join(",")),
            5 => return format!("{}//", f.join(",")),
            6 => {
                let k = rng.below(f.len() as u64) as usize;
                f[k] = format!("{}\u{3000}", f[k]);
            }
            7 => {
                let k = rng.below(f.len() as u64) as usize;
                f[k] = (*rng.pick(&["ü", "∞", "１", "/", "/ /", "\u{0}"])).to_owned();
            }
            _ => {}
        }
    }
    f.join(",")
}

pub fn gen_timing_line(rng: &mut Rng, wild: bool) -> String {
    let time = if wild && rng.chance(1, 6) { (*rng.pick(&TIME_TOKENS)).to_owned() } else { (*rng.pick(&["0", "-0", "100", "100", "250.5", "1000", "-500", "1e-17", "100.00000000000001", "2147483647", "5000"])).to_owned() };
    let beat = (*rng.pick(&[
        "500", "300", "333.33", "5", "6", "5.999", "60000", "70000", "-100", "-50", "-200", "-1000", "-5", "-20000", "-9.99", "-10.0001", "-1e9", "-2147483647", "-2147483648", "2147483648", "nan",
        "NaN", "0", "-0", "-100.00000000000001", "inf", "-inf", "1e-320", "-1e-320", "-1e-5", " -100 ", "", "x", "-33.333333333333336", "-3", "-1e6", "-1000001", "-nan", "-NaN", "+nan", "-NAN", "+inf", "-nan", "-nan ",
    ]))
    .to_owned();
    let mut f = vec![time, beat];
    let n = if wild { rng.below(9) } else { *rng.pick(&[0u64, 6, 6, 6, 5, 4, 1]) };
    let extra: [&dyn Fn(&mut Rng) -> String; 6] = [
        &|r| (*r.pick(&["4", "3", "1", "0", "-1", "x", "", " 4 ", "2147483648", "4.0"])).to_owned(),
        &|r| (*r.pick(&["1", "2", "0"])).to_owned(),
        &|r| (*r.pick(&["0", "1"])).to_owned(),
        &|r| (*r.pick(&["100", "50", "x"])).to_owned(),
        &|r| (*r.pick(&["1", "0", "1", "0", "", "10", "01", "x", " 1", "１"])).to_owned(),
        &|r| (*r.pick(&["0", "1", "8", "9", "5", "x", "", "-1", " 1", "2147483648"])).to_owned(),
    ];
    for i in 0..n.min(6) as usize {
        let v = if !wild && i == 0 { "4".to_owned() } else { extra[i](rng) };
        f.push(v);
    }
    if n > 6 {
        f.push("tail".to_owned());
    }
    let mut s = f.join(",");
    if wild && rng.chance(1, 12) {
        s.push_str(*rng.pick(&[" // c", "//", "  ", ",", "\u{a0}"]));
    }
    s
}

fn gen_difficulty_line(rng: &mut Rng) -> String {
    let key = *rng.pick(&[
        "HPDrainRate", "CircleSize", "OverallDifficulty", "ApproachRate", "SliderMultiplier", "SliderTickRate", "OverallDifficulty", "ApproachRate", "hpdrainrate", "HPDrainRate ", " CircleSize",
        "Unknown", "", "Slider Multiplier",
    ]);
    let val = if rng.chance(1, 3) { (*rng.pick(&NUM_CORNERS)).to_owned() } else { (*rng.pick(&["0", "-0", "5", "9.99", "10", "10.0001", "11", "18", "18.5", "1e9", "-1e9", "0.4", "0.39", "3.6", "3.61", "0.5", "8", "8.01", "1.4", "2147483520", "2147483648", "7 // x", " 3 ", "4:5"])).to_owned() };
    match rng.below(8) {
        0 => format!("{key}"),
        1 => format!("{key} : {val} "),
        2 => format!("{key}:{val}:9"),
        3 => format!("{key}={val}"),
        _ => format!("{key}:{val}"),
    }
}

fn gen_general_line(rng: &mut Rng) -> String {
    let key = *rng.pick(&["Mode", "Mode", "StackLeniency", "StackLeniency", "AudioFilename", "mode", "Countdown", "Nope", ""]);
    let val = if rng.chance(1, 4) { (*rng.pick(&NUM_CORNERS)).to_owned() } else { (*rng.pick(&["0", "1", "2", "3", "4", "-1", " 3 ", "03", "3.0", "0.7", "0.2", "1", "audio.mp3", "1e9", "2147483648", "-2147483648"])).to_owned() };
    match rng.below(6) {
        0 => format!("{key} : {val}"),
        1 => format!("{key}:{val} // c"),
        2 => format!("{key}"),
        _ => format!("{key}:{val}"),
    }
}

fn gen_event_line(rng: &mut Rng) -> String {
    let ty = *rng.pick(&["2", "Break", "2", "0", "Background", "1", "Video", "3", "4", "Sprite", "5", "6", "Animation", "7", "break", " 2", "", "2 "]);
    let a = (*rng.pick(&TIME_TOKENS)).to_owned();
    let b = (*rng.pick(&TIME_TOKENS)).to_owned();
    match rng.below(8) {
        0 => ty.to_owned(),
        1 => format!("{ty},{a}"),
        2 => format!("{ty},{a},{b},x"),
        3 => format!("{ty},{a},{b} // c"),
        _ => format!("{ty},{a},{b}"),
    }
}

/// A resource-map line of the given section with one field replaced by a corner token.
fn corrupt_resource_line(rng: &mut Rng, line: &str) -> String {
    let sep = if line.contains(',') { ',' } else { ':' };
    let mut f: Vec<String> = line.split(sep).map(str::to_owned).collect();
    let k = rng.below(f.len() as u64) as usize;
    match rng.below(6) {
        0 => f[k] = (*rng.pick(&NUM_CORNERS)).to_owned(),
        1 => f[k] = String::new(),
        2 => {
            f.remove(k);
        }
        3 => f.insert(k, (*rng.pick(&["0", "x", ""])).to_owned()),
        4 => {
            // corrupt inside a `|`-separated field
            let mut g: Vec<String> = f[k].split('|').map(str::to_owned).collect();
            let j = rng.below(g.len() as u64) as usize;
            g[j] = (*rng.pick(&POINT_TOKENS)).to_owned();
            f[k] = g.join("|");
        }
        _ => {}
    }
    f.join(&sep.to_string())
}

fn section_lines(text: &str, name: &str) -> Vec<String> {
    let mut out = Vec::new();
    let mut inside = false;
    for l in text.lines() {
        let l = l.trim_end();
        if l.starts_with('[') && l.ends_with(']') {
            inside = l == name;
            continue;
        }
        if inside && !l.is_empty() {
            out.push(l.to_owned());
        }
    }
    out
}

const FILE_JUNK: [&str; 30] = [
    "", " ", "// comment", "  // indented comment", "[General]", "[Editor]", "[Metadata]", "[Difficulty]", "[Events]", "[TimingPoints]", "[Colours]", "[HitObjects]", "[Variables]",
    "[CatchTheBeat]", "[Mania]", "[Unknown]", "[hitobjects]", " [HitObjects]", "[HitObjects] ", "[HitObjects]//", "[]", "[", "]", "osu file format v9", "osu file format v", "Mode: 3",
    "Mode: 1", "256,192,1000,1,0", "100,500,4,2,0,100,1,0", "2,100,200",
];

const VERSION_LINES: [&str; 22] = [
    "osu file format v14", "osu file format v3", "osu file format v128", "osu file format v9 ", "osu file format v", "osu file format v 7", "osu file format v-5", "osu file format v2147483648",
    "osu file format v14 // c", "osu file format vv12", "osu file format v1v2", "osu file format", "osu file format w14", " osu file format v14", "\u{feff}osu file format v10", "", "  ",
    "[General]", "garbage", "osu file format v+6", "osu file format v0x10", "osu file format v007",
];

fn gen_file(rng: &mut Rng, res: &[(u8, String)]) -> Vec<String> {
    let mut lines: Vec<String> = Vec::new();
    for _ in 0..rng.below(3) {
        lines.push((*rng.pick(&["", " ", "\t"])).to_owned());
    }
    if !rng.chance(1, 10) {
        let lim = if rng.chance(1, 2) { 3 } else { VERSION_LINES.len() };
        lines.push((*rng.pick(&VERSION_LINES[..lim])).to_owned());
    }
    let nsec = rng.range(0, 7);
    for _ in 0..nsec {
        if rng.chance(1, 6) {
            lines.push((*rng.pick(&FILE_JUNK)).to_owned());
        }
        let sec = *rng.pick(&["General", "Difficulty", "Events", "TimingPoints", "HitObjects", "HitObjects", "TimingPoints", "Editor", "Metadata", "Colours", "Unknown", "Mania"]);
        lines.push(format!("[{sec}]"));
        let n = rng.range(0, 7);
        for _ in 0..n {
            let wild = rng.chance(1, 3);
            let l = match sec {
                "General" => {
                    if rng.chance(1, 2) {
                        format!("Mode: {}", rng.below(4))
                    } else {
                        gen_general_line(rng)
                    }
                }
                "Difficulty" => gen_difficulty_line(rng),
                "Events" => gen_event_line(rng),
                "TimingPoints" => gen_timing_line(rng, wild),
                "HitObjects" => {
                    if rng.chance(1, 6) && !res.is_empty() {
                        let (_, text) = rng.pick(res);
                        let ls = section_lines(text, "[HitObjects]");
                        let l = rng.pick(&ls).clone();
                        if rng.chance(1, 2) {
                            corrupt_resource_line(rng, &l)
                        } else {
                            l
                        }
                    } else {
                        gen_hit_line(rng, wild)
                    }
                }
                _ => match rng.below(4) {
                    0 => gen_hit_line(rng, false),
                    1 => gen_timing_line(rng, false),
                    2 => "Key: Value".to_owned(),
                    _ => (*rng.pick(&FILE_JUNK)).to_owned(),
                },
            };
            lines.push(l);
            if rng.chance(1, 10) {
                lines.push((*rng.pick(&FILE_JUNK)).to_owned());
            }
        }
    }
    if rng.chance(1, 8) {
        for l in lines.iter_mut() {
            l.push('\r');
        }
    }
    lines.into_iter().map(|l| l.replace('\n', " ")).collect()
}

// ---------------------------------------------------------------------------------------------
// the byte reader
// ---------------------------------------------------------------------------------------------

fn hex_bytes(b: &[u8]) -> String {
    let mut o = String::with_capacity(1 + 2 * b.len());
    o.push('x');
    for x in b {
        o.push_str(&format!("{x:02x}"));
    }
    o
}

fn dbytes_case(run: &mut Run, id: &str, kind: &str, bytes: &[u8], check_path: bool) {
    run.count(&format!("dbytes:kind:{kind}"));
    let repro = format!("from_bytes hex:{}", &hex_bytes(bytes)[1..]);
    run.repro.insert(id.to_owned(), repro.clone());
    let obs = match guarded(|| Beatmap::from_bytes(bytes)) {
        Err(p) => {
            run.fail("oracle:decode-panic", "", id, p, repro.clone());
            "PANIC".to_owned()
        }
        Ok(Err(e)) => {
            run.count("dbytes:io-error");
            if e.kind() != std::io::ErrorKind::UnexpectedEof {
                run.fail("oracle:unexpected-io-error-kind", "", id, format!("{e:?}"), repro.clone());
            }
            "ioerr".to_owned()
        }
        Ok(Ok(map)) => {
            run.count("dbytes:ok");
            run.count_n("dbytes:objects", map.hit_objects.len() as u64);
            dump(&map)
        }
    };
    run.line(id, format!("DBYTES {}", hex_bytes(bytes)), obs);
    crate::c06::check_bytes(run, id, bytes, check_path);
}

const ODD_CHARS: [char; 18] = [
    '上', 'Ċ', '\u{0A41}', '\u{0A0A}', '\u{220A}', 'é', 'ß', '字', '\u{1F600}', '\u{10000}', '\u{10FFFF}', '\u{FEFF}', '\u{FFFD}', '\u{85}', '\u{2028}', '\u{3000}', '\u{7FF}',
    '\u{800}',
];

const BAD_UTF8: [&[u8]; 16] = [
    &[0xC0, 0x80], &[0xC1, 0xBF], &[0xE0, 0x80, 0x80], &[0xE0, 0x9F, 0xBF], &[0xED, 0xA0, 0x80], &[0xED, 0xBF, 0xBF], &[0xF0, 0x8F, 0xBF, 0xBF], &[0xF4, 0x90, 0x80, 0x80],
    &[0xF5, 0x80, 0x80, 0x80], &[0xFF], &[0x80], &[0xBF, 0xBF], &[0xE4, 0xB8], &[0xF0, 0x9F, 0x98], &[0xC3], &[0xE4, 0xB8, 0x0A],
];

fn encode16(text: &str, le: bool, bom: bool) -> Vec<u8> {
    let mut b = Vec::new();
    if bom {
        b.extend_from_slice(if le { &[0xFF, 0xFE] } else { &[0xFE, 0xFF] });
    }
    for u in text.encode_utf16() {
        b.extend_from_slice(&if le { u.to_le_bytes() } else { u.to_be_bytes() });
    }
    b
}

fn gen_bytes(rng: &mut Rng, res: &[(u8, String)]) -> (Vec<u8>, &'static str) {
    let mut lines = gen_file(rng, res);
    // some text lines with characters whose encodings contain 0x0A bytes, astral characters, BOMs
    for _ in 0..rng.below(3) {
        if !lines.is_empty() {
            let k = rng.below(lines.len() as u64) as usize;
            let c = *rng.pick(&ODD_CHARS);
            let pos = rng.below(lines[k].chars().count() as u64 + 1) as usize;
            let mut t: Vec<char> = lines[k].chars().collect();
            t.insert(pos, c);
            lines[k] = t.into_iter().collect();
        }
    }
    let sep = *rng.pick(&["\n", "\n", "\r\n", "\r", "\n\n", "\n\r"]);
    let mut text = String::new();
    for (i, l) in lines.iter().enumerate() {
        if i > 0 {
            text.push_str(if rng.chance(1, 6) { *rng.pick(&["\n", "\r\n", "\r"]) } else { sep });
        }
        text.push_str(l);
    }
    if rng.chance(1, 2) {
        text.push_str(sep);
    }
    let (mut b, kind): (Vec<u8>, &'static str) = match rng.below(9) {
        0 | 1 => (text.clone().into_bytes(), "utf8"),
        2 => {
            let mut b = vec![0xEF, 0xBB, 0xBF];
            b.extend_from_slice(text.as_bytes());
            (b, "utf8-bom")
        }
        3 | 4 => (encode16(&text, true, true), "utf16le-bom"),
        5 | 6 => (encode16(&text, false, true), "utf16be-bom"),
        7 => (encode16(&text, rng.chance(1, 2), false), "utf16-no-bom"),
        _ => {
            let mut b = (*rng.pick(&[&[0xFF, 0xFE][..], &[0xFE, 0xFF][..], &[0xEF, 0xBB, 0xBF][..], &[0xEF, 0xBB][..], &[0xFF][..]])).to_vec();
            b.extend_from_slice(text.as_bytes());
            (b, "bom-on-utf8-text")
        }
    };
    // byte-level damage
    match rng.below(10) {
        0 => {
            let cut = rng.below(b.len() as u64 + 1) as usize;
            b.truncate(cut);
        }
        1 => {
            for _ in 0..rng.range(1, 4) {
                if !b.is_empty() {
                    let i = rng.below(b.len() as u64) as usize;
                    b[i] = rng.below(256) as u8;
                }
            }
        }
        2 => {
            for _ in 0..rng.range(1, 3) {
                let i = rng.below(b.len() as u64 + 1) as usize;
                let ins: &[u8] = *rng.pick(&BAD_UTF8);
                b.splice(i..i, ins.iter().copied());
            }
        }
        3 => {
            // lone surrogates / stray newline bytes at an even offset
            for _ in 0..rng.range(1, 3) {
                let i = (rng.below(b.len() as u64 / 2 + 1) as usize) * 2;
                let ins: &[u8] = *rng.pick(&[&[0x00, 0xD8][..], &[0xD8, 0x00][..], &[0x00, 0xDC][..], &[0xDC, 0x00][..], &[0x0A][..], &[0x0A, 0x0A][..], &[0x00][..]]);
                let i = i.min(b.len());
                b.splice(i..i, ins.iter().copied());
            }
        }
        _ => {}
    }
    (b, kind)
}

fn bytes_cases(run: &mut Run, seed: u64, thorough: bool, only: Option<&str>, res: &[(u8, String)]) {
    // every file of 0, 1 bytes and a grid of 2- and 3-byte files; BOM-only files; the UTF-16LE EOF error
    let mut fixed: Vec<Vec<u8>> = vec![vec![]];
    let pool = [0x00u8, 0x0A, 0x0D, 0x20, b'a', b'[', 0xEF, 0xBB, 0xBF, 0xFF, 0xFE, 0xD8, 0x80];
    for a in pool {
        fixed.push(vec![a]);
        for b in pool {
            fixed.push(vec![a, b]);
            for c in [0x0Au8, 0x00, b'a', 0xBF, 0xFE] {
                fixed.push(vec![a, b, c]);
            }
        }
    }
    for tail in [&[0x0A][..], &[0x0A, 0x00], &[0x00, 0x0A], &[0x41, 0x00, 0x0A], &[0x0A, 0x0A], &[0x0A, 0x00, 0x0A], &[0x0A, 0x4E, 0x0A, 0x00], &[0x41, 0x0A, 0x42, 0x00, 0x0A, 0x00]] {
        for bom in [&[0xFF, 0xFE][..], &[0xFE, 0xFF], &[0xEF, 0xBB, 0xBF], &[]] {
            let mut v = bom.to_vec();
            v.extend_from_slice(tail);
            fixed.push(v);
        }
    }
    // a map where the 0x0A bytes inside UTF-16 code units matter
    let text = "osu file format v14\n[Metadata]\nTitle:上 and \u{0A41}x\n[HitObjects]\n256,192,1000,1,0\n100,100,2000,1,2\n";
    fixed.push(encode16(text, true, true));
    fixed.push(encode16(text, false, true));
    fixed.push(text.as_bytes().to_vec());
    for (i, b) in fixed.iter().enumerate() {
        let id = format!("dbytes-fixed-{i}");
        if !wanted(only, &id) {
            continue;
        }
        run.eval(Some(&format!("dbytes-fixed|{b:?}")));
        dbytes_case(run, &id, "fixed", b, i % 16 == 0);
    }
    let n = if thorough { 40000 } else { 3000 };
    for ci in 0..n {
        let id = format!("dbytes-{ci}");
        if !wanted(only, &id) {
            continue;
        }
        let mut rng = case_rng(seed, &id);
        let (b, kind) = if ci % 10 == 9 {
            let n = rng.range(0, 400) as usize;
            ((0..n).map(|_| if rng.chance(1, 8) { 0x0A } else { rng.below(256) as u8 }).collect(), "random-bytes")
        } else {
            gen_bytes(&mut rng, res)
        };
        run.eval(Some(&format!("dbytes|{}", hash64(&hex_bytes(&b)))));
        dbytes_case(run, &id, kind, &b, ci % 16 == 0);
    }
}

fn case_rng(seed: u64, id: &str) -> Rng {
    Rng::new(seed ^ hash64(id))
}

fn wanted(only: Option<&str>, id: &str) -> bool {
    only.is_none_or(|o| o == id)
}

pub fn cases(run: &mut Run, seed: u64, thorough: bool, only: Option<&str>) {
    let res = resource_maps();
    // 1. number grammar
    let mut nums: Vec<String> = NUM_CORNERS.iter().chain(MORE_NUMS.iter()).map(|s| (*s).to_owned()).collect();
    let n_rand = if thorough { 40000 } else { 2500 };
    {
        let mut rng = case_rng(seed, "dnum");
        for i in 0..n_rand {
            nums.push(if i % 3 == 0 { boundary_number(&mut rng) } else { random_number(&mut rng) });
        }
    }
    for (i, s) in nums.iter().enumerate() {
        let id = format!("dnum-{i}");
        if !wanted(only, &id) {
            continue;
        }
        run.eval(Some(&format!("dnum|{s}")));
        run.repro.insert(id.clone(), format!("number string {s:?}"));
        num_case(run, &id, s);
    }
    // 2. single parsers on one state
    let n_lines = if thorough { 60000 } else { 5000 };
    for ci in 0..n_lines {
        let id = format!("dln-{ci}");
        if !wanted(only, &id) {
            continue;
        }
        let mut rng = case_rng(seed, &id);
        let mode = (ci % 4) as u8;
        let (sec, lines): (&str, Vec<String>) = match ci % 10 {
            0..=4 => {
                let n = if ci % 3 == 0 { 1 } else { rng.range(1, 5) };
                let wild = ci % 2 == 0;
                (
                    "H",
                    (0..n)
                        .map(|_| {
                            if rng.chance(1, 8) && !res.is_empty() {
                                let (_, text) = rng.pick(&res);
                                let ls = section_lines(text, "[HitObjects]");
                                let l = rng.pick(&ls).clone();
                                corrupt_resource_line(&mut rng, &l)
                            } else {
                                gen_hit_line(&mut rng, wild)
                            }
                        })
                        .collect(),
                )
            }
            5..=6 => {
                let n = rng.range(1, 6);
                let wild = ci % 4 == 1;
                (
                    "T",
                    (0..n)
                        .map(|_| {
                            if rng.chance(1, 10) && !res.is_empty() {
                                let (_, text) = rng.pick(&res);
                                let ls = section_lines(text, "[TimingPoints]");
                                let l = rng.pick(&ls).clone();
                                corrupt_resource_line(&mut rng, &l)
                            } else {
                                gen_timing_line(&mut rng, wild)
                            }
                        })
                        .collect(),
                )
            }
            7 => ("D", (0..rng.range(1, 5)).map(|_| gen_difficulty_line(&mut rng)).collect()),
            8 => ("G", (0..rng.range(1, 3)).map(|_| gen_general_line(&mut rng)).collect()),
            _ => ("E", (0..rng.range(1, 3)).map(|_| gen_event_line(&mut rng)).collect()),
        };
        run.count(&format!("dln:section:{sec}"));
        run.eval(Some(&format!("dln|{sec}|{mode}|{lines:?}")));
        dln_case(run, &id, sec, mode, &lines);
        if ci == 10 || ci == 25 {
            run.sample(format!("{id}: parse_{sec} mode={mode} {lines:?}"));
        }
    }
    // 2b. the rejected-slider scratch witness (DESIGN 9.3) and the resource maps line by line
    dln_case(run, "dln-witness", "H", 0, &["0,0,0,2,0,B|10:10|B|20:20|B|x:y,1,50".to_owned(), "100,100,500,2,0,L|200:200,1,70".to_owned()]);
    // 3. whole files through the section driver
    let n_files = if thorough { 30000 } else { 2500 };
    for ci in 0..n_files {
        let id = format!("dfile-{ci}");
        if !wanted(only, &id) {
            continue;
        }
        let mut rng = case_rng(seed, &id);
        let lines = gen_file(&mut rng, &res);
        run.eval((lines.len() > 2).then_some(format!("dfile|{lines:?}").as_str()));
        dfile_case(run, &id, &lines);
        if ci == 7 {
            run.sample(format!("{id}: {lines:?}"));
        }
    }
    bytes_cases(run, seed, thorough, only, &res);
    for (i, (_, text)) in res.iter().enumerate() {
        let id = format!("dfile-res-{i}");
        if !wanted(only, &id) {
            continue;
        }
        let lines: Vec<String> = text.split('\n').map(str::to_owned).collect();
        run.eval(Some(&format!("dfile-res|{i}")));
        dfile_case(run, &id, &lines);
    }
}
