//! C09 — stars, pp and all reported attributes are finite and non-negative; accuracies in [0,1];
//! zero hits ⇒ zero pp.
//!
//! Search part (direct oracle on the implementation): degenerate and realistic map families in all
//! four modes + conversions × mods × clock rates × attribute overrides × `passed_objects` prefixes ×
//! score states (every consistent state for small maps).  Every f64 field of the difficulty /
//! performance attribute structs is found through their `Debug` output (a newly added field is
//! covered automatically), every strain value is visited.
//!
//! Correspondence part: `ACC*`, `EMC`, `DVQ`, `CTW`, `RLERP`, `ERFINV`, `TKG`, `ZPP` lines compare the
//! implementation with the exact models of `lean/RosuModel/Model/Finite.lean` (numeric comparison,
//! see tools/props/C09.json).

use std::collections::BTreeSet;

use rosu_pp::{
    catch::{CatchDifficultyAttributes, CatchPerformance, CatchScoreState},
    mania::{ManiaDifficultyAttributes, ManiaPerformance, ManiaScoreState},
    osu::{OsuDifficultyAttributes, OsuPerformance, OsuScoreOrigin, OsuScoreState},
    taiko::{TaikoDifficultyAttributes, TaikoPerformance, TaikoScoreState},
    any::DifficultyAttributes,
    Beatmap, Difficulty,
};

use crate::{
    c16::strains_of,
    common::{
        decode, guarded, mode_name, mode_of, resource_maps, truncate_objects, LazerTag, ModsSpec,
        Run, Settings,
    },
    grad::one_shot,
    mapgen::{random_map, random_slider, GenCfg, MapSpec, ObjKind, ObjSpec, TimingSpec},
    rng::Rng,
};

// ---------------------------------------------------------------------------------------------
// generic visitor over `Debug` output
// ---------------------------------------------------------------------------------------------

pub use crate::debugvis::{debug_leaves, Leaf};

/// Fields that may legitimately be negative (everything else must be `>= 0`):
/// `ar` — the approach rate reported back from a preempt above 1800 ms (EZ / HT on AR 0 gives −5).
const MAY_BE_NEGATIVE: &[&str] = &["ar"];

fn last_segment(path: &str) -> &str {
    let p = path.rsplit('.').next().unwrap_or(path);
    p.split('[').next().unwrap_or(p)
}

/// Checks every float leaf of a Debug rendering; returns the number of float leaves.
fn check_debug(run: &mut Run, id: &str, what: &str, dbg: &str, inq: bool, repro: &dyn Fn() -> String) -> usize {
    let leaves = match debug_leaves(dbg) {
        Ok(l) => l,
        Err(e) => {
            run.fail("oracle:debug-parse", "", id, format!("{what}: cannot parse Debug output ({e}): {dbg}"), repro());
            return 0;
        }
    };
    let mut n = 0;
    for (path, leaf) in &leaves {
        if let Leaf::Float(v) = leaf {
            n += 1;
            let bad = if !v.is_finite() {
                Some("not finite")
            } else if *v < 0.0 && !MAY_BE_NEGATIVE.contains(&last_segment(path)) {
                Some("negative")
            } else {
                None
            };
            if let Some(why) = bad {
                let kind = if inq { "oracle:field-not-finite-nonneg" } else { "explore:field-not-finite-nonneg" };
                if inq {
                    run.fail(kind, "", id, format!("{what}.{path} = {v:?} is {why}; {dbg}"), repro());
                } else {
                    run.count(&format!("outside-quantifier:{what}.{}:{why}", last_segment(path)));
                }
            }
        }
    }
    run.count_n(&format!("float-fields-visited:{what}"), n as u64);
    n
}

// ---------------------------------------------------------------------------------------------
// map families
// ---------------------------------------------------------------------------------------------

fn circle(x: i32, y: i32, t: f64) -> ObjSpec {
    ObjSpec { x, y, time: t, sound: 0, kind: ObjKind::Circle }
}
fn slider(x: i32, y: i32, t: f64, len: f64, slides: u32) -> ObjSpec {
    ObjSpec { x, y, time: t, sound: 0, kind: ObjKind::Slider { curve: 'L', points: vec![((x + 100).min(512), y)], slides, length: len } }
}
fn spinner(t: f64, end: f64) -> ObjSpec {
    ObjSpec { x: 256, y: 192, time: t, sound: 0, kind: ObjKind::Spinner { end } }
}
fn hold(col: i32, keys: i32, t: f64, end: f64) -> ObjSpec {
    ObjSpec { x: (col * 512 + 256) / keys.max(1), y: 192, time: t, sound: 0, kind: ObjKind::Hold { end } }
}

fn base(mode: u8) -> MapSpec {
    MapSpec { mode, ..Default::default() }
}

/// Hand-made degenerate families.  `(name, spec)`.
fn corner_families(mode: u8) -> Vec<(String, MapSpec)> {
    let mut v: Vec<(String, MapSpec)> = Vec::new();
    let mut add = |name: &str, objs: Vec<ObjSpec>, tweak: &dyn Fn(&mut MapSpec)| {
        let mut m = base(mode);
        m.objects = objs;
        tweak(&mut m);
        v.push((name.to_owned(), m));
    };
    let none = |_: &mut MapSpec| {};
    add("empty", vec![], &none);
    add("one-circle", vec![circle(100, 100, 1000.0)], &none);
    add("one-slider", vec![slider(100, 100, 1000.0, 140.0, 1)], &none);
    add("one-spinner", vec![spinner(1000.0, 3000.0)], &none);
    add("one-circle-t0", vec![circle(0, 0, 0.0)], &none);
    add("two-circles", vec![circle(100, 100, 1000.0), circle(300, 300, 1500.0)], &none);
    add("two-same-time", vec![circle(100, 100, 1000.0), circle(300, 300, 1000.0)], &none);
    add("all-spinner", (0..5).map(|i| spinner(1000.0 + 3000.0 * f64::from(i), 3000.0 + 3000.0 * f64::from(i))).collect(), &none);
    add("short-spinners", (0..6).map(|i| spinner(1000.0 + 10.0 * f64::from(i), 1001.0 + 10.0 * f64::from(i))).collect(), &none);
    add("all-slider", (0..6).map(|i| slider(50 + 60 * i, 100, 1000.0 + 600.0 * f64::from(i), 140.0, 1 + (i as u32 % 3))).collect(), &none);
    add("all-circle-stream", (0..12).map(|i| circle(50 + 30 * i, 200, 1000.0 + 125.0 * f64::from(i))).collect(), &none);
    add("stacked-tiny-spacing", (0..10).map(|i| circle(256, 192, 1000.0 + 2.0 * f64::from(i))).collect(), &none);
    add("stacked-quarter", (0..10).map(|i| circle(256, 192, 1000.0 + 250.0 * f64::from(i))).collect(), &|m| m.stack_leniency = 1.0);
    add("one-ms-spacing", (0..12).map(|i| circle((37 * i) % 512, (91 * i) % 384, 1000.0 + f64::from(i))).collect(), &none);
    add("all-same-time", (0..8).map(|i| circle((67 * i) % 512, (91 * i) % 384, 1000.0)).collect(), &none);
    add("same-time-mixed", vec![circle(10, 10, 1000.0), slider(100, 100, 1000.0, 70.0, 2), spinner(1000.0, 1500.0), circle(400, 300, 1000.0)], &none);
    add("hours-of-silence", vec![circle(10, 10, 1000.0), circle(500, 380, 3_600_000.0), circle(10, 10, 7_200_000.0), slider(200, 200, 10_800_000.0, 140.0, 1)], &none);
    add("silence-then-stream", {
        let mut o = vec![circle(10, 10, 0.0)];
        o.extend((0..8).map(|i| circle(50 + 40 * i, 200, 20_000_000.0 + 100.0 * f64::from(i))));
        o
    }, &none);
    add("almost-a-day-of-silence", vec![circle(10, 10, 0.0), circle(300, 200, 86_000_000.0), circle(200, 100, 86_000_300.0), slider(100, 100, 86_000_600.0, 140.0, 1)], &none);
    add("negative-times", vec![circle(10, 10, -3000.0), circle(200, 200, -2500.0), slider(300, 100, -2000.0, 140.0, 1), circle(100, 300, -100.0), circle(400, 300, 400.0)], &none);
    add("all-negative", (0..6).map(|i| circle(40 * i, 40 * i, -5000.0 + 200.0 * f64::from(i))).collect(), &none);
    add("tiny-sliders", (0..6).map(|i| slider(50 + 60 * i, 100, 1000.0 + 300.0 * f64::from(i), 0.01, 1)).collect(), &none);
    add("zero-length-sliders", (0..4).map(|i| slider(50 + 60 * i, 100, 1000.0 + 300.0 * f64::from(i), 0.0, 1)).collect(), &none);
    add("long-sliders", (0..3).map(|i| slider(50 + 60 * i, 100, 1000.0 + 40_000.0 * f64::from(i), 9000.0, 3)).collect(), &none);
    add("many-repeat-slider", vec![slider(100, 100, 1000.0, 35.0, 60), circle(300, 300, 9000.0)], &none);
    add("slider-high-tickrate", (0..4).map(|i| slider(50 + 60 * i, 100, 1000.0 + 1500.0 * f64::from(i), 420.0, 2)).collect(), &|m| {
        m.slider_tick_rate = 8.0;
        m.slider_multiplier = 0.4;
    });
    add("fast-bpm", (0..12).map(|i| circle(50 + 30 * i, 200, 1000.0 + 20.0 * f64::from(i))).collect(), &|m| m.timing[0].beat_len = 6.0);
    add("slow-bpm", (0..6).map(|i| slider(50 + 30 * i, 200, 1000.0 + 9000.0 * f64::from(i), 140.0, 1)).collect(), &|m| m.timing[0].beat_len = 60_000.0);
    let mixed = |dt: f64| -> Vec<ObjSpec> { (0..8).map(|i| if i % 3 == 1 { slider(50 + 50 * i, 100, 1000.0 + dt * f64::from(i), 100.0, 1 + (i as u32 % 2)) } else { circle(50 + 50 * i, 250, 1000.0 + dt * f64::from(i)) }).collect() };
    add("beat-length-tiny", mixed(200.0), &|m| m.timing[0].beat_len = 0.0001);
    add("beat-length-huge", mixed(200.0), &|m| m.timing[0].beat_len = 1.0e9);
    add("sv-extremes", mixed(300.0), &|m| {
        m.timing.push(TimingSpec { time: 1200.0, beat_len: -0.001, uninherited: false, kiai: false });
        m.timing.push(TimingSpec { time: 2000.0, beat_len: -1.0e9, uninherited: false, kiai: true });
    });
    add("bpm-changes-every-object", mixed(150.0), &|m| {
        for i in 1..8 {
            m.timing.push(TimingSpec { time: 1000.0 + 150.0 * f64::from(i) - 1.0, beat_len: [60.0, 2000.0, 333.0, 125.0][i as usize % 4], uninherited: true, kiai: i % 2 == 0 });
        }
    });
    add("kiai-and-sv", (0..8).map(|i| if i % 2 == 0 { circle(50 + 50 * i, 200, 1000.0 + 250.0 * f64::from(i)) } else { slider(50 + 50 * i, 100, 1000.0 + 250.0 * f64::from(i), 70.0, 1) }).collect(), &|m| {
        m.timing.push(TimingSpec { time: 1500.0, beat_len: -10.0, uninherited: false, kiai: true });
        m.timing.push(TimingSpec { time: 2500.0, beat_len: -1000.0, uninherited: false, kiai: false });
    });
    add("jumps-corner-to-corner", (0..10).map(|i| circle(if i % 2 == 0 { 0 } else { 512 }, if i % 2 == 0 { 0 } else { 384 }, 1000.0 + 180.0 * f64::from(i))).collect(), &none);
    add("extreme-attrs-low", (0..6).map(|i| circle(60 * i, 100, 1000.0 + 300.0 * f64::from(i))).collect(), &|m| {
        m.ar = 0.0;
        m.cs = if m.mode == 3 { 1.0 } else { 0.0 };
        m.od = 0.0;
        m.hp = 0.0;
    });
    add("extreme-attrs-high", (0..6).map(|i| circle(60 * i, 100, 1000.0 + 300.0 * f64::from(i))).collect(), &|m| {
        m.ar = 10.0;
        m.cs = if m.mode == 3 { 9.0 } else { 10.0 };
        m.od = 10.0;
        m.hp = 10.0;
    });
    add("old-version-v5", (0..6).map(|i| if i % 2 == 0 { circle(60 * i, 100, 1000.0 + 300.0 * f64::from(i)) } else { slider(60 * i, 200, 1000.0 + 300.0 * f64::from(i), 100.0, 1) }).collect(), &|m| m.version = 5);
    if mode == 3 {
        for keys in 1..=10 {
            add(&format!("mania-{keys}k-all-holds"), (0..(keys * 2).min(12)).map(|i| hold(i % keys, keys, 1000.0 + 150.0 * f64::from(i), 1400.0 + 150.0 * f64::from(i))).collect(), &|m| m.cs = keys as f32);
            add(&format!("mania-{keys}k-chords"), (0..(keys * 2).min(14)).map(|i| circle(((i % keys) * 512 + 256) / keys, 192, 1000.0 + 200.0 * f64::from(i / keys))).collect(), &|m| m.cs = keys as f32);
        }
        add("mania-zero-length-holds", (0..4).map(|i| hold(i, 4, 1000.0 + 100.0 * f64::from(i), 1000.0 + 100.0 * f64::from(i))).collect(), &|m| m.cs = 4.0);
        add("mania-long-holds", (0..4).map(|i| hold(i, 4, 1000.0, 600_000.0)).collect(), &|m| m.cs = 4.0);
        add("mania-same-column-1ms", (0..10).map(|i| circle(64, 192, 1000.0 + f64::from(i))).collect(), &|m| m.cs = 4.0);
    }
    if mode == 1 {
        add("taiko-all-drumroll", (0..6).map(|i| slider(100, 100, 1000.0 + 1000.0 * f64::from(i), 280.0, 1)).collect(), &none);
        add("taiko-all-swell", (0..6).map(|i| spinner(1000.0 + 1000.0 * f64::from(i), 1800.0 + 1000.0 * f64::from(i))).collect(), &none);
        add("taiko-mono-stream", (0..14).map(|i| circle(100, 100, 1000.0 + 80.0 * f64::from(i))).collect(), &none);
        add("taiko-alternating", (0..14).map(|i| ObjSpec { sound: if i % 2 == 0 { 0 } else { 8 }, ..circle(100, 100, 1000.0 + 100.0 * f64::from(i)) }).collect(), &none);
        add("taiko-hits-then-roll", {
            let mut o: Vec<ObjSpec> = (0..4).map(|i| circle(100, 100, 1000.0 + 200.0 * f64::from(i))).collect();
            o.push(slider(100, 100, 2000.0, 560.0, 1));
            o
        }, &none);
    }
    if mode == 2 {
        add("catch-all-banana", (0..5).map(|i| spinner(1000.0 + 2000.0 * f64::from(i), 2500.0 + 2000.0 * f64::from(i))).collect(), &none);
        add("catch-edge-dashes", (0..10).map(|i| circle(if i % 2 == 0 { 0 } else { 512 }, 192, 1000.0 + 150.0 * f64::from(i))).collect(), &none);
        add("catch-juice-streams", (0..5).map(|i| slider(50 + 80 * i, 100, 1000.0 + 900.0 * f64::from(i), 280.0, 2)).collect(), &|m| m.slider_tick_rate = 4.0);
        add("catch-same-x", (0..10).map(|i| circle(256, 192, 1000.0 + 100.0 * f64::from(i))).collect(), &none);
    }
    v
}

// ---------------------------------------------------------------------------------------------
// settings
// ---------------------------------------------------------------------------------------------

/// Mods reachable in the game (legacy bits); NF 1, EZ 2, TD 4, HD 8, HR 16, DT 64, RX 128, HT 256,
/// NC 576, FL 1024, SO 4096, AP 8192.
const LEGACY_SETS: &[u32] = &[
    0, 1, 2, 4, 8, 16, 64, 128, 256, 576, 1024, 4096, 8192, 8 + 16, 16 + 64, 2 + 256, 8 + 64 + 1024, 1 + 4096, 2 + 1024 + 8,
    128 + 64, 8192 + 16, 4 + 64, 1 + 2 + 256, 16 + 576 + 8 + 1024, 4096 + 8 + 1024,
];

fn settings_pool(mode: u8, rng: &mut Rng, n_random: usize) -> Vec<Settings> {
    let mut v = Vec::new();
    for &b in LEGACY_SETS {
        v.push(Settings { mods: ModsSpec::Bits(b), ..Default::default() });
    }
    if mode == 3 {
        for k in [1u32 << 15, 1 << 16, 1 << 17, 1 << 18, 1 << 19, 1 << 24, 1 << 26, 1 << 27, 1 << 28, 1 << 30 /* mirror */] {
            v.push(Settings { mods: ModsSpec::Bits(k), ..Default::default() });
        }
    }
    // lazer-only mods
    let lazer = |tags: Vec<LazerTag>, lz: Option<bool>| Settings { mods: ModsSpec::Lazer(tags), lazer: lz, ..Default::default() };
    v.push(lazer(vec![], Some(true)));
    v.push(lazer(vec![], Some(false)));
    v.push(lazer(vec![LazerTag::Classic], Some(true)));
    v.push(lazer(vec![LazerTag::Acronym("BL")], Some(true)));
    v.push(lazer(vec![LazerTag::Acronym("TC")], Some(true)));
    v.push(lazer(vec![LazerTag::Acronym("HD"), LazerTag::Acronym("FL")], Some(true)));
    v.push(lazer(vec![LazerTag::Acronym("BL"), LazerTag::Classic], Some(true)));
    v.push(lazer(vec![LazerTag::Acronym("RX")], Some(true)));
    v.push(lazer(vec![LazerTag::Acronym("AP")], Some(true)));
    v.push(lazer(vec![LazerTag::Acronym("SO"), LazerTag::Acronym("NF")], Some(true)));
    v.push(lazer(vec![LazerTag::Mirror(Some("1"))], Some(true)));
    v.push(lazer(vec![LazerTag::Mirror(Some("2"))], Some(true)));
    v.push(lazer(vec![LazerTag::HoldOff], Some(true)));
    v.push(lazer(vec![LazerTag::Invert], Some(true)));
    v.push(lazer(vec![LazerTag::RandomSeed(42)], Some(true)));
    for r in [1.01, 1.5, 2.0] {
        v.push(lazer(vec![LazerTag::DtRate(r)], Some(true)));
    }
    for r in [0.5, 0.75, 0.99] {
        v.push(lazer(vec![LazerTag::HtRate(r)], Some(true)));
    }
    for val in [0.0, 11.0] {
        v.push(lazer(vec![LazerTag::Da { ar: Some(val), cs: Some(val.min(10.0)), hp: Some(val), od: Some(val) }], Some(true)));
        v.push(lazer(vec![LazerTag::Da { ar: Some(val), cs: None, hp: None, od: Some(11.0 - val) }, LazerTag::DtRate(2.0)], Some(true)));
    }
    // clock rates and attribute overrides
    for r in [0.5, 0.75, 1.0, 1.25, 1.5, 2.0] {
        v.push(Settings { clock_rate: Some(r), ..Default::default() });
    }
    for val in [0.0f32, 5.5, 10.0, 11.0] {
        for w in [false, true] {
            v.push(Settings { ar: Some((val, w)), od: Some((val, w)), hp: Some((val, w)), cs: Some((val, w)), ..Default::default() });
            v.push(Settings { mods: ModsSpec::Bits(16 + 64), od: Some((val, w)), ar: Some((11.0 - val, w)), ..Default::default() });
            v.push(Settings { mods: ModsSpec::Bits(2 + 256), od: Some((val, w)), cs: Some((val, w)), clock_rate: Some(0.5), ..Default::default() });
        }
    }
    for _ in 0..n_random {
        v.push(random_settings_c09(rng, mode));
    }
    v
}

fn random_settings_c09(rng: &mut Rng, mode: u8) -> Settings {
    let mut s = Settings::default();
    if rng.chance(2, 3) {
        let mut bits = *rng.pick(LEGACY_SETS);
        if rng.chance(1, 3) {
            bits |= *rng.pick(LEGACY_SETS);
        }
        // DT+HT / EZ+HR together are not selectable in game
        if bits & 64 != 0 && bits & 256 != 0 {
            bits &= !256;
        }
        if bits & 2 != 0 && bits & 16 != 0 {
            bits &= !2;
        }
        if bits & 128 != 0 && bits & 8192 != 0 {
            bits &= !8192;
        }
        if mode == 3 && rng.chance(1, 3) {
            bits |= *rng.pick(&[1u32 << 15, 1 << 16, 1 << 17, 1 << 18, 1 << 19, 1 << 24, 1 << 26, 1 << 27, 1 << 28]);
        }
        s.mods = ModsSpec::Bits(bits);
        if rng.chance(1, 3) {
            s.lazer = Some(rng.chance(1, 2));
        }
    } else {
        let mut tags = Vec::new();
        for (acr, p) in [("HD", 4), ("FL", 5), ("NF", 6), ("SO", 8), ("TD", 10), ("BL", 8), ("TC", 10)] {
            if rng.chance(1, p) {
                tags.push(LazerTag::Acronym(acr));
            }
        }
        match rng.below(5) {
            0 => tags.push(LazerTag::Acronym("HR")),
            1 => tags.push(LazerTag::Acronym("EZ")),
            _ => {}
        }
        match rng.below(6) {
            0 => tags.push(LazerTag::Acronym("RX")),
            1 => tags.push(LazerTag::Acronym("AP")),
            _ => {}
        }
        match rng.below(5) {
            0 => tags.push(LazerTag::DtRate(1.01 + rng.unit() * 0.99)),
            1 => tags.push(LazerTag::HtRate(0.5 + rng.unit() * 0.49)),
            2 => tags.push(LazerTag::NcRate(1.01 + rng.unit() * 0.99)),
            _ => {}
        }
        if rng.chance(1, 3) {
            let val = |rng: &mut Rng| rng.chance(1, 2).then(|| (rng.unit() * 11.0 * 10.0).round() / 10.0);
            tags.push(LazerTag::Da { ar: val(rng), cs: val(rng).map(|c| c.min(10.0)), hp: val(rng), od: val(rng) });
        }
        if rng.chance(1, 4) {
            tags.push(LazerTag::Classic);
        }
        if mode == 3 && rng.chance(1, 4) {
            tags.push(if rng.chance(1, 2) { LazerTag::HoldOff } else { LazerTag::Invert });
        }
        if (mode == 1 || mode == 3) && rng.chance(1, 5) {
            tags.push(LazerTag::RandomSeed(rng.range(0, 100_000) as i32));
        }
        s.mods = ModsSpec::Lazer(tags);
        s.lazer = Some(!rng.chance(1, 5));
    }
    if rng.chance(1, 3) {
        s.clock_rate = Some(if rng.chance(1, 2) { *rng.pick(&[0.5, 0.75, 1.0, 1.5, 2.0]) } else { 0.5 + rng.unit() * 1.5 });
    }
    let attr = |rng: &mut Rng| ((rng.unit() * 11.0 * 10.0).round() as f32 / 10.0, rng.chance(1, 2));
    if rng.chance(1, 5) {
        s.ar = Some(attr(rng));
    }
    if rng.chance(1, 5) && mode != 3 {
        s.cs = Some(attr(rng));
    }
    if rng.chance(1, 5) {
        s.hp = Some(attr(rng));
    }
    if rng.chance(1, 5) {
        s.od = Some(attr(rng));
    }
    if rng.chance(1, 8) {
        s.hardrock_offsets = Some(rng.chance(1, 2));
    }
    s
}

// ---------------------------------------------------------------------------------------------
// score states
// ---------------------------------------------------------------------------------------------

/// All ways to write `n` as an ordered sum of `k` non-negative integers.
fn compositions(n: u32, k: usize) -> Vec<Vec<u32>> {
    fn go(n: u32, k: usize, cur: &mut Vec<u32>, out: &mut Vec<Vec<u32>>) {
        if k == 1 {
            cur.push(n);
            out.push(cur.clone());
            cur.pop();
            return;
        }
        for a in 0..=n {
            cur.push(a);
            go(n - a, k - 1, cur, out);
            cur.pop();
        }
    }
    let mut out = Vec::new();
    go(n, k, &mut Vec::new(), &mut out);
    out
}

fn random_composition(rng: &mut Rng, n: u32, k: usize) -> Vec<u32> {
    // skewed towards the first part (good plays) with occasional uniform splits
    let mut parts = vec![0u32; k];
    let mut left = n;
    let style = rng.below(4);
    for (i, p) in parts.iter_mut().enumerate().take(k - 1) {
        let take = match style {
            0 => (left as f64 * (0.8 + 0.2 * rng.unit())) as u32,
            1 => rng.below(u64::from(left) + 1) as u32,
            2 if i == 0 => left.saturating_sub(rng.below(4) as u32),
            2 => rng.below(u64::from(left) + 1) as u32,
            _ => 0,
        };
        *p = take.min(left);
        left -= *p;
    }
    parts[k - 1] = left;
    if style == 3 {
        // single non-first bucket gets everything: all-miss / all-n50 etc.
        parts[k - 1] = 0;
        let j = rng.below(k as u64) as usize;
        parts[j] = n;
    }
    parts
}

fn combo_choices(rng: &mut Rng, max: u32, exhaustive: bool) -> Vec<u32> {
    if exhaustive && max <= 12 {
        (0..=max).collect()
    } else {
        let mut v = vec![0, 1.min(max), max, max / 2, max.saturating_sub(1)];
        v.push(rng.below(u64::from(max) + 1) as u32);
        v.sort_unstable();
        v.dedup();
        v
    }
}

// ---------------------------------------------------------------------------------------------
// correspondence lines
// ---------------------------------------------------------------------------------------------

struct Lines {
    /// `OSK` probes (harness/src/c09osk.rs)
    osk: crate::c09osk::OskLines,
    /// `PP` lines built from real attributes (harness/src/c09pp.rs)
    pp: crate::c09pp::PpLines,
    seen: BTreeSet<u64>,
    /// remaining budget per line kind
    budget: std::collections::BTreeMap<String, usize>,
    default_budget: usize,
}

impl Lines {
    fn new(thorough: bool) -> Self {
        let mut budget = std::collections::BTreeMap::new();
        let k = if thorough { 6 } else { 1 };
        for (kind, n) in [("ACCO", 20_000), ("EMC", 15_000), ("ACCT", 6000), ("ACCC", 6000), ("ACCM", 8000), ("TKG", 4000), ("ZPP", 400)] {
            budget.insert(kind.to_owned(), n * k);
        }
        Lines { osk: crate::c09osk::OskLines::new(thorough, 1), pp: crate::c09pp::PpLines::new(thorough, true, 1), seen: BTreeSet::new(), budget, default_budget: 5000 * k }
    }

    fn push(&mut self, run: &mut Run, id: &str, req: String, obs: String) {
        let kind = req.split(' ').next().unwrap_or("").to_owned();
        let left = self.budget.entry(kind.clone()).or_insert(self.default_budget);
        if *left == 0 {
            return;
        }
        if self.seen.insert(crate::common::hash64(&req)) {
            *left -= 1;
            run.count(&format!("lines:{kind}"));
            run.line(id, format!("C09 {req}"), obs);
        }
    }
}

fn fnum(v: f64) -> String {
    if v.is_nan() {
        "nan".into()
    } else if v == f64::INFINITY {
        "+inf".into()
    } else if v == f64::NEG_INFINITY {
        "-inf".into()
    } else {
        format!("{v:?}")
    }
}

fn origin_str(o: OsuScoreOrigin) -> String {
    match o {
        OsuScoreOrigin::Stable => "S:0:0".into(),
        OsuScoreOrigin::WithSliderAcc { max_large_ticks, max_slider_ends } => format!("A:{max_large_ticks}:{max_slider_ends}"),
        OsuScoreOrigin::WithoutSliderAcc { max_large_ticks, max_small_ticks } => format!("N:{max_large_ticks}:{max_small_ticks}"),
    }
}

fn osu_state_str(s: &OsuScoreState) -> String {
    format!("{},{},{},{},{},{},{},{}", s.max_combo, s.large_tick_hits, s.small_tick_hits, s.slider_end_hits, s.n300, s.n100, s.n50, s.misses)
}

fn in_unit(run: &mut Run, id: &str, what: &str, v: f64, repro: &dyn Fn() -> String) {
    if !(v.is_finite() && (0.0..=1.0).contains(&v)) {
        run.fail("oracle:accuracy-outside-unit-interval", "", id, format!("{what} = {v:?}"), repro());
    }
}

// ---------------------------------------------------------------------------------------------
// per-mode performance sweeps
// ---------------------------------------------------------------------------------------------

struct Ctx<'a> {
    id: &'a str,
    d: &'a Difficulty,
    /// verif::mods_snapshot(..).flags of the settings' mods
    flags: [bool; 14],
    /// `mods.no_slider_head_acc(lazer)` as answered by the real `GameMods`
    classic: bool,
    lazer: bool,
    exhaustive: bool,
    n_samples: usize,
    repro: &'a dyn Fn() -> String,
}

fn sweep_osu(run: &mut Run, lines: &mut Lines, rng: &mut Rng, cx: &Ctx, attrs: &OsuDifficultyAttributes, flags: &[bool; 14]) {
    let n = attrs.n_circles + attrs.n_sliders + attrs.n_spinners;
    let rx = flags[5];
    let hit_sets: Vec<Vec<u32>> = if cx.exhaustive && n <= 6 {
        compositions(n, 4)
    } else {
        let mut v = vec![vec![n, 0, 0, 0], vec![0, n, 0, 0], vec![0, 0, n, 0], vec![0, 0, 0, n], vec![0, 0, 0, 0]];
        if n >= 1 {
            v.push(vec![1, 0, 0, n - 1]);
            v.push(vec![0, 1, 0, n - 1]);
            v.push(vec![0, 0, 1, n - 1]);
            v.push(vec![n - 1, 0, 0, 1]);
            v.push(vec![n - 1, 1, 0, 0]);
        }
        for _ in 0..cx.n_samples {
            v.push(random_composition(rng, n, 4));
        }
        v
    };
    let tick_sets: Vec<(u32, u32, u32)> = {
        let (lt, se) = (attrs.n_large_ticks, attrs.n_sliders);
        let mut v = vec![(lt, se, se), (0, 0, 0)];
        if cx.exhaustive && lt <= 3 && se <= 3 {
            v.clear();
            for a in 0..=lt {
                for b in 0..=se {
                    v.push((a, b, b));
                }
            }
        } else {
            v.push((lt / 2, se / 2, se));
            v.push((rng.below(u64::from(lt) + 1) as u32, rng.below(u64::from(se) + 1) as u32, rng.below(u64::from(se) + 1) as u32));
        }
        v
    };
    let combos = combo_choices(rng, attrs.max_combo, cx.exhaustive);
    let mut first = true;
    for hs in &hit_sets {
        for &(lt, se, st) in &tick_sets {
            for &combo in &combos {
                // the all-zero state is only consistent with an empty prefix; it is still evaluated
                // (generate_state redistributes) and separately requested through the calculator below
                let given = OsuScoreState { max_combo: combo, large_tick_hits: lt, small_tick_hits: st, slider_end_hits: se, n300: hs[0], n100: hs[1], n50: hs[2], misses: hs[3] };
                let mut perf = OsuPerformance::new(attrs.clone()).difficulty(cx.d.clone()).state(given.clone());
                let res = guarded(|| {
                    let st = perf.generate_state();
                    (st, perf.calculate())
                });
                let (state, pa) = match res {
                    Ok((Ok(s), Ok(p))) => (s, p),
                    Ok(_) => {
                        run.count("perf:convert-error");
                        continue;
                    }
                    Err(p) => {
                        run.count("perf:panic(C05)");
                        let _ = p;
                        continue;
                    }
                };
                run.eval(None);
                run.count(if state == given { "osu:state-kept" } else { "osu:state-adjusted" });
                let dbg = format!("{pa:?}");
                let what = format!("state {state:?}");
                let nf = check_debug(run, cx.id, "OsuPerformanceAttributes", &dbg, true, &|| format!("{} {what}", (cx.repro)()));
                if first {
                    run.dist.insert("fields-per-struct:OsuPerformanceAttributes".into(), nf as u64);
                    first = false;
                }
                let total = state.n300 + state.n100 + state.n50 + state.misses;
                if total == 0 && pa.pp != 0.0 {
                    run.fail("oracle:zero-hits-nonzero-pp", "", cx.id, format!("osu: zero-hit state but pp = {:?}", pa.pp), format!("{} {what}", (cx.repro)()));
                }
                if total == 0 {
                    run.count("zero-hit-states");
                }
                // accuracies for all three origins (the calculator picks one of them)
                let origins = [
                    OsuScoreOrigin::Stable,
                    OsuScoreOrigin::WithSliderAcc { max_large_ticks: attrs.n_large_ticks, max_slider_ends: attrs.n_sliders },
                    OsuScoreOrigin::WithoutSliderAcc { max_large_ticks: attrs.n_sliders + attrs.n_large_ticks, max_small_ticks: attrs.n_sliders },
                ];
                for o in origins {
                    let a = state.accuracy(o);
                    in_unit(run, cx.id, &format!("OsuScoreState::accuracy({o:?}) of {state:?}"), a, cx.repro);
                    lines.push(run, cx.id, format!("ACCO {} {}", origin_str(o), osu_state_str(&state)), format!("acc={}", fnum(a)));
                }
                // effective miss count (not under relax, where the calculator adjusts it further)
                if !rx && total > 0 {
                    let classic = flags_classic(flags, cx.lazer);
                    lines.push(
                        run,
                        cx.id,
                        format!("EMC {} {},{},{} {}", u8::from(classic), attrs.n_sliders, attrs.n_large_ticks, attrs.max_combo, osu_state_str(&state)),
                        format!("emc={}", fnum(pa.effective_miss_count)),
                    );
                }
                if !(f64::from(state.misses) <= pa.effective_miss_count && pa.effective_miss_count <= f64::from(total)) && total > 0 {
                    run.fail("oracle:effective-miss-count-bounds", "", cx.id, format!("misses {} <= emc {:?} <= total {} violated", state.misses, pa.effective_miss_count, total), format!("{} {what}", (cx.repro)()));
                }
                lines.push(run, cx.id, format!("ZPP osu {total}"), format!("zero={}", if total == 0 { u8::from(pa.pp == 0.0).to_string() } else { "?".into() }));
                lines.pp.push(run, cx.id, "real-map", crate::c09pp::osu_req(attrs, &cx.flags, cx.lazer, cx.classic, &state), crate::c09pp::osu_obs(&pa));
                // the miss penalty takes ln(strain count)^0.94: which side of 1 the real counts fall on
                for (nm, v) in [("aim", attrs.aim_difficult_strain_count), ("speed", attrs.speed_difficult_strain_count)] {
                    run.count(&format!(
                        "real-map osu {nm}_difficult_strain_count {}",
                        if v == 0.0 { "= 0" } else if v == 1.0 { "= 1" } else if v > 1.0 { "> 1" } else if v > 0.0 { "in (0,1)  <-- NaN territory" } else { "other" }
                    ));
                }
            }
        }
    }
    // states generated via accuracy()
    for acc in [0.0, 50.0, 93.7, 100.0] {
        for misses in [0, 1.min(n), n] {
            let mut perf = OsuPerformance::new(attrs.clone()).difficulty(cx.d.clone()).accuracy(acc).misses(misses);
            if let Ok((Ok(state), Ok(pa))) = guarded(|| (perf.generate_state(), perf.calculate())) {
                run.eval(None);
                run.count("states-via-accuracy()");
                check_debug(run, cx.id, "OsuPerformanceAttributes", &format!("{pa:?}"), true, &|| format!("{} accuracy({acc}).misses({misses}) -> {state:?}", (cx.repro)()));
            }
        }
    }
}

fn mods_snapshot_flags(mods: &rosu_pp::GameMods) -> [bool; 14] {
    rosu_pp::verif::mods_snapshot(mods).flags
}

fn flags_classic(flags: &[bool; 14], lazer: bool) -> bool {
    // GameMods::no_slider_head_acc(lazer): `!lazer || cl`
    !lazer || flags[10]
}

fn sweep_taiko(run: &mut Run, lines: &mut Lines, rng: &mut Rng, cx: &Ctx, attrs: &TaikoDifficultyAttributes) {
    let n = attrs.max_combo;
    let hit_sets: Vec<Vec<u32>> = if cx.exhaustive && n <= 14 {
        compositions(n, 3)
    } else {
        let mut v = vec![vec![n, 0, 0], vec![0, n, 0], vec![0, 0, n], vec![0, 0, 0]];
        if n >= 1 {
            v.push(vec![1, 0, n - 1]);
            v.push(vec![0, 1, n - 1]);
            v.push(vec![1, n - 1, 0]);
            v.push(vec![n - 1, 0, 1]);
        }
        for _ in 0..cx.n_samples * 2 {
            v.push(random_composition(rng, n, 3));
        }
        v
    };
    let combos = combo_choices(rng, n, false);
    let mut first = true;
    for hs in &hit_sets {
        for &combo in &combos {
            let given = TaikoScoreState { max_combo: combo, n300: hs[0], n100: hs[1], misses: hs[2] };
            let mut perf = TaikoPerformance::new(attrs.clone()).difficulty(cx.d.clone()).state(given);
            let (state, pa) = match guarded(|| (perf.generate_state(), perf.calculate())) {
                Ok((Ok(s), Ok(p))) => (s, p),
                Ok(_) => continue,
                Err(_) => {
                    run.count("perf:panic(C05)");
                    continue;
                }
            };
            run.eval(None);
            run.count(if state == given { "taiko:state-kept" } else { "taiko:state-adjusted" });
            let what = format!("state {state:?}");
            let nf = check_debug(run, cx.id, "TaikoPerformanceAttributes", &format!("{pa:?}"), true, &|| format!("{} {what}", (cx.repro)()));
            if first {
                run.dist.insert("fields-per-struct:TaikoPerformanceAttributes".into(), nf as u64);
                first = false;
            }
            let total = state.n300 + state.n100 + state.misses;
            if total == 0 {
                run.count("zero-hit-states");
                if pa.pp != 0.0 {
                    run.fail("oracle:zero-hits-nonzero-pp", "", cx.id, format!("taiko: zero-hit state but pp = {:?}", pa.pp), format!("{} {what}", (cx.repro)()));
                }
            }
            if state.n300 == 0 {
                run.count("taiko:n300=0 states");
            }
            let a = state.accuracy();
            in_unit(run, cx.id, &format!("TaikoScoreState::accuracy of {state:?}"), a, cx.repro);
            lines.push(run, cx.id, format!("ACCT {},{},{}", state.n300, state.n100, state.misses), format!("acc={}", fnum(a)));
            lines.pp.push(run, cx.id, "real-map", crate::c09pp::taiko_req(attrs, &cx.flags, &state), crate::c09pp::taiko_obs(&pa));
            // hypothesis of the taiko theorems: 0 <= mono_stamina_factor < 5/3 (acc_scaling_shift > 0)
            let msf = attrs.mono_stamina_factor;
            run.count(&format!(
                "real-map taiko mono_stamina_factor {}",
                if msf == 0.0 { "= 0" } else if msf > 0.0 && msf <= 1.0 { "in (0,1]" } else if msf > 1.0 && msf < 5.0 / 3.0 { "in (1,5/3)" } else if msf >= 5.0 / 3.0 { ">= 5/3  <-- NaN territory" } else { "negative/NaN" }
            ));
            // guard logic of compute_deviation_upper_bound / calculate
            let ghw_pos = attrs.great_hit_window > 0.0;
            lines.push(
                run,
                cx.id,
                format!("TKG {},{},{} {}", state.n300, state.n100, state.misses, u8::from(ghw_pos)),
                format!(
                    "eur={} zero={}",
                    if pa.estimated_unstable_rate.is_some() { "some" } else { "none" },
                    if state.n300 == 0 || !ghw_pos { u8::from(pa.pp == 0.0 && pa.pp_acc == 0.0 && pa.pp_difficulty == 0.0).to_string() } else { "?".into() }
                ),
            );
        }
    }
    for acc in [0.0, 50.0, 93.7, 100.0] {
        for misses in [0, 1.min(n), n] {
            let mut perf = TaikoPerformance::new(attrs.clone()).difficulty(cx.d.clone()).accuracy(acc).misses(misses);
            if let Ok((Ok(state), Ok(pa))) = guarded(|| (perf.generate_state(), perf.calculate())) {
                run.eval(None);
                run.count("states-via-accuracy()");
                check_debug(run, cx.id, "TaikoPerformanceAttributes", &format!("{pa:?}"), true, &|| format!("{} accuracy({acc}).misses({misses}) -> {state:?}", (cx.repro)()));
            }
        }
    }
}

fn sweep_catch(run: &mut Run, lines: &mut Lines, rng: &mut Rng, cx: &Ctx, attrs: &CatchDifficultyAttributes) {
    let (nf, nd, nt) = (attrs.n_fruits, attrs.n_droplets, attrs.n_tiny_droplets);
    let mut states: Vec<CatchScoreState> = Vec::new();
    let combo_max = attrs.max_combo();
    let mk = |f: u32, d: u32, t: u32, tm: u32, m: u32, c: u32| CatchScoreState { max_combo: c, fruits: f, droplets: d, tiny_droplets: t, tiny_droplet_misses: tm, misses: m };
    if cx.exhaustive && nf + nd <= 8 && nt <= 6 {
        for f in 0..=nf {
            for d in 0..=nd {
                let m = nf + nd - f - d;
                for t in 0..=nt {
                    for c in combo_choices(rng, combo_max, combo_max <= 8) {
                        states.push(mk(f, d, t, nt - t, m, c));
                    }
                }
            }
        }
    } else {
        states.push(mk(nf, nd, nt, 0, 0, combo_max));
        states.push(mk(0, 0, 0, nt, nf + nd, 0));
        states.push(mk(0, 0, nt, 0, nf + nd, 0));
        states.push(mk(nf, nd, 0, nt, 0, combo_max));
        for _ in 0..cx.n_samples * 3 {
            let f = rng.below(u64::from(nf) + 1) as u32;
            let d = rng.below(u64::from(nd) + 1) as u32;
            let t = rng.below(u64::from(nt) + 1) as u32;
            let c = rng.below(u64::from(combo_max) + 1) as u32;
            states.push(mk(f, d, t, nt - t, nf + nd - f - d, c));
        }
    }
    states.push(mk(0, 0, 0, 0, 0, 0));
    let mut first = true;
    for given in states {
        let mut perf = CatchPerformance::new(attrs.clone()).difficulty(cx.d.clone()).state(given.clone());
        let (state, pa) = match guarded(|| (perf.generate_state(), perf.calculate())) {
            Ok((Ok(s), Ok(p))) => (s, p),
            Ok(_) => continue,
            Err(_) => {
                run.count("perf:panic(C05)");
                continue;
            }
        };
        run.eval(None);
        run.count(if state == given { "catch:state-kept" } else { "catch:state-adjusted" });
        let what = format!("state {state:?}");
        let nfl = check_debug(run, cx.id, "CatchPerformanceAttributes", &format!("{pa:?}"), true, &|| format!("{} {what}", (cx.repro)()));
        if first {
            run.dist.insert("fields-per-struct:CatchPerformanceAttributes".into(), nfl as u64);
            first = false;
        }
        let total = state.fruits + state.droplets + state.tiny_droplets + state.tiny_droplet_misses + state.misses;
        if total == 0 {
            run.count("zero-hit-states");
            if pa.pp != 0.0 {
                run.fail("oracle:zero-hits-nonzero-pp", "", cx.id, format!("catch: zero-hit state but pp = {:?}", pa.pp), format!("{} {what}", (cx.repro)()));
            }
        }
        let a = state.accuracy();
        in_unit(run, cx.id, &format!("CatchScoreState::accuracy of {state:?}"), a, cx.repro);
        lines.push(run, cx.id, format!("ACCC {},{},{},{},{}", state.fruits, state.droplets, state.tiny_droplets, state.tiny_droplet_misses, state.misses), format!("acc={}", fnum(a)));
        lines.push(run, cx.id, format!("ZPP catch {total}"), format!("zero={}", if total == 0 { u8::from(pa.pp == 0.0).to_string() } else { "?".into() }));
        lines.pp.push(run, cx.id, "real-map", crate::c09pp::catch_req(attrs, &cx.flags, &state), crate::c09pp::catch_obs(&pa));
    }
    for acc in [0.0, 50.0, 93.7, 100.0] {
        let mut perf = CatchPerformance::new(attrs.clone()).difficulty(cx.d.clone()).accuracy(acc);
        if let Ok((Ok(state), Ok(pa))) = guarded(|| (perf.generate_state(), perf.calculate())) {
            run.eval(None);
            run.count("states-via-accuracy()");
            check_debug(run, cx.id, "CatchPerformanceAttributes", &format!("{pa:?}"), true, &|| format!("{} accuracy({acc}) -> {state:?}", (cx.repro)()));
        }
    }
}

fn sweep_mania(run: &mut Run, lines: &mut Lines, rng: &mut Rng, cx: &Ctx, attrs: &ManiaDifficultyAttributes, flags: &[bool; 14]) {
    let classic = !cx.lazer || flags[10];
    let n = attrs.n_objects + if classic { 0 } else { attrs.n_hold_notes };
    let hit_sets: Vec<Vec<u32>> = if cx.exhaustive && n <= 5 {
        compositions(n, 6)
    } else {
        let mut v = vec![vec![n, 0, 0, 0, 0, 0], vec![0, n, 0, 0, 0, 0], vec![0, 0, 0, 0, n, 0], vec![0, 0, 0, 0, 0, n], vec![0; 6]];
        if n >= 1 {
            v.push(vec![1, 0, 0, 0, 0, n - 1]);
            v.push(vec![0, 0, 0, 0, 1, n - 1]);
            v.push(vec![n - 1, 0, 0, 1, 0, 0]);
        }
        for _ in 0..cx.n_samples * 3 {
            v.push(random_composition(rng, n, 6));
        }
        v
    };
    let mut first = true;
    for hs in &hit_sets {
        let given = ManiaScoreState { n320: hs[0], n300: hs[1], n200: hs[2], n100: hs[3], n50: hs[4], misses: hs[5] };
        let mut perf = ManiaPerformance::new(attrs.clone()).difficulty(cx.d.clone()).state(given.clone());
        let (state, pa) = match guarded(|| (perf.generate_state(), perf.calculate())) {
            Ok((Ok(s), Ok(p))) => (s, p),
            Ok(_) => continue,
            Err(_) => {
                run.count("perf:panic(C05)");
                continue;
            }
        };
        run.eval(None);
        run.count(if state == given { "mania:state-kept" } else { "mania:state-adjusted" });
        let what = format!("state {state:?}");
        let nfl = check_debug(run, cx.id, "ManiaPerformanceAttributes", &format!("{pa:?}"), true, &|| format!("{} {what}", (cx.repro)()));
        if first {
            run.dist.insert("fields-per-struct:ManiaPerformanceAttributes".into(), nfl as u64);
            first = false;
        }
        let total = state.n320 + state.n300 + state.n200 + state.n100 + state.n50 + state.misses;
        if total == 0 {
            run.count("zero-hit-states");
            if pa.pp != 0.0 {
                run.fail("oracle:zero-hits-nonzero-pp", "", cx.id, format!("mania: zero-hit state but pp = {:?}", pa.pp), format!("{} {what}", (cx.repro)()));
            }
        }
        for cl in [false, true] {
            let a = state.accuracy(cl);
            in_unit(run, cx.id, &format!("ManiaScoreState::accuracy({cl}) of {state:?}"), a, cx.repro);
            lines.push(run, cx.id, format!("ACCM {} {},{},{},{},{},{}", u8::from(cl), state.n320, state.n300, state.n200, state.n100, state.n50, state.misses), format!("acc={}", fnum(a)));
        }
        lines.push(run, cx.id, format!("ZPP mania {total}"), format!("zero={}", if total == 0 { u8::from(pa.pp == 0.0 && pa.pp_difficulty == 0.0).to_string() } else { "?".into() }));
        lines.pp.push(run, cx.id, "real-map", crate::c09pp::mania_req(attrs, &cx.flags, &state), crate::c09pp::mania_obs(&pa));
    }
    for acc in [0.0, 50.0, 93.7, 100.0] {
        let mut perf = ManiaPerformance::new(attrs.clone()).difficulty(cx.d.clone()).accuracy(acc);
        if let Ok((Ok(state), Ok(pa))) = guarded(|| (perf.generate_state(), perf.calculate())) {
            run.eval(None);
            run.count("states-via-accuracy()");
            check_debug(run, cx.id, "ManiaPerformanceAttributes", &format!("{pa:?}"), true, &|| format!("{} accuracy({acc}) -> {state:?}", (cx.repro)()));
        }
    }
}

// ---------------------------------------------------------------------------------------------
// one (map, target mode, settings, prefix) case
// ---------------------------------------------------------------------------------------------

#[allow(clippy::too_many_arguments)]
fn check_case(run: &mut Run, lines: &mut Lines, rng: &mut Rng, id: &str, map: &Beatmap, text: &str, mode: u8, settings: &Settings, passed: Option<u32>, exhaustive: bool, n_samples: usize, with_strains: bool) {
    let mut d = settings.build(mode);
    if let Some(n) = passed {
        d = d.passed_objects(n);
    }
    let lazer = settings.lazer.unwrap_or(true);
    let repro_s = || format!("mode={} passed={passed:?} settings={} map=<<\n{text}>>", mode_name(mode), settings.describe());
    let attrs = match one_shot(&d, map, mode_of(mode)) {
        Ok(a) => a,
        Err(e) if e.starts_with("convert:") => {
            run.count("skipped:not-convertible");
            return;
        }
        Err(_) => {
            run.count("difficulty:panic(C05)");
            return;
        }
    };
    run.eval(Some(&format!("{id}|{passed:?}")));
    run.count(&format!("cases:{}{}", mode_name(mode), if map.mode != mode_of(mode) { "(convert)" } else { "" }));
    let flags = mods_snapshot_flags(&settings.mods.build(mode));
    let classic = {
        let snap = rosu_pp::verif::mods_snapshot(&settings.mods.build(mode));
        if lazer { snap.no_slider_head_acc_lazer } else { snap.no_slider_head_acc_stable }
    };
    let dbg = format!("{attrs:?}");
    let nf = check_debug(run, id, "DifficultyAttributes", &dbg, true, &repro_s);
    run.dist.insert(format!("fields-per-struct:{}DifficultyAttributes", mode_name(mode)), nf as u64);
    if with_strains {
        match strains_of(&d, map, mode) {
            Ok(st) => {
                for (name, v) in &st.skills {
                    run.count_n("strain-values-visited", v.len() as u64);
                    for (i, x) in v.iter().enumerate() {
                        if !(x.is_finite() && *x >= 0.0) {
                            run.fail("oracle:strain-not-finite-nonneg", "", id, format!("{}Strains.{name}[{i}] = {x:?}", mode_name(mode)), repro_s());
                            break;
                        }
                    }
                }
            }
            Err(e) if e.starts_with("convert:") => {}
            Err(_) => run.count("strains:panic(C05)"),
        }
    }
    if mode == 0 && passed.is_none() && map.mode == mode_of(0) {
        crate::c09osk::probe(run, &mut lines.osk, id, &d, map);
    }
    let cx = Ctx { id, d: &d, flags, classic, lazer, exhaustive, n_samples, repro: &repro_s };
    match &attrs {
        DifficultyAttributes::Osu(a) => sweep_osu(run, lines, rng, &cx, a, &flags),
        DifficultyAttributes::Taiko(a) => sweep_taiko(run, lines, rng, &cx, a),
        DifficultyAttributes::Catch(a) => sweep_catch(run, lines, rng, &cx, a),
        DifficultyAttributes::Mania(a) => sweep_mania(run, lines, rng, &cx, a, &flags),
    }
}

// ---------------------------------------------------------------------------------------------
// model correspondence on synthetic inputs (helpers, aggregation, guards)
// ---------------------------------------------------------------------------------------------

fn hex(v: f64) -> String {
    format!("{:016x}", v.to_bits())
}

fn synthetic_lines(run: &mut Run, lines: &mut Lines, rng: &mut Rng, n: usize) {
    use rosu_pp::{verif_skills, verif_special as sp};
    // accuracies on arbitrary (inconsistent, large) states: the theorems claim [0,1] for EVERY state
    for i in 0..n {
        let big = |rng: &mut Rng| match rng.below(4) {
            0 => 0,
            1 => rng.below(4) as u32,
            2 => rng.below(2000) as u32,
            _ => rng.below(50_000_000) as u32,
        };
        let s = OsuScoreState { max_combo: big(rng), large_tick_hits: big(rng), small_tick_hits: big(rng), slider_end_hits: big(rng), n300: big(rng), n100: big(rng), n50: big(rng), misses: big(rng) };
        let (a, b) = (big(rng), big(rng));
        for o in [OsuScoreOrigin::Stable, OsuScoreOrigin::WithSliderAcc { max_large_ticks: a, max_slider_ends: b }, OsuScoreOrigin::WithoutSliderAcc { max_large_ticks: a, max_small_ticks: b }] {
            let acc = s.accuracy(o);
            let id = format!("syn-acc-{i}");
            in_unit(run, &id, &format!("OsuScoreState::accuracy({o:?}) of {s:?}"), acc, &|| format!("{s:?} {o:?}"));
            lines.push(run, &id, format!("ACCO {} {}", origin_str(o), osu_state_str(&s)), format!("acc={}", fnum(acc)));
        }
        let t = TaikoScoreState { max_combo: big(rng), n300: big(rng), n100: big(rng), misses: big(rng) };
        let acc = t.accuracy();
        in_unit(run, "syn-acc", &format!("TaikoScoreState::accuracy of {t:?}"), acc, &|| format!("{t:?}"));
        lines.push(run, "syn-acc", format!("ACCT {},{},{}", t.n300, t.n100, t.misses), format!("acc={}", fnum(acc)));
        let c = CatchScoreState { max_combo: big(rng), fruits: big(rng), droplets: big(rng), tiny_droplets: big(rng), tiny_droplet_misses: big(rng), misses: big(rng) };
        let acc = c.accuracy();
        in_unit(run, "syn-acc", &format!("CatchScoreState::accuracy of {c:?}"), acc, &|| format!("{c:?}"));
        lines.push(run, "syn-acc", format!("ACCC {},{},{},{},{}", c.fruits, c.droplets, c.tiny_droplets, c.tiny_droplet_misses, c.misses), format!("acc={}", fnum(acc)));
        let small = |rng: &mut Rng| match rng.below(3) {
            0 => 0,
            1 => rng.below(4) as u32,
            _ => rng.below(5_000_000) as u32,
        };
        let m = ManiaScoreState { n320: small(rng), n300: small(rng), n200: small(rng), n100: small(rng), n50: small(rng), misses: small(rng) };
        for cl in [false, true] {
            let acc = m.accuracy(cl);
            in_unit(run, "syn-acc", &format!("ManiaScoreState::accuracy({cl}) of {m:?}"), acc, &|| format!("{m:?}"));
            lines.push(run, "syn-acc", format!("ACCM {} {},{},{},{},{},{}", u8::from(cl), m.n320, m.n300, m.n200, m.n100, m.n50, m.misses), format!("acc={}", fnum(acc)));
        }
        run.eval(None);
    }
    // u32 wrap-around of a release build (Lean: osu_accuracy_wrapped_exceeds_one); outside the
    // property's quantifier, replayed so that the witness stays tied to the code
    if !cfg!(debug_assertions) {
        for (n300, misses) in [(1u32, 715_827_882u32), (7, 715_827_882), (3, 10)] {
            let s = OsuScoreState { n300, misses, ..Default::default() };
            if let Ok(acc) = guarded(|| s.accuracy(OsuScoreOrigin::Stable)) {
                lines.push(run, "syn-wrap", format!("ACCW {}", osu_state_str(&s)), format!("acc={}", fnum(acc)));
            }
        }
    }
    // difficulty_value / count_top_weighted_strains through the hooks
    for i in 0..n {
        let len = *rng.pick(&[0usize, 0, 1, 2, 3, 5, 8, 13, 40]);
        let style = rng.below(5);
        let peaks: Vec<f64> = (0..len)
            .map(|_| match style {
                0 => 0.0,
                1 => if rng.chance(1, 2) { 0.0 } else { (rng.unit() * 1000.0).round() / 8.0 },
                2 => rng.unit() * 30.0,
                3 => *rng.pick(&[0.0, 1.0, 1.0, 2.5, 1e-300, 1e300, 5e-324]),
                _ => (rng.below(20) as f64) * 0.5,
            })
            .collect();
        let w = *rng.pick(&[0.9, 0.9, 0.94, 0.82, 0.5, 0.0, 1.0]);
        let id = format!("syn-dv-{i}");
        let dv = verif_skills::difficulty_value(&peaks, w);
        if !(dv.is_finite() && dv >= 0.0) && peaks.iter().all(|p| *p < 1e290) {
            run.fail("oracle:difficulty-value-not-finite-nonneg", "", &id, format!("difficulty_value({peaks:?}, {w}) = {dv:?}"), format!("{peaks:?} {w}"));
        }
        if peaks.iter().all(|p| *p == 0.0) && dv != 0.0 {
            run.fail("oracle:difficulty-value-all-zero", "", &id, format!("difficulty_value({peaks:?}, {w}) = {dv:?}, expected 0"), format!("{peaks:?} {w}"));
        }
        let ps: Vec<String> = peaks.iter().map(|p| hex(*p)).collect();
        lines.push(run, &id, format!("DVQ {} {}", hex(w), if ps.is_empty() { "-".into() } else { ps.join(",") }), format!("dv={}", fnum(dv)));
        // count_top_weighted_strains: strains any sign, dv incl. 0, tiny, negative
        let dvs = [dv, 0.0, 1e-17, -1e-17, 2.3e-15, -3.0, 10.0, f64::MIN_POSITIVE];
        let dv2 = *rng.pick(&dvs);
        let strains: Vec<f64> = peaks.iter().map(|p| if rng.chance(1, 8) { -*p } else { *p }).filter(|p| p.abs() < 1e200).collect();
        let c = verif_skills::count_top_weighted_strains(&strains, dv2);
        if !(c.is_finite() && c >= 0.0) {
            run.fail("oracle:count-top-weighted-not-finite-nonneg", "", &id, format!("count_top_weighted_strains({strains:?}, {dv2:?}) = {c:?}"), format!("{strains:?} {dv2:?}"));
        }
        let ss: Vec<String> = strains.iter().map(|p| hex(*p)).collect();
        lines.push(run, &id, format!("CTW {} {}", hex(dv2), if ss.is_empty() { "-".into() } else { ss.join(",") }), format!("count={}", fnum(c)));
        run.eval(None);
    }
    // piecewise-rational helpers + erf_inv branches
    let grid = [-3.0, -1.0, -0.5, 0.0, 0.1, 0.25, 0.5, 0.75, 1.0, 1.5, 2.0, 22.0, 24.5, 27.0, 100.0];
    for &x in &grid {
        for &(a, b) in &[(0.0, 1.0), (22.0, 27.0), (1.0, 0.0), (-1.0, 1.0), (0.5, 0.5), (2.0, 2.0)] {
            let id = "syn-helpers";
            let vals = [sp::reverse_lerp(x, a, b), sp::smoothstep(x, a, b), sp::smootherstep(x, a, b)];
            if a != b {
                for (k, v) in vals.iter().enumerate() {
                    if !(v.is_finite() && (0.0..=1.0).contains(v)) {
                        run.fail("oracle:helper-outside-unit-interval", "", id, format!("helper #{k} ({x}, {a}, {b}) = {v:?}"), String::new());
                    }
                }
            }
            if a == b {
                // division by zero: +-inf clamps to 0/1, 0/0 stays NaN (model: `none`)
                for v in vals {
                    if !(v.is_nan() || v == 0.0 || v == 1.0) {
                        run.fail("oracle:helper-div0-value", "", id, format!("helper({x}, {a}, {b}) = {v:?}"), String::new());
                    }
                }
                lines.push(run, id, format!("RLERP {} {} {}", hex(x), hex(a), hex(b)), "rl=div0 ss=div0 sss=div0".to_owned());
            } else {
                lines.push(run, id, format!("RLERP {} {} {}", hex(x), hex(a), hex(b)), format!("rl={} ss={} sss={}", fnum(vals[0]), fnum(vals[1]), fnum(vals[2])));
            }
        }
        let l = sp::lerp(x, 2.0 * x + 1.0, 0.25);
        lines.push(run, "syn-helpers", format!("LERP {} {} {}", hex(x), hex(2.0 * x + 1.0), hex(0.25)), format!("lerp={}", fnum(l)));
        let lg = sp::logistic_exp(x, Some(1.1));
        if !(lg.is_finite() && (0.0..=1.1).contains(&lg)) {
            run.fail("oracle:logistic-range", "", "syn-helpers", format!("logistic_exp({x}, 1.1) = {lg:?}"), String::new());
        }
        run.eval(None);
    }
    for z in [0.0, -0.0, 1.0, -1.0, 1.5, -7.0, f64::INFINITY, f64::NEG_INFINITY, 0.5, -0.5, 1e-300, 0.999_999_999_999, -0.3, f64::NAN, 1.0 - f64::EPSILON / 2.0] {
        let v = sp::erf_inv(z);
        // interior values are only classified (finite, sign); the branches are exact
        let obs = if v.is_nan() {
            "nan".to_owned()
        } else if v.is_infinite() {
            if v > 0.0 { "+inf" } else { "-inf" }.to_owned()
        } else if v == 0.0 {
            "zero".to_owned()
        } else {
            format!("impl:{}", if v > 0.0 { "pos" } else { "neg" })
        };
        lines.push(run, "syn-erfinv", format!("ERFINV {}", hex(z)), obs);
        let e = sp::erf(z);
        if !z.is_nan() && !(e.is_finite() && (-1.0..=1.0).contains(&e)) {
            run.fail("oracle:erf-range", "", "syn-erfinv", format!("erf({z:?}) = {e:?}"), String::new());
        }
        run.eval(None);
    }
    // erf_inv on the Wilson bounds that taiko can hand over: n300 in 1..=N, n total
    for n in [1u32, 2, 3, 10, 100, 1500, 100_000, 5_000_000] {
        for n300 in [1u32, 2, n / 2, n.saturating_sub(1), n] {
            if n300 == 0 || n300 > n {
                continue;
            }
            let z = 2.326_347_874_04_f64;
            let nn = f64::from(n);
            let p = f64::from(n300) / nn;
            let pl = (nn * p + z * z / 2.0) / (nn + z * z) - z / (nn + z * z) * f64::sqrt(nn * p * (1.0 - p) + z * z / 4.0);
            let v = sp::erf_inv(pl);
            if !(pl > 0.0 && pl < 1.0 && v.is_finite() && v > 0.0) {
                run.fail("oracle:wilson-bound-outside-open-domain", "", "syn-wilson", format!("n={n} n300={n300}: p_lower={pl:?} erf_inv={v:?}"), String::new());
            }
            lines.push(run, "syn-wilson", format!("WILSON {n} {n300}"), "inside=1".to_owned());
            run.eval(None);
        }
    }
}

// ---------------------------------------------------------------------------------------------
// entry point
// ---------------------------------------------------------------------------------------------

pub fn run(tier: &str, seed: u64, only: Option<&str>) -> Run {
    let mut run = Run::default();
    let thorough = tier == "thorough";
    let mut rng = Rng::new(seed ^ 0x0909);
    let mut lines = Lines::new(thorough);

    if only.is_none() || only.is_some_and(|o| o.starts_with("syn-")) {
        synthetic_lines(&mut run, &mut lines, &mut rng.fork(), if thorough { 6000 } else { 1200 });
    }
    if only.is_none() || only.is_some_and(|o| o.starts_with("pp-")) {
        crate::c09pp::synthetic(&mut run, &mut rng.fork(), thorough);
    }
    if only.is_none() || only.is_some_and(|o| o.starts_with("osk-")) {
        crate::c09osk::patterns(&mut run, &mut Rng::new(seed ^ 0x05c), thorough);
    }
    // osu!standard end to end (PIPE osu lines, Model/PipelineOsu.lean)
    if only.is_none() || only.is_some_and(|o| o.starts_with("pipe-osu-")) {
        crate::pipe_osu::run(&mut run, tier, seed, only);
    }

    // (case id, map text, native mode)
    let mut maps: Vec<(String, String, u8)> = Vec::new();
    for mode in 0..4u8 {
        for (name, spec) in corner_families(mode) {
            maps.push((format!("corner-{name}-{}", mode_name(mode)), spec.render(), mode));
        }
    }
    // permanent cases of the known finding `curve-nan-vertex` (C05: catch panics) and of the osu!-mode
    // NaN vertex of `calculate_length` (docs/delivery-CURVE.md, O2 / O3): the curve of the middle slider
    // has NaN vertices. Every calculator that does not panic must still produce finite, non-negative
    // outputs on them (osu!, taiko, mania absorb the NaN; the catch panic is counted as
    // `difficulty:panic(C05)` here and is C05's finding).
    {
        let head = |version: u32, mode: u8| format!("osu file format v{version}\n\n[General]\nMode: {mode}\n\n[Difficulty]\nHPDrainRate:5\nCircleSize:4\nOverallDifficulty:5\nApproachRate:5\nSliderMultiplier:1.4\nSliderTickRate:1\n\n[TimingPoints]\n0,500,4,2,0,100,1,0\n\n[HitObjects]\n");
        let around = |slider: &str| format!("100,100,1000,1,0\n{slider}\n300,200,2300,1,0\n200,300,2700,1,0\n250,100,3100,2,0,L|350:100,1,100\n100,300,3500,1,0\n");
        for mode in [0u8, 2] {
            maps.push((format!("curve-nan-vertex-arc-{}", mode_name(mode)), head(14, mode) + &around("0,0,1500,2,0,L|10:0|P|3244:-2736|3225:104|3208:2645,2,300"), mode));
        }
        maps.push(("curve-nan-vertex-catmull-osu".to_owned(), head(9, 0) + &around("100,100,1500,2,0,C|100:100|100:100|150:100,2,7"), 0));
        maps.push(("curve-nan-vertex-catmull-osu-stacked".to_owned(), head(9, 0) + &around("300,200,1500,2,0,C|300:200|300:200|360:200,3,3"), 0));
    }
    let n_random = if thorough { 1200 } else { 60 };
    for i in 0..n_random {
        let mode = (i % 4) as u8;
        let mut cfg = GenCfg::small(mode);
        cfg.max_objects = *rng.pick(&[1, 3, 6, 6, 12, 25]);
        cfg.dense = rng.chance(1, 4);
        cfg.long_gaps = rng.chance(1, 4);
        cfg.allow_negative_start = rng.chance(1, 3);
        cfg.max_slides = *rng.pick(&[1, 3, 8]);
        if rng.chance(1, 6) {
            cfg.weights = *rng.pick(&[[1, 0, 0, 0], [0, 1, 0, 0], [0, 0, 1, 0], [1, 1, 0, 0]]);
            if mode == 3 {
                cfg.weights = *rng.pick(&[[1, 0, 0, 0], [0, 0, 0, 1]]);
            }
        }
        let mut spec = random_map(&mut rng, &cfg);
        if rng.chance(1, 5) {
            // occasionally a random slider with extreme length
            if let Some(o) = spec.objects.iter_mut().find(|o| matches!(o.kind, ObjKind::Slider { .. })) {
                o.kind = random_slider(&mut rng, o.x, o.y, 2);
                if let ObjKind::Slider { length, .. } = &mut o.kind {
                    *length = *rng.pick(&[0.5, 1.0, 3000.0]);
                }
            }
        }
        maps.push((format!("rand-{i}-{}", mode_name(mode)), spec.render(), mode));
    }
    let res = resource_maps();
    for (mode, text) in &res {
        for n in if thorough { vec![1usize, 2, 3, 7, 30, 120, 100_000] } else { vec![2usize, 30, 100_000] } {
            maps.push((format!("res-{}-{n}", mode_name(*mode)), if n >= 100_000 { text.clone() } else { truncate_objects(text, n) }, *mode));
        }
    }

    // shard the map list over a fixed number of threads (fixed, so that a run is deterministic
    // given (tier, seed) whatever the machine); results are merged in shard order
    let n_threads: usize = if only.is_some() { 1 } else if thorough { 12 } else { 4 };
    let shards: Vec<Run> = std::thread::scope(|sc| {
        let handles: Vec<_> = (0..n_threads)
            .map(|t| {
                let maps = &maps;
                sc.spawn(move || {
                    let mut run = Run::default();
                    let mut lines = Lines::new(thorough);
                    lines.pp = crate::c09pp::PpLines::new(thorough, true, n_threads);
                    lines.osk = crate::c09osk::OskLines::new(thorough, n_threads);
                    for v in lines.budget.values_mut() {
                        *v /= n_threads;
                    }
                    lines.default_budget /= n_threads;
                    for (mi, m) in maps.iter().enumerate() {
                        if mi % n_threads == t {
                            check_map(&mut run, &mut lines, mi, m, thorough, seed, only);
                        }
                    }
                    run
                })
            })
            .collect();
        handles.into_iter().map(|h| h.join().unwrap_or_default()).collect()
    });
    for sh in shards {
        merge(&mut run, sh);
    }
    run
}

fn merge(into: &mut Run, sh: Run) {
    into.cases.extend(sh.cases);
    into.impl_lines.extend(sh.impl_lines);
    into.case_ids.extend(sh.case_ids);
    into.repro.extend(sh.repro);
    into.failures.extend(sh.failures);
    into.evaluations += sh.evaluations;
    into.nontrivial.extend(sh.nontrivial);
    for x in sh.samples {
        into.sample(x);
    }
    for (k, v) in sh.dist {
        if k.starts_with("fields-per-struct:") {
            let e = into.dist.entry(k).or_insert(0);
            *e = (*e).max(v);
        } else {
            *into.dist.entry(k).or_insert(0) += v;
        }
    }
    into.notes.extend(sh.notes);
}

fn check_map(run: &mut Run, lines: &mut Lines, mi: usize, m: &(String, String, u8), thorough: bool, seed: u64, only: Option<&str>) {
    let (map_id, text, native) = m;
    {
        let Ok(map) = decode(text) else {
            run.count("skipped:undecodable");
            return;
        };
        if map.check_suspicion().is_err() {
            run.count("skipped:check_suspicion");
            return;
        }
        let n_objects = map.hit_objects.len();
        let small = n_objects <= 14;
        let targets: Vec<u8> = if *native == 0 { vec![0, 1, 2, 3] } else { vec![*native] };
        for &mode in &targets {
            let mut srng = Rng::new(seed ^ crate::common::hash64(map_id) ^ u64::from(mode));
            let n_rand_settings = if thorough { 8 } else { 2 };
            let mut pool = settings_pool(mode, &mut srng, n_rand_settings);
            // large maps: a handful of settings; small maps: the whole pool (quick: a stride)
            if !small {
                let keep = if thorough { 10 } else { 3 };
                let mut sel = vec![pool[0].clone()];
                for _ in 0..keep {
                    sel.push(srng.pick(&pool).clone());
                }
                pool = sel;
            } else if !thorough {
                let off = (mi + usize::from(mode)) % 4;
                pool = pool.into_iter().enumerate().filter(|(i, _)| *i == 0 || i % 4 == off).map(|(_, s)| s).collect();
            }
            for (si, settings) in pool.iter().enumerate() {
                let id = format!("{map_id}>{}#{si}", mode_name(mode));
                if only.is_some_and(|o| o != id) {
                    continue;
                }
                run.repro.insert(id.clone(), format!("mode={} settings={} map=<<\n{text}>>", mode_name(mode), settings.describe()));
                // prefixes: every prefix for small maps on the default settings, a few otherwise
                let mut prefixes: Vec<Option<u32>> = vec![None];
                if small && (si == 0 || thorough) {
                    prefixes.extend((0..=n_objects as u32).map(Some));
                } else if small {
                    prefixes.push(Some(srng.below(n_objects as u64 + 1) as u32));
                    prefixes.push(Some(0));
                } else if si == 0 {
                    for _ in 0..if thorough { 6 } else { 2 } {
                        prefixes.push(Some(srng.below(n_objects as u64 + 1) as u32));
                    }
                }
                for passed in prefixes {
                    let exhaustive = small && (thorough || si % 3 == 0);
                    let with_strains = passed.is_none() || si == 0;
                    check_case(run, lines, &mut srng, &id, &map, text, mode, settings, passed, exhaustive, if thorough { 12 } else { 4 }, with_strains);
                }
                if run.samples.len() < 6 && si == 1 {
                    run.sample(format!("{id}: {} objects, settings {}", n_objects, settings.describe()));
                }
            }
        }
        }
}
