//! Sink of the crate's view probe (`rosu_pp::verif::view_probe`, hook commit "verif hooks: view
//! probe …"): `DifficultyValues::calculate` and `…GradualDifficulty::new` of every mode report the
//! difficulty-object list they built to `rosu_pp_verif_view_sink`.  The crate keeps no state; the
//! records live here, per thread, and only while a caller asked for them.
//!
//! Not feature-gated: every binary that links the hooked crate needs the symbol.

use std::cell::{Cell, RefCell};

#[derive(Clone, Debug, PartialEq, Eq)]
pub struct ViewRecord {
    /// 0: `DifficultyValues::calculate`, 1: `…GradualDifficulty::new`
    pub path: u8,
    /// 0: osu, 1: taiko, 2: catch, 3: mania
    pub mode: u8,
    pub list_len: usize,
    /// per difficulty object `curr.next(0, &diff_objects).is_some()` (empty for taiko)
    pub next0: Vec<bool>,
}

thread_local! {
    static ENABLED: Cell<bool> = const { Cell::new(false) };
    static RECORDS: RefCell<Vec<ViewRecord>> = const { RefCell::new(Vec::new()) };
}

#[no_mangle]
pub fn rosu_pp_verif_view_sink(path: u8, mode: u8, list_len: usize, next0: &[bool]) {
    if ENABLED.with(Cell::get) {
        RECORDS.with(|r| {
            r.borrow_mut().push(ViewRecord { path, mode, list_len, next0: next0.to_vec() })
        });
    }
}

/// Runs `f` with the probe recording on this thread; returns its result and the records, in order.
pub fn observe<T>(f: impl FnOnce() -> T) -> (T, Vec<ViewRecord>) {
    RECORDS.with(|r| r.borrow_mut().clear());
    ENABLED.with(|e| e.set(true));
    let out = f();
    ENABLED.with(|e| e.set(false));
    (out, RECORDS.with(|r| std::mem::take(&mut *r.borrow_mut())))
}
