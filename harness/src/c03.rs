//! C03 — gradual performance equals performance of the partial play.

use rosu_pp::{
    any::{PerformanceAttributes, ScoreState},
    GradualPerformance, Performance,
};

use crate::{
    common::{guarded, mode_of, Run},
    grad::{cases, note_prepared, prepare, Prepared},
    rng::Rng,
};

#[derive(Clone, Copy, Debug)]
enum POp {
    Next,
    Nth(usize),
    Last,
    Len,
}

fn random_state(rng: &mut Rng, n: u32) -> ScoreState {
    let c = |rng: &mut Rng| rng.range(0, i64::from(n) + 2) as u32;
    match rng.below(4) {
        // consistent-ish: all 300s so far
        0 => ScoreState { max_combo: n, n300: n, ..Default::default() },
        1 => ScoreState { max_combo: c(rng), n300: c(rng), n100: c(rng), n50: c(rng), misses: c(rng), n_geki: c(rng), n_katu: c(rng), ..Default::default() },
        2 => ScoreState { max_combo: 3 * n, n300: 3 * n, n100: 2 * n, misses: n, osu_large_tick_hits: c(rng), osu_small_tick_hits: c(rng), slider_end_hits: c(rng), ..Default::default() },
        _ => ScoreState::default(),
    }
}

fn one_shot_perf(p: &Prepared, i: usize, st: &ScoreState) -> Result<PerformanceAttributes, String> {
    let gm = mode_of(p.mode);
    guarded(|| {
        Performance::new(&p.map)
            .difficulty(p.difficulty.clone())
            .mode_or_ignore(gm)
            .passed_objects(i as u32)
            .state(st.clone())
            .calculate()
    })
}

#[allow(dead_code)]
fn only_mania_combo_differs(a: &PerformanceAttributes, b: &PerformanceAttributes) -> bool {
    if let (PerformanceAttributes::Mania(x), PerformanceAttributes::Mania(y)) = (a, b) {
        let mut y2 = y.clone();
        y2.difficulty.max_combo = x.difficulty.max_combo;
        return format!("{x:?}") == format!("{y2:?}") && x.difficulty.max_combo != y.difficulty.max_combo;
    }
    false
}

fn check_history(run: &mut Run, id: &str, p: &Prepared, ops: &[(POp, ScoreState)]) {
    let gm = mode_of(p.mode);
    let g = guarded(|| GradualPerformance::new_with_mode(p.difficulty.clone(), &p.map, gm));
    let Ok(Ok(mut g)) = g else {
        run.fail("oracle:gradual-performance-new", "", id, String::new(), p.repro());
        return;
    };
    let total = p.units;
    let mut i = 0usize; // objects processed so far according to the documented protocol
    for (k, (op, st)) in ops.iter().enumerate() {
        let remaining = total - i.min(total);
        match op {
            POp::Len => {
                let l = guarded(|| g.len());
                if !matches!(l, Ok(l) if l == remaining) {
                    run.fail("oracle:perf-len", "", id, format!("op {k}: len {l:?}, expected {remaining}"), p.repro());
                    return;
                }
            }
            POp::Next | POp::Nth(_) | POp::Last => {
                let n = match op {
                    POp::Next => 0,
                    POp::Nth(n) => *n,
                    _ => usize::MAX,
                };
                let r = guarded(|| match op {
                    POp::Next => g.next(st.clone()),
                    POp::Nth(n) => g.nth(st.clone(), *n),
                    _ => g.last(st.clone()),
                });
                let r = match r {
                    Ok(r) => r,
                    Err(e) => {
                        run.fail("oracle:perf-panic", "", id, format!("op {k} {op:?}: {e}"), p.repro());
                        return;
                    }
                };
                let step = n.saturating_add(1).min(remaining);
                if remaining == 0 {
                    if r.is_some() {
                        run.fail("oracle:perf-some-after-end", "", id, format!("op {k} {op:?}"), p.repro());
                        return;
                    }
                    continue;
                }
                i += step;
                let Some(got) = r else {
                    run.fail("oracle:perf-none-with-remaining", "", id, format!("op {k} {op:?} remaining {remaining}"), p.repro());
                    return;
                };
                match one_shot_perf(p, i, st) {
                    Ok(exp) => {
                        if format!("{got:?}") != format!("{exp:?}") {
                            // (the former class taiko-gradual-first-two-objects is fixed in /repo)
                            let cls = "";
                            run.fail(
                                "oracle:gradual-perf-ne-oneshot",
                                cls,
                                id,
                                format!("op {k} {op:?} at object {i} state {st:?}\ngradual {got:?}\none-shot {exp:?}"),
                                p.repro(),
                            );
                            return;
                        }
                    }
                    Err(e) => {
                        run.fail("oracle:oneshot-perf-panic", "", id, e, p.repro());
                        return;
                    }
                }
            }
        }
    }
}

/// The `Difficulty` handed to the gradual calculator already carries `passed_objects(k)`. The
/// per-step limit the calculator applies must still be the number of objects passed so far: every
/// value the walk yields equals the one-shot calculation with the same `Difficulty` and
/// `passed_objects(i)`. (How many values such a calculator yields is not asserted here: whether a
/// pre-set limit truncates the gradual calculators is outside the property's quantifier.)
fn check_preset_limit(run: &mut Run, id: &str, p: &Prepared, k: u32) {
    let gm = mode_of(p.mode);
    let d = p.difficulty.clone().passed_objects(k);
    let Ok(Ok(mut g)) = guarded(|| GradualPerformance::new_with_mode(d.clone(), &p.map, gm)) else {
        run.fail("oracle:gradual-performance-new", "", id, format!("preset passed_objects({k})"), p.repro());
        return;
    };
    run.count("preset-limit-walks");
    for i in 1..=p.units {
        let st = ScoreState { max_combo: i as u32, n300: i as u32, ..Default::default() };
        let Ok(r) = guarded(|| g.next(st.clone())) else {
            run.fail("oracle:perf-panic", "", id, format!("preset passed_objects({k}), step {i}"), p.repro());
            return;
        };
        let Some(got) = r else { return };
        let exp = guarded(|| {
            Performance::new(&p.map).difficulty(d.clone()).mode_or_ignore(gm).passed_objects(i as u32).state(st.clone()).calculate()
        });
        match exp {
            Ok(exp) if format!("{got:?}") == format!("{exp:?}") => {}
            Ok(exp) => {
                run.fail(
                    "oracle:gradual-perf-ne-oneshot-preset-limit",
                    "",
                    id,
                    format!("Difficulty carries passed_objects({k}); value {i}\ngradual {got:?}\none-shot {exp:?}"),
                    p.repro(),
                );
                return;
            }
            Err(e) => {
                run.fail("oracle:oneshot-perf-panic", "", id, e, p.repro());
                return;
            }
        }
    }
}

pub fn run(tier: &str, seed: u64, only: Option<&str>) -> Run {
    let mut run = Run::default();
    let thorough = tier == "thorough";
    let (n_random, prefixes): (usize, &[usize]) = if thorough { (30000, &[1, 2, 3, 6, 20, 60, 150]) } else { (3000, &[2, 5, 17]) };
    let mut rng = Rng::new(seed ^ 0x03);
    for c in cases(seed ^ 0x0300, n_random, prefixes) {
        if only.is_some_and(|o| o != c.id) {
            continue;
        }
        match prepare(&c.text, c.mode, &c.settings) {
            Ok(p) => {
                note_prepared(&mut run, &p);
                run.repro.insert(c.id.clone(), p.repro());
                let n_hist = if thorough { 6 } else { 3 };
                for h in 0..n_hist {
                    let len = rng.range(1, (p.units as i64 + 3).min(14)) as usize;
                    let mut ops = Vec::new();
                    for _ in 0..len {
                        let op = match rng.below(10) {
                            0..=4 => POp::Next,
                            5 => POp::Nth(rng.below(4) as usize),
                            6 => POp::Nth(rng.below(30) as usize),
                            7 => POp::Len,
                            8 => POp::Nth(usize::MAX - 1),
                            _ => POp::Last,
                        };
                        ops.push((op, random_state(&mut rng, p.units as u32)));
                    }
                    // plain next-walk with a growing consistent state as first history
                    if h == 0 {
                        ops = (1..=p.units + 1)
                            .map(|i| (POp::Next, ScoreState { max_combo: i as u32, n300: i as u32, ..Default::default() }))
                            .collect();
                    }
                    let key = format!("{}|{}|{:?}", p.mode, p.objs, ops.iter().map(|o| format!("{:?}", o.0)).collect::<Vec<_>>());
                    run.eval((p.units >= 1).then_some(key.as_str()));
                    if h == 1 && p.units >= 3 {
                        run.sample(format!("{}: mode={} objs={} ops={:?}", c.id, p.mode, p.objs, ops.iter().map(|o| o.0).collect::<Vec<_>>()));
                    }
                    check_history(&mut run, &c.id, &p, &ops);
                }
                if p.units >= 2 {
                    let k = rng.range(1, p.units as i64) as u32;
                    check_preset_limit(&mut run, &c.id, &p, k);
                }
            }
            Err(e) if e.starts_with("convert:") => run.count("skipped:not-convertible"),
            Err(e) => run.fail("oracle:prepare", "", &c.id, e, c.text.clone()),
        }
    }
    run
}
