//! TKPRE lines — taiko difficulty-object construction, colour and rhythm preprocessing
//! (`Model/TaikoPre.lean`) against the real object graph, dumped by the hook
//! `taiko::verif::{pre_dump, pre_dump_raw, pre_dump_gradual}`.
//!
//! Request `TKPRE <clock_rate bits> <take> <k:time bits;…>` (k = c | r | n); response = the canonical
//! dump (object fields, index vectors, colour structure with repetition intervals, rhythm groups
//! and pattern groups with their intervals / ratios as bit patterns), or its length + FNV-1a hash
//! when longer than 6000 characters.  Run by `./check C02` (full stream) and `./check C05` (thin
//! stream).
//!
//! Oracles on the implementation alone: the dump never panics (C05), and the structure part of
//! the dump is the same for every `passed_objects` and for the gradual calculator (C02).

use rosu_pp::taiko::verif as tv;

#[cfg(feature = "p02")]
use crate::grad::cases;
use crate::{
    common::{decode, guarded, hash64, resource_maps, truncate_objects, Run, Settings},
    rng::Rng,
};

const DUMP_LIMIT: usize = 6000;

fn shorten(s: &str) -> String {
    if s.len() > DUMP_LIMIT {
        format!("H{}:{}", s.len(), hash64(s))
    } else {
        s.to_owned()
    }
}

fn request(clock_rate: f64, take: u32, objects: &[(u8, f64)]) -> String {
    let objs = if objects.is_empty() {
        "-".to_owned()
    } else {
        objects
            .iter()
            .map(|(k, t)| format!("{}:{}", ["c", "r", "n"][usize::from((*k).min(2))], t.to_bits()))
            .collect::<Vec<_>>()
            .join(";")
    };
    format!("TKPRE {} {take} {objs}", clock_rate.to_bits())
}

/// Everything after the `mc=…,nd=…,dl=…` header.
fn structure(dump: &str) -> &str {
    dump.split_once('#').map_or("", |p| p.1)
}

fn kinds_of(objects: &[(u8, f64)]) -> String {
    objects.iter().map(|(k, _)| ['c', 'r', 'n'][usize::from((*k).min(2))]).collect()
}

fn note(run: &mut Run, objects: &[(u8, f64)], dump: &str) {
    run.count(&format!("tkpre:objects:{}", match objects.len() {
        0 => "0",
        1 => "1",
        2 => "2",
        3..=8 => "3-8",
        9..=64 => "9-64",
        _ => "65+",
    }));
    if objects.iter().all(|o| o.0 == 2) && !objects.is_empty() {
        run.count("tkpre:all-non-hit");
    }
    if objects.windows(2).any(|w| w[0].1 == w[1].1) {
        run.count("tkpre:equal-start-times");
    }
    if dump.contains("nan") {
        run.count("tkpre:dump-has-nan");
    }
    if dump.len() > DUMP_LIMIT {
        run.count("tkpre:hashed-dump");
    }
    // a repetition interval below MAX+1 = a repeating pattern was recognised
    if structure(dump).split("#M:").nth(1).is_some_and(|m| {
        m.split('#').next().unwrap_or("").split(';').any(|r| !r.starts_with("17[") && r != "-")
    }) {
        run.count("tkpre:has-repetition");
    }
}

fn raw_case(run: &mut Run, id: &str, objects: &[(u8, f64)], clock_rate: f64, take: u32) {
    let req = request(clock_rate, take, objects);
    match guarded(|| tv::pre_dump_raw(objects, clock_rate, take)) {
        Ok(d) => {
            note(run, objects, &d.dump);
            let key = format!("{}|{}", kinds_of(objects), req);
            run.eval((objects.len() >= 3).then_some(key.as_str()));
            run.line(id, req, shorten(&d.dump));
            // the structure must not depend on `take`
            if take != u32::MAX {
                if let Ok(full) = guarded(|| tv::pre_dump_raw(objects, clock_rate, u32::MAX)) {
                    if structure(&full.dump) != structure(&d.dump) {
                        run.fail(
                            "oracle:taiko-pre-depends-on-take",
                            "",
                            id,
                            format!("take={take}: {} vs {}", shorten(&d.dump), shorten(&full.dump)),
                            req_repro(objects, clock_rate, take),
                        );
                    }
                }
            }
        }
        Err(p) => run.fail("oracle:taiko-pre-panic", "", id, p, req_repro(objects, clock_rate, take)),
    }
}

fn req_repro(objects: &[(u8, f64)], clock_rate: f64, take: u32) -> String {
    format!("raw objects {objects:?} clock_rate={clock_rate} take={take}")
}

/// Gaps (ms) between consecutive objects for the exhaustive kind strings.
fn timing_patterns() -> Vec<(&'static str, Vec<f64>)> {
    vec![
        ("even", vec![200.0]),
        ("equal", vec![0.0]),
        ("one-ms", vec![1.0]),
        ("huge", vec![1.0e7, 200.0, 3.0e8]),
        // interval changes around MARGIN_OF_ERROR = 5 (4 / 5 / 6 / -6 apart) and a doubling
        ("margin", vec![100.0, 104.0, 109.0, 115.0, 109.0, 218.0, 218.0, 100.0]),
        ("mixed", vec![250.0, 250.0, 125.0, 125.0, 125.0, 500.0, 0.0, 0.0, 83.0]),
    ]
}

fn times_from(gaps: &[f64], n: usize, start: f64) -> Vec<f64> {
    let mut t = start;
    let mut v = Vec::with_capacity(n);
    for i in 0..n {
        v.push(t);
        t += gaps[i % gaps.len()];
    }
    v
}

fn exhaustive(run: &mut Run, max_len: usize, only: Option<&str>) {
    let patterns = timing_patterns();
    for len in 0..=max_len {
        let total = 3usize.pow(len as u32);
        for code in 0..total {
            let mut kinds = Vec::with_capacity(len);
            let mut c = code;
            for _ in 0..len {
                kinds.push((c % 3) as u8);
                c /= 3;
            }
            for (pi, (pname, gaps)) in patterns.iter().enumerate() {
                // short strings get every pattern, long ones rotate through them
                if len > 6 && (code + pi) % patterns.len() != 0 {
                    continue;
                }
                let id = format!("tkpre-ex-{len}-{code}-{pname}");
                if only.is_some_and(|o| o != id) {
                    continue;
                }
                let times = times_from(gaps, len, 1000.0);
                let objects: Vec<(u8, f64)> = kinds.iter().copied().zip(times).collect();
                let (clock, take) = match (code + pi) % 4 {
                    0 => (1.0, u32::MAX),
                    1 => (1.5, u32::MAX),
                    2 => (0.75, (code % (len + 2)) as u32),
                    _ => (1.0, (code % (len + 2)) as u32),
                };
                raw_case(run, &id, &objects, clock, take);
            }
        }
    }
}

fn random_raw(run: &mut Run, rng: &mut Rng, n: usize, only: Option<&str>) {
    for i in 0..n {
        let id = format!("tkpre-rnd-{i}");
        let mut r = rng.fork();
        if only.is_some_and(|o| o != id) {
            continue;
        }
        let len = match r.below(10) {
            0..=5 => r.range(9, 40) as usize,
            6..=8 => r.range(40, 160) as usize,
            _ => r.range(160, 600) as usize,
        };
        // kinds: repeated motifs (so that alternating / repeating patterns appear) with mutations
        let motif_len = r.range(1, 9) as usize;
        let p_nonhit = *r.pick(&[0u64, 0, 1, 3, 10]);
        let motif: Vec<u8> = (0..motif_len)
            .map(|_| if r.below(20) < p_nonhit { 2 } else { r.below(2) as u8 })
            .collect();
        let p_mut = *r.pick(&[0u64, 1, 3, 8]);
        let kinds: Vec<u8> = (0..len)
            .map(|j| if r.below(20) < p_mut { r.below(3) as u8 } else { motif[j % motif_len] })
            .collect();
        // gaps: a few base intervals with jitter inside / outside the 5 ms tolerance
        let bases = [62.5, 83.0, 100.0, 125.0, 166.0, 200.0, 250.0, 333.0, 500.0, 0.0, 1.0];
        let n_bases = r.range(1, 4) as usize;
        let chosen: Vec<f64> = (0..n_bases).map(|_| *r.pick(&bases)).collect();
        let jitter = *r.pick(&[0.0, 0.0, 1.0, 4.0, 5.0, 6.0, 11.0]);
        let mut t = *r.pick(&[0.0, 1000.0, -500.0, 3.0e6]);
        let mut cur = chosen[0];
        let mut objects = Vec::with_capacity(len);
        for k in kinds {
            objects.push((k, t));
            if r.chance(1, 6) {
                cur = *r.pick(&chosen);
            }
            let j = if jitter > 0.0 { (r.below(3) as f64 - 1.0) * jitter } else { 0.0 };
            t += (cur + j).max(0.0);
            if r.chance(1, 60) {
                t += *r.pick(&[5000.0, 1.0e6]);
            }
        }
        let clock = *r.pick(&[1.0, 1.0, 1.5, 0.75, 2.0, 0.5, 1.37, 0.01, 100.0]);
        let take = if r.chance(1, 2) { u32::MAX } else { r.below(len as u64 + 2) as u32 };
        raw_case(run, &id, &objects, clock, take);
    }
}

fn map_case(run: &mut Run, id: &str, text: &str, settings: &Settings, takes: &[Option<u32>]) {
    let Ok(map) = decode(text) else {
        run.count("tkpre:skipped-undecodable");
        return;
    };
    let mut first: Option<String> = None;
    for take in takes {
        let base = settings.build(1);
        let difficulty = match take {
            Some(n) => base.passed_objects(*n),
            None => base,
        };
        let cid = format!("{id}-t{}", take.map_or("max".to_owned(), |n| n.to_string()));
        match guarded(|| tv::pre_dump(&difficulty, &map)) {
            Ok(Ok(d)) => {
                note(run, &d.objects, &d.dump);
                run.count(if map.is_convert || crate::common::mode_idx(map.mode) != 1 { "tkpre:map-converted" } else { "tkpre:map-native" });
                let req = request(d.clock_rate, d.take, &d.objects);
                let key = format!("{}|{}", kinds_of(&d.objects), req);
                run.eval((d.objects.len() >= 3).then_some(key.as_str()));
                run.repro.insert(cid.clone(), format!("settings={} take={take:?}\n{text}", settings.describe()));
                run.line(&cid, req, shorten(&d.dump));
                match &first {
                    None => first = Some(structure(&d.dump).to_owned()),
                    Some(f) if f != structure(&d.dump) => run.fail(
                        "oracle:taiko-pre-depends-on-take",
                        "",
                        &cid,
                        format!("structure for take={take:?} differs from the first take's"),
                        text.to_owned(),
                    ),
                    Some(_) => {}
                }
            }
            Ok(Err(_)) => run.count("tkpre:skipped-not-convertible"),
            Err(p) => run.fail("oracle:taiko-pre-panic", "", &cid, p, text.to_owned()),
        }
    }
    // the gradual calculator's own object graph
    if let Some(f) = first {
        match guarded(|| tv::pre_dump_gradual(settings.build(1), &map)) {
            Ok(Ok(g)) => {
                run.count("tkpre:gradual-compared");
                if structure(&g) != f {
                    run.fail(
                        "oracle:taiko-pre-gradual-differs",
                        "",
                        id,
                        format!("gradual {} vs one-shot {}", shorten(structure(&g)), shorten(&f)),
                        text.to_owned(),
                    );
                }
            }
            Ok(Err(_)) => {}
            Err(p) => run.fail("oracle:taiko-pre-panic", "", id, format!("gradual: {p}"), text.to_owned()),
        }
    }
}

/// `thin = true`: the reduced stream run under C05.
pub fn run(run: &mut Run, tier: &str, seed: u64, only: Option<&str>, thin: bool) {
    let thorough = tier == "thorough";
    let mut rng = Rng::new(seed ^ 0x7a1c_0e5e);
    let (max_len, n_raw, n_maps, prefixes): (usize, usize, usize, &[usize]) = match (thorough, thin) {
        (false, false) => (7, 600, 1200, &[2, 3, 9, 30, 200]),
        (false, true) => (5, 150, 200, &[3, 40]),
        (true, false) => (9, 6000, 12000, &[1, 2, 3, 4, 7, 15, 40, 120, 300, 1000]),
        (true, true) => (7, 1500, 2000, &[3, 40, 300]),
    };
    exhaustive(run, max_len, only);
    random_raw(run, &mut rng, n_raw, only);
    // text maps through the real decoder / converter: native taiko and osu! → taiko (the thin stream
    // of C05 leaves them out so that it does not depend on the C02 modules)
    #[cfg(feature = "p02")]
    if !thin {
        for c in cases(seed ^ 0x7a1c, n_maps, &[]) {
            if c.mode != 1 {
                continue;
            }
            let id = format!("tkpre-{}", c.id);
            if only.is_some_and(|o| !o.starts_with(&id)) {
                continue;
            }
            let takes = [None, Some(rng.below(6) as u32), Some(rng.below(14) as u32)];
            map_case(run, &id, &c.text, &c.settings, &takes);
        }
    }
    let _ = n_maps;
    for (mode, text) in resource_maps() {
        if mode > 1 {
            continue;
        }
        for &k in prefixes.iter().chain([usize::MAX].iter()) {
            let id = format!("tkpre-res-{mode}-{}", if k == usize::MAX { "full".to_owned() } else { k.to_string() });
            if only.is_some_and(|o| !o.starts_with(&id)) {
                continue;
            }
            let t = if k == usize::MAX { text.clone() } else { truncate_objects(&text, k) };
            let mut settings = Settings::default();
            if rng.chance(1, 2) {
                settings.clock_rate = Some(*rng.pick(&[1.5, 0.75, 1.2]));
            }
            let takes = [None, Some((k.min(5000) / 2) as u32)];
            map_case(run, &id, &t, &settings, &takes);
        }
    }
}
