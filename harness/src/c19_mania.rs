//! C19 / C05 — the osu!→mania pattern generators against `lean/RosuModel/Model/ManiaPattern.lean`.
//!
//! * `isolated`: MPH / MPP / MPE lines — ONE `generate()` call of the real hit-object / path /
//!   end-time generator (through `rosu_pp::mania::verif::gen::run_*`) on generated inputs; the driver
//!   replays the model on the same inputs; notes (column, x position, times), `stair_type` and the
//!   PRNG state afterwards must agree exactly.
//! * `trace_map`: MPT lines — the real `convert` traced per source object
//!   (`gen::convert_traced`); the driver replays the whole per-object loop from the seed, threading
//!   the previous pattern, the stair state and the PRNG itself.
use std::collections::BTreeSet;

use rosu_pp::{
    mania::verif::gen::{self, GenResult, Note, TraceObj},
    Beatmap, GameMods,
};

use crate::{
    common::{guarded, hash64, Run},
    rng::Rng,
};

const FORCE_STACK: u16 = 1 << 0;
const FORCE_NOT_STACK: u16 = 1 << 1;
const KEEP_SINGLE: u16 = 1 << 2;
const LOW_PROBABILITY: u16 = 1 << 3;
const GATHERED: u16 = 1 << 7;
const MIRROR: u16 = 1 << 8;
const REVERSE: u16 = 1 << 9;
const CYCLE: u16 = 1 << 10;
const STAIR: u16 = 1 << 11;
const REVERSE_STAIR: u16 = 1 << 12;

const S_FINISH: u8 = 4;
const S_CLAP: u8 = 8;

fn rng_str(r: [u32; 4]) -> String {
    format!("{}:{}:{}:{}", r[0], r[1], r[2], r[3])
}

fn list_str<T: ToString>(v: &[T], sep: &str) -> String {
    if v.is_empty() {
        "-".to_owned()
    } else {
        v.iter().map(|x| x.to_string()).collect::<Vec<_>>().join(sep)
    }
}

#[derive(Copy, Clone)]
enum TimeKind {
    /// circles at the object's start time
    Object(f64),
    /// circle or hold from the object's start to `end`
    Spinner(f64, f64),
    /// `i32` times
    Path,
}

fn note_str(n: &Note, kind: TimeKind) -> String {
    let x = if n.x.fract() == 0.0 && n.x.abs() < 1e9 { format!("{}", n.x as i64) } else { format!("x={}", n.x) };
    let t = match kind {
        TimeKind::Object(start) => {
            if n.start_time.to_bits() == start.to_bits() && n.duration.is_none() {
                "o".to_owned()
            } else {
                format!("?start={}dur={:?}", n.start_time, n.duration)
            }
        }
        TimeKind::Spinner(start, end) => match n.duration {
            None if n.start_time.to_bits() == start.to_bits() => "o".to_owned(),
            Some(d) if n.start_time.to_bits() == start.to_bits() && d.to_bits() == (end - start).to_bits() => "h".to_owned(),
            _ => format!("?start={}dur={:?}", n.start_time, n.duration),
        },
        TimeKind::Path => {
            let d = n.duration.unwrap_or(0.0);
            if n.start_time.fract() == 0.0 && d.fract() == 0.0 && n.start_time.abs() < 4e9 && d.abs() < 9e9 && (n.duration != Some(0.0)) {
                format!("t{}_{}", n.start_time as i64, n.start_time as i64 + d as i64)
            } else {
                format!("?start={}dur={:?}", n.start_time, n.duration)
            }
        }
    };
    format!("{}@{x}{t}", n.column)
}

fn pats_str(ps: &[Vec<Note>], kind: TimeKind) -> String {
    ps.iter()
        .map(|p| if p.is_empty() { "-".to_owned() } else { p.iter().map(|n| note_str(n, kind)).collect::<Vec<_>>().join(",") })
        .collect::<Vec<_>>()
        .join("/")
}

fn cd_class(cd: f64) -> &'static str {
    if cd > 6.5 {
        ">6.5"
    } else if cd > 4.0 {
        "4-6.5"
    } else if cd > 3.0 {
        "3-4"
    } else if cd > 2.5 {
        "2.5-3"
    } else if cd > 2.0 {
        "2-2.5"
    } else {
        "<=2"
    }
}

/// Which branch of `HitObjectPatternGenerator::generate_core` the inputs select (statistics only).
fn hit_branch(total: i32, ct: u16, prev: &[usize], cd: f64) -> String {
    let has = |f: u16| ct & f != 0;
    if total == 1 {
        return "total=1".into();
    }
    let last = prev.last().copied().unwrap_or(0);
    if has(REVERSE) && !prev.is_empty() {
        return "reverse".into();
    }
    if has(CYCLE) && prev.len() == 1 && (total != 8 || last != 0) && (total % 2 == 0 || last != (total / 2) as usize) {
        return "cycle".into();
    }
    if has(FORCE_STACK) && !prev.is_empty() {
        return "force-stack".into();
    }
    if prev.len() == 1 && has(STAIR) {
        return "stair".into();
    }
    if prev.len() == 1 && has(REVERSE_STAIR) {
        return "reverse-stair".into();
    }
    let stack = if has(FORCE_NOT_STACK) { "not-stack" } else { "stack" };
    let next = if has(GATHERED) { "gathered" } else { "random" };
    if has(KEEP_SINGLE) {
        return format!("keep-single:{stack}:{next}");
    }
    if has(MIRROR) {
        if has(FORCE_NOT_STACK) {
            return format!("mirror->random-pattern:{}:{next}", cd_class(cd));
        }
        return format!("mirrored:{}", cd_class(cd));
    }
    format!("random-pattern:{}:{stack}:{next}:{}", cd_class(cd), if has(LOW_PROBABILITY) { "low" } else { "high" })
}

/// Which `generate_*` of the path generator the inputs select (statistics only).
#[allow(clippy::too_many_arguments)]
fn path_branch(total: i32, ct: u16, span: i32, seg: i32, start: i32, end: i32, cd: f64) -> String {
    let rs = i32::from(total == 8);
    if total == 1 {
        return "total=1".into();
    }
    if span > 1 {
        if seg <= 90 {
            "random-hold-notes(1)".into()
        } else if seg <= 120 {
            "random-notes(span+1)".into()
        } else if seg <= 160 {
            "stair".into()
        } else if seg <= 200 && cd > 3.0 {
            "random-multiple-notes".into()
        } else if end.wrapping_sub(start) >= 4000 {
            "n-random-notes(long)".into()
        } else if seg > 400 && span < total - 1 - rs {
            "tiled-hold-notes".into()
        } else {
            format!("hold-and-normal:{}", cd_class(cd))
        }
    } else if seg <= 110 {
        format!("random-notes({})", 1 + i32::from(seg >= 80))
    } else {
        format!("n-random-notes:{}:{}", cd_class(cd), if ct & LOW_PROBABILITY != 0 { "low" } else { "high" })
    }
}

fn cd_map(hp: f32) -> Beatmap {
    let mut map = Beatmap::default();
    map.hp = hp;
    map.ar = 5.0;
    map
}

fn random_state(rng: &mut Rng) -> [u32; 4] {
    if rng.chance(1, 4) {
        // `Random::new(seed)`
        [rng.next() as u32, 842_502_087, 3_579_807_591, 273_326_509]
    } else {
        [rng.next() as u32, rng.next() as u32, rng.next() as u32, rng.next() as u32 | 1]
    }
}

fn random_total(rng: &mut Rng) -> i32 {
    match rng.below(20) {
        0 => 1,
        1 => *rng.pick(&[11, 12, 16]),
        2..=5 => 8,
        _ => rng.range(1, 10) as i32,
    }
}

/// previous pattern: columns of its objects in order; every occupancy from empty to full
fn random_prev(rng: &mut Rng, total: i32) -> Vec<u8> {
    let mut cols: Vec<u8> = (0..total as u8).collect();
    for i in (1..cols.len()).rev() {
        cols.swap(i, rng.below(i as u64 + 1) as usize);
    }
    let k = match rng.below(10) {
        0 => 0,
        1 | 2 => 1,
        3 => total as usize,
        4 => (total as usize).saturating_sub(1),
        _ => rng.below(total as u64 + 1) as usize,
    };
    cols.truncate(k);
    if !cols.is_empty() && rng.chance(1, 12) {
        // a duplicate column (two objects of the pattern in one column)
        let d = *rng.pick(&cols);
        cols.push(d);
    }
    cols
}

fn random_hp(rng: &mut Rng) -> f32 {
    match rng.below(8) {
        0 => 5.0,
        1 => 26.0,
        2 => 33.0,
        3 => 42.0,
        4 => 60.0,
        5 => 90.0,
        _ => rng.range(0, 100) as f32,
    }
}

fn result_str(res: &Result<GenResult, String>, kind: TimeKind) -> String {
    match res {
        Ok(r) => format!("ok {} {} {}", pats_str(&r.patterns, kind), rng_str(r.rng), r.stair),
        Err(_) => "PANIC".to_owned(),
    }
}

/// flags the dispatcher (`HitObjectPatternGenerator::new`) can produce for this sample / key count
fn dispatcher_ct(rng: &mut Rng, total: i32, sample: u8, stair: u16) -> u16 {
    let base = match rng.below(10) {
        0 => FORCE_NOT_STACK | KEEP_SINGLE,
        1 | 2 => FORCE_NOT_STACK | KEEP_SINGLE | stair,
        3 => FORCE_NOT_STACK | LOW_PROBABILITY,
        4 => FORCE_NOT_STACK,
        5 => CYCLE | KEEP_SINGLE,
        6 => FORCE_STACK | LOW_PROBABILITY,
        7 => REVERSE | LOW_PROBABILITY,
        8 => 0,
        _ => LOW_PROBABILITY,
    };
    if base & KEEP_SINGLE == 0 {
        if sample & S_FINISH != 0 && total != 8 {
            return base | MIRROR;
        } else if sample & S_CLAP != 0 {
            return base | GATHERED;
        }
    }
    base
}

fn arbitrary_ct(rng: &mut Rng) -> u16 {
    let bits = [FORCE_STACK, FORCE_NOT_STACK, KEEP_SINGLE, LOW_PROBABILITY, GATHERED, MIRROR, REVERSE, CYCLE, STAIR, REVERSE_STAIR];
    let mut ct = 0;
    for b in bits {
        if rng.chance(1, 4) {
            ct |= b;
        }
    }
    ct
}

pub fn isolated(run: &mut Run, tier: &str, seed: u64, only: Option<&str>) {
    let thorough = tier == "thorough";
    let n = if thorough { 120_000 } else { 9_000 };
    for ci in 0..n {
        let id = format!("mgen-{ci}");
        if only.is_some_and(|o| o != id) {
            continue;
        }
        let mut rng = Rng::new(seed ^ hash64(&id));
        let total = random_total(&mut rng);
        let state = random_state(&mut rng);
        let sample = rng.below(16) as u8;
        let prev = random_prev(&mut rng, total);
        let prev_us: Vec<usize> = prev.iter().map(|c| *c as usize).collect();
        let x = if rng.chance(1, 10) { rng.range(-20, 620) as f32 } else { rng.range(0, 512) as f32 };
        let map = cd_map(random_hp(&mut rng));
        match ci % 3 {
            0 => {
                let stair = if rng.chance(1, 2) { STAIR } else { REVERSE_STAIR };
                let dispatcher = !rng.chance(1, 5);
                let ct = if dispatcher { dispatcher_ct(&mut rng, total, sample, stair) } else { arbitrary_ct(&mut rng) };
                // In 7K+1 a lone note in the special column followed by a REVERSE_STAIR step makes the
                // code compute column -1 as u8 = 255: `1u16 << 255` panics only with overflow checks and
                // wraps in this (release) build; the model is the checked semantics. Not reachable from
                // `convert` (see docs/delivery-MANIA.md); excluded from the bit-exact tie and counted.
                if total == 8 && prev.len() == 1 && prev[0] == 0 && ct & REVERSE_STAIR != 0 {
                    run.count("mgen:excluded:8K-reverse-stair-from-special-column");
                    continue;
                }
                let (m2, p2) = (map.clone(), prev.clone());
                let res = guarded(move || gen::run_hit(&m2, total, state, x, sample, ct, stair, &p2));
                let cd = guarded(|| gen::run_end(&map, 4, [1, 2, 3, 4], 0, &[], 0.0, 0.0)).map(|r| r.conversion_difficulty).unwrap_or(0.0);
                run.count(&format!("mgen:hit:keys={total}"));
                run.count(&format!("mgen:hit:branch:{}", hit_branch(total, ct, &prev_us, cd)));
                run.count(&format!("mgen:hit:ct-source:{}", if dispatcher { "dispatcher-producible" } else { "arbitrary-bits" }));
                run.count(&format!("mgen:hit:prev-occupancy:{}", occupancy_class(&prev, total)));
                if let Ok(r) = &res {
                    run.count(&format!("mgen:hit:notes-out:{}", r.patterns[0].len().min(8)));
                    column_oracle(run, &id, total, &r.patterns, &format!("run_hit total={total} ct={ct} prev={prev:?}"));
                } else {
                    run.count("mgen:hit:outcome:PANIC");
                }
                let req = format!("MPH {total} {} {} {sample} {ct} {stair} {} {}", rng_str(state), x as i64, cd.to_bits(), list_str(&prev, ","));
                run.repro.insert(id.clone(), format!("rosu_pp::mania::verif::gen::run_hit(map(hp={},ar=5), {total}, {state:?}, {x}, {sample}, {ct}, {stair}, &{prev:?})", map_hp(&res, cd)));
                run.line(&id, req, result_str(&res, TimeKind::Object(0.0)));
                run.eval(Some(&id));
            }
            1 => {
                let span = match rng.below(12) {
                    0..=2 => 1,
                    3 => rng.range(9, 20) as i32,
                    _ => rng.range(2, 8) as i32,
                };
                let seg = match rng.below(5) {
                    0 => rng.range(0, 500) as i32,
                    1 => rng.range(380, 2500) as i32,
                    _ => *rng.pick(&[0, 1, 50, 79, 80, 81, 90, 91, 110, 111, 120, 121, 160, 161, 200, 201, 400, 401, 1000, 2000]) + rng.range(0, 1) as i32,
                };
                let start = match rng.below(6) {
                    0 => 0,
                    1 => -(rng.range(0, 5000) as i32),
                    _ => rng.range(0, 600_000) as i32,
                };
                let end = start + seg * span + if rng.chance(1, 2) { rng.range(0, i64::from(span) - 1) as i32 } else { 0 };
                let nodes: Vec<u8> = match rng.below(6) {
                    0 => Vec::new(),
                    1 => vec![rng.below(16) as u8],
                    _ => (0..=span).map(|_| if rng.chance(1, 2) { 0 } else { rng.below(16) as u8 }).collect(),
                };
                let dispatcher = !rng.chance(1, 5);
                let ct = if dispatcher { if rng.chance(1, 2) { LOW_PROBABILITY } else { 0 } } else { arbitrary_ct(&mut rng) };
                let (m2, p2, n2) = (map.clone(), prev.clone(), nodes.clone());
                let res = guarded(move || gen::run_path(&m2, total, state, x, sample, ct, &p2, span, start, end, seg, &n2));
                let cd = guarded(|| gen::run_end(&map, 4, [1, 2, 3, 4], 0, &[], 0.0, 0.0)).map(|r| r.conversion_difficulty).unwrap_or(0.0);
                run.count(&format!("mgen:path:keys={total}"));
                run.count(&format!("mgen:path:branch:{}", path_branch(total, ct, span, seg, start, end, cd)));
                run.count(&format!("mgen:path:spans:{}", span.min(9)));
                run.count(&format!("mgen:path:prev-occupancy:{}", occupancy_class(&prev, total)));
                if let Ok(r) = &res {
                    run.count(&format!("mgen:path:patterns-out:{}", r.patterns.len()));
                    column_oracle(run, &id, total, &r.patterns, &format!("run_path total={total} ct={ct} prev={prev:?} span={span} seg={seg}"));
                    for n in r.patterns.iter().flatten() {
                        if n.duration.is_some_and(|d| d < 0.0) {
                            run.fail("oracle:mania-generator-negative-duration", "", &id, format!("{n:?}"), format!("run_path span={span} start={start} end={end} seg={seg}"));
                        }
                    }
                } else {
                    run.count("mgen:path:outcome:PANIC");
                }
                let req = format!(
                    "MPP {total} {} {} {sample} {ct} {} {} {span} {start} {end} {seg} {}",
                    rng_str(state),
                    x as i64,
                    cd.to_bits(),
                    list_str(&prev, ","),
                    list_str(&nodes, ",")
                );
                run.repro.insert(id.clone(), format!("rosu_pp::mania::verif::gen::run_path(map(hp={},ar=5), {total}, {state:?}, {x}, {sample}, {ct}, &{prev:?}, {span}, {start}, {end}, {seg}, &{nodes:?})", map_hp(&res, cd)));
                run.line(&id, req, result_str(&res, TimeKind::Path));
                run.eval(Some(&id));
            }
            _ => {
                let start = rng.range(-1000, 600_000) as f64 + if rng.chance(1, 4) { 0.5 } else { 0.0 };
                let dur = *rng.pick(&[0.0, 1.0, 50.0, 99.0, 99.5, 100.0, 101.0, 500.0, 999.0, 999.5, 1000.0, 1001.0, 5000.0, -5.0]);
                let end = start + dur;
                let (m2, p2) = (map.clone(), prev.clone());
                let res = guarded(move || gen::run_end(&m2, total, state, sample, &p2, start, end));
                run.count(&format!("mgen:end:keys={total}"));
                run.count(&format!(
                    "mgen:end:branch:{}",
                    if total == 8 && sample & S_FINISH != 0 && end - start < 1000.0 { "special-column" } else if prev_us.iter().collect::<BTreeSet<_>>().len() as i32 == total { "stacking-allowed(prev full)" } else { "force-not-stack" }
                ));
                run.count(&format!("mgen:end:prev-occupancy:{}", occupancy_class(&prev, total)));
                if let Ok(r) = &res {
                    column_oracle(run, &id, total, &r.patterns, &format!("run_end total={total} prev={prev:?}"));
                } else {
                    run.count("mgen:end:outcome:PANIC");
                }
                let req = format!(
                    "MPE {total} {} {sample} {} {} {}",
                    rng_str(state),
                    list_str(&prev, ","),
                    u8::from(end - start >= 100.0),
                    u8::from(end - start < 1000.0)
                );
                run.repro.insert(id.clone(), format!("rosu_pp::mania::verif::gen::run_end(map, {total}, {state:?}, {sample}, &{prev:?}, {start}, {end})"));
                run.line(&id, req, result_str(&res, TimeKind::Spinner(start, end)));
                run.eval(Some(&id));
            }
        }
    }
}

fn map_hp(_res: &Result<GenResult, String>, cd: f64) -> String {
    // hp with ar = 5 and no objects: cd = (hp + 5) / 1.5 / 38 * 5 / 1.15
    format!("{:.0}", cd * 1.15 / 5.0 * 38.0 * 1.5 - 5.0)
}

fn occupancy_class(prev: &[u8], total: i32) -> &'static str {
    let n = prev.iter().collect::<BTreeSet<_>>().len() as i32;
    if n == 0 {
        "empty"
    } else if n == total {
        "full"
    } else if n == total - 1 {
        "all-but-one"
    } else if n == 1 {
        "one"
    } else {
        "some"
    }
}

/// C19 clause on the generator output itself: every note lies in a column below the key count and
/// its x position is that column's position.
fn column_oracle(run: &mut Run, id: &str, total: i32, patterns: &[Vec<Note>], what: &str) {
    for n in patterns.iter().flatten() {
        // `ManiaObject::column` clamps to the last column, so the bound is checked on the position:
        // a generated x is `ceil(column * 512 / total)`, which is below 512 exactly for columns below total
        if n.column >= total as usize || !(0.0..512.0).contains(&n.x) {
            run.fail("oracle:mania-generator-column", "", id, format!("note {n:?} of {total} keys"), what.to_owned());
        }
    }
}

/// MPN lines: the slider arithmetic of `PathObjectPatternGenerator::new` (end time, segment duration)
/// for every slider of a source map, plus the relations the generators rely on.
pub fn path_new_lines(run: &mut Run, id: &str, src: &Beatmap, repro: &str) {
    for (k, h) in src.hit_objects.iter().enumerate() {
        let rosu_pp::model::hit_object::HitObjectKind::Slider(sl) = &h.kind else { continue };
        let (m2, st, rp, ed) = (src.clone(), h.start_time, sl.repeats, sl.expected_dist);
        let Ok(p) = guarded(move || gen::path_new_probe(&m2, st, rp, ed)) else {
            run.count("mpn:probe-panicked");
            continue;
        };
        // `end_time - start_time` itself overflows `i32` (negative start, end saturated at i32::MAX):
        // the release build wraps (negative segment duration), the model is the checked semantics
        if i64::from(p.end_time) - i64::from(p.start_time) > i64::from(i32::MAX) {
            run.count("mpn:excluded:end-minus-start-overflows-i32");
            continue;
        }
        run.count("mpn:lines");
        run.count(&format!("mpn:segment:{}", match p.segment_duration { i32::MIN..=-1 => "<0", 0 => "0", 1..=90 => "1-90", 91..=120 => "91-120", 121..=160 => "121-160", 161..=200 => "161-200", 201..=400 => "201-400", _ => ">400" }));
        if p.dist >= 0.0 && p.beat_len >= 0.0 && p.slider_multiplier > 0.0 {
            run.count("mpn:non-negative-inputs");
            if p.end_time < p.start_time || p.segment_duration < 0 || i64::from(p.segment_duration) * i64::from(p.span_count) > i64::from(p.end_time) - i64::from(p.start_time) {
                run.fail("oracle:mania-path-new-relations", "", id, format!("{p:?}"), repro.to_owned());
            }
        } else {
            run.count("mpn:negative-input");
        }
        let lid = format!("{id}/new-{k}");
        run.repro.insert(lid.clone(), repro.to_owned());
        run.line(
            &lid,
            format!("MPN {} {} {} {} {}", p.start_time, p.span_count, p.dist.to_bits(), p.beat_len.to_bits(), p.slider_multiplier.to_bits()),
            format!("{} {}", p.end_time, p.segment_duration),
        );
    }
}

/// One traced conversion: MPT line + oracles. `plain` is the output of the untraced `convert`.
pub fn trace_map(run: &mut Run, id: &str, src: &Beatmap, mods: &GameMods, plain: &Beatmap, repro: &str) {
    let (s2, m2) = (src.clone(), mods.clone());
    let (out, trace) = match guarded(move || gen::convert_traced(&s2, &m2)) {
        Ok(r) => r,
        Err(e) => {
            run.fail("oracle:mania-convert-traced-panic", "", id, e, repro.to_owned());
            return;
        }
    };
    // tracing must not perturb the conversion
    if out.hit_objects != plain.hit_objects || out.cs.to_bits() != plain.cs.to_bits() {
        run.fail("oracle:mania-traced-convert-differs", "", id, "convert_traced and convert disagree".into(), repro.to_owned());
        return;
    }
    let total = trace.total_columns;
    // every generated note, in generation order, is exactly the output (before the two sorts)
    let mut gen_notes: Vec<(u64, u32, u64)> = Vec::new();
    let mut objs: Vec<String> = Vec::with_capacity(trace.objects.len());
    let mut expect: Vec<String> = Vec::with_capacity(trace.objects.len());
    let mut stair = STAIR;
    let mut exact = true;
    let cd = trace.conversion_difficulty.unwrap_or(0.0);
    for o in &trace.objects {
        match o {
            TraceObj::Circle { x, start_time, sample, convert_type, stair_before, stair_after, prev, notes, rng } => {
                exact &= x.fract() == 0.0 && x.abs() < 1e9;
                if *stair_before != stair {
                    run.fail("oracle:mania-stair-threading", "", id, format!("stair before = {stair_before}, expected {stair}"), repro.to_owned());
                }
                stair = *stair_after;
                objs.push(format!("c,{},{sample},{convert_type}", *x as i64));
                expect.push(format!("{}|{}|{stair}", pats_str(std::slice::from_ref(notes), TimeKind::Object(*start_time)), rng_str(*rng)));
                run.count(&format!("trace:hit:branch:{}", hit_branch(total, *convert_type, prev, cd)));
                let occ = prev.iter().collect::<BTreeSet<_>>().len();
                run.count(&format!("trace:prev-occupancy:keys={total}:{occ}"));
                // the two 7K+1 facts (`Free8`) the no-panic theorem assumes of every previous pattern
                if total == 8 && prev.len() == 1 && prev[0] == 0 {
                    run.fail("oracle:mania-8K-lone-special-column", "", id, format!("previous pattern is a lone note in column 0 (convert_type {convert_type})"), repro.to_owned());
                }
                if total == 8 && convert_type & MIRROR != 0 {
                    run.fail("oracle:mania-8K-mirror-flag", "", id, format!("convert_type {convert_type} has MIRROR in 7K+1"), repro.to_owned());
                }
                if total == 8 && (1..8).all(|c| prev.contains(&c)) {
                    run.fail("oracle:mania-8K-no-free-column", "", id, format!("previous pattern {prev:?} occupies all of columns 1-7"), repro.to_owned());
                }
                for n in notes {
                    gen_notes.push((n.start_time.to_bits(), n.x.to_bits(), n.duration.map_or(u64::MAX, f64::to_bits)));
                }
                column_oracle(run, id, total, std::slice::from_ref(notes), repro);
            }
            TraceObj::Slider { x, sample, convert_type, span_count, start_time, end_time, segment_duration, node_sounds, patterns, rng } => {
                exact &= x.fract() == 0.0 && x.abs() < 1e9;
                objs.push(format!(
                    "s,{},{sample},{convert_type},{span_count},{start_time},{end_time},{segment_duration},{}",
                    *x as i64,
                    list_str(node_sounds, ":")
                ));
                expect.push(format!("{}|{}|{stair}", pats_str(patterns, TimeKind::Path), rng_str(*rng)));
                run.count(&format!("trace:path:branch:{}", path_branch(total, *convert_type, *span_count, *segment_duration, *start_time, *end_time, cd)));
                run.count(&format!("trace:path:spans:{}", (*span_count).min(9)));
                for n in patterns.iter().flatten() {
                    gen_notes.push((n.start_time.to_bits(), n.x.to_bits(), n.duration.map_or(u64::MAX, f64::to_bits)));
                    if n.duration.is_some_and(|d| d < 0.0) {
                        run.fail("oracle:mania-generator-negative-duration", "", id, format!("{n:?}"), repro.to_owned());
                    }
                }
                column_oracle(run, id, total, patterns, repro);
            }
            TraceObj::Spinner { sample, convert_type, start_time, end_time, notes, rng } => {
                objs.push(format!("e,{sample},{},{}", u8::from(end_time - start_time >= 100.0), u8::from(end_time - start_time < 1000.0)));
                expect.push(format!("{}|{}|{stair}", pats_str(std::slice::from_ref(notes), TimeKind::Spinner(*start_time, *end_time)), rng_str(*rng)));
                run.count(&format!("trace:end:branch:{}", if *convert_type & FORCE_NOT_STACK != 0 { "force-not-stack" } else { "stacking-allowed(prev full)" }));
                for n in notes {
                    gen_notes.push((n.start_time.to_bits(), n.x.to_bits(), n.duration.map_or(u64::MAX, f64::to_bits)));
                }
                column_oracle(run, id, total, std::slice::from_ref(notes), repro);
            }
        }
    }
    let mut out_notes: Vec<(u64, u32, u64)> = out
        .hit_objects
        .iter()
        .map(|h| {
            let d = match h.kind {
                rosu_pp::model::hit_object::HitObjectKind::Hold(hold) => hold.duration.to_bits(),
                _ => u64::MAX,
            };
            (h.start_time.to_bits(), h.pos.x.to_bits(), d)
        })
        .collect();
    gen_notes.sort_unstable();
    out_notes.sort_unstable();
    if gen_notes != out_notes {
        run.fail("oracle:mania-trace-incomplete", "", id, format!("{} traced notes vs {} output objects", gen_notes.len(), out_notes.len()), repro.to_owned());
    }
    if trace.objects.len() != src.hit_objects.len() {
        run.fail("oracle:mania-trace-incomplete", "", id, format!("{} traced objects vs {} source objects", trace.objects.len(), src.hit_objects.len()), repro.to_owned());
    }
    run.count(&format!("trace:keys={total}"));
    run.count_n("trace:objects", trace.objects.len() as u64);
    if !exact {
        run.count("trace:skipped:non-integral-x");
        return;
    }
    if trace.objects.is_empty() {
        return;
    }
    run.repro.insert(id.to_owned(), repro.to_owned());
    run.line(id, format!("MPT {total} {} {} {}", trace.seed, cd.to_bits(), objs.join(";")), format!("ok {}", expect.join(";")));
}

/// Targeted search for a 7K+1 previous pattern that violates `Free8` (all of columns 1-7 occupied, or
/// a lone note in the special column): 8K conversions of maps built to fill columns — maximal
/// `conversion_difficulty` (HP 10, AR >= 7, many objects per second), clap + finish samples (special
/// column, two-note sliders), chords at equal times (previous-pattern carry-over), time gaps in every
/// class of `HitObjectPatternGenerator::new`, sliders with 2-5 spans and segment durations above 400 ms
/// (`generate_tiled_hold_notes`) and in the stair / multiple-notes ranges. Every conversion goes through
/// `trace_map` (MPT line + the `mania-8K-*` oracles + the occupancy histogram).
pub fn occupancy_search(run: &mut Run, tier: &str, seed: u64, only: Option<&str>) {
    use crate::common::{decode, LazerTag, ModsSpec};
    use crate::mapgen::{MapSpec, ObjKind, ObjSpec, TimingSpec};
    let n = if tier == "thorough" { 40_000 } else { 1_500 };
    let mods: GameMods = ModsSpec::Lazer(vec![LazerTag::Acronym("8K")]).build(3);
    for ci in 0..n {
        let id = format!("occ8-{ci}");
        if only.is_some_and(|o| o != id) {
            continue;
        }
        let mut rng = Rng::new(seed ^ hash64(&id));
        let mut spec = MapSpec { hp: 10.0, ar: *rng.pick(&[7.0, 9.0, 10.0]), od: *rng.pick(&[0.0, 5.0, 10.0]), cs: *rng.pick(&[2.0, 4.0, 7.0]), ..MapSpec::default() };
        spec.slider_multiplier = *rng.pick(&[0.4, 1.0, 1.4]);
        let beat = *rng.pick(&[300.0, 500.0, 1000.0]);
        spec.timing = vec![TimingSpec { time: 0.0, beat_len: beat, uninherited: true, kiai: rng.chance(1, 2) }];
        let n_obj = 20 + rng.below(50) as usize;
        let mut t = 1000.0;
        for _ in 0..n_obj {
            let gap = *rng.pick(&[0.0, 0.0, 30.0, 85.0, 100.0, 115.0, 130.0, 145.0, 200.0, 400.0]);
            t += gap;
            let x = if rng.chance(1, 2) { 256 } else { rng.range(0, 512) as i32 };
            let sound = *rng.pick(&[12u8, 12, 14, 4, 8, 0, 2]);
            let kind = match rng.below(10) {
                0..=5 => ObjKind::Circle,
                6..=8 => {
                    let slides = 1 + rng.below(5) as u32;
                    // velocity = 100 * sm / beat px per ms; segment duration = length / velocity
                    let seg = *rng.pick(&[60.0, 100.0, 140.0, 180.0, 300.0, 450.0, 700.0]);
                    let length = seg * 100.0 * spec.slider_multiplier / beat;
                    t += 0.0;
                    ObjKind::Slider { curve: 'L', points: vec![((x + 80).min(512), 192)], slides, length }
                }
                _ => ObjKind::Spinner { end: t + *rng.pick(&[50.0, 150.0, 1200.0]) },
            };
            spec.objects.push(ObjSpec { x, y: 192, time: t, sound, kind });
        }
        let text = spec.render();
        let Ok(src) = decode(&text) else { continue };
        let (s2, m2) = (src.clone(), mods.clone());
        let Ok(Ok(plain)) = guarded(move || s2.convert(rosu_pp::model::mode::GameMode::Mania, &m2)) else {
            run.fail("oracle:mania-convert", "", &id, "convert panicked or failed".into(), text.clone());
            continue;
        };
        run.count("occ8:conversions");
        trace_map(run, &id, &src, &mods, &plain, &text);
        run.eval(Some(&id));
    }
}
