//! Structured beatmap generation: a small spec that is rendered to `.osu` text and then decoded
//! by the real decoder, so generated cases exercise the parsing glue as well.

use crate::rng::Rng;

#[derive(Clone, Debug)]
pub enum ObjKind {
    Circle,
    Slider {
        curve: char,
        points: Vec<(i32, i32)>,
        slides: u32,
        length: f64,
    },
    Spinner {
        end: f64,
    },
    Hold {
        end: f64,
    },
}

#[derive(Clone, Debug)]
pub struct ObjSpec {
    pub x: i32,
    pub y: i32,
    pub time: f64,
    pub sound: u8,
    pub kind: ObjKind,
}

#[derive(Clone, Debug)]
pub struct TimingSpec {
    pub time: f64,
    /// positive: beat length of an uninherited point; negative: -100 / slider velocity
    pub beat_len: f64,
    pub uninherited: bool,
    pub kiai: bool,
}

#[derive(Clone, Debug)]
pub struct MapSpec {
    pub version: i32,
    pub mode: u8,
    pub ar: f32,
    pub cs: f32,
    pub hp: f32,
    pub od: f32,
    pub slider_multiplier: f64,
    pub slider_tick_rate: f64,
    pub stack_leniency: f32,
    pub timing: Vec<TimingSpec>,
    pub objects: Vec<ObjSpec>,
    pub breaks: Vec<(f64, f64)>,
}

impl Default for MapSpec {
    fn default() -> Self {
        MapSpec {
            version: 14,
            mode: 0,
            ar: 5.0,
            cs: 5.0,
            hp: 5.0,
            od: 5.0,
            slider_multiplier: 1.4,
            slider_tick_rate: 1.0,
            stack_leniency: 0.7,
            timing: vec![TimingSpec {
                time: 0.0,
                beat_len: 500.0,
                uninherited: true,
                kiai: false,
            }],
            objects: Vec::new(),
            breaks: Vec::new(),
        }
    }
}

fn fmt_f(v: f64) -> String {
    if v == v.trunc() && v.abs() < 1e15 {
        format!("{}", v as i64)
    } else {
        format!("{v}")
    }
}

impl ObjSpec {
    pub fn render(&self) -> String {
        match &self.kind {
            ObjKind::Circle => format!("{},{},{},1,{}", self.x, self.y, fmt_f(self.time), self.sound),
            ObjKind::Slider {
                curve,
                points,
                slides,
                length,
            } => {
                let pts: Vec<String> = points.iter().map(|(x, y)| format!("{x}:{y}")).collect();
                format!(
                    "{},{},{},2,{},{}|{},{},{}",
                    self.x,
                    self.y,
                    fmt_f(self.time),
                    self.sound,
                    curve,
                    pts.join("|"),
                    slides,
                    fmt_f(*length)
                )
            }
            ObjKind::Spinner { end } => format!(
                "{},{},{},12,{},{}",
                self.x,
                self.y,
                fmt_f(self.time),
                self.sound,
                fmt_f(*end)
            ),
            ObjKind::Hold { end } => format!(
                "{},{},{},128,{},{}:0:0:0:0:",
                self.x,
                self.y,
                fmt_f(self.time),
                self.sound,
                fmt_f(*end)
            ),
        }
    }

    pub fn kind_char(&self) -> char {
        match self.kind {
            ObjKind::Circle => 'c',
            ObjKind::Slider { .. } => 's',
            ObjKind::Spinner { .. } => 'p',
            ObjKind::Hold { .. } => 'h',
        }
    }
}

impl MapSpec {
    pub fn render(&self) -> String {
        let mut s = String::new();
        s.push_str(&format!("osu file format v{}\n\n[General]\n", self.version));
        s.push_str(&format!("Mode: {}\nStackLeniency: {}\n\n", self.mode, self.stack_leniency));
        s.push_str("[Difficulty]\n");
        s.push_str(&format!("HPDrainRate:{}\n", self.hp));
        s.push_str(&format!("CircleSize:{}\n", self.cs));
        s.push_str(&format!("OverallDifficulty:{}\n", self.od));
        s.push_str(&format!("ApproachRate:{}\n", self.ar));
        s.push_str(&format!("SliderMultiplier:{}\n", self.slider_multiplier));
        s.push_str(&format!("SliderTickRate:{}\n\n", self.slider_tick_rate));
        if !self.breaks.is_empty() {
            s.push_str("[Events]\n");
            for (a, b) in &self.breaks {
                s.push_str(&format!("2,{},{}\n", fmt_f(*a), fmt_f(*b)));
            }
            s.push('\n');
        }
        s.push_str("[TimingPoints]\n");
        for t in &self.timing {
            s.push_str(&format!(
                "{},{},4,2,0,100,{},{}\n",
                fmt_f(t.time),
                t.beat_len,
                u8::from(t.uninherited),
                u8::from(t.kiai)
            ));
        }
        s.push_str("\n[HitObjects]\n");
        for o in &self.objects {
            s.push_str(&o.render());
            s.push('\n');
        }
        s
    }

    pub fn kinds(&self) -> String {
        self.objects.iter().map(ObjSpec::kind_char).collect()
    }
}

/// Knobs for random map generation.
#[derive(Clone, Debug)]
pub struct GenCfg {
    pub mode: u8,
    pub min_objects: usize,
    pub max_objects: usize,
    /// weights circle / slider / spinner / hold
    pub weights: [u64; 4],
    pub max_slides: u32,
    pub dense: bool,
    pub allow_negative_start: bool,
    pub long_gaps: bool,
}

impl GenCfg {
    pub fn small(mode: u8) -> Self {
        GenCfg {
            mode,
            min_objects: 0,
            max_objects: 8,
            // "foreign" kinds are legal file content: a hold note (type 128) in an osu!/taiko/catch file, a slider or
            // spinner in a mania file (seed C14-osu-count-before-convert-hold-arm needed one)
            weights: if mode == 3 { [10, 1, 1, 8] } else { [10, 6, 4, 1] },
            max_slides: 3,
            dense: false,
            allow_negative_start: false,
            long_gaps: false,
        }
    }
}

pub fn random_slider(rng: &mut Rng, x: i32, y: i32, max_slides: u32) -> ObjKind {
    let curve = *rng.pick(&['L', 'B', 'P', 'C']);
    let n_points = match curve {
        'P' => 2,
        'L' => rng.range(1, 2) as usize,
        _ => rng.range(1, 4) as usize,
    };
    let mut points = Vec::new();
    let (mut cx, mut cy) = (x, y);
    for _ in 0..n_points {
        cx = (cx + rng.range(-120, 120) as i32).clamp(0, 512);
        cy = (cy + rng.range(-90, 90) as i32).clamp(0, 384);
        points.push((cx, cy));
    }
    let slides = rng.range(1, max_slides.max(1) as i64) as u32;
    let length = *rng.pick(&[10.0, 35.0, 70.0, 100.0, 140.0, 210.0, 280.0, 400.5]);
    ObjKind::Slider {
        curve,
        points,
        slides,
        length,
    }
}

pub fn random_map(rng: &mut Rng, cfg: &GenCfg) -> MapSpec {
    let mut m = MapSpec {
        mode: cfg.mode,
        ..Default::default()
    };
    m.version = *rng.pick(&[14, 14, 14, 128, 9, 7, 5, 3]);
    let grid = |rng: &mut Rng| (rng.range(0, 20) as f32) * 0.5;
    m.ar = grid(rng);
    m.cs = if cfg.mode == 3 { rng.range(1, 9) as f32 } else { grid(rng).min(9.0) };
    // mania key counts are `cs.round_ties_even()`: half-integer CircleSize values (2.5, 4.5, …) are where
    // `round` and `round_ties_even` part ways (seed C02-mania-oneshot-columns-round-vs-ties-even); every 5th
    // mania map gets one, and then notes off the canonical x grid so that an extra column is visible
    let mania_half_cs = cfg.mode == 3 && m.cs < 9.0 && rng.chance(1, 5);
    if mania_half_cs {
        m.cs += 0.5;
    }
    m.hp = grid(rng);
    m.od = grid(rng);
    m.slider_multiplier = *rng.pick(&[0.4, 1.0, 1.4, 1.8, 2.6, 3.6]);
    m.slider_tick_rate = *rng.pick(&[0.5, 1.0, 1.0, 2.0, 4.0]);
    m.stack_leniency = *rng.pick(&[0.0, 0.3, 0.7, 1.0]);
    let beat = *rng.pick(&[250.0, 300.0, 333.33, 400.0, 500.0, 600.0, 1000.0]);
    m.timing[0].beat_len = beat;
    if rng.chance(1, 3) {
        m.timing.push(TimingSpec {
            time: rng.range(500, 4000) as f64,
            beat_len: -(*rng.pick(&[50.0, 66.67, 100.0, 133.33, 200.0])),
            uninherited: false,
            kiai: rng.chance(1, 2),
        });
    }
    if rng.chance(1, 4) {
        m.timing.push(TimingSpec {
            time: rng.range(4000, 9000) as f64,
            beat_len: *rng.pick(&[200.0, 375.0, 500.0, 750.0]),
            uninherited: true,
            kiai: rng.chance(1, 3),
        });
    }
    let n = rng.range(cfg.min_objects as i64, cfg.max_objects as i64) as usize;
    let mut t: f64 = if cfg.allow_negative_start && rng.chance(1, 4) {
        -(rng.range(0, 3000) as f64)
    } else {
        rng.range(0, 1500) as f64
    };
    let total_w: u64 = cfg.weights.iter().sum();
    let columns = m.cs.max(1.0) as i32;
    for _ in 0..n {
        let mut x = rng.range(0, 512) as i32;
        let y = rng.range(0, 384) as i32;
        if cfg.mode == 3 {
            let col = rng.range(0, (columns - 1) as i64) as i32;
            if !(mania_half_cs && rng.chance(1, 2)) {
                x = (col * 512 + 256) / columns;
            }
        }
        let sound = *rng.pick(&[0u8, 0, 2, 4, 8, 10, 6]);
        let mut pick = rng.below(total_w);
        let mut k = 0;
        while pick >= cfg.weights[k] {
            pick -= cfg.weights[k];
            k += 1;
        }
        let kind = match k {
            0 => ObjKind::Circle,
            1 => random_slider(rng, x, y, cfg.max_slides),
            2 => ObjKind::Spinner {
                end: t + *rng.pick(&[1.0, 50.0, 100.0, 300.0, 800.0, 2000.0]),
            },
            _ => ObjKind::Hold {
                end: t + *rng.pick(&[50.0, 100.0, 200.0, 300.0, 500.0, 700.0, 1000.0, 137.0]),
            },
        };
        let dur = match &kind {
            ObjKind::Spinner { end } | ObjKind::Hold { end } => end - t,
            ObjKind::Slider { slides, length, .. } => {
                (*slides as f64) * length / (100.0 * m.slider_multiplier) * beat
            }
            ObjKind::Circle => 0.0,
        };
        m.objects.push(ObjSpec {
            x,
            y,
            time: t,
            sound,
            kind,
        });
        let gap = if cfg.dense {
            *rng.pick(&[0.0, 1.0, 20.0, 60.0, 125.0])
        } else if cfg.long_gaps && rng.chance(1, 5) {
            *rng.pick(&[5000.0, 20000.0, 60000.0])
        } else {
            *rng.pick(&[0.0, 75.0, 125.0, 250.0, 333.0, 500.0, 1000.0, 1800.0])
        };
        // mania allows overlapping notes in different columns; other modes mostly advance
        if cfg.mode == 3 || rng.chance(1, 6) {
            t += gap;
        } else {
            t += dur.max(0.0).min(20000.0).floor() + gap;
        }
    }
    m
}

/// A byte-level variant of a rendered `.osu` text: CRLF line ends, a UTF-8 BOM, junk / malformed lines
/// sprinkled into `[HitObjects]`, two object lines swapped (the decoder sorts), a hold-note line
/// (foreign kind: a spinner for osu! / catch), rarely UTF-16LE.
pub fn file_variant(rng: &mut Rng, text: &str) -> Vec<u8> {
    let mut head: Vec<String> = Vec::new();
    let mut objs: Vec<String> = Vec::new();
    let mut in_objs = false;
    for l in text.lines() {
        if in_objs {
            if !l.trim().is_empty() {
                objs.push(l.to_owned());
            }
        } else {
            head.push(l.to_owned());
            if l.trim() == "[HitObjects]" {
                in_objs = true;
            }
        }
    }
    if rng.chance(1, 5) && objs.len() > 2 {
        let i = rng.below(objs.len() as u64) as usize;
        let j = rng.below(objs.len() as u64) as usize;
        objs.swap(i, j);
    }
    if rng.chance(1, 6) && in_objs {
        let t = rng.range(0, 6000);
        let k = rng.below(objs.len() as u64 + 1) as usize;
        objs.insert(k, format!("{},{},{t},128,0,{}:0:0:0:0:", rng.range(0, 512), rng.range(0, 384), t + *rng.pick(&[0, 120, 900])));
    }
    if rng.chance(1, 3) && in_objs {
        for _ in 0..rng.range(1, 3) {
            let k = rng.below(objs.len() as u64 + 1) as usize;
            objs.insert(k, (*rng.pick(&["", "// comment", "garbage", "1,2", "256,192,abc,1,0", "256,192,1e400,1,0", "256,192,100,64,0", "99999999,192,100,1,0", "256,192,500,2,0,B|1:2,x,100"])).to_owned());
        }
    }
    let eol = if rng.chance(1, 4) { "\r\n" } else { "\n" };
    let mut s = String::new();
    if rng.chance(1, 12) {
        s.push('\u{feff}');
    }
    for l in head.iter().chain(objs.iter()) {
        s.push_str(l);
        s.push_str(eol);
    }
    if rng.chance(1, 30) {
        let mut bytes = vec![0xFF, 0xFE];
        for u in s.encode_utf16() {
            bytes.extend_from_slice(&u.to_le_bytes());
        }
        return bytes;
    }
    s.into_bytes()
}
