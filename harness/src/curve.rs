//! Slider path mathematics (CURVE / CURVES lines): rosu-map's `Curve::new` / `BorrowedCurve::new`
//! (`calculate_path` for every path type, `calculate_length`, `position_at`) run on raw control
//! points and compared bit for bit with `Model/Curve.lean` replayed with IEEE `Float32` / `Float`.
//!
//! Request: `CURVE <mode> <x:y:type;…> <expected_dist bits | -> <stale path | -> <progress bits,…>`
//! Response: `<vertices>|<cumulative lengths>|<dist()>|<position_at(p);…>` (f32 / f64 bit patterns,
//! NaN as `nan`, lists as count#checksum#items).
//! `CURVES <mode> <slider>/<slider>/… <progress>`: the same for a sequence of sliders on ONE
//! `CurveBuffers` through `BorrowedCurve::new` — what rosu-pp's converters do.

use rosu_map::{
    section::{
        general::GameMode as MapMode,
        hit_objects::{BorrowedCurve, Curve, CurveBuffers, PathControlPoint, PathType, SplineType},
    },
    util::Pos,
};
use rosu_pp::model::hit_object::HitObjectKind;

use crate::{
    common::{decode, guarded, random_settings, resource_maps, show_long, truncate_objects, Run},
    rng::Rng,
};

pub fn show_s(x: f32) -> String {
    if x.is_nan() {
        "nan".to_owned()
    } else {
        x.to_bits().to_string()
    }
}

pub fn show_d(x: f64) -> String {
    if x.is_nan() {
        "nan".to_owned()
    } else {
        x.to_bits().to_string()
    }
}

fn show_pos(p: Pos) -> String {
    format!("{}:{}", show_s(p.x), show_s(p.y))
}

fn map_mode(m: u8) -> MapMode {
    match m {
        0 => MapMode::Osu,
        1 => MapMode::Taiko,
        2 => MapMode::Catch,
        _ => MapMode::Mania,
    }
}

#[derive(Clone, Debug)]
pub struct Case {
    pub mode: u8,
    /// x, y, type letter (`n` = none)
    pub cps: Vec<(f32, f32, char)>,
    pub expected: Option<f64>,
}

fn type_of(c: char) -> Option<PathType> {
    match c {
        'C' => Some(PathType::CATMULL),
        'B' => Some(PathType::BEZIER),
        'L' => Some(PathType::LINEAR),
        'P' => Some(PathType::PERFECT_CURVE),
        _ => None,
    }
}

fn letter_of(t: Option<PathType>) -> char {
    match t.map(|t| t.kind) {
        None => 'n',
        Some(SplineType::Catmull) => 'C',
        Some(SplineType::BSpline) => 'B',
        Some(SplineType::Linear) => 'L',
        Some(SplineType::PerfectCurve) => 'P',
    }
}

impl Case {
    fn points(&self) -> Vec<PathControlPoint> {
        self.cps.iter().map(|&(x, y, t)| PathControlPoint { pos: Pos::new(x, y), path_type: type_of(t) }).collect()
    }

    fn cps_field(&self) -> String {
        if self.cps.is_empty() {
            "-".to_owned()
        } else {
            self.cps.iter().map(|&(x, y, t)| format!("{}:{}:{}", x.to_bits(), y.to_bits(), t)).collect::<Vec<_>>().join(";")
        }
    }

    fn expected_field(&self) -> String {
        self.expected.map_or("-".to_owned(), |e| e.to_bits().to_string())
    }
}

/// The progress values every line asks `position_at` for.
pub fn progress_values() -> Vec<f64> {
    vec![0.0, 1e-9, 0.25, 1.0 / 3.0, 0.5, 0.75, 0.999_999, 1.0, -0.5, 1.5, f64::NAN]
}

fn progress_field() -> String {
    progress_values().iter().map(|p| p.to_bits().to_string()).collect::<Vec<_>>().join(",")
}

fn render(path: &[Pos], lengths: &[f64], dist: f64, positions: &[Pos]) -> String {
    let v: Vec<String> = path.iter().map(|&p| show_pos(p)).collect();
    let l: Vec<String> = lengths.iter().map(|&d| show_d(d)).collect();
    let p: Vec<String> = positions.iter().map(|&p| show_pos(p)).collect();
    format!("{}|{}|{}|{}", show_long(&v), show_long(&l), show_d(dist), p.join(";"))
}

/// Runs `f` on its own thread; `None` after `secs` seconds without a result (a hang of the real
/// code: the thread keeps spinning until the process exits, so the caller stops sending cases).
fn with_timeout<T: Send + 'static>(secs: u64, f: impl FnOnce() -> T + Send + 'static) -> Option<Result<T, String>> {
    let (tx, rx) = std::sync::mpsc::channel();
    std::thread::spawn(move || {
        let _ = tx.send(guarded(f));
    });
    rx.recv_timeout(std::time::Duration::from_secs(secs)).ok()
}

struct Obs {
    path: Vec<Pos>,
    lengths: Vec<f64>,
    dist: f64,
    positions: Vec<Pos>,
}

fn observe_owned(c: &Case) -> Obs {
    let pts = c.points();
    let curve = Curve::new(map_mode(c.mode), &pts, c.expected, &mut CurveBuffers::default());
    Obs {
        path: curve.path().to_vec(),
        lengths: curve.lengths().to_vec(),
        dist: curve.dist(),
        positions: progress_values().iter().map(|&p| curve.position_at(p)).collect(),
    }
}

fn bucket(n: usize) -> &'static str {
    match n {
        0 => "0",
        1 => "1",
        2..=3 => "2-3",
        4..=20 => "4-20",
        21..=200 => "21-200",
        201..=2000 => "201-2000",
        _ => "2000+",
    }
}

/// Direct oracles on the implementation (the statements of Props/C09g.lean read on f32/f64 with a
/// tolerance), for inputs with finite coordinates within the decoder's limit and a finite expected
/// distance `>= 0`.
fn oracles(run: &mut Run, id: &str, c: &Case, o: &Obs, req: &str) {
    let bounded = c.cps.iter().all(|&(x, y, _)| x.is_finite() && y.is_finite() && x.abs() <= 131_072.0 && y.abs() <= 131_072.0)
        && c.expected.is_none_or(|e| e.is_finite() && e >= 0.0 && e <= 1e7);
    if !bounded {
        run.count("curve:oracle:skipped-unbounded-input");
        return;
    }
    // OBSERVATION (rosu-map, osu! mode only, not a property of rosu-pp's outputs): `calculate_length`
    // seeds the running length with `optimized_len` (what the osu!-only catmull pass removed, anywhere
    // in the path) but `lengths[0] = 0`, so `lengths[1] = optimized_len + |p1 - p0|`. When the first two
    // vertices coincide (e.g. a legacy catmull segment `[A, A, B]` that returns to its start within
    // 6 px) and the expected distance is `<= optimized_len`, the path is cut to `[A, A]` and the zero
    // vector `A - A` is normalised: the second vertex is NaN (`0 * inf`). Counted, not failed, when
    // exactly this shape is seen (osu!, a catmull segment, result `[A, NaN]`, lengths `[0, expected]`).
    let nan_shape = c.mode == 0
        && c.cps.len() >= 3
        && c.cps.iter().any(|p| p.2 == 'C')
        && o.path.len() == 2
        && o.path[1].x.is_nan()
        && o.path[1].y.is_nan()
        && !o.path[0].x.is_nan()
        && o.lengths.len() == 2;
    if nan_shape {
        run.count("curve:observed:nan-vertex(catmull-osu-returns-to-start,expected<=optimized_len)");
        return;
    }
    // OBSERVATION (rosu-map): `circular_arc_properties` tests the determinant with one f32 formula
    // (`> f32::EPSILON`) and divides by `d`, the same quantity computed by another; with sub-pixel or
    // very large coordinates `d` can cancel to 0 (centre = inf / NaN) although the test passed. Cannot
    // happen for integer coordinates within +-2048 (every product and sum of `d` is exact there), which
    // is where a non-finite vertex is reported as a failure.
    let nonfinite = o.path.iter().any(|p| !p.x.is_finite() || !p.y.is_finite()) || o.lengths.iter().any(|l| !l.is_finite());
    let small_integers = c.cps.iter().all(|&(x, y, _)| x.fract() == 0.0 && y.fract() == 0.0 && x.abs() <= 2048.0 && y.abs() <= 2048.0);
    if nonfinite && !small_integers {
        run.count("curve:observed:nonfinite-vertex-or-length(non-integer or large coordinates)");
        return;
    }
    // cumulative lengths: start at 0, non-decreasing, non-negative; dist = last. Tolerance: in osu!
    // mode `optimized_len` (a difference of two f32-rounded polyline lengths) can come out a few
    // ulps negative, which shows as `lengths[1] < 0` by ~1e-6.
    let scale = o.lengths.iter().fold(1.0f64, |m, &l| m.max(l.abs()));
    let mono = o.lengths.windows(2).all(|w| w[0] <= w[1] + 1e-5 * scale);
    if o.lengths.windows(2).any(|w| w[0] > w[1]) {
        run.count("curve:observed:lengths-dip-by-rounding");
    }
    if !mono || o.lengths.first().is_some_and(|&l| l != 0.0) {
        run.fail("oracle:curve-lengths-not-monotone", "", id, format!("lengths {:?}", &o.lengths[..o.lengths.len().min(8)]), req.to_owned());
    }
    if !(o.dist >= -1e-5 * scale && o.dist.is_finite()) {
        run.fail("oracle:curve-dist-not-finite-nonneg", "", id, format!("dist {}", o.dist), req.to_owned());
    }
    if let Some(e) = c.expected {
        // the law of calculate_length: the last cumulative length is the expected distance unless
        // the path has a single vertex / the osu!-stable "last two points equal" exception applies
        let n = o.path.len();
        let last_two_equal = n >= 2 && o.path[n - 1] == o.path[n - 2];
        if n >= 2 && !last_two_equal && e > 0.0 && (o.dist - e).abs() > 1e-9 * e.max(1.0) && o.lengths.len() == n {
            run.fail("oracle:curve-dist-not-expected", "", id, format!("dist {} expected {}", o.dist, e), req.to_owned());
        }
    }
    // position_at(p) lies in the bounding box of the vertices (convex combination of two of them)
    if !o.path.is_empty() && o.path.iter().all(|p| p.x.is_finite() && p.y.is_finite()) {
        let (mut x0, mut x1, mut y0, mut y1) = (f32::INFINITY, f32::NEG_INFINITY, f32::INFINITY, f32::NEG_INFINITY);
        for p in &o.path {
            x0 = x0.min(p.x);
            x1 = x1.max(p.x);
            y0 = y0.min(p.y);
            y1 = y1.max(p.y);
        }
        let tol = 1e-3 * (1.0 + x0.abs().max(x1.abs()).max(y0.abs()).max(y1.abs()));
        for (q, pr) in o.positions.iter().zip(progress_values()) {
            if pr.is_nan() {
                continue;
            }
            if !(q.x >= x0 - tol && q.x <= x1 + tol && q.y >= y0 - tol && q.y <= y1 + tol) {
                run.fail(
                    "oracle:curve-position-outside-bbox",
                    "",
                    id,
                    format!("position_at({pr}) = ({}, {}) outside [{x0},{x1}]x[{y0},{y1}]", q.x, q.y),
                    req.to_owned(),
                );
                break;
            }
        }
    } else if !o.path.is_empty() {
        run.fail("oracle:curve-vertex-not-finite", "", id, "a path vertex is NaN / infinite for bounded finite input".into(), req.to_owned());
    }
}

/// One CURVE line. Returns false when the real code did not come back (hang).
fn curve_line(run: &mut Run, id: &str, c: &Case, family: &str) -> bool {
    let req = format!("CURVE {} {} {} - {}", c.mode, c.cps_field(), c.expected_field(), progress_field());
    let cc = c.clone();
    let obs = match with_timeout(20, move || observe_owned(&cc)) {
        None => {
            run.fail("oracle:curve-hang", "", id, "Curve::new did not return within 20 s".into(), req.clone());
            run.line(id, req, "HANG".into());
            return false;
        }
        Some(Err(p)) => {
            run.count("curve:panic");
            run.fail("oracle:curve-panic", "", id, p, req.clone());
            "PANIC".to_owned()
        }
        Some(Ok(o)) => {
            run.count(&format!("curve:vertices:{}", bucket(o.path.len())));
            if family == "arc-cap" {
                run.count(&format!("curve:arc-cap:vertices:{}", match o.path.len() { 0..=997 => "<998", 998 => "998", 999 => "999(=cap-1)", _ => "bezier-fallback(sub_points >= 1000)" }));
            }
            run.count(&format!("curve:family:{family}"));
            let kinds: String = {
                let mut k: Vec<char> = c.cps.iter().map(|p| p.2).filter(|&t| t != 'n').collect();
                k.sort_unstable();
                k.dedup();
                k.into_iter().collect()
            };
            run.count(&format!("curve:types:{}", if kinds.is_empty() { "none".to_owned() } else { kinds }));
            run.count(&format!("curve:cps:{}", bucket(c.cps.len())));
            run.count(match c.expected {
                None => "curve:expected:none",
                Some(e) if e.is_nan() => "curve:expected:nan",
                Some(e) if e <= 0.0 => "curve:expected:nonpositive",
                Some(e) if o.lengths.len() > o.path.len() => {
                    let _ = e;
                    "curve:expected:last-two-equal-exception"
                }
                Some(e) if (o.dist - e).abs() < 1e-9 => "curve:expected:reached",
                Some(_) => "curve:expected:other",
            });
            if o.path.iter().any(|p| p.x.is_nan() || p.y.is_nan()) {
                run.count("curve:nan-vertex");
            }
            oracles(run, id, c, &o, &req);
            run.eval((o.path.len() > 2).then_some(req.as_str()));
            render(&o.path, &o.lengths, o.dist, &o.positions)
        }
    };
    run.repro.insert(id.to_owned(), req.clone());
    run.sample(format!("{req} => {}", &obs[..obs.len().min(160)]));
    run.line(id, req, obs);
    true
}

/// One CURVES line: the sliders on one `CurveBuffers` through `BorrowedCurve::new`; also checks that
/// every non-empty slider gives the same curve as `Curve::new` on fresh buffers (buffer reuse is
/// unobservable).
fn curves_line(run: &mut Run, id: &str, mode: u8, cases: &[Case]) -> bool {
    let sliders: Vec<String> = cases.iter().map(|c| format!("{}@{}", c.cps_field(), c.expected_field())).collect();
    let req = format!("CURVES {} {} {}", mode, sliders.join("/"), progress_field());
    let cs = cases.to_vec();
    let r = with_timeout(30, move || {
        let mut bufs = CurveBuffers::default();
        let mut out = Vec::new();
        let mut reuse_differs = None;
        for (k, c) in cs.iter().enumerate() {
            let pts = c.points();
            let b = BorrowedCurve::new(map_mode(mode), &pts, c.expected, &mut bufs);
            let positions: Vec<Pos> = progress_values().iter().map(|&p| b.position_at(p)).collect();
            let s = render(b.path(), b.lengths(), b.dist(), &positions);
            if !pts.is_empty() {
                let fresh = observe_owned(&Case { mode, ..c.clone() });
                if render(&fresh.path, &fresh.lengths, fresh.dist, &fresh.positions) != s && reuse_differs.is_none() {
                    reuse_differs = Some(k);
                }
            }
            out.push(s);
        }
        (out.join("/"), reuse_differs)
    });
    let obs = match r {
        None => {
            run.fail("oracle:curve-hang", "", id, "BorrowedCurve::new did not return within 30 s".into(), req.clone());
            run.line(id, req, "HANG".into());
            return false;
        }
        Some(Err(p)) => {
            run.fail("oracle:curve-panic", "", id, p, req.clone());
            "PANIC".to_owned()
        }
        Some(Ok((s, differs))) => {
            if let Some(k) = differs {
                run.fail("oracle:curve-buffer-reuse-observable", "", id, format!("slider {k} differs from Curve::new on fresh buffers"), req.clone());
            }
            run.count("curve:sequences");
            run.count_n("curve:sequence-sliders", cases.len() as u64);
            if cases.iter().any(|c| c.cps.is_empty()) {
                run.count("curve:sequence-with-empty-control-points(stale path)");
            }
            run.eval(Some(req.as_str()));
            s
        }
    };
    run.repro.insert(id.to_owned(), req.clone());
    run.line(id, req, obs);
    true
}

// ---------------------------------------------------------------------------------------------
// generators

fn coord(rng: &mut Rng, scale: u8) -> f32 {
    match scale {
        // playfield integers (what the decoder yields: `i32 as f32` offsets)
        0 => rng.range(-64, 576) as f32,
        // sub-pixel
        1 => (rng.unit() * 512.0) as f32,
        // tiny neighbourhood
        2 => 256.0 + (rng.unit() as f32 - 0.5) * 0.01,
        // the decoder's coordinate limit
        3 => *rng.pick(&[-131_072.0f32, 131_072.0, 131_071.0, -131_071.5, 65_536.0, 0.0, 1.0]),
        // large but inside
        _ => ((rng.unit() - 0.5) * 262_144.0) as f32,
    }
}

fn random_points(rng: &mut Rng, n: usize, scale: u8) -> Vec<(f32, f32)> {
    let mut v: Vec<(f32, f32)> = Vec::new();
    for _ in 0..n {
        let p = if !v.is_empty() && rng.chance(1, 8) {
            // repeated point
            *rng.pick(&v)
        } else if scale == 0 && !v.is_empty() && rng.chance(1, 2) {
            // editor-like: a step from the previous point
            let (px, py) = v[v.len() - 1];
            (px + rng.range(-120, 120) as f32, py + rng.range(-90, 90) as f32)
        } else {
            (coord(rng, scale), coord(rng, scale))
        };
        v.push(p);
    }
    v
}

fn polyline_len(p: &[(f32, f32)]) -> f64 {
    p.windows(2).map(|w| f64::from(w[1].0 - w[0].0).hypot(f64::from(w[1].1 - w[0].1))).sum()
}

fn expected_for(rng: &mut Rng, pts: &[(f32, f32)]) -> Option<f64> {
    let l = polyline_len(pts);
    match rng.below(12) {
        0 => None,
        1 => Some(0.0),
        2 => Some(l * 0.5),
        3 => Some(l * 0.9),
        4 => Some(l),
        5 => Some(l * 1.1 + 1.0),
        6 => Some(l * 10.0 + 100.0),
        7 => Some(rng.unit() * 600.0),
        8 => Some(1e-3),
        9 => Some((l * rng.unit()).floor()),
        10 => Some(*rng.pick(&[1.0, 35.0, 70.0, 140.0, 280.5, 20_000.0])),
        _ => Some(l * (0.2 + 1.6 * rng.unit())),
    }
}

fn typed(rng: &mut Rng, pts: &[(f32, f32)], first: char, multi: bool) -> Vec<(f32, f32, char)> {
    pts.iter()
        .enumerate()
        .map(|(i, &(x, y))| {
            let t = if i == 0 {
                first
            } else if multi && rng.chance(1, 4) {
                *rng.pick(&['C', 'B', 'L', 'P'])
            } else {
                'n'
            };
            (x, y, t)
        })
        .collect()
}

fn hand_made() -> Vec<(String, Case)> {
    let mut v: Vec<(String, Case)> = Vec::new();
    let mut add = |name: &str, mode: u8, cps: Vec<(f32, f32, char)>, expected: Option<f64>| {
        v.push((name.to_owned(), Case { mode, cps, expected }));
    };
    for mode in [0u8, 2] {
        add("empty", mode, vec![], None);
        add("empty-exp", mode, vec![], Some(100.0));
        for t in ['n', 'L', 'B', 'P', 'C'] {
            add(&format!("single-{t}"), mode, vec![(10.0, 20.0, t)], Some(50.0));
            add(&format!("single-{t}-noexp"), mode, vec![(10.0, 20.0, t)], None);
            add(&format!("all-equal-{t}"), mode, vec![(5.0, 5.0, t), (5.0, 5.0, 'n'), (5.0, 5.0, 'n')], Some(10.0));
            add(&format!("all-equal-{t}-neg"), mode, vec![(5.0, 5.0, t), (5.0, 5.0, 'n')], Some(-10.0));
            add(&format!("two-{t}"), mode, vec![(0.0, 0.0, t), (100.0, 0.0, 'n')], Some(150.0));
            add(&format!("two-{t}-short"), mode, vec![(0.0, 0.0, t), (100.0, 0.0, 'n')], Some(40.0));
            add(&format!("two-{t}-zero"), mode, vec![(0.0, 0.0, t), (100.0, 0.0, 'n')], Some(0.0));
            add(&format!("two-{t}-neg"), mode, vec![(0.0, 0.0, t), (100.0, 0.0, 'n')], Some(-5.0));
            add(&format!("last-two-equal-{t}"), mode, vec![(0.0, 0.0, t), (100.0, 0.0, 'n'), (100.0, 0.0, 'n')], Some(150.0));
            add(&format!("last-two-equal-{t}-short"), mode, vec![(0.0, 0.0, t), (100.0, 0.0, 'n'), (100.0, 0.0, 'n')], Some(50.0));
            add(&format!("first-two-equal-{t}"), mode, vec![(0.0, 0.0, t), (0.0, 0.0, 'n'), (50.0, 0.0, 'n')], Some(0.5));
            add(&format!("first-two-equal-{t}-7"), mode, vec![(0.0, 0.0, t), (0.0, 0.0, 'n'), (50.0, 0.0, 'n')], Some(7.0));
            add(&format!("extreme-{t}"), mode, vec![(-131_072.0, -131_072.0, t), (131_072.0, 131_072.0, 'n'), (131_072.0, -131_072.0, 'n')], Some(1000.0));
            add(&format!("extreme-{t}-long"), mode, vec![(-131_072.0, -131_072.0, t), (131_072.0, 131_072.0, 'n'), (131_072.0, -131_072.0, 'n')], Some(1e6));
        }
        // perfect circles: colinear, nearly colinear, tiny / huge radius, the 1000-point cap
        add("P-colinear", mode, vec![(0.0, 0.0, 'P'), (50.0, 50.0, 'n'), (100.0, 100.0, 'n')], Some(200.0));
        add("P-almost-colinear", mode, vec![(0.0, 0.0, 'P'), (50.0, 50.000_004, 'n'), (100.0, 100.0, 'n')], Some(200.0));
        add("P-nearly-colinear-huge-radius", mode, vec![(0.0, 0.0, 'P'), (256.0, 0.001, 'n'), (512.0, 0.0, 'n')], Some(512.0));
        add("P-huge-radius-2", mode, vec![(0.0, 0.0, 'P'), (256.0, 0.01, 'n'), (512.0, 0.0, 'n')], Some(600.0));
        add("P-tiny-radius", mode, vec![(0.0, 0.0, 'P'), (0.02, 0.02, 'n'), (0.04, 0.0, 'n')], Some(1.0));
        add("P-tiny-radius-2", mode, vec![(100.0, 100.0, 'P'), (100.03, 100.03, 'n'), (100.06, 100.0, 'n')], Some(1.0));
        add("P-semicircle", mode, vec![(0.0, 0.0, 'P'), (100.0, 100.0, 'n'), (200.0, 0.0, 'n')], Some(314.0));
        add("P-almost-full", mode, vec![(0.0, 0.0, 'P'), (100.0, 200.0, 'n'), (1.0, 0.5, 'n')], Some(700.0));
        add("P-clockwise", mode, vec![(0.0, 0.0, 'P'), (100.0, -100.0, 'n'), (200.0, 0.0, 'n')], Some(314.0));
        add("P-cap-1000", mode, vec![(-131_072.0, 0.0, 'P'), (0.0, 131_072.0, 'n'), (131_072.0, 0.0, 'n')], Some(400_000.0));
        add("P-cap-near", mode, vec![(-40_000.0, 0.0, 'P'), (0.0, 40_000.0, 'n'), (40_000.0, 0.0, 'n')], Some(100_000.0));
        add("P-two-points", mode, vec![(0.0, 0.0, 'P'), (100.0, 50.0, 'n')], Some(100.0));
        add("P-four-points", mode, vec![(0.0, 0.0, 'P'), (100.0, 50.0, 'n'), (200.0, 0.0, 'n'), (300.0, 80.0, 'n')], Some(400.0));
        add("P-a-equals-c", mode, vec![(0.0, 0.0, 'P'), (100.0, 50.0, 'n'), (0.0, 0.0, 'n')], Some(100.0));
        // the known finding `curve-nan-vertex`: inner perfect-curve segment with determinant 1 whose `d`
        // cancels to 0 in f32 (Props/C05f.curve_nan_vertex_witness)
        add("P-inner-det1-d-cancels", mode, vec![(0.0, 0.0, 'L'), (10.0, 0.0, 'n'), (3244.0, -2736.0, 'P'), (3225.0, 104.0, 'n'), (3208.0, 2645.0, 'n')], Some(300.0));
        // multi-segment
        add(
            "multi-LBPC",
            mode,
            vec![(0.0, 0.0, 'L'), (50.0, 0.0, 'B'), (80.0, 60.0, 'n'), (120.0, 0.0, 'P'), (160.0, 40.0, 'n'), (200.0, 0.0, 'C'), (240.0, 30.0, 'n'), (280.0, 0.0, 'n')],
            Some(500.0),
        );
        add("typed-last", mode, vec![(0.0, 0.0, 'B'), (50.0, 50.0, 'n'), (100.0, 0.0, 'L')], Some(200.0));
        add("typed-every", mode, vec![(0.0, 0.0, 'B'), (50.0, 50.0, 'B'), (100.0, 0.0, 'B'), (150.0, 50.0, 'B')], Some(300.0));
        // legacy catmull loops that come back to the start within 6 px (osu!: optimized_len > 0)
        add("C-return-loop", mode, vec![(100.0, 100.0, 'C'), (100.0, 100.0, 'n'), (150.0, 100.0, 'n')], Some(0.5));
        add("C-return-loop-long", mode, vec![(100.0, 100.0, 'C'), (100.0, 100.0, 'n'), (150.0, 100.0, 'n')], Some(80.0));
        add("C-12", mode, (0..12).map(|i| (i as f32 * 30.0, if i % 2 == 0 { 0.0 } else { 40.0 }, if i == 0 { 'C' } else { 'n' })).collect(), Some(500.0));
        add("B-12", mode, (0..12).map(|i| (i as f32 * 30.0, if i % 2 == 0 { 0.0 } else { 40.0 }, if i == 0 { 'B' } else { 'n' })).collect(), Some(500.0));
        add("B-zigzag-extreme", mode, (0..8).map(|i| (if i % 2 == 0 { -131_072.0 } else { 131_072.0 }, i as f32 * 1000.0, if i == 0 { 'B' } else { 'n' })).collect(), Some(1e6));
    }
    // non-finite expected distances (the public constructor accepts them)
    for (k, e) in [f64::NAN, f64::INFINITY, f64::NEG_INFINITY, f64::MAX, f64::MIN_POSITIVE, -0.0].into_iter().enumerate() {
        add(&format!("special-expected-{k}"), 0, vec![(0.0, 0.0, 'B'), (50.0, 50.0, 'n'), (100.0, 0.0, 'n')], Some(e));
    }
    v
}

fn random_case(rng: &mut Rng) -> (Case, &'static str) {
    let mode = *rng.pick(&[0u8, 0, 0, 1, 2, 2, 3]);
    let first = *rng.pick(&['L', 'B', 'P', 'C', 'n']);
    let scale = *rng.pick(&[0u8, 0, 0, 0, 1, 1, 2, 3, 4]);
    let n = match rng.below(10) {
        0 => 1,
        1 => 2,
        2..=4 => 3,
        5..=7 => rng.range(4, 6) as usize,
        8 => rng.range(7, 12) as usize,
        _ => rng.range(13, 40) as usize,
    };
    let pts = random_points(rng, n, scale);
    let multi = rng.chance(1, 5);
    let expected = expected_for(rng, &pts);
    let fam = match scale {
        0 => "random-playfield",
        1 => "random-subpixel",
        2 => "random-tiny",
        3 => "random-decoder-limit",
        _ => "random-large",
    };
    (Case { mode, cps: typed(rng, &pts, first, multi), expected }, fam)
}

/// Three points on / near a circle: the arc branch with controlled radius and angle.
fn arc_case(rng: &mut Rng) -> Case {
    let r = *rng.pick(&[0.04f64, 0.3, 2.0, 15.0, 80.0, 300.0, 2000.0, 30_000.0]) * (0.5 + rng.unit());
    let (cx, cy) = (rng.unit() * 512.0, rng.unit() * 384.0);
    let t0 = rng.unit() * std::f64::consts::TAU;
    let span = *rng.pick(&[0.01f64, 0.3, 1.5, 3.1, 3.2, 5.0, 6.2]) * if rng.chance(1, 2) { 1.0 } else { -1.0 };
    let at = |t: f64| ((cx + r * t.cos()) as f32, (cy + r * t.sin()) as f32);
    let (a, b, c) = (at(t0), at(t0 + span * (0.2 + 0.6 * rng.unit())), at(t0 + span));
    let pts = [a, b, c];
    let expected = match rng.below(4) {
        0 => None,
        1 => Some(r * span.abs()),
        2 => Some(r * span.abs() * 0.6),
        _ => Some(r * span.abs() * 1.3 + 5.0),
    };
    Case { mode: *rng.pick(&[0u8, 2]), cps: vec![(pts[0].0, pts[0].1, 'P'), (pts[1].0, pts[1].1, 'n'), (pts[2].0, pts[2].1, 'n')], expected }
}

/// Arcs whose point count lands on / next to the 1000-point cap (`sub_points >= 1000` falls back to
/// bezier): radius 60 000 - 100 000, angle chosen so that `theta_range / (2 acos(1 - 0.1 / r))` is
/// 1000 +- 0.3 %.
fn arc_cap_case(rng: &mut Rng) -> Case {
    let r = 60_000.0 + rng.unit() * 40_000.0;
    let step = 2.0 * f64::from((1.0f32 - 0.1f32 / r as f32).acos());
    let span = (1000.0 * step * (1.0 + (rng.unit() - 0.5) * 0.006)).min(6.2) * if rng.chance(1, 2) { 1.0 } else { -1.0 };
    let t0 = rng.unit() * std::f64::consts::TAU;
    let at = |t: f64| ((r * t.cos()) as f32, (r * t.sin()) as f32);
    let (a, b, c) = (at(t0), at(t0 + span * 0.5), at(t0 + span));
    Case { mode: *rng.pick(&[0u8, 2]), cps: vec![(a.0, a.1, 'P'), (b.0, b.1, 'n'), (c.0, c.1, 'n')], expected: Some(r * span.abs()) }
}

fn slider_text(rng: &mut Rng) -> String {
    let (x, y) = (rng.range(0, 512), rng.range(0, 384));
    let letter = *rng.pick(&["L", "B", "P", "C", "B", "P"]);
    let n = match letter {
        "P" => *rng.pick(&[2usize, 2, 2, 1, 3]),
        "L" => rng.range(1, 3) as usize,
        _ => rng.range(1, 9) as usize,
    };
    let mut s = letter.to_owned();
    let (mut cx, mut cy) = (x, y);
    let mut len = 0.0f64;
    for i in 0..n {
        if i > 0 && rng.chance(1, 6) {
            // repeated point = segment separator (red anchor)
            s.push_str(&format!("|{cx}:{cy}"));
            continue;
        }
        if i > 0 && rng.chance(1, 12) {
            s.push_str(&format!("|{}", rng.pick(&["L", "B", "P", "C"])));
        }
        let (nx, ny) = (cx + rng.range(-150, 150), cy + rng.range(-110, 110));
        len += (((nx - cx) * (nx - cx) + (ny - cy) * (ny - cy)) as f64).sqrt();
        cx = nx;
        cy = ny;
        s.push_str(&format!("|{cx}:{cy}"));
    }
    let length = match rng.below(6) {
        0 => len,
        1 => len * 0.5,
        2 => len * 1.5,
        3 => 0.0,
        4 => *rng.pick(&[35.0, 70.0, 140.0, 280.5]),
        _ => (len * (0.3 + rng.unit())).round(),
    };
    format!("{x},{y},{},2,0,{s},{},{length}", 1000 + rng.range(0, 100_000), rng.range(1, 3))
}

fn slider_map_text(rng: &mut Rng, version: u32, mode: u8, n: usize) -> String {
    let mut lines: Vec<(i64, String)> = (0..n)
        .map(|_| {
            let l = slider_text(rng);
            let t: i64 = l.split(',').nth(2).and_then(|t| t.parse().ok()).unwrap_or(0);
            (t, l)
        })
        .collect();
    lines.sort_by_key(|l| l.0);
    format!(
        "osu file format v{version}\n\n[General]\nMode: {mode}\n\n[Difficulty]\nSliderMultiplier:1.4\nSliderTickRate:1\n\n[TimingPoints]\n0,500,4,2,0,100,1,0\n\n[HitObjects]\n{}\n",
        lines.into_iter().map(|l| l.1).collect::<Vec<_>>().join("\n")
    )
}

fn cases_of_map(text: &str, mode: u8, limit: usize) -> Vec<Case> {
    let Ok(map) = decode(text) else { return Vec::new() };
    map.hit_objects
        .iter()
        .filter_map(|h| match &h.kind {
            HitObjectKind::Slider(s) => Some(Case {
                mode,
                cps: s.control_points.iter().map(|p| (p.pos.x, p.pos.y, letter_of(p.path_type))).collect(),
                expected: s.expected_dist,
            }),
            _ => None,
        })
        .take(limit)
        .collect()
}

fn h32(x: f32) -> String {
    format!("{:x}", x.to_bits())
}

fn h64(x: f64) -> String {
    format!("{:x}", x.to_bits())
}

/// One `PIPE catchcurve` line: the real catch `Difficulty::calculate` vs the composed model in which
/// `path.dist()` and every nested x position come from `Model/Curve.lean` (the line carries the
/// decoded control points and expected distance instead of the curve's outputs).
fn pipe_catch_curve(run: &mut Run, id: &str, text: &str, rng: &mut Rng) {
    use rosu_pp::catch::{verif as cv, Catch};
    let Ok(map) = decode(text) else {
        run.count("curvepipe:skipped:undecodable");
        return;
    };
    let settings = random_settings(rng, 2);
    let mut d = settings.build(2);
    if rng.chance(1, 3) {
        d = d.passed_objects(rng.below(40) as u32);
    }
    let (m2, d2) = (map.clone(), d.clone());
    let inputs = match guarded(move || cv::pipeline_inputs(&d2, &m2)) {
        Ok(Ok(i)) => i,
        Ok(Err(_)) => {
            run.count("curvepipe:skipped:not-convertible");
            return;
        }
        Err(e) => {
            run.fail("oracle:catch-pipeline-inputs-panic", "", id, e, text.to_owned());
            return;
        }
    };
    let (m3, d3) = (map.clone(), d.clone());
    let attrs = match guarded(move || d3.calculate_for_mode::<Catch>(&m3)) {
        Ok(Ok(a)) => a,
        Ok(Err(_)) => return,
        Err(e) => {
            run.fail("oracle:catch-calculate-panic", "", id, e, text.to_owned());
            return;
        }
    };
    if inputs.steps.len() != map.hit_objects.len() {
        run.count("curvepipe:skipped:step-count-mismatch");
        return;
    }
    let mut objs: Vec<String> = Vec::with_capacity(inputs.steps.len());
    let mut n_sliders = 0u64;
    for ((s, sl), h) in inputs.steps.iter().zip(inputs.sliders.iter()).zip(map.hit_objects.iter()) {
        match (s.kind, sl, &h.kind) {
            (0, _, _) => objs.push(format!("f:{}:{}", h32(s.x), h64(s.start_time))),
            (2, _, _) => objs.push(format!("b:{}", s.n_bananas)),
            (1, Some(i), HitObjectKind::Slider(sld)) => {
                n_sliders += 1;
                let cps: Vec<String> = sld.control_points.iter().map(|p| format!("{}~{}~{}", h32(p.pos.x), h32(p.pos.y), letter_of(p.path_type))).collect();
                objs.push(format!(
                    "S:{}:{}:{}:{}:{}:{}:{}:{}:{}",
                    h32(s.x),
                    h32(s.last_control_x),
                    i.start_time.to_bits(),
                    i.beat_len.to_bits(),
                    i.slider_velocity.to_bits(),
                    u8::from(i.generate_ticks),
                    i.span_count,
                    sld.expected_dist.map_or("-".to_owned(), h64),
                    if cps.is_empty() { "-".to_owned() } else { cps.join(",") }
                ));
            }
            _ => {
                run.count("curvepipe:skipped:kind-mismatch");
                return;
            }
        }
    }
    run.count("curvepipe:lines");
    run.count_n("curvepipe:sliders", n_sliders);
    run.count(&format!("curvepipe:stars:{}", if attrs.stars == 0.0 { "0" } else { ">0" }));
    run.repro.insert(id.to_owned(), text.to_owned());
    run.line(
        id,
        format!(
            "PIPE catchcurve {} {} {} {} {} {} {} {} {} {} - {}",
            inputs.version,
            inputs.slider_multiplier.to_bits(),
            inputs.slider_tick_rate.to_bits(),
            u8::from(inputs.hr_offsets),
            u8::from(inputs.reflect_horizontally),
            h32(inputs.cs),
            h64(inputs.ar),
            h64(inputs.clock_rate),
            u8::from(inputs.is_convert),
            if inputs.take == usize::MAX { "-".to_owned() } else { inputs.take.to_string() },
            if objs.is_empty() { "-".to_owned() } else { objs.join(";") }
        ),
        format!("{} {} {} {} {} {}", h64(attrs.stars), h64(attrs.ar), attrs.n_fruits, attrs.n_droplets, attrs.n_tiny_droplets, u8::from(attrs.is_convert)),
    );
    run.eval((n_sliders > 0).then_some(id));
}

/// `OSLDC` lines: every slider of an osu! map — what the real `OsuObject::new` stores (end time,
/// nested objects WITH their positions, lazy end position; through `osu::verif::conv_probe(..).raw`)
/// vs the model computing all of it from the control points (curve model + slider-event model).
fn osldc_lines(run: &mut Run, id: &str, text: &str) {
    use rosu_pp::osu::verif::{conv_probe, slider_inputs};
    let Ok(map) = decode(text) else { return };
    if map.mode != rosu_pp::model::mode::GameMode::Osu {
        return;
    }
    let d = rosu_pp::Difficulty::new();
    let m2 = map.clone();
    let Ok((probe, inputs)) = guarded(move || (conv_probe(&d, &m2), slider_inputs(&m2, MapMode::Osu))) else {
        run.fail("oracle:osu-conv-probe-panic", "", id, "conv_probe panicked".into(), text.to_owned());
        return;
    };
    if probe.raw.len() != map.hit_objects.len() || inputs.len() != map.hit_objects.len() {
        run.count("osldc:skipped:length-mismatch");
        return;
    }
    for (k, ((raw, inp), h)) in probe.raw.iter().zip(inputs.iter()).zip(map.hit_objects.iter()).enumerate() {
        let (Some(i), HitObjectKind::Slider(sld)) = (inp, &h.kind) else { continue };
        if raw.nested.len() > 20_000 {
            run.count("osldc:skipped:too-many-nested");
            continue;
        }
        let cps: Vec<String> = sld.control_points.iter().map(|p| format!("{}~{}~{}", h32(p.pos.x), h32(p.pos.y), letter_of(p.path_type))).collect();
        let req = format!(
            "OSLDC {} {} {} {}:{}:{}:{}:{} {} {} {}",
            map.version,
            map.slider_multiplier.to_bits(),
            map.slider_tick_rate.to_bits(),
            i.start_time.to_bits(),
            i.beat_len.to_bits(),
            i.slider_velocity.to_bits(),
            u8::from(i.generate_ticks),
            i.span_count,
            sld.expected_dist.map_or("-".to_owned(), h64),
            if cps.is_empty() { "-".to_owned() } else { cps.join(",") },
            raw.lazy_travel_time.to_bits()
        );
        let key = |t: f64| -> i128 {
            let b = t.to_bits();
            if b < 1 << 63 {
                i128::from(b)
            } else {
                -i128::from(b - (1 << 63)) - 1
            }
        };
        let mut nested: Vec<(i128, u8, u32, u32, String)> = raw
            .nested
            .iter()
            .map(|n| (key(n.start_time), n.kind, n.pos.x.to_bits(), n.pos.y.to_bits(), format!("{}:{}:{}", n.kind, show_d(n.start_time), show_pos(n.pos))))
            .collect();
        nested.sort();
        let items: Vec<String> = nested.into_iter().map(|n| n.4).collect();
        let obs = format!("{}|{}|{}|{}", show_d(raw.end_time), show_long(&items), show_pos(raw.lazy_end_pos), show_d(i.dist));
        let lid = format!("{id}:{k}");
        run.count("osldc:lines");
        run.count(&format!("osldc:nested:{}", bucket(items.len())));
        run.repro.insert(lid.clone(), req.clone());
        run.eval((items.len() > 1).then_some(req.as_str()));
        run.line(&lid, req, obs);
    }
}

fn pipe_lines(run: &mut Run, thorough: bool, rng: &mut Rng, want: &dyn Fn(&str) -> bool) {
    let n_maps = if thorough { 1500 } else { 150 };
    for i in 0..n_maps {
        let id = format!("curve:pipe:{i}");
        let version = *rng.pick(&[5u32, 7, 9, 14, 14, 128]);
        let mode = *rng.pick(&[2u8, 2, 0]);
        let text = slider_map_text(rng, version, mode, 10);
        if want(&id) {
            pipe_catch_curve(run, &id, &text, rng);
        }
    }
    for i in 0..(if thorough { 1200 } else { 120 }) {
        let id = format!("curve:osldc:{i}");
        let version = *rng.pick(&[5u32, 7, 9, 14, 14, 128]);
        let text = slider_map_text(rng, version, 0, 10);
        if want(&id) {
            osldc_lines(run, &id, &text);
        }
    }
    for (mode, text) in resource_maps() {
        if mode == 0 && want("curve:osldc:res") {
            osldc_lines(run, "curve:osldc:res", &if thorough { text.clone() } else { truncate_objects(&text, 200) });
        }
    }
    for (mode, text) in resource_maps() {
        if mode == 0 || mode == 2 {
            let id = format!("curve:pipe:res:{mode}");
            let t = if thorough { text.clone() } else { truncate_objects(&text, 150) };
            if want(&id) {
                pipe_catch_curve(run, &id, &t, rng);
            }
        }
    }
}

pub fn run(run: &mut Run, tier: &str, seed: u64, only: Option<&str>) {
    if only.is_some_and(|o| !o.starts_with("curve")) {
        return;
    }
    let want = |id: &str| only.is_none_or(|o| o == id || o == "curve:*");
    let thorough = tier == "thorough";
    let mut rng = Rng::new(seed ^ 0xC0_57E5);
    let mut alive = true;
    // 1. hand-made corners
    for (name, c) in hand_made() {
        let id = format!("curve:hand:{}:{name}", c.mode);
        if alive && want(&id) {
            alive = curve_line(run, &id, &c, "hand-made");
        }
    }
    // 2. every path type x 1..=12 control points, systematic
    for first in ['L', 'B', 'P', 'C', 'n'] {
        for n in 1..=12usize {
            for rep in 0..(if thorough { 6 } else { 2 }) {
                let id = format!("curve:grid:{first}:{n}:{rep}");
                let pts = random_points(&mut rng, n, if rep % 2 == 0 { 0 } else { 1 });
                let expected = expected_for(&mut rng, &pts);
                let c = Case { mode: if rep % 2 == 0 { 0 } else { 2 }, cps: typed(&mut rng, &pts, first, false), expected };
                if alive && want(&id) {
                    alive = curve_line(run, &id, &c, "grid");
                }
            }
        }
    }
    // 3. random control-point lists, arcs
    let (n_random, n_arc) = if thorough { (30_000, 8_000) } else { (2_500, 800) };
    for i in 0..n_random {
        let id = format!("curve:rnd:{i}");
        let (c, fam) = random_case(&mut rng);
        if alive && want(&id) {
            alive = curve_line(run, &id, &c, fam);
        }
    }
    for i in 0..n_arc {
        let id = format!("curve:arc:{i}");
        let c = arc_case(&mut rng);
        if alive && want(&id) {
            alive = curve_line(run, &id, &c, "arc");
        }
    }
    for i in 0..(if thorough { 600 } else { 120 }) {
        let id = format!("curve:arccap:{i}");
        let c = arc_cap_case(&mut rng);
        if alive && want(&id) {
            alive = curve_line(run, &id, &c, "arc-cap");
        }
    }
    // 4. sliders of decoded maps (the decoder's segmentation incl. legacy catmull), resource maps
    let n_maps = if thorough { 400 } else { 40 };
    let mut map_cases: Vec<(String, Case)> = Vec::new();
    for i in 0..n_maps {
        let version = *rng.pick(&[5u32, 7, 9, 14, 14, 128]);
        let mode = *rng.pick(&[0u8, 0, 2, 3]);
        let text = slider_map_text(&mut rng, version, mode, 12);
        for (k, c) in cases_of_map(&text, mode, 50).into_iter().enumerate() {
            map_cases.push((format!("curve:map:{i}:{k}"), c));
        }
    }
    for (mode, text) in resource_maps() {
        let limit = if thorough { usize::MAX } else { 120 };
        for target in if mode == 0 { vec![0u8, 2, 3] } else { vec![mode] } {
            for (k, c) in cases_of_map(&text, target, limit).into_iter().enumerate() {
                map_cases.push((format!("curve:res:{mode}:{target}:{k}"), c));
            }
        }
    }
    for (id, c) in &map_cases {
        if alive && want(id) {
            let fam = if id.starts_with("curve:res") { "resource-map" } else { "decoded-map" };
            alive = curve_line(run, id, c, fam);
        }
    }
    // 5. sequences on one CurveBuffers (BorrowedCurve::new), incl. a slider without control points
    let n_seq = if thorough { 600 } else { 80 };
    for i in 0..n_seq {
        let id = format!("curve:seq:{i}");
        let mode = *rng.pick(&[0u8, 2, 3]);
        let len = rng.range(2, 6) as usize;
        let mut cases: Vec<Case> = (0..len)
            .map(|_| {
                let mut c = if !map_cases.is_empty() && rng.chance(1, 2) { rng.pick(&map_cases).1.clone() } else { random_case(&mut rng).0 };
                c.mode = mode;
                c
            })
            .collect();
        if rng.chance(1, 4) {
            let at = rng.below(cases.len() as u64) as usize;
            let expected = *rng.pick(&[None, Some(0.0), Some(50.0), Some(1e4)]);
            cases.insert(at, Case { mode, cps: vec![], expected });
        }
        if alive && want(&id) {
            alive = curves_line(run, &id, mode, &cases);
        }
    }
    // 6. the catch pipeline with the curve inside the model (PIPE catchcurve lines)
    if alive {
        pipe_lines(run, thorough, &mut rng, &want);
    }
    if !alive {
        run.notes.push("curve lines stopped after a hang of the real code".to_owned());
    }
}
